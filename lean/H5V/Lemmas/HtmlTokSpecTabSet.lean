import H5V.Lemmas.HtmlTokSpecTac
/-!
# C01 simulation — table lemmas for the states read with `pop_except_from` (`transSet`):
data, RCDATA, RAWTEXT, script data (escaped, double escaped), PLAINTEXT, the three attribute value
states — on a character delivered as `FromSet` (any character other than `&`, which starts a
character reference and is treated with the character references) and on a one-character run
`NotFromSet`
-/
set_option linter.unusedSimpArgs false
set_option linter.unusedVariables false
namespace H5V.Lemmas.HtmlTokSpec
open H5V.Model.HtmlTok
open H5V.Spec.HtmlTokenizer (St Tok Emit Tree Switch Ctl ReturnSt)

@[simp] theorem toSt_data (r : ReturnSt) : r.toSt = .data ↔ r = .data := by cases r <;> simp [ReturnSt.toSt]
@[simp] theorem toSt_rcdata (r : ReturnSt) : r.toSt = .rcdata ↔ r = .rcdata := by cases r <;> simp [ReturnSt.toSt]
@[simp] theorem toSt_dq (r : ReturnSt) :
    r.toSt = .attributeValueDoubleQuoted ↔ r = .attributeValueDoubleQuoted := by cases r <;> simp [ReturnSt.toSt]
@[simp] theorem toSt_sq (r : ReturnSt) :
    r.toSt = .attributeValueSingleQuoted ↔ r = .attributeValueSingleQuoted := by cases r <;> simp [ReturnSt.toSt]
@[simp] theorem toSt_uq (r : ReturnSt) :
    r.toSt = .attributeValueUnquoted ↔ r = .attributeValueUnquoted := by cases r <;> simp [ReturnSt.toSt]

/-- like `tab_state`, for `transSet … (.fromSet c)`; `hd` decides whether `c` is a digit (the ambiguous
ampersand state of the specification wants to know) -/
macro "set_state" h:ident hs:ident c:ident "[" ls:term,* "]" : tactic => `(tactic| (
  obtain ⟨hstd, hst, hcr, hreg, hout⟩ := $h
  simp [$hs:ident, stOf, altSt, isRet] at hst
  simp [RegRel, AttrRel, $hs:ident, isTagSt, needsCur, usesTemp, usesComment, usesDoctype] at hreg
  simp [OutRel, cdataBuf, isCdata, $hs:ident] at hout
  unfold transSet
  simp only [$hs:ident]
  repeat' (rcases hst with hst | hst)
  all_goals (try (obtain ⟨hst, hrs⟩ := hst))
  all_goals (by_cases hd : H5V.Spec.HtmlTokenizer.isAsciiDigit $c = true)
  all_goals (try simp only [Bool.not_eq_true] at hd)
  all_goals (tab_cases $c [$ls,*])))

set_option maxHeartbeats 1600000 in
theorem set_data (o : Opts) (ho : o.exactErrors = false) (pol : Pol) (tree : Tree) (m : Mach) (t : Tok)
    (c : Char) (rest : Str) (h : RegCore m t) (hr : m.reconsume = false) (hs : m.state = .data)
    (hamp : c ≠ '&') : TabOk tree t c rest (transSet o pol m (.fromSet c)) := by
  set_state h hs c ['\x00', '&', '<', ';']

set_option maxHeartbeats 1600000 in
theorem set_rcdata (o : Opts) (ho : o.exactErrors = false) (pol : Pol) (tree : Tree) (m : Mach) (t : Tok)
    (c : Char) (rest : Str) (h : RegCore m t) (hr : m.reconsume = false) (hs : m.state = .rawData .rcdata)
    (hamp : c ≠ '&') : TabOk tree t c rest (transSet o pol m (.fromSet c)) := by
  set_state h hs c ['\x00', '&', '<', ';']

set_option maxHeartbeats 1600000 in
theorem set_rawtext (o : Opts) (ho : o.exactErrors = false) (pol : Pol) (tree : Tree) (m : Mach) (t : Tok)
    (c : Char) (rest : Str) (h : RegCore m t) (hr : m.reconsume = false) (hs : m.state = .rawData .rawtext)
     : TabOk tree t c rest (transSet o pol m (.fromSet c)) := by
  set_state h hs c ['\x00', '<']

set_option maxHeartbeats 1600000 in
theorem set_scriptData (o : Opts) (ho : o.exactErrors = false) (pol : Pol) (tree : Tree) (m : Mach) (t : Tok)
    (c : Char) (rest : Str) (h : RegCore m t) (hr : m.reconsume = false) (hs : m.state = .rawData .scriptData)
     : TabOk tree t c rest (transSet o pol m (.fromSet c)) := by
  set_state h hs c ['\x00', '<']

set_option maxHeartbeats 1600000 in
theorem set_scriptDataEscaped (o : Opts) (ho : o.exactErrors = false) (pol : Pol) (tree : Tree) (m : Mach) (t : Tok)
    (c : Char) (rest : Str) (h : RegCore m t) (hr : m.reconsume = false) (hs : m.state = .rawData (.scriptDataEscaped .escaped))
     : TabOk tree t c rest (transSet o pol m (.fromSet c)) := by
  set_state h hs c ['\x00', '<', '-']

set_option maxHeartbeats 1600000 in
theorem set_scriptDataDoubleEscaped (o : Opts) (ho : o.exactErrors = false) (pol : Pol) (tree : Tree) (m : Mach) (t : Tok)
    (c : Char) (rest : Str) (h : RegCore m t) (hr : m.reconsume = false) (hs : m.state = .rawData (.scriptDataEscaped .doubleEscaped))
     : TabOk tree t c rest (transSet o pol m (.fromSet c)) := by
  set_state h hs c ['\x00', '<', '-']

set_option maxHeartbeats 1600000 in
theorem set_plaintext (o : Opts) (ho : o.exactErrors = false) (pol : Pol) (tree : Tree) (m : Mach) (t : Tok)
    (c : Char) (rest : Str) (h : RegCore m t) (hr : m.reconsume = false) (hs : m.state = .plaintext)
     : TabOk tree t c rest (transSet o pol m (.fromSet c)) := by
  set_state h hs c ['\x00']

set_option maxHeartbeats 1600000 in
theorem set_attrDq (o : Opts) (ho : o.exactErrors = false) (pol : Pol) (tree : Tree) (m : Mach) (t : Tok)
    (c : Char) (rest : Str) (h : RegCore m t) (hr : m.reconsume = false) (hs : m.state = .attributeValue .doubleQuoted)
    (hamp : c ≠ '&') : TabOk tree t c rest (transSet o pol m (.fromSet c)) := by
  set_state h hs c ['\x00', '&', '"', ';']

set_option maxHeartbeats 1600000 in
theorem set_attrSq (o : Opts) (ho : o.exactErrors = false) (pol : Pol) (tree : Tree) (m : Mach) (t : Tok)
    (c : Char) (rest : Str) (h : RegCore m t) (hr : m.reconsume = false) (hs : m.state = .attributeValue .singleQuoted)
    (hamp : c ≠ '&') : TabOk tree t c rest (transSet o pol m (.fromSet c)) := by
  set_state h hs c ['\x00', '&', '\'', ';']

/-! ## attribute value (unquoted): the `>` leaf emits the tag -/

set_option maxHeartbeats 1600000 in
theorem set_attrUq (o : Opts) (ho : o.exactErrors = false) (pol : Pol) (tree : Tree) (hpt : PolTree pol tree)
    (m : Mach) (t : Tok) (c : Char) (rest : Str) (h : RegCore m t) (hr : m.reconsume = false)
    (hs : m.state = .attributeValue .unquoted) (hamp : c ≠ '&') :
    TabOk tree t c rest (transSet o pol m (.fromSet c)) := by
  by_cases hgt : c = '>'
  · subst hgt
    obtain ⟨hstd, hst, hcr, hreg, hout⟩ := h
    simp [hs, stOf, altSt, isRet] at hst
    simp [RegRel, AttrRel, hs, isTagSt, needsCur, usesTemp, usesComment, usesDoctype] at hreg
    simp [OutRel, cdataBuf, isCdata, hs] at hout
    obtain ⟨r1, ⟨r2, r3, r4, r5⟩, r6, rcm⟩ := hreg
    have hm : transSet o pol m (.fromSet '>') = emitTag pol .data m := by
      unfold transSet; simp (config := {decide := true}) [hs, isWs]
    rw [hm]
    rcases hst with hst | ⟨hst, hrs⟩
    · refine tabOk_gt pol tree hpt m t t t rest (Or.inl rfl) ?_ hcr hr r1 r2 r3 r4 r5 hout rcm
      simp [sstep, H5V.Spec.HtmlTokenizer.step, hst, H5V.Spec.HtmlTokenizer.attributeValueUnquotedState, Tok.done]
    · refine tabOk_gt pol tree hpt m t { t with state := .attributeValueUnquoted } t rest (Or.inr ?_) ?_ hcr hr
        r1 r2 r3 r4 r5 hout rcm
      · simp [sstep, H5V.Spec.HtmlTokenizer.step, hst, hrs, H5V.Spec.HtmlTokenizer.ambiguousAmpersandState,
          Tok.reconsumeIn, ReturnSt.toSt, H5V.Spec.HtmlTokenizer.isAsciiAlphanumeric,
          H5V.Spec.HtmlTokenizer.isAsciiDigit, H5V.Spec.HtmlTokenizer.isAsciiAlpha,
          H5V.Spec.HtmlTokenizer.isAsciiUpperAlpha, H5V.Spec.HtmlTokenizer.isAsciiLowerAlpha]
      · simp [sstep, H5V.Spec.HtmlTokenizer.step, H5V.Spec.HtmlTokenizer.attributeValueUnquotedState, Tok.done,
          Tok.setState]
  · set_state h hs c ['\x00', '&', '>', '\t', '\n', '\x0c', ' ', '"', '\'', '<', '=', '`', ';']

/-! ## one-character runs (`NotFromSet`): the character is not in the state's set -/

/-- like `set_state`, for `transSet … (.notFromSet [c])`; `hnot : c ∉ setOf m.state` -/
macro "nset_state" h:ident hs:ident hnot:ident c:ident "[" ls:term,* "]" : tactic => `(tactic| (
  obtain ⟨hstd, hst, hcr, hreg, hout⟩ := $h
  simp [$hs:ident, stOf, altSt, isRet] at hst
  simp [RegRel, AttrRel, $hs:ident, isTagSt, needsCur, usesTemp, usesComment, usesDoctype] at hreg
  simp [OutRel, cdataBuf, isCdata, $hs:ident] at hout
  simp [$hs:ident, setOf] at $hnot:ident
  unfold transSet
  simp only [$hs:ident]
  repeat' (rcases hst with hst | hst)
  all_goals (try (obtain ⟨hst, hrs⟩ := hst))
  all_goals (by_cases hd : H5V.Spec.HtmlTokenizer.isAsciiDigit $c = true)
  all_goals (try simp only [Bool.not_eq_true] at hd)
  all_goals (tab_cases $c [$ls,*])))

set_option maxHeartbeats 1600000 in
theorem nset_data (o : Opts) (ho : o.exactErrors = false) (pol : Pol) (tree : Tree) (m : Mach) (t : Tok)
    (c : Char) (rest : Str) (h : RegCore m t) (hr : m.reconsume = false) (hs : m.state = .data)
    (hnot : c ∉ setOf m.state) : TabOk tree t c rest (transSet o pol m (.notFromSet [c])) := by
  nset_state h hs hnot c [';']

set_option maxHeartbeats 1600000 in
theorem nset_rcdata (o : Opts) (ho : o.exactErrors = false) (pol : Pol) (tree : Tree) (m : Mach) (t : Tok)
    (c : Char) (rest : Str) (h : RegCore m t) (hr : m.reconsume = false) (hs : m.state = .rawData .rcdata)
    (hnot : c ∉ setOf m.state) : TabOk tree t c rest (transSet o pol m (.notFromSet [c])) := by
  nset_state h hs hnot c [';']

set_option maxHeartbeats 1600000 in
theorem nset_rawtext (o : Opts) (ho : o.exactErrors = false) (pol : Pol) (tree : Tree) (m : Mach) (t : Tok)
    (c : Char) (rest : Str) (h : RegCore m t) (hr : m.reconsume = false) (hs : m.state = .rawData .rawtext)
    (hnot : c ∉ setOf m.state) : TabOk tree t c rest (transSet o pol m (.notFromSet [c])) := by
  nset_state h hs hnot c [';']

set_option maxHeartbeats 1600000 in
theorem nset_scriptData (o : Opts) (ho : o.exactErrors = false) (pol : Pol) (tree : Tree) (m : Mach) (t : Tok)
    (c : Char) (rest : Str) (h : RegCore m t) (hr : m.reconsume = false) (hs : m.state = .rawData .scriptData)
    (hnot : c ∉ setOf m.state) : TabOk tree t c rest (transSet o pol m (.notFromSet [c])) := by
  nset_state h hs hnot c [';']

set_option maxHeartbeats 1600000 in
theorem nset_scriptDataEscaped (o : Opts) (ho : o.exactErrors = false) (pol : Pol) (tree : Tree) (m : Mach) (t : Tok)
    (c : Char) (rest : Str) (h : RegCore m t) (hr : m.reconsume = false) (hs : m.state = .rawData (.scriptDataEscaped .escaped))
    (hnot : c ∉ setOf m.state) : TabOk tree t c rest (transSet o pol m (.notFromSet [c])) := by
  nset_state h hs hnot c [';']

set_option maxHeartbeats 1600000 in
theorem nset_scriptDataDoubleEscaped (o : Opts) (ho : o.exactErrors = false) (pol : Pol) (tree : Tree) (m : Mach) (t : Tok)
    (c : Char) (rest : Str) (h : RegCore m t) (hr : m.reconsume = false) (hs : m.state = .rawData (.scriptDataEscaped .doubleEscaped))
    (hnot : c ∉ setOf m.state) : TabOk tree t c rest (transSet o pol m (.notFromSet [c])) := by
  nset_state h hs hnot c [';']

set_option maxHeartbeats 1600000 in
theorem nset_plaintext (o : Opts) (ho : o.exactErrors = false) (pol : Pol) (tree : Tree) (m : Mach) (t : Tok)
    (c : Char) (rest : Str) (h : RegCore m t) (hr : m.reconsume = false) (hs : m.state = .plaintext)
    (hnot : c ∉ setOf m.state) : TabOk tree t c rest (transSet o pol m (.notFromSet [c])) := by
  nset_state h hs hnot c [';']

set_option maxHeartbeats 1600000 in
theorem nset_attrDq (o : Opts) (ho : o.exactErrors = false) (pol : Pol) (tree : Tree) (m : Mach) (t : Tok)
    (c : Char) (rest : Str) (h : RegCore m t) (hr : m.reconsume = false) (hs : m.state = .attributeValue .doubleQuoted)
    (hnot : c ∉ setOf m.state) : TabOk tree t c rest (transSet o pol m (.notFromSet [c])) := by
  nset_state h hs hnot c [';']

set_option maxHeartbeats 1600000 in
theorem nset_attrSq (o : Opts) (ho : o.exactErrors = false) (pol : Pol) (tree : Tree) (m : Mach) (t : Tok)
    (c : Char) (rest : Str) (h : RegCore m t) (hr : m.reconsume = false) (hs : m.state = .attributeValue .singleQuoted)
    (hnot : c ∉ setOf m.state) : TabOk tree t c rest (transSet o pol m (.notFromSet [c])) := by
  nset_state h hs hnot c [';']

set_option maxHeartbeats 1600000 in
theorem nset_attrUq (o : Opts) (ho : o.exactErrors = false) (pol : Pol) (tree : Tree) (m : Mach) (t : Tok)
    (c : Char) (rest : Str) (h : RegCore m t) (hr : m.reconsume = false) (hs : m.state = .attributeValue .unquoted)
    (hnot : c ∉ setOf m.state) : TabOk tree t c rest (transSet o pol m (.notFromSet [c])) := by
  nset_state h hs hnot c [';']

end H5V.Lemmas.HtmlTokSpec
