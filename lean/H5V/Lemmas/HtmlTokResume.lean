import H5V.Lemmas.HtmlTokStep
/-!
Resumability of `Tokenizer::step`: a suspended step, re-executed after more input arrived, behaves
like the step on the concatenated input (up to a dead `current_char`).
-/
namespace H5V.Model.HtmlTok

/-- invariant of the machine at step boundaries that the look-ahead discipline relies on -/
structure Good (m : Mach) : Prop where
  eatOk : (m.state = .markupDeclarationOpen ∨ m.state = .afterDoctypeName) → EatOk m
  tagOpen : m.state = .tagOpen → m.reconsume = false
  unq : m.state = .attributeValue .unquoted → m.ignoreLf = false

theorem deadCC_setCurrentChar (m : Mach) (a : Char) : deadCC (m.setCurrentChar a) ↔ deadCC m := by
  unfold deadCC; simp

theorem Sim.symm {m1 m2 : Mach} (h : Sim m1 m2) : Sim m2 m1 := by
  rcases h with h | ⟨hd, a, ha⟩
  · exact Or.inl h.symm
  · subst ha
    exact Or.inr ⟨(deadCC_setCurrentChar m1 a).mpr hd, m1.currentChar, rfl⟩

theorem Sim.trans {m1 m2 m3 : Mach} (h12 : Sim m1 m2) (h23 : Sim m2 m3) : Sim m1 m3 := by
  rcases h12 with h | ⟨hd, a, ha⟩
  · subst h; exact h23
  · subst ha
    rcases h23 with h | ⟨_, b, hb⟩
    · subst h; exact Or.inr ⟨hd, a, rfl⟩
    · subst hb; exact Or.inr ⟨hd, b, rfl⟩

theorem Sim.out {m1 m2 : Mach} (h : Sim m1 m2) : m1.out = m2.out := by
  rcases h with h | ⟨_, a, ha⟩
  · rw [h]
  · subst ha; rfl

/-- suspended `step`s leave no input behind (while more input may still come) -/
theorem peek_some_of_cons (m : Mach) (x : Char) (xs : Str) : ∃ c, peek m (x :: xs) = some c := by
  unfold peek; split <;> simp

/-! ### resume: get_char states -/

theorem resume_getChar (o : Opts) (pol : Pol) (m m' : Mach) (inp inp' e : Str)
    (hcr : m.charRef = none) (hrk : readKind m.state = .getChar)
    (h : getChar o m inp = (none, m', inp')) :
    inp' = [] ∧ step o pol m' e = step o pol m (inp ++ e) := by
  have hres := getChar_resume o m m' inp inp' e h
  obtain ⟨h1, h2, h3⟩ := getChar_none o m m' inp inp' h
  subst h1
  refine ⟨rfl, ?_⟩
  have hs : m'.state = m.state ∧ m'.charRef = m.charRef := by
    rcases h3 with ⟨_, h4⟩ | ⟨_, _, h4⟩ <;> subst h4 <;> simp
  unfold step
  simp only [hs.2, hcr, hs.1, hrk]
  simp only [List.nil_append] at hres
  rw [hres]

/-! ### resume: pop_except_from states -/

theorem popExceptFrom_nil (o : Opts) (S : List Char) (m : Mach) (hr : m.reconsume = false) :
    popExceptFrom o S m [] = (none, m, []) := by
  unfold popExceptFrom getChar
  split <;> simp [hr]

theorem preprocess_plain (o : Opts) (m : Mach) (x : Char) (xs : Str) (h : m.ignoreLf = false) :
    preprocess o m x xs = (some (foldChar o m x).1, (foldChar o m x).2, xs) := by
  unfold preprocess; simp [h]

/-- the continuation of a `pop_except_from` state after its read -/
def contSet (o : Opts) (pol : Pol) (r : Option SetRes × Mach × Str) : R :=
  match r with
  | (none, m, inp) => .suspend m inp
  | (some r, m, inp) => ofSig (transSet o pol m r) inp

theorem step_popExcept (o : Opts) (pol : Pol) (m : Mach) (inp : Str)
    (hcr : m.charRef = none) (hrk : readKind m.state = .popExcept) :
    step o pol m inp = contSet o pol (popExceptFrom o (setOf m.state) m inp) := by
  cases hp : popExceptFrom o (setOf m.state) m inp with
  | mk a b =>
    obtain ⟨m1, i1⟩ := b
    cases a <;> simp [step, contSet, hcr, hrk, hp]

theorem step_dataSimd (o : Opts) (pol : Pol) (m : Mach) (inp : Str)
    (hcr : m.charRef = none) (hrk : readKind m.state = .dataSimd) :
    step o pol m inp = contSet o pol (readData o m inp) := by
  cases hp : readData o m inp with
  | mk a b =>
    obtain ⟨m1, i1⟩ := b
    cases a <;> simp [step, contSet, hcr, hrk, hp]

/-- the heart of the matter: after the LF of a CRLF was swallowed at the end of the input, reading
the next character on the fast path (resumed) or on the slow path (one piece) leads to the same
result up to the dead `current_char` -/
theorem resume_lf_core (o : Opts) (pol : Pol) (m : Mach) (x : Char) (xs : Str) (S : List Char)
    (hS : S = setOf m.state)
    (hk : readKind m.state = .popExcept ∨ readKind m.state = .dataSimd)
    (hcr : m.charRef = none) (hr : m.reconsume = false) (hil : m.ignoreLf = false)
    (hu : m.state ≠ .attributeValue .unquoted)
    (fast : Option SetRes × Mach × Str)
    (hfast : fast = (some (.fromSet (foldChar o m x).1), (foldChar o m x).2, xs) ∨
             (o.exactErrors = false ∧ S.contains x = false ∧ fast = (some (.notFromSet [x]), m, xs))) :
    RSim (contSet o pol (some (.fromSet (foldChar o m x).1), (foldChar o m x).2, xs))
         (contSet o pol fast) := by
  rcases hfast with h | ⟨hex, hx, h⟩
  · rw [h]; exact RSim.refl _
  · subst h
    have hcrlf := setOf_crlf m.state hk
    have hxr : x ≠ '\r' := by
      intro h; subst h; rw [hS] at hx; rw [hcrlf.1] at hx; exact absurd hx (by simp)
    have hxn : x ≠ '\n' := by
      intro h; subst h; rw [hS] at hx; rw [hcrlf.2] at hx; exact absurd hx (by simp)
    rw [foldChar_plain o m x hex hxr hxn]
    simp only [contSet]
    rw [transSet_dead o pol m x x hk (hS ▸ hx) hu]
    obtain ⟨hst, hcr', _⟩ := transSet_notFromSet o pol m [x]
    have hrec := transSet_reconsume o pol m (.notFromSet [x])
    generalize transSet o pol m (.notFromSet [x]) = T at hst hcr' hrec ⊢
    obtain ⟨T1, T2⟩ := T
    simp only at hst hcr' hrec ⊢
    have hdead : deadCC T1 := ⟨by rw [hrec, hr], by rw [hcr', hcr], by rw [hst]; exact hk⟩
    have hsim : Sim (T1.setCurrentChar x) T1 :=
      Sim.symm (Or.inr ⟨hdead, x, rfl⟩)
    unfold ofSig
    cases T2 <;> simp [RSim, hsim]

theorem resume_popExcept (o : Opts) (pol : Pol) (m m' : Mach) (inp inp' e : Str)
    (hg : Good m) (hcr : m.charRef = none) (hrk : readKind m.state = .popExcept)
    (h : popExceptFrom o (setOf m.state) m inp = (none, m', inp')) :
    inp' = [] ∧ RSim (step o pol m (inp ++ e)) (step o pol m' e) := by
  obtain ⟨h1, h2, h3⟩ := popExceptFrom_none o _ m m' inp inp' h
  subst h1
  refine ⟨rfl, ?_⟩
  rcases h3 with ⟨h3, h4⟩ | ⟨h3, hil, h4⟩
  · subst h3 h4; exact RSim.refl _
  · subst h3 h4
    have hst : (m.setIgnoreLf false).state = m.state := by simp
    have hu : m.state ≠ .attributeValue .unquoted := by
      intro hs; have := hg.unq hs; rw [this] at hil; exact absurd hil (by simp)
    rw [step_popExcept o pol m _ hcr hrk, step_popExcept o pol (m.setIgnoreLf false) e (by simp [hcr]) (by simp [hrk])]
    simp only [hst]
    -- left: slow path through get_char
    have hl : popExceptFrom o (setOf m.state) m (['\n'] ++ e) =
        ((preprocess o m '\n' e).1.map .fromSet, (preprocess o m '\n' e).2) := by
      unfold popExceptFrom getChar
      simp [hil, h2]
    rw [hl]
    cases e with
    | nil =>
      have : preprocess o m '\n' [] = (none, m.setIgnoreLf false, []) := by
        unfold preprocess; simp [hil]
      rw [this, popExceptFrom_nil o _ _ (by simp [h2])]
      exact RSim.refl _
    | cons x xs =>
      rw [preprocess_resume o m x xs hil, preprocess_plain o _ x xs (by simp)]
      simp only [Option.map_some]
      apply resume_lf_core o pol (m.setIgnoreLf false) x xs (setOf m.state) (by simp)
        (by simp [hrk]) (by simp [hcr]) (by simp [h2]) (by simp) (by simpa using hu)
      -- right: whichever path the resumed read takes
      unfold popExceptFrom
      by_cases hex : o.exactErrors = true
      · left
        simp [hex, getChar, h2, preprocess_plain]
      · have hex' : o.exactErrors = false := by simpa using hex
        simp only [hex', setIgnoreLf_reconsume, h2, setIgnoreLf_ignoreLf, Bool.or_self,
          Bool.false_eq_true, ↓reduceIte]
        by_cases hx : (setOf m.state).contains x = true
        · left
          have hmem : x ∈ setOf m.state := by simpa using hx
          simp [hmem, preprocess_plain]
        · right
          have hx' : (setOf m.state).contains x = false := by simpa using hx
          have hmem : x ∉ setOf m.state := by simpa using hx'
          refine ⟨trivial, hx', ?_⟩
          simp [hmem]

theorem readData_nil (o : Opts) (m : Mach) (hr : m.reconsume = false) :
    readData o m [] = (none, m, []) := by
  unfold readData
  split
  · exact popExceptFrom_nil o _ m hr
  · rfl

theorem resume_dataSimd (o : Opts) (pol : Pol) (m m' : Mach) (inp inp' e : Str)
    (hcr : m.charRef = none) (hrk : readKind m.state = .dataSimd)
    (h : readData o m inp = (none, m', inp')) :
    inp' = [] ∧ RSim (step o pol m (inp ++ e)) (step o pol m' e) := by
  obtain ⟨h1, h2, h3⟩ := readData_none o m m' inp inp' h
  subst h1
  refine ⟨rfl, ?_⟩
  have hsd : m.state = .data := by
    cases hs : m.state <;> simp [hs, readKind] at hrk ⊢
  rcases h3 with ⟨h3, h4⟩ | ⟨h3, hil, h4⟩
  · subst h3 h4; exact RSim.refl _
  · subst h3 h4
    have hst : (m.setIgnoreLf false).state = m.state := by simp
    have hu : m.state ≠ .attributeValue .unquoted := by rw [hsd]; simp
    rw [step_dataSimd o pol m _ hcr hrk, step_dataSimd o pol (m.setIgnoreLf false) e (by simp [hcr]) (by simp [hrk])]
    have hl : readData o m (['\n'] ++ e) =
        ((preprocess o m '\n' e).1.map .fromSet, (preprocess o m '\n' e).2) := by
      unfold readData popExceptFrom getChar
      simp [hil, h2]
    rw [hl]
    cases e with
    | nil =>
      have : preprocess o m '\n' [] = (none, m.setIgnoreLf false, []) := by
        unfold preprocess; simp [hil]
      rw [this, readData_nil o _ (by simp [h2])]
      exact RSim.refl _
    | cons x xs =>
      rw [preprocess_resume o m x xs hil, preprocess_plain o _ x xs (by simp)]
      simp only [Option.map_some]
      apply resume_lf_core o pol (m.setIgnoreLf false) x xs (setOf .data) (by simp [hsd])
        (by simp [hrk]) (by simp [hcr]) (by simp [h2]) (by simp) (by simpa using hu)
      unfold readData popExceptFrom
      by_cases hex : o.exactErrors = true
      · left
        simp [hex, getChar, h2, preprocess_plain]
      · have hex' : o.exactErrors = false := by simpa using hex
        simp only [hex', setIgnoreLf_reconsume, h2, setIgnoreLf_ignoreLf, Bool.or_self,
          Bool.false_eq_true, ↓reduceIte]
        by_cases hx : (setOf State.data).contains x = true
        · left
          have hmem : x ∈ setOf State.data := by simpa using hx
          have hmem2 : x ∈ simdFirst := hmem
          simp [hmem, hmem2, preprocess_plain]
        · right
          have hx' : (setOf State.data).contains x = false := by simpa using hx
          have hmem : x ∉ simdFirst := by
            have : x ∉ setOf State.data := by simpa using hx'
            exact this
          have hxn : x ≠ '\n' := by
            intro h; subst h; exact absurd hx' (by decide)
          refine ⟨trivial, hx', ?_⟩
          simp [hmem, hxn]

/-! ### resume: character-reference sub-tokenizer, before-attribute-value -/

def CRRes.notStuck (r : CRRes) : Prop :=
  match r with
  | .ok (_, _, _, .stuck) => False
  | _ => True

theorem unconsumeNumeric_notStuck (m : Mach) (inp : Str) (cr : CharRefSt) :
    (unconsumeNumeric m inp cr).notStuck := by
  simp [unconsumeNumeric, CRRes.notStuck]

theorem finishNumericStatus_notStuck (o : Opts) (m : Mach) (inp : Str) (cr : CharRefSt) :
    (finishNumericStatus o m inp cr).notStuck := by
  unfold finishNumericStatus
  split <;> simp [CRRes.notStuck]

theorem finishNamed_notStuck (o : Opts) (m : Mach) (inp : Str) (cr : CharRefSt) (ec : Option Char) :
    (finishNamed o m inp cr ec).notStuck := by
  unfold finishNamed
  repeat' split
  all_goals
    first
      | (simp [CRRes.notStuck]; done)
      | (dsimp only; split <;> simp [CRRes.notStuck])

theorem crStep_notStuck (o : Opts) (m : Mach) (inp : Str) (cr : CharRefSt) (c : Char)
    (h : peek m inp = some c) : (crStep o m inp cr).notStuck := by
  unfold crStep
  simp only [h]
  repeat' split
  all_goals
    first
      | exact unconsumeNumeric_notStuck _ _ _
      | exact finishNumericStatus_notStuck _ _ _ _
      | exact finishNamed_notStuck _ _ _ _ _
      | simp [CRRes.notStuck]

theorem setCharRef_self (m : Mach) (cr : Option CharRefSt) (h : m.charRef = cr) : m.setCharRef cr = m := by
  cases m; simp_all [Mach.setCharRef]

theorem stepCharRef_suspend (o : Opts) (m m' : Mach) (inp inp' : Str) (cr : CharRefSt)
    (hcr : m.charRef = some cr) (h : stepCharRef o m inp cr = .suspend m' inp') :
    m' = m ∧ inp' = [] ∧ inp = [] := by
  cases hpk : peek m inp with
  | some c =>
    exfalso
    have hns := crStep_notStuck o m inp cr c hpk
    unfold stepCharRef at h
    cases hc : crStep o m inp cr with
    | error x => rw [hc] at h; simp at h
    | ok v =>
      obtain ⟨m1, i1, cr1, st⟩ := v
      rw [hc] at h hns
      cases st with
      | stuck => exact hns
      | progress => simp at h
      | done chars => simp only [ofSig] at h; split at h <;> simp at h
  | none =>
    obtain ⟨_, hinp⟩ := peek_none m inp hpk
    unfold stepCharRef at h
    rw [crStep_stuck o m inp cr hpk] at h
    simp only [R.suspend.injEq] at h
    rw [setCharRef_self m _ hcr] at h
    exact ⟨h.1.symm, by rw [← h.2, hinp], hinp⟩

theorem resume_charRef (o : Opts) (pol : Pol) (m m' : Mach) (inp inp' e : Str) (cr : CharRefSt)
    (hcr : m.charRef = some cr) (h : stepCharRef o m inp cr = .suspend m' inp') :
    inp' = [] ∧ step o pol m' e = step o pol m (inp ++ e) := by
  obtain ⟨h1, h2, h3⟩ := stepCharRef_suspend o m m' inp inp' cr hcr h
  subst h1 h2 h3
  exact ⟨rfl, rfl⟩

theorem stepBav_suspend (o : Opts) (pol : Pol) (m m' : Mach) (inp inp' : Str)
    (h : stepBav o pol m inp = .suspend m' inp') : m' = m ∧ inp' = [] ∧ inp = [] := by
  cases hpk : peek m inp with
  | none =>
    obtain ⟨_, hinp⟩ := peek_none m inp hpk
    unfold stepBav at h
    simp only [hpk, R.suspend.injEq] at h
    exact ⟨h.1.symm, by rw [← h.2, hinp], hinp⟩
  | some c =>
    exfalso
    unfold stepBav at h
    simp only [hpk] at h
    have hm2 : (if m.ignoreLf = true then m.setIgnoreLf false else m).ignoreLf = false := by
      split
      · simp
      · rename_i hx; simpa using hx
    have hpk2 : peek (if m.ignoreLf = true then m.setIgnoreLf false else m) inp = some c := by
      split
      · simpa [peek] using hpk
      · exact hpk
    generalize (if m.ignoreLf = true then m.setIgnoreLf false else m) = m2 at h hm2 hpk2
    have hgc : ∃ c1 m3 i3, getChar o m2 inp = (some c1, m3, i3) := by
      unfold getChar
      split
      · exact ⟨_, _, _, rfl⟩
      · rename_i hr
        cases inp with
        | nil => simp [peek, hr] at hpk2
        | cons x xs => exact ⟨_, _, _, preprocess_plain o m2 x xs hm2⟩
    obtain ⟨c1, m3, i3, hgc⟩ := hgc
    simp only [hgc] at h
    repeat' split at h
    all_goals first | (simp at h; done) | (unfold ofSig at h; split at h <;> simp at h)

theorem resume_bav (o : Opts) (pol : Pol) (m m' : Mach) (inp inp' e : Str)
    (h : stepBav o pol m inp = .suspend m' inp') :
    inp' = [] ∧ stepBav o pol m' e = stepBav o pol m (inp ++ e) := by
  obtain ⟨h1, h2, h3⟩ := stepBav_suspend o pol m m' inp inp' h
  subst h1 h2 h3
  exact ⟨rfl, rfl⟩

/-! ### resume: the look-ahead states -/

/-- the machine after a definite `eat` answer: no pending LF, nothing stashed -/
def Settled (m : Mach) : Prop := m.ignoreLf = false ∧ m.tempBuf = []

theorem Settled.eat_core {m : Mach} (hs : Settled m) (i pat : Str) (eq : Char → Char → Bool) :
    eat m i pat eq = eatCore m i pat eq := by
  rw [eat_eq_core, eatSkipLf_id m i hs.1, hs.2]; rfl

theorem Settled.setTempBuf {m : Mach} (hs : Settled m) : m.setTempBuf [] = m := by
  obtain ⟨_, h2⟩ := hs
  cases m; simp_all [Mach.setTempBuf]

theorem Settled.eatOk {m : Mach} (hs : Settled m) : EatOk m := fun _ => hs.2

/-- a failed `eat` leaves a settled machine and the whole logical input in the queue; the
mismatch is definite -/
theorem eat_false_settled (m m1 : Mach) (inp i1 pat : Str) (eq : Char → Char → Bool)
    (hg : EatOk m) (hpat : pat ≠ []) (hat : m.atEof = false)
    (h : eat m inp pat eq = (some false, m1, i1)) :
    Settled m1 ∧ eatCmp eq i1 pat = some false ∧ m1.atEof = false := by
  rw [eat_eq_core] at h
  unfold eatCore at h
  have hae : (eatSkipLf m inp).1.atEof = false := by simp [hat]
  split at h
  · simp at h
  · rename_i hc
    simp only [Prod.mk.injEq, true_and] at h
    obtain ⟨h1, h2⟩ := h
    subst h1 h2
    refine ⟨⟨?_, by simp⟩, hc, by simp [hat]⟩
    -- ignoreLf is clear: otherwise nothing was available and nothing stashed, and the
    -- comparison could not have been definite
    simp only [setTempBuf_ignoreLf]
    cases hil : (eatSkipLf m inp).1.ignoreLf with
    | false => rfl
    | true =>
      exfalso
      cases hpk : peek m inp with
      | none =>
        rw [eatSkipLf_none m inp hpk] at hil hc
        obtain ⟨_, hinp⟩ := peek_none m inp hpk
        have := hg hil
        simp [this, hinp, eatCmp_nil_none eq pat hpat] at hc
      | some c =>
        unfold eatSkipLf at hil
        simp only [hpk] at hil
        split at hil
        · unfold discardChar at hil
          repeat' split at hil
          all_goals simp at hil
        · rename_i hx; simp [hx] at hil
  · simp [hat] at h

theorem Settled.eat_false_inv {m : Mach} (hs : Settled m) (hat : m.atEof = false)
    (i pat : Str) (eq : Char → Char → Bool) (m2 : Mach) (i2 : Str)
    (h : eat m i pat eq = (some false, m2, i2)) :
    m2 = m ∧ i2 = i ∧ eatCmp eq i pat = some false := by
  rw [hs.eat_core, eatCore] at h
  split at h
  · simp at h
  · rename_i hc
    simp only [Prod.mk.injEq, true_and] at h
    rw [hs.setTempBuf] at h
    exact ⟨h.1.symm, h.2.symm, hc⟩
  · simp [hat] at h

theorem Settled.eat_false_again {m : Mach} (hs : Settled m) (i e pat : Str) (eq : Char → Char → Bool)
    (hc : eatCmp eq i pat = some false) : eat m (i ++ e) pat eq = (some false, m, i ++ e) := by
  rw [hs.eat_core, eatCore, eatCmp_mono eq i pat e false hc, hs.setTempBuf]

theorem eatSkipLf_fields (m : Mach) (inp : Str) :
    (eatSkipLf m inp).1.state = m.state ∧ (eatSkipLf m inp).1.charRef = m.charRef := by
  unfold eatSkipLf discardChar
  repeat' split
  all_goals simp

theorem eat_fields (m m1 : Mach) (inp i1 pat : Str) (eq : Char → Char → Bool) (b : Option Bool)
    (h : eat m inp pat eq = (b, m1, i1)) :
    m1.state = m.state ∧ m1.charRef = m.charRef ∧ m1.atEof = m.atEof := by
  rw [eat_eq_core] at h
  unfold eatCore at h
  have hf := eatSkipLf_fields m inp
  repeat' split at h
  all_goals
    (simp only [Prod.mk.injEq] at h
     obtain ⟨_, h2, _⟩ := h
     subst h2
     simp [hf.1, hf.2])

theorem kw_ne : kwDashDash ≠ [] ∧ kwDoctype ≠ [] ∧ kwCdata ≠ [] ∧ kwPublic ≠ [] ∧ kwSystem ≠ [] := by
  decide

theorem resume_mdo (o : Opts) (pol : Pol) (m m' : Mach) (inp inp' e : Str)
    (hg : EatOk m) (hat : m.atEof = false)
    (h : stepMdo o pol m inp = .suspend m' inp') :
    inp' = [] ∧ EatOk m' ∧ stepMdo o pol m' e = stepMdo o pol m (inp ++ e) ∧
      m'.state = m.state ∧ m'.charRef = m.charRef ∧ m'.atEof = m.atEof := by
  suffices hmain : inp' = [] ∧ EatOk m' ∧ stepMdo o pol m' e = stepMdo o pol m (inp ++ e) by
    refine ⟨hmain.1, hmain.2.1, hmain.2.2, ?_⟩
    -- the suspended machine is the result of one of the `eat`s
    unfold stepMdo at h
    cases h1 : eat m inp kwDashDash eqExact with
    | mk b1 r1 =>
      obtain ⟨m1, i1⟩ := r1
      have f1 := eat_fields m m1 inp i1 _ _ b1 h1
      rw [h1] at h
      cases b1 with
      | none => simp only [R.suspend.injEq] at h; rw [← h.1]; exact f1
      | some b1 =>
        cases b1 with
        | true => simp at h
        | false =>
          simp only at h
          cases h2 : eat m1 i1 kwDoctype eqCi with
          | mk b2 r2 =>
            obtain ⟨m2, i2⟩ := r2
            have f2 := eat_fields m1 m2 i1 i2 _ _ b2 h2
            rw [h2] at h
            cases b2 with
            | none =>
              simp only [R.suspend.injEq] at h; rw [← h.1]
              exact ⟨f2.1.trans f1.1, f2.2.1.trans f1.2.1, f2.2.2.trans f1.2.2⟩
            | some b2 =>
              cases b2 with
              | true => simp at h
              | false =>
                simp only at h
                split at h
                · cases h3 : eat m2 i2 kwCdata eqExact with
                  | mk b3 r3 =>
                    obtain ⟨m3, i3⟩ := r3
                    have f3 := eat_fields m2 m3 i2 i3 _ _ b3 h3
                    rw [h3] at h
                    cases b3 with
                    | none =>
                      simp only [R.suspend.injEq] at h; rw [← h.1]
                      exact ⟨f3.1.trans (f2.1.trans f1.1), f3.2.1.trans (f2.2.1.trans f1.2.1),
                        f3.2.2.trans (f2.2.2.trans f1.2.2)⟩
                    | some b3 => cases b3 <;> simp at h
                · simp at h
  unfold stepMdo at h
  cases h1 : eat m inp kwDashDash eqExact with
  | mk b1 r1 =>
    obtain ⟨m1, i1⟩ := r1
    rw [h1] at h
    cases b1 with
    | none =>
      simp only [R.suspend.injEq] at h
      obtain ⟨h4, h5⟩ := h
      subst h4 h5
      obtain ⟨hi, hok, _, hre⟩ := eat_none m m1 inp i1 _ _ hg h1
      refine ⟨hi, hok, ?_⟩
      unfold stepMdo
      rw [hre]
    | some b1 =>
      cases b1 with
      | true => simp at h
      | false =>
        simp only at h
        obtain ⟨hs1, hc1, hat1⟩ := eat_false_settled m m1 inp i1 _ _ hg kw_ne.1 hat h1
        cases h2 : eat m1 i1 kwDoctype eqCi with
        | mk b2 r2 =>
          obtain ⟨m2, i2⟩ := r2
          rw [h2] at h
          cases b2 with
          | none =>
            simp only [R.suspend.injEq] at h
            obtain ⟨h4, h5⟩ := h
            subst h4 h5
            obtain ⟨hi, hok, _, hre⟩ := eat_none m1 m2 i1 i2 _ _ hs1.eatOk h2
            refine ⟨hi, hok, ?_⟩
            unfold stepMdo
            rw [hre, hs1.eat_false_again i1 e _ _ hc1,
              eat_mono m m1 inp i1 e _ _ false hg kw_ne.1 hat h1]
          | some b2 =>
            cases b2 with
            | true => simp at h
            | false =>
              simp only at h
              -- a failed eat on a settled machine changes nothing
              obtain ⟨hm, hi, hc2⟩ := hs1.eat_false_inv hat1 i1 _ _ m2 i2 h2
              rw [hm, hi] at h
              split at h
              · rename_i hcd
                cases h3 : eat m1 i1 kwCdata eqExact with
                | mk b3 r3 =>
                  obtain ⟨m3, i3⟩ := r3
                  rw [h3] at h
                  cases b3 with
                  | none =>
                    simp only [R.suspend.injEq] at h
                    obtain ⟨h4, h5⟩ := h
                    subst h4 h5
                    obtain ⟨hi, hok, _, hre⟩ := eat_none m1 m3 i1 i3 _ _ hs1.eatOk h3
                    refine ⟨hi, hok, ?_⟩
                    unfold stepMdo
                    rw [hre, hs1.eat_false_again i1 e _ _ hc1,
                      eat_mono m m1 inp i1 e _ _ false hg kw_ne.1 hat h1]
                  | some b3 => cases b3 <;> simp at h
              · simp at h

theorem resume_adn (o : Opts) (pol : Pol) (m m' : Mach) (inp inp' e : Str)
    (hg : EatOk m) (hat : m.atEof = false)
    (h : stepAdn o pol m inp = .suspend m' inp') :
    inp' = [] ∧ EatOk m' ∧ stepAdn o pol m' e = stepAdn o pol m (inp ++ e) ∧
      m'.state = m.state ∧ m'.charRef = m.charRef ∧ m'.atEof = m.atEof := by
  suffices hmain : inp' = [] ∧ EatOk m' ∧ stepAdn o pol m' e = stepAdn o pol m (inp ++ e) ∧
      (∃ b1 m1 i1, eat m inp kwPublic eqCi = (b1, m1, i1) ∧
        (m' = m1 ∨ ∃ b2 i2, eat m1 i1 kwSystem eqCi = (b2, m', i2))) by
    refine ⟨hmain.1, hmain.2.1, hmain.2.2.1, ?_⟩
    obtain ⟨b1, m1, i1, h1, hrest⟩ := hmain.2.2.2
    have f1 := eat_fields m m1 inp i1 _ _ b1 h1
    rcases hrest with hm | ⟨b2, i2, h2⟩
    · rw [hm]; exact f1
    · have f2 := eat_fields m1 m' i1 i2 _ _ b2 h2
      exact ⟨f2.1.trans f1.1, f2.2.1.trans f1.2.1, f2.2.2.trans f1.2.2⟩
  unfold stepAdn at h
  cases h1 : eat m inp kwPublic eqCi with
  | mk b1 r1 =>
    obtain ⟨m1, i1⟩ := r1
    rw [h1] at h
    cases b1 with
    | none =>
      simp only [R.suspend.injEq] at h
      obtain ⟨h4, h5⟩ := h
      subst h4 h5
      obtain ⟨hi, hok, _, hre⟩ := eat_none m m1 inp i1 _ _ hg h1
      refine ⟨hi, hok, ?_, ⟨_, _, _, rfl, Or.inl rfl⟩⟩
      unfold stepAdn
      rw [hre]
    | some b1 =>
      cases b1 with
      | true => simp at h
      | false =>
        simp only at h
        obtain ⟨hs1, hc1, hat1⟩ := eat_false_settled m m1 inp i1 _ _ hg kw_ne.2.2.2.1 hat h1
        cases h2 : eat m1 i1 kwSystem eqCi with
        | mk b2 r2 =>
          obtain ⟨m2, i2⟩ := r2
          rw [h2] at h
          cases b2 with
          | none =>
            simp only [R.suspend.injEq] at h
            obtain ⟨h4, h5⟩ := h
            subst h4 h5
            obtain ⟨hi, hok, _, hre⟩ := eat_none m1 m2 i1 i2 _ _ hs1.eatOk h2
            refine ⟨hi, hok, ?_, ⟨_, _, _, rfl, Or.inr ⟨_, _, h2⟩⟩⟩
            unfold stepAdn
            rw [hre, hs1.eat_false_again i1 e _ _ hc1,
              eat_mono m m1 inp i1 e _ _ false hg kw_ne.2.2.2.1 hat h1]
          | some b2 =>
            cases b2 with
            | true => simp at h
            | false =>
              exfalso
              simp only at h
              obtain ⟨hs2, hc2, hat2⟩ := eat_false_settled m1 m2 i1 i2 _ _ hs1.eatOk kw_ne.2.2.2.2 hat1 h2
              -- after two definite mismatches a character is available: get_char cannot suspend
              have hne : i2 ≠ [] := by
                intro h0; subst h0
                rw [eatCmp_nil_none eqCi kwSystem kw_ne.2.2.2.2] at hc2
                simp at hc2
              have hgc : ∃ c1 m3 i3, getChar o m2 i2 = (some c1, m3, i3) := by
                unfold getChar
                split
                · exact ⟨_, _, _, rfl⟩
                · cases i2 with
                  | nil => exact absurd rfl hne
                  | cons x xs => exact ⟨_, _, _, preprocess_plain o m2 x xs hs2.1⟩
              obtain ⟨c1, m3, i3, hgc⟩ := hgc
              rw [hgc] at h
              simp only [ofSig] at h
              split at h <;> simp at h

end H5V.Model.HtmlTok
