import H5V.Lemmas.HtmlTBModesInvBodyH
/-!
C02 (insertion modes), the invariant `Good` of the specification's run: the start tags of "in body".
-/
set_option linter.unusedSectionVars false
set_option linter.unusedSimpArgs false
namespace H5V.Lemmas.ModesInv
open H5V.Spec H5V.Spec.TreeModes
open H5V.Spec.TreeAlgo (Str Name nsHtml nsMathml nsSvg inHtml)
open H5V.Spec.TreeAlgo2 (Elem Entry PState)

section
variable {N : Type} [DecidableEq N]

/-! ### small steps: a context after each of the helpers -/

/-- a tag whose name is not in a list is not named like one of the list's members -/
theorem bs_not_is_of_not_isOneOf {t : Tag} {l : List String} (h : t.isOneOf l = false) {x : String} (hx : x ∈ l) :
    t.is x = false := by
  simp only [Tag.isOneOf, strIsOneOf, List.any_eq_false, beq_iff_eq] at h
  simp only [Tag.is, strIs, beq_eq_false_iff_ne, ne_eq]
  exact h x hx

/-- a state that differs from a context only in the stack (keeping "td/th in table scope") -/
theorem bs_ctx {cfg : Config N} {σ σ' : State N} (hc : Ctx cfg σ) (hm : σ'.mode = σ.mode)
    (ho : σ'.originalMode = σ.originalMode) (ht : σ'.templateModes = σ.templateModes) (hst : σ'.stopped = σ.stopped)
    (hl : σ'.p.list = σ.p.list) (hcell : cellR σ.names = true → cellR σ'.names = true) : Ctx cfg σ' :=
  hc.of_upd (st := σ'.p.stack) (l := σ.p.list) ⟨hm, ho, ht, hst, rfl, hl⟩ hcell hc.good.af

theorem bs_done {cfg : Config N} {σ : State N} (hc : Ctx cfg σ) : Post (.done σ) := fun _ => hc.good

theorem bs_closeP {cfg : Config N} {σ : State N} (hc : Ctx cfg σ) : Ctx cfg (closePIfInButtonScope cfg σ) :=
  bs_ctx hc (by simp) (by simp) (by simp) (by simp) (by simp) (cellR_closePIfInButtonScope cfg hc.ed)

theorem bs_ins {cfg : Config N} {σ σ' : State N} (hc : Ctx cfg σ) {t : Tag} {e : Elem N}
    (hn : neutralN ⟨nsHtml, t.name⟩ = true) (h : insertHtml σ t = .ok (σ', e)) : Ctx cfg σ' := by
  obtain ⟨he, _, hu, _⟩ := insertHtml_eff h
  refine hc.of_upd hu (fun hcell => ?_) hc.good.af
  rw [cellR_snoc_neutral _ (by rw [he]; exact hn)]
  exact hcell

theorem bs_ins' {cfg : Config N} {σ σ' : State N} (hc : Ctx cfg σ) {t : Tag}
    (hn : neutralN ⟨nsHtml, t.name⟩ = true) (h : insertHtml' σ t = .ok σ') : Ctx cfg σ' := by
  obtain ⟨e, he, _, hu, _⟩ := insertHtml'_eff h
  refine hc.of_upd hu (fun hcell => ?_) hc.good.af
  rw [cellR_snoc_neutral _ (by rw [he]; exact hn)]
  exact hcell

theorem bs_void {cfg : Config N} {σ σ' : State N} (hc : Ctx cfg σ) {t : Tag} (h : insertVoid σ t = .ok σ') :
    Ctx cfg σ' := by
  obtain ⟨_, hu⟩ := insertVoid_eff h
  exact hc.of_upd hu (fun hcell => hcell) hc.good.af

theorem bs_recon {cfg : Config N} {σ σ' : State N} (hc : Ctx cfg σ) (h : reconstruct σ = .ok σ') : Ctx cfg σ' := by
  obtain ⟨es, l', hu, hes, haf, _⟩ := reconstruct_eff hc.good.af h
  refine hc.of_upd hu (fun hcell => ?_) haf
  rw [cellR_append_neutral _ (fun e he => (hes e he).1)]
  exact hcell

/-- an HTML element whose name is in a list without `td`, `th`, `html`, `table`, `template` is neutral -/
theorem bs_neutral_of_inHtml {l : List String} {n : Name} (h : inHtml l n = true)
    (hl : l.all (fun x => !(["td", "th", "html", "table", "template"].contains x)) = true) : neutralN n = true := by
  simp only [inHtml, Bool.and_eq_true, beq_iff_eq] at h
  obtain ⟨h1, h2⟩ := h
  have h3 : neutralN ⟨nsHtml, n.loc⟩ = true := by
    refine neutral_of_isOneOf (t := { name := n.loc }) (l := l) ?_ hl
    simp only [Tag.isOneOf, strIsOneOf, List.any_eq_true, beq_iff_eq] at h2 ⊢
    obtain ⟨x, hx, hxe⟩ := h2
    exact ⟨x, hx, hxe.symm⟩
  rw [← h1] at h3
  exact h3

/-- popping a neutral current node -/
theorem bs_pop {cfg : Config N} {σ : State N} (hc : Ctx cfg σ) {l : List String} (hcur : σ.curIn l = true)
    (hl : l.all (fun x => !(["td", "th", "html", "table", "template"].contains x)) = true) : Ctx cfg σ.pop := by
  refine bs_ctx hc rfl rfl rfl rfl rfl (fun hcell => ?_)
  rw [pop_names]
  unfold State.curIn State.cur at hcur
  rw [← List.head?_reverse] at hcur
  unfold State.names at hcell ⊢
  cases hr : σ.p.stack.reverse with
  | nil => rw [hr] at hcur; cases hcur
  | cons e es =>
    rw [hr] at hcur hcell
    simp only [List.head?_cons, Option.any_some] at hcur
    simp only [List.map_cons, List.drop_succ_cons, List.drop_zero] at hcell ⊢
    rw [cellR_cons_neutral (bs_neutral_of_inHtml hcur hl)] at hcell
    exact hcell

/-- "generate implied end tags" (after an `err`) does not change "has a `button` element in scope" -/
theorem bs_hasInScope_genImplied_button (cfg : Config N) (hed : cfg.edition = .customizableSelect) (s : State N) (w : String) :
    hasInScope cfg (genImplied (s.err w)) "button" = hasInScope cfg s "button" := by
  unfold hasInScope
  rw [genImplied_names, err_names]
  apply hasInScope_dropWhile
  intro n hn
  simp only [TreeAlgo.impliedEndTag, Bool.and_eq_true] at hn
  have h1 := hn.1
  simp only [inHtml, TreeTables.impliedEnd, Bool.and_eq_true, List.any_eq_true, beq_iff_eq] at h1
  obtain ⟨hns, x, hx, hxn⟩ := h1
  cases n with
  | mk ns loc =>
    simp only at hns hxn
    subst hns hxn
    simp only [List.mem_cons, List.mem_nil_iff, or_false] at hx
    simp only [scopeList, hed, isNamed]
    rcases hx with rfl | rfl | rfl | rfl | rfl | rfl | rfl | rfl | rfl | rfl <;> exact ⟨by decide, by decide⟩

theorem bs_html {cfg : Config N} {σ : State N} (hc : Ctx cfg σ) {t : Tag} {r : Step N}
    (h : inBodyStartHtml σ t = .ok r) : Post r := by
  unfold inBodyStartHtml at h
  dsimp only at h
  split at h
  · cases pure_ok h; exact bs_done hc.same
  · obtain ⟨top, _, h2⟩ := bind_ok h
    cases pure_ok h2
    exact bs_done hc.same

/-- the button start tag: the stack before "reconstruct" -/
theorem bs_button {cfg : Config N} {σ : State N} (hc : Ctx cfg σ) (w : String) :
    Ctx cfg (if hasInScope cfg σ "button" = true then popUntilPopped (genImplied (σ.err w)) "button" else σ) := by
  split
  · rename_i hs
    refine bs_ctx hc rfl rfl rfl rfl rfl (fun hcell => ?_)
    refine cellR_popUntilPopped_inScope cfg hc.ed (by decide) ?_ (cellR_genImplied none (s := σ.err w) hcell)
    rw [bs_hasInScope_genImplied_button cfg hc.ed]
    exact hs
  · exact hc

/-- the same for `inBodyStartTagCore` (used by the `br` end tag) -/
theorem post_inBodyStartTagCore (hhead : Keeps0 (inHead (N := N)) PreHead) {cfg : Config N} {σ : State N} (hc : Ctx cfg σ)
    (hl : Link σ) {t : Tag} {r : Step N} (hfr : FreshL σ.p.stack σ.p.supply r.state.p.supply)
    (h : inBodyStartTagCore cfg σ t = .ok r) : Post r := by
  unfold inBodyStartTagCore at h
  by_cases hhtml : t.is "html" = true
  · rw [if_pos hhtml] at h
    exact bs_html hc h
  rw [if_neg hhtml] at h
  by_cases hhead1 : t.isOneOf ["base", "basefont", "bgsound", "link", "meta", "noframes", "script", "style",
      "template", "title"] = true
  · rw [if_pos hhead1] at h
    exact hhead cfg hc.ed σ (.startTag t) r hc.good hc.live ⟨hc.nt, hc.ntt⟩ h
  rw [if_neg hhead1] at h
  by_cases hbody : t.is "body" = true
  · rw [if_pos hbody] at h
    dsimp only at h
    split at h
    · split at h
      · cases pure_ok h; exact bs_done hc.same
      · cases pure_ok h; exact bs_done hc.same
    · cases pure_ok h; exact bs_done hc.same
  rw [if_neg hbody] at h
  by_cases hframeset : t.is "frameset" = true
  · rw [if_pos hframeset] at h
    dsimp only at h
    split at h
    · split at h
      · cases pure_ok h; exact bs_done hc.same
      · split at h
        · cases pure_ok h; exact bs_done hc.same
        · obtain ⟨s1, h1, h2⟩ := bind_ok h
          cases pure_ok h2
          obtain ⟨e, he, _, hu, _⟩ := insertHtml'_eff h1
          refine fun _ => Good.plain' (m := .inFrameset) rfl (by decide) ?_ ?_
          · show AFOk s1.p.list
            rw [hu.list]; exact hc.good.af
          · show ∀ m ∈ s1.templateModes, tmOk m
            rw [hu.tms]; exact hc.good.tm
    · cases pure_ok h; exact bs_done hc.same
  rw [if_neg hframeset] at h
  by_cases hblock : t.isOneOf blockStart = true
  · rw [if_pos hblock] at h
    obtain ⟨s1, h1, h2⟩ := map_ok h
    subst h2
    exact bs_done (bs_ins' (bs_closeP hc) (neutral_of_isOneOf hblock (by decide)) h1)
  rw [if_neg hblock] at h
  by_cases hheading : t.isOneOf TreeTables.heading = true
  · rw [if_pos hheading] at h
    dsimp only at h
    obtain ⟨s1, h1, h2⟩ := map_ok h
    subst h2
    refine bs_done (cfg := cfg) (bs_ins' ?_ (neutral_of_isOneOf hheading (by decide)) h1)
    split
    · rename_i hcur
      exact bs_pop (σ := (closePIfInButtonScope cfg σ).err "in body: heading inside heading") (bs_closeP hc).same hcur
        (by decide)
    · exact bs_closeP hc
  rw [if_neg hheading] at h
  by_cases hpre : t.isOneOf ["pre", "listing"] = true
  · rw [if_pos hpre] at h
    obtain ⟨s1, h1, h2⟩ := bind_ok h
    cases pure_ok h2
    exact bs_done (bs_ins' (bs_closeP hc) (neutral_of_isOneOf hpre (by decide)) h1).same
  rw [if_neg hpre] at h
  by_cases hform : t.is "form" = true
  · rw [if_pos hform] at h
    split at h
    · cases pure_ok h; exact bs_done hc.same
    · obtain ⟨r1, h1, h2⟩ := bind_ok h
      obtain ⟨s1, e⟩ := r1
      cases pure_ok h2
      have hc1 := bs_ins (bs_closeP hc) (neutral_of_is hform (by decide)) h1
      dsimp only
      split
      · exact bs_done hc1
      · exact bs_done hc1.same
  rw [if_neg hform] at h
  by_cases hli : t.is "li" = true
  · rw [if_pos hli] at h
    exact post_inBodyListItem hc (neutral_of_is hli (by decide)) (Or.inl rfl) h
  rw [if_neg hli] at h
  by_cases hdd : t.isOneOf ["dd", "dt"] = true
  · rw [if_pos hdd] at h
    exact post_inBodyListItem hc (neutral_of_isOneOf hdd (by decide)) (Or.inr rfl) h
  rw [if_neg hdd] at h
  by_cases hplain : t.is "plaintext" = true
  · rw [if_pos hplain] at h
    obtain ⟨s1, h1, h2⟩ := bind_ok h
    cases pure_ok h2
    exact bs_done (bs_ins' (bs_closeP hc) (neutral_of_is hplain (by decide)) h1).same
  rw [if_neg hplain] at h
  by_cases hbutton : t.is "button" = true
  · rw [if_pos hbutton] at h
    dsimp only at h
    obtain ⟨s1, h1, h2⟩ := bind_ok h
    obtain ⟨s2, h3, h4⟩ := bind_ok h2
    cases pure_ok h4
    exact bs_done (bs_ins' (bs_recon (bs_button hc _) h1) (neutral_of_is hbutton (by decide)) h3).same
  rw [if_neg hbutton] at h
  by_cases ha : t.is "a" = true
  · rw [if_pos ha] at h
    exact post_inBodyStartA hc hl ha hfr h
  rw [if_neg ha] at h
  by_cases hfmt : t.isOneOf formattingStart = true
  · rw [if_pos hfmt] at h
    obtain ⟨s1, h1, h2⟩ := bind_ok h
    obtain ⟨r1, h3, h4⟩ := bind_ok h2
    obtain ⟨s2, e⟩ := r1
    cases pure_ok h4
    have hc2 := bs_ins (bs_recon hc h1) (neutral_of_isOneOf hfmt (by decide)) h3
    exact fun _ => hc2.upd (σ' := pushFormatting s2 e t) ⟨rfl, rfl, rfl, rfl, rfl, rfl⟩ (fun hcell => hcell)
      (hc2.good.af.push e (fmtN_of_isOneOf hfmt (by decide)))
  rw [if_neg hfmt] at h
  by_cases hnobr : t.is "nobr" = true
  · rw [if_pos hnobr] at h
    exact post_inBodyStartNobr hc hl hnobr hfr h
  rw [if_neg hnobr] at h
  by_cases happlet : t.isOneOf ["applet", "marquee", "object"] = true
  · rw [if_pos happlet] at h
    obtain ⟨s1, h1, h2⟩ := bind_ok h
    obtain ⟨s2, h3, h4⟩ := bind_ok h2
    cases pure_ok h4
    have hc2 := bs_ins' (bs_recon hc h1) (neutral_of_isOneOf happlet (by decide)) h3
    exact fun _ => hc2.upd (σ' := s2.insertMarker.notOk) ⟨rfl, rfl, rfl, rfl, rfl, rfl⟩ (fun hcell => hcell)
      hc2.good.af.marker
  rw [if_neg happlet] at h
  by_cases htable : t.is "table" = true
  · rw [if_pos htable] at h
    dsimp only at h
    obtain ⟨s1, h1, h2⟩ := bind_ok h
    cases pure_ok h2
    obtain ⟨e, he, _, hu, _⟩ := insertHtml'_eff h1
    have hc0 : Ctx cfg (if (σ.quirks != .quirks) = true then closePIfInButtonScope cfg σ else σ) := by
      split
      · exact bs_closeP hc
      · exact hc
    refine fun _ => Good.plain' (m := .inTable) rfl (by decide) ?_ ?_
    · show AFOk s1.p.list
      rw [hu.list]; exact hc0.good.af
    · show ∀ m ∈ s1.templateModes, tmOk m
      rw [hu.tms]; exact hc0.good.tm
  rw [if_neg htable] at h
  by_cases harea : t.isOneOf ["area", "br", "embed", "img", "keygen", "wbr"] = true
  · rw [if_pos harea] at h
    obtain ⟨s1, h1, h2⟩ := bind_ok h
    obtain ⟨s2, h3, h4⟩ := bind_ok h2
    cases pure_ok h4
    exact bs_done (bs_void (bs_recon hc h1) h3).same
  rw [if_neg harea] at h
  by_cases hinput : t.is "input" = true
  · rw [if_pos hinput] at h
    exact post_inBodyStartInput hc h
  rw [if_neg hinput] at h
  by_cases hparam : t.isOneOf ["param", "source", "track"] = true
  · rw [if_pos hparam] at h
    obtain ⟨s1, h1, h2⟩ := map_ok h
    subst h2
    exact bs_done (bs_void hc h1)
  rw [if_neg hparam] at h
  by_cases hhr : t.is "hr" = true
  · rw [if_pos hhr] at h
    exact post_inBodyStartHr hc h
  rw [if_neg hhr] at h
  by_cases htextarea : t.is "textarea" = true
  · rw [if_pos htextarea] at h
    obtain ⟨s1, h1, h2⟩ := bind_ok h
    cases pure_ok h2
    obtain ⟨e, he, hne, hu, _⟩ := insertHtml'_eff h1
    exact fun _ => hc.enterText (e := e) (by rw [he]) hne rfl hu.mode hu.tms hu.stack hu.list
  rw [if_neg htextarea] at h
  by_cases hxmp : t.is "xmp" = true
  · rw [if_pos hxmp] at h
    obtain ⟨s1, h1, h2⟩ := bind_ok h
    obtain ⟨s2, h3, h4⟩ := map_ok h2
    subst h4
    have hc1 := bs_recon (bs_closeP hc) h1
    obtain ⟨e, he, hne, hm, ho, ht, _, hs, hli⟩ := genericTextElement_eff h3
    exact fun _ => (hc1.same (σ' := s1.notOk)).enterText (e := e) (by rw [he]) hne hm ho ht hs hli
  rw [if_neg hxmp] at h
  by_cases hiframe : t.is "iframe" = true
  · rw [if_pos hiframe] at h
    obtain ⟨s2, h3, h4⟩ := map_ok h
    subst h4
    obtain ⟨e, he, hne, hm, ho, ht, _, hs, hli⟩ := genericTextElement_eff h3
    exact fun _ => (hc.same (σ' := σ.notOk)).enterText (e := e) (by rw [he]) hne hm ho ht hs hli
  rw [if_neg hiframe] at h
  by_cases hnoembed : (t.is "noembed" || (t.is "noscript" && cfg.scripting)) = true
  · rw [if_pos hnoembed] at h
    obtain ⟨s2, h3, h4⟩ := map_ok h
    subst h4
    obtain ⟨e, he, hne, hm, ho, ht, _, hs, hli⟩ := genericTextElement_eff h3
    exact fun _ => hc.enterText (e := e) (by rw [he]) hne hm ho ht hs hli
  rw [if_neg hnoembed] at h
  by_cases hselect : t.is "select" = true
  · rw [if_pos hselect] at h
    simp only [hc.ed] at h
    exact post_inBodyStartSelect2025 hc hselect h
  rw [if_neg hselect] at h
  by_cases hopt : t.isOneOf ["optgroup", "option"] = true
  · rw [if_pos hopt] at h
    simp only [hc.ed] at h
    split at h
    · rename_i ho
      exact post_inBodyStartOption2025 hc ho h
    · rename_i ho
      refine post_inBodyStartOptgroup2025 hc ?_ h
      simp only [Tag.isOneOf, strIsOneOf, List.any_cons, List.any_nil, Bool.or_false, Bool.or_eq_true] at hopt
      rcases hopt with hopt | hopt
      · exact hopt
      · exact absurd hopt ho
  rw [if_neg hopt] at h
  by_cases hrb : t.isOneOf ["rb", "rtc"] = true
  · rw [if_pos hrb] at h
    dsimp only at h
    obtain ⟨s1, h1, h2⟩ := map_ok h
    subst h2
    refine bs_done (cfg := cfg) (bs_ins' ?_ (neutral_of_isOneOf hrb (by decide)) h1)
    split
    · have hc1 : Ctx cfg (genImplied σ) := bs_ctx hc rfl rfl rfl rfl rfl (cellR_genImplied none)
      split
      · exact hc1
      · exact hc1.same
    · exact hc
  rw [if_neg hrb] at h
  by_cases hrp : t.isOneOf ["rp", "rt"] = true
  · rw [if_pos hrp] at h
    dsimp only at h
    obtain ⟨s1, h1, h2⟩ := map_ok h
    subst h2
    refine bs_done (cfg := cfg) (bs_ins' ?_ (neutral_of_isOneOf hrp (by decide)) h1)
    split
    · have hc1 : Ctx cfg (genImplied σ (some "rtc")) := bs_ctx hc rfl rfl rfl rfl rfl (cellR_genImplied (some "rtc"))
      split
      · exact hc1
      · exact hc1.same
    · exact hc
  rw [if_neg hrp] at h
  by_cases hmath : t.is "math" = true
  · rw [if_pos hmath] at h
    exact post_inBodyStartForeignRoot hc (by decide) h
  rw [if_neg hmath] at h
  by_cases hsvg : t.is "svg" = true
  · rw [if_pos hsvg] at h
    exact post_inBodyStartForeignRoot hc (by decide) h
  rw [if_neg hsvg] at h
  by_cases hstray : t.isOneOf ["caption", "col", "colgroup", "frame", "head", "tbody", "td", "tfoot", "th",
      "thead", "tr"] = true
  · rw [if_pos hstray] at h
    cases pure_ok h
    exact bs_done hc.same
  rw [if_neg hstray] at h
  obtain ⟨s1, h1, h2⟩ := bind_ok h
  obtain ⟨s2, h3, h4⟩ := map_ok h2
  subst h4
  have hstray' := Bool.eq_false_iff.mpr hstray
  have hhead1' := Bool.eq_false_iff.mpr hhead1
  exact bs_done (bs_ins' (bs_recon hc h1)
    (neutral_of_not (bs_not_is_of_not_isOneOf hstray' (by decide)) (bs_not_is_of_not_isOneOf hstray' (by decide))
      (Bool.eq_false_iff.mpr hhtml) (Bool.eq_false_iff.mpr htable) (bs_not_is_of_not_isOneOf hhead1' (by decide))) h3)

/-- the start tags of "in body" (`hhead`: the rules of "in head", to which ten of them are handed) -/
theorem post_inBodyStartTag (hhead : Keeps0 (inHead (N := N)) PreHead) {cfg : Config N} {σ : State N} (hc : Ctx cfg σ)
    (hl : Link σ) {t : Tag} {r : Step N} (hfr : FreshL σ.p.stack σ.p.supply r.state.p.supply)
    (h : inBodyStartTag cfg σ t = .ok r) : Post r := by
  unfold inBodyStartTag at h
  split at h
  · exact post_inBodyStartTagCore hhead (σ := σ.err "in body: image start tag") hc.same hl.same hfr h
  · exact post_inBodyStartTagCore hhead hc hl hfr h

end
end H5V.Lemmas.ModesInv
