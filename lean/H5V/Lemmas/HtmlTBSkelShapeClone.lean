import H5V.Lemmas.HtmlTBSkelShapeAA
/-!
C06, second invariant layer, part 11: `maybe_clone_an_option_into_selectedcontent` leaves the root
alone (`RS`): the copies are new nodes whose child lists contain new nodes only, and the parent
pointers of old nodes other than the former children of the `selectedcontent` element are unchanged.
-/
namespace H5V.Props.C06
open H5V.Model.Dom hiding Str
open H5V.Model.HtmlTB hiding Str
open H5V.Lemmas.Dom

/-- nodes from `b` on are "new": old parent pointers are kept, new child lists hold new nodes only -/
structure NF (b : Nat) (d d' : Dom) : Prop where
  par : ∀ y, y < b → d'.parentOf y = d.parentOf y
  nc : (∀ q, b ≤ q → ∀ c ∈ d.childrenOf q, b ≤ c) → (∀ q, b ≤ q → ∀ c ∈ d'.childrenOf q, b ≤ c)

theorem NF.refl (b : Nat) (d : Dom) : NF b d d := ⟨fun _ _ => rfl, fun h => h⟩

theorem NF.trans {b : Nat} {d1 d2 d3 : Dom} (h1 : NF b d1 d2) (h2 : NF b d2 d3) : NF b d1 d3 :=
  ⟨fun y hy => (h2.par y hy).trans (h1.par y hy), fun h => h2.nc (h1.nc h)⟩

theorem nf_alloc (b : Nat) (d : Dom) (v : NodeData) : NF b d (d.alloc v).1 :=
  ⟨fun y _ => parentOf_alloc d v y, fun h q hq c hc => by
    rw [childrenOf_alloc] at hc; exact h q hq c hc⟩

theorem nf_appendRaw {b : Nat} {d d' : Dom} {p c : Id} (h : d.appendRaw p c = .ok d') (hne : p ≠ c)
    (hp : b ≤ p) (hc : b ≤ c) : NF b d d' := by
  obtain ⟨_, _, _, _, _, hpar, hk, _, _, _⟩ := appendRaw_ok h hne
  refine ⟨fun y hy => ?_, fun hh q hq x hx => ?_⟩
  · rw [hpar]
    have : y ≠ c := by intro e; omega
    simp [this]
  · rw [hk] at hx
    by_cases hqp : q = p
    · simp only [hqp, if_true] at hx
      rcases List.mem_append.mp hx with h1 | h1
      · exact hh p hp x h1
      · simp only [List.mem_singleton] at h1; rw [h1]; exact hc
    · simp only [hqp, if_false] at hx
      exact hh q hq x hx

theorem cloneKids_nf {b : Nat} {cl : Dom → Id → Except String (Dom × Id)}
    (hcl : ∀ d c d' k, DomBase d → b ≤ d.size → cl d c = .ok (d', k) → CS d d' c k ∧ NF b d d') {id : Id}
    (hid : b ≤ id) :
    ∀ (cs : List Id) (d d' : Dom), DomBase d → id < d.size → (cs ≠ [] → d.isContainer id = true) →
      (∀ c ∈ cs, c < d.size ∧ d.dataOf c ≠ some .document) →
      Dom.cloneKidsWith cl id d cs = .ok d' → NF b d d' := by
  intro cs
  induction cs with
  | nil =>
    intro d d' hb _ _ _ h
    simp [Dom.cloneKidsWith] at h
    subst h
    exact NF.refl _ _
  | cons c cs ih =>
    intro d d' hb hidlt hcont hcs h
    simp only [Dom.cloneKidsWith, bind, Except.bind] at h
    cases h1 : cl d c with
    | error e => simp [h1] at h
    | ok r =>
      obtain ⟨d1, k⟩ := r
      simp only [h1] at h
      have hbs : b ≤ d.size := Nat.le_of_lt (Nat.lt_of_le_of_lt hid hidlt)
      obtain ⟨cs1, nf1⟩ := hcl d c d1 k hb hbs h1
      cases h2 : d1.appendRaw id k with
      | error e => simp [h2] at h
      | ok d2 =>
        simp only [h2] at h
        have hidc : d1.isContainer id = true := cs1.fr.chg.isContainer (hcont (by simp))
        have hknd : d1.dataOf k ≠ some .document := not_doc_of_eraseTc cs1.data (hcs c (by simp)).2
        obtain ⟨hb2, hchg2, _, _⟩ := append_node_spec cs1.base hidc hknd (by rw [append_node_eq]; exact h2)
        have hf12 : FrK d d2 (some id) := cs1.fr.weaken.trans (frK_appendRaw h2)
        have hne : id ≠ k := by
          intro e; rw [e] at hidlt; exact Nat.lt_irrefl _ (Nat.lt_of_lt_of_le hidlt cs1.fresh)
        have nf2 : NF b d1 d2 := nf_appendRaw h2 hne hid (Nat.le_trans hbs cs1.fresh)
        have nf' := ih d2 d' hb2 (Nat.lt_of_lt_of_le hidlt hf12.size) (fun _ => hchg2.isContainer hidc) (by
          intro c' hc'
          obtain ⟨h1', h2'⟩ := hcs c' (List.mem_cons_of_mem _ hc')
          exact ⟨Nat.lt_of_lt_of_le h1' hf12.size, by rw [hf12.data c' h1']; exact h2'⟩) h
        exact (nf1.trans nf2).trans nf'

theorem clone_stage_nf {b : Nat} {cl : Dom → Id → Except String (Dom × Id)}
    (hcl : ∀ d c d' k, DomBase d → b ≤ d.size → cl d c = .ok (d', k) → CS d d' c k ∧ NF b d d')
    {d d1 d3 : Dom} {x : Id} {n : Node} {data : NodeData} (hb : DomBase d) (hn : d.node? x = some n)
    (hb1 : DomBase d1) (hf1 : FrK d d1 none) (hbs : b ≤ d.size) (hdat : eraseTc data = eraseTc n.data)
    (htc : ∀ nm a tc ip, data = .element nm a (some tc) ip → tc ≠ 0 ∧ d1.dataOf tc = some .document)
    (hk : Dom.cloneKidsWith cl d1.size (d1.alloc data).1 n.children = .ok d3) : NF b d1 d3 := by
  have hb2 : DomBase (d1.alloc data).1 := by
    refine hb1.alloc data ⟨?_, htc⟩
    intro t ht
    subst ht
    have : n.data = .text t := by
      cases hnd : n.data <;> simp [hnd, eraseTc] at hdat
      rw [hdat]
    exact hb.textNe x t (by rw [dataOf_of_node hn, this])
  have hidc : n.children ≠ [] → (d1.alloc data).1.isContainer d1.size = true := by
    intro hne
    have hc := hb.cont x (by rw [childrenOf_of_node hn]; exact hne)
    unfold Dom.isContainer at hc ⊢
    rw [dataOf_alloc]
    simp only [if_true]
    rw [dataOf_of_node hn] at hc
    cases hnd : n.data <;> simp [hnd] at hc <;> cases data <;> simp [hnd, eraseTc] at hdat <;> rfl
  have hcs : ∀ c ∈ n.children, c < (d1.alloc data).1.size ∧ (d1.alloc data).1.dataOf c ≠ some .document := by
    intro c hc
    have hcx : c ∈ d.childrenOf x := by rw [childrenOf_of_node hn]; exact hc
    have hlt := hb.kidsValid x c hcx
    have hlt1 : c < d1.size := Nat.lt_of_lt_of_le hlt hf1.size
    refine ⟨by rw [size_alloc]; exact Nat.lt_succ_of_lt hlt1, ?_⟩
    rw [dataOf_alloc]
    simp only [Nat.ne_of_lt hlt1, if_false]
    rw [hf1.data c hlt]
    exact hb.kidNotDoc x c hcx
  have hs2 : (d1.alloc data).1.size = d1.size + 1 := size_alloc _ _
  have := cloneKids_nf hcl (id := d1.size) (Nat.le_trans hbs hf1.size) n.children _ _ hb2
    (by rw [hs2]; exact Nat.lt_succ_self _) hidc hcs hk
  exact (nf_alloc b d1 data).trans this

theorem cloneFixed_nf (b : Nat) : ∀ (fuel : Nat) (d : Dom) (x : Id) (d' : Dom) (k : Id), DomBase d → b ≤ d.size →
    Dom.cloneFixed d fuel x = .ok (d', k) → NF b d d' := by
  intro fuel
  induction fuel with
  | zero => intro d x d' k _ _ h; simp [Dom.cloneFixed] at h
  | succ fuel ih =>
    intro d x d' k hb hbs h
    simp only [Dom.cloneFixed, bind, Except.bind] at h
    cases hg : d.get x with
    | error e => simp [hg] at h
    | ok n =>
      have hn := get_ok.mp hg
      simp only [hg] at h
      have hcl : ∀ d c d' k, DomBase d → b ≤ d.size → (fun d c => Dom.cloneFixed d fuel c) d c = .ok (d', k) →
          CS d d' c k ∧ NF b d d' :=
        fun d c d' k hb hbs h => ⟨cloneFixed_frame fuel d c d' k hb h, ih d c d' k hb hbs h⟩
      cases hnd : n.data with
      | element nm a tco ip =>
        cases tco with
        | some tc =>
          simp only [hnd] at h
          cases h1 : Dom.cloneFixed d fuel tc with
          | error e => simp [h1] at h
          | ok r =>
            obtain ⟨d1, tc'⟩ := r
            simp only [h1, pure, Except.pure] at h
            have cs1 := cloneFixed_frame fuel d tc d1 tc' hb h1
            have nf1 := ih d tc d1 tc' hb hbs h1
            cases hk : Dom.cloneKidsWith (fun d c => Dom.cloneFixed d fuel c) d1.size
                (d1.alloc (.element nm a (some tc') ip)).1 n.children with
            | error e =>
              have : (d1.alloc (.element nm a (some tc') ip)).2 = d1.size := rfl
              simp [this, hk] at h
            | ok d3 =>
              have : (d1.alloc (.element nm a (some tc') ip)).2 = d1.size := rfl
              simp only [this, hk, Except.ok.injEq, Prod.mk.injEq] at h
              obtain ⟨rfl, rfl⟩ := h
              refine nf1.trans (clone_stage_nf hcl hb hn cs1.base cs1.fr hbs (by rw [hnd]; rfl) ?_ hk)
              intro nm2 a2 tc2 ip2 he
              cases he
              have htcd : d.dataOf tc = some .document :=
                (hb.tcOk x tc (by unfold Dom.templateContentsOf; rw [dataOf_of_node hn, hnd])).2
              refine ⟨Nat.ne_of_gt (Nat.lt_of_lt_of_le hb.size_pos cs1.fresh), ?_⟩
              have := cs1.data
              rw [htcd] at this
              cases hd' : d1.dataOf tc' with
              | none => simp [hd'] at this
              | some v =>
                simp only [hd', Option.map_some, Option.some.injEq] at this
                rw [eraseTc_document this]
        | none =>
          simp only [hnd, pure, Except.pure] at h
          cases hk : Dom.cloneKidsWith (fun d c => Dom.cloneFixed d fuel c) d.size
              (d.alloc (.element nm a none ip)).1 n.children with
          | error e =>
            have : (d.alloc (.element nm a none ip)).2 = d.size := rfl
            simp [this, hk] at h
          | ok d3 =>
            have : (d.alloc (.element nm a none ip)).2 = d.size := rfl
            simp only [this, hk, Except.ok.injEq, Prod.mk.injEq] at h
            obtain ⟨rfl, rfl⟩ := h
            exact clone_stage_nf hcl hb hn hb (FrK.refl _ _) hbs (by rw [hnd]) (by intro _ _ _ _ he; cases he) hk
      | document | doctype _ _ _ | comment _ | text _ | pi _ _ =>
        simp only [hnd, pure, Except.pure] at h
        cases hk : Dom.cloneKidsWith (fun d c => Dom.cloneFixed d fuel c) d.size
            (d.alloc n.data).1 n.children with
        | error e =>
          have : (d.alloc n.data).2 = d.size := rfl
          rw [hnd] at hk this
          simp [this, hk] at h
        | ok d3 =>
          have : (d.alloc n.data).2 = d.size := rfl
          rw [hnd] at hk this
          simp only [this, hk, Except.ok.injEq, Prod.mk.injEq] at h
          obtain ⟨rfl, rfl⟩ := h
          exact clone_stage_nf hcl hb hn hb (FrK.refl _ _) hbs (by rw [hnd]) (by intro _ _ _ _ he; cases he) hk

theorem cloneList_nf {b : Nat} {cl : Dom → Id → Except String (Dom × Id)}
    (hcl : ∀ d c d' k, DomBase d → b ≤ d.size → cl d c = .ok (d', k) → CS d d' c k ∧ NF b d d') :
    ∀ (cs : List Id) (d d' : Dom) (ks : List Id), DomBase d → b ≤ d.size →
      (∀ c ∈ cs, c < d.size ∧ d.dataOf c ≠ some .document) → Dom.cloneListWith cl d cs = .ok (d', ks) →
      NF b d d' := by
  intro cs
  induction cs with
  | nil =>
    intro d d' ks hb _ _ h
    simp [Dom.cloneListWith] at h
    obtain ⟨rfl, rfl⟩ := h
    exact NF.refl _ _
  | cons c cs ih =>
    intro d d' ks hb hbs hcs h
    simp only [Dom.cloneListWith, bind, Except.bind] at h
    cases h1 : cl d c with
    | error e => simp [h1] at h
    | ok r =>
      obtain ⟨d1, k⟩ := r
      simp only [h1] at h
      obtain ⟨cs1, nf1⟩ := hcl d c d1 k hb hbs h1
      cases h2 : Dom.cloneListWith cl d1 cs with
      | error e => simp [h2] at h
      | ok r2 =>
        obtain ⟨d2, ks2⟩ := r2
        simp only [h2, Except.ok.injEq, Prod.mk.injEq] at h
        obtain ⟨rfl, rfl⟩ := h
        have nf2 := ih d1 d2 ks2 cs1.base (Nat.le_trans hbs cs1.fr.size) (by
          intro c' hc'
          obtain ⟨h1', h2'⟩ := hcs c' (List.mem_cons_of_mem _ hc')
          exact ⟨Nat.lt_of_lt_of_le h1' cs1.fr.size, by rw [cs1.fr.data c' h1']; exact h2'⟩) h2
        exact nf1.trans nf2


theorem attachAll_eff {p : Id} : ∀ (ks : List Id) (d d' : Dom), (∀ k ∈ ks, p ≠ k) → d.attachAll p ks = .ok d' →
    (∀ x, x ∉ ks → d'.parentOf x = d.parentOf x) ∧
    (∀ x, d'.childrenOf x = if x = p then d.childrenOf p ++ ks else d.childrenOf x) := by
  intro ks
  induction ks with
  | nil =>
    intro d d' _ h
    simp [Dom.attachAll] at h; subst h
    exact ⟨fun _ _ => rfl, fun x => by by_cases hx : x = p <;> simp [hx]⟩
  | cons k ks ih =>
    intro d d' hne h
    simp only [Dom.attachAll, bind, Except.bind] at h
    cases h1 : d.appendRaw p k with
    | error e => simp [h1] at h
    | ok d1 =>
      simp only [h1] at h
      obtain ⟨_, _, _, _, _, hpar, hk, _, _, _⟩ := appendRaw_ok h1 (hne k (by simp))
      obtain ⟨i1, i2⟩ := ih d1 d' (fun k' hk' => hne k' (List.mem_cons_of_mem _ hk')) h
      refine ⟨fun x hx => ?_, fun x => ?_⟩
      · simp only [List.mem_cons, not_or] at hx
        rw [i1 x hx.2, hpar]; simp [hx.1]
      · rw [i2]
        by_cases hx : x = p
        · simp only [hx, if_true]; rw [hk]; simp
        · simp only [hx, if_false]; rw [hk]; simp [hx]

theorem childrenOf_of_size_le {d : Dom} {q : Id} (h : d.size ≤ q) : d.childrenOf q = [] := by
  have : d.node? q = none := by
    unfold Dom.node? Dom.size at *
    exact Array.getElem?_eq_none h
  rw [childrenOf_eq, this]

/-- the copy into a `selectedcontent` element other than `r` leaves `r` alone -/
theorem rs_cloneOptionInto {r : Id} {d d' : Dom} {o sc : Id} (hb : DomBase d) (hsc : d.isContainer sc = true)
    (hr : r < d.size) (hrs : r ≠ sc) (h : d.cloneOptionInto .fixed o sc = .ok d') : RS r d d' := by
  obtain ⟨_, hfr⟩ := cloneOptionInto_frame hb hsc h
  have hkr : d'.childrenOf r = d.childrenOf r := hfr.kids r hr (by intro e; cases e; exact hrs rfl)
  refine ⟨hkr, fun c hc _ => hfr.data c (hb.kidsValid r c hc), ?_⟩
  intro hu c hc
  rw [hkr] at hc
  have hclt : c < d.size := hb.kidsValid r c hc
  -- open the definition
  unfold Dom.cloneOptionInto at h
  simp only [bind, Except.bind] at h
  cases ho : d.get o with
  | error e => simp [ho] at h
  | ok on =>
    simp only [ho] at h
    cases h1 : Dom.cloneListWith (fun d c => Dom.cloneFixed d (d.size + 1) c) d on.children with
    | error e => simp [h1] at h
    | ok res =>
      obtain ⟨d1, frag⟩ := res
      simp only [h1] at h
      have hon := get_ok.mp ho
      have hcs : ∀ c ∈ on.children, c < d.size ∧ d.dataOf c ≠ some .document := by
        intro c hc
        have hcx : c ∈ d.childrenOf o := by rw [childrenOf_of_node hon]; exact hc
        exact ⟨hb.kidsValid o c hcx, hb.kidNotDoc o c hcx⟩
      obtain ⟨hb1, hf1, hks⟩ := cloneList_frame (fun d c d' k hb h => cloneFixed_frame _ d c d' k hb h) _ _ _ _ hb
        hcs h1
      have nf1 : NF d.size d d1 := cloneList_nf (b := d.size)
        (fun d0 c d0' k hb0 hbs0 h0 => ⟨cloneFixed_frame _ d0 c d0' k hb0 h0, cloneFixed_nf d.size _ d0 c d0' k hb0 hbs0 h0⟩)
        _ _ _ _ hb (Nat.le_refl _) hcs h1
      cases h2 : d1.detachChildren sc with
      | error e => simp [h2] at h
      | ok d2 =>
        simp only [h2] at h
        obtain ⟨_, hp2, hk2, _, hs2⟩ := detachChildren_ok h2
        have hsclt : sc < d.size := lt_of_isContainer hsc
        have hne : ∀ k ∈ frag, sc ≠ k := by
          intro k hk e
          have := (hks k hk).1
          rw [← e] at this
          exact Nat.lt_irrefl _ (Nat.lt_of_lt_of_le hsclt this)
        obtain ⟨hp3, hk3⟩ := attachAll_eff frag d2 d' hne h
        have hcfrag : c ∉ frag := fun hm => Nat.lt_irrefl _ (Nat.lt_of_lt_of_le hclt (hks c hm).1)
        have hk1sc : d1.childrenOf sc = d.childrenOf sc := hf1.kids sc hsclt (by simp)
        have hcsc : c ∉ d.childrenOf sc := fun hm => hrs ((hu c hc).2 sc hm).symm
        refine ⟨?_, fun q hq => ?_⟩
        · rw [hp3 c hcfrag, hp2, hk1sc]
          simp only [hcsc, if_false]
          rw [nf1.par c hclt]
          exact (hu c hc).1
        · rw [hk3] at hq
          by_cases hqs : q = sc
          · simp only [hqs, if_true] at hq
            rw [hk2] at hq
            simp only [if_true, List.nil_append] at hq
            exact absurd hq hcfrag
          · simp only [hqs, if_false] at hq
            rw [hk2] at hq
            simp only [hqs, if_false] at hq
            rcases Nat.lt_or_ge q d.size with hql | hql
            · rw [hf1.kids q hql (by simp)] at hq
              exact (hu c hc).2 q hq
            · have := nf1.nc (fun q' hq' c' hc' => by rw [childrenOf_of_size_le hq'] at hc'; cases hc') q hql c hq
              exact absurd this (Nat.not_le.mpr hclt)

theorem enabledSelectedcontent_fixed_name {d : Dom} {select sc : Id}
    (h : d.enabledSelectedcontent .fixed select = .ok (some sc)) : d.localNameOf sc = some sSelectedcontent := by
  unfold Dom.enabledSelectedcontent at h
  simp only [bind, Except.bind] at h
  cases hs : d.get select with
  | error e => simp [hs] at h
  | ok sn =>
    simp only [hs] at h
    cases hdata : sn.data with
    | element name attrs tc ip =>
      simp only [hdata] at h
      by_cases hn : name.loc ≠ sSelect
      · simp [hn, throw, throwThe, MonadExceptOf.throw] at h
      · simp only [hn, if_false] at h
        by_cases hm : Dom.hasAttrLocal attrs sMultiple = true
        · simp [hm] at h
        · simp [hm] at h
          have := List.find?_some h
          simpa using this
    | document | doctype _ _ _ | comment _ | text _ | pi _ _ =>
      simp [hdata, throw, throwThe, MonadExceptOf.throw] at h

theorem cloneTarget_fixed_name {d : Dom} {o sc : Id} (h : d.cloneTarget .fixed o = .ok (some sc)) :
    d.localNameOf sc = some sSelectedcontent := by
  unfold Dom.cloneTarget at h
  simp only [bind, Except.bind] at h
  cases ho : d.get o with
  | error e => simp [ho] at h
  | ok on =>
    simp only [ho] at h
    cases hdata : on.data with
    | element name attrs tc ip =>
      simp only [hdata] at h
      by_cases hn : name.loc ≠ sOption
      · simp [hn, throw, throwThe, MonadExceptOf.throw] at h
      · simp only [hn, if_false] at h
        cases hsel : d.nearestAncestorSelect o with
        | error e => simp [hsel] at h
        | ok sel =>
          simp only [hsel] at h
          cases sel with
          | none => simp at h
          | some select =>
            simp only at h
            cases hsc : d.enabledSelectedcontent .fixed select with
            | error e => simp [hsc] at h
            | ok r =>
              simp only [hsc] at h
              cases r with
              | none => simp at h
              | some sc' =>
                simp only at h
                split at h
                · simp at h; subst h; exact enabledSelectedcontent_fixed_name hsc
                · simp at h
    | document | doctype _ _ _ | comment _ | text _ | pi _ _ =>
      simp [hdata, throw, throwThe, MonadExceptOf.throw] at h

/-- `maybe_clone_an_option_into_selectedcontent` leaves an `html` root alone -/
theorem rs_maybeClone {r : Id} {d d' : Dom} {o : Id} (hb : DomBase d) (hr : r < d.size)
    (hrn : d.localNameOf r ≠ some sSelectedcontent) (h : d.maybeCloneOption .fixed o = .ok d') : RS r d d' := by
  unfold Dom.maybeCloneOption at h
  simp only [bind, Except.bind] at h
  cases ht : d.cloneTarget .fixed o with
  | error e => simp [ht] at h
  | ok res =>
    simp only [ht] at h
    cases res with
    | none => simp at h; subst h; exact RS.refl _ _
    | some sc =>
      simp only at h
      have hel := cloneTarget_fixed_isElement ht
      have hne : r ≠ sc := by
        rintro rfl
        exact hrn (cloneTarget_fixed_name ht)
      exact rs_cloneOptionInto hb (isContainer_of_isElement hel) hr hne h

end H5V.Props.C06
