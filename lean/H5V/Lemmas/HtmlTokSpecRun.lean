import H5V.Lemmas.HtmlTokSpecStep2
import H5V.Lemmas.HtmlTokSpecEof
import H5V.Lemmas.HtmlTokSpecEndRun
import H5V.Lemmas.HtmlTokOptE
import H5V.Props.C01
/-!
# C01 simulation — whole runs: `Tokenizer::run`, `feed`, `end` against the run of the specification
-/
set_option linter.unusedSimpArgs false
set_option linter.unusedVariables false
namespace H5V.Lemmas.HtmlTokSpec
open H5V.Model.HtmlTok
open H5V.Spec.HtmlTokenizer (St Tok Emit Tree Switch Ctl ReturnSt normalizeNewlinesFrom normalizeNewlines)

/-- the specification's run -/
abbrev srun := @H5V.Spec.HtmlTokenizer.run

/-! ## the loop of `Tokenizer::run` -/

/-- goal of the run lemma -/
def RunOk (tree : Tree) (t : Tok) (rest : Str) : RunRes → Prop
  | .done m' inp' => Reach tree t rest (fun t' rest' => Rel m' inp' t' rest')
  | .outOfFuel => True
  | .script _ _ => False
  | .indicator _ _ => False
  | .panic _ => False

/-- **the run theorem**: wherever the model's loop stops for more input, the specification has
reached a related configuration; the loop neither pauses nor panics -/
theorem run_sim (o : Opts) (ho : o.exactErrors = false) (pol : Pol) (tree : Tree) (hpt : PolTree pol tree)
    (fuel : Nat) : ∀ (m : Mach) (inp : Str) (t : Tok) (rest : Str), Rel m inp t rest →
      RunOk tree t rest (run o pol fuel m inp) := by
  induction fuel with
  | zero => intro m inp t rest _; simp [run, RunOk]
  | succ n ih =>
    intro m inp t rest h
    have hs := step_sim o ho pol tree hpt m inp t rest h
    unfold run
    cases hstep : step o pol m inp with
    | cont m1 i1 =>
      rw [hstep, stepOk_cont] at hs
      simp only
      obtain ⟨t1, r1, hsteps, hrel⟩ := hs
      have := ih m1 i1 t1 r1 hrel
      cases hr : run o pol n m1 i1 with
      | done m' i' =>
        rw [hr] at this
        obtain ⟨t2, r2, hs2, hrel2⟩ := this
        exact ⟨t2, r2, hsteps.trans hs2, hrel2⟩
      | outOfFuel => trivial
      | script a b => rw [hr] at this; exact this
      | indicator a b => rw [hr] at this; exact this
      | panic e => rw [hr] at this; exact this
    | suspend m1 i1 =>
      rw [hstep, stepOk_suspend] at hs
      exact Reach.done hs
    | script a b => rw [hstep] at hs; exact hs
    | indicator a b => rw [hstep] at hs; exact hs
    | panic e => rw [hstep] at hs; exact hs

/-! ## the specification's run from a chain of steps -/

theorem srun_of_steps (tree : Tree) {t : Tok} {rest : Str} {t1 : Tok} {r1 : Str} {t2 : Tok}
    (hs : Steps tree t rest t1 r1) (hstop : sstep tree t1 r1 = (t2, .stop)) :
    ∀ fuel, (srun tree fuel t rest).isSome = true → srun tree fuel t rest = some t2.out.reverse := by
  induction hs with
  | refl t rest =>
    intro fuel hsome
    cases fuel with
    | zero => simp [srun, H5V.Spec.HtmlTokenizer.run] at hsome
    | succ n =>
      simp only [srun, H5V.Spec.HtmlTokenizer.run]
      have : H5V.Spec.HtmlTokenizer.step tree t rest = (t2, .stop) := hstop
      rw [this]
  | @step t0 rest0 t1' n' t'' rest'' h1 _ ih =>
    intro fuel hsome
    cases fuel with
    | zero => simp [srun, H5V.Spec.HtmlTokenizer.run] at hsome
    | succ n =>
      have h1' : H5V.Spec.HtmlTokenizer.step tree t0 rest0 = (t1', Ctl.advance n') := h1
      simp only [srun, H5V.Spec.HtmlTokenizer.run, h1'] at hsome ⊢
      exact ih hstop n hsome

/-! ## the relation is blind to `at_eof` -/

theorem absorb_setAtEof (m : Mach) (lag : Str) (b : Bool) :
    absorb (m.setAtEof b) lag = (absorb m lag).setAtEof b := by
  unfold absorb
  have e1 : (m.setAtEof b).state = m.state := rfl
  simp only [e1]
  split
  · rfl
  · split
    · rfl
    · split <;> rfl

theorem RelCore.setAtEof {m : Mach} {inp : Str} {t : Tok} {rest : Str} (h : RelCore m inp t rest)
    (b : Bool) : RelCore (m.setAtEof b) inp t rest := by
  obtain ⟨⟨h1, h2, h3, h4, h5⟩, ht, hg⟩ := h
  refine ⟨⟨h1, h2, h3, h4, ?_⟩, ht.setAtEof b, hg⟩
  unfold InpRel at h5 ⊢
  rw [stash_congr (m := m) (m' := m.setAtEof b) rfl rfl rfl]
  exact h5

theorem Rel.setAtEof {m : Mach} {inp : Str} {t : Tok} {rest : Str} (h : Rel m inp t rest) (b : Bool) :
    Rel (m.setAtEof b) inp t rest := by
  obtain ⟨lag, inp0, hinp, hok, hc⟩ := h
  refine ⟨lag, inp0, hinp, ?_, ?_⟩
  · rcases hok with hnil | hok
    · exact Or.inl hnil
    · exact Or.inr hok
  · rw [absorb_setAtEof]; exact hc.setAtEof b

/-- with nothing unread the relation has no lag -/
theorem Rel.core_of_nil {m : Mach} {t : Tok} {rest : Str} (h : Rel m [] t rest) : RelCore m [] t rest := by
  obtain ⟨lag, inp0, hinp, hok, hc⟩ := h
  have hl : lag = [] := by
    cases lag with
    | nil => rfl
    | cons c l => simp at hinp
  subst hl
  have hi : inp0 = [] := by simpa using hinp.symm
  subst hi
  simpa [absorb] using hc

/-! ## `Tokenizer::end` -/

/-- the specification stops after `k ≥ 0` further steps with output `out` -/
def StopsFrom (tree : Tree) (t : Tok) (rest : Str) (out : List Emit) : Prop :=
  ∃ t1 r1 t2, Steps tree t rest t1 r1 ∧ sstep tree t1 r1 = (t2, .stop) ∧ t2.out = out

theorem StopsFrom.of_reach {tree : Tree} {t : Tok} {rest : Str} {out : List Emit} {P : Tok → Str → Prop}
    (h : Reach tree t rest P) (hp : ∀ t' r', P t' r' → StopsFrom tree t' r' out) : StopsFrom tree t rest out := by
  obtain ⟨t', r', hs, hP⟩ := h
  obtain ⟨t1, r1, t2, hs2, hstop, hout⟩ := hp t' r' hP
  exact ⟨t1, r1, t2, hs.trans hs2, hstop, hout⟩

/-- the first part of `end()`: finish a pending character reference -/
theorem finishPre_sim (o : Opts) (ho : o.exactErrors = false) (tree : Tree) (m : Mach) (t : Tok) (rest : Str)
    (h : RelCore m [] t rest) (m2 : Mach) (i2 : Str) (hp : finishPreE o m = .ok (m2, i2)) :
    Reach tree t rest (fun t' r' => Rel m2 i2 t' r') := by
  unfold finishPreE at hp
  cases hcr : m.charRef with
  | none =>
    rw [hcr] at hp
    simp only [Except.ok.injEq, Prod.mk.injEq] at hp
    obtain ⟨h1, h2⟩ := hp
    subst h1 h2
    exact Reach.done h.toRel
  | some cr =>
    rw [hcr] at hp
    simp only at hp
    cases hce : crEof o m [] cr with
    | error e => rw [hce] at hp; simp at hp
    | ok v =>
      obtain ⟨m1, i1, chars⟩ := v
      rw [hce] at hp
      simp only at hp
      cases hpc : processCharRef (m1.setCharRef none) chars with
      | mk mp sig =>
        rw [hpc] at hp
        cases sig with
        | cont =>
          simp only [Except.ok.injEq, Prod.mk.injEq] at hp
          obtain ⟨h1, h2⟩ := hp
          subst h1 h2
          cases hcs : cr.state with
          | named => exact crEof_sim_named o ho tree m t rest h cr hcr (Or.inl hcs) m1 i1 chars hce mp hpc
          | bogusName => exact crEof_sim_named o ho tree m t rest h cr hcr (Or.inr hcs) m1 i1 chars hce mp hpc
          | begin => exact crEof_sim_num o ho tree m t rest h cr hcr (Or.inl hcs) m1 i1 chars hce mp hpc
          | octothorpe =>
            exact crEof_sim_num o ho tree m t rest h cr hcr (Or.inr (Or.inl hcs)) m1 i1 chars hce mp hpc
          | numeric b =>
            exact crEof_sim_num o ho tree m t rest h cr hcr (Or.inr (Or.inr (Or.inl ⟨b, hcs⟩))) m1 i1 chars hce
              mp hpc
          | numericSemicolon =>
            exact crEof_sim_num o ho tree m t rest h cr hcr (Or.inr (Or.inr (Or.inr hcs))) m1 i1 chars hce mp hpc
        | script => simp at hp
        | indicator => simp at hp
        | panic e => simp at hp

/-- after the hand-back of a pending character reference nothing that is left to read contains
`&` or `>` (the invariant of the final `run` of `end()`, `HtmlTokTerm.lean`) -/
theorem finishPre_endInv (o : Opts) (m : Mach) (hq : Quiet m) (m2 : Mach) (i2 : Str)
    (hp : finishPreE o m = .ok (m2, i2)) : EndInv m2 i2 := by
  have hi := hq.tinv
  unfold finishPreE at hp
  cases hcr : m.charRef with
  | none =>
    rw [hcr] at hp
    simp only [Except.ok.injEq, Prod.mk.injEq] at hp
    obtain ⟨h1, h2⟩ := hp
    subst h1 h2
    refine ⟨hi, hcr, pend_plain (fun hx => ?_) (hq.sp hcr) (fun x hx => absurd hx List.not_mem_nil)⟩
    rw [hq.nrec] at hx; simp at hx
  | some cr =>
    rw [hcr] at hp
    simp only at hp
    obtain ⟨c1, c2, c3⟩ := hi.linv.cr cr hcr
    have hstate := crStateOk_facts (hi.linv.safe.crState cr hcr)
    cases hce : crEof o m [] cr with
    | error e => rw [hce] at hp; simp at hp
    | ok v =>
      obtain ⟨m1, i1, chars⟩ := v
      rw [hce] at hp
      simp only at hp
      obtain ⟨ht, hnp⟩ := finish_charRef_inv o m cr hi.linv hcr m1 i1 chars hce
      obtain ⟨_, _, l3, _, l5, _⟩ := crEof_lines o m cr c1 c2 c3 m1 i1 chars hce
      have hback := crEof_back o m cr c1 c2 c3 (hi.crt cr hcr) m1 i1 chars hce
      have hpf := processCharRef_fields (m1.setCharRef none) chars
      have hpc0 := processCharRef_charRef (m1.setCharRef none) chars
      cases hpc : processCharRef (m1.setCharRef none) chars with
      | mk mp sig =>
        rw [hpc] at hp ht hpf hpc0
        simp only at hpf hpc0
        cases sig with
        | cont =>
          simp only [Except.ok.injEq, Prod.mk.injEq] at hp
          obtain ⟨h1, h2⟩ := hp
          subst h1 h2
          have hcr2 : mp.charRef = none := by simpa using hpc0
          have hst2 : mp.state = m.state := by rw [hpf.1]; simp only [setCharRef_state]; exact l5
          have hrec2 : mp.reconsume = false := by rw [hpf.2.2.2.1]; simpa using l3
          refine ⟨ht, hcr2, pend_plain (fun hx => ?_) ?_ hback⟩
          · rw [hrec2] at hx; simp at hx
          · rw [stash_plain hcr2 (by rw [hst2]; exact hstate.1) (by rw [hst2]; exact hstate.2.1)]
            intro x hx; exact absurd hx List.not_mem_nil
        | script => simp at hp
        | indicator => simp at hp
        | panic e => simp at hp

/-- where the final `run` of `end()` stops: no character reference in progress, nothing stashed,
no pending reconsume -/
theorem run_end_last (o : Opts) (pol : Pol) (fuel : Nat) : ∀ (m : Mach) (inp : Str), EndInv m inp →
    m.atEof = true → ∀ m' i', run o pol fuel m inp = .done m' i' →
      m'.charRef = none ∧ stash m' = [] ∧ m'.reconsume = false := by
  induction fuel with
  | zero => intro m inp _ _ m' i' h; simp [run] at h
  | succ n ih =>
    intro m inp he hat m' i' h
    unfold run at h
    cases hs : step o pol m inp with
    | cont m1 i1 =>
      rw [hs] at h
      simp only at h
      have he1 := (step_end o pol m inp he).2 m1 i1 hs
      have hat1 : m1.atEof = true := by
        rw [step_atEof o pol m inp m1 i1 (by rw [hs]; rfl)]; exact hat
      exact ih m1 i1 he1 hat1 m' i' h
    | suspend m1 i1 =>
      rw [hs] at h
      simp only [RunRes.done.injEq] at h
      obtain ⟨h1, h2⟩ := h
      subst h1 h2
      have hc := suspend_clean o pol m inp he.tinv he.cr hat m1 i1 hs
      have hq := step_stop_quiet o pol m inp he.tinv m1 i1 (by rw [hs]; rfl) (by intro a b; rw [hs]; simp)
      exact ⟨hc.1, hc.2, hq.nrec⟩
    | script a b => rw [hs] at h; simp at h
    | indicator a b => rw [hs] at h; simp at h
    | panic e => rw [hs] at h; simp at h

/-- **`Tokenizer::end` against the specification's handling of the end of input** -/
theorem finish_sim (o : Opts) (ho : o.exactErrors = false) (pol : Pol) (tree : Tree) (hpt : PolTree pol tree)
    (m : Mach) (t : Tok) (rest : Str) (h : Rel m [] t rest) (hq : Quiet m) (mf : Mach)
    (hf : finish o pol m = .ok mf) : StopsFrom tree t rest (flat mf.out) := by
  have hc := h.core_of_nil
  rw [finish_eqE] at hf
  cases hpre : finishPreE o m with
  | error e => rw [hpre] at hf; simp at hf
  | ok mi =>
    obtain ⟨m2, i2⟩ := mi
    rw [hpre] at hf
    simp only at hf
    have hreach := finishPre_sim o ho tree m t rest hc m2 i2 hpre
    have hend := (finishPre_endInv o m hq m2 i2 hpre).setAtEof true
    refine StopsFrom.of_reach hreach fun t2 r2 hrel2 => ?_
    have hrel2' := hrel2.setAtEof true
    unfold finishPost at hf
    simp only at hf
    have hrun := run_sim o ho pol tree hpt (fuelFor (m2.setAtEof true) i2) (m2.setAtEof true) i2 t2 r2 hrel2'
    cases hr : run o pol (fuelFor (m2.setAtEof true) i2) (m2.setAtEof true) i2 with
    | done m3 i3 =>
      rw [hr] at hf hrun
      have hi3 : i3 = [] := run_done_nil o pol _ _ _ hend.tinv m3 i3 hr
      subst hi3
      simp only [List.isEmpty_nil, Bool.not_true, Bool.false_eq_true, if_false] at hf
      obtain ⟨hcr3, hst3, hrec3⟩ := run_end_last o pol _ _ _ hend rfl m3 [] hr
      refine StopsFrom.of_reach hrun fun t3 r3 hrel3 => ?_
      have hc3 := hrel3.core_of_nil
      have hr3 : r3 = [] := by
        have := hc3.inp
        unfold InpRel at this
        rw [this, hst3]
        simp [rc, hrec3, norm_nil]
      subst hr3
      obtain ⟨t4, t5, hs4, hstop, hout⟩ := eof_sim o ho tree m3 t3 (hc3.regCore hcr3) mf hf
      exact ⟨t4, [], t5, hs4, hstop, hout⟩
    | outOfFuel => rw [hr] at hf; simp at hf
    | script a b => rw [hr] at hf; simp at hf
    | indicator a b => rw [hr] at hf; simp at hf
    | panic e => rw [hr] at hf; simp at hf

end H5V.Lemmas.HtmlTokSpec
