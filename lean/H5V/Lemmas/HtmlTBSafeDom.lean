import H5V.Lemmas.DomClone
/-!
# Tree-builder safety, part 1: what every `TreeSink` call preserves, contract or not

`sigOf d h` is the part of an element node that the HTML tree builder's control flow depends on —
its qualified name, its template-contents link and its "MathML annotation-xml integration point"
flag.  `Ext d d'` ("`d'` extends `d`"): every element of `d` is an element of `d'` with the same
signature.  `apply_ext`: **every** successful `Dom.apply` — whether or not the call is inside the
`TreeSink` contract — extends the arena.  Hence the answers of `elem_name`,
`get_template_contents`, `is_mathml_annotation_xml_integration_point` for a handle never change
during a parse, and a node created later is different from every handle held before.
-/
namespace H5V.Lemmas.TBSafe
open H5V.Model.Dom (Id QualName Attr NodeOrText SinkOp Output ElementFlags QuirksMode Dom NodeData Node)
open H5V.Lemmas.Dom

abbrev Sig := QualName × Option Id × Bool

def sigData : NodeData → Option Sig
  | .element n _ tc ip => some (n, tc, ip)
  | _ => none

/-- name / template contents / integration-point flag of an element node; `none` for anything else -/
def sigOf (d : Dom) (h : Id) : Option Sig := (d.dataOf h).bind sigData

/-- every element of `d` is an element of `d'` with the same signature -/
def Ext (d d' : Dom) : Prop := ∀ h x, sigOf d h = some x → sigOf d' h = some x

theorem Ext.refl (d : Dom) : Ext d d := fun _ _ h => h
theorem Ext.trans {a b c : Dom} (h1 : Ext a b) (h2 : Ext b c) : Ext a c := fun h x hx => h2 h x (h1 h x hx)

theorem sigOf_lt {d : Dom} {h : Id} {x : Sig} (hs : sigOf d h = some x) : h < d.size := by
  unfold sigOf at hs
  cases hd : d.dataOf h with
  | none => simp [hd] at hs
  | some v => exact lt_of_dataOf_some hd

theorem sigOf_none_of_ge {d : Dom} {h : Id} (hge : d.size ≤ h) : sigOf d h = none := by
  cases hs : sigOf d h with
  | none => rfl
  | some x => exact absurd (sigOf_lt hs) (Nat.not_lt.mpr hge)

theorem ext_of_data {d d' : Dom} (h : ∀ x, x < d.size → d'.dataOf x = d.dataOf x) : Ext d d' := by
  intro i x hx
  have := sigOf_lt hx
  unfold sigOf at hx ⊢
  rw [h i this]; exact hx

theorem ext_of_data_all {d d' : Dom} (h : ∀ x, d'.dataOf x = d.dataOf x) : Ext d d' :=
  ext_of_data (fun x _ => h x)

/-- data changes at one node, keeping its signature -/
theorem ext_of_data_one {d d' : Dom} {t : Id} {v : NodeData}
    (h : ∀ x, d'.dataOf x = if x = t then some v else d.dataOf x)
    (hv : ∀ w, d.dataOf t = some w → sigData w = none ∨ sigData v = sigData w) : Ext d d' := by
  intro i x hx
  unfold sigOf at hx ⊢
  rw [h i]
  by_cases hi : i = t
  · subst hi
    cases hd : d.dataOf i with
    | none => simp [hd] at hx
    | some w =>
      rw [hd] at hx
      rcases hv w hd with h0 | h1
      · simp [h0] at hx
      · simpa [h1] using hx
  · simpa [hi] using hx

theorem ext_alloc (d : Dom) (data : NodeData) : Ext d (d.alloc data).1 :=
  ext_of_data (fun x hx => by rw [dataOf_alloc]; simp [Nat.ne_of_lt hx])

theorem ext_setNode_same {d : Dom} {i : Id} {n0 : Node} (h0 : d.node? i = some n0) (n : Node)
    (hd : n.data = n0.data) : ∀ x, (d.setNode i n).dataOf x = d.dataOf x := by
  intro x
  rw [dataOf_setNode h0]
  by_cases hx : x = i
  · subst hx; simp [dataOf_of_node h0, hd]
  · simp [hx]

/-! ### the free functions of rcdom -/

theorem appendRaw_data {d d' : Dom} {p c : Id} (h : d.appendRaw p c = .ok d') :
    ∀ x, d'.dataOf x = d.dataOf x := by
  unfold Dom.appendRaw at h
  simp only [bind, Except.bind] at h
  cases hc : d.get c with
  | error e => simp [hc] at h
  | ok cn =>
    have hcn := get_ok.mp hc
    simp only [hc] at h
    by_cases hpar : cn.parent.isSome = true
    · simp [hpar, throw, throwThe, MonadExceptOf.throw] at h
    · simp only [hpar] at h
      have h1 := ext_setNode_same hcn { cn with parent := some p } rfl
      cases hp : (d.setNode c { cn with parent := some p }).get p with
      | error e => simp [hp] at h
      | ok pn =>
        have hpn := get_ok.mp hp
        simp only [hp] at h
        simp at h
        subst h
        intro x
        exact (ext_setNode_same hpn { pn with children := pn.children ++ [c] } rfl x).trans (h1 x)

theorem removeFromParent_data' {d d' : Dom} {t : Id} (h : d.removeFromParent t = .ok d') :
    ∀ x, d'.dataOf x = d.dataOf x := removeFromParent_data h

theorem insertAtIndex_data {d d' : Dom} {P c : Id} {i : Nat} (h : d.insertAtIndex P i c = .ok d') :
    ∀ x, d'.dataOf x = d.dataOf x := by
  obtain ⟨d1, hr, _, _, _, _, _, hd, _, _⟩ := insertAtIndex_ok h
  intro x; rw [hd, removeFromParent_data hr]

theorem ext_append {d d' : Dom} {p : Id} {ch : NodeOrText} (h : d.append p ch = .ok d') : Ext d d' := by
  cases ch with
  | node c => rw [append_node_eq] at h; exact ext_of_data_all (appendRaw_data h)
  | text s =>
    obtain ⟨_, h1 | h2⟩ := append_text_ok h
    · obtain ⟨hl, old, _, hdl, _, hd, _⟩ := h1
      exact ext_of_data_one hd (fun w hw => by rw [hdl] at hw; cases hw; exact Or.inl rfl)
    · exact (ext_alloc d _).trans (ext_of_data_all (appendRaw_data h2.2))

theorem ext_appendBeforeSibling {d d' : Dom} {s : Id} {ch : NodeOrText}
    (h : d.appendBeforeSibling s ch = .ok d') : Ext d d' := by
  obtain ⟨P, i, _, _, _, hm⟩ := appendBeforeSibling_ok h
  cases ch with
  | node c => exact ext_of_data_all (insertAtIndex_data hm)
  | text t =>
    rcases hm with ⟨prev, old, _, _, hdl, _, hd, _⟩ | ⟨_, h2⟩
    · exact ext_of_data_one hd (fun w hw => by rw [hdl] at hw; cases hw; exact Or.inl rfl)
    · exact (ext_alloc d _).trans (ext_of_data_all (insertAtIndex_data h2))

theorem ext_preDetach {b : Dom.BeforeSiblingVariant} {d d' : Dom} {ch : NodeOrText}
    (h : Dom.preDetach b d ch = .ok d') : Ext d d' := by
  cases ch with
  | text t => simp [Dom.preDetach] at h; subst h; exact Ext.refl _
  | node c =>
    cases b with
    | asCode => simp [Dom.preDetach] at h; subst h; exact Ext.refl _
    | detachFirst => exact ext_of_data_all (removeFromParent_data (by simpa [Dom.preDetach] using h))

theorem ext_appendBeforeSiblingV {b : Dom.BeforeSiblingVariant} {d d' : Dom} {s : Id} {ch : NodeOrText}
    (h : Dom.appendBeforeSiblingV b d s ch = .ok d') : Ext d d' := by
  unfold Dom.appendBeforeSiblingV at h
  simp only [bind, Except.bind] at h
  cases hp : Dom.preDetach b d ch with
  | error e => simp [hp] at h
  | ok d1 =>
    simp only [hp] at h
    exact (ext_preDetach hp).trans (ext_appendBeforeSibling h)

theorem ext_appendBasedOnParentNodeV {b : Dom.BeforeSiblingVariant} {d d' : Dom} {e p : Id} {ch : NodeOrText}
    (h : Dom.appendBasedOnParentNodeV b d e p ch = .ok d') : Ext d d' := by
  unfold Dom.appendBasedOnParentNodeV at h
  simp only [bind, Except.bind] at h
  cases he : d.get e with
  | error x => simp [he] at h
  | ok en =>
    simp only [he] at h
    split at h
    · exact ext_appendBeforeSiblingV h
    · exact ext_append h

theorem ext_appendDoctype {d d' : Dom} {n p s : List Char} (h : d.appendDoctypeToDocument n p s = .ok d') :
    Ext d d' := by
  unfold Dom.appendDoctypeToDocument at h
  exact (ext_alloc d _).trans (ext_of_data_all (appendRaw_data h))

theorem ext_addAttrs {d d' : Dom} {t : Id} {attrs : List Attr} (h : d.addAttrsIfMissing t attrs = .ok d') :
    Ext d d' := by
  obtain ⟨name, existing, tc, ip, hdt, _, hd, _⟩ := addAttrsIfMissing_ok h
  exact ext_of_data_one hd (fun w hw => by rw [hdt] at hw; cases hw; exact Or.inr rfl)

theorem ext_reparentChildren {d d' : Dom} {n np : Id} (h : d.reparentChildren n np = .ok d') : Ext d d' := by
  obtain ⟨_, _, _, _, _, hd, _, _⟩ := reparentChildren_ok h
  exact ext_of_data_all hd

/-! ### `maybe_clone_an_option_into_selectedcontent` (no invariant assumed) -/

theorem ext_cloneKidsWith {cl : Dom → Id → Except String (Dom × Id)}
    (hcl : ∀ d c d' k, cl d c = .ok (d', k) → Ext d d') (p : Id) :
    ∀ (cs : List Id) (d d' : Dom), Dom.cloneKidsWith cl p d cs = .ok d' → Ext d d' := by
  intro cs
  induction cs with
  | nil => intro d d' h; simp [Dom.cloneKidsWith] at h; subst h; exact Ext.refl _
  | cons c cs ih =>
    intro d d' h
    simp only [Dom.cloneKidsWith, bind, Except.bind] at h
    cases h1 : cl d c with
    | error e => simp [h1] at h
    | ok r =>
      obtain ⟨d1, k⟩ := r
      simp only [h1] at h
      cases h2 : d1.appendRaw p k with
      | error e => simp [h2] at h
      | ok d2 =>
        simp only [h2] at h
        exact ((hcl _ _ _ _ h1).trans (ext_of_data_all (appendRaw_data h2))).trans (ih _ _ h)

theorem bind_ok {ε α β : Type} {x : Except ε α} {f : α → Except ε β} {b : β}
    (h : (x >>= f) = .ok b) : ∃ a, x = .ok a ∧ f a = .ok b := by
  cases x with
  | error e => simp [bind, Except.bind] at h
  | ok a => exact ⟨a, rfl, by simpa [bind, Except.bind] using h⟩

theorem ext_cloneFixed : ∀ (fuel : Nat) (d : Dom) (x : Id) (d' : Dom) (k : Id),
    Dom.cloneFixed d fuel x = .ok (d', k) → Ext d d' := by
  intro fuel
  induction fuel with
  | zero => intro d x d' k h; simp [Dom.cloneFixed] at h
  | succ fuel ih =>
    intro d x d' k h
    simp only [Dom.cloneFixed] at h
    obtain ⟨n, _, h⟩ := bind_ok h
    have fin : ∀ (d1 : Dom) (data : NodeData), Ext d d1 →
        (Dom.cloneKidsWith (fun d c => Dom.cloneFixed d fuel c) (d1.alloc data).2 (d1.alloc data).1 n.children
          >>= fun d2 => (Except.ok (d2, (d1.alloc data).2) : Except String (Dom × Id))) = .ok (d', k) →
        Ext d d' := by
      intro d1 data he hh
      obtain ⟨d2, hk, hh⟩ := bind_ok hh
      simp only [Except.ok.injEq, Prod.mk.injEq] at hh
      rw [← hh.1]
      exact (he.trans (ext_alloc d1 data)).trans
        (ext_cloneKidsWith (fun a c a' k' hc => ih a c a' k' hc) _ _ _ _ hk)
    split at h
    · obtain ⟨⟨dt, tc'⟩, ht, h⟩ := bind_ok h
      exact fin dt _ (ih _ _ _ _ ht) h
    · exact fin d _ (Ext.refl d) h

theorem ext_cloneListWith {cl : Dom → Id → Except String (Dom × Id)}
    (hcl : ∀ d c d' k, cl d c = .ok (d', k) → Ext d d') :
    ∀ (cs : List Id) (d d' : Dom) (ks : List Id), Dom.cloneListWith cl d cs = .ok (d', ks) → Ext d d' := by
  intro cs
  induction cs with
  | nil => intro d d' ks h; simp [Dom.cloneListWith] at h; rw [← h.1]; exact Ext.refl _
  | cons c cs ih =>
    intro d d' ks h
    simp only [Dom.cloneListWith, bind, Except.bind] at h
    cases h1 : cl d c with
    | error e => simp [h1] at h
    | ok r =>
      obtain ⟨d1, k⟩ := r
      simp only [h1] at h
      cases h2 : Dom.cloneListWith cl d1 cs with
      | error e => simp [h2] at h
      | ok r2 =>
        obtain ⟨d2, ks2⟩ := r2
        simp only [h2] at h
        cases h
        exact (hcl _ _ _ _ h1).trans (ih _ _ _ h2)

theorem clearParents_data : ∀ (cs : List Id) (d : Dom) (x : Id), (Dom.clearParents d cs).dataOf x = d.dataOf x := by
  intro cs
  induction cs with
  | nil => intro d x; rfl
  | cons c cs ih =>
    intro d x
    simp only [Dom.clearParents]
    rw [ih]
    cases hc : d.nodes[c]? with
    | none => rfl
    | some cn =>
      have hcn : d.node? c = some cn := hc
      exact ext_setNode_same hcn { cn with parent := none } rfl x

theorem detachChildren_data {d d' : Dom} {p : Id} (h : d.detachChildren p = .ok d') :
    ∀ x, d'.dataOf x = d.dataOf x := by
  unfold Dom.detachChildren at h
  simp only [bind, Except.bind] at h
  cases hp : d.get p with
  | error e => simp [hp] at h
  | ok pn =>
    simp only [hp] at h
    cases hp2 : (d.clearParents pn.children).get p with
    | error e => simp [hp2] at h
    | ok pn2 =>
      simp only [hp2] at h
      cases h
      intro x
      exact (ext_setNode_same (get_ok.mp hp2) { pn2 with children := [] } rfl x).trans (clearParents_data _ _ x)

theorem attachAll_data {p : Id} : ∀ (ks : List Id) (d d' : Dom), d.attachAll p ks = .ok d' →
    ∀ x, d'.dataOf x = d.dataOf x := by
  intro ks
  induction ks with
  | nil => intro d d' h; simp [Dom.attachAll] at h; subst h; intro x; rfl
  | cons k ks ih =>
    intro d d' h
    simp only [Dom.attachAll, bind, Except.bind] at h
    cases h1 : d.appendRaw p k with
    | error e => simp [h1] at h
    | ok d1 =>
      simp only [h1] at h
      intro x; rw [ih _ _ h, appendRaw_data h1]

theorem ext_maybeCloneOption_fixed {d d' : Dom} {o : Id} (h : d.maybeCloneOption .fixed o = .ok d') :
    Ext d d' := by
  unfold Dom.maybeCloneOption at h
  simp only [bind, Except.bind] at h
  cases ht : d.cloneTarget .fixed o with
  | error e => simp [ht] at h
  | ok r =>
    simp only [ht] at h
    cases r with
    | none => simp at h; subst h; exact Ext.refl _
    | some sc =>
      simp only at h
      unfold Dom.cloneOptionInto at h
      simp only [bind, Except.bind] at h
      cases ho : d.get o with
      | error e => simp [ho] at h
      | ok on =>
        simp only [ho] at h
        cases h1 : Dom.cloneListWith (fun d c => Dom.cloneFixed d (d.size + 1) c) d on.children with
        | error e => simp [h1] at h
        | ok r1 =>
          obtain ⟨d1, frag⟩ := r1
          simp only [h1] at h
          cases h2 : d1.detachChildren sc with
          | error e => simp [h2] at h
          | ok d2 =>
            simp only [h2] at h
            exact ((ext_cloneListWith (fun a c a' k hc => ext_cloneFixed _ a c a' k hc) _ _ _ _ h1).trans
              (ext_of_data_all (detachChildren_data h2))).trans (ext_of_data_all (attachAll_data _ _ _ h))

/-! ### every sink call -/

theorem ext_createElement (d : Dom) (name : QualName) (attrs : List Attr) (flags : ElementFlags) :
    Ext d (d.createElement name attrs flags).1 := by
  unfold Dom.createElement
  split
  · exact (ext_alloc d _).trans (ext_alloc _ _)
  · exact ext_alloc d _

/-- **every successful sink call extends the arena** (no contract, no invariant assumed) -/
theorem apply_ext {d d' : Dom} {op : SinkOp} {out : Output} (h : d.apply op = .ok (d', out)) : Ext d d' := by
  unfold Dom.apply Dom.cloneVariant Dom.beforeSiblingVariant at h
  cases op with
  | parseError msg => simp [Dom.applyV] at h; rw [← h.1]; exact ext_of_data_all (fun _ => rfl)
  | getDocument => simp [Dom.applyV] at h; rw [← h.1]; exact Ext.refl _
  | elemName t =>
    simp only [Dom.applyV, bind, Except.bind] at h
    cases he : d.elemName t with
    | error e => simp [he] at h
    | ok r => simp [he] at h; rw [← h.1]; exact Ext.refl _
  | createElement name attrs flags =>
    simp [Dom.applyV] at h; rw [← h.1]; exact ext_createElement d name attrs flags
  | createComment text => simp [Dom.applyV, Dom.createComment] at h; rw [← h.1]; exact ext_alloc d _
  | createPi t dd => simp [Dom.applyV, Dom.createPi] at h; rw [← h.1]; exact ext_alloc d _
  | append p c =>
    simp only [Dom.applyV, bind, Except.bind] at h
    cases he : d.append p c with
    | error e => simp [he] at h
    | ok r => simp [he] at h; rw [← h.1]; exact ext_append he
  | appendBasedOnParentNode e p c =>
    simp only [Dom.applyV, bind, Except.bind] at h
    cases he : Dom.appendBasedOnParentNodeV .detachFirst d e p c with
    | error e => simp [he] at h
    | ok r => simp [he] at h; rw [← h.1]; exact ext_appendBasedOnParentNodeV he
  | appendDoctypeToDocument n p s =>
    simp only [Dom.applyV, bind, Except.bind] at h
    cases he : d.appendDoctypeToDocument n p s with
    | error e => simp [he] at h
    | ok r => simp [he] at h; rw [← h.1]; exact ext_appendDoctype he
  | markScriptAlreadyStarted n => simp [Dom.applyV] at h; rw [← h.1]; exact Ext.refl _
  | pop n => simp [Dom.applyV] at h; rw [← h.1]; exact Ext.refl _
  | getTemplateContents t =>
    simp only [Dom.applyV, bind, Except.bind] at h
    cases he : d.getTemplateContents t with
    | error e => simp [he] at h
    | ok r => simp [he] at h; rw [← h.1]; exact Ext.refl _
  | sameNode x y => simp [Dom.applyV] at h; rw [← h.1]; exact Ext.refl _
  | setQuirksMode m => simp [Dom.applyV] at h; rw [← h.1]; exact ext_of_data_all (fun _ => rfl)
  | appendBeforeSibling s c =>
    simp only [Dom.applyV, bind, Except.bind] at h
    cases he : Dom.appendBeforeSiblingV .detachFirst d s c with
    | error e => simp [he] at h
    | ok r => simp [he] at h; rw [← h.1]; exact ext_appendBeforeSiblingV he
  | addAttrsIfMissing t a =>
    simp only [Dom.applyV, bind, Except.bind] at h
    cases he : d.addAttrsIfMissing t a with
    | error e => simp [he] at h
    | ok r => simp [he] at h; rw [← h.1]; exact ext_addAttrs he
  | associateWithForm a b c e => simp [Dom.applyV] at h; rw [← h.1]; exact Ext.refl _
  | removeFromParent t =>
    simp only [Dom.applyV, bind, Except.bind] at h
    cases he : d.removeFromParent t with
    | error e => simp [he] at h
    | ok r => simp [he] at h; rw [← h.1]; exact ext_of_data_all (removeFromParent_data he)
  | reparentChildren n np =>
    simp only [Dom.applyV, bind, Except.bind] at h
    cases he : d.reparentChildren n np with
    | error e => simp [he] at h
    | ok r => simp [he] at h; rw [← h.1]; exact ext_reparentChildren he
  | isMathmlAnnotationXmlIntegrationPoint t =>
    simp only [Dom.applyV, bind, Except.bind] at h
    cases he : d.isMathmlAnnotationXmlIntegrationPoint t with
    | error e => simp [he] at h
    | ok r => simp [he] at h; rw [← h.1]; exact Ext.refl _
  | setCurrentLine l => simp [Dom.applyV] at h; rw [← h.1]; exact Ext.refl _
  | allowDeclarativeShadowRoots p => simp [Dom.applyV] at h; rw [← h.1]; exact Ext.refl _
  | attachDeclarativeShadow l t a => simp [Dom.applyV] at h; rw [← h.1]; exact Ext.refl _
  | maybeCloneAnOptionIntoSelectedcontent o =>
    simp only [Dom.applyV, bind, Except.bind] at h
    cases he : d.maybeCloneOption .fixed o with
    | error e => simp [he] at h
    | ok r => simp [he] at h; rw [← h.1]; exact ext_maybeCloneOption_fixed he

end H5V.Lemmas.TBSafe
