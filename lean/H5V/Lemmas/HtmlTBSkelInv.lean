import H5V.Lemmas.HtmlTBSkelClone
/-!
C06 (skeleton invariant), part 3: the invariants of the tree-builder state and the two judgements
the walk over the model is phrased in.

* `Late s` — the invariant of every state from the moment `html` has been created: `DomBase`, the
  document's children match `comment* doctype? comment* html comment*`, the open elements are
  elements, none but the bottom one is a child of the document, the head pointer likewise, pending
  table text is non-empty, no insertion mode (current, original, template) is Initial / BeforeHtml;
* `Quiet m` — `m` makes only non-mutating sink calls (queries, parse errors, `pop`, …, and
  `add_attrs_if_missing`), the stack of open elements only shrinks (`QRel`);
* `Pres m` / `PresR m` — `m` preserves `Late` (`PresR`: and its `ProcessResult` is acceptable:
  re-processing happens in a late mode, with a well-formed token);
* `tb_walk` — the tactic that walks a `do` block: bind / if / match structurally, registered
  instances at the leaves.
-/
namespace H5V.Props.C06
open H5V.Model.Dom hiding Str
open H5V.Model.HtmlTB hiding Str
open H5V.Lemmas.Dom

/-! ## modes -/

def isLate (m : Mode) : Bool := m != .initial && m != .beforeHtml

class LateMode (m : Mode) : Prop where
  h : isLate m = true

instance : LateMode .beforeHead := ⟨rfl⟩
instance : LateMode .inHead := ⟨rfl⟩
instance : LateMode .inHeadNoscript := ⟨rfl⟩
instance : LateMode .afterHead := ⟨rfl⟩
instance : LateMode .inBody := ⟨rfl⟩
instance : LateMode .text := ⟨rfl⟩
instance : LateMode .inTable := ⟨rfl⟩
instance : LateMode .inTableText := ⟨rfl⟩
instance : LateMode .inCaption := ⟨rfl⟩
instance : LateMode .inColumnGroup := ⟨rfl⟩
instance : LateMode .inTableBody := ⟨rfl⟩
instance : LateMode .inRow := ⟨rfl⟩
instance : LateMode .inCell := ⟨rfl⟩
instance : LateMode .inTemplate := ⟨rfl⟩
instance : LateMode .afterBody := ⟨rfl⟩
instance : LateMode .inFrameset := ⟨rfl⟩
instance : LateMode .afterFrameset := ⟨rfl⟩
instance : LateMode .afterAfterBody := ⟨rfl⟩
instance : LateMode .afterAfterFrameset := ⟨rfl⟩

/-- no mode the builder is in, will return to, or has stacked for a template is Initial / BeforeHtml -/
structure ML (s : State) : Prop where
  mode : isLate s.mode = true
  orig : ∀ m, s.origMode = some m → isLate m = true
  tm : ∀ m ∈ s.templateModes, isLate m = true

/-! ## the document's children -/

def kinds (d : Dom) : List DocKid := (d.childrenOf 0).map (docKid d)

/-- `comment* doctype? comment*` (no `html` yet); `stage` as in `docPattern` -/
def docPre : Nat → List DocKid → Bool
  | _, [] => true
  | stage, .comment :: rest => docPre stage rest
  | 0, .doctype :: rest => docPre 1 rest
  | _, _ => false

/-- `comment* doctype? comment* (html comment*)?`: what holds in *every* state -/
def docPrefix (l : List DocKid) : Bool := docPre 0 l || docPattern 0 l

theorem docPattern_snoc_comment : ∀ (st : Nat) (l : List DocKid),
    docPattern st (l ++ [.comment]) = docPattern st l
  | st, [] => by simp [docPattern]
  | st, k :: rest => by
    cases k <;> simp only [List.cons_append]
    · simp only [docPattern]; exact docPattern_snoc_comment st rest
    · match st with
      | 0 => simp only [docPattern]; exact docPattern_snoc_comment 1 rest
      | n + 1 => simp [docPattern]
    · match st with
      | 0 => simp only [docPattern]; exact docPattern_snoc_comment 2 rest
      | 1 => simp only [docPattern]; exact docPattern_snoc_comment 2 rest
      | n + 2 => simp [docPattern]
    · simp [docPattern]

theorem docPattern_append_comment {st : Nat} {l : List DocKid} (h : docPattern st l = true) :
    docPattern st (l ++ [.comment]) = true := by
  rw [docPattern_snoc_comment]; exact h

theorem docPre_append_comment : ∀ {st : Nat} {l : List DocKid}, docPre st l = true →
    docPre st (l ++ [.comment]) = true
  | st, [], _ => by simp [docPre]
  | st, k :: rest, h => by
    cases k <;> simp only [List.cons_append]
    · simp only [docPre] at h ⊢; exact docPre_append_comment h
    · match st, h with
      | 0, h => simp only [docPre] at h ⊢; exact docPre_append_comment h
      | n + 1, h => simp [docPre] at h
    · simp [docPre] at h
    · simp [docPre] at h

/-- appending `html` completes the pattern -/
theorem docPre_append_html : ∀ {st : Nat} {l : List DocKid}, st ≤ 1 → docPre st l = true →
    docPattern st (l ++ [.html]) = true
  | 0, [], _, _ => by simp [docPattern]
  | 1, [], _, _ => by simp [docPattern]
  | n + 2, [], hst, _ => by omega
  | st, k :: rest, hst, h => by
    cases k <;> simp only [List.cons_append]
    · simp only [docPre] at h; simp only [docPattern]; exact docPre_append_html hst h
    · match st, h with
      | 0, h => simp only [docPre] at h; simp only [docPattern]; exact docPre_append_html (by omega) h
      | n + 1, h => simp [docPre] at h
    · simp [docPre] at h
    · simp [docPre] at h

/-- all comments: a doctype may still be appended -/
theorem docPre_append_doctype {l : List DocKid} (h : ∀ k ∈ l, k = .comment) :
    docPre 0 (l ++ [.doctype]) = true := by
  induction l with
  | nil => simp [docPre]
  | cons k rest ih =>
    have hk := h k (by simp)
    subst hk
    simp only [List.cons_append, docPre]
    exact ih (fun k hk => h k (by simp [hk]))

theorem docPre_of_comments {l : List DocKid} (h : ∀ k ∈ l, k = .comment) : docPre 0 l = true := by
  induction l with
  | nil => simp [docPre]
  | cons k rest ih =>
    have hk := h k (by simp)
    subst hk
    simp only [docPre]
    exact ih (fun k hk => h k (by simp [hk]))

/-- the complete pattern contains `html` and nothing but comments, a doctype and `html` -/
theorem docPattern_mem : ∀ {st : Nat} {l : List DocKid}, docPattern st l = true → ∀ k ∈ l, k ≠ .other
  | st, [], _, k, hk => by cases hk
  | st, c :: rest, h, k, hk => by
    simp only [List.mem_cons] at hk
    rcases hk with rfl | hk
    · intro hc; subst hc; simp [docPattern] at h
    · cases c
      · simp only [docPattern] at h; exact docPattern_mem h k hk
      · match st, h with
        | 0, h => simp only [docPattern] at h; exact docPattern_mem h k hk
        | n + 1, h => simp [docPattern] at h
      · match st, h with
        | 0, h => simp only [docPattern] at h; exact docPattern_mem h k hk
        | 1, h => simp only [docPattern] at h; exact docPattern_mem h k hk
        | n + 2, h => simp [docPattern] at h
      · simp [docPattern] at h

theorem docPattern_has_html : ∀ {st : Nat} {l : List DocKid}, st ≤ 1 → docPattern st l = true → .html ∈ l
  | 0, [], _, h => by simp [docPattern] at h
  | 1, [], _, h => by simp [docPattern] at h
  | n + 2, [], hst, _ => by omega
  | st, c :: rest, hst, h => by
    cases c
    · simp only [docPattern] at h; exact List.mem_cons_of_mem _ (docPattern_has_html hst h)
    · match st, h with
      | 0, h => simp only [docPattern] at h; exact List.mem_cons_of_mem _ (docPattern_has_html (by omega) h)
      | n + 1, h => simp [docPattern] at h
    · simp
    · simp [docPattern] at h

theorem docPre_mem : ∀ {st : Nat} {l : List DocKid}, docPre st l = true → ∀ k ∈ l, k = .comment ∨ k = .doctype
  | st, [], _, k, hk => by cases hk
  | st, c :: rest, h, k, hk => by
    simp only [List.mem_cons] at hk
    cases c
    · simp only [docPre] at h
      rcases hk with rfl | hk
      · exact Or.inl rfl
      · exact docPre_mem h k hk
    · match st, h with
      | 0, h =>
        simp only [docPre] at h
        rcases hk with rfl | hk
        · exact Or.inr rfl
        · exact docPre_mem h k hk
      | n + 1, h => simp [docPre] at h
    · simp [docPre] at h
    · simp [docPre] at h

/-! ## relations between arenas -/

/-- nothing but attributes / text contents changed -/
structure SameSk (d d' : Dom) : Prop where
  chg : Chg d d'
  size : d'.size = d.size
  kids : ∀ x, d'.childrenOf x = d.childrenOf x

theorem SameSk.refl (d : Dom) : SameSk d d := ⟨Chg.refl d, rfl, fun _ => rfl⟩

theorem SameSk.trans {a b c : Dom} (h1 : SameSk a b) (h2 : SameSk b c) : SameSk a c :=
  ⟨h1.chg.trans h2.chg, h2.size.trans h1.size, fun x => (h2.kids x).trans (h1.kids x)⟩

theorem SameSk.of_nodes {d d' : Dom} (h : d'.nodes = d.nodes) : SameSk d d' := by
  have hd : ∀ x, d'.dataOf x = d.dataOf x := fun x => by simp [Dom.dataOf, h]
  have hk : ∀ x, d'.childrenOf x = d.childrenOf x := fun x => by simp [Dom.childrenOf, h]
  have hs : d'.size = d.size := by simp [Dom.size, h]
  exact ⟨Chg.of_data_eq (Nat.le_of_eq hs.symm) (fun x _ => hd x), hs, hk⟩

theorem DomBase.sameSk {d d' : Dom} (hb : DomBase d) (h : SameSk d d') : DomBase d' := by
  exact hb.step_same h.chg (no_new_nodes h.size) h.kids

/-- kinds of the document's children are stable as long as the list is -/
theorem kinds_eq {d d' : Dom} (hb : DomBase d) (hc : Chg d d') (hk : d'.childrenOf 0 = d.childrenOf 0) :
    kinds d' = kinds d := by
  unfold kinds
  rw [hk]
  apply List.map_congr_left
  intro c hcm
  exact hc.docKid_eq (hb.kidsLt c hcm)

theorem kinds_snoc {d d' : Dom} (hb : DomBase d) (hc : Chg d d') {c : Id}
    (hk : d'.childrenOf 0 = d.childrenOf 0 ++ [c]) : kinds d' = kinds d ++ [docKid d' c] := by
  unfold kinds
  rw [hk, List.map_append]
  congr 1
  apply List.map_congr_left
  intro c hcm
  exact hc.docKid_eq (hb.kidsLt c hcm)

/-- the arena changed, but no element entered or left the document's child list -/
structure Ext (d d' : Dom) : Prop where
  chg : Chg d d'
  kids0 : ∀ x, d.isElement x = true → (x ∈ d'.childrenOf 0 ↔ x ∈ d.childrenOf 0)

theorem Ext.refl (d : Dom) : Ext d d := ⟨Chg.refl d, fun _ _ => Iff.rfl⟩

theorem Ext.trans {a b c : Dom} (h1 : Ext a b) (h2 : Ext b c) : Ext a c :=
  ⟨h1.chg.trans h2.chg, fun x hx => (h2.kids0 x (h1.chg.isElement hx)).trans (h1.kids0 x hx)⟩

theorem Ext.of_kids0 {d d' : Dom} (hc : Chg d d') (hk : d'.childrenOf 0 = d.childrenOf 0) : Ext d d' :=
  ⟨hc, fun _ _ => by rw [hk]⟩

theorem SameSk.ext {d d' : Dom} (h : SameSk d d') : Ext d d' := Ext.of_kids0 h.chg (h.kids 0)

/-! ## the state invariant -/

structure StOk (s : State) : Prop where
  doc : s.docHandle = 0
  ctx : s.contextElem = none
  oe : ∀ e ∈ s.openElems, s.dom.isElement e = true
  tail : ∀ e ∈ s.openElems.tail, e ∉ s.dom.childrenOf 0
  head : ∀ h, s.headElem = some h → s.dom.isElement h = true ∧ h ∉ s.dom.childrenOf 0
  ptt : ∀ p ∈ s.pendingTableText, p.2 ≠ []

/-- the invariant from the creation of `html` on -/
structure Late (s : State) : Prop where
  base : DomBase s.dom
  pat : docPattern 0 (kinds s.dom) = true
  st : StOk s
  ml : ML s

/-- what a computation that makes no mutating sink call may do to the state -/
structure QRel (s s' : State) : Prop where
  sk : SameSk s.dom s'.dom
  oe : s'.openElems.Sublist s.openElems
  head : s'.headElem = s.headElem
  doc : s'.docHandle = s.docHandle
  ctx : s'.contextElem = s.contextElem
  ptt : s'.pendingTableText = s.pendingTableText
  opts : s'.opts = s.opts
  af : ∀ h t, FormatEntry.element h t ∈ s'.activeFormatting → FormatEntry.element h t ∈ s.activeFormatting
  form : s'.formElem = s.formElem ∨ s'.formElem = none
  fok : s'.framesetOk = true → s.framesetOk = true

theorem QRel.refl (s : State) : QRel s s :=
  ⟨SameSk.refl _, List.Sublist.refl _, rfl, rfl, rfl, rfl, rfl, fun _ _ h => h, Or.inl rfl, fun h => h⟩

theorem QRel.trans {a b c : State} (h1 : QRel a b) (h2 : QRel b c) : QRel a c :=
  ⟨h1.sk.trans h2.sk, h2.oe.trans h1.oe, h2.head.trans h1.head, h2.doc.trans h1.doc, h2.ctx.trans h1.ctx,
   h2.ptt.trans h1.ptt, h2.opts.trans h1.opts, fun h t hm => h1.af h t (h2.af h t hm),
   by rcases h2.form with h | h
      · rw [h]; exact h1.form
      · exact Or.inr h,
   fun h => h1.fok (h2.fok h)⟩

theorem StOk.qrel {s s' : State} (h : StOk s) (q : QRel s s') : StOk s' := by
  refine ⟨q.doc.trans h.doc, q.ctx.trans h.ctx, ?_, ?_, ?_, ?_⟩
  · intro e he; exact q.sk.chg.isElement (h.oe e (q.oe.subset he))
  · intro e he; rw [q.sk.kids]; exact h.tail e (q.oe.tail.subset he)
  · intro x hx
    rw [q.head] at hx
    obtain ⟨h1, h2⟩ := h.head x hx
    exact ⟨q.sk.chg.isElement h1, by rw [q.sk.kids]; exact h2⟩
  · intro p hp; rw [q.ptt] at hp; exact h.ptt p hp

theorem Late.qrel {s s' : State} (h : Late s) (q : QRel s s') (ml : ML s') : Late s' :=
  ⟨h.base.sameSk q.sk, by rw [kinds_eq h.base q.sk.chg (q.sk.kids 0)]; exact h.pat, h.st.qrel q, ml⟩

/-! ## the judgements -/

/-- only non-mutating sink calls; the stack shrinks -/
class Quiet {α : Type} (m : M α) : Prop where
  q : ∀ s a s', ML s → m s = .ok (a, s') → QRel s s' ∧ ML s'

/-- preserves the invariant -/
class Pres {α : Type} (m : M α) : Prop where
  p : ∀ s a s', Late s → m s = .ok (a, s') → Late s' ∧ Ext s.dom s'.dom

/-- a token the rules may be handed: character tokens are non-empty -/
class TokOk (t : Token) : Prop where
  h : ∀ st s, t = .chars st s → s ≠ []

class NE (s : Str) : Prop where
  h : s ≠ []

instance (t : Tag) : TokOk (.tag t) := ⟨by intro _ _ h; cases h⟩
instance (s : Str) : TokOk (.comment s) := ⟨by intro _ _ h; cases h⟩
instance : TokOk .nullChar := ⟨by intro _ _ h; cases h⟩
instance : TokOk .eof := ⟨by intro _ _ h; cases h⟩
instance (st : SplitStatus) (s : Str) [h : NE s] : TokOk (.chars st s) := ⟨by intro _ _ e; cases e; exact h.h⟩

theorem NE.of_tok {st : SplitStatus} {s : Str} (h : TokOk (.chars st s)) : NE s := ⟨h.h st s rfl⟩

/-- an acceptable answer of a rule -/
def ResOk : ProcessResult → Prop
  | .reprocess m t => isLate m = true ∧ TokOk t
  | .reprocessForeign t => TokOk t
  | .splitWhitespace s => s ≠ []
  | _ => True

class ResOkC (r : ProcessResult) : Prop where
  h : ResOk r

instance : ResOkC .done := ⟨trivial⟩
instance : ResOkC .doneAckSelfClosing := ⟨trivial⟩
instance (n : Id) : ResOkC (.script n) := ⟨trivial⟩
instance : ResOkC .toPlaintext := ⟨trivial⟩
instance (k) : ResOkC (.toRawData k) := ⟨trivial⟩
instance (e : Str) : ResOkC (.encodingIndicator e) := ⟨trivial⟩
instance (m : Mode) (t : Token) [h1 : LateMode m] [h2 : TokOk t] : ResOkC (.reprocess m t) := ⟨⟨h1.h, h2⟩⟩
instance (s : Str) [h : NE s] : ResOkC (.splitWhitespace s) := ⟨h.h⟩

/-- preserves the invariant and answers acceptably -/
class PresR (m : M ProcessResult) : Prop where
  p : ∀ s a s', Late s → m s = .ok (a, s') → (Late s' ∧ Ext s.dom s'.dom) ∧ ResOk a

/-! ### structural rules -/

theorem Quiet.bind {α β : Type} {m : M α} {f : α → M β} (h1 : Quiet m) (h2 : ∀ a, Quiet (f a)) :
    Quiet (m >>= f) := by
  constructor
  intro s b s'' hml h
  obtain ⟨a, s', e1, e2⟩ := bind_ok.mp h
  obtain ⟨q1, m1⟩ := h1.q s a s' hml e1
  obtain ⟨q2, m2⟩ := (h2 a).q s' b s'' m1 e2
  exact ⟨q1.trans q2, m2⟩

theorem Quiet.pure {α : Type} (a : α) : Quiet (pure a : M α) := by
  constructor
  intro s b s' hml h
  obtain ⟨_, rfl⟩ := pure_ok.mp h
  exact ⟨QRel.refl _, hml⟩

theorem Quiet.ite {α : Type} {c : Prop} [Decidable c] {a b : M α} (h1 : Quiet a) (h2 : Quiet b) :
    Quiet (if c then a else b) := by
  by_cases hc : c
  · simp only [hc, if_true]; exact h1
  · simp only [hc, if_false]; exact h2

theorem Quiet.throw {α : Type} (e : String) : Quiet (throw e : M α) :=
  ⟨fun _ _ _ _ h => absurd h throw_ok⟩

instance {α β : Type} (m : M α) (f : α → M β) [h1 : Quiet m] [h2 : ∀ a, Quiet (f a)] : Quiet (m >>= f) :=
  Quiet.bind h1 h2
instance {α : Type} (a : α) : Quiet (pure a : M α) := Quiet.pure a
instance {α : Type} (c : Prop) [Decidable c] (a b : M α) [h1 : Quiet a] [h2 : Quiet b] :
    Quiet (if c then a else b) := Quiet.ite h1 h2
instance {α : Type} (e : String) : Quiet (throw e : M α) := Quiet.throw e
instance {α : Type} (c f t : String) : Quiet (panicAt c f t : M α) := Quiet.throw _
instance {α : Type} (w : String) : Quiet (fuelOut w : M α) := Quiet.throw _

theorem Pres.bind {α β : Type} {m : M α} {f : α → M β} (h1 : Pres m) (h2 : ∀ a, Pres (f a)) :
    Pres (m >>= f) := by
  constructor
  intro s b s'' hl h
  obtain ⟨a, s', e1, e2⟩ := bind_ok.mp h
  obtain ⟨l1, x1⟩ := h1.p s a s' hl e1
  obtain ⟨l2, x2⟩ := (h2 a).p s' b s'' l1 e2
  exact ⟨l2, x1.trans x2⟩

theorem Pres.pure {α : Type} (a : α) : Pres (pure a : M α) := by
  constructor
  intro s b s' hl h
  obtain ⟨_, rfl⟩ := pure_ok.mp h
  exact ⟨hl, Ext.refl _⟩

theorem Pres.ite {α : Type} {c : Prop} [Decidable c] {a b : M α} (h1 : Pres a) (h2 : Pres b) :
    Pres (if c then a else b) := by
  by_cases hc : c
  · simp only [hc, if_true]; exact h1
  · simp only [hc, if_false]; exact h2

theorem Pres.of_quiet {α : Type} {m : M α} (h : Quiet m) : Pres m := by
  constructor
  intro s a s' hl e
  obtain ⟨q, ml⟩ := h.q s a s' hl.ml e
  exact ⟨hl.qrel q ml, q.sk.ext⟩

instance (priority := low) {α : Type} (m : M α) [h : Quiet m] : Pres m := Pres.of_quiet h
instance {α β : Type} (m : M α) (f : α → M β) [h1 : Pres m] [h2 : ∀ a, Pres (f a)] : Pres (m >>= f) :=
  Pres.bind h1 h2
instance {α : Type} (c : Prop) [Decidable c] (a b : M α) [h1 : Pres a] [h2 : Pres b] :
    Pres (if c then a else b) := Pres.ite h1 h2

theorem PresR.bind {α : Type} {m : M α} {f : α → M ProcessResult} (h1 : Pres m) (h2 : ∀ a, PresR (f a)) :
    PresR (m >>= f) := by
  constructor
  intro s b s'' hl h
  obtain ⟨a, s', e1, e2⟩ := bind_ok.mp h
  obtain ⟨l1, x1⟩ := h1.p s a s' hl e1
  obtain ⟨⟨l2, x2⟩, r⟩ := (h2 a).p s' b s'' l1 e2
  exact ⟨⟨l2, x1.trans x2⟩, r⟩

theorem PresR.pure (r : ProcessResult) (h : ResOkC r) : PresR (pure r : M ProcessResult) := by
  constructor
  intro s b s' hl e
  obtain ⟨rfl, rfl⟩ := pure_ok.mp e
  exact ⟨⟨hl, Ext.refl _⟩, h.h⟩

theorem PresR.ite {c : Prop} [Decidable c] {a b : M ProcessResult} (h1 : PresR a) (h2 : PresR b) :
    PresR (if c then a else b) := by
  by_cases hc : c
  · simp only [hc, if_true]; exact h1
  · simp only [hc, if_false]; exact h2

theorem PresR.throw (e : String) : PresR (throw e : M ProcessResult) :=
  ⟨fun _ _ _ _ h => absurd h throw_ok⟩

theorem PresR.toPres {m : M ProcessResult} (h : PresR m) : Pres m :=
  ⟨fun s a s' hl e => (h.p s a s' hl e).1⟩

instance {α : Type} (m : M α) (f : α → M ProcessResult) [h1 : Pres m] [h2 : ∀ a, PresR (f a)] : PresR (m >>= f) :=
  PresR.bind h1 h2
instance (r : ProcessResult) [h : ResOkC r] : PresR (pure r : M ProcessResult) := PresR.pure r h
instance (c : Prop) [Decidable c] (a b : M ProcessResult) [h1 : PresR a] [h2 : PresR b] :
    PresR (if c then a else b) := PresR.ite h1 h2
instance (e : String) : PresR (throw e : M ProcessResult) := PresR.throw e
instance (c f t : String) : PresR (panicAt c f t : M ProcessResult) := PresR.throw _
instance (priority := low) (m : M ProcessResult) [h : PresR m] : Pres m := h.toPres

/-- updates of the fields the invariant does not mention -/
theorem pres_modS {f : State → State} (hf : ∀ s, Late s → Late (f s) ∧ (f s).dom = s.dom) : Pres (modS f) :=
  ⟨fun s _ s' hl e => by
    rw [modS_ok.mp e]
    obtain ⟨a, b⟩ := hf s hl
    exact ⟨a, by rw [b]; exact Ext.refl _⟩⟩

theorem Late.free {s s' : State} (h : Late s) (h1 : s'.dom = s.dom) (h2 : s'.openElems = s.openElems)
    (h3 : s'.headElem = s.headElem) (h4 : s'.docHandle = s.docHandle) (h5 : s'.contextElem = s.contextElem)
    (h6 : s'.pendingTableText = s.pendingTableText) (h7 : s'.mode = s.mode) (h8 : s'.origMode = s.origMode)
    (h9 : s'.templateModes = s.templateModes) : Late s' := by
  refine ⟨by rw [h1]; exact h.base, by rw [h1]; exact h.pat, ⟨h4.trans h.st.doc, h5.trans h.st.ctx, ?_, ?_, ?_, ?_⟩,
    ⟨by rw [h7]; exact h.ml.mode, by rw [h8]; exact h.ml.orig, by rw [h9]; exact h.ml.tm⟩⟩
  · rw [h1, h2]; exact h.st.oe
  · rw [h1, h2]; exact h.st.tail
  · rw [h1, h3]; exact h.st.head
  · rw [h6]; exact h.st.ptt


theorem ml_same {s s' : State} (h : ML s) (h1 : s'.mode = s.mode) (h2 : s'.origMode = s.origMode)
    (h3 : s'.templateModes = s.templateModes) : ML s' :=
  ⟨by rw [h1]; exact h.mode, by rw [h2]; exact h.orig, by rw [h3]; exact h.tm⟩

theorem quiet_modS {f : State → State} (hf : ∀ s, ML s → QRel s (f s) ∧ ML (f s)) : Quiet (modS f) :=
  ⟨fun s _ s' hml h => by rw [modS_ok.mp h]; exact hf s hml⟩

/-- the walk: structure by tactic, leaves by instance search -/
syntax "tb_step" : tactic
macro_rules
  | `(tactic| tb_step) => `(tactic|
    first
      | exact inferInstance
      | (haveI : NE _ := NE.of_tok (by assumption); exact inferInstance)
      | with_reducible apply Quiet.bind
      | with_reducible apply Pres.bind
      | with_reducible apply PresR.bind
      | with_reducible apply Quiet.ite
      | with_reducible apply Pres.ite
      | with_reducible apply PresR.ite
      | intro _
      | exact quiet_modS fun s hml =>
          ⟨⟨SameSk.refl _, List.Sublist.refl _, rfl, rfl, rfl, rfl, rfl, fun _ _ h => h, Or.inl rfl, fun h => h⟩,
           ml_same hml rfl rfl rfl⟩
      | exact pres_modS fun s hl => ⟨hl.free rfl rfl rfl rfl rfl rfl rfl rfl rfl, rfl⟩
      | split
      | dsimp only)

syntax "tb_walk" : tactic
macro_rules
  | `(tactic| tb_walk) => `(tactic| repeat' tb_step)

/-! ### primitives -/

instance : Quiet getS := ⟨fun s a s' hml h => by obtain ⟨_, rfl⟩ := getS_ok.mp h; exact ⟨QRel.refl _, hml⟩⟩

theorem quiet_set_of {x : State} {s : State} (hf : ML s → QRel s x ∧ ML x) :
    ∀ a s', ML s → (set x : M Unit) s = .ok (a, s') → QRel s s' ∧ ML s' :=
  fun _ s' hml h => by rw [set_ok.mp h]; exact hf hml

/-- sink calls that leave the nodes alone -/
class QuietOp (op : SinkOp) : Prop where
  h : ∀ (d d' : Dom) (out : Output), d.apply op = .ok (d', out) → d'.nodes = d.nodes

theorem quietOp_of {op : SinkOp}
    (h : ∀ (d d' : Dom) (out : Output), d.applyV Dom.cloneVariant Dom.beforeSiblingVariant op = .ok (d', out) → d'.nodes = d.nodes) :
    QuietOp op := ⟨h⟩

instance (m : Str) : QuietOp (.parseError m) :=
  quietOp_of (by intro d d' out h; simp [Dom.applyV, Dom.parseError] at h; rw [← h.1])
instance : QuietOp .getDocument :=
  quietOp_of (by intro d d' out h; simp [Dom.applyV] at h; rw [← h.1])
instance (t : Id) : QuietOp (.elemName t) :=
  quietOp_of (by
    intro d d' out h
    simp only [Dom.applyV, bind, Except.bind] at h
    cases he : d.elemName t with
    | error e => simp [he] at h
    | ok r => simp [he] at h; rw [← h.1])
instance (a : Id) : QuietOp (.markScriptAlreadyStarted a) :=
  quietOp_of (by intro d d' out h; simp [Dom.applyV] at h; rw [← h.1])
instance (a : Id) : QuietOp (.pop a) :=
  quietOp_of (by intro d d' out h; simp [Dom.applyV] at h; rw [← h.1])
instance (t : Id) : QuietOp (.getTemplateContents t) :=
  quietOp_of (by
    intro d d' out h
    simp only [Dom.applyV, bind, Except.bind] at h
    cases he : d.getTemplateContents t with
    | error e => simp [he] at h
    | ok r => simp [he] at h; rw [← h.1])
instance (a b : Id) : QuietOp (.sameNode a b) :=
  quietOp_of (by intro d d' out h; simp [Dom.applyV] at h; rw [← h.1])
instance (m : QuirksMode) : QuietOp (.setQuirksMode m) :=
  quietOp_of (by intro d d' out h; simp [Dom.applyV, Dom.setQuirksMode] at h; rw [← h.1])
instance (a b c : Id) (p : Option Id) : QuietOp (.associateWithForm a b c p) :=
  quietOp_of (by intro d d' out h; simp [Dom.applyV] at h; rw [← h.1])
instance (t : Id) : QuietOp (.isMathmlAnnotationXmlIntegrationPoint t) :=
  quietOp_of (by
    intro d d' out h
    simp only [Dom.applyV, bind, Except.bind] at h
    cases he : d.isMathmlAnnotationXmlIntegrationPoint t with
    | error e => simp [he] at h
    | ok r => simp [he] at h; rw [← h.1])
instance (l : Nat) : QuietOp (.setCurrentLine l) :=
  quietOp_of (by intro d d' out h; simp [Dom.applyV] at h; rw [← h.1])
instance (p : Id) : QuietOp (.allowDeclarativeShadowRoots p) :=
  quietOp_of (by intro d d' out h; simp [Dom.applyV] at h; rw [← h.1])
instance (a b : Id) (c : List Attr) : QuietOp (.attachDeclarativeShadow a b c) :=
  quietOp_of (by intro d d' out h; simp [Dom.applyV] at h; rw [← h.1])

theorem qrel_dom {s : State} {d : Dom} {tr : List (SinkOp × Output)} (h : SameSk s.dom d) :
    QRel s { s with dom := d, traceRev := tr } :=
  ⟨h, List.Sublist.refl _, rfl, rfl, rfl, rfl, rfl, fun _ _ h => h, Or.inl rfl, fun h => h⟩

theorem ml_dom {s : State} {d : Dom} {tr : List (SinkOp × Output)} (h : ML s) :
    ML { s with dom := d, traceRev := tr } := ⟨h.mode, h.orig, h.tm⟩

instance (op : SinkOp) [h : QuietOp op] : Quiet (sink op) :=
  ⟨fun s a s' hml e => by
    obtain ⟨d, hd, rfl⟩ := sink_ok.mp e
    exact ⟨qrel_dom (SameSk.of_nodes (h.h _ _ _ hd)), ml_dom hml⟩⟩

/-- `add_attrs_if_missing` is quiet as well: only attributes change -/
instance (t : Id) (a : List Attr) : Quiet (sink (.addAttrsIfMissing t a)) :=
  ⟨fun s _ s' hml e => by
    obtain ⟨d, hd, rfl⟩ := sink_ok.mp e
    refine ⟨qrel_dom ?_, ml_dom hml⟩
    have hd' : s.dom.applyV Dom.cloneVariant Dom.beforeSiblingVariant (.addAttrsIfMissing t a) = .ok (d, _) := hd
    simp only [Dom.applyV, bind, Except.bind] at hd'
    cases ha : s.dom.addAttrsIfMissing t a with
    | error e => simp [ha] at hd'
    | ok d1 =>
      simp [ha] at hd'
      obtain ⟨name, ex, tc, ip, hdt, hsh, hdd, hs⟩ := addAttrsIfMissing_ok ha
      rw [← hd'.1]
      refine ⟨⟨Nat.le_of_eq hs.symm, fun x _ => ?_⟩, hs, hsh.children⟩
      rw [hdd]
      by_cases hx : x = t
      · subst hx; simp only [if_true]; rw [hdt]; exact .attrs ..
      · simp only [hx, if_false]; exact .same _⟩

instance (op : SinkOp) [Quiet (sink op)] : Quiet (sinkUnit op) := by unfold sinkUnit; infer_instance
instance (op : SinkOp) [Quiet (sink op)] : Quiet (sinkNode op) := by unfold sinkNode; tb_walk
instance (op : SinkOp) [Quiet (sink op)] : Quiet (sinkBool op) := by unfold sinkBool; tb_walk
instance (m : String) : Quiet (parseError m) := by unfold parseError; infer_instance
instance (h : Id) : Quiet (elemName h) := by unfold elemName; tb_walk
instance (a b : Id) : Quiet (sameNode a b) := by unfold sameNode; infer_instance

end H5V.Props.C06
