import H5V.Lemmas.HtmlTBModesDriver2
import H5V.Lemmas.HtmlTBModesPrimFmt
import H5V.Lemmas.HtmlTBModesPrimIns
import H5V.Lemmas.HtmlTBSpecQuirks
/-!
The DOCTYPE token in the "initial" insertion mode: html5ever handles it in `process_token`; the
specification's "initial" rule for the DOCTYPE token does the same (`DoctypeInitialSim`).
-/
namespace H5V.Lemmas.HtmlTBModes
open H5V.Model.HtmlTB
open H5V.Model.Dom (Id SinkOp Output Dom QualName Attr NodeOrText ElementFlags NodeData QuirksMode)
open H5V.Lemmas.HtmlTBAlgo
open H5V.Lemmas.TBSafe (TI HInv SInv Rooted ForeignTop textTok)
open H5V.Spec.TreeAlgo2 (Elem Entry PState Ctx Edit Place)
open H5V.Spec.TreeModes (STok ETok IMode Config Out TokSwitch XOp Op Step Edition)

theorem dmode_toQuirks (m : Spec.TreeAlgo.DocMode) : dmode (H5V.Lemmas.HtmlTBSpec.toQuirks m) = m := by cases m <;> rfl

/-- the core: any state in the "initial" mode whose document mode is still no-quirks -/
theorem doctypeInitial_core (dt : Doctype) (s : State) (hm : MInv s) (_hmode : s.mode = .initial)
    (hdrop : s.opts.dropDoctype = false) (hq : s.quirksMode = .noQuirks)
    (β : Type) (k : Option Token → M β) (Q : β → State → List Call → Prop)
    (hk : ∀ s' c, Ext2 s c s' → Tr s s' c (fun x x' =>
        Spec.TreeModes.initial (cfgOf s) (absF s x) (.doctype dt.name dt.publicId dt.systemId dt.forceQuirks)
          = .ok (.done (absF s' x'))) →
      PC (k none) s' (fun b s2 c2 => Q b s2 (c ++ c2))) :
    PC (ptDoctypeInitialK dt k) s Q := by
  unfold ptDoctypeInitialK
  refine pc_getS_bind ?_
  dsimp only
  -- the error label of the specification
  let E : Aux → List String := fun x =>
    if dt.name != some "html".toList || dt.publicId.isSome ||
        (dt.systemId.isSome && dt.systemId != some "about:legacy-compat".toList)
    then x.errors ++ ["initial: doctype"] else x.errors
  refine pc_ite_jp (Q1 := fun s1 c1 => SameTB s s1 ∧ edits c1 = [])
    (fun _ => pc_conseq (PC.of_tot (tot_parseError s _)) (fun _ _ _ _ h => ⟨h.2.1, h.2.2⟩))
    (fun _ => ⟨SameTB.refl s, rfl⟩) ?_
  rintro s1 c1 he1 ⟨hs1, hc1⟩
  have hm1 : MInv s1 := hm.sameTB hs1 he1.ext
  have htr1 : Tr s s1 c1 (fun x x' => x' = { x with errors := E x } ∧ absF s1 x' = { absF s x with errors := E x }) := by
    refine Tr.reaux (Tr.of_same hm hs1 he1 (by rw [← edits2_edits, hc1]; rfl)) (fun x x' => { x' with errors := E x })
      (fun _ _ => ⟨⟨rfl, rfl, rfl, rfl, rfl⟩, rfl, rfl, rfl⟩) ?_
    rintro x x' _ _ ⟨hxx, he⟩
    subst x'
    refine ⟨rfl, ?_⟩
    show ({ absF s1 x with errors := E x } : SState) = _
    rw [← he]
  refine pc_getS_bind ?_
  have hd1 : (!s1.opts.dropDoctype) = true := by rw [hs1.fields.opts, hdrop]; rfl
  rw [if_pos hd1]
  refine pc_seq (pc_appendDoctype hm1 _ _ _) ?_
  rintro _ s2 c2 he2 ⟨hs2, htr2⟩
  have hm2 : MInv s2 := hm1.sameTB hs2 he2.ext
  have hq2 : s2.quirksMode = .noQuirks := by rw [hs2.fields.quirksMode, hs1.fields.quirksMode]; exact hq
  refine pc_seq (pc_setQuirksMode hm2 _ (fun _ => hq2)) ?_
  rintro _ s3 c3 he3 ⟨hs3, htr3⟩
  have hm3 : MInv s3 := htr3.1
  refine pc_seq (pc_setMode_junk hm3 .beforeHtml (by decide)) ?_
  rintro _ s4 c4 he4 ⟨hs4, htr4⟩
  have hext : Ext2 s (c1 ++ (c2 ++ (c3 ++ c4))) s4 := he1.trans (he2.trans (he3.trans he4))
  refine pc_conseq (hk s4 _ hext ?_) ?_
  · refine (htr1.trans (htr2.trans (htr3.trans htr4))).conseq ?_
    rintro x x4 hx _ ⟨x1, ⟨hx1, e1⟩, x2, e2, x3, e3, _, e4⟩
    have hsrc : (cfgOf s).srcdoc = s.opts.iframeSrcdoc := rfl
    have hccm : (cfgOf s).cannotChangeMode = false := rfl
    have hqm : dmode (doctypeErrorAndQuirks dt s.opts.iframeSrcdoc).2
        = Spec.TreeAlgo.quirksMode dt.name dt.publicId dt.systemId dt.forceQuirks s.opts.iframeSrcdoc := by
      rw [H5V.Lemmas.HtmlTBSpec.quirks_mode_eq_spec, dmode_toQuirks]
    rw [hqm] at e3
    simp only [Spec.TreeModes.initial, hsrc, hccm, Bool.false_eq_true, if_false]
    have e1' : ∀ (b : Bool), (if b = true then (absF s x).err "initial: doctype" else absF s x)
        = { absF s x with errors := if b = true then x.errors ++ ["initial: doctype"] else x.errors } := by
      intro b; cases b <;> rfl
    rw [e1', ← e1]
    unfold specAppendDoctype at e2
    cases hn : Spec.TreeModes.req (absF s1 x1).p.newNode "initial: no node for the DocumentType" with
    | error e => rw [hn] at e2; cases e2
    | ok r =>
      rw [hn] at e2
      simp only [bind, Except.bind, pure, Except.pure] at e2 ⊢
      have e2' := Except.ok.inj e2
      rw [e2', ← e3, e4]
      rfl
  · intro b s5 c5 _ h
    simpa [List.append_assoc] using h

theorem doctypeInitialSim : DoctypeInitialSim :=
  fun dt s _ hm hmode hdrop hq β k Q hk => doctypeInitial_core dt s hm hmode hdrop hq β k Q hk

end H5V.Lemmas.HtmlTBModes
