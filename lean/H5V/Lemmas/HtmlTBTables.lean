import H5V.Gen.TreeTables
import H5V.Spec.TreeTables
import H5V.Model.HtmlTB
/-!
Helper definitions and lemmas for the table theorems of C02: set comparison of tables, membership
of an expanded name in a `(namespace keyword, local name)` table, and the rewriting of the model's
tag-set predicates (`htmlIn`, `if … then true else …`, `if … then false else …`) into table membership.
-/
namespace H5V.Lemmas.HtmlTBTables
open H5V.Model.HtmlTB

/-- equality of two tables as sets -/
def sameSet {α : Type} [BEq α] (a b : List α) : Bool := a.all (b.contains ·) && b.all (a.contains ·)

/-- no key occurs twice (the table is a function) -/
def keysNodup {α β : Type} [DecidableEq α] (l : List (α × β)) : Bool := decide (l.map (·.1)).Nodup

theorem sameSet_mem {α : Type} [BEq α] [LawfulBEq α] {a b : List α} (h : sameSet a b = true) (x : α) :
    x ∈ a ↔ x ∈ b := by
  simp only [sameSet, Bool.and_eq_true, List.all_eq_true, List.contains_iff_mem] at h
  exact ⟨h.1 x, h.2 x⟩

/-- namespace keyword of `expanded_name!` / `ns!` ↦ namespace URL -/
def nsOf (kw : String) : Str :=
  if kw = "html" then nsHtml else if kw = "mathml" then nsMathml else if kw = "svg" then nsSvg
  else if kw = "xlink" then nsXlink else if kw = "xml" then nsXml else if kw = "xmlns" then nsXmlns else kw.toList

/-- does the table row denote the expanded name -/
def rowIs (n : EName) (p : String × String) : Bool := nsOf p.1 == n.ns && p.2.toList == n.loc

/-- membership of an expanded name in a `(namespace keyword, local name)` table -/
def memName (l : List (String × String)) (n : EName) : Bool := l.any (rowIs n)

theorem memName_of_sameSet {a b : List (String × String)} (h : sameSet a b = true) (n : EName) :
    memName a n = memName b n := by
  apply Bool.eq_iff_iff.mpr
  simp only [memName, List.any_eq_true]
  constructor
  · rintro ⟨p, hp, hq⟩; exact ⟨p, (sameSet_mem h p).mp hp, hq⟩
  · rintro ⟨p, hp, hq⟩; exact ⟨p, (sameSet_mem h p).mpr hp, hq⟩

theorem memName_append (a b : List (String × String)) (n : EName) :
    memName (a ++ b) n = (memName a n || memName b n) := by simp [memName]

/-- the rows `(kw, s)` for the names `s` of `l` -/
def rows (kw : String) (l : List String) : List (String × String) := l.map (fun s => (kw, s))

theorem memName_rows (kw : String) (l : List String) (n : EName) :
    memName (rows kw l) n = (nsOf kw == n.ns && isOneOf n.loc l) := by
  induction l with
  | nil => simp [memName, rows, isOneOf]
  | cons s l ih =>
    have ih' : (List.map (fun s => (kw, s)) l).any (rowIs n) = (nsOf kw == n.ns && isOneOf n.loc l) := ih
    simp only [memName, rows, List.map_cons, List.any_cons, isOneOf, rowIs] at ih' ⊢
    rw [ih']
    cases (nsOf kw == n.ns) <;> simp

theorem nsOf_html : nsOf "html" = nsHtml := by decide
theorem nsOf_mathml : nsOf "mathml" = nsMathml := by decide
theorem nsOf_svg : nsOf "svg" = nsSvg := by decide

theorem htmlIn_eq (n : EName) (l : List String) : htmlIn n l = memName (rows "html" l) n := by
  rw [memName_rows, nsOf_html, show (nsHtml == n.ns) = (n.ns == nsHtml) from BEq.comm]; rfl

theorem mathmlIn_eq (n : EName) (l : List String) :
    (n.ns == nsMathml && isOneOf n.loc l) = memName (rows "mathml" l) n := by
  rw [memName_rows, nsOf_mathml, show (nsMathml == n.ns) = (n.ns == nsMathml) from BEq.comm]

theorem svgIn_eq (n : EName) (l : List String) :
    (n.ns == nsSvg && isOneOf n.loc l) = memName (rows "svg" l) n := by
  rw [memName_rows, nsOf_svg, show (nsSvg == n.ns) = (n.ns == nsSvg) from BEq.comm]

theorem isName_eq_isOneOf (x : Str) (s : String) : isName x s = isOneOf x [s] := by simp [isName, isOneOf]

/-- `[base] + names` -/
theorem plus_eq (n : EName) (l : List String) (b : Bool) :
    (if htmlIn n l then true else b) = (b || memName (rows "html" l) n) := by
  rw [htmlIn_eq]; cases memName (rows "html" l) n <;> cases b <;> rfl

/-- the model's predicates as table memberships -/
theorem mathmlTextIntegrationPoint_rows (n : EName) :
    mathmlTextIntegrationPoint n = memName (rows "mathml" ["mi", "mo", "mn", "ms", "mtext"]) n := mathmlIn_eq n _

theorem svgHtmlIntegrationPoint_rows (n : EName) :
    svgHtmlIntegrationPoint n = memName (rows "svg" ["foreignObject", "desc", "title"]) n := svgIn_eq n _

theorem mathmlAnnotationXml_rows (n : EName) :
    mathmlAnnotationXml n = memName (rows "mathml" ["annotation-xml"]) n := by
  unfold mathmlAnnotationXml; rw [isName_eq_isOneOf]; exact mathmlIn_eq n _

/-- the foreign (non-HTML) members shared by the scope sets and the special category -/
def foreignRows : List (String × String) :=
  rows "mathml" ["mi", "mo", "mn", "ms", "mtext"] ++ rows "mathml" ["annotation-xml"] ++
  rows "svg" ["foreignObject", "desc", "title"]

theorem defaultScope_rows (n : EName) :
    defaultScope n = memName (rows "html" htmlDefaultScopeNames ++ foreignRows) n := by
  simp only [defaultScope, htmlDefaultScope, foreignRows, memName_append, htmlIn_eq,
    mathmlTextIntegrationPoint_rows, svgHtmlIntegrationPoint_rows, mathmlAnnotationXml_rows, Bool.or_assoc]

theorem specialTag_rows (n : EName) :
    specialTag n = memName (rows "html" htmlSpecialTagNames ++ foreignRows) n := by
  simp only [specialTag, htmlSpecialTag, foreignRows, memName_append, htmlIn_eq,
    mathmlTextIntegrationPoint_rows, svgHtmlIntegrationPoint_rows, mathmlAnnotationXml_rows, Bool.or_assoc]

/-! ### `[base] - names` -/

theorem toList_inj {a b : String} (h : a.toList = b.toList) : a = b := String.ext h

theorem isOneOf_true_of_mem {x : Str} {r : List String} {s : String} (hs : s ∈ r) (hx : s.toList = x) :
    isOneOf x r = true := by
  simp only [isOneOf, List.any_eq_true, beq_iff_eq]; exact ⟨s, hs, hx⟩

theorem isOneOf_false_of_not_mem {x : Str} {r : List String} {s : String} (hs : s ∉ r) (hx : s.toList = x) :
    isOneOf x r = false := by
  rw [Bool.eq_false_iff]; intro h
  simp only [isOneOf, List.any_eq_true, beq_iff_eq] at h
  obtain ⟨t, ht, htx⟩ := h
  have : t = s := toList_inj (htx.trans hx.symm)
  subst this; exact hs ht

theorem isOneOf_cons (x : Str) (s : String) (l : List String) :
    isOneOf x (s :: l) = (s.toList == x || isOneOf x l) := by simp [isOneOf]

theorem isOneOf_filter (x : Str) (l r : List String) :
    isOneOf x (l.filter (fun s => !r.contains s)) = (!isOneOf x r && isOneOf x l) := by
  induction l with
  | nil => simp [isOneOf]
  | cons s l ih =>
    by_cases hs : s ∈ r
    · rw [List.filter_cons_of_neg (by simpa using hs), ih, isOneOf_cons]
      by_cases hx : s.toList = x
      · rw [isOneOf_true_of_mem hs hx]; simp
      · have : (s.toList == x) = false := by simpa using hx
        rw [this]; simp
    · rw [List.filter_cons_of_pos (by simpa using hs), isOneOf_cons, ih, isOneOf_cons]
      by_cases hx : s.toList = x
      · rw [isOneOf_false_of_not_mem hs hx]; simp [hx]
      · have : (s.toList == x) = false := by simpa using hx
        rw [this]; simp

/-- `[set] - names` where the base set is an HTML name list -/
theorem minus_html_eq (n : EName) (l r : List String) :
    (if htmlIn n r then false else htmlIn n l) = memName (rows "html" (l.filter (fun s => !r.contains s))) n := by
  rw [← htmlIn_eq]; simp only [htmlIn, isOneOf_filter]
  by_cases h1 : (n.ns == nsHtml) = true <;> by_cases h2 : isOneOf n.loc r = true <;> simp [h1, h2]

end H5V.Lemmas.HtmlTBTables
