import H5V.Props.C11
/-!
The format laws (`H5V.Props.C11.Laws`) for `Format.utf8`.

`validUtf8` is the table-driven decoder of Unicode Table 3-7 (the model of `str::from_utf8`);
`utf8ValidatePrefix` / `utf8ValidateSuffix` are the `futf::classify`-based checks of `tendril::fmt::UTF8`.
The file shows that the two agree on every part of a valid string, that validity is closed under
concatenation, that `encodeUtf8` produces valid bytes and that every index reported by `utf8Chars`
is a character boundary.
-/
namespace H5V.Lemmas.Tendril.Utf8
open H5V.Model.Tendril H5V.Props.C11

/-- explicit byte ranges of Table 3-7 -/
def C1 (a : UInt8) : Prop := a.toNat < 0x80
def C2 (a b : UInt8) : Prop := 0xC2 ≤ a.toNat ∧ a.toNat ≤ 0xDF ∧ 0x80 ≤ b.toNat ∧ b.toNat ≤ 0xBF
def C3 (a b c : UInt8) : Prop :=
  (a.toNat = 0xE0 ∧ 0xA0 ≤ b.toNat ∧ b.toNat ≤ 0xBF ∨
   0xE1 ≤ a.toNat ∧ a.toNat ≤ 0xEC ∧ 0x80 ≤ b.toNat ∧ b.toNat ≤ 0xBF ∨
   a.toNat = 0xED ∧ 0x80 ≤ b.toNat ∧ b.toNat ≤ 0x9F ∨
   0xEE ≤ a.toNat ∧ a.toNat ≤ 0xEF ∧ 0x80 ≤ b.toNat ∧ b.toNat ≤ 0xBF) ∧
  0x80 ≤ c.toNat ∧ c.toNat ≤ 0xBF
def C4 (a b c d : UInt8) : Prop :=
  (a.toNat = 0xF0 ∧ 0x90 ≤ b.toNat ∧ b.toNat ≤ 0xBF ∨
   0xF1 ≤ a.toNat ∧ a.toNat ≤ 0xF3 ∧ 0x80 ≤ b.toNat ∧ b.toNat ≤ 0xBF ∨
   a.toNat = 0xF4 ∧ 0x80 ≤ b.toNat ∧ b.toNat ≤ 0x8F) ∧
  0x80 ≤ c.toNat ∧ c.toNat ≤ 0xBF ∧ 0x80 ≤ d.toNat ∧ d.toNat ≤ 0xBF

theorem inR_iff (x : UInt8) (lo hi : Nat) : inR x lo hi = true ↔ lo ≤ x.toNat ∧ x.toNat ≤ hi := by
  simp [inR]

theorem head_cases {l : List UInt8} {k v : Nat} (h : utf8Head l = some (k, v)) :
    (∃ a r, l = a :: r ∧ k = 1 ∧ C1 a) ∨
    (∃ a b r, l = a :: b :: r ∧ k = 2 ∧ C2 a b) ∨
    (∃ a b c r, l = a :: b :: c :: r ∧ k = 3 ∧ C3 a b c) ∨
    (∃ a b c d r, l = a :: b :: c :: d :: r ∧ k = 4 ∧ C4 a b c d) := by
  unfold utf8Head at h
  split at h
  · cases h
  · rename_i a rest
    split at h
    · rename_i h1
      cases h
      exact .inl ⟨a, rest, rfl, rfl, h1⟩
    · split at h
      · cases h
      · rename_i b rest
        split at h
        · split at h
          · cases h
            rename_i h1 h2 h3
            rw [inR_iff] at h2 h3
            exact .inr (.inl ⟨a, b, rest, rfl, rfl, by unfold C2; omega⟩)
          · cases h
        · split at h
          · cases h
          · rename_i c rest
            split at h
            · split at h
              · cases h
                rename_i h1 h2 h3 h4
                simp only [Bool.or_eq_true, Bool.and_eq_true, inR_iff] at h3 h4
                exact .inr (.inr (.inl ⟨a, b, c, rest, rfl, rfl, by unfold C3; omega⟩))
              · cases h
            · split at h
              · cases h
              · rename_i d rest
                split at h
                · cases h
                  rename_i h1 h2 h3 h4
                  simp only [Bool.or_eq_true, Bool.and_eq_true, inR_iff] at h4
                  exact .inr (.inr (.inr ⟨a, b, c, d, rest, rfl, rfl, by unfold C4; omega⟩))
                · cases h

theorem head_C1 {a : UInt8} (r : List UInt8) (h : C1 a) : utf8Head (a :: r) = some (1, a.toNat) := by
  unfold C1 at h
  simp [utf8Head, h]

theorem head_C2 {a b : UInt8} (r : List UInt8) (h : C2 a b) :
    ∃ v, utf8Head (a :: b :: r) = some (2, v) := by
  unfold C2 at h
  have h1 : ¬ a.toNat < 0x80 := by omega
  have h2 : inR a 0xC2 0xDF = true := by rw [inR_iff]; omega
  have h3 : inR b 0x80 0xBF = true := by rw [inR_iff]; omega
  simp [utf8Head, h1, h2, h3]


theorem head_C3 {a b c : UInt8} (r : List UInt8) (h : C3 a b c) :
    ∃ v, utf8Head (a :: b :: c :: r) = some (3, v) := by
  unfold C3 at h
  have h1 : ¬ a.toNat < 0x80 := by omega
  have h2 : inR a 0xC2 0xDF = false := by
    rw [Bool.eq_false_iff]; intro hh; rw [inR_iff] at hh; omega
  have h3 : (inR a 0xE0 0xE0 && inR b 0xA0 0xBF || inR a 0xE1 0xEC && inR b 0x80 0xBF
                || inR a 0xED 0xED && inR b 0x80 0x9F || inR a 0xEE 0xEF && inR b 0x80 0xBF) = true := by
    simp only [Bool.or_eq_true, Bool.and_eq_true, inR_iff]; omega
  have h4 : inR c 0x80 0xBF = true := by rw [inR_iff]; omega
  refine ⟨(a.toNat % 16) * 4096 + (b.toNat % 64) * 64 + c.toNat % 64, ?_⟩
  simp only [utf8Head, if_neg h1, h2, h3, h4, if_true, Bool.false_eq_true, if_false]

theorem head_C4 {a b c d : UInt8} (r : List UInt8) (h : C4 a b c d) :
    ∃ v, utf8Head (a :: b :: c :: d :: r) = some (4, v) := by
  unfold C4 at h
  have h1 : ¬ a.toNat < 0x80 := by omega
  have h2 : inR a 0xC2 0xDF = false := by
    rw [Bool.eq_false_iff]; intro hh; rw [inR_iff] at hh; omega
  have h3 : (inR a 0xE0 0xE0 && inR b 0xA0 0xBF || inR a 0xE1 0xEC && inR b 0x80 0xBF
                || inR a 0xED 0xED && inR b 0x80 0x9F || inR a 0xEE 0xEF && inR b 0x80 0xBF) = false := by
    rw [Bool.eq_false_iff]; intro hh
    simp only [Bool.or_eq_true, Bool.and_eq_true, inR_iff] at hh; omega
  have h4 : ((inR a 0xF0 0xF0 && inR b 0x90 0xBF || inR a 0xF1 0xF3 && inR b 0x80 0xBF
                    || inR a 0xF4 0xF4 && inR b 0x80 0x8F) && inR c 0x80 0xBF && inR d 0x80 0xBF) = true := by
    simp only [Bool.or_eq_true, Bool.and_eq_true, inR_iff]; omega
  refine ⟨(a.toNat % 8) * 262144 + (b.toNat % 64) * 4096 + (c.toNat % 64) * 64 + d.toNat % 64, ?_⟩
  simp only [utf8Head, if_neg h1, h2, h3, h4, if_true, Bool.false_eq_true, if_false]

/-- `c` is exactly one well-formed UTF-8 sequence -/
def IsChar (c : List UInt8) : Prop := ∃ v, utf8Head c = some (c.length, v)

theorem isChar_forms {c : List UInt8} (h : IsChar c) :
    (∃ a, c = [a] ∧ C1 a) ∨ (∃ a b, c = [a, b] ∧ C2 a b) ∨
    (∃ a b d, c = [a, b, d] ∧ C3 a b d) ∨ (∃ a b d e, c = [a, b, d, e] ∧ C4 a b d e) := by
  obtain ⟨v, hv⟩ := h
  rcases head_cases hv with ⟨a, r, rfl, hk, hc⟩ | ⟨a, b, r, rfl, hk, hc⟩ | ⟨a, b, d, r, rfl, hk, hc⟩ |
    ⟨a, b, d, e, r, rfl, hk, hc⟩
  · simp only [List.length_cons] at hk
    have : r = [] := List.eq_nil_of_length_eq_zero (by omega)
    subst this; exact .inl ⟨a, rfl, hc⟩
  · simp only [List.length_cons] at hk
    have : r = [] := List.eq_nil_of_length_eq_zero (by omega)
    subst this; exact .inr (.inl ⟨a, b, rfl, hc⟩)
  · simp only [List.length_cons] at hk
    have : r = [] := List.eq_nil_of_length_eq_zero (by omega)
    subst this; exact .inr (.inr (.inl ⟨a, b, d, rfl, hc⟩))
  · simp only [List.length_cons] at hk
    have : r = [] := List.eq_nil_of_length_eq_zero (by omega)
    subst this; exact .inr (.inr (.inr ⟨a, b, d, e, rfl, hc⟩))

theorem isChar_C1 {a : UInt8} (h : C1 a) : IsChar [a] := ⟨_, head_C1 [] h⟩
theorem isChar_C2 {a b : UInt8} (h : C2 a b) : IsChar [a, b] := head_C2 [] h
theorem isChar_C3 {a b c : UInt8} (h : C3 a b c) : IsChar [a, b, c] := head_C3 [] h
theorem isChar_C4 {a b c d : UInt8} (h : C4 a b c d) : IsChar [a, b, c, d] := head_C4 [] h

/-- the head sequence splits off as a character, and the decoder only looks at it -/
theorem head_split {l : List UInt8} {k v : Nat} (h : utf8Head l = some (k, v)) :
    ∃ c r, l = c ++ r ∧ c.length = k ∧ IsChar c := by
  rcases head_cases h with ⟨a, r, rfl, rfl, hc⟩ | ⟨a, b, r, rfl, rfl, hc⟩ | ⟨a, b, d, r, rfl, rfl, hc⟩ |
    ⟨a, b, d, e, r, rfl, rfl, hc⟩
  · exact ⟨[a], r, rfl, rfl, isChar_C1 hc⟩
  · exact ⟨[a, b], r, rfl, rfl, isChar_C2 hc⟩
  · exact ⟨[a, b, d], r, rfl, rfl, isChar_C3 hc⟩
  · exact ⟨[a, b, d, e], r, rfl, rfl, isChar_C4 hc⟩

theorem head_append {c : List UInt8} (h : IsChar c) (r : List UInt8) :
    ∃ v, utf8Head (c ++ r) = some (c.length, v) := by
  rcases isChar_forms h with ⟨a, rfl, hc⟩ | ⟨a, b, rfl, hc⟩ | ⟨a, b, d, rfl, hc⟩ | ⟨a, b, d, e, rfl, hc⟩
  · exact ⟨_, head_C1 r hc⟩
  · exact head_C2 r hc
  · exact head_C3 r hc
  · exact head_C4 r hc

theorem isChar_ne_nil {c : List UInt8} (h : IsChar c) : c ≠ [] := by
  rintro rfl; obtain ⟨v, hv⟩ := h; simp [utf8Head] at hv

theorem isChar_length_pos {c : List UInt8} (h : IsChar c) : 0 < c.length :=
  List.length_pos_iff.mpr (isChar_ne_nil h)

/-- prefix-freeness: two characters at the head of the same string coincide -/
theorem isChar_unique {c c' r r' : List UInt8} (h : IsChar c) (h' : IsChar c')
    (e : c ++ r = c' ++ r') : c = c' ∧ r = r' := by
  obtain ⟨v, hv⟩ := head_append h r
  obtain ⟨v', hv'⟩ := head_append h' r'
  rw [e, hv'] at hv
  simp only [Option.some.injEq, Prod.mk.injEq] at hv
  exact List.append_inj e hv.1.symm


/-! ## validity as an inductive predicate -/

inductive Valid : List UInt8 → Prop
  | nil : Valid []
  | cons {c r : List UInt8} : IsChar c → Valid r → Valid (c ++ r)

theorem Valid.append {a b : List UInt8} (ha : Valid a) (hb : Valid b) : Valid (a ++ b) := by
  induction ha with
  | nil => exact hb
  | cons hc _ ih => rw [List.append_assoc]; exact Valid.cons hc ih

theorem Valid.single {c : List UInt8} (h : IsChar c) : Valid c := by
  have := Valid.cons h Valid.nil
  rwa [List.append_nil] at this

/-- inversion at a known head character -/
theorem Valid.tail {c r : List UInt8} (hc : IsChar c) (h : Valid (c ++ r)) : Valid r := by
  generalize e : c ++ r = l at h
  cases h with
  | nil =>
    have := isChar_ne_nil hc
    simp at e; exact absurd e.1 this
  | cons hc' hr' =>
    obtain ⟨_, rfl⟩ := isChar_unique hc hc' e
    exact hr'

/-- cancellation of a valid prefix -/
theorem Valid.cancel {a x : List UInt8} (ha : Valid a) (h : Valid (a ++ x)) : Valid x := by
  induction ha with
  | nil => exact h
  | cons hc _ ih => rw [List.append_assoc] at h; exact ih (Valid.tail hc h)

theorem Valid.head_isSome {l : List UInt8} (h : Valid l) (hne : l ≠ []) : (utf8Head l).isSome = true := by
  cases h with
  | nil => exact absurd rfl hne
  | cons hc _ => obtain ⟨v, hv⟩ := head_append hc _; rw [hv]; rfl

theorem fuel_valid : ∀ (f i : Nat) (l : List UInt8), (utf8CharsFuel f i l).isSome = true → Valid l := by
  intro f
  induction f with
  | zero =>
    intro i l h
    cases l with
    | nil => exact Valid.nil
    | cons x xs => simp [utf8CharsFuel] at h
  | succ f ih =>
    intro i l h
    cases l with
    | nil => exact Valid.nil
    | cons x xs =>
      unfold utf8CharsFuel at h
      split at h
      · simp at h
      · rename_i k c hk
        obtain ⟨ch, r, e, hlen, hch⟩ := head_split hk
        rw [Option.isSome_map] at h
        have := ih _ _ h
        rw [e, ← hlen, List.drop_left] at this
        rw [e]; exact Valid.cons hch this

theorem valid_fuel : ∀ (f i : Nat) (l : List UInt8), l.length ≤ f → Valid l →
    (utf8CharsFuel f i l).isSome = true := by
  intro f
  induction f with
  | zero =>
    intro i l hl h
    have : l = [] := List.eq_nil_of_length_eq_zero (by omega)
    subst this; rfl
  | succ f ih =>
    intro i l hl h
    cases h with
    | nil => rfl
    | @cons c r hc hr =>
      obtain ⟨v, hv⟩ := head_append hc r
      have hpos := isChar_length_pos hc
      have hne : c ++ r ≠ [] := by
        intro e; exact isChar_ne_nil hc (List.append_eq_nil_iff.mp e).1
      match hcr : c ++ r with
      | [] => exact absurd hcr hne
      | x :: xs =>
        unfold utf8CharsFuel
        rw [← hcr, hv]
        simp only [Option.isSome_map, List.drop_left]
        apply ih
        · rw [List.length_append] at hl; omega
        · exact hr

theorem validUtf8_iff (l : List UInt8) : validUtf8 l = true ↔ Valid l :=
  ⟨fuel_valid _ _ _, valid_fuel _ _ _ (Nat.le_refl _)⟩


/-- every index reported by the decoder is a character boundary -/
theorem fuel_cut : ∀ (f i : Nat) (l : List UInt8) (cs : List (Nat × Nat)),
    utf8CharsFuel f i l = some cs →
    ∀ p ∈ cs, ∃ j, p.1 = i + j ∧ j ≤ l.length ∧ Valid (l.take j) ∧ Valid (l.drop j) := by
  intro f
  induction f with
  | zero =>
    intro i l cs h
    cases l with
    | nil => simp only [utf8CharsFuel, Option.some.injEq] at h; subst h; intro p hp; cases hp
    | cons x xs => simp [utf8CharsFuel] at h
  | succ f ih =>
    intro i l cs h
    cases l with
    | nil => simp only [utf8CharsFuel, Option.some.injEq] at h; subst h; intro p hp; cases hp
    | cons x xs =>
      have hall : Valid (x :: xs) := fuel_valid (f + 1) i _ (by rw [h]; rfl)
      unfold utf8CharsFuel at h
      split at h
      · cases h
      · rename_i k c hk
        obtain ⟨ch, r, e, hlen, hch⟩ := head_split hk
        rw [Option.map_eq_some_iff] at h
        obtain ⟨rest, hrest, rfl⟩ := h
        intro p hp
        rcases List.mem_cons.mp hp with rfl | hp
        · exact ⟨0, rfl, Nat.zero_le _, Valid.nil, hall⟩
        · obtain ⟨j, hj, hjl, ht, hd⟩ := ih _ _ _ hrest p hp
          rw [e, ← hlen, List.drop_left] at hjl ht hd
          refine ⟨ch.length + j, by omega, ?_, ?_, ?_⟩
          · rw [e, List.length_append]; omega
          · rw [e, List.take_length_add_append]; exact Valid.cons hch ht
          · rw [e, List.drop_length_add_append]; exact hd

theorem utf8_valid_append (a b : List UInt8) (ha : validUtf8 a = true) (hb : validUtf8 b = true) :
    validUtf8 (a ++ b) = true := by
  rw [validUtf8_iff] at *; exact ha.append hb

theorem utf8_chars_cut (a : List UInt8) (cs : List (Nat × Nat)) (_ : validUtf8 a = true)
    (h : utf8Chars a = some cs) :
    ∀ p ∈ cs, p.1 ≤ a.length ∧ validUtf8 (a.take p.1) = true ∧ validUtf8 (a.drop p.1) = true := by
  intro p hp
  obtain ⟨j, hj, hjl, ht, hd⟩ := fuel_cut _ _ _ _ h p hp
  rw [Nat.zero_add] at hj
  rw [hj, validUtf8_iff, validUtf8_iff]
  exact ⟨hjl, ht, hd⟩

/-! ## `encodeUtf8` -/

theorem ofNat_toNat {n : Nat} (h : n < 256) : (UInt8.ofNat n).toNat = n := by
  rw [UInt8.toNat_ofNat']; exact Nat.mod_eq_of_lt h

theorem utf8_encode_valid (c : Nat) (bs : List UInt8) (h : encodeUtf8 c = some bs) :
    validUtf8 bs = true := by
  rw [validUtf8_iff]
  unfold encodeUtf8 at h
  split at h
  · cases h
    apply Valid.single; apply isChar_C1
    unfold C1; rw [ofNat_toNat (by omega)]; omega
  · split at h
    · cases h
      apply Valid.single; apply isChar_C2
      unfold C2; rw [ofNat_toNat (by omega), ofNat_toNat (by omega)]; omega
    · split at h
      · cases h
      · split at h
        · cases h
          apply Valid.single; apply isChar_C3
          unfold C3; rw [ofNat_toNat (by omega), ofNat_toNat (by omega), ofNat_toNat (by omega)]; omega
        · split at h
          · cases h
            apply Valid.single; apply isChar_C4
            unfold C4
            rw [ofNat_toNat (by omega), ofNat_toNat (by omega), ofNat_toNat (by omega),
              ofNat_toNat (by omega)]
            omega
          · cases h

/-! ## `futf::classify` at index 0 against Table 3-7 -/

set_option linter.unusedSimpArgs false

theorem W2 (x y : UInt8) (r : List UInt8) :
    isWhole (classifyAt (x :: y :: r) 0 2 1) = true ↔
      isCont y = true ∧ 0x80 ≤ (x.toNat % 32) * 64 + y.toNat % 64 := by
  cases hy : isCont y <;>
  simp only [classifyAt, List.length_cons, List.drop_zero, List.take_succ_cons, List.take_zero,
    List.drop_succ_cons, List.all_cons, List.all_nil, Bool.and_true, decode, wholeOf, hy,
    Bool.and_false, Bool.false_eq_true, if_false, if_true, false_and, true_and, and_false]
  all_goals repeat' split
  all_goals simp only [isWhole, Option.map, Bool.false_eq_true, false_iff, true_iff, iff_false,
    not_false_eq_true]
  all_goals omega

theorem W3 (x y z : UInt8) (r : List UInt8) :
    isWhole (classifyAt (x :: y :: z :: r) 0 3 1) = true ↔
      isCont y = true ∧ isCont z = true ∧
      0x7FF < (x.toNat % 16) * 4096 + (y.toNat % 64) * 64 + z.toNat % 64 ∧
      ¬ (0xD800 ≤ (x.toNat % 16) * 4096 + (y.toNat % 64) * 64 + z.toNat % 64 ∧
         (x.toNat % 16) * 4096 + (y.toNat % 64) * 64 + z.toNat % 64 ≤ 0xDFFF) := by
  cases hy : isCont y <;> cases hz : isCont z <;>
  simp only [classifyAt, List.length_cons, List.drop_zero, List.take_succ_cons, List.take_zero,
    List.drop_succ_cons, List.all_cons, List.all_nil, Bool.and_true, decode, wholeOf, hy, hz,
    Bool.and_false, Bool.false_eq_true, if_false, if_true, false_and, true_and, and_false]
  all_goals repeat' split
  all_goals simp only [isWhole, Option.map, Bool.false_eq_true, false_iff, true_iff, iff_false,
    not_false_eq_true]
  all_goals omega

theorem W4 (x y z w : UInt8) (r : List UInt8) :
    isWhole (classifyAt (x :: y :: z :: w :: r) 0 4 1) = true ↔
      isCont y = true ∧ isCont z = true ∧ isCont w = true ∧
      0x10000 ≤ (x.toNat % 8) * 262144 + (y.toNat % 64) * 4096 + (z.toNat % 64) * 64 + w.toNat % 64 ∧
      (x.toNat % 8) * 262144 + (y.toNat % 64) * 4096 + (z.toNat % 64) * 64 + w.toNat % 64 ≤ 0x10FFFF := by
  cases hy : isCont y <;> cases hz : isCont z <;> cases hw : isCont w <;>
  simp only [classifyAt, List.length_cons, List.drop_zero, List.take_succ_cons, List.take_zero,
    List.drop_succ_cons, List.all_cons, List.all_nil, Bool.and_true, decode, wholeOf, hy, hz, hw,
    Bool.and_false, Bool.false_eq_true, if_false, if_true, false_and, true_and, and_false]
  all_goals repeat' split
  all_goals simp only [isWhole, Option.map, Bool.false_eq_true, false_iff, true_iff, iff_false,
    not_false_eq_true]
  all_goals omega


theorem Wshort (l : List UInt8) (n k : Nat) (h : l.length < n) : isWhole (classifyAt l 0 n k) = false := by
  unfold classifyAt
  simp only [Nat.sub_zero]
  rw [if_neg (by omega)]; rfl

theorem isCont_iff (x : UInt8) : isCont x = true ↔ 0x80 ≤ x.toNat ∧ x.toNat < 0xC0 := by
  simp [isCont]

theorem byteK_ascii {x : UInt8} (h : x.toNat < 0x80) : byteK x = some .ascii := by
  simp [byteK, h]
theorem byteK_cont {x : UInt8} (h : isCont x = true) : byteK x = some .cont := by
  rw [isCont_iff] at h
  simp only [byteK]; rw [if_neg (by omega), if_pos (by omega)]
theorem byteK_s2 {x : UInt8} (h : 0xC0 ≤ x.toNat ∧ x.toNat < 0xE0) : byteK x = some (.start 2) := by
  simp only [byteK]; rw [if_neg (by omega), if_neg (by omega), if_pos (by omega)]
theorem byteK_s3 {x : UInt8} (h : 0xE0 ≤ x.toNat ∧ x.toNat < 0xF0) : byteK x = some (.start 3) := by
  simp only [byteK]; rw [if_neg (by omega), if_neg (by omega), if_neg (by omega), if_pos (by omega)]
theorem byteK_s4 {x : UInt8} (h : 0xF0 ≤ x.toNat ∧ x.toNat < 0xF8) : byteK x = some (.start 4) := by
  simp only [byteK]
  rw [if_neg (by omega), if_neg (by omega), if_neg (by omega), if_neg (by omega), if_pos (by omega)]
theorem byteK_none {x : UInt8} (h : 0xF8 ≤ x.toNat) : byteK x = none := by
  simp only [byteK]
  rw [if_neg (by omega), if_neg (by omega), if_neg (by omega), if_neg (by omega), if_neg (by omega)]

theorem classify_zero (x : UInt8) (r : List UInt8) :
    classify (x :: r) 0 = match byteK x with
      | none => none
      | some .ascii => some ⟨0, 1, .whole x.toNat⟩
      | some (.start n) => classifyAt (x :: r) 0 n 1
      | some .cont => some ⟨0, 1, .sfx⟩ := by
  simp only [classify, List.getElem?_cons_zero]
  split <;> simp_all [classifyBack]

/-- the first byte of a well-formed sequence -/
theorem head_first {x : UInt8} {r : List UInt8} {k v : Nat} (h : utf8Head (x :: r) = some (k, v)) :
    x.toNat < 0x80 ∨ (0xC2 ≤ x.toNat ∧ x.toNat ≤ 0xF4) := by
  rcases head_cases h with ⟨a, r, e, _, hc⟩ | ⟨a, b, r, e, _, hc⟩ | ⟨a, b, d, r, e, _, hc⟩ |
    ⟨a, b, d, f, r, e, _, hc⟩ <;> cases e
  · exact .inl hc
  · unfold C2 at hc; omega
  · unfold C3 at hc; omega
  · unfold C4 at hc; omega

/-- the `futf` classification of the sequence at index 0 agrees with Table 3-7 -/
theorem whole0_iff (l : List UInt8) : isWhole (classify l 0) = true ↔ (utf8Head l).isSome = true := by
  constructor
  · intro h
    cases l with
    | nil => simp [classify, isWhole] at h
    | cons x rest =>
      rw [classify_zero] at h
      have hx := x.toNat_lt
      rcases (by omega : x.toNat < 0x80 ∨ (0x80 ≤ x.toNat ∧ x.toNat < 0xC0) ∨
        (0xC0 ≤ x.toNat ∧ x.toNat < 0xE0) ∨ (0xE0 ≤ x.toNat ∧ x.toNat < 0xF0) ∨
        (0xF0 ≤ x.toNat ∧ x.toNat < 0xF8) ∨ 0xF8 ≤ x.toNat) with h1 | h1 | h1 | h1 | h1 | h1
      · rw [head_C1 rest h1]; rfl
      · rw [byteK_cont ((isCont_iff x).mpr h1)] at h; simp [isWhole] at h
      · rw [byteK_s2 h1] at h; simp only at h
        match rest, h with
        | [], h => rw [Wshort _ _ _ (by simp)] at h; cases h
        | y :: r, h =>
          rw [W2, isCont_iff] at h
          obtain ⟨v, hv⟩ := head_C2 (a := x) (b := y) r (by unfold C2; omega)
          rw [hv]; rfl
      · rw [byteK_s3 h1] at h; simp only at h
        match rest, h with
        | [], h => rw [Wshort _ _ _ (by simp)] at h; cases h
        | [_], h => rw [Wshort _ _ _ (by simp)] at h; cases h
        | y :: z :: r, h =>
          rw [W3, isCont_iff, isCont_iff] at h
          obtain ⟨v, hv⟩ := head_C3 (a := x) (b := y) (c := z) r (by unfold C3; omega)
          rw [hv]; rfl
      · rw [byteK_s4 h1] at h; simp only at h
        match rest, h with
        | [], h => rw [Wshort _ _ _ (by simp)] at h; cases h
        | [_], h => rw [Wshort _ _ _ (by simp)] at h; cases h
        | [_, _], h => rw [Wshort _ _ _ (by simp)] at h; cases h
        | y :: z :: w :: r, h =>
          rw [W4, isCont_iff, isCont_iff, isCont_iff] at h
          obtain ⟨v, hv⟩ := head_C4 (a := x) (b := y) (c := z) (d := w) r (by unfold C4; omega)
          rw [hv]; rfl
      · rw [byteK_none h1] at h; simp [isWhole] at h
  · intro h
    obtain ⟨⟨k, v⟩, hv⟩ := Option.isSome_iff_exists.mp h
    rcases head_cases hv with ⟨a, r, rfl, _, hc⟩ | ⟨a, b, r, rfl, _, hc⟩ | ⟨a, b, d, r, rfl, _, hc⟩ |
      ⟨a, b, d, f, r, rfl, _, hc⟩
    · rw [classify_zero, byteK_ascii hc]; rfl
    · unfold C2 at hc
      rw [classify_zero, byteK_s2 (by omega)]; simp only
      rw [W2, isCont_iff]; omega
    · unfold C3 at hc
      rw [classify_zero, byteK_s3 (by omega)]; simp only
      rw [W3, isCont_iff, isCont_iff]; omega
    · unfold C4 at hc
      rw [classify_zero, byteK_s4 (by omega)]; simp only
      rw [W4, isCont_iff, isCont_iff, isCont_iff]; omega

theorem whole0_eq (l : List UInt8) : isWhole (classify l 0) = (utf8Head l).isSome := by
  rw [Bool.eq_iff_iff]; exact whole0_iff l

/-! ## the shape of characters and of their prefixes -/

/-- first byte ASCII (and nothing else), or a start byte; then continuation bytes only -/
def Shape (x : UInt8) (ys : List UInt8) : Prop :=
  (x.toNat < 0x80 ∧ ys = [] ∨ 0xC0 ≤ x.toNat ∧ x.toNat < 0xF8) ∧ ys.all isCont = true ∧ ys.length ≤ 3

theorem isChar_shape {c : List UInt8} (h : IsChar c) : ∃ x ys, c = x :: ys ∧ Shape x ys := by
  rcases isChar_forms h with ⟨a, rfl, hc⟩ | ⟨a, b, rfl, hc⟩ | ⟨a, b, d, rfl, hc⟩ | ⟨a, b, d, e, rfl, hc⟩
  · exact ⟨a, [], rfl, .inl ⟨hc, rfl⟩, rfl, by simp⟩
  · refine ⟨a, [b], rfl, ?_, ?_, by simp⟩ <;> unfold C2 at hc
    · omega
    · simp only [List.all_cons, List.all_nil, Bool.and_true, isCont_iff]; omega
  · refine ⟨a, [b, d], rfl, ?_, ?_, by simp⟩ <;> unfold C3 at hc
    · omega
    · simp only [List.all_cons, List.all_nil, Bool.and_true, Bool.and_eq_true, isCont_iff]; omega
  · refine ⟨a, [b, d, e], rfl, ?_, ?_, by simp⟩ <;> unfold C4 at hc
    · omega
    · simp only [List.all_cons, List.all_nil, Bool.and_true, Bool.and_eq_true, isCont_iff]; omega

/-- a non-empty prefix of a character has the same shape; what follows it inside the character
starts with a continuation byte -/
theorem prefix_shape {d e : List UInt8} (h : IsChar (d ++ e)) (hd : d ≠ []) :
    ∃ x ys, d = x :: ys ∧ Shape x ys ∧ (e ≠ [] → ∃ y e', e = y :: e' ∧ isCont y = true) := by
  obtain ⟨x, ys', e1, hx, hall, hlen⟩ := isChar_shape h
  cases d with
  | nil => exact absurd rfl hd
  | cons x0 ds =>
    simp only [List.cons_append, List.cons.injEq] at e1
    obtain ⟨rfl, rfl⟩ := e1
    rw [List.all_append, Bool.and_eq_true] at hall
    rw [List.length_append] at hlen
    refine ⟨x0, ds, rfl, ⟨?_, hall.1, by omega⟩, ?_⟩
    · rcases hx with ⟨h1, h2⟩ | h1
      · exact .inl ⟨h1, (List.append_eq_nil_iff.mp h2).1⟩
      · exact .inr h1
    · intro he
      cases e with
      | nil => exact absurd rfl he
      | cons y e' =>
        refine ⟨y, e', rfl, ?_⟩
        have := hall.2
        simp only [List.all_cons, Bool.and_eq_true] at this
        exact this.1

theorem head_cont {x : UInt8} (r : List UInt8) (h : isCont x = true) : utf8Head (x :: r) = none := by
  cases hh : utf8Head (x :: r) with
  | none => rfl
  | some p =>
    obtain ⟨k, v⟩ := p
    have := head_first hh
    rw [isCont_iff] at h; omega

/-- a proper prefix of a character is not accepted by the table -/
theorem head_proper_prefix {d e : List UInt8} (h : IsChar (d ++ e)) (he : e ≠ []) : utf8Head d = none := by
  cases hh : utf8Head d with
  | none => rfl
  | some p =>
    obtain ⟨k, v⟩ := p
    obtain ⟨c', r', e1, hlen, hc'⟩ := head_split hh
    have : c' ++ (r' ++ e) = (d ++ e) ++ [] := by rw [List.append_nil, ← List.append_assoc, ← e1]
    obtain ⟨h1, _⟩ := isChar_unique hc' h this
    have h2 := congrArg List.length h1
    have h3 := congrArg List.length e1
    rw [List.length_append] at h2 h3
    have : e.length = 0 := by omega
    exact absurd (List.eq_nil_of_length_eq_zero this) he

theorem not_valid_of_head_none {l : List UInt8} (h : utf8Head l = none) (hne : l ≠ []) :
    validUtf8 l = false := by
  rw [Bool.eq_false_iff]; intro hv
  rw [validUtf8_iff] at hv
  have := hv.head_isSome hne
  rw [h] at this; cases this

/-! ## suffix check -/

/-- a cut of a valid string is a character boundary, or the part after it starts with a
continuation byte -/
theorem Valid.cut_right {l : List UInt8} (h : Valid l) : ∀ (a b : List UInt8), a ++ b = l →
    Valid b ∨ ∃ y r, b = y :: r ∧ isCont y = true := by
  induction h with
  | nil =>
    intro a b e
    rw [(List.append_eq_nil_iff.mp e).2]; exact .inl Valid.nil
  | @cons c r hc hr ih =>
    intro a b e
    rcases List.append_eq_append_iff.mp e with ⟨as, e1, e2⟩ | ⟨bs, e1, e2⟩
    · by_cases ha : a = []
      · subst ha; rw [List.nil_append] at e; rw [e]; exact .inl (Valid.cons hc hr)
      · by_cases has : as = []
        · subst has; rw [List.nil_append] at e2; rw [e2]; exact .inl hr
        · rw [e1] at hc
          obtain ⟨_, _, _, _, h3⟩ := prefix_shape hc ha
          obtain ⟨y, e', rfl, hy⟩ := h3 has
          exact .inr ⟨y, e' ++ r, by rw [e2]; rfl, hy⟩
    · exact ih bs b e2.symm

theorem utf8_suffix_exact (a b : List UInt8) (h : validUtf8 (a ++ b) = true) :
    utf8ValidateSuffix b = validUtf8 b := by
  rw [validUtf8_iff] at h
  cases b with
  | nil => rfl
  | cons y r =>
    have : utf8ValidateSuffix (y :: r) = (utf8Head (y :: r)).isSome := by
      simp only [utf8ValidateSuffix, List.isEmpty_cons, Bool.false_eq_true, if_false]
      exact whole0_eq _
    rw [this]
    rcases h.cut_right a (y :: r) rfl with hv | ⟨y', r', e, hy⟩
    · rw [hv.head_isSome (by simp), (validUtf8_iff _).mpr hv]
    · cases e
      have hn := head_cont r hy
      rw [not_valid_of_head_none hn (by simp), hn]; rfl

/-! ## prefix check -/

theorem all_drop_take {x : UInt8} {ys : List UInt8} (h : ys.all isCont = true) (n : Nat) {k : Nat}
    (hk : 1 ≤ k) : (((x :: ys).take n).drop k).all isCont = true := by
  rw [List.all_eq_true] at *
  intro y hy
  cases n with
  | zero => simp at hy
  | succ n =>
    cases k with
    | zero => omega
    | succ k =>
      rw [List.take_succ_cons, List.drop_succ_cons] at hy
      exact h y (List.mem_of_mem_take (List.mem_of_mem_drop hy))

/-- `classifyAt` only looks at the bytes from `start` on -/
theorem At_shift (a0 : List UInt8) (x : UInt8) {ys : List UInt8} (h : ys.all isCont = true) (n : Nat)
    {k : Nat} (hk : 1 ≤ k) :
    isWhole (classifyAt (a0 ++ x :: ys) a0.length n k) = isWhole (classifyAt (x :: ys) 0 n 1) := by
  unfold classifyAt
  simp only [List.length_append, Nat.add_sub_cancel_left, List.drop_left, Nat.sub_zero, List.drop_zero,
    all_drop_take h n hk, all_drop_take h n (Nat.le_refl 1), if_true]
  split
  · cases decode (List.take n (x :: ys)) with
    | none => rfl
    | some m => cases m <;> rfl
  · rfl

/-- the backward scan from a continuation byte inside `ys` reaches the start byte `x` -/
theorem Back (a0 : List UInt8) (x : UInt8) {ys : List UInt8} {n : Nat} (hx : byteK x = some (.start n))
    (h : ys.all isCont = true) (m : Nat) (hm : m ≤ 3) :
    ∀ (j : Nat), j ≤ ys.length → j ≤ m + 1 →
      classifyBack (a0 ++ x :: ys) (a0.length + m) (a0.length + j + 1) =
        classifyAt (a0 ++ x :: ys) a0.length n (m + 1) := by
  intro j
  induction j with
  | zero =>
    intro _ _
    simp only [classifyBack, List.getElem?_append_right (Nat.le_refl _), Nat.sub_self,
      List.getElem?_cons_zero, hx, Nat.add_sub_cancel_left]
  | succ j ih =>
    intro hj hjm
    have hy : ∃ y, (a0 ++ x :: ys)[a0.length + (j + 1)]? = some y ∧ isCont y = true := by
      rw [List.getElem?_append_right (by omega), Nat.add_sub_cancel_left, List.getElem?_cons_succ]
      have hlt : j < ys.length := by omega
      refine ⟨ys[j], List.getElem?_eq_getElem hlt, ?_⟩
      exact (List.all_eq_true.mp h) _ (List.getElem_mem hlt)
    obtain ⟨y, hy1, hy2⟩ := hy
    rw [show a0.length + (j + 1) + 1 = (a0.length + (j + 1)) + 1 from rfl]
    unfold classifyBack
    simp only [hy1, byteK_cont hy2]
    rw [if_neg (by omega)]
    exact ih (by omega) (by omega)


/-- the prefix check on `a0 ++ d`, `d` a non-empty prefix of a character, asks the table about `d` -/
theorem prefix_eval (a0 : List UInt8) {x : UInt8} {ys : List UInt8} (h : Shape x ys) :
    utf8ValidatePrefix (a0 ++ x :: ys) = (utf8Head (x :: ys)).isSome := by
  obtain ⟨hx, hall, hlen⟩ := h
  have hne : (a0 ++ x :: ys).isEmpty = false := by
    cases a0 <;> rfl
  have hidx : (a0 ++ x :: ys).length - 1 = a0.length + ys.length := by
    rw [List.length_append, List.length_cons]; omega
  unfold utf8ValidatePrefix
  rw [hne, hidx, ← whole0_eq]
  simp only [Bool.false_eq_true, if_false]
  rcases hx with ⟨h1, rfl⟩ | h1
  · -- ASCII
    rw [classify_zero, byteK_ascii h1]
    simp only [classify, List.length_nil, Nat.add_zero, List.getElem?_append_right (Nat.le_refl _),
      Nat.sub_self, List.getElem?_cons_zero, byteK_ascii h1]
    rfl
  · obtain ⟨n, hn⟩ : ∃ n, byteK x = some (.start n) := by
      rcases (by omega : (0xC0 ≤ x.toNat ∧ x.toNat < 0xE0) ∨ (0xE0 ≤ x.toNat ∧ x.toNat < 0xF0) ∨
        (0xF0 ≤ x.toNat ∧ x.toNat < 0xF8)) with h2 | h2 | h2
      · exact ⟨_, byteK_s2 h2⟩
      · exact ⟨_, byteK_s3 h2⟩
      · exact ⟨_, byteK_s4 h2⟩
    rw [classify_zero, hn]
    simp only
    cases ys with
    | nil =>
      simp only [classify, List.length_nil, Nat.add_zero, List.getElem?_append_right (Nat.le_refl _),
        Nat.sub_self, List.getElem?_cons_zero, hn]
      exact At_shift a0 x hall n (Nat.le_refl 1)
    | cons y0 ys' =>
      have hy : ∃ y, (a0 ++ x :: y0 :: ys')[a0.length + (ys'.length + 1)]? = some y ∧ isCont y = true := by
        rw [List.getElem?_append_right (by omega), Nat.add_sub_cancel_left, List.getElem?_cons_succ]
        have hlt : ys'.length < (y0 :: ys').length := by simp
        refine ⟨(y0 :: ys')[ys'.length], List.getElem?_eq_getElem hlt, ?_⟩
        exact (List.all_eq_true.mp hall) _ (List.getElem_mem hlt)
      obtain ⟨y, hy1, hy2⟩ := hy
      simp only [List.length_cons] at hlen ⊢
      unfold classify
      simp only [hy1, byteK_cont hy2]
      have := Back a0 x hn hall (ys'.length + 1) (by omega) ys'.length (by simp) (by omega)
      rw [show a0.length + (ys'.length + 1) = a0.length + ys'.length + 1 from rfl] at this ⊢
      rw [this]
      exact At_shift a0 x hall n (by omega)

/-- a non-empty part before a cut of a valid string ends with a whole character (boundary) or with
a proper non-empty prefix of a character (interior), after a valid string -/
theorem Valid.cut_left {l : List UInt8} (h : Valid l) : ∀ (a b : List UInt8), a ++ b = l → a ≠ [] →
    ∃ a0 d e, a = a0 ++ d ∧ Valid a0 ∧ d ≠ [] ∧ IsChar (d ++ e) := by
  induction h with
  | nil =>
    intro a b e ha
    exact absurd (List.append_eq_nil_iff.mp e).1 ha
  | @cons c r hc hr ih =>
    intro a b e ha
    rcases List.append_eq_append_iff.mp e with ⟨as, e1, _⟩ | ⟨bs, e1, e2⟩
    · exact ⟨[], a, as, rfl, Valid.nil, ha, e1 ▸ hc⟩
    · by_cases hbs : bs = []
      · subst hbs
        rw [List.append_nil] at e1
        exact ⟨[], c, [], by rw [e1]; rfl, Valid.nil, isChar_ne_nil hc, by rw [List.append_nil]; exact hc⟩
      · obtain ⟨a0, d, e', h1, h2, h3, h4⟩ := ih bs b e2.symm hbs
        exact ⟨c ++ a0, d, e', by rw [e1, h1, List.append_assoc], Valid.cons hc h2, h3, h4⟩

theorem utf8_prefix_exact (a b : List UInt8) (h : validUtf8 (a ++ b) = true) :
    utf8ValidatePrefix a = validUtf8 a := by
  rw [validUtf8_iff] at h
  by_cases ha : a = []
  · subst ha; rfl
  · obtain ⟨a0, d, e, rfl, h0, hd, hde⟩ := h.cut_left a b rfl ha
    obtain ⟨x, ys, rfl, hsh, _⟩ := prefix_shape hde hd
    rw [prefix_eval a0 hsh]
    by_cases he : e = []
    · subst he
      rw [List.append_nil] at hde
      obtain ⟨v, hv⟩ := hde
      rw [hv, (validUtf8_iff _).mpr (h0.append (Valid.single ⟨v, hv⟩))]; rfl
    · have hn := head_proper_prefix hde he
      rw [hn]
      symm
      show validUtf8 (a0 ++ x :: ys) = false
      rw [Bool.eq_false_iff]; intro hv
      rw [validUtf8_iff] at hv
      have := (h0.cancel hv).head_isSome hd
      rw [hn] at this; cases this

theorem utf8_subseq_exact (a b c : List UInt8) (h : validUtf8 (a ++ (b ++ c)) = true) :
    (utf8ValidatePrefix b && utf8ValidateSuffix b) = validUtf8 b := by
  have h' := (validUtf8_iff _).mp h
  cases b with
  | nil => rfl
  | cons y r =>
    rcases h'.cut_right a ((y :: r) ++ c) rfl with hv | ⟨y', r', e, hy⟩
    · have hp := utf8_prefix_exact (y :: r) c ((validUtf8_iff _).mpr hv)
      rw [hp]
      cases hb : validUtf8 (y :: r) with
      | false => rfl
      | true => rw [utf8_suffix_exact [] (y :: r) hb, hb]; rfl
    · cases e
      have hn := head_cont r hy
      have : utf8ValidateSuffix (y :: r) = false := by
        simp only [utf8ValidateSuffix, List.isEmpty_cons, Bool.false_eq_true, if_false]
        rw [whole0_eq, hn]; rfl
      rw [this, not_valid_of_head_none hn (by simp), Bool.and_false]

/-- the format laws of `H5V.Props.C11` hold for UTF-8 -/
theorem laws_utf8 : Laws Format.utf8 where
  noFixup _ _ := rfl
  valid_nil := rfl
  valid_append := utf8_valid_append
  suffix_exact := utf8_suffix_exact
  prefix_exact := utf8_prefix_exact
  subseq_exact := utf8_subseq_exact
  encode_valid := utf8_encode_valid
  chars_total _ _ h := h
  chars_cut := utf8_chars_cut

/-! ## non-vacuity -/

-- "é€😀"
example : validUtf8 [0xC3, 0xA9, 0xE2, 0x82, 0xAC, 0xF0, 0x9F, 0x98, 0x80] = true := by decide
example : utf8Chars [0xC3, 0xA9, 0xE2, 0x82, 0xAC, 0xF0, 0x9F, 0x98, 0x80] =
    some [(0, 0xE9), (2, 0x20AC), (5, 0x1F600)] := by decide
example : validUtf8 [0xC0, 0x80] = false := by decide
example : validUtf8 [0xED, 0xA0, 0x80] = false := by decide
example : validUtf8 [0xF4, 0x90, 0x80, 0x80] = false := by decide
example : validUtf8 [0xE2, 0x82] = false := by decide
example : utf8ValidatePrefix [0xE2, 0x82] = false := by decide
example : utf8ValidatePrefix [0xE2, 0x82, 0xAC] = true := by decide
example : utf8ValidateSuffix [0x82, 0xAC] = false := by decide
example : utf8ValidateSuffix [0xE2, 0x82, 0xAC] = true := by decide
-- the futf checks alone are not a validator: exactness needs the surrounding valid string
example : utf8ValidatePrefix [0xC2, 0x80, 0x80] = true ∧ validUtf8 [0xC2, 0x80, 0x80] = false := by decide
example : encodeUtf8 0x20AC = some [0xE2, 0x82, 0xAC] := by decide
example : encodeUtf8 0xD800 = none := by decide


/-! ## C11 for UTF-8 tendrils -/

/-- **A UTF-8 tendril always holds valid UTF-8.**  After any history of operations (`StrTendril`
offers no byte stores, so `setByte` is excluded) every tendril of the pool is well-formed in the
heap and its bytes are well-formed UTF-8 (Unicode Table 3-7). -/
theorem C11_utf8_valid (slots : Nat) (ops : List Op)
    (hs : ∀ op ∈ ops, ∀ i k v, op ≠ .setByte i k v) :
    Lemmas.Tendril.StWF (run Format.utf8 (St.init slots) ops) ∧
    ∀ (i : Nat) (t : T), (run Format.utf8 (St.init slots) ops).pool[i]? = some (some t) →
      validUtf8 (abs (run Format.utf8 (St.init slots) ops).heap t) = true := by
  have hso : StoresOK Format.utf8 ops := by
    intro op hop i k v he
    exact (hs op hop i k v he).elim
  obtain ⟨hwf, hv⟩ := C11_reachable_wf Format.utf8 laws_utf8 slots ops hso
  exact ⟨hwf, fun i t hp => hv i _ (abs_lookup hp)⟩

end H5V.Lemmas.Tendril.Utf8

