import H5V.Lemmas.HtmlTBMetaBase
/-!
C19, part 4: what the `meta` arm of "in head" does to the builder and the sink: a few queries to find
the insertion place, `create_element(meta, attrs)`, one insertion of that element — and nothing else:
the stack of open elements (and every other field of the builder) is as before, the element is never
pushed ("inserted and immediately popped").
-/
namespace H5V.Props.C19
open H5V.Model.Dom (Id QualName Attr NodeOrText SinkOp Output ElementFlags QuirksMode Dom)
open H5V.Model.HtmlTB
open H5V.Lemmas.TBM

/-- the sink calls that only ask -/
def isQuery : SinkOp → Bool
  | .elemName _ => true
  | .getTemplateContents _ => true
  | .sameNode _ _ => true
  | _ => false

/-- every field of the builder but the sink and the record of the calls is the same -/
structure SameBuilder (s s' : State) : Prop where
  opts : s'.opts = s.opts
  mode : s'.mode = s.mode
  origMode : s'.origMode = s.origMode
  templateModes : s'.templateModes = s.templateModes
  pendingTableText : s'.pendingTableText = s.pendingTableText
  quirksMode : s'.quirksMode = s.quirksMode
  docHandle : s'.docHandle = s.docHandle
  openElems : s'.openElems = s.openElems
  activeFormatting : s'.activeFormatting = s.activeFormatting
  headElem : s'.headElem = s.headElem
  formElem : s'.formElem = s.formElem
  framesetOk : s'.framesetOk = s.framesetOk
  ignoreLf : s'.ignoreLf = s.ignoreLf
  fosterParenting : s'.fosterParenting = s.fosterParenting
  contextElem : s'.contextElem = s.contextElem
  currentLine : s'.currentLine = s.currentLine

theorem SameBuilder.refl (s : State) : SameBuilder s s :=
  ⟨rfl, rfl, rfl, rfl, rfl, rfl, rfl, rfl, rfl, rfl, rfl, rfl, rfl, rfl, rfl, rfl⟩

theorem SameBuilder.trans {a b c : State} (h1 : SameBuilder a b) (h2 : SameBuilder b c) : SameBuilder a c :=
  ⟨h2.opts.trans h1.opts, h2.mode.trans h1.mode, h2.origMode.trans h1.origMode,
   h2.templateModes.trans h1.templateModes, h2.pendingTableText.trans h1.pendingTableText,
   h2.quirksMode.trans h1.quirksMode, h2.docHandle.trans h1.docHandle, h2.openElems.trans h1.openElems,
   h2.activeFormatting.trans h1.activeFormatting, h2.headElem.trans h1.headElem, h2.formElem.trans h1.formElem,
   h2.framesetOk.trans h1.framesetOk, h2.ignoreLf.trans h1.ignoreLf, h2.fosterParenting.trans h1.fosterParenting,
   h2.contextElem.trans h1.contextElem, h2.currentLine.trans h1.currentLine⟩

theorem SameBuilder.sink {s s' : State} {op : SinkOp} {out : Output} (h : sink op s = .ok (out, s')) :
    SameBuilder s s' ∧ s'.traceRev = (op, out) :: s.traceRev := by
  obtain ⟨d, _, rfl⟩ := sink_ok.mp h
  exact ⟨⟨rfl, rfl, rfl, rfl, rfl, rfl, rfl, rfl, rfl, rfl, rfl, rfl, rfl, rfl, rfl, rfl⟩, rfl⟩

/-- `m` only asks the sink and leaves the builder alone -/
class QOnly {α : Type} (m : M α) : Prop where
  h : ∀ s a s', m s = .ok (a, s') →
    SameBuilder s s' ∧ ∃ qs, s'.traceRev = qs ++ s.traceRev ∧ ∀ c ∈ qs, isQuery c.1 = true

theorem QOnly.bind {α β : Type} {m : M α} {f : α → M β} (h1 : QOnly m) (h2 : ∀ a, QOnly (f a)) :
    QOnly (m >>= f) := by
  constructor
  intro s b s'' e
  obtain ⟨a, s', e1, e2⟩ := bind_ok.mp e
  obtain ⟨b1, q1, t1, c1⟩ := h1.h s a s' e1
  obtain ⟨b2, q2, t2, c2⟩ := (h2 a).h s' b s'' e2
  refine ⟨b1.trans b2, q2 ++ q1, by rw [t2, t1, List.append_assoc], ?_⟩
  intro c hc
  rcases List.mem_append.mp hc with hc | hc
  · exact c2 c hc
  · exact c1 c hc

theorem QOnly.pure {α : Type} (a : α) : QOnly (Pure.pure a : M α) :=
  ⟨fun s b s' e => by
    obtain ⟨_, rfl⟩ := pure_ok.mp e
    exact ⟨SameBuilder.refl _, [], rfl, fun _ h => nomatch h⟩⟩

theorem QOnly.iteH {α : Type} {c : Prop} [Decidable c] {a b : M α} (h1 : c → QOnly a) (h2 : ¬ c → QOnly b) :
    QOnly (if c then a else b) := by
  by_cases hc : c
  · simp only [hc, if_true]; exact h1 hc
  · simp only [hc, if_false]; exact h2 hc

theorem QOnly.throw {α : Type} (e : String) : QOnly (throw e : M α) := ⟨fun _ _ _ h => absurd h throw_ok⟩

instance {α : Type} (a : α) : QOnly (Pure.pure a : M α) := QOnly.pure a
instance {α : Type} (e : String) : QOnly (throw e : M α) := QOnly.throw e
instance {α : Type} (c f t : String) : QOnly (panicAt c f t : M α) := QOnly.throw _
instance : QOnly getS :=
  ⟨fun s a s' e => by
    obtain ⟨_, rfl⟩ := getS_ok.mp e
    exact ⟨SameBuilder.refl _, [], rfl, fun _ h => nomatch h⟩⟩

theorem QOnly.sink (op : SinkOp) (hq : isQuery op = true) : QOnly (sink op) :=
  ⟨fun s out s' e => by
    obtain ⟨b, t⟩ := SameBuilder.sink e
    refine ⟨b, [(op, out)], t, ?_⟩
    intro c hc
    simp only [List.mem_singleton] at hc
    rw [hc]; exact hq⟩

instance (h : Id) : QOnly (sink (.elemName h)) := QOnly.sink _ rfl
instance (h : Id) : QOnly (sink (.getTemplateContents h)) := QOnly.sink _ rfl
instance (a b : Id) : QOnly (sink (.sameNode a b)) := QOnly.sink _ rfl

syntax "q_step" : tactic
macro_rules
  | `(tactic| q_step) => `(tactic|
    first
      | exact inferInstance
      | with_reducible apply QOnly.bind
      | with_reducible apply QOnly.iteH
      | intro _
      | split
      | dsimp only)
syntax "q_walk" : tactic
macro_rules
  | `(tactic| q_walk) => `(tactic| repeat' q_step)

instance (op : SinkOp) [QOnly (sink op)] : QOnly (sinkNode op) := by unfold sinkNode; q_walk
instance (op : SinkOp) [QOnly (sink op)] : QOnly (sinkBool op) := by unfold sinkBool; q_walk
instance (h : Id) : QOnly (elemName h) := by unfold elemName; q_walk
instance (h : Id) (n : Str) : QOnly (htmlElemNamedS h n) := by unfold htmlElemNamedS; q_walk
instance (h : Id) (n : String) : QOnly (htmlElemNamed h n) := by unfold htmlElemNamed; q_walk
instance (h : Id) (f : EName → Bool) : QOnly (elemIn h f) := by unfold elemIn; q_walk
instance : QOnly currentNode := by unfold currentNode; q_walk
instance : QOnly htmlElem := by unfold htmlElem; q_walk

theorem qonly_fosterLoop : ∀ (l : List Id), QOnly (fosterLoop l)
  | [] => by unfold fosterLoop; q_walk
  | e :: rest => by
    haveI := qonly_fosterLoop rest
    unfold fosterLoop; q_walk
instance (l : List Id) : QOnly (fosterLoop l) := qonly_fosterLoop l

instance (o : Option Id) : QOnly (appropriatePlaceForInsertion o) := by
  unfold appropriatePlaceForInsertion; q_walk

/-- the sink call `insert_at` makes -/
def insOp : InsertionPoint → NodeOrText → SinkOp
  | .lastChild parent, child => .append parent child
  | .beforeSibling sibling, child => .appendBeforeSibling sibling child
  | .tableFosterParenting element prev, child => .appendBasedOnParentNode element prev child

theorem insertAt_eq (p : InsertionPoint) (c : NodeOrText) : insertAt p c = sinkUnit (insOp p c) := by
  cases p <;> rfl

theorem insOp_out {d d' : Dom} {ip : InsertionPoint} {c : NodeOrText} {out : Output}
    (h : d.apply (insOp ip c) = .ok (d', out)) : out = .unit := by
  cases ip <;> simp only [insOp, Dom.apply, Dom.applyV, bind, Except.bind] at h
  all_goals
    split at h
    · cases h
    · cases h; rfl

/-- the flags `create_element_with_flags` computes for an HTML element that is not `template` -/
def plainFlags (dup : Bool) : ElementFlags := { template := false, mathmlIP := false, hadDuplicateAttributes := dup }

/-- **`insert_and_pop_element_for(tag)`** for an element that is neither form-associated nor
`template`: some queries, `create_element`, one insertion; the builder is left as it was -/
theorem insertAndPop_spec {tag : Tag} {s s' : State} {elem : Id}
    (hf : formAssociatable ⟨nsHtml, tag.name⟩ = false) (ht : isName tag.name "template" = false)
    (h : insertAndPopElementFor tag s = .ok (elem, s')) :
    SameBuilder s s' ∧ ∃ ip qs, (∀ c ∈ qs, isQuery c.1 = true) ∧
      s'.traceRev = (insOp ip (.node elem), .unit) ::
        (.createElement (htmlQual tag.name) tag.attrs (plainFlags tag.hadDup), .node elem) :: (qs ++ s.traceRev) := by
  unfold insertAndPopElementFor insertElement at h
  obtain ⟨ip, s1, e1, e2⟩ := bind_ok.mp h
  obtain ⟨b1, qs, t1, c1⟩ := (inferInstance : QOnly (appropriatePlaceForInsertion none)).h _ _ _ e1
  simp only [hf, Bool.false_and, Bool.false_eq_true, if_false] at e2
  simp only [pure_bind, Bool.false_eq_true, if_false] at e2
  obtain ⟨s1', w, e2a, e4⟩ := bind_ok.mp e2
  obtain ⟨_, rfl⟩ := getS_ok.mp e2a
  obtain ⟨el, s3, e5, e6⟩ := bind_ok.mp e4
  unfold createElementWithFlags at e5
  obtain ⟨b3, t3⟩ := SameBuilder.sink (sinkNode_ok.mp e5)
  obtain ⟨_, s4, e7, e8⟩ := bind_ok.mp e6
  rw [insertAt_eq] at e7
  obtain ⟨out, e7⟩ := sinkUnit_ok.mp e7
  obtain ⟨b4, t4⟩ := SameBuilder.sink e7
  obtain ⟨rfl, rfl⟩ := pure_ok.mp e8
  obtain ⟨d, hd, _⟩ := sink_ok.mp e7
  cases insOp_out hd
  refine ⟨(b1.trans b3).trans b4, ip, qs, c1, ?_⟩
  rw [t4, t3, t1]
  have hn : (nsHtml == nsMathml) = false := by decide
  simp only [ht, hn, Bool.and_false, Bool.false_and, Bool.false_eq_true, if_false, htmlQual, plainFlags]

end H5V.Props.C19
