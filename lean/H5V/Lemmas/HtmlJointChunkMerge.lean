import H5V.Lemmas.HtmlJointChunkRun
import H5V.Props.C03End
/-!
C03 for the JOINT model, part 2: chunk merging.

The per-step facts of the tokenizer proof (`step_mono`, `step_resume`, `step_sim`, `step_good`) hold for
**every** sink policy, in particular for `polOf j` — the policy of the current tree-builder state.  What
the joint loop adds is that the policy changes from step to step (`j` absorbs the tokens of each step);
this is harmless because (a) the chunked and the one-piece run perform the same steps with the same
outputs, hence go through the same joint states, and (b) a step that *suspends* (the only kind of step
whose boundaries depend on the chunking) has delivered nothing (`step_suspend_out`), so the resumed step
runs under the same policy.
-/
namespace H5V.Lemmas.JointChunk
open H5V.Model.HtmlTok (Mach R Sim RSim clr step TInv mu fuelFor feedBom)
open H5V.Model.HtmlTB.Joint (JState absorb polOf RunRes)

theorem sim_out {a b : Mach} (h : Sim a b) : a.out = b.out := H5V.Model.HtmlTok.Sim.out h

/-- the invariant transfers along `Sim` (needed facts only) -/
structure SInv (m : Mach) : Prop where
  out : m.out = []

/-! ### runs from `Sim` machines -/

theorem jrunsTo_sim {o : TOpts} {y : Mach} {i : Chars} {j : JState} {m' : Mach} {j' : JState}
    (hrun : JRunsTo o y i j m' j') : ∀ x, Sim x y → ∃ m'', JRunsTo o x i j m'' j' ∧ Sim m'' m' := by
  induction hrun with
  | @susp m0 inp0 j0 m1 j1 hs ha =>
    intro x hsim
    have hrs := H5V.Model.HtmlTok.step_sim o (polOf j0) x m0 inp0 hsim
    rw [hs] at hrs
    cases hsa : step o (polOf j0) x inp0 with
    | suspend x1 i1 =>
      rw [hsa] at hrs
      obtain ⟨h1, h2⟩ := hrs
      subst h2
      exact ⟨clr x1, JRunsTo.susp hsa (by rw [sim_out h1]; exact ha), H5V.Model.HtmlTok.sim_clr h1⟩
    | cont _ _ => rw [hsa] at hrs; exact absurd hrs (by simp [RSim])
    | script _ _ => rw [hsa] at hrs; exact absurd hrs (by simp [RSim])
    | indicator _ _ => rw [hsa] at hrs; exact absurd hrs (by simp [RSim])
    | panic _ => rw [hsa] at hrs; exact absurd hrs (by simp [RSim])
  | @cont m0 inp0 j0 m1 i1 j1 mf jf hs ha _ ih =>
    intro x hsim
    have hrs := H5V.Model.HtmlTok.step_sim o (polOf j0) x m0 inp0 hsim
    rw [hs] at hrs
    cases hsa : step o (polOf j0) x inp0 with
    | cont x1 i1' =>
      rw [hsa] at hrs
      obtain ⟨h1, h2⟩ := hrs
      subst h2
      obtain ⟨m'', hr', hs'⟩ := ih (clr x1) (H5V.Model.HtmlTok.sim_clr h1)
      exact ⟨m'', JRunsTo.cont hsa (by rw [sim_out h1]; exact ha) hr', hs'⟩
    | suspend _ _ => rw [hsa] at hrs; exact absurd hrs (by simp [RSim])
    | script _ _ => rw [hsa] at hrs; exact absurd hrs (by simp [RSim])
    | indicator _ _ => rw [hsa] at hrs; exact absurd hrs (by simp [RSim])
    | panic _ => rw [hsa] at hrs; exact absurd hrs (by simp [RSim])
  | @script m0 inp0 j0 m1 i1 j1 mf jf hs ha hne _ ih =>
    intro x hsim
    have hrs := H5V.Model.HtmlTok.step_sim o (polOf j0) x m0 inp0 hsim
    rw [hs] at hrs
    cases hsa : step o (polOf j0) x inp0 with
    | script x1 i1' =>
      rw [hsa] at hrs
      obtain ⟨h1, h2⟩ := hrs
      subst h2
      obtain ⟨m'', hr', hs'⟩ := ih (clr x1) (H5V.Model.HtmlTok.sim_clr h1)
      exact ⟨m'', JRunsTo.script hsa (by rw [sim_out h1]; exact ha) hne hr', hs'⟩
    | suspend _ _ => rw [hsa] at hrs; exact absurd hrs (by simp [RSim])
    | cont _ _ => rw [hsa] at hrs; exact absurd hrs (by simp [RSim])
    | indicator _ _ => rw [hsa] at hrs; exact absurd hrs (by simp [RSim])
    | panic _ => rw [hsa] at hrs; exact absurd hrs (by simp [RSim])
  | @scriptEnd m0 inp0 j0 m1 j1 hs ha =>
    intro x hsim
    have hrs := H5V.Model.HtmlTok.step_sim o (polOf j0) x m0 inp0 hsim
    rw [hs] at hrs
    cases hsa : step o (polOf j0) x inp0 with
    | script x1 i1 =>
      rw [hsa] at hrs
      obtain ⟨h1, h2⟩ := hrs
      subst h2
      exact ⟨clr x1, JRunsTo.scriptEnd hsa (by rw [sim_out h1]; exact ha), H5V.Model.HtmlTok.sim_clr h1⟩
    | cont _ _ => rw [hsa] at hrs; exact absurd hrs (by simp [RSim])
    | suspend _ _ => rw [hsa] at hrs; exact absurd hrs (by simp [RSim])
    | indicator _ _ => rw [hsa] at hrs; exact absurd hrs (by simp [RSim])
    | panic _ => rw [hsa] at hrs; exact absurd hrs (by simp [RSim])
  | @indicator m0 inp0 j0 m1 i1 j1 mf jf hs ha hne _ ih =>
    intro x hsim
    have hrs := H5V.Model.HtmlTok.step_sim o (polOf j0) x m0 inp0 hsim
    rw [hs] at hrs
    cases hsa : step o (polOf j0) x inp0 with
    | indicator x1 i1' =>
      rw [hsa] at hrs
      obtain ⟨h1, h2⟩ := hrs
      subst h2
      obtain ⟨m'', hr', hs'⟩ := ih (clr x1) (H5V.Model.HtmlTok.sim_clr h1)
      exact ⟨m'', JRunsTo.indicator hsa (by rw [sim_out h1]; exact ha) hne hr', hs'⟩
    | suspend _ _ => rw [hsa] at hrs; exact absurd hrs (by simp [RSim])
    | cont _ _ => rw [hsa] at hrs; exact absurd hrs (by simp [RSim])
    | script _ _ => rw [hsa] at hrs; exact absurd hrs (by simp [RSim])
    | panic _ => rw [hsa] at hrs; exact absurd hrs (by simp [RSim])
  | @indicatorEnd m0 inp0 j0 m1 j1 hs ha =>
    intro x hsim
    have hrs := H5V.Model.HtmlTok.step_sim o (polOf j0) x m0 inp0 hsim
    rw [hs] at hrs
    cases hsa : step o (polOf j0) x inp0 with
    | indicator x1 i1 =>
      rw [hsa] at hrs
      obtain ⟨h1, h2⟩ := hrs
      subst h2
      exact ⟨clr x1, JRunsTo.indicatorEnd hsa (by rw [sim_out h1]; exact ha), H5V.Model.HtmlTok.sim_clr h1⟩
    | cont _ _ => rw [hsa] at hrs; exact absurd hrs (by simp [RSim])
    | suspend _ _ => rw [hsa] at hrs; exact absurd hrs (by simp [RSim])
    | script _ _ => rw [hsa] at hrs; exact absurd hrs (by simp [RSim])
    | panic _ => rw [hsa] at hrs; exact absurd hrs (by simp [RSim])

/-- one step onward from an `RSim`-related first step (same joint state) -/
theorem jrunsTo_of_rsim {o : TOpts} {ma mb : Mach} {ia ib : Chars} {j : JState} {m' : Mach} {j' : JState}
    (hrs : RSim (step o (polOf j) ma ia) (step o (polOf j) mb ib)) (hrun : JRunsTo o mb ib j m' j') :
    ∃ m'', JRunsTo o ma ia j m'' j' ∧ Sim m'' m' := by
  cases hrun with
  | susp hs ha =>
    rw [hs] at hrs
    cases hsa : step o (polOf j) ma ia with
    | suspend x i =>
      rw [hsa] at hrs
      obtain ⟨h1, h2⟩ := hrs
      subst h2
      exact ⟨clr x, JRunsTo.susp hsa (by rw [sim_out h1]; exact ha), H5V.Model.HtmlTok.sim_clr h1⟩
    | cont x i => rw [hsa] at hrs; exact absurd hrs (by simp [RSim])
    | script x i => rw [hsa] at hrs; exact absurd hrs (by simp [RSim])
    | indicator x i => rw [hsa] at hrs; exact absurd hrs (by simp [RSim])
    | panic e => rw [hsa] at hrs; exact absurd hrs (by simp [RSim])
  | cont hs ha hr =>
    rw [hs] at hrs
    cases hsa : step o (polOf j) ma ia with
    | cont x i =>
      rw [hsa] at hrs
      obtain ⟨h1, h2⟩ := hrs
      subst h2
      obtain ⟨m'', hr', hs'⟩ := jrunsTo_sim hr (clr x) (H5V.Model.HtmlTok.sim_clr h1)
      exact ⟨m'', JRunsTo.cont hsa (by rw [sim_out h1]; exact ha) hr', hs'⟩
    | suspend x i => rw [hsa] at hrs; exact absurd hrs (by simp [RSim])
    | script x i => rw [hsa] at hrs; exact absurd hrs (by simp [RSim])
    | indicator x i => rw [hsa] at hrs; exact absurd hrs (by simp [RSim])
    | panic e => rw [hsa] at hrs; exact absurd hrs (by simp [RSim])
  | script hs ha hne hr =>
    rw [hs] at hrs
    cases hsa : step o (polOf j) ma ia with
    | script x i =>
      rw [hsa] at hrs
      obtain ⟨h1, h2⟩ := hrs
      subst h2
      obtain ⟨m'', hr', hs'⟩ := jrunsTo_sim hr (clr x) (H5V.Model.HtmlTok.sim_clr h1)
      exact ⟨m'', JRunsTo.script hsa (by rw [sim_out h1]; exact ha) hne hr', hs'⟩
    | suspend x i => rw [hsa] at hrs; exact absurd hrs (by simp [RSim])
    | cont x i => rw [hsa] at hrs; exact absurd hrs (by simp [RSim])
    | indicator x i => rw [hsa] at hrs; exact absurd hrs (by simp [RSim])
    | panic e => rw [hsa] at hrs; exact absurd hrs (by simp [RSim])
  | scriptEnd hs ha =>
    rw [hs] at hrs
    cases hsa : step o (polOf j) ma ia with
    | script x i =>
      rw [hsa] at hrs
      obtain ⟨h1, h2⟩ := hrs
      subst h2
      exact ⟨clr x, JRunsTo.scriptEnd hsa (by rw [sim_out h1]; exact ha), H5V.Model.HtmlTok.sim_clr h1⟩
    | suspend x i => rw [hsa] at hrs; exact absurd hrs (by simp [RSim])
    | cont x i => rw [hsa] at hrs; exact absurd hrs (by simp [RSim])
    | indicator x i => rw [hsa] at hrs; exact absurd hrs (by simp [RSim])
    | panic e => rw [hsa] at hrs; exact absurd hrs (by simp [RSim])
  | indicator hs ha hne hr =>
    rw [hs] at hrs
    cases hsa : step o (polOf j) ma ia with
    | indicator x i =>
      rw [hsa] at hrs
      obtain ⟨h1, h2⟩ := hrs
      subst h2
      obtain ⟨m'', hr', hs'⟩ := jrunsTo_sim hr (clr x) (H5V.Model.HtmlTok.sim_clr h1)
      exact ⟨m'', JRunsTo.indicator hsa (by rw [sim_out h1]; exact ha) hne hr', hs'⟩
    | suspend x i => rw [hsa] at hrs; exact absurd hrs (by simp [RSim])
    | cont x i => rw [hsa] at hrs; exact absurd hrs (by simp [RSim])
    | script x i => rw [hsa] at hrs; exact absurd hrs (by simp [RSim])
    | panic e => rw [hsa] at hrs; exact absurd hrs (by simp [RSim])
  | indicatorEnd hs ha =>
    rw [hs] at hrs
    cases hsa : step o (polOf j) ma ia with
    | indicator x i =>
      rw [hsa] at hrs
      obtain ⟨h1, h2⟩ := hrs
      subst h2
      exact ⟨clr x, JRunsTo.indicatorEnd hsa (by rw [sim_out h1]; exact ha), H5V.Model.HtmlTok.sim_clr h1⟩
    | suspend x i => rw [hsa] at hrs; exact absurd hrs (by simp [RSim])
    | cont x i => rw [hsa] at hrs; exact absurd hrs (by simp [RSim])
    | script x i => rw [hsa] at hrs; exact absurd hrs (by simp [RSim])
    | panic e => rw [hsa] at hrs; exact absurd hrs (by simp [RSim])

/-! ### chunk merging -/

theorem absorb_nil (j : JState) : absorb [] j = .ok j := rfl

/-- **joint chunk merging**: fed `a`, the joint loop stops in `(m1, j1)`; then fed `b` it stops in
`(m2, j2)`; fed `a ++ b` in one piece it stops in a machine equal to `m2` up to a dead `current_char`
and in the SAME joint state `j2` -/
theorem jrunsTo_chunk {o : TOpts} {m : Mach} {a : Chars} {j : JState} {m1 : Mach} {j1 : JState}
    (hrun : JRunsTo o m a j m1 j1) :
    JInv m → ∀ (b : Chars) (m2 : Mach) (j2 : JState), b ≠ [] → JRunsTo o m1 b j1 m2 j2 →
      ∃ m2', JRunsTo o m (a ++ b) j m2' j2 ∧ Sim m2' m2 := by
  induction hrun with
  | @susp m0 inp0 j0 mx jx hs ha =>
    intro hi b m2 j2 _ hr2
    -- the suspended step delivered nothing
    have hout : mx.out = [] := (H5V.Model.HtmlTok.step_suspend_out o _ m0 inp0 mx [] hs).trans hi.out
    rw [hout] at ha
    have hj : jx = j0 := by
      have : absorb ([] : List (H5V.Model.HtmlTok.Token × Nat)).reverse j0 = .ok j0 := rfl
      rw [this] at ha; cases ha; rfl
    subst hj
    have hclr : clr mx = mx := by
      cases mx
      simp only at hout
      subst hout
      rfl
    rw [hclr] at hr2
    obtain ⟨_, hrs, _, _⟩ := H5V.Model.HtmlTok.step_resume o (polOf jx) m0 mx inp0 [] b hi.good hi.atEof hs
    exact jrunsTo_of_rsim hrs hr2
  | @cont m0 inp0 j0 mx ix jx mf jf hs ha _ ih =>
    intro hi b m2 j2 hb hr2
    have hmono := H5V.Model.HtmlTok.step_mono o (polOf j0) m0 inp0 b hi.good.eatOk hi.atEof (by rw [hs]; rfl)
    rw [hs] at hmono
    obtain ⟨m2', hr', hsim⟩ := ih (step_jinv hi (by rw [hs]; rfl)) b m2 j2 hb hr2
    exact ⟨m2', JRunsTo.cont hmono ha hr', hsim⟩
  | @script m0 inp0 j0 mx ix jx mf jf hs ha hne _ ih =>
    intro hi b m2 j2 hb hr2
    have hmono := H5V.Model.HtmlTok.step_mono o (polOf j0) m0 inp0 b hi.good.eatOk hi.atEof (by rw [hs]; rfl)
    rw [hs] at hmono
    obtain ⟨m2', hr', hsim⟩ := ih (step_jinv hi (by rw [hs]; rfl)) b m2 j2 hb hr2
    exact ⟨m2', JRunsTo.script hmono ha (by simp [hne]) hr', hsim⟩
  | @scriptEnd m0 inp0 j0 mx jx hs ha =>
    intro hi b m2 j2 hb hr2
    have hmono := H5V.Model.HtmlTok.step_mono o (polOf j0) m0 inp0 b hi.good.eatOk hi.atEof (by rw [hs]; rfl)
    rw [hs] at hmono
    exact ⟨m2, JRunsTo.script hmono ha (by simpa [R.ext] using hb) (by simpa [R.ext] using hr2), Sim.refl _⟩
  | @indicator m0 inp0 j0 mx ix jx mf jf hs ha hne _ ih =>
    intro hi b m2 j2 hb hr2
    have hmono := H5V.Model.HtmlTok.step_mono o (polOf j0) m0 inp0 b hi.good.eatOk hi.atEof (by rw [hs]; rfl)
    rw [hs] at hmono
    obtain ⟨m2', hr', hsim⟩ := ih (step_jinv hi (by rw [hs]; rfl)) b m2 j2 hb hr2
    exact ⟨m2', JRunsTo.indicator hmono ha (by simp [hne]) hr', hsim⟩
  | @indicatorEnd m0 inp0 j0 mx jx hs ha =>
    intro hi b m2 j2 hb hr2
    have hmono := H5V.Model.HtmlTok.step_mono o (polOf j0) m0 inp0 b hi.good.eatOk hi.atEof (by rw [hs]; rfl)
    rw [hs] at hmono
    exact ⟨m2, JRunsTo.indicator hmono ha (by simpa [R.ext] using hb) (by simpa [R.ext] using hr2), Sim.refl _⟩

/-! ### sessions -/

/-- the chunks are fed one after the other (an empty chunk is a no-op: `feed` returns at once) -/
inductive JSession (o : TOpts) : Mach → List Chars → JState → Mach → JState → Prop
  | nil {m j} : JSession o m [] j m j
  | skip {m cs j mf jf} : JSession o m cs j mf jf → JSession o m ([] :: cs) j mf jf
  | cons {m c cs j m1 j1 mf jf} : c ≠ [] → JRunsTo o m c j m1 j1 → JSession o m1 cs j1 mf jf →
      JSession o m (c :: cs) j mf jf

theorem jsession_flatten {o : TOpts} {m : Mach} {cs : List Chars} {j : JState} {mf : Mach} {jf : JState}
    (hs : JSession o m cs j mf jf) : JInv m →
    (cs.flatten = [] ∧ mf = m ∧ jf = j) ∨ (cs.flatten ≠ [] ∧ ∃ mf', JRunsTo o m cs.flatten j mf' jf ∧ Sim mf' mf) := by
  induction hs with
  | nil => intro _; exact Or.inl ⟨rfl, rfl, rfl⟩
  | skip _ ih => intro hi; simpa using ih hi
  | @cons m0 c cs0 j0 m1 j1 mf0 jf0 hne hr _ ih =>
    intro hi
    right
    have hfl : (c :: cs0).flatten = c ++ cs0.flatten := by simp
    rw [hfl]
    refine ⟨by simp [hne], ?_⟩
    rcases ih (jrunsTo_inv hr hi) with ⟨hnil, hmf, hjf⟩ | ⟨hne2, mf', hr', hsim⟩
    · subst hmf; subst hjf
      rw [hnil, List.append_nil]
      exact ⟨_, hr, Sim.refl _⟩
    · obtain ⟨m2', hr2, hsim2⟩ := jrunsTo_chunk hr hi cs0.flatten mf' jf0 hne2 hr'
      exact ⟨m2', hr2, H5V.Model.HtmlTok.Sim.trans hsim2 hsim⟩

/-! ### `Tokenizer::end` + `TreeBuilder::end` on machines equal up to a dead `current_char` -/

def JRunSim : RunRes → RunRes → Prop
  | .done a i j, .done b i' j' => Sim a b ∧ i = i' ∧ j = j'
  | .script a i j, .script b i' j' => Sim a b ∧ i = i' ∧ j = j'
  | .indicator a i j, .indicator b i' j' => Sim a b ∧ i = i' ∧ j = j'
  | .panic x, .panic y => x = y
  | _, _ => False

theorem jrun_sim (o : TOpts) : ∀ (fuel : Nat) (x y : Mach) (i : Chars) (j : JState), Sim x y →
    JRunSim (jrun o fuel x i j) (jrun o fuel y i j)
  | 0, _, _, _, _, _ => by rw [run_zero, run_zero]; exact rfl
  | fuel + 1, x, y, i, j, h => by
    have hs := H5V.Model.HtmlTok.step_sim o (polOf j) x y i h
    rw [run_succ, run_succ]
    cases hx : step o (polOf j) x i <;> cases hy : step o (polOf j) y i <;> rw [hx, hy] at hs <;>
      simp only [RSim] at hs
    · obtain ⟨h1, h2⟩ := hs
      subst h2
      simp only [deliver, sim_out h1]
      cases absorb _ j with
      | error e => exact rfl
      | ok j1 => exact jrun_sim o fuel _ _ _ j1 (H5V.Model.HtmlTok.sim_clr h1)
    · obtain ⟨h1, h2⟩ := hs
      subst h2
      simp only [deliver, sim_out h1]
      cases absorb _ j with
      | error e => exact rfl
      | ok j1 => exact ⟨H5V.Model.HtmlTok.sim_clr h1, rfl, rfl⟩
    · obtain ⟨h1, h2⟩ := hs
      subst h2
      simp only [deliver, sim_out h1]
      cases absorb _ j with
      | error e => exact rfl
      | ok j1 => exact ⟨H5V.Model.HtmlTok.sim_clr h1, rfl, rfl⟩
    · obtain ⟨h1, h2⟩ := hs
      subst h2
      simp only [deliver, sim_out h1]
      cases absorb _ j with
      | error e => exact rfl
      | ok j1 => exact ⟨H5V.Model.HtmlTok.sim_clr h1, rfl, rfl⟩
    · subst hs; exact rfl

/-- the tail of `Joint.finish` after the final `run` stopped with `Done` -/
def finishTail (o : TOpts) (m : Mach) (inp : Chars) (j : JState) : Except String JState :=
  if !inp.isEmpty then throw "assert@tokenizer/mod.rs: assertion failed: input.is_empty()"
  else
    match H5V.Model.HtmlTok.eofLoop o 8 m with
    | .error e => throw ("tokenizer@tokenizer: " ++ e)
    | .ok m =>
      match absorb m.out.reverse j with
      | .error e => .error e
      | .ok j =>
        match H5V.Model.HtmlTB.finishTB.run j.tb with
        | .error e => throw e
        | .ok (_, tb) => pure { j with tb := tb }

theorem finishTail_sim (o : TOpts) {a b : Mach} (h : Sim a b) (inp : Chars) (j : JState) :
    finishTail o a inp j = finishTail o b inp j := by
  rcases h with h | ⟨hd, c, hc⟩
  · rw [h]
  · subst hc
    unfold finishTail
    rw [H5V.Props.C03.eofLoop_setCC o 8 a c (H5V.Props.C03.deadCC_not_mdo hd)]
    cases H5V.Model.HtmlTok.eofLoop o 8 a with
    | error e => rfl
    | ok m => rfl

/-- `Joint.finish` for a machine without a pending character reference -/
theorem finish_none (o : TOpts) (m : Mach) (j : JState) (h : m.charRef = none) :
    H5V.Model.HtmlTB.Joint.finish o m j =
      match jrun o (fuelFor (m.setAtEof true) []) (m.setAtEof true) [] j with
      | .done m inp j => finishTail o m inp j
      | .script _ _ _ => throw "assert@tokenizer/mod.rs: matches!(self.run(&input), TokenizerResult::Done)"
      | .indicator _ _ _ => throw "assert@tokenizer/mod.rs: matches!(self.run(&input), TokenizerResult::Done)"
      | .panic e => throw e := by
  unfold H5V.Model.HtmlTB.Joint.finish
  simp only [h]
  show (match jrun o (fuelFor (m.setAtEof true) []) (m.setAtEof true) [] j with
    | .done m inp j => _ | .script _ _ _ => _ | .indicator _ _ _ => _ | .panic e => _) = _
  cases jrun o (fuelFor (m.setAtEof true) []) (m.setAtEof true) [] j with
  | done m1 i1 j1 =>
    simp only [finishTail]
    split
    · rfl
    · cases H5V.Model.HtmlTok.eofLoop o 8 m1 with
      | error e => rfl
      | ok m2 =>
        simp only
        cases absorb m2.out.reverse j1 with
        | error e => rfl
        | ok j2 =>
          show (match H5V.Model.HtmlTB.finishTB.run j2.tb with
            | .error e => throw e
            | .ok (_, tb) => pure { j2 with tb := tb } : Except String JState) =
            (match H5V.Model.HtmlTB.finishTB.run j2.tb with
            | .error e => throw e
            | .ok (_, tb) => pure { j2 with tb := tb } : Except String JState)
          cases H5V.Model.HtmlTB.finishTB.run j2.tb with
          | error e => rfl
          | ok v => rfl
  | script _ _ _ => rfl
  | indicator _ _ _ => rfl
  | panic e => rfl

/-- **`Parser::finish` on machines equal up to a dead `current_char`** gives the same joint state -/
theorem finish_sim (o : TOpts) {a b : Mach} (h : Sim a b) (j : JState) :
    H5V.Model.HtmlTB.Joint.finish o a j = H5V.Model.HtmlTB.Joint.finish o b j := by
  rcases h with h | ⟨hd, c, hc⟩
  · rw [h]
  · subst hc
    obtain ⟨hr, hcr, hk⟩ := hd
    have hcr2 : (a.setCurrentChar c).charRef = none := hcr
    rw [finish_none o a j hcr, finish_none o _ j hcr2]
    have hdead : H5V.Model.HtmlTok.deadCC (a.setAtEof true) := ⟨hr, hcr, hk⟩
    have hsim : Sim (a.setAtEof true) ((a.setCurrentChar c).setAtEof true) := Or.inr ⟨hdead, c, rfl⟩
    have hf : fuelFor ((a.setCurrentChar c).setAtEof true) [] = fuelFor (a.setAtEof true) [] := rfl
    rw [hf]
    have hrs := jrun_sim o (fuelFor (a.setAtEof true) []) _ _ [] j hsim
    generalize jrun o (fuelFor (a.setAtEof true) []) (a.setAtEof true) [] j = rx at hrs ⊢
    generalize jrun o (fuelFor (a.setAtEof true) []) ((a.setCurrentChar c).setAtEof true) [] j = ry at hrs ⊢
    cases rx <;> cases ry <;> simp only [JRunSim] at hrs <;> dsimp only
    · obtain ⟨h1, h2, h3⟩ := hrs
      subst h2; subst h3
      exact finishTail_sim o h1 _ _
    · rw [hrs]

end H5V.Lemmas.JointChunk
