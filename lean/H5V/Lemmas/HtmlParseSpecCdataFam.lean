import H5V.Model.HtmlTok
import H5V.Lemmas.HtmlParseSpecRawFam
/-!
Where the EMPTY character token of the HTML tokenizer model comes from.

The model (like html5ever) can deliver `.chars []`: `emitTempBuf` with an empty `temp_buf`, which happens for
`<![CDATA[]]>`, for U+0000 inside an empty CDATA section and for end of input inside an empty CDATA section.

* `step_notCdata`: a step from OUTSIDE the CDATA-section family of states delivers no empty character token; the
  family is only entered from `markup declaration open`, after the sink answered "CDATA allowed", and that step
  delivers nothing;
* `step_cdata`: a step from INSIDE the family delivers character tokens, U+0000 tokens and parse errors only;
* `eofLoop_cdata` / `eofLoop_notCdata`: the same for `eof_step`;
* `crEof_processCharRef_nonEmpty`: the flush of a pending character reference at the start of `Tokenizer::end`;
* `step_tmpInv`: the register invariant `TmpInv` (in `RawEndTagName` the temporary buffer is not empty) that makes
  the `emitTempBuf` of the raw end-tag-name fallback harmless.

The traversals instantiate the generic "the log grew by `P`-tokens" relation `RF.Gr` with `CF.NE` (not the empty
character token); the class `RF.PC` does not hold of `CF.NE`, so the emitting helpers get their own lemmas here.
-/
namespace H5V.Lemmas.ParseSpec
open H5V.Model.HtmlTok

/-- the CDATA-section family of states -/
def CdataFam : State → Bool
  | .cdataSection | .cdataSectionBracket | .cdataSectionEnd => true
  | _ => false

def isEmptyChars : Token → Bool
  | .chars [] => true
  | _ => false

/-- register invariant needed to know that `emitTempBuf` in the raw end-tag-name fallback is never empty:
in `.rawEndTagName _` the temporary buffer holds at least the first letter of the name -/
def TmpInv (m : Mach) : Prop := (∃ k, m.state = .rawEndTagName k) → m.tempBuf ≠ []

theorem tmpInv_fresh (st : State) (last : Option Str) (bom : Bool) (h : ∀ k, st ≠ .rawEndTagName k) :
    TmpInv { state := st, lastStartTag := last, discardBom := bom } := by
  intro ⟨k, hk⟩
  exact absurd hk (h k)

namespace CF

/-- not the empty character token -/
def NE (t : Token) : Prop := isEmptyChars t = false

theorem tmpInv_iff (m : Mach) : TmpInv m ↔ (isRawEndTagName m.state = true → m.tempBuf ≠ []) := by
  unfold TmpInv
  constructor
  · intro h hs
    apply h
    cases hst : m.state <;> rw [hst] at hs <;> first | exact ⟨_, rfl⟩ | cases hs
  · intro h ⟨k, hk⟩
    apply h
    rw [hk]; rfl

theorem tmp_of_state {y : Mach} (h : isRawEndTagName y.state = false) : TmpInv y := by
  rw [tmpInv_iff]
  intro h2
  rw [h] at h2
  cases h2

theorem tmp_of_buf {y : Mach} (h : y.tempBuf ≠ []) : TmpInv y := fun _ => h

/-! ### the emitting helpers, for `RF.Gr NE` -/

section
variable {m x : Mach}

theorem G_emitErr (h : RF.Gr NE m x) (s : String) : RF.Gr NE m (emitErr x s) := RF.Gr_emit h _ rfl
theorem G_emitErrL (h : RF.Gr NE m x) (s : Str) : RF.Gr NE m (emit x (.error s)) := RF.Gr_emit h _ rfl

theorem G_emitChar (h : RF.Gr NE m x) (c : Char) : RF.Gr NE m (emitChar x c) := by
  unfold emitChar; split
  · exact RF.Gr_emit h _ rfl
  · exact RF.Gr_emit h _ rfl

theorem NE_chars {s : Str} (hs : s ≠ []) : NE (.chars s) := by
  cases s with
  | nil => exact absurd rfl hs
  | cons c cs => rfl

theorem G_emitChars (hs : s ≠ []) (h : RF.Gr NE m x) : RF.Gr NE m (emitChars x s) := RF.Gr_emit h _ (NE_chars hs)

theorem G_emitTempBuf (ht : x.tempBuf ≠ []) (h : RF.Gr NE m x) : RF.Gr NE m (emitTempBuf x) := by
  unfold emitTempBuf
  exact G_emitChars (x := { x with tempBuf := [] }) ht h

theorem G_badChar (h : RF.Gr NE m x) (o : Opts) : RF.Gr NE m (badChar o x) := by
  unfold badChar; split
  · exact G_emitErr h _
  · exact G_emitErrL h _

theorem G_badEof (h : RF.Gr NE m x) (o : Opts) : RF.Gr NE m (badEof o x) := by
  unfold badEof; split <;> exact G_emitErr h _

theorem G_emitComment (h : RF.Gr NE m x) : RF.Gr NE m (emitComment x) := by
  unfold emitComment
  exact RF.Gr_emit (x := { x with comment := [] }) h _ rfl

theorem G_emitDoctype (h : RF.Gr NE m x) : RF.Gr NE m (emitDoctype x) := by
  unfold emitDoctype
  exact RF.Gr_emit (x := { x with doctype := {} }) h _ rfl

theorem G_finishAttribute (h : RF.Gr NE m x) : RF.Gr NE m (finishAttribute x) := by
  unfold finishAttribute
  split
  · exact h
  · dsimp only
    split
    · exact G_emitErr (x := { x with attrName := [] }) h _
    · exact h

theorem G_createAttr (h : RF.Gr NE m x) (c : Char) : RF.Gr NE m (createAttr c x) := by
  unfold createAttr
  exact G_finishAttribute h

theorem G_tagPrologue (h : RF.Gr NE m x) : RF.Gr NE m (tagPrologue x) := by
  have h1 := G_finishAttribute h
  unfold tagPrologue
  dsimp only
  generalize finishAttribute x = y at h1
  split
  · exact h1
  · split
    · split
      · exact G_emitErr (G_emitErr h1 _) _
      · exact G_emitErr h1 _
    · split
      · exact G_emitErr h1 _
      · exact h1

theorem G_applySinkRes (h : RF.Gr NE m x) (r : SinkRes) : RF.Gr NE m (applySinkRes x r).1 := by
  cases r with
  | continue_ => exact h
  | plaintext => exact h
  | rawData k => exact h
  | script => exact RF.Gr_emit (x := to .data x) h _ rfl
  | indicator => exact RF.Gr_emit h _ rfl

theorem G_emitTag (h : RF.Gr NE m x) (pol : Pol) (s : State) : RF.Gr NE m (emitTag pol s x).1 := by
  unfold emitTag emitCurrentTag
  exact G_applySinkRes (RF.Gr_emit (RF.Gr_takeTag (G_tagPrologue (RF.Gr_to h s))) (Token.tag _) rfl) _

theorem G_numericErr (h : RF.Gr NE m x) (o : Opts) (n : Nat) : RF.Gr NE m (numericErr o x n) := by
  unfold numericErr; split
  · exact G_emitErrL h _
  · exact G_emitErr h _

theorem G_nameErr (h : RF.Gr NE m x) (o : Opts) (nb : Str) : RF.Gr NE m (nameErr o x nb) := by
  unfold nameErr; split
  · exact G_emitErrL h _
  · exact G_emitErr h _

end

/-! ### states the sink can leave the tokenizer in -/

theorem sinkState_cd {s0 s : State} (h : sinkState s0 s) (h0 : CdataFam s0 = false) : CdataFam s = false := by
  rcases h with rfl | rfl | rfl | ⟨k, rfl⟩
  · exact h0
  · rfl
  · rfl
  · rfl

theorem sinkState_ret {s0 s : State} (h : sinkState s0 s) (h0 : isRawEndTagName s0 = false) :
    isRawEndTagName s = false := by
  rcases h with rfl | rfl | rfl | ⟨k, rfl⟩
  · exact h0
  · rfl
  · rfl
  · rfl

theorem emitTag_cd (pol : Pol) (x : Mach) : CdataFam (emitTag pol .data x).1.state = false :=
  sinkState_cd (emitTag_state pol .data x) rfl

theorem emitTag_ret (pol : Pol) (x : Mach) : isRawEndTagName (emitTag pol .data x).1.state = false :=
  sinkState_ret (emitTag_state pol .data x) rfl

end CF

/-- close a goal `RF.Gr CF.NE m (helper (… m))`; side goals `s ≠ []` / `x.tempBuf ≠ []` are closed from the
context -/
macro "cf_chain" h:ident : tactic =>
  `(tactic| (repeat' (first
      | exact $h
      | with_reducible apply RF.Gr_to | with_reducible apply RF.Gr_reconsumeTo | with_reducible apply RF.Gr_discardTag
      | with_reducible apply RF.Gr_createTag | with_reducible apply RF.Gr_pushTag
      | with_reducible apply RF.Gr_pushTemp | with_reducible apply RF.Gr_clearTemp | with_reducible apply RF.Gr_pushName
      | with_reducible apply RF.Gr_pushValue | with_reducible apply RF.Gr_appendValue
      | with_reducible apply RF.Gr_pushComment | with_reducible apply RF.Gr_appendComment
      | with_reducible apply RF.Gr_clearComment | with_reducible apply RF.Gr_createDoctype
      | with_reducible apply RF.Gr_pushDoctypeName | with_reducible apply RF.Gr_pushDoctypeId
      | with_reducible apply RF.Gr_clearDoctypeId | with_reducible apply RF.Gr_forceQuirks
      | with_reducible apply CF.G_emitChar
      | with_reducible apply CF.G_emitChars | with_reducible apply CF.G_badChar
      | with_reducible apply CF.G_badEof | with_reducible apply CF.G_emitTempBuf
      | with_reducible apply CF.G_emitComment | with_reducible apply CF.G_emitDoctype
      | with_reducible apply CF.G_createAttr | with_reducible apply CF.G_finishAttribute
      | with_reducible apply CF.G_tagPrologue | with_reducible apply RF.Gr_takeTag
      | with_reducible apply RF.Gr_selfClosing | with_reducible apply RF.Gr_ite
      | with_reducible apply CF.G_emitTag
      | with_reducible apply RF.Gr_consumeCharRef
      | with_reducible apply RF.Gr_setCurrentChar | with_reducible apply RF.Gr_setIgnoreLf
      | with_reducible apply RF.Gr_setReconsume | with_reducible apply RF.Gr_setCharRef
      | with_reducible apply RF.Gr_setAtEof | with_reducible apply RF.Gr_setDiscardBom
      | with_reducible apply RF.Gr_setTempBuf
      | with_reducible apply RF.Gr_bumpLine | with_reducible apply CF.G_emitErrL | with_reducible apply CF.G_emitErr
      | with_reducible apply RF.Gr_discardChar
      | assumption
      | (simp only [emitChar_tempBuf, discardTag_tempBuf]; assumption))))

namespace CF

/-! ### the tables from OUTSIDE the family -/

/-- result of a table arm from outside the family: no empty character token, not in the family, `TmpInv` -/
def OK (m y : Mach) : Prop := RF.Gr NE m y ∧ CdataFam y.state = false ∧ TmpInv y

end CF

/-- the two register facts of `CF.OK` for a table arm; `hs : m.state = _` is the case of the table -/
macro "cf_regs" hs:ident : tactic =>
  `(tactic| (refine ⟨?_, ?_⟩
             · first
               | exact CF.emitTag_cd _ _
               | (simp only [emitChar_state, emitChars_state, badChar_state, to_state, reconsumeTo_state,
                    discardTag_state, createTag_state, pushTag_state, pushTemp_state, clearTemp_state,
                    emitTempBuf_state, createAttr_state, pushName_state, pushValue_state, appendValue_state,
                    pushComment_state, appendComment_state, clearComment_state, emitComment_state,
                    createDoctype_state, pushDoctypeName_state, pushDoctypeId_state, clearDoctypeId_state,
                    forceQuirks_state, emitDoctype_state, consumeCharRef_state, emit_state, badEof_state,
                    emitErr_state, $hs:ident]
                  try rfl)
             · first
               | exact CF.tmp_of_state (CF.emitTag_ret _ _)
               | (apply CF.tmp_of_state
                  simp only [emitChar_state, emitChars_state, badChar_state, to_state, reconsumeTo_state,
                    discardTag_state, createTag_state, pushTag_state, pushTemp_state, clearTemp_state,
                    emitTempBuf_state, createAttr_state, pushName_state, pushValue_state, appendValue_state,
                    pushComment_state, appendComment_state, clearComment_state, emitComment_state,
                    createDoctype_state, pushDoctypeName_state, pushDoctypeId_state, clearDoctypeId_state,
                    forceQuirks_state, emitDoctype_state, consumeCharRef_state, emit_state, badEof_state,
                    emitErr_state, $hs:ident]
                  try rfl
                  done)
               | (apply CF.tmp_of_buf
                  first
                  | assumption
                  | simp only [to_tempBuf, pushTemp_tempBuf, ne_eq, List.append_eq_nil_iff, List.cons_ne_self,
                      and_false, not_false_eq_true, reduceCtorEq])))

namespace CF

set_option maxHeartbeats 1600000 in
/-- the `get_char!` table from outside the family -/
theorem transChar_ok (o : Opts) (pol : Pol) {m0 m : Mach} (hn : CdataFam m.state = false) (ht : TmpInv m)
    (hG : RF.Gr NE m0 m) (c : Char) : OK m0 (transChar o pol m c).1 := by
  unfold OK
  unfold transChar
  generalize hs : m.state = s at hn
  cases s <;> first | (exfalso; cases hn; done) | skip
  all_goals (try (have htb : m.tempBuf ≠ [] := ht ⟨_, hs⟩))
  all_goals (clear ht hn)
  all_goals (try (rename_i k; cases k))
  all_goals (try (rename_i k; cases k))
  all_goals (dsimp only)
  all_goals ((repeat' split) <;> (try dsimp only) <;> (refine ⟨by cf_chain hG, ?_⟩) <;> cf_regs hs)

set_option maxHeartbeats 1600000 in
/-- the `pop_except_from` table from outside the family (a run of characters is never empty) -/
theorem transSet_ok (o : Opts) (pol : Pol) {m0 m : Mach} (hn : CdataFam m.state = false) (ht : TmpInv m)
    (hG : RF.Gr NE m0 m) (r : SetRes) (hr : ∀ b, r = .notFromSet b → b ≠ []) : OK m0 (transSet o pol m r).1 := by
  unfold OK
  unfold transSet
  generalize hs : m.state = s at hn
  cases s <;> first | (exfalso; cases hn; done) | skip
  all_goals (try (have htb : m.tempBuf ≠ [] := ht ⟨_, hs⟩))
  all_goals (clear ht hn)
  all_goals (try (rename_i k; cases k))
  all_goals (try (rename_i k; cases k))
  all_goals (cases r)
  all_goals (try (have hb := hr _ rfl))
  all_goals (clear hr)
  all_goals (dsimp only)
  all_goals ((repeat' split) <;> (try dsimp only) <;> (refine ⟨by cf_chain hG, ?_⟩) <;> cf_regs hs)

/-! ### the reader and the character-reference sub-tokenizer: no empty character token, `state` and `temp_buf`
kept -/

/-- the log grows without empty character tokens; the `state` and `tempBuf` registers are unchanged -/
def K (m x : Mach) : Prop := RF.Gr NE m x ∧ x.state = m.state ∧ x.tempBuf = m.tempBuf

theorem K.refl (m : Mach) : K m m := ⟨RF.Gr.refl NE m, rfl, rfl⟩

theorem K.trans {m x y : Mach} (h1 : K m x) (h2 : K x y) : K m y :=
  ⟨h1.1.trans h2.1, h2.2.1.trans h1.2.1, h2.2.2.trans h1.2.2⟩

section
variable {m x : Mach}

theorem K_emit (h : K m x) (t : Token) (ht : NE t) : K m (emit x t) := ⟨RF.Gr_emit h.1 t ht, h.2.1, h.2.2⟩
theorem K_emitErr (h : K m x) (s : String) : K m (emitErr x s) := K_emit h _ rfl
theorem K_emitErrL (h : K m x) (s : Str) : K m (emit x (.error s)) := K_emit h _ rfl
theorem K_setIgnoreLf (h : K m x) (b : Bool) : K m (x.setIgnoreLf b) := h
theorem K_setReconsume (h : K m x) (b : Bool) : K m (x.setReconsume b) := h
theorem K_setCharRef (h : K m x) (c : Option CharRefSt) : K m (x.setCharRef c) := h
theorem K_setAtEof (h : K m x) (b : Bool) : K m (x.setAtEof b) := h
theorem K_bumpLine (h : K m x) : K m x.bumpLine := h
theorem K_setCurrentChar (h : K m x) (c : Char) : K m (x.setCurrentChar c) := h
theorem K_pushValue (h : K m x) (c : Char) : K m (pushValue c x) := h

theorem K_discardChar (h : K m x) (inp : Str) : K m (discardChar x inp).1 := by
  unfold discardChar; split <;> exact h

theorem K_numericErr (h : K m x) (o : Opts) (n : Nat) : K m (numericErr o x n) := by
  unfold numericErr; split
  · exact K_emitErrL h _
  · exact K_emitErr h _

theorem K_nameErr (h : K m x) (o : Opts) (nb : Str) : K m (nameErr o x nb) := by
  unfold nameErr; split
  · exact K_emitErrL h _
  · exact K_emitErr h _

theorem K_emitChar (h : K m x) (c : Char) : K m (emitChar x c) := by
  unfold emitChar; split
  · exact K_emit h _ rfl
  · exact K_emit h _ rfl

end

end CF

/-- the chain with the setters of the reader, for `CF.K` -/
macro "cfk_rd" h:ident : tactic =>
  `(tactic| (repeat' (first
      | exact $h
      | with_reducible apply CF.K_setCurrentChar | with_reducible apply CF.K_setIgnoreLf
      | with_reducible apply CF.K_setReconsume
      | with_reducible apply CF.K_setAtEof
      | with_reducible apply CF.K_bumpLine | with_reducible apply CF.K_emitErrL
      | with_reducible apply CF.K_emitErr
      | with_reducible apply CF.K_discardChar
      | with_reducible apply CF.K_nameErr | with_reducible apply CF.K_numericErr)))

namespace CF

section
variable {m x : Mach}

theorem foldChar_k (o : Opts) (h : K m x) (c : Char) : K m (foldChar o x c).2 := by
  unfold foldChar
  dsimp only
  split <;> split <;> split <;> cfk_rd h

theorem preprocess_k (o : Opts) (h : K m x) (c : Char) (inp : Str) : K m (preprocess o x c inp).2.1 := by
  unfold preprocess
  split
  · split
    · cases inp with
      | nil => exact h
      | cons y ys => exact foldChar_k o (K_setIgnoreLf h false) y
    · exact foldChar_k o (K_setIgnoreLf h false) c
  · exact foldChar_k o h c

theorem getChar_k (o : Opts) (h : K m x) (inp : Str) : K m (getChar o x inp).2.1 := by
  unfold getChar
  split
  · exact h
  · cases inp with
    | nil => exact h
    | cons c rest => exact preprocess_k o h c rest

theorem popExceptFrom_k (o : Opts) (S : List Char) (h : K m x) (inp : Str) : K m (popExceptFrom o S x inp).2.1 := by
  unfold popExceptFrom
  split
  · exact getChar_k o h inp
  · cases inp with
    | nil => exact h
    | cons c rest =>
      dsimp only
      split
      · exact preprocess_k o h c rest
      · exact h

theorem readData_k (o : Opts) (h : K m x) (inp : Str) : K m (readData o x inp).2.1 := by
  unfold readData
  split
  · exact popExceptFrom_k o _ h inp
  · cases inp with
    | nil => exact h
    | cons c rest =>
      dsimp only
      split
      · exact popExceptFrom_k o _ h (c :: rest)
      · split <;> exact h

/-- a run of characters returned by `pop_except_from` is one character -/
theorem popExceptFrom_run (o : Opts) (S : List Char) (x : Mach) (inp : Str) (b : Str)
    (h : (popExceptFrom o S x inp).1 = some (.notFromSet b)) : b ≠ [] := by
  unfold popExceptFrom at h
  split at h
  · dsimp only at h
    cases hg : (getChar o x inp).1 <;> rw [hg] at h <;> simp at h
  · cases inp with
    | nil => simp at h
    | cons c rest =>
      dsimp only at h
      split at h
      · dsimp only at h
        cases hg : (preprocess o x c rest).1 <;> rw [hg] at h <;> simp at h
      · simp only [Option.some.injEq, SetRes.notFromSet.injEq] at h
        rw [← h]; exact List.cons_ne_nil _ _

theorem readData_run (o : Opts) (x : Mach) (inp : Str) (b : Str)
    (h : (readData o x inp).1 = some (.notFromSet b)) : b ≠ [] := by
  unfold readData at h
  split at h
  · exact popExceptFrom_run o _ x inp b h
  · cases inp with
    | nil => simp at h
    | cons c rest =>
      dsimp only at h
      split at h
      · exact popExceptFrom_run o _ x _ b h
      · simp only [Option.some.injEq, SetRes.notFromSet.injEq] at h
        rw [← h]; exact List.cons_ne_nil _ _

/-- `eat`: nothing is logged, the state is kept (the temporary buffer is the look-ahead stash) -/
def KS (m x : Mach) : Prop := RF.Gr NE m x ∧ x.state = m.state

theorem K.ks (h : K m x) : KS m x := ⟨h.1, h.2.1⟩

theorem eatSkipLf_ks (h : KS m x) (inp : Str) : KS m (eatSkipLf x inp).1 := by
  unfold eatSkipLf discardChar
  repeat' split
  all_goals exact h

theorem eat_ks (h : KS m x) (inp pat : Str) (eq : Char → Char → Bool) : KS m (eat x inp pat eq).2.1 := by
  rw [eat_eq_core]
  have hs := eatSkipLf_ks h inp
  generalize (eatSkipLf x inp).2 = i1
  generalize (eatSkipLf x inp).1 = m1 at hs
  unfold eatCore
  split
  · exact hs
  · exact hs
  · split <;> exact hs

theorem eat_out' (x : Mach) (inp pat : Str) (eq : Char → Char → Bool) : (eat x inp pat eq).2.1.out = x.out :=
  eat_out x _ inp _ pat eq _ rfl

/-! #### character references -/

/-- a char-ref step result -/
def CRK (m : Mach) : CRRes → Prop
  | .ok v => K m v.1
  | .error _ => True

theorem finishNumericStatus_k (o : Opts) (hk : K m x) (cr : CharRefSt) (inp : Str) :
    CRK m (finishNumericStatus o x inp cr) := by
  unfold finishNumericStatus finishNumeric
  dsimp only
  generalize numericValue cr = v
  obtain ⟨v1, v2⟩ := v
  cases v1 with
  | error e => trivial
  | ok c =>
    cases v2
    · exact hk
    · exact K_numericErr hk _ _

theorem namedDecision_k (hk : K m x) (cr : CharRefSt) (nb : Str) (c1 c2 : Nat) (m1 : Mach) (chars : Str)
    (h : namedDecision x cr nb c1 c2 = .ok (some (m1, chars))) : K m m1 := by
  unfold namedDecision at h
  dsimp only at h
  repeat' split at h
  all_goals
    first
      | (simp at h; done)
      | (simp only [Except.ok.injEq, Option.some.injEq, Prod.mk.injEq] at h
         obtain ⟨h1, _⟩ := h
         subst h1
         cfk_rd hk)

theorem finishNamed_k (o : Opts) (hk : K m x) (cr : CharRefSt) (inp : Str) (e : Option Char) :
    CRK m (finishNamed o x inp cr e) := by
  unfold finishNamed
  split
  · trivial
  · split
    · dsimp only
      (repeat' split) <;> (show K m _) <;> cfk_rd hk
    · split
      · trivial
      · exact hk
      · rename_i m1 chars hnd
        exact namedDecision_k hk _ _ _ _ _ _ hnd

theorem crStep_k (o : Opts) (m : Mach) (inp : Str) (cr : CharRefSt) : CRK m (crStep o m inp cr) := by
  have hk := K.refl m
  unfold crStep unconsumeNumeric
  dsimp only
  split
  · exact hk
  · split <;> (repeat' split) <;>
      first
      | trivial
      | exact finishNumericStatus_k o (K_discardChar hk _) _ _
      | exact finishNumericStatus_k o (K_emitErr hk _) _ _
      | exact finishNamed_k o (K_discardChar hk _) _ _ _
      | ((show K m _); cfk_rd hk)

theorem foldl_emitChar_k (cs : Str) : ∀ {x : Mach}, K m x → K m (cs.foldl emitChar x) := by
  induction cs with
  | nil => intro x h; exact h
  | cons c cs ih => intro x h; exact ih (K_emitChar h c)

theorem foldl_pushValue_k (cs : Str) : ∀ {x : Mach}, K m x → K m (cs.foldl (fun m c => pushValue c m) x) := by
  induction cs with
  | nil => intro x h; exact h
  | cons c cs ih => intro x h; exact ih (K_pushValue h c)

theorem processCharRef_k (h : K m x) (chars : Str) : K m (processCharRef x chars).1 := by
  unfold processCharRef
  dsimp only
  split
  · exact foldl_emitChar_k _ h
  · exact foldl_emitChar_k _ h
  · exact foldl_pushValue_k _ h
  · exact h

theorem crEofOnceE_k (o : Opts) (hk : K m x) (cr : CharRefSt) (inp : Str) : CRK m (crEofOnceE o x inp cr) := by
  unfold crEofOnceE unconsumeNumeric
  split <;> (repeat' split) <;>
    first
    | trivial
    | exact finishNumericStatus_k o (K_emitErr hk _) _ _
    | exact finishNamed_k o hk _ _ _
    | ((show K m _); cfk_rd hk)

/-- result of the char-ref tokenizer's `end_of_file` -/
def CEK (m : Mach) : Except String (Mach × Str × Str) → Prop
  | .ok v => K m v.1
  | .error _ => True

theorem crEofLast_k {r : CRRes} (h : CRK m r) : CEK m (crEofLast r) := by
  cases r with
  | error e => trivial
  | ok v =>
    obtain ⟨m1, i1, c1, s1⟩ := v
    cases s1 <;> exact h

theorem crEofDrive_k (o : Opts) {r : CRRes} (h : CRK m r) : CEK m (crEofDrive o r) := by
  cases r with
  | error e => trivial
  | ok v =>
    obtain ⟨m1, i1, c1, s1⟩ := v
    cases s1 with
    | done chars => exact h
    | stuck => exact h
    | progress => exact crEofLast_k (crEofOnceE_k o h _ _)

theorem crEof_k (o : Opts) (m : Mach) (inp : Str) (cr : CharRefSt) : CEK m (crEof o m inp cr) := by
  rw [crEof_eqE]
  exact crEofDrive_k o (crEofOnceE_k o (K.refl m) _ inp)

end

/-! ### (1), (2): a step from OUTSIDE the family -/

/-- `eat`: nothing is logged, the state is kept (the temporary buffer is the look-ahead stash) -/
def KE (m x : Mach) : Prop := x.out = m.out ∧ x.state = m.state

theorem KE.refl (m : Mach) : KE m m := ⟨rfl, rfl⟩

theorem KE.gr {m x : Mach} (h : KE m x) : RF.Gr NE m x := ⟨[], by rw [h.1]; rfl, fun _ hp => by cases hp⟩

theorem eat_ke {m x : Mach} (h : KE m x) (inp pat : Str) (eq : Char → Char → Bool) : KE m (eat x inp pat eq).2.1 :=
  ⟨(eat_out' x inp pat eq).trans h.1, (eat_ks (m := x) ⟨RF.Gr.refl NE x, rfl⟩ inp pat eq).2.trans h.2⟩

theorem TmpInv_k {m x : Mach} (h : K m x) (ht : TmpInv m) : TmpInv x := by
  intro ⟨k, hk⟩
  rw [h.2.2]
  exact ht ⟨k, by rw [← h.2.1]; exact hk⟩

theorem OK_k {m x : Mach} (hn : CdataFam m.state = false) (ht : TmpInv m) (h : K m x) : OK m x :=
  ⟨h.1, by rw [h.2.1]; exact hn, TmpInv_k h ht⟩

theorem OK_st {m x : Mach} (hg : RF.Gr NE m x) (h1 : CdataFam x.state = false) (h2 : isRawEndTagName x.state = false) :
    OK m x := ⟨hg, h1, tmp_of_state h2⟩

theorem OK_to {m x : Mach} (hg : RF.Gr NE m x) (s : State) (h1 : CdataFam s = false)
    (h2 : isRawEndTagName s = false) : OK m (to s x) := OK_st (RF.Gr_to hg s) h1 h2

theorem OK_emitTag {m x : Mach} (hg : RF.Gr NE m x) (pol : Pol) : OK m (emitTag pol .data x).1 :=
  OK_st (G_emitTag hg pol .data) (emitTag_cd pol x) (emitTag_ret pol x)

/-- what (1) and (2) say of the machine `y` a step from `m` leads to -/
def Res (pol : Pol) (m y : Mach) : Prop :=
  (∃ new, y.out = new ++ m.out ∧ (∀ p ∈ new, isEmptyChars p.1 = false) ∧
    (CdataFam y.state = true → pol.cdataOk m.out = true ∧ new = [])) ∧ TmpInv y

theorem Res_ok {pol : Pol} {m y : Mach} (h : OK m y) : Res pol m y := by
  obtain ⟨⟨n, e, p⟩, hc, ht⟩ := h
  refine ⟨⟨n, e, p, fun hc2 => ?_⟩, ht⟩
  rw [hc] at hc2
  cases hc2

/-- a step result from outside the family -/
def RRes (pol : Pol) (m : Mach) (r : R) : Prop := ∀ m1 i1, r.pair? = some (m1, i1) → Res pol m m1

theorem RRes_cont {pol : Pol} {m x : Mach} (h : Res pol m x) (i : Str) : RRes pol m (.cont x i) := by
  intro m1 i1 e
  simp only [R.pair?, Option.some.injEq, Prod.mk.injEq] at e
  obtain ⟨rfl, rfl⟩ := e
  exact h

theorem RRes_suspend {pol : Pol} {m x : Mach} (h : Res pol m x) (i : Str) : RRes pol m (.suspend x i) := by
  intro m1 i1 e
  simp only [R.pair?, Option.some.injEq, Prod.mk.injEq] at e
  obtain ⟨rfl, rfl⟩ := e
  exact h

theorem RRes_panic {pol : Pol} {m : Mach} (s : String) : RRes pol m (.panic s) := by
  intro m1 i1 e
  simp [R.pair?] at e

theorem RRes_ofSig {pol : Pol} {m : Mach} {y : Mach × Sig} (h : Res pol m y.1) (i : Str) : RRes pol m (ofSig y i) := by
  intro m1 i1 e
  obtain ⟨e1, _⟩ := ofSig_pair _ _ _ _ e
  subst e1
  exact h

theorem contChar_res (o : Opts) (pol : Pol) {m0 : Mach} (hn : CdataFam m0.state = false)
    (r : Option Char × Mach × Str) (hg : RF.Gr NE m0 r.2.1) (hst : r.2.1.state = m0.state) (ht : TmpInv r.2.1) :
    RRes pol m0 (contChar o pol r) := by
  obtain ⟨c, m1, i1⟩ := r
  have hn1 : CdataFam m1.state = false := by rw [hst]; exact hn
  cases c with
  | none => exact RRes_suspend (Res_ok ⟨hg, hn1, ht⟩) _
  | some c => exact RRes_ofSig (Res_ok (transChar_ok o pol hn1 ht hg c)) i1

theorem contSet_res (o : Opts) (pol : Pol) {m0 : Mach} (hn : CdataFam m0.state = false) (ht : TmpInv m0)
    (r : Option SetRes × Mach × Str) (hk : K m0 r.2.1) (hrun : ∀ b, r.1 = some (.notFromSet b) → b ≠ []) :
    RRes pol m0 (contSet o pol r) := by
  obtain ⟨c, m1, i1⟩ := r
  have hn1 : CdataFam m1.state = false := by rw [hk.2.1]; exact hn
  cases c with
  | none => exact RRes_suspend (Res_ok (OK_k hn ht hk)) _
  | some c =>
    refine RRes_ofSig (Res_ok (transSet_ok o pol hn1 (TmpInv_k hk ht) hk.1 c ?_)) i1
    intro b hb
    exact hrun b (by rw [hb])

theorem stepCharRef_res (o : Opts) (pol : Pol) {m : Mach} (hn : CdataFam m.state = false) (ht : TmpInv m)
    (inp : Str) (cr : CharRefSt) : RRes pol m (stepCharRef o m inp cr) := by
  unfold stepCharRef
  have h1 := crStep_k o m inp cr
  generalize crStep o m inp cr = r at h1
  cases r with
  | error e => exact RRes_panic _
  | ok v =>
    obtain ⟨m1, i1, c1, s1⟩ := v
    cases s1 with
    | stuck => exact RRes_suspend (Res_ok (OK_k hn ht (K_setCharRef h1 _))) _
    | progress => exact RRes_cont (Res_ok (OK_k hn ht (K_setCharRef h1 _))) _
    | done chars =>
      dsimp only
      exact RRes_ofSig (y := ((processCharRef m1 chars).1.setCharRef none, _))
        (Res_ok (OK_k hn ht (K_setCharRef (processCharRef_k h1 chars) none))) i1

theorem stepBav_res (o : Opts) (pol : Pol) {m : Mach} (hs : m.state = .beforeAttributeValue) (inp : Str) :
    RRes pol m (stepBav o pol m inp) := by
  have hn : CdataFam m.state = false := by rw [hs]; rfl
  have ht : TmpInv m := tmp_of_state (by rw [hs]; rfl)
  have h := K.refl m
  unfold stepBav
  cases peek m inp with
  | none => exact RRes_suspend (Res_ok (OK_k hn ht h)) _
  | some c =>
    dsimp only
    have hm : K m (if m.ignoreLf = true then m.setIgnoreLf false else m) := by
      split <;> exact h
    generalize (if m.ignoreLf = true then m.setIgnoreLf false else m) = m' at hm
    have hd := K_discardChar hm inp
    split
    · exact RRes_cont (Res_ok (OK_k hn ht hd)) _
    · split
      · have hg := getChar_k o hm inp
        generalize getChar o m' inp = r at hg
        obtain ⟨c1, m1, i1⟩ := r
        cases c1
        · exact RRes_suspend (Res_ok (OK_k hn ht hg)) _
        · exact RRes_cont (Res_ok (OK_k hn ht hg)) _
      · repeat' split
        all_goals
          first
          | exact RRes_cont (Res_ok (OK_k hn ht hd)) _
          | exact RRes_cont (Res_ok (OK_to hd.1 _ rfl rfl)) _
          | exact RRes_cont (Res_ok (OK_to hm.1 _ rfl rfl)) _
          | exact RRes_ofSig (Res_ok (OK_emitTag (G_badChar hd.1 o) pol)) _

theorem OK_ke {m x : Mach} (hn : CdataFam m.state = false) (hr : isRawEndTagName m.state = false) (h : KE m x) :
    OK m x := OK_st h.gr (by rw [h.2]; exact hn) (by rw [h.2]; exact hr)

theorem stepMdo_res (o : Opts) (pol : Pol) {m : Mach} (hs : m.state = .markupDeclarationOpen) (inp : Str) :
    RRes pol m (stepMdo o pol m inp) := by
  have hn : CdataFam m.state = false := by rw [hs]; rfl
  have hr : isRawEndTagName m.state = false := by rw [hs]; rfl
  have h := KE.refl m
  unfold stepMdo
  have e1 := eat_ke h inp kwDashDash eqExact
  generalize eat m inp kwDashDash eqExact = r1 at e1
  obtain ⟨x1, m1, i1⟩ := r1
  cases x1 with
  | none => exact RRes_suspend (Res_ok (OK_ke hn hr e1)) _
  | some t1 =>
    cases t1 with
    | true => exact RRes_cont (Res_ok (OK_to (RF.Gr_clearComment e1.gr) _ rfl rfl)) _
    | false =>
      dsimp only
      have e2 := eat_ke e1 i1 kwDoctype eqCi
      generalize eat m1 i1 kwDoctype eqCi = r2 at e2
      obtain ⟨x2, m2, i2⟩ := r2
      cases x2 with
      | none => exact RRes_suspend (Res_ok (OK_ke hn hr e2)) _
      | some t2 =>
        cases t2 with
        | true => exact RRes_cont (Res_ok (OK_to e2.gr _ rfl rfl)) _
        | false =>
          dsimp only
          split
          · rename_i hcd
            have e3 := eat_ke e2 i2 kwCdata eqExact
            generalize eat m2 i2 kwCdata eqExact = r3 at e3
            obtain ⟨x3, m3, i3⟩ := r3
            cases x3 with
            | none => exact RRes_suspend (Res_ok (OK_ke hn hr e3)) _
            | some t3 =>
              cases t3 with
              | true =>
                -- the family is entered: the sink allowed CDATA, nothing was delivered
                refine RRes_cont ⟨⟨[], ?_, (fun _ hp => by cases hp), fun _ => ⟨?_, rfl⟩⟩, tmp_of_state rfl⟩ _
                · show m3.out = [] ++ m.out
                  rw [e3.1]; rfl
                · have e2o : m2.out = m.out := e2.1
                  rw [← e2o]; exact hcd
              | false => exact RRes_cont (Res_ok (OK_to (RF.Gr_clearComment (G_badChar e3.gr o)) _ rfl rfl)) _
          · exact RRes_cont (Res_ok (OK_to (RF.Gr_clearComment (G_badChar e2.gr o)) _ rfl rfl)) _

theorem stepAdn_res (o : Opts) (pol : Pol) {m : Mach} (hs : m.state = .afterDoctypeName) (inp : Str) :
    RRes pol m (stepAdn o pol m inp) := by
  have hn : CdataFam m.state = false := by rw [hs]; rfl
  have hr : isRawEndTagName m.state = false := by rw [hs]; rfl
  have h := KE.refl m
  unfold stepAdn
  have e1 := eat_ke h inp kwPublic eqCi
  generalize eat m inp kwPublic eqCi = r1 at e1
  obtain ⟨x1, m1, i1⟩ := r1
  cases x1 with
  | none => exact RRes_suspend (Res_ok (OK_ke hn hr e1)) _
  | some t1 =>
    cases t1 with
    | true => exact RRes_cont (Res_ok (OK_to e1.gr _ rfl rfl)) _
    | false =>
      dsimp only
      have e2 := eat_ke e1 i1 kwSystem eqCi
      generalize eat m1 i1 kwSystem eqCi = r2 at e2
      obtain ⟨x2, m2, i2⟩ := r2
      cases x2 with
      | none => exact RRes_suspend (Res_ok (OK_ke hn hr e2)) _
      | some t2 =>
        cases t2 with
        | true => exact RRes_cont (Res_ok (OK_to e2.gr _ rfl rfl)) _
        | false =>
          dsimp only
          have hg := getChar_k o (K.refl m2) i2
          have hst : (getChar o m2 i2).2.1.state = m.state := hg.2.1.trans e2.2
          exact contChar_res o pol hn (getChar o m2 i2) (e2.gr.trans hg.1) hst
            (tmp_of_state (by rw [hst]; exact hr))

theorem readKind_fam {s : State} (h : CdataFam s = true) : readKind s = .getChar := by
  cases s <;> first | rfl | cases h

/-- (1) + (2) -/
theorem step_res (o : Opts) (pol : Pol) {m : Mach} (hn : CdataFam m.state = false) (ht : TmpInv m) (inp : Str) :
    RRes pol m (step o pol m inp) := by
  cases hcr : m.charRef with
  | some cr =>
    rw [step_kind_charRef o pol m inp cr hcr]
    exact stepCharRef_res o pol hn ht inp cr
  | none =>
    cases hrk : readKind m.state with
    | getChar =>
      rw [step_getChar o pol m inp hcr hrk]
      have hg := getChar_k o (K.refl m) inp
      exact contChar_res o pol hn _ hg.1 hg.2.1 (TmpInv_k hg ht)
    | popExcept =>
      rw [step_popExcept o pol m inp hcr hrk]
      exact contSet_res o pol hn ht _ (popExceptFrom_k o _ (K.refl m) inp) (popExceptFrom_run o _ m inp)
    | dataSimd =>
      rw [step_dataSimd o pol m inp hcr hrk]
      exact contSet_res o pol hn ht _ (readData_k o (K.refl m) inp) (readData_run o m inp)
    | peekBav =>
      rw [step_kind_bav o pol m inp hcr hrk]
      exact stepBav_res o pol (RF.readKind_bav hrk) inp
    | eatMdo =>
      rw [step_kind_mdo o pol m inp hcr hrk]
      exact stepMdo_res o pol (readKind_mdo hrk) inp
    | eatAdn =>
      rw [step_kind_adn o pol m inp hcr hrk]
      exact stepAdn_res o pol (readKind_adn hrk) inp

/-! ### (3): a step from INSIDE the family -/

/-- result of a step from inside the family: character tokens, U+0000 tokens, parse errors; not in
`RawEndTagName` -/
def IN (m y : Mach) : Prop := RF.Gr RF.CEN m y ∧ isRawEndTagName y.state = false

theorem transChar_in (o : Opts) (pol : Pol) {m0 m : Mach} (hc : CdataFam m.state = true) (hG : RF.Gr RF.CEN m0 m)
    (c : Char) : IN m0 (transChar o pol m c).1 := by
  unfold IN
  unfold transChar
  generalize hs : m.state = s at hc
  cases s <;> first | (exfalso; cases hc; done) | skip
  all_goals (dsimp only)
  all_goals ((repeat' split) <;> (refine ⟨by rfg_chain hG, ?_⟩) <;>
    (simp only [emitChar_state, to_state, reconsumeTo_state, pushTemp_state, emitTempBuf_state, hs]
     try rfl))

def RIn (m : Mach) (r : R) : Prop := ∀ m1 i1, r.pair? = some (m1, i1) → IN m m1

theorem fam_ret {s : State} (h : CdataFam s = true) : isRawEndTagName s = false := by
  cases s <;> first | rfl | cases h

theorem step_in (o : Opts) (pol : Pol) {m : Mach} (hc : CdataFam m.state = true) (inp : Str) :
    RIn m (step o pol m inp) := by
  intro m1 i1 hs
  cases hcr : m.charRef with
  | some cr =>
    rw [step_kind_charRef o pol m inp cr hcr] at hs
    unfold stepCharRef at hs
    have h1 := RF.crStep_crk (P := RF.CEN) o m inp cr
    generalize crStep o m inp cr = r at h1 hs
    cases r with
    | error e => simp [R.pair?] at hs
    | ok v =>
      obtain ⟨m2, i2, c2, s2⟩ := v
      obtain ⟨hk, _⟩ := h1
      cases s2 with
      | stuck =>
        simp only [R.pair?, Option.some.injEq, Prod.mk.injEq] at hs
        obtain ⟨rfl, _⟩ := hs
        exact ⟨RF.Gr_setCharRef hk.1 _, by show isRawEndTagName m2.state = false; rw [hk.2.1]; exact fam_ret hc⟩
      | progress =>
        simp only [R.pair?, Option.some.injEq, Prod.mk.injEq] at hs
        obtain ⟨rfl, _⟩ := hs
        exact ⟨RF.Gr_setCharRef hk.1 _, by show isRawEndTagName m2.state = false; rw [hk.2.1]; exact fam_ret hc⟩
      | done chars =>
        dsimp only at hs
        obtain ⟨e1, _⟩ := ofSig_pair _ _ _ _ hs
        subst e1
        have hp := RF.processCharRef_keep hk chars
        exact ⟨RF.Gr_setCharRef hp.1 none, by
          show isRawEndTagName (processCharRef m2 chars).1.state = false
          rw [hp.2.1]; exact fam_ret hc⟩
  | none =>
    rw [step_getChar o pol m inp hcr (readKind_fam hc)] at hs
    have hg := RF.getChar_keep (P := RF.CEN) o (RF.Keep.refl RF.CEN m) inp
    generalize getChar o m inp = r at hg hs
    obtain ⟨c, m2, i2⟩ := r
    cases c with
    | none =>
      simp only [contChar, R.pair?, Option.some.injEq, Prod.mk.injEq] at hs
      obtain ⟨rfl, _⟩ := hs
      exact ⟨hg.1, by rw [hg.2.1]; exact fam_ret hc⟩
    | some c =>
      simp only [contChar] at hs
      obtain ⟨e1, _⟩ := ofSig_pair _ _ _ _ hs
      subst e1
      exact transChar_in o pol (by rw [hg.2.1]; exact hc) hg.1 c

/-! ### (4): `eof_step` -/

/-- character tokens, parse errors, the end-of-file token -/
def CEE4 (t : Token) : Prop := (∃ x, t = .chars x) ∨ (∃ e, t = .error e) ∨ t = .eof

instance : RF.PC CEE4 := ⟨fun s => Or.inr (Or.inl ⟨s, rfl⟩), fun s => Or.inl ⟨s, rfl⟩⟩
instance : RF.PE CEE4 := ⟨Or.inr (Or.inr rfl)⟩

/-- the states `eof_step` runs through when started in the family -/
def eofCd (s : State) : Bool := CdataFam s || s == .data

theorem transEof_cd (o : Opts) {m0 m : Mach} (hf : eofCd m.state = true) (hg : RF.Gr CEE4 m0 m) :
    RF.Gr CEE4 m0 (transEof o m).1 ∧ ((transEof o m).2 = .cont → eofCd (transEof o m).1.state = true) := by
  unfold transEof
  generalize hs : m.state = s at hf ⊢
  cases s <;> first | (exfalso; simp [eofCd, CdataFam] at hf; done) | skip
  all_goals (dsimp only)
  all_goals
    first
    | exact ⟨RF.Gr_emit hg _ RF.PE.eof, fun e => nomatch e⟩
    | exact ⟨by rfg_chain hg, fun _ => rfl⟩

theorem eofLoop_cd (o : Opts) :
    ∀ (n : Nat) {m0 m : Mach}, eofCd m.state = true → RF.Gr CEE4 m0 m → ∀ mf, eofLoop o n m = .ok mf →
      RF.Gr CEE4 m0 mf := by
  intro n
  induction n with
  | zero => intro m0 m _ _ mf e; cases e
  | succ n ih =>
    intro m0 m hf h mf e
    unfold eofLoop at e
    have ht := transEof_cd o hf h
    generalize transEof o m = r at ht e
    obtain ⟨m1, s1⟩ := r
    cases s1 with
    | cont => exact ih (ht.2 rfl) ht.1 mf e
    | done =>
      simp only [Except.ok.injEq] at e
      subst e
      exact ht.1
    | panic x => cases e

set_option maxHeartbeats 1600000 in
/-- the `eof_step` table from outside the family -/
theorem transEof_ok (o : Opts) {m0 m : Mach} (hn : CdataFam m.state = false) (ht : TmpInv m) (hG : RF.Gr NE m0 m) :
    OK m0 (transEof o m).1 := by
  unfold OK
  unfold transEof
  generalize hs : m.state = s at hn
  cases s <;> first | (exfalso; cases hn; done) | skip
  all_goals (try (have htb : m.tempBuf ≠ [] := ht ⟨_, hs⟩))
  all_goals (clear ht hn)
  all_goals (try (rename_i k; cases k))
  all_goals (try (rename_i k; cases k))
  all_goals (dsimp only)
  all_goals (refine ⟨(by first | exact RF.Gr_emit hG _ rfl | cf_chain hG), ?_⟩)
  all_goals (cf_regs hs)

theorem eofLoop_ok (o : Opts) :
    ∀ (n : Nat) {m0 m : Mach}, CdataFam m.state = false → TmpInv m → RF.Gr NE m0 m → ∀ mf, eofLoop o n m = .ok mf →
      RF.Gr NE m0 mf := by
  intro n
  induction n with
  | zero => intro m0 m _ _ _ mf e; cases e
  | succ n ih =>
    intro m0 m hn htm h mf e
    unfold eofLoop at e
    have ht := transEof_ok o hn htm h
    generalize transEof o m = r at ht e
    obtain ⟨m1, s1⟩ := r
    cases s1 with
    | cont => exact ih ht.2.1 ht.2.2 ht.1 mf e
    | done =>
      simp only [Except.ok.injEq] at e
      subst e
      exact ht.1
    | panic x => cases e

end CF

/-! ### the theorems -/

/-- (1) every step preserves `TmpInv` -/
theorem step_tmpInv (o : Opts) (pol : Pol) (m : Mach) (inp : Str) (h : TmpInv m) (m1 : Mach) (i1 : Str)
    (hs : (step o pol m inp).pair? = some (m1, i1)) : TmpInv m1 := by
  cases hc : CdataFam m.state with
  | false => exact (CF.step_res o pol hc h inp m1 i1 hs).2
  | true => exact CF.tmp_of_state (CF.step_in o pol hc inp m1 i1 hs).2

/-- (2) a step from OUTSIDE the CDATA family delivers no empty character token; if it ENTERS the family, the sink
allowed CDATA at the current history and the step delivered nothing -/
theorem step_notCdata (o : Opts) (pol : Pol) (m : Mach) (inp : Str) (hn : CdataFam m.state = false) (ht : TmpInv m)
    (m1 : Mach) (i1 : Str) (hs : (step o pol m inp).pair? = some (m1, i1)) :
    ∃ new, m1.out = new ++ m.out ∧ (∀ p ∈ new, isEmptyChars p.1 = false) ∧
      (CdataFam m1.state = true → pol.cdataOk m.out = true ∧ new = []) :=
  (CF.step_res o pol hn ht inp m1 i1 hs).1

/-- (3) a step from INSIDE the family delivers only character tokens (possibly empty), U+0000 tokens and parse
errors -/
theorem step_cdata (o : Opts) (pol : Pol) (m : Mach) (inp : Str) (hc : CdataFam m.state = true)
    (m1 : Mach) (i1 : Str) (hs : (step o pol m inp).pair? = some (m1, i1)) :
    ∃ new, m1.out = new ++ m.out ∧ ∀ p ∈ new, (∃ x, p.1 = .chars x) ∨ p.1 = .nullChar ∨ (∃ e, p.1 = .error e) := by
  obtain ⟨n, e, p⟩ := (CF.step_in o pol hc inp m1 i1 hs).1
  refine ⟨n, e, fun q hq => ?_⟩
  rcases p q hq with h | h | h
  · exact Or.inl h
  · exact Or.inr (Or.inr h)
  · exact Or.inr (Or.inl h)

/-- a step from inside the family stays in the family or goes back to `data` … in particular not to
`RawEndTagName` -/
theorem step_cdata_state (o : Opts) (pol : Pol) (m : Mach) (inp : Str) (hc : CdataFam m.state = true)
    (m1 : Mach) (i1 : Str) (hs : (step o pol m inp).pair? = some (m1, i1)) : isRawEndTagName m1.state = false :=
  (CF.step_in o pol hc inp m1 i1 hs).2

/-- (4) `eof_step` from inside the family: only character tokens, parse errors and EOF -/
theorem eofLoop_cdata (o : Opts) (n : Nat) (m m' : Mach) (hc : CdataFam m.state = true) (he : eofLoop o n m = .ok m') :
    ∃ new, m'.out = new ++ m.out ∧ ∀ p ∈ new, (∃ x, p.1 = .chars x) ∨ (∃ e, p.1 = .error e) ∨ p.1 = .eof :=
  CF.eofLoop_cd o n (by unfold CF.eofCd; rw [hc]; rfl) (RF.Gr.refl _ m) m' he

/-- (4) `eof_step` from outside the family: no empty character token -/
theorem eofLoop_notCdata (o : Opts) (n : Nat) (m m' : Mach) (hn : CdataFam m.state = false) (ht : TmpInv m)
    (he : eofLoop o n m = .ok m') : ∃ new, m'.out = new ++ m.out ∧ ∀ p ∈ new, isEmptyChars p.1 = false :=
  CF.eofLoop_ok o n hn ht (RF.Gr.refl _ m) m' he

/-- (5) the flush of a pending character reference at the start of `Tokenizer::end` delivers no empty character
token, keeps the state, keeps the temporary buffer (hence `TmpInv`) -/
theorem crEof_processCharRef_nonEmpty (o : Opts) (m : Mach) (cr : CharRefSt) (ma : Mach) (inp chars : Str) (mb : Mach)
    (sg : Sig) (h1 : crEof o m [] cr = .ok (ma, inp, chars)) (h2 : processCharRef (ma.setCharRef none) chars = (mb, sg)) :
    ∃ new, mb.out = new ++ m.out ∧ (∀ p ∈ new, isEmptyChars p.1 = false) ∧ mb.state = m.state ∧
      mb.tempBuf = m.tempBuf := by
  have hc := CF.crEof_k o m [] cr
  rw [h1] at hc
  have hk : CF.K m ma := hc
  have hp := CF.processCharRef_k (CF.K_setCharRef hk none) chars
  rw [h2] at hp
  obtain ⟨⟨n, e, p⟩, e1, e2⟩ := hp
  exact ⟨n, e, p, e1, e2⟩

end H5V.Lemmas.ParseSpec
