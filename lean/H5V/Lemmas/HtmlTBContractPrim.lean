import H5V.Lemmas.HtmlTBContractLogic
/-!
# TreeSink contract for the HTML tree builder, part 3: primitive leaves

The sink queries (`elem_name`, `same_node`, `pop`, `parse_error`, …) whose contract is "the handle is
an element of this sink" — discharged from the handle context — and the small accessors of `mod.rs`.
-/
namespace H5V.Lemmas.TBC
open H5V.Model.HtmlTB
open H5V.Model.Dom (Id QualName Attr NodeOrText SinkOp Output ElementFlags QuirksMode Dom NodeData Node Contract)
open H5V.Lemmas.TBSafe (IsEl nm sigOf Ext apply_ext tmplName fmtNames nm_ext sigOf_ext IsEl.ext sigOf_lt)

variable {d0 : Dom}

theorem contract_elemName {d : Dom} {h : Id} (hi : IsEl d h) : Contract d (.elemName h) :=
  isElement_of_isEl hi
theorem contract_pop {d : Dom} {h : Id} (hi : IsEl d h) : Contract d (.pop h) := isElement_of_isEl hi
theorem contract_mark {d : Dom} {h : Id} (hi : IsEl d h) : Contract d (.markScriptAlreadyStarted h) :=
  isElement_of_isEl hi
theorem contract_isMathml {d : Dom} {h : Id} (hi : IsEl d h) :
    Contract d (.isMathmlAnnotationXmlIntegrationPoint h) := isElement_of_isEl hi
theorem contract_sameNode {d : Dom} {x y : Id} (hx : IsEl d x) (hy : IsEl d y) : Contract d (.sameNode x y) := by
  show (decide (x < d.size) && decide (y < d.size)) = true
  simp [lt_of_isEl hx, lt_of_isEl hy]
theorem contract_parseError {d : Dom} {m : List Char} : Contract d (.parseError m) := rfl

/-! ### sink queries -/

theorem cp_parseError {c : List Id} {msg : String} : CP d0 c (parseError msg) (fun _ => []) := by
  unfold H5V.Model.HtmlTB.parseError
  exact cp_sinkUnit_nt rfl (fun _ _ _ => contract_parseError)

macro_rules | `(tactic| cp_leaf) => `(tactic| with_reducible exact cp_parseError)

theorem cp_unexpected {c : List Id} : CP d0 c unexpected (fun _ => []) := by
  unfold H5V.Model.HtmlTB.unexpected
  cp_walk

macro_rules | `(tactic| cp_leaf) => `(tactic| with_reducible exact cp_unexpected)

theorem cp_elemName {c : List Id} {h : Id} (hh : h ∈ c) : CP d0 c (elemName h) (fun _ => []) := by
  unfold H5V.Model.HtmlTB.elemName
  refine cp_bind (cp_sink_nt rfl (fun s _ hc => contract_elemName (hc h hh))) ?_
  intro out
  cases out <;> first | exact cp_pure_nil _ | exact cp_throw (Or.inl (by decide))

macro_rules | `(tactic| cp_leaf) => `(tactic| with_reducible exact cp_elemName (by ctx_mem))

theorem cp_sameNode {c : List Id} {x y : Id} (hx : x ∈ c) (hy : y ∈ c) : CP d0 c (sameNode x y) (fun _ => []) := by
  unfold H5V.Model.HtmlTB.sameNode sinkBool
  refine cp_bind (cp_sink_nt rfl (fun s _ hc => contract_sameNode (hc x hx) (hc y hy))) ?_
  intro out
  cases out <;> first | exact cp_pure_nil _ | exact cp_throw (Or.inl (by decide))

macro_rules | `(tactic| cp_leaf) => `(tactic| with_reducible exact cp_sameNode (by ctx_mem) (by ctx_mem))

theorem cp_isMathmlIP {c : List Id} {h : Id} (hh : h ∈ c) :
    CP d0 c (sinkBool (.isMathmlAnnotationXmlIntegrationPoint h)) (fun _ => []) := by
  unfold sinkBool
  refine cp_bind (cp_sink_nt rfl (fun s _ hc => contract_isMathml (hc h hh))) ?_
  intro out
  cases out <;> first | exact cp_pure_nil _ | exact cp_throw (Or.inl (by decide))

macro_rules | `(tactic| cp_leaf) => `(tactic| with_reducible exact cp_isMathmlIP (by ctx_mem))

theorem cp_htmlElemNamedS {c : List Id} {h : Id} {name : Str} (hh : h ∈ c) :
    CP d0 c (htmlElemNamedS h name) (fun _ => []) := by
  unfold H5V.Model.HtmlTB.htmlElemNamedS
  cp_walk

macro_rules | `(tactic| cp_leaf) => `(tactic| with_reducible exact cp_htmlElemNamedS (by ctx_mem))

theorem cp_htmlElemNamed {c : List Id} {h : Id} {name : String} (hh : h ∈ c) :
    CP d0 c (htmlElemNamed h name) (fun _ => []) := cp_htmlElemNamedS hh

macro_rules | `(tactic| cp_leaf) => `(tactic| with_reducible exact cp_htmlElemNamed (by ctx_mem))

theorem cp_elemIn {c : List Id} {h : Id} {set : EName → Bool} (hh : h ∈ c) :
    CP d0 c (elemIn h set) (fun _ => []) := by
  unfold H5V.Model.HtmlTB.elemIn
  cp_walk

macro_rules | `(tactic| cp_leaf) => `(tactic| with_reducible exact cp_elemIn (by ctx_mem))

/-! ### the stack -/

theorem getLast?_mem' {l : List Id} {x : Id} (h : l.getLast? = some x) : x ∈ l := List.mem_of_getLast? h

/-- `current_node()`: the result is on the stack, hence an element -/
theorem cp_currentNode {c : List Id} : CP d0 c currentNode (fun h => [h]) := by
  unfold H5V.Model.HtmlTB.currentNode
  refine cp_getS_bind ?_
  intro s0
  cases hl : s0.openElems.getLast? with
  | none => exact cp_panicAt
  | some h =>
    refine cp_pure h ?_
    intro x hx
    rw [List.mem_singleton.mp hx]
    simp only [stH, List.mem_append]
    exact Or.inl (Or.inl (Or.inl (Or.inl (Or.inl (getLast?_mem' hl)))))

macro_rules | `(tactic| cp_leaf) => `(tactic| with_reducible exact cp_currentNode)

theorem cp_currentNodeIn {c : List Id} {set : EName → Bool} : CP d0 c (currentNodeIn set) (fun _ => []) := by
  unfold H5V.Model.HtmlTB.currentNodeIn
  cp_walk

macro_rules | `(tactic| cp_leaf) => `(tactic| with_reducible exact cp_currentNodeIn)

theorem cp_currentNodeNamedS {c : List Id} {name : Str} : CP d0 c (currentNodeNamedS name) (fun _ => []) := by
  unfold H5V.Model.HtmlTB.currentNodeNamedS
  cp_walk

macro_rules | `(tactic| cp_leaf) => `(tactic| with_reducible exact cp_currentNodeNamedS)

theorem cp_currentNodeNamed {c : List Id} {name : String} : CP d0 c (currentNodeNamed name) (fun _ => []) :=
  cp_currentNodeNamedS

macro_rules | `(tactic| cp_leaf) => `(tactic| with_reducible exact cp_currentNodeNamed)

/-- a builder-field update that only shrinks the stack / the AF list -/
theorem cp_modS_shrink {c : List Id} {f : State → State}
    (hd : ∀ s, (f s).dom = s.dom) (ht : ∀ s, (f s).traceRev = s.traceRev)
    (hdoc : ∀ s, (f s).docHandle = s.docHandle)
    (ho : ∀ s, (f s).openElems.Sublist s.openElems)
    (ha : ∀ s, ∀ e ∈ (f s).activeFormatting, e ∈ s.activeFormatting)
    (hh : ∀ s x, (f s).headElem = some x → s.headElem = some x)
    (hf : ∀ s x, (f s).formElem = some x → s.formElem = some x)
    (hc : ∀ s x, (f s).contextElem = some x → s.contextElem = some x)
    (hl : ∀ s, LateS s → LateS (f s)) : CP d0 c (H5V.Model.HtmlTB.modS f) (fun _ => []) :=
  cp_modS (fun s hcb _ =>
    ⟨hcb.of_shrink (hd s) (ht s) (hdoc s) (fun x hx => (ho s).subset hx) (ha s) (hh s) (hf s) (hc s) (hl s hcb.l),
     GrowRel.of_sublist (hd s) (ho s)⟩)

theorem lateS_of_eq {s s' : State} (h : LateS s) (h1 : s'.mode = s.mode) (h2 : s'.origMode = s.origMode)
    (h3 : s'.templateModes = s.templateModes) : LateS s' :=
  ⟨by rw [h1]; exact h.mode, by rw [h2]; exact h.orig, by rw [h3]; exact h.tm⟩

/-- the state with a shorter stack -/
theorem cb_dropStack {s : State} {l : List Id} (hcb : CB d0 s) (hl : l.Sublist s.openElems) :
    CB d0 { s with openElems := l } ∧ GrowRel s { s with openElems := l } :=
  ⟨hcb.of_shrink rfl rfl rfl (fun x hx => hl.subset hx) (fun _ h => h) (fun _ h => h) (fun _ h => h)
    (fun _ h => h) (lateS_of_eq hcb.l rfl rfl rfl), GrowRel.of_sublist rfl hl⟩

/-- `pop()`: the popped node was on the stack -/
theorem cp_pop {c : List Id} : CP d0 c pop (fun h => [h]) := by
  unfold H5V.Model.HtmlTB.pop
  refine cp_getS_bind_at ?_
  intro s0
  cases hl : s0.openElems.getLast? with
  | none => exact cp_at cp_panicAt s0
  | some h =>
    dsimp only
    have hmem : h ∈ stH s0 ++ c := by
      simp only [stH, List.mem_append]
      exact Or.inl (Or.inl (Or.inl (Or.inl (Or.inl (getLast?_mem' hl)))))
    refine cpat_set_bind (fun hcb => cb_dropStack hcb (List.dropLast_sublist _)) ?_
    refine cp_bind (R := fun _ => []) (cp_sinkUnit_nt rfl (fun s _ hc => contract_pop (hc h hmem))) ?_
    intro _
    exact cp_pure h (by intro x hx; rw [List.mem_singleton.mp hx]; simp [hmem])

macro_rules | `(tactic| cp_leaf) => `(tactic| with_reducible exact cp_pop)

/-- `open_elems.pop()` without telling the sink -/
theorem cp_popSilently {c : List Id} : CP d0 c popSilently (fun r => r.toList) := by
  unfold H5V.Model.HtmlTB.popSilently
  refine cp_getS_bind_at ?_
  intro s0
  cases hl : s0.openElems.getLast? with
  | none => exact cp_at (cp_pure none (by intro x hx; cases hx)) s0
  | some h =>
    dsimp only
    have hmem : h ∈ stH s0 ++ c := by
      simp only [stH, List.mem_append]
      exact Or.inl (Or.inl (Or.inl (Or.inl (Or.inl (getLast?_mem' hl)))))
    refine cpat_set_bind (fun hcb => cb_dropStack hcb (List.dropLast_sublist _)) ?_
    exact cp_pure (some h) (by intro x hx; simp at hx; subst hx; exact hmem)

macro_rules | `(tactic| cp_leaf) => `(tactic| with_reducible exact cp_popSilently)

theorem cp_setMode {c : List Id} {m : Mode} (hm : m ≠ .initial) : CP d0 c (setMode m) (fun _ => []) := by
  unfold H5V.Model.HtmlTB.setMode
  exact cp_modS_shrink (fun _ => rfl) (fun _ => rfl) (fun _ => rfl) (fun _ => List.Sublist.refl _)
    (fun _ _ h => h) (fun _ _ h => h) (fun _ _ h => h) (fun _ _ h => h) (fun s hl => ⟨hm, hl.orig, hl.tm⟩)

theorem cp_setFramesetOk {c : List Id} {b : Bool} : CP d0 c (setFramesetOk b) (fun _ => []) := by
  unfold H5V.Model.HtmlTB.setFramesetOk
  exact cp_modS_shrink (fun _ => rfl) (fun _ => rfl) (fun _ => rfl) (fun _ => List.Sublist.refl _)
    (fun _ _ h => h) (fun _ _ h => h) (fun _ _ h => h) (fun _ _ h => h) (fun s hl => ⟨hl.mode, hl.orig, hl.tm⟩)

macro_rules | `(tactic| cp_leaf) => `(tactic| with_reducible exact cp_setFramesetOk)

/-- a first loop over the stack: `in_html_elem_named` -/
theorem cp_anyHtmlElemNamed {c : List Id} {name : String} : ∀ (l : List Id), (∀ x ∈ l, x ∈ c) →
    CP d0 c (anyHtmlElemNamed name l) (fun _ => []) := by
  intro l
  induction l with
  | nil => intro _; unfold H5V.Model.HtmlTB.anyHtmlElemNamed; cp_walk
  | cons e rest ih =>
    intro hl
    unfold H5V.Model.HtmlTB.anyHtmlElemNamed
    have he : e ∈ c := hl e List.mem_cons_self
    have ih' := ih (fun x hx => hl x (List.mem_cons_of_mem _ hx))
    refine cp_bind (cp_htmlElemNamed he) ?_
    intro b
    refine cp_ite (fun _ => cp_pure_nil _) (fun _ => cp_ctx_mono ih' (fun x hx => List.mem_append_right _ hx))

theorem cp_inHtmlElemNamed {c : List Id} {name : String} : CP d0 c (inHtmlElemNamed name) (fun _ => []) := by
  unfold H5V.Model.HtmlTB.inHtmlElemNamed
  refine cp_getS_bind ?_
  intro s0
  exact cp_anyHtmlElemNamed _ (fun x hx => by simp only [stH, List.mem_append]; exact Or.inl (Or.inl (Or.inl (Or.inl (Or.inl hx)))))

macro_rules | `(tactic| cp_leaf) => `(tactic| with_reducible exact cp_inHtmlElemNamed)

/-- a fuel loop: `generate_implied_end_tags` -/
theorem cp_generateImpliedEndTagsLoop {c : List Id} {set : EName → Bool} : ∀ (fuel : Nat),
    CP d0 c (generateImpliedEndTagsLoop set fuel) (fun _ => []) := by
  intro fuel
  induction fuel generalizing c with
  | zero => unfold H5V.Model.HtmlTB.generateImpliedEndTagsLoop; exact cp_fuelOut
  | succ fuel ih =>
    unfold H5V.Model.HtmlTB.generateImpliedEndTagsLoop
    refine cp_getS_bind ?_
    intro s0
    cases hl : s0.openElems.getLast? with
    | none => exact cp_pure_nil _
    | some elem =>
      dsimp only
      have hmem : elem ∈ stH s0 ++ c := by
        simp only [stH, List.mem_append]
        exact Or.inl (Or.inl (Or.inl (Or.inl (Or.inl (getLast?_mem' hl)))))
      refine cp_bind (cp_elemName hmem) ?_
      intro n
      refine cp_ite (fun _ => cp_pure_nil _) (fun _ => ?_)
      refine cp_bind cp_pop ?_
      intro _
      exact ih

theorem cp_generateImpliedEndTags {c : List Id} {set : EName → Bool} :
    CP d0 c (generateImpliedEndTags set) (fun _ => []) := by
  unfold H5V.Model.HtmlTB.generateImpliedEndTags
  refine cp_getS_bind ?_
  intro s0
  exact cp_generateImpliedEndTagsLoop _

macro_rules | `(tactic| cp_leaf) => `(tactic| with_reducible exact cp_generateImpliedEndTags)

end H5V.Lemmas.TBC
