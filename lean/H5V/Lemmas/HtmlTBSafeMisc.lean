import H5V.Lemmas.HtmlTBSafeInv
/-!
# Tree-builder safety, part 8: composing steps; the remaining helpers of `mod.rs`
-/
namespace H5V.Lemmas.TBSafe
open H5V.Model.HtmlTB
open H5V.Model.Dom (Id QualName Attr NodeOrText SinkOp Output ElementFlags QuirksMode Dom NodeData Node)

variable {al : Allow}

/-! ### building `BStep`s and `Keeps` -/

theorem tcount_append (d : Dom) (l1 l2 : List Id) : tcount d (l1 ++ l2) = tcount d l1 + tcount d l2 := by
  unfold tcount; exact List.countP_append

theorem tcount_le_of_sublist {d : Dom} {l1 l2 : List Id} (h : l1.Sublist l2) : tcount d l1 ≤ tcount d l2 :=
  List.Sublist.countP_le h

theorem tcount_zero_of_not {d : Dom} {l : List Id} (h : ∀ x ∈ l, nm d x ≠ tmplName) : tcount d l = 0 := by
  unfold tcount
  rw [List.countP_eq_zero]
  intro x hx
  simpa [isTmpl] using h x hx

/-- pops: the new stack is a non-empty prefix of the old one -/
theorem BStep.of_st {s s' : State} {pre post : List Id} (hi : HInv s) (hr : Rooted s.dom s.openElems)
    (heq : s.openElems = pre ++ post) (hne : pre ≠ []) (st : St s s' pre) : BStep s s' where
  mode := st.fr.mode
  origMode := st.fr.origMode
  templateModes := st.fr.templateModes
  pendingTableText := st.fr.pendingTableText
  headElem := st.fr.headElem
  contextElem := st.fr.contextElem
  ext := st.fr.ext
  hinv := hi.of_st st (fun x hx => by rw [heq]; exact List.mem_append_left _ hx)
  rooted := by
    rw [st.openElems]
    obtain ⟨r, rest, hl, hn⟩ := hr
    cases pre with
    | nil => exact absurd rfl hne
    | cons a t =>
      rw [hl] at heq
      have : r = a := by simp at heq; exact heq.1
      subst this
      exact ⟨r, t, rfl, by rw [nm_ext st.fr.ext (hi.open_el r (by rw [hl]; exact List.mem_cons_self))]; exact hn⟩
  news := by
    rw [st.openElems]
    intro x hx; exact Or.inl (by rw [heq]; exact List.mem_append_left _ hx)
  tcnt := by
    rw [st.openElems]
    have hsub : ∀ x ∈ pre, x ∈ s.openElems := fun x hx => by rw [heq]; exact List.mem_append_left _ hx
    rw [tcount_ext st.fr.ext (hi.open_el.sub hsub), heq, tcount_append]
    omega

theorem BStep.of_same {s s' : State} (hi : HInv s) (hr : Rooted s.dom s.openElems) (st : Same s s') : BStep s s' := by
  have hne : s.openElems ≠ [] := by obtain ⟨r, rest, hl, _⟩ := hr; rw [hl]; simp
  exact BStep.of_st (post := []) hi hr (by simp) hne st

theorem BStep.of_qf {s s' : State} (hi : HInv s) (hr : Rooted s.dom s.openElems) (q : QF s s') : BStep s s' :=
  BStep.of_same hi hr q.same

theorem BStep.trans {a b c : State} (h1 : BStep a b) (h2 : BStep b c) : BStep a c where
  mode := h2.mode.trans h1.mode
  origMode := h2.origMode.trans h1.origMode
  templateModes := h2.templateModes.trans h1.templateModes
  pendingTableText := h2.pendingTableText.trans h1.pendingTableText
  headElem := h2.headElem.trans h1.headElem
  contextElem := h2.contextElem.trans h1.contextElem
  ext := h1.ext.trans h2.ext
  hinv := h2.hinv
  rooted := h2.rooted
  news := by
    intro x hx
    rcases h2.news x hx with hx1 | hn
    · rcases h1.news x hx1 with hx0 | hn
      · exact Or.inl hx0
      · exact Or.inr (by rw [nm_ext h2.ext (h1.hinv.open_el x hx1)]; exact hn)
    · exact Or.inr hn
  tcnt := Nat.le_trans h2.tcnt h1.tcnt

/-- a fresh element was created (and possibly pushed); its name is neither `template` nor `head` -/
theorem BStep.of_inserted {s s' : State} {r : Id} {ns name : Str} {pushIt : Bool} (hi : HInv s)
    (hr : Rooted s.dom s.openElems) (h : Inserted s s' r ns name pushIt) (hn : NewOk ⟨ns, name⟩) : BStep s s' where
  mode := h.fr.mode
  origMode := h.fr.origMode
  templateModes := h.fr.templateModes
  pendingTableText := h.fr.pendingTableText
  headElem := h.fr.headElem
  contextElem := h.fr.contextElem
  ext := h.fr.ext
  hinv := h.hinv hi
  rooted := by
    rw [h.openElems]
    split
    · exact hr.append_ext h.fr.ext hi.open_el
    · exact hr.ext h.fr.ext hi.open_el
  news := by
    rw [h.openElems]
    intro x hx
    split at hx
    · rcases List.mem_append.mp hx with hx | hx
      · exact Or.inl hx
      · rw [List.mem_singleton.mp hx, h.nm]; exact Or.inr hn
    · exact Or.inl hx
  tcnt := by
    rw [h.openElems]
    split
    · rw [tcount_append, tcount_ext h.fr.ext hi.open_el]
      have : tcount s'.dom [r] = 0 := tcount_zero_of_not (by
        intro x hx; rw [List.mem_singleton.mp hx, h.nm]; exact hn.1)
      omega
    · rw [tcount_ext h.fr.ext hi.open_el]; exact Nat.le_refl _

theorem BStep.of_grown {s s' : State} (hi : HInv s) (hr : Rooted s.dom s.openElems) (h : Grown s s') : BStep s s' := by
  obtain ⟨news, ho, hn⟩ := h.open_
  exact {
    mode := h.fr.mode
    origMode := h.fr.origMode
    templateModes := h.fr.templateModes
    pendingTableText := h.fr.pendingTableText
    headElem := h.fr.headElem
    contextElem := h.fr.contextElem
    ext := h.fr.ext
    hinv := h.hinv
    rooted := h.rooted hi hr
    news := by
      rw [ho]
      intro x hx
      rcases List.mem_append.mp hx with hx | hx
      · exact Or.inl hx
      · exact Or.inr (NewOk.of_fmt (hn x hx))
    tcnt := by
      rw [ho, tcount_append, tcount_ext h.fr.ext hi.open_el]
      have : tcount s'.dom news = 0 := tcount_zero_of_not (fun x hx => (NewOk.of_fmt (hn x hx)).1)
      omega }

theorem Keeps.refl {P : EName → Bool} {s s' : State} (h : s'.openElems = s.openElems) : Keeps P s s' :=
  fun x hx _ => by rw [h]; exact hx

theorem Keeps.of_grow {P : EName → Bool} {s s' : State} {news : List Id}
    (h : s'.openElems = s.openElems ++ news) : Keeps P s s' :=
  fun x hx _ => by rw [h]; exact List.mem_append_left _ hx

theorem Keeps.of_pops {P : EName → Bool} {s s' : State} {pre post : List Id} (heq : s.openElems = pre ++ post)
    (ho : s'.openElems = pre) (hp : ∀ y ∈ post, P (nm s.dom y) = false) : Keeps P s s' := by
  intro x hx hP
  rw [heq] at hx
  rcases List.mem_append.mp hx with hx | hx
  · rw [ho]; exact hx
  · rw [hp x hx] at hP; cases hP

theorem Keeps.trans {P : EName → Bool} {a b c : State} (hi : HInv a) (he : Ext a.dom b.dom)
    (h1 : Keeps P a b) (h2 : Keeps P b c) : Keeps P a c := by
  intro x hx hP
  exact h2 x (h1 x hx hP) (by rw [nm_ext he (hi.open_el x hx)]; exact hP)

theorem Keeps.of_inserted {P : EName → Bool} {s s' : State} {r : Id} {ns name : Str} {pushIt : Bool}
    (h : Inserted s s' r ns name pushIt) : Keeps P s s' := by
  intro x hx _
  rw [h.openElems]
  split
  · exact List.mem_append_left _ hx
  · exact hx

theorem Keeps.of_grown {P : EName → Bool} {s s' : State} (h : Grown s s') : Keeps P s s' := by
  obtain ⟨news, ho, _⟩ := h.open_
  exact Keeps.of_grow ho

/-- `BStep` together with "no `td`/`th` popped" -/
structure BK (s s' : State) : Prop where
  b : BStep s s'
  k : Keeps tdTh s s'

theorem BK.trans {a b c : State} (hi : HInv a) (h1 : BK a b) (h2 : BK b c) : BK a c :=
  ⟨h1.b.trans h2.b, Keeps.trans hi h1.b.ext h1.k h2.k⟩

theorem BK.of_qf {s s' : State} (hi : HInv s) (hr : Rooted s.dom s.openElems) (q : QF s s') : BK s s' :=
  ⟨BStep.of_qf hi hr q, Keeps.refl q.openElems⟩

theorem BK.of_same {s s' : State} (hi : HInv s) (hr : Rooted s.dom s.openElems) (q : Same s s') : BK s s' :=
  ⟨BStep.of_same hi hr q, Keeps.refl q.openElems⟩

theorem BK.of_inserted {s s' : State} {r : Id} {ns name : Str} {pushIt : Bool} (hi : HInv s)
    (hr : Rooted s.dom s.openElems) (h : Inserted s s' r ns name pushIt) (hn : NewOk ⟨ns, name⟩) : BK s s' :=
  ⟨BStep.of_inserted hi hr h hn, Keeps.of_inserted h⟩

theorem BK.of_grown {s s' : State} (hi : HInv s) (hr : Rooted s.dom s.openElems) (h : Grown s s') : BK s s' :=
  ⟨BStep.of_grown hi hr h, Keeps.of_grown h⟩

theorem BK.of_pops {s s' : State} {pre post : List Id} (hi : HInv s) (hr : Rooted s.dom s.openElems)
    (heq : s.openElems = pre ++ post) (hne : pre ≠ []) (st : St s s' pre)
    (hp : ∀ y ∈ post, tdTh (nm s.dom y) = false) : BK s s' :=
  ⟨BStep.of_st hi hr heq hne st, Keeps.of_pops heq st.openElems hp⟩

/-! ### small wrappers -/

theorem sat_setQuirksMode {m : QuirksMode} {s : State} : Sat (setQuirksMode m) s (fun _ s' => Same s s') := by
  unfold H5V.Model.HtmlTB.setQuirksMode
  refine sat_modS_bind ?_
  refine (sat_sinkUnit_total ⟨_, _, apply_setQuirks _ _⟩).mono ?_
  intro _ s' hq
  exact ⟨⟨hq.mode, hq.origMode, hq.templateModes, hq.pendingTableText, hq.headElem, hq.formElem,
    hq.contextElem, hq.docHandle, hq.opts, hq.ext⟩, hq.openElems, hq.activeFormatting⟩

theorem sat_toRawTextMode {k : H5V.Model.HtmlTok.RawKind} {s : State} :
    Sat (toRawTextMode k) s
      (fun r s' => r = .toRawData k ∧ s' = { s with origMode := some s.mode, mode := .text }) := by
  unfold toRawTextMode
  exact sat_modS_bind (sat_pure ⟨rfl, rfl⟩)

theorem sat_appendText {text : Str} {s : State} (hp : PlaceOk s none) :
    Sat (appendText text) s (fun r s' => r = .done ∧ QF s s') := by
  unfold appendText
  exact (sat_insertAppropriately hp).bind (fun _ s' h => sat_pure ⟨rfl, h⟩)

theorem sat_appendComment {text : Str} {s : State} (hp : PlaceOk s none) :
    Sat (appendComment text) s (fun r s' => r = .done ∧ QF s s') := by
  unfold appendComment
  refine sat_createComment.bind ?_
  intro c s1 hq1
  refine (sat_insertAppropriately (hp.of_qf hq1)).bind ?_
  intro _ s2 hq2
  exact sat_pure ⟨rfl, hq1.trans hq2⟩

theorem sat_appendCommentToDoc {text : Str} {s : State} :
    Sat (appendCommentToDoc text) s (fun r s' => r = .done ∧ QF s s') := by
  unfold appendCommentToDoc
  refine sat_createComment.bind ?_
  intro c s1 hq1
  refine sat_getS_bind ?_
  refine (sat_sinkUnit_mut (op := SinkOp.append _ _) trivial).bind ?_
  intro _ s2 hq2
  exact sat_pure ⟨rfl, hq1.trans hq2⟩

theorem sat_appendCommentToHtml {text : Str} {s : State} {r : Id} {rest : List Id} (hl : s.openElems = r :: rest) :
    Sat (appendCommentToHtml text) s (fun r s' => r = .done ∧ QF s s') := by
  unfold appendCommentToHtml
  refine (sat_htmlElemFn hl).bind ?_
  rintro t s0 ⟨-, rfl⟩
  refine sat_createComment.bind ?_
  intro c s1 hq1
  refine (sat_sinkUnit_mut (op := SinkOp.append _ _) trivial).bind ?_
  intro _ s2 hq2
  exact sat_pure ⟨rfl, hq1.trans hq2⟩

theorem sat_insertElementFor {tag : Tag} {s : State} (hp : PlaceOk s none) :
    Sat (insertElementFor tag) s (fun r s' => Inserted s s' r nsHtml tag.name true) := sat_insertElement hp

theorem sat_insertAndPopElementFor {tag : Tag} {s : State} (hp : PlaceOk s none) :
    Sat (insertAndPopElementFor tag) s (fun r s' => Inserted s s' r nsHtml tag.name false) := sat_insertElement hp

theorem sat_insertPhantom {name : String} {s : State} (hp : PlaceOk s none) :
    Sat (insertPhantom name) s (fun r s' => Inserted s s' r nsHtml name.toList true) := sat_insertElement hp

/-- `insert_foreign_element` (used for declarative shadow roots with `ns = html`) -/
theorem sat_insertForeignElement {tag : Tag} {ns : Str} {only : Bool} {s : State} (hp : PlaceOk s none) :
    Sat (insertForeignElement tag ns only) s (fun r s' => Inserted s s' r ns tag.name true) := by
  unfold insertForeignElement
  refine (sat_appropriatePlaceForInsertion hp).bind ?_
  intro loc s1 hq1
  refine sat_createElementWithFlags.bind ?_
  intro elem s2 hc
  have hfin : ∀ s3, QF s2 s3 →
      Sat (do push elem; pure elem) s3 (fun r s' => Inserted s s' r ns tag.name true) := by
    intro s3 hq3
    refine sat_push.bind ?_
    rintro _ s4 rfl
    have hq : QF s s3 := (hq1.trans hc.qf).trans hq3
    have hnm : nm s3.dom elem = ⟨ns, tag.name⟩ := by rw [nm_ext hq3.ext hc.el]; exact hc.nm
    refine sat_pure ⟨hq.fr.withOpen _, hq.activeFormatting, by simp [hq.openElems],
      fun x hx => hc.ne (hx.ext hq1.ext), hc.el.ext hq3.ext, hnm, ?_⟩
    intro hn
    rw [hnm] at hn
    have : (ns == nsHtml && isName tag.name "template") = true := by
      simp only [tmplName, EName.mk.injEq] at hn
      simp [hn.1, hn.2, isName]
    obtain ⟨q, tc, ip', hs⟩ := hc.tc this
    exact ⟨q, tc, ip', hq3.ext _ _ hs⟩
  split
  · refine sat_insertAt.bind ?_
    intro _ s3 hq3
    exact hfin s3 hq3
  · exact hfin s2 (QF.refl _)

/-! ### `generate_implied_end_tags` below a known element, `close_p_element` -/

/-- if an element `x` whose name is not in the set sits on the stack, the implied-end-tags loop
stops at or above it -/
theorem sat_generateImpliedEndTags_keep {set : EName → Bool} {s : State} {pre post : List Id} {x : Id}
    (hall : AllEl s.dom s.openElems) (heq : s.openElems = pre ++ x :: post) (hx : set (nm s.dom x) = false) :
    Sat (generateImpliedEndTags set) s (fun _ s' => ∃ post0 post1, post = post0 ++ post1 ∧
      St s s' (pre ++ x :: post0) ∧ ∀ y ∈ post1, set (nm s.dom y) = true) := by
  refine (sat_generateImpliedEndTags hall).mono ?_
  rintro _ s' ⟨pre1, post1, heq1, st, hpost1, _⟩
  rw [heq] at heq1
  rcases List.append_eq_append_iff.mp heq1 with ⟨a', h1, h2⟩ | ⟨c', h1, h2⟩
  · cases a' with
    | nil =>
      exfalso
      simp only [List.nil_append] at h2
      have := hpost1 x (by rw [← h2]; exact List.mem_cons_self)
      rw [hx] at this; cases this
    | cons a t =>
      simp only [List.cons_append, List.cons.injEq] at h2
      obtain ⟨rfl, h2⟩ := h2
      exact ⟨t, post1, h2, by rw [← h1]; exact st, hpost1⟩
  · exfalso
    have := hpost1 x (by rw [h2]; exact List.mem_append_right _ List.mem_cons_self)
    rw [hx] at this; cases this

theorem sat_closePElement {s : State} {pre post : List Id} {x : Id}
    (hall : AllEl s.dom s.openElems) (heq : s.openElems = pre ++ x :: post)
    (hx : namedP s.dom "p".toList x = true) (hpost : ∀ y ∈ post, namedP s.dom "p".toList y = false) :
    Sat closePElement s (fun _ s' => St s s' pre) := by
  unfold closePElement
  have hxs : impliedExceptP (nm s.dom x) = false := by
    unfold namedP at hx
    cases hn : nm s.dom x with
    | mk ns loc =>
      rw [hn] at hx
      simp only [Bool.and_eq_true, beq_iff_eq] at hx
      rw [hx.1, hx.2]; decide
  refine (sat_generateImpliedEndTags_keep hall heq hxs).bind ?_
  rintro _ s1 ⟨post0, post1, hp, st, _⟩
  have hsub : ∀ z ∈ pre ++ x :: post0, z ∈ s.openElems := by
    intro z hz
    rw [heq, hp]
    rcases List.mem_append.mp hz with h | h
    · exact List.mem_append_left _ h
    · rcases List.mem_cons.mp h with h | h
      · exact List.mem_append_right _ (by rw [h]; exact List.mem_cons_self)
      · exact List.mem_append_right _ (List.mem_cons_of_mem _ (List.mem_append_left _ h))
  have hall1 : AllEl s1.dom s1.openElems := by
    rw [st.openElems]; exact (hall.sub hsub).ext st.fr.ext
  have hnm : ∀ z ∈ pre ++ x :: post0, nm s1.dom z = nm s.dom z :=
    fun z hz => (hall.sub hsub).nm_eq st.fr.ext hz
  unfold expectToClose
  refine (sat_expectToCloseS hall1 st.openElems ?_ ?_).mono ?_
  · unfold namedP; rw [hnm x (by simp)]; exact hx
  · intro y hy
    unfold namedP; rw [hnm y (by simp [hy])]
    exact hpost y (by rw [hp]; exact List.mem_append_left _ hy)
  · intro _ s2 st2
    exact ⟨st.fr.trans st2.fr, st2.openElems, st2.af.trans st.af⟩

/-- `close_p_element_in_button_scope`: pops at most the topmost `p` and what is above it, none of
which is a scope boundary of the button scope -/
theorem sat_closePElementInButtonScope {s : State} (hall : AllEl s.dom s.openElems) :
    Sat closePElementInButtonScope s (fun _ s' => ∃ pre post, s.openElems = pre ++ post ∧ St s s' pre ∧
      ∀ y ∈ post, namedP s.dom "p".toList y = true ∨ buttonScope (nm s.dom y) = false) := by
  unfold closePElementInButtonScope
  refine (sat_inScopeNamed hall).bind ?_
  rintro b s1 ⟨rfl, hq1⟩
  split
  · rename_i hb
    obtain ⟨pre, x, post, hs⟩ := inScopeP_split hb
    have hall1 : AllEl s1.dom s1.openElems := by rw [hq1.openElems]; exact hall.ext hq1.ext
    have hnm : ∀ z ∈ s.openElems, nm s1.dom z = nm s.dom z := fun z hz => hall.nm_eq hq1.ext hz
    have hmem : ∀ z ∈ post, z ∈ s.openElems := fun z hz => by
      rw [hs.eq]; exact List.mem_append_right _ (List.mem_cons_of_mem _ hz)
    refine (sat_closePElement (pre := pre) (x := x) (post := post) hall1 (by rw [hq1.openElems]; exact hs.eq) ?_ ?_).mono ?_
    · unfold namedP; rw [hnm x (by rw [hs.eq]; simp)]; exact hs.px
    · intro y hy; unfold namedP; rw [hnm y (hmem y hy)]; exact (hs.above y hy).1
    · intro _ s2 st
      refine ⟨pre, x :: post, hs.eq, hq1.same.st_left st, ?_⟩
      intro y hy
      rcases List.mem_cons.mp hy with h | h
      · rw [h]; exact Or.inl hs.px
      · exact Or.inr (hs.above y h).2
  · exact sat_pure ⟨s.openElems, [], by simp, hq1.same, by simp⟩

/-! ### `reset_insertion_mode` -/

/-- what the result of `reset_insertion_mode` guarantees about the stack it was computed from -/
structure ResetOk (s : State) (m : Mode) : Prop where
  notPre : preRoot m = false
  notSpecial : m ≠ .text ∧ m ≠ .inTableText ∧ m ≠ .inHeadNoscript
  stack : ModeStack s.dom m s.openElems
  head : needsHead m = true → s.headElem.isSome = true

theorem isName_eq {n : Str} {x : String} (h : isName n x = true) : n = x.toList := by
  simpa [isName] using (beq_iff_eq.mp h).symm

theorem ename_eq {n : EName} {loc : String} (hns : (n.ns != nsHtml) = false) (hl : isName n.loc loc = true) :
    n = ⟨nsHtml, loc.toList⟩ := by
  cases n with
  | mk ns l =>
    simp only [bne_eq_false_iff_eq] at hns
    simp only at hns hl
    rw [hns, isName_eq hl]

theorem sat_resetLoop : ∀ (l : List Id) (len : Nat) (s : State), HInv s →
    (∀ x ∈ l, x ∈ s.openElems) → len = l.length →
    (∀ x ∈ s.templateModes, tmplModeOk x = true) →
    (tcount s.dom l + ctxTmpl s ≤ s.templateModes.length) →
    ((∃ x ∈ s.openElems, nm s.dom x = headName) → s.headElem.isSome = true) →
    Sat (resetLoop l len) s (fun m s' => QF s s' ∧ ResetOk s' m) := by
  intro l
  induction l with
  | nil =>
    intro len s _ _ _ _ _ _
    exact sat_pure ⟨QF.refl s, ⟨rfl, by decide, trivial, fun h => absurd h (by decide)⟩⟩
  | cons node rest ih =>
    intro len s hi hmem hlen htm htc hhead
    unfold resetLoop
    refine sat_getS_bind ?_
    dsimp only
    have hrest : ∀ (last : Bool) (nd : Id), IsEl s.dom nd → (last = false → nd = node) →
        (nm s.dom nd = tmplName → s.templateModes ≠ []) →
        Sat (do
          let n ← elemName nd
          if (n.ns != nsHtml) = true then resetLoop rest (len - 1)
            else
              if (isOneOf n.loc ["td", "th"] && !last) = true then pure Mode.inCell
              else
                if isName n.loc "tr" = true then pure Mode.inRow
                else
                  if isOneOf n.loc ["tbody", "thead", "tfoot"] = true then pure Mode.inTableBody
                  else
                    if isName n.loc "caption" = true then pure Mode.inCaption
                    else
                      if isName n.loc "colgroup" = true then pure Mode.inColumnGroup
                      else
                        if isName n.loc "table" = true then pure Mode.inTable
                        else
                          if isName n.loc "template" = true then
                            match s.templateModes.getLast? with
                            | some m => pure m
                            | none => panicAt "unwrap-none" "mod.rs:1294" "template_modes.last().unwrap()"
                          else
                            if isName n.loc "head" = true then
                              if (!last) = true then pure Mode.inHead else resetLoop rest (len - 1)
                            else
                              if isName n.loc "body" = true then pure Mode.inBody
                              else
                                if isName n.loc "frameset" = true then pure Mode.inFrameset
                                else
                                  if isName n.loc "html" = true then
                                    match s.headElem with
                                    | none => pure Mode.beforeHead
                                    | some val => pure Mode.afterHead
                                  else resetLoop rest (len - 1)) s (fun m s' => QF s s' ∧ ResetOk s' m) := by
      intro last nd hel hnl htmpl
      refine (sat_elemName hel).bind ?_
      rintro n s1 ⟨rfl, hq⟩
      have hcont : Sat (resetLoop rest (len - 1)) s1 (fun m s' => QF s s' ∧ ResetOk s' m) := by
        refine (ih (len - 1) s1 (hi.of_qf hq) ?_ ?_ ?_ ?_ ?_).mono (fun m s2 h => ⟨hq.trans h.1, h.2⟩)
        · intro x hx; rw [hq.openElems]; exact hmem x (List.mem_cons_of_mem _ hx)
        · simp [hlen]
        · rw [hq.templateModes]; exact htm
        · rw [hq.templateModes, ctxTmpl_fr hi hq.fr,
            tcount_ext hq.ext (hi.open_el.sub (fun x hx => hmem x (List.mem_cons_of_mem _ hx)))]
          have : tcount s.dom rest ≤ tcount s.dom (node :: rest) := by
            unfold tcount; rw [List.countP_cons]; omega
          omega
        · rw [hq.openElems, hq.headElem]
          rintro ⟨x, hx, hn⟩
          exact hhead ⟨x, hx, by rw [← hi.open_el.nm_eq hq.ext hx]; exact hn⟩
      have triv : ∀ (m : Mode), preRoot m = false → (m ≠ .text ∧ m ≠ .inTableText ∧ m ≠ .inHeadNoscript) →
          ModeStack s1.dom m s1.openElems → (needsHead m = true → s1.headElem.isSome = true) →
          Sat (pure m : M Mode) s1 (fun m s' => QF s s' ∧ ResetOk s' m) :=
        fun m h1 h2 h3 h4 => sat_pure ⟨hq, ⟨h1, h2, h3, h4⟩⟩
      by_cases hns : ((nm s.dom nd).ns != nsHtml) = true
      · rw [if_pos hns]; exact hcont
      rw [if_neg hns]
      have hns' : ((nm s.dom nd).ns != nsHtml) = false := by simpa using hns
      by_cases h1 : (isOneOf (nm s.dom nd).loc ["td", "th"] && !last) = true
      · rw [if_pos h1]
        simp only [Bool.and_eq_true, Bool.not_eq_true'] at h1
        have hnode := hnl h1.2
        subst hnode
        refine triv .inCell rfl (by decide) ?_ (fun h => absurd h (by decide))
        refine ⟨nd, by rw [hq.openElems]; exact hmem nd List.mem_cons_self, ?_⟩
        rw [nm_ext hq.ext hel]
        unfold tdTh htmlIn
        simp only [Bool.and_eq_true, beq_iff_eq]
        exact ⟨by simpa using hns', h1.1⟩
      rw [if_neg h1]
      by_cases h2 : isName (nm s.dom nd).loc "tr" = true
      · rw [if_pos h2]; exact triv .inRow rfl (by decide) trivial (fun h => absurd h (by decide))
      rw [if_neg h2]
      by_cases h3 : isOneOf (nm s.dom nd).loc ["tbody", "thead", "tfoot"] = true
      · rw [if_pos h3]; exact triv .inTableBody rfl (by decide) trivial (fun h => absurd h (by decide))
      rw [if_neg h3]
      by_cases h4 : isName (nm s.dom nd).loc "caption" = true
      · rw [if_pos h4]; exact triv .inCaption rfl (by decide) trivial (fun h => absurd h (by decide))
      rw [if_neg h4]
      by_cases h5 : isName (nm s.dom nd).loc "colgroup" = true
      · rw [if_pos h5]; exact triv .inColumnGroup rfl (by decide) trivial (fun h => absurd h (by decide))
      rw [if_neg h5]
      by_cases h6 : isName (nm s.dom nd).loc "table" = true
      · rw [if_pos h6]; exact triv .inTable rfl (by decide) trivial (fun h => absurd h (by decide))
      rw [if_neg h6]
      by_cases htp : isName (nm s.dom nd).loc "template" = true
      · rw [if_pos htp]
        have hne := htmpl (ename_eq hns' htp)
        cases hgl : s.templateModes.getLast? with
        | none => exact absurd (List.getLast?_eq_none_iff.mp hgl) hne
        | some m =>
          dsimp only
          have hm := htm m (List.mem_of_getLast? hgl)
          have hcases : m = .inTemplate ∨ m = .inTable ∨ m = .inColumnGroup ∨ m = .inTableBody ∨
              m = .inRow ∨ m = .inBody := by
            revert hm; cases m <;> decide
          rcases hcases with h | h | h | h | h | h <;> subst h <;>
            exact triv _ rfl (by decide) trivial (fun h => absurd h (by decide))
      rw [if_neg htp]
      by_cases hhd : isName (nm s.dom nd).loc "head" = true
      · rw [if_pos hhd]
        by_cases hnl' : (!last) = true
        · rw [if_pos hnl']
          have hnode := hnl (by simpa using hnl')
          subst hnode
          have hmemn : nd ∈ s.openElems := hmem nd List.mem_cons_self
          have hname : nm s.dom nd = headName := ename_eq hns' hhd
          refine triv .inHead rfl (by decide) ?_ ?_
          · exact ⟨nd, by rw [hq.openElems]; exact hmemn, by rw [nm_ext hq.ext hel]; exact hname⟩
          · intro _; rw [hq.headElem]; exact hhead ⟨nd, hmemn, hname⟩
        · rw [if_neg hnl']; exact hcont
      rw [if_neg hhd]
      by_cases h7 : isName (nm s.dom nd).loc "body" = true
      · rw [if_pos h7]; exact triv .inBody rfl (by decide) trivial (fun h => absurd h (by decide))
      rw [if_neg h7]
      by_cases h8 : isName (nm s.dom nd).loc "frameset" = true
      · rw [if_pos h8]; exact triv .inFrameset rfl (by decide) trivial (fun h => absurd h (by decide))
      rw [if_neg h8]
      by_cases h9 : isName (nm s.dom nd).loc "html" = true
      · rw [if_pos h9]
        cases hh : s.headElem with
        | none => exact triv .beforeHead rfl (by decide) trivial (fun h => absurd h (by decide))
        | some v => exact triv .afterHead rfl (by decide) trivial (fun _ => by rw [hq.headElem, hh]; rfl)
      rw [if_neg h9]; exact hcont
    -- the node looked at
    have hnodeEl : IsEl s.dom node := hi.open_el node (hmem node List.mem_cons_self)
    have hnodeT : nm s.dom node = tmplName → s.templateModes ≠ [] := by
      intro hn hnil
      rw [hnil] at htc
      have : 1 ≤ tcount s.dom (node :: rest) := by
        unfold tcount; rw [List.countP_cons]; simp [isTmpl, hn]
      simp at htc; omega
    cases hlast : (len - 1 == 0) with
    | false => exact hrest false node hnodeEl (fun _ => rfl) hnodeT
    | true =>
      cases hc : s.contextElem with
      | none => exact hrest true node hnodeEl (fun _ => rfl) hnodeT
      | some ctx =>
        refine hrest true ctx (hi.ctx ctx hc) (fun h => by cases h) ?_
        intro hn hnil
        rw [hnil] at htc
        have : ctxTmpl s = 1 := by unfold ctxTmpl; rw [hc]; simp [hn]
        simp at htc; omega

theorem sat_resetInsertionMode {s : State} (hi : HInv s)
    (htm : ∀ x ∈ s.templateModes, tmplModeOk x = true)
    (htc : tcount s.dom s.openElems + ctxTmpl s ≤ s.templateModes.length)
    (hhead : (∃ x ∈ s.openElems, nm s.dom x = headName) → s.headElem.isSome = true) :
    Sat resetInsertionMode s (fun m s' => QF s s' ∧ ResetOk s' m) := by
  unfold resetInsertionMode
  refine sat_getS_bind ?_
  refine sat_resetLoop _ _ s hi (fun x hx => List.mem_reverse.mp hx) (by simp) htm ?_ hhead
  have : tcount s.dom s.openElems.reverse = tcount s.dom s.openElems := by
    unfold tcount; exact List.countP_reverse
  rw [this]; exact htc

/-! ### `close_the_cell`, `create_root`, `parse_raw_data` -/

theorem tdTh_not_cursory {n : EName} (h : tdTh n = true) : cursoryImpliedEnd n = false := by
  cases n with
  | mk ns loc =>
    simp only [tdTh, htmlIn, Bool.and_eq_true, beq_iff_eq] at h
    obtain ⟨rfl, h2⟩ := h
    simp only [isOneOf, List.any_cons, List.any_nil, Bool.or_false, Bool.or_eq_true, beq_iff_eq] at h2
    rcases h2 with h2 | h2 <;> rw [← h2] <;> decide

theorem sat_closeTheCell {s : State} {pre post : List Id} {x : Id}
    (hall : AllEl s.dom s.openElems) (heq : s.openElems = pre ++ x :: post)
    (hx : tdTh (nm s.dom x) = true) (hpost : ∀ y ∈ post, tdTh (nm s.dom y) = false) :
    Sat closeTheCell s (fun _ s' => Fr s s' ∧ s'.openElems = pre ∧
      ∀ e ∈ s'.activeFormatting, e ∈ s.activeFormatting) := by
  unfold closeTheCell
  refine (sat_generateImpliedEndTags_keep hall heq (tdTh_not_cursory hx)).bind ?_
  rintro _ s1 ⟨post0, post1, hp, st, _⟩
  have hsub : ∀ z ∈ pre ++ x :: post0, z ∈ s.openElems := by
    intro z hz
    rw [heq, hp]
    rcases List.mem_append.mp hz with h | h
    · exact List.mem_append_left _ h
    · rcases List.mem_cons.mp h with h | h
      · exact List.mem_append_right _ (by rw [h]; exact List.mem_cons_self)
      · exact List.mem_append_right _ (List.mem_cons_of_mem _ (List.mem_append_left _ h))
  have hall1 : AllEl s1.dom s1.openElems := by
    rw [st.openElems]; exact (hall.sub hsub).ext st.fr.ext
  have hnm : ∀ z ∈ pre ++ x :: post0, nm s1.dom z = nm s.dom z :=
    fun z hz => (hall.sub hsub).nm_eq st.fr.ext hz
  refine (sat_popUntil (pred := tdTh) hall1 st.openElems ?_ ?_).bind ?_
  · rw [hnm x (by simp)]; exact hx
  · intro y hy
    rw [hnm y (by simp [hy])]
    exact hpost y (by rw [hp]; exact List.mem_append_left _ hy)
  · rintro n s2 ⟨st2, -⟩
    have hfin : ∀ s3, QF s2 s3 → Sat clearActiveFormattingToMarker s3 (fun _ s' => Fr s s' ∧ s'.openElems = pre ∧
        ∀ e ∈ s'.activeFormatting, e ∈ s.activeFormatting) := by
      intro s3 hq3
      refine sat_clearActiveFormattingToMarker.mono ?_
      rintro _ s4 rfl
      refine ⟨((st.fr.trans st2.fr).trans hq3.fr).withAF _, by rw [hq3.openElems]; exact st2.openElems, ?_⟩
      intro e he
      have := mem_clearedAF he
      rw [hq3.activeFormatting, st2.af, st.af] at this
      exact this
    split
    · exact sat_parseError.bind (fun _ s3 hq3 => hfin s3 hq3)
    · exact hfin s2 (QF.refl _)

/-- `create_root` on the empty stack -/
theorem sat_createRoot {attrs : List Attr} {s : State} :
    Sat (createRoot attrs) s (fun _ s' => ∃ r, Fr s s' ∧ s'.openElems = s.openElems ++ [r] ∧
      s'.activeFormatting = s.activeFormatting ∧ IsEl s'.dom r ∧ nm s'.dom r = htmlName ∧
      (∀ x, IsEl s.dom x → x ≠ r)) := by
  unfold createRoot
  refine sat_createElementWithFlags.bind ?_
  intro elem s1 hc
  refine sat_push.bind ?_
  rintro _ s2 rfl
  refine sat_getS_bind ?_
  refine (sat_sinkUnit_mut (op := SinkOp.append _ _) trivial).mono ?_
  intro _ s3 hq3
  refine ⟨elem, (hc.qf.fr.withOpen _).trans hq3.fr, ?_, ?_, hc.el.ext hq3.ext, ?_, fun x hx => hc.ne hx⟩
  · rw [hq3.openElems]; show s1.openElems ++ [elem] = _; rw [hc.qf.openElems]
  · rw [hq3.activeFormatting]; exact hc.qf.activeFormatting
  · rw [nm_ext hq3.ext hc.el, hc.nm]; rfl

theorem sat_parseRawData {tag : Tag} {k : H5V.Model.HtmlTok.RawKind} {s : State} (hp : PlaceOk s none) :
    Sat (parseRawData tag k) s (fun res s' => res = .toRawData k ∧ ∃ s1 r, Inserted s s1 r nsHtml tag.name true ∧
      s' = { s1 with origMode := some s1.mode, mode := .text }) := by
  unfold parseRawData
  refine (sat_insertElementFor hp).bind ?_
  intro r s1 hins
  exact sat_toRawTextMode.mono (fun res s2 h => ⟨h.1, s1, r, hins, h.2⟩)

/-! ### foreign content -/

/-- the adjusted current node -/
def adjNode (s : State) : Option Id :=
  match s.openElems.getLast? with
  | none => none
  | some top => if s.openElems.length == 1 then (match s.contextElem with | some c => some c | none => some top)
                else some top

theorem adjNode_el {s : State} (hi : HInv s) {c : Id} (h : adjNode s = some c) : IsEl s.dom c := by
  unfold adjNode at h
  cases hl : s.openElems.getLast? with
  | none => rw [hl] at h; cases h
  | some top =>
    rw [hl] at h
    simp only at h
    have htop := hi.open_el top (getLast?_mem hl)
    split at h
    · cases hc : s.contextElem with
      | none => rw [hc] at h; cases h; exact htop
      | some c' => rw [hc] at h; cases h; exact hi.ctx _ hc
    · cases h; exact htop

theorem sat_adjustedCurrentNode' {s : State} {top : Id} (hl : s.openElems.getLast? = some top) :
    Sat adjustedCurrentNode s (fun r s' => s' = s ∧ adjNode s = some r) := by
  refine (sat_adjustedCurrentNode hl).mono ?_
  rintro r s' ⟨rfl, hr⟩
  refine ⟨rfl, ?_⟩
  unfold adjNode
  rw [hl, hr]
  simp only
  split
  · cases s'.contextElem <;> rfl
  · rfl

/-- `is_foreign`: a `true` answer means the adjusted current node is not in the HTML namespace -/
theorem sat_isForeign {token : Token} {s : State} (hi : HInv s) :
    Sat (isForeign token) s (fun b s' => QF s s' ∧
      (b = true → ∃ c, adjNode s = some c ∧ (nm s.dom c).ns ≠ nsHtml)) := by
  unfold isForeign
  split
  · exact sat_pure ⟨QF.refl s, fun h => by cases h⟩
  · refine sat_getS_bind ?_
    split
    · exact sat_pure ⟨QF.refl s, fun h => by cases h⟩
    · rename_i hne
      have hne' : s.openElems ≠ [] := by intro e; rw [e] at hne; simp at hne
      obtain ⟨top, hl⟩ := getLast?_of_ne_nil hne'
      refine (sat_adjustedCurrentNode' hl).bind ?_
      rintro cur s0 ⟨rfl, hadj⟩
      have hel := adjNode_el hi hadj
      refine (sat_elemName hel).bind ?_
      rintro n s1 ⟨rfl, hq1⟩
      by_cases hns : ((nm s0.dom cur).ns == nsHtml) = true
      · rw [if_pos hns]; exact sat_pure ⟨hq1, fun h => by cases h⟩
      rw [if_neg hns]
      have hres : ∃ c, adjNode s0 = some c ∧ (nm s0.dom c).ns ≠ nsHtml :=
        ⟨cur, hadj, by simpa using hns⟩
      have hl1 : s1.openElems.getLast? = some top := by rw [hq1.openElems]; exact hl
      have hip : Sat (do
          let cur ← adjustedCurrentNode
          pure (!(← sinkBool (.isMathmlAnnotationXmlIntegrationPoint cur)))) s1
          (fun b s' => QF s0 s' ∧ (b = true → ∃ c, adjNode s0 = some c ∧ (nm s0.dom c).ns ≠ nsHtml)) := by
        refine (sat_adjustedCurrentNode' hl1).bind ?_
        rintro cur' s1' ⟨rfl, hadj'⟩
        have hel' := adjNode_el (hi.of_qf hq1) hadj'
        refine (sat_isMathmlIP hel').bind ?_
        intro b s2 hq2
        exact sat_pure ⟨hq1.trans hq2, fun _ => hres⟩
      have hf : Sat (pure false : M Bool) s1
          (fun b s' => QF s0 s' ∧ (b = true → ∃ c, adjNode s0 = some c ∧ (nm s0.dom c).ns ≠ nsHtml)) := by
        refine sat_pure ?_; exact ⟨hq1, fun h => by cases h⟩
      have ht : Sat (pure true : M Bool) s1
          (fun b s' => QF s0 s' ∧ (b = true → ∃ c, adjNode s0 = some c ∧ (nm s0.dom c).ns ≠ nsHtml)) := by
        refine sat_pure ?_; exact ⟨hq1, fun _ => hres⟩
      cases token <;> dsimp only <;> (repeat' split) <;> first | exact hf | exact ht | exact hip

theorem sat_popToIntegrationPointLoop : ∀ (fuel : Nat) (s : State) (pre post : List Id) (x : Id),
    AllEl s.dom s.openElems → s.openElems = pre ++ post → pre.getLast? = some x → (nm s.dom x).ns = nsHtml →
    post.length < fuel →
    Sat (popToIntegrationPointLoop fuel) s (fun _ s' => ∃ post1 post2, post = post1 ++ post2 ∧
      St s s' (pre ++ post1)) := by
  intro fuel
  induction fuel with
  | zero => intro s pre post x _ _ _ _ h; exact absurd h (Nat.not_lt_zero _)
  | succ fuel ih =>
    intro s pre post x hall heq hx hns hlen
    unfold popToIntegrationPointLoop
    dsimp only
    rcases List.eq_nil_or_concat post with rfl | ⟨post0, y, rfl⟩
    · have hl : s.openElems.getLast? = some x := by rw [heq]; simpa using hx
      refine (sat_currentNodeIn hl (hall x (getLast?_mem hl))).bind ?_
      rintro b s1 ⟨rfl, hq⟩
      have : ((nm s.dom x).ns == nsHtml || mathmlTextIntegrationPoint (nm s.dom x) ||
          svgHtmlIntegrationPoint (nm s.dom x)) = true := by simp [hns]
      rw [if_pos this]
      refine Sat.bind (Q := fun stop s2 => stop = true ∧ s2 = s1) (sat_pure ⟨rfl, rfl⟩) ?_
      rintro stop s2 ⟨rfl, rfl⟩
      simp only [if_true]
      exact sat_pure ⟨[], [], rfl, hq.fr, by rw [hq.openElems, heq], hq.activeFormatting⟩
    · have heq' : s.openElems = (pre ++ post0) ++ [y] := by rw [heq]; simp
      have hl : s.openElems.getLast? = some y := by rw [heq']; exact List.getLast?_concat
      have hyel := hall y (getLast?_mem hl)
      have htail : ∀ (stop : Bool) (s1 : State), QF s s1 →
          Sat (if stop = true then pure ()
            else do
              let _ ← pop
              popToIntegrationPointLoop fuel) s1
            (fun _ s' => ∃ post1 post2, post0.concat y = post1 ++ post2 ∧ St s s' (pre ++ post1)) := by
        intro stop s1 hq
        split
        · refine sat_pure ⟨post0 ++ [y], [], by simp, hq.fr, ?_, hq.activeFormatting⟩
          rw [hq.openElems, heq]; simp
        · have hl1 : s1.openElems.getLast? = some y := by rw [hq.openElems]; exact hl
          refine (sat_pop hl1).bind ?_
          rintro _ s2 ⟨-, st⟩
          have hdrop : s1.openElems.dropLast = pre ++ post0 := by
            rw [hq.openElems, heq', List.dropLast_concat]
          have hallp : AllEl s.dom (pre ++ post0) := hall.sub (fun z hz => by
            rw [heq']; exact List.mem_append_left _ hz)
          have he2 : Ext s.dom s2.dom := hq.ext.trans st.fr.ext
          refine (ih s2 pre post0 x ?_ (by rw [st.openElems]; exact hdrop) hx ?_ ?_).mono ?_
          · rw [st.openElems, hdrop]; exact hallp.ext he2
          · rw [hallp.nm_eq he2 (List.mem_append_left _ (getLast?_mem hx))]; exact hns
          · simp at hlen; omega
          · rintro _ s3 ⟨post1, post2, hp, st3⟩
            refine ⟨post1, post2 ++ [y], by rw [hp]; simp, hq.fr.trans (st.fr.trans st3.fr), st3.openElems, ?_⟩
            rw [st3.af, st.af]; exact hq.activeFormatting
      refine (sat_currentNodeIn hl hyel).bind ?_
      rintro b s1 ⟨rfl, hq⟩
      split
      · refine Sat.bind (Q := fun stop s2 => s2 = s1) (sat_pure rfl) ?_
        rintro stop s2 rfl
        exact htail stop s2 hq
      · have hl1 : s1.openElems.getLast? = some y := by rw [hq.openElems]; exact hl
        refine (sat_currentNode hl1).bind ?_
        rintro c s1' ⟨rfl, rfl⟩
        refine (sat_isMathmlIP (hyel.ext hq.ext)).bind ?_
        intro stop s2 hq2
        exact htail stop s2 (hq.trans hq2)

end H5V.Lemmas.TBSafe
