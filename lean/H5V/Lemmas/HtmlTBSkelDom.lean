import H5V.Props.C06
/-!
C06 (skeleton invariant), part 1: the monad of the tree-builder model, and what every mutating sink
call does to the observations the skeleton clauses speak about (`childrenOf`, `dataOf` — parent
pointers are *not* used, so no well-formedness / contract hypothesis is needed).

* `bind_ok`, `pure_ok`, `sink_ok`, … — inversion lemmas for `M = StateT State (Except String)`;
* `DStep` / `Chg` — how the data of an existing node may change (attributes added, text grown);
* `DomBase` — the arena-level invariant behind clauses T3/T4 of C06: node 0 is the document,
  template contents are `Document` nodes other than node 0, only containers have children, no
  `Document`-kind node is a child, no text node is empty;
* one lemma per mutating `Dom` operation: `DomBase` is kept, `Chg` holds, and the exact effect on
  the child lists.
-/
namespace H5V.Props.C06
open H5V.Model.Dom hiding Str
open H5V.Model.HtmlTB hiding Str
open H5V.Lemmas.Dom

/-! ## the monad -/

theorem bind_ok {α β : Type} {m : M α} {f : α → M β} {s s'' : State} {b : β} :
    (m >>= f) s = .ok (b, s'') ↔ ∃ a s', m s = .ok (a, s') ∧ f a s' = .ok (b, s'') := by
  show (StateT.bind m f) s = _ ↔ _
  unfold StateT.bind
  show (Except.bind (m s) _) = _ ↔ _
  cases h : m s with
  | error e => simp [Except.bind]
  | ok p =>
    obtain ⟨a, s'⟩ := p
    simp only [Except.bind, Except.ok.injEq, Prod.mk.injEq]
    constructor
    · intro h; exact ⟨a, s', ⟨rfl, rfl⟩, h⟩
    · rintro ⟨a', s1, ⟨rfl, rfl⟩, h⟩; exact h

theorem pure_ok {α : Type} {a b : α} {s s' : State} : (pure a : M α) s = .ok (b, s') ↔ a = b ∧ s = s' := by
  show (Except.ok (a, s) : Except String _) = _ ↔ _
  simp

theorem getS_ok {s s' a : State} : getS s = .ok (a, s') ↔ a = s ∧ s' = s := by
  show (Except.ok (s, s) : Except String _) = _ ↔ _
  simp only [Except.ok.injEq, Prod.mk.injEq]
  constructor <;> (rintro ⟨rfl, rfl⟩; exact ⟨rfl, rfl⟩)

theorem modS_ok {f : State → State} {s s' : State} {u : Unit} : modS f s = .ok (u, s') ↔ s' = f s := by
  show (Except.ok ((), f s) : Except String _) = _ ↔ _
  simp only [Except.ok.injEq, Prod.mk.injEq, true_and]
  exact eq_comm

theorem set_ok {x s s' : State} {u : Unit} : (set x : M Unit) s = .ok (u, s') ↔ s' = x := by
  show (Except.ok ((), x) : Except String _) = _ ↔ _
  simp only [Except.ok.injEq, Prod.mk.injEq, true_and]
  exact eq_comm

theorem throw_ok {α : Type} {e : String} {s s' : State} {a : α} : ¬ (throw e : M α) s = .ok (a, s') := by
  show ¬ (Except.error e : Except String _) = _
  simp

theorem panicAt_ok {α : Type} {c f t : String} {s s' : State} {a : α} : ¬ (panicAt c f t : M α) s = .ok (a, s') :=
  throw_ok

theorem fuelOut_ok {α : Type} {w : String} {s s' : State} {a : α} : ¬ (fuelOut w : M α) s = .ok (a, s') :=
  throw_ok

theorem sink_ok {op : SinkOp} {s s' : State} {out : Output} :
    sink op s = .ok (out, s') ↔
      ∃ d, s.dom.apply op = .ok (d, out) ∧ s' = { s with dom := d, traceRev := (op, out) :: s.traceRev } := by
  unfold sink
  cases h : s.dom.apply op with
  | error e => simp
  | ok p =>
    obtain ⟨d, o⟩ := p
    simp only [Except.ok.injEq, Prod.mk.injEq]
    constructor
    · rintro ⟨rfl, rfl⟩; exact ⟨d, ⟨rfl, rfl⟩, rfl⟩
    · rintro ⟨d', ⟨rfl, rfl⟩, rfl⟩; exact ⟨rfl, rfl⟩

theorem sinkUnit_ok {op : SinkOp} {s s' : State} {u : Unit} :
    sinkUnit op s = .ok (u, s') ↔ ∃ out, sink op s = .ok (out, s') := by
  unfold sinkUnit
  rw [bind_ok]
  constructor
  · rintro ⟨a, s1, h1, h2⟩; rw [pure_ok] at h2; obtain ⟨_, rfl⟩ := h2; exact ⟨a, h1⟩
  · rintro ⟨out, h⟩; exact ⟨out, s', h, pure_ok.mpr ⟨rfl, rfl⟩⟩

theorem sinkNode_ok {op : SinkOp} {s s' : State} {i : Id} :
    sinkNode op s = .ok (i, s') ↔ sink op s = .ok (.node i, s') := by
  unfold sinkNode
  rw [bind_ok]
  constructor
  · rintro ⟨a, s1, h1, h2⟩
    cases a with
    | node j => rw [pure_ok] at h2; obtain ⟨rfl, rfl⟩ := h2; exact h1
    | unit => exact absurd h2 throw_ok
    | bool b => exact absurd h2 throw_ok
    | name a b => exact absurd h2 throw_ok
  · intro h; exact ⟨_, _, h, pure_ok.mpr ⟨rfl, rfl⟩⟩

theorem sinkBool_ok {op : SinkOp} {s s' : State} {b : Bool} :
    sinkBool op s = .ok (b, s') ↔ sink op s = .ok (.bool b, s') := by
  unfold sinkBool
  rw [bind_ok]
  constructor
  · rintro ⟨a, s1, h1, h2⟩
    cases a with
    | bool j => rw [pure_ok] at h2; obtain ⟨rfl, rfl⟩ := h2; exact h1
    | unit => exact absurd h2 throw_ok
    | node b => exact absurd h2 throw_ok
    | name a b => exact absurd h2 throw_ok
  · intro h; exact ⟨_, _, h, pure_ok.mpr ⟨rfl, rfl⟩⟩

theorem elemName_ok {h : Id} {s s' : State} {n : EName} :
    elemName h s = .ok (n, s') ↔ sink (.elemName h) s = .ok (.name n.ns n.loc, s') := by
  unfold elemName
  rw [bind_ok]
  constructor
  · rintro ⟨a, s1, h1, h2⟩
    cases a with
    | name a b => rw [pure_ok] at h2; obtain ⟨rfl, rfl⟩ := h2; exact h1
    | unit => exact absurd h2 throw_ok
    | node b => exact absurd h2 throw_ok
    | bool b => exact absurd h2 throw_ok
  · intro h; exact ⟨_, _, h, pure_ok.mpr ⟨rfl, rfl⟩⟩

/-! ## how node data may change -/

/-- the part of a node's data no sink call ever changes: kind, element name, template contents,
integration-point flag (attributes and text contents are erased) -/
def skelT : NodeData → NodeData
  | .element n _ tc ip => .element n [] tc ip
  | .text _ => .text []
  | o => o

/-- one step of change of a node's data: nothing, more attributes, more text -/
inductive DStep : Option NodeData → Option NodeData → Prop
  | same (v : Option NodeData) : DStep v v
  | attrs (n : QualName) (a a' : List Attr) (tc : Option Id) (ip : Bool) :
      DStep (some (.element n a tc ip)) (some (.element n a' tc ip))
  | text (t t' : Str) : DStep (some (.text t)) (some (.text (t ++ t')))

theorem DStep.skel {v v' : Option NodeData} (h : DStep v v') : v'.map skelT = v.map skelT := by
  cases h <;> rfl

theorem DStep.trans {a b c : Option NodeData} (h1 : DStep a b) (h2 : DStep b c) : DStep a c := by
  cases h1 with
  | same => exact h2
  | attrs n x y tc ip =>
    generalize hb : some (NodeData.element n y tc ip) = b' at h2
    cases h2 with
    | same => subst hb; exact .attrs ..
    | attrs n2 x2 y2 tc2 ip2 => cases hb; exact .attrs ..
    | text t t' => cases hb
  | text t t' =>
    generalize hb : some (NodeData.text (t ++ t')) = b' at h2
    cases h2 with
    | same => subst hb; exact .text ..
    | attrs n2 x2 y2 tc2 ip2 => cases hb
    | text t2 t2' => cases hb; rw [List.append_assoc]; exact .text ..

/-- the arena grows and the data of existing nodes changes by `DStep`s only -/
structure Chg (d d' : Dom) : Prop where
  size : d.size ≤ d'.size
  data : ∀ x, x < d.size → DStep (d.dataOf x) (d'.dataOf x)

theorem Chg.refl (d : Dom) : Chg d d := ⟨Nat.le_refl _, fun _ _ => .same _⟩

theorem Chg.trans {a b c : Dom} (h1 : Chg a b) (h2 : Chg b c) : Chg a c :=
  ⟨Nat.le_trans h1.size h2.size, fun x hx => (h1.data x hx).trans (h2.data x (Nat.lt_of_lt_of_le hx h1.size))⟩

theorem Chg.of_data_eq {d d' : Dom} (hs : d.size ≤ d'.size) (h : ∀ x, x < d.size → d'.dataOf x = d.dataOf x) :
    Chg d d' := ⟨hs, fun x hx => by rw [h x hx]; exact .same _⟩

theorem lt_of_data {d : Dom} {x : Id} {v : NodeData} (h : d.dataOf x = some v) : x < d.size :=
  lt_of_dataOf_some h

theorem dataOf_none_of_ge {d : Dom} {x : Id} (h : d.size ≤ x) : d.dataOf x = none := by
  cases hd : d.dataOf x with
  | none => rfl
  | some v => exact absurd (lt_of_data hd) (Nat.not_lt.mpr h)

theorem Chg.isElement {d d' : Dom} (h : Chg d d') {x : Id} (hx : d.isElement x = true) : d'.isElement x = true := by
  have hlt : x < d.size := lt_of_isElement hx
  have := (h.data x hlt).skel
  unfold Dom.isElement at hx ⊢
  cases h1 : d.dataOf x with
  | none => simp [h1] at hx
  | some v =>
    cases h2 : d'.dataOf x with
    | none => simp [h1, h2] at this
    | some v' =>
      simp only [h1, h2, Option.map_some, Option.some.injEq] at this
      cases v <;> simp [h1] at hx
      cases v' <;> simp [skelT] at this
      rfl

theorem Chg.isContainer {d d' : Dom} (h : Chg d d') {x : Id} (hx : d.isContainer x = true) :
    d'.isContainer x = true := by
  have hlt : x < d.size := lt_of_isContainer hx
  have := (h.data x hlt).skel
  unfold Dom.isContainer at hx ⊢
  cases h1 : d.dataOf x with
  | none => simp [h1] at hx
  | some v =>
    cases h2 : d'.dataOf x with
    | none => simp [h1, h2] at this
    | some v' =>
      simp only [h1, h2, Option.map_some, Option.some.injEq] at this
      cases v <;> simp [h1] at hx <;> cases v' <;> simp [skelT] at this <;> rfl

theorem Chg.docKid_eq {d d' : Dom} (h : Chg d d') {x : Id} (hx : x < d.size) : docKid d' x = docKid d x := by
  have := (h.data x hx).skel
  unfold docKid
  cases h1 : d.dataOf x with
  | none =>
    obtain ⟨n, hn⟩ := node?_of_lt hx
    rw [dataOf_of_node hn] at h1; cases h1
  | some v =>
    cases h2 : d'.dataOf x with
    | none => simp [h1, h2] at this
    | some v' =>
      simp only [h1, h2, Option.map_some, Option.some.injEq] at this
      cases v <;> cases v' <;> simp [skelT] at this <;> try rfl
      obtain ⟨rfl, _, _⟩ := this
      rfl

theorem Chg.templateContentsOf {d d' : Dom} (h : Chg d d') {x : Id} (hx : x < d.size) :
    d'.templateContentsOf x = d.templateContentsOf x := by
  have := (h.data x hx).skel
  unfold Dom.templateContentsOf
  cases h1 : d.dataOf x <;> cases h2 : d'.dataOf x <;> simp [h1, h2] at this ⊢
  rename_i v v'
  cases v <;> cases v' <;> simp [skelT] at this <;> try rfl
  simp [this.2.1]

theorem Chg.elemName {d d' : Dom} (h : Chg d d') {x : Id} {r : Str × Str} (hx : d.elemName x = .ok r) :
    d'.elemName x = .ok r := by
  unfold Dom.elemName at hx ⊢
  simp only [bind, Except.bind] at hx ⊢
  cases hg : d.get x with
  | error e => simp [hg] at hx
  | ok n =>
    have hn := get_ok.mp hg
    have hlt := node?_lt hn
    have hs := (h.data x hlt).skel
    rw [dataOf_of_node hn] at hs
    obtain ⟨n', hn'⟩ := node?_of_lt (Nat.lt_of_lt_of_le hlt h.size)
    rw [dataOf_of_node hn'] at hs
    simp only [hg, get_ok_of hn'] at hx ⊢
    simp only [Option.map_some, Option.some.injEq] at hs
    cases hd : n.data <;> simp [hd] at hx
    cases hd' : n'.data <;> simp [hd, hd', skelT] at hs
    simp [hx, hs.1]

/-! ## the arena-level invariant -/

/-- node 0 is the document; children are nodes of the arena and never `Document`-kind nodes; template
contents are `Document` nodes other than node 0; only documents and elements have children; no text
node is empty -/
structure DomBase (d : Dom) : Prop where
  doc0 : d.dataOf 0 = some .document
  kidsValid : ∀ p c, c ∈ d.childrenOf p → c < d.size
  kidNotDoc : ∀ p c, c ∈ d.childrenOf p → d.dataOf c ≠ some .document
  tcOk : ∀ x tc, d.templateContentsOf x = some tc → tc ≠ 0 ∧ d.dataOf tc = some .document
  cont : ∀ x, d.childrenOf x ≠ [] → d.isContainer x = true
  textNe : ∀ x t, d.dataOf x = some (.text t) → t ≠ []

theorem DomBase.size_pos {d : Dom} (h : DomBase d) : 0 < d.size := lt_of_data h.doc0

theorem DomBase.kidsLt {d : Dom} (h : DomBase d) : ∀ c ∈ d.childrenOf 0, c < d.size := h.kidsValid 0

theorem DomBase.new : DomBase Dom.new := by
  have hc : ∀ x, Dom.new.childrenOf x = [] := by
    intro x
    cases x with
    | zero => rfl
    | succ n => exact childrenOf_nil_of_ge (by simp [Dom.new, Dom.size])
  have hd : ∀ x v, Dom.new.dataOf x = some v → v = .document := by
    intro x v h
    cases x with
    | zero => simp [Dom.new, Dom.dataOf] at h; exact h.symm
    | succ n => rw [dataOf_none_of_ge (by simp [Dom.new, Dom.size])] at h; cases h
  refine ⟨rfl, ?_, ?_, ?_, ?_, ?_⟩
  · intro p c h; rw [hc] at h; cases h
  · intro p c h; rw [hc] at h; cases h
  · intro x tc h
    unfold Dom.templateContentsOf at h
    cases hx : Dom.new.dataOf x with
    | none => simp [hx] at h
    | some v => have := hd x v hx; subst this; simp [hx] at h
  · intro x h; exact absurd (hc x) h
  · intro x t h; have := hd x _ h; cases this

/-- what a freshly allocated node must satisfy -/
def NewOk (d : Dom) (x : Id) : Prop :=
  (∀ t, d.dataOf x = some (.text t) → t ≠ []) ∧
  (∀ tc, d.templateContentsOf x = some tc → tc ≠ 0 ∧ d.dataOf tc = some .document)

/-- the generic preservation lemma -/
theorem DomBase.step {d d' : Dom} (hb : DomBase d) (hc : Chg d d')
    (hnew : ∀ x, d.size ≤ x → x < d'.size → NewOk d' x)
    (hkids : ∀ x, d'.childrenOf x ≠ [] → d.childrenOf x ≠ [] ∨ d'.isContainer x = true)
    (hkv : ∀ p c, c ∈ d'.childrenOf p → c < d'.size)
    (hknd : ∀ p c, c ∈ d'.childrenOf p → (∃ q, c ∈ d.childrenOf q) ∨ d'.dataOf c ≠ some .document) :
    DomBase d' := by
  have h0 := hc.data 0 hb.size_pos
  refine ⟨?_, hkv, ?_, ?_, ?_, ?_⟩
  rotate_left
  · intro p c hcm
    rcases hknd p c hcm with ⟨q, hq⟩ | h
    · have hlt := hb.kidsValid q c hq
      have hnd := hb.kidNotDoc q c hq
      have := hc.data c hlt
      intro hdoc
      rw [hdoc] at this
      generalize hv : d.dataOf c = v at this
      cases this
      exact hnd hv
    · exact h
  rotate_right
  · rw [hb.doc0] at h0
    generalize hv : d'.dataOf 0 = v at h0
    cases h0; rfl
  · intro x tc htc
    by_cases hx : x < d.size
    · rw [hc.templateContentsOf hx] at htc
      obtain ⟨h1, h2⟩ := hb.tcOk x tc htc
      refine ⟨h1, ?_⟩
      have := hc.data tc (lt_of_data h2)
      rw [h2] at this
      generalize hv : d'.dataOf tc = v at this
      cases this; rfl
    · have hx' : x < d'.size := by
        unfold Dom.templateContentsOf at htc
        cases hdx : d'.dataOf x with
        | none => simp [hdx] at htc
        | some v => exact lt_of_data hdx
      exact (hnew x (Nat.le_of_not_lt hx) hx').2 tc htc
  · intro x hx
    rcases hkids x hx with h | h
    · exact hc.isContainer (hb.cont x h)
    · exact h
  · intro x t ht
    by_cases hx : x < d.size
    · have := hc.data x hx
      rw [ht] at this
      generalize hv : d.dataOf x = v at this
      cases this with
      | same => exact hb.textNe x t hv
      | text t0 t' =>
        intro h
        have := hb.textNe x t0 hv
        simp at h
        exact this h.1
    · exact (hnew x (Nat.le_of_not_lt hx) (lt_of_data ht)).1 t ht


/-- preservation when no child list changes -/
theorem DomBase.step_same {d d' : Dom} (hb : DomBase d) (hc : Chg d d')
    (hnew : ∀ x, d.size ≤ x → x < d'.size → NewOk d' x)
    (hk : ∀ x, d'.childrenOf x = d.childrenOf x) : DomBase d' := by
  refine hb.step hc hnew ?_ ?_ ?_
  · intro x hx; rw [hk] at hx; exact Or.inl hx
  · intro p c hcm; rw [hk] at hcm; exact Nat.lt_of_lt_of_le (hb.kidsValid p c hcm) hc.size
  · intro p c hcm; rw [hk] at hcm; exact Or.inl ⟨p, hcm⟩

/-- preservation when the child list of one container `P` becomes `L` -/
theorem DomBase.step_one {d d' : Dom} (hb : DomBase d) (hc : Chg d d')
    (hnew : ∀ x, d.size ≤ x → x < d'.size → NewOk d' x) {P : Id} {L : List Id}
    (hk : ∀ x, d'.childrenOf x = if x = P then L else d.childrenOf x) (hP : d'.isContainer P = true)
    (hL : ∀ c ∈ L, c < d'.size ∧ ((∃ q, c ∈ d.childrenOf q) ∨ d'.dataOf c ≠ some .document)) : DomBase d' := by
  refine hb.step hc hnew ?_ ?_ ?_
  · intro x hx
    by_cases hxp : x = P
    · subst hxp; exact Or.inr hP
    · rw [hk] at hx; simp only [hxp, if_false] at hx; exact Or.inl hx
  · intro p c hcm
    rw [hk] at hcm
    by_cases hxp : p = P
    · simp only [hxp, if_true] at hcm; exact (hL c hcm).1
    · simp only [hxp, if_false] at hcm; exact Nat.lt_of_lt_of_le (hb.kidsValid p c hcm) hc.size
  · intro p c hcm
    rw [hk] at hcm
    by_cases hxp : p = P
    · simp only [hxp, if_true] at hcm; exact (hL c hcm).2
    · simp only [hxp, if_false] at hcm; exact Or.inl ⟨p, hcm⟩

theorem no_new_nodes {d d' : Dom} (hs : d'.size = d.size) : ∀ x, d.size ≤ x → x < d'.size → NewOk d' x := by
  intro x h1 h2; rw [hs] at h2; exact absurd h2 (Nat.not_lt.mpr h1)

/-! ## allocation -/

theorem size_alloc (d : Dom) (v : NodeData) : (d.alloc v).1.size = d.size + 1 := by
  simp [Dom.alloc, Dom.size]

theorem chg_alloc (d : Dom) (v : NodeData) : Chg d (d.alloc v).1 :=
  Chg.of_data_eq (by rw [size_alloc]; exact Nat.le_succ _)
    (fun x hx => by rw [dataOf_alloc]; simp [Nat.ne_of_lt hx])

theorem DomBase.alloc {d : Dom} (hb : DomBase d) (v : NodeData)
    (hv : (∀ t, v = .text t → t ≠ []) ∧
      (∀ n a tc ip, v = .element n a (some tc) ip → tc ≠ 0 ∧ d.dataOf tc = some .document)) :
    DomBase (d.alloc v).1 := by
  refine hb.step_same (chg_alloc d v) ?_ (fun x => childrenOf_alloc d v x)
  intro x h1 h2
  rw [size_alloc] at h2
  have hx : x = d.size := by omega
  subst hx
  refine ⟨?_, ?_⟩
  · intro t ht; rw [dataOf_alloc] at ht; simp at ht; exact hv.1 t ht
  · intro tc htc
    unfold Dom.templateContentsOf at htc
    rw [dataOf_alloc] at htc
    simp only [if_true] at htc
    cases v with
    | element n a tc' ip =>
      simp at htc
      subst htc
      obtain ⟨h1, h2⟩ := hv.2 n a tc ip rfl
      refine ⟨h1, ?_⟩
      rw [dataOf_alloc]; simp [Nat.ne_of_lt (lt_of_data h2), h2]
    | _ => simp at htc

/-- `create_element`: a fresh element (for a template: preceded by its fresh contents node) -/
theorem createElement_spec {d : Dom} (hb : DomBase d) (name : QualName) (attrs : List Attr) (flags : ElementFlags) :
    let r := d.createElement name attrs flags
    DomBase r.1 ∧ Chg d r.1 ∧ (∀ x, r.1.childrenOf x = d.childrenOf x) ∧ d.size ≤ r.2 ∧ r.2 < r.1.size ∧
      (∃ tc, r.1.dataOf r.2 = some (.element name attrs tc flags.mathmlIP)) := by
  unfold Dom.createElement
  by_cases hf : flags.template = true
  · simp only [hf, if_true]
    have hb1 : DomBase (d.alloc .document).1 := hb.alloc _ ⟨(by intro t h; cases h), (by intro n a tc ip h; cases h)⟩
    have hb2 := hb1.alloc (.element name attrs (some d.size) flags.mathmlIP)
      ⟨(by intro t h; cases h), (by
        intro n a tc ip h
        cases h
        refine ⟨Nat.ne_of_gt hb.size_pos, ?_⟩
        rw [dataOf_alloc]; simp)⟩
    refine ⟨hb2, (chg_alloc _ _).trans (chg_alloc _ _), ?_, ?_, ?_, ?_⟩
    · intro x; show ((d.alloc _).1.alloc _).1.childrenOf x = _; rw [childrenOf_alloc, childrenOf_alloc]
    · show d.size ≤ (d.alloc _).1.size; rw [size_alloc]; exact Nat.le_succ _
    · show (d.alloc _).1.size < ((d.alloc _).1.alloc _).1.size; rw [size_alloc (d.alloc _).1]; exact Nat.lt_succ_self _
    · refine ⟨some d.size, ?_⟩
      show ((d.alloc _).1.alloc _).1.dataOf (d.alloc _).1.size = _
      rw [dataOf_alloc]; simp; rfl
  · simp only [hf]
    have hb2 := hb.alloc (.element name attrs none flags.mathmlIP)
      ⟨(by intro t h; cases h), (by intro n a tc ip h; cases h)⟩
    refine ⟨hb2, chg_alloc _ _, ?_, Nat.le_refl _, ?_, ?_⟩
    · intro x; show (d.alloc _).1.childrenOf x = _; rw [childrenOf_alloc]
    · show d.size < (d.alloc _).1.size; rw [size_alloc]; exact Nat.lt_succ_self _
    · refine ⟨none, ?_⟩
      show (d.alloc _).1.dataOf d.size = _
      rw [dataOf_alloc]; simp

theorem createComment_spec {d : Dom} (hb : DomBase d) (text : Str) :
    let r := d.createComment text
    DomBase r.1 ∧ Chg d r.1 ∧ (∀ x, r.1.childrenOf x = d.childrenOf x) ∧ r.2 = d.size ∧ r.1.size = d.size + 1 ∧
      r.1.dataOf r.2 = some (.comment text) := by
  unfold Dom.createComment
  refine ⟨hb.alloc _ ⟨(by intro t h; cases h), (by intro n a tc ip h; cases h)⟩, chg_alloc _ _, ?_, rfl, size_alloc _ _, ?_⟩
  · intro x; show (d.alloc _).1.childrenOf x = _; rw [childrenOf_alloc]
  · show (d.alloc _).1.dataOf d.size = _; rw [dataOf_alloc]; simp

/-! ## `fn append` without the parent pointers -/

theorem appendRaw_eff {d d' : Dom} {p c : Id} (h : d.appendRaw p c = .ok d') :
    c < d.size ∧ p < d.size ∧
    (∀ x, d'.childrenOf x = if x = p then d.childrenOf p ++ [c] else d.childrenOf x) ∧
    (∀ x, d'.dataOf x = d.dataOf x) ∧ d'.size = d.size := by
  unfold Dom.appendRaw at h
  simp only [bind, Except.bind] at h
  cases hc : d.get c with
  | error e => simp [hc] at h
  | ok cn =>
    have hcn := get_ok.mp hc
    simp only [hc] at h
    by_cases hpar : cn.parent.isSome = true
    · simp [hpar, throw, throwThe, MonadExceptOf.throw] at h
    · simp only [hpar] at h
      cases hp : (d.setNode c { data := cn.data, parent := some p, children := cn.children }).get p with
      | error e => simp [hp] at h
      | ok pn =>
        simp [hp] at h
        have hpn := get_ok.mp hp
        rw [node?_setNode_of hcn] at hpn
        have hplt : p < d.size := by
          by_cases hpc : p = c
          · subst hpc; exact node?_lt hcn
          · simp [hpc] at hpn; exact node?_lt hpn
        have hpn' := get_ok.mp hp
        refine ⟨node?_lt hcn, hplt, ?_, ?_, ?_⟩
        · intro x; subst h
          rw [childrenOf_setNode hpn', childrenOf_setNode hcn]
          by_cases hxp : x = p
          · subst hxp
            simp only [if_true]
            by_cases hpc : x = c
            · subst hpc; simp at hpn; subst hpn; simp [childrenOf_of_node hcn]
            · simp [hpc] at hpn; simp [childrenOf_of_node hpn]
          · simp only [hxp, if_false]
            by_cases hxc : x = c
            · subst hxc; simp [childrenOf_of_node hcn]
            · simp [hxc]
        · intro x; subst h
          rw [dataOf_setNode hpn', dataOf_setNode hcn]
          by_cases hxp : x = p
          · subst hxp
            simp only [if_true]
            by_cases hpc : x = c
            · subst hpc; simp at hpn; subst hpn; simp [dataOf_of_node hcn]
            · simp [hpc] at hpn; simp [dataOf_of_node hpn]
          · simp only [hxp, if_false]
            by_cases hxc : x = c
            · subst hxc; simp [dataOf_of_node hcn]
            · simp [hxc]
        · subst h; simp [Dom.size, Dom.setNode]

theorem mem_of_indexOf? {t : Id} {l : List Id} {i : Nat} (h : indexOf? t l = some i) : t ∈ l := by
  exact List.mem_of_getElem? (indexOf?_getElem h)

theorem removeAt_ne_nil {l : List Id} {i : Nat} (h : removeAt l i ≠ []) : l ≠ [] := by
  intro hl; subst hl; simp [removeAt] at h

theorem mem_removeAt {l : List Id} {i : Nat} {x : Id} (h : x ∈ removeAt l i) : x ∈ l :=
  (removeAt_sublist l i).subset h

/-- `append(parent, node)` below a container -/
theorem append_node_spec {d d' : Dom} (hb : DomBase d) {p c : Id} (hp : d.isContainer p = true)
    (hcnd : d.dataOf c ≠ some .document) (h : d.append p (.node c) = .ok d') :
    DomBase d' ∧ Chg d d' ∧ c < d.size ∧
      (∀ x, d'.childrenOf x = if x = p then d.childrenOf p ++ [c] else d.childrenOf x) := by
  rw [append_node_eq] at h
  obtain ⟨hc, _, hk, hd, hs⟩ := appendRaw_eff h
  have hchg : Chg d d' := Chg.of_data_eq (Nat.le_of_eq hs.symm) (fun x _ => hd x)
  refine ⟨hb.step_one hchg (no_new_nodes hs) hk (hchg.isContainer hp) ?_, hchg, hc, hk⟩
  intro k hkm
  simp only [List.mem_append, List.mem_singleton] at hkm
  rcases hkm with hkm | rfl
  · exact ⟨by rw [hs]; exact hb.kidsValid p k hkm, Or.inl ⟨p, hkm⟩⟩
  · exact ⟨by rw [hs]; exact hc, Or.inr (by rw [hd]; exact hcnd)⟩

theorem children0_of_ne {d d' : Dom} {p : Id} {l : List Id} (hp : p ≠ 0)
    (hk : ∀ x, d'.childrenOf x = if x = p then l else d.childrenOf x) : d'.childrenOf 0 = d.childrenOf 0 := by
  rw [hk]; simp [Ne.symm hp]

/-- `append(parent, text)` below a container -/
theorem append_text_spec {d d' : Dom} (hb : DomBase d) {p : Id} {t : Str} (hp : d.isContainer p = true)
    (ht : t ≠ []) (h : d.append p (.text t) = .ok d') :
    DomBase d' ∧ Chg d d' ∧
      ((∀ x, d'.childrenOf x = d.childrenOf x) ∨
       (∀ x, d'.childrenOf x = if x = p then d.childrenOf p ++ [d.size] else d.childrenOf x) ∧
         d'.dataOf d.size = some (.text t)) := by
  obtain ⟨hplt, h1 | h2⟩ := append_text_ok h
  · obtain ⟨hl, old, _, hold, hsh, hd, hs⟩ := h1
    have hchg : Chg d d' := ⟨Nat.le_of_eq hs.symm, fun x _ => by
      rw [hd]
      by_cases hx : x = hl
      · subst hx; simp only [if_true]; rw [hold]; exact .text _ _
      · simp only [hx, if_false]; exact .same _⟩
    exact ⟨hb.step_same hchg (no_new_nodes hs) hsh.children, hchg, Or.inl hsh.children⟩
  · obtain ⟨_, hraw⟩ := h2
    obtain ⟨_, _, hk, hd, hs⟩ := appendRaw_eff hraw
    have hk' : ∀ x, d'.childrenOf x = if x = p then d.childrenOf p ++ [d.size] else d.childrenOf x := by
      intro x; rw [hk]; simp only [childrenOf_alloc]
    have hs' : d'.size = d.size + 1 := by rw [hs, size_alloc]
    have hd' : ∀ x, d'.dataOf x = if x = d.size then some (.text t) else d.dataOf x := by
      intro x; rw [hd, dataOf_alloc]
    have hchg : Chg d d' := Chg.of_data_eq (by omega) (fun x hx => by rw [hd']; simp [Nat.ne_of_lt hx])
    refine ⟨hb.step_one hchg ?_ hk' (hchg.isContainer hp) ?_, hchg, Or.inr ⟨hk', by rw [hd']; simp⟩⟩
    · intro x h1 h2
      have hx : x = d.size := by omega
      subst hx
      refine ⟨?_, ?_⟩
      · intro t' ht'; rw [hd'] at ht'; simp at ht'; subst ht'; exact ht
      · intro tc htc; unfold Dom.templateContentsOf at htc; rw [hd'] at htc; simp at htc
    · intro k hkm
      simp only [List.mem_append, List.mem_singleton] at hkm
      rcases hkm with hkm | rfl
      · exact ⟨by rw [hs']; exact Nat.lt_succ_of_lt (hb.kidsValid p k hkm), Or.inl ⟨p, hkm⟩⟩
      · exact ⟨by rw [hs']; exact Nat.lt_succ_self _, Or.inr (by rw [hd']; simp)⟩

/-- `remove_from_parent`: child lists only shrink; the list of `p` is untouched unless it contains the target -/
theorem removeFromParent_spec {d d' : Dom} (hb : DomBase d) {t : Id} (h : d.removeFromParent t = .ok d') :
    DomBase d' ∧ Chg d d' ∧ d'.size = d.size ∧ (∀ x, d'.dataOf x = d.dataOf x) ∧
      (∀ x, (d'.childrenOf x).Sublist (d.childrenOf x)) ∧
      (∀ x, t ∉ d.childrenOf x → d'.childrenOf x = d.childrenOf x) := by
  rcases removeFromParent_ok h with ⟨_, rfl⟩ | ⟨p, i, _, hi, _, hk, hd, hs, _⟩
  · exact ⟨hb, Chg.refl _, rfl, fun _ => rfl, fun _ => List.Sublist.refl _, fun _ _ => rfl⟩
  · have hchg : Chg d d' := Chg.of_data_eq (Nat.le_of_eq hs.symm) (fun x _ => hd x)
    have hsub : ∀ x, (d'.childrenOf x).Sublist (d.childrenOf x) := by
      intro x; rw [hk]
      by_cases hx : x = p
      · subst hx; simp only [if_true]; exact removeAt_sublist _ _
      · simp only [hx, if_false]; exact List.Sublist.refl _
    refine ⟨hb.step hchg (no_new_nodes hs) ?_ ?_ ?_, hchg, hs, hd, hsub, ?_⟩
    · intro x hx
      refine Or.inl ?_
      intro hnil
      have := hsub x
      rw [hnil] at this
      exact hx (List.eq_nil_of_sublist_nil this)
    · intro q k hkm; rw [hs]; exact hb.kidsValid q k ((hsub q).subset hkm)
    · intro q k hkm; exact Or.inl ⟨q, (hsub q).subset hkm⟩
    · intro x hx
      rw [hk]
      by_cases hxp : x = p
      · subst hxp; exact absurd (mem_of_indexOf? hi) hx
      · simp [hxp]

theorem mem_insertAt_iff {l : List Id} {i : Nat} {x y : Id} : y ∈ H5V.Model.Dom.insertAt l i x ↔ y = x ∨ y ∈ l := by
  unfold H5V.Model.Dom.insertAt
  simp only [List.mem_append, List.mem_cons]
  constructor
  · rintro (h | h | h)
    · exact Or.inr (List.mem_of_mem_take h)
    · exact Or.inl h
    · exact Or.inr (List.mem_of_mem_drop h)
  · rintro (h | h)
    · exact Or.inr (Or.inl h)
    · rw [← List.take_append_drop i l] at h
      rcases List.mem_append.mp h with h | h
      · exact Or.inl h
      · exact Or.inr (Or.inr h)

theorem insertAt_ne_nil (l : List Id) (i : Nat) (x : Id) : H5V.Model.Dom.insertAt l i x ≠ [] := by
  unfold H5V.Model.Dom.insertAt; simp

/-- the tail of `append_before_sibling`: detach the child, insert it into the list of `P` -/
theorem insertAtIndex_spec {d d' : Dom} (hb : DomBase d) {P c : Id} {i : Nat} (hP : d.isContainer P = true)
    (hP0 : P ≠ 0) (hc0 : c ∉ d.childrenOf 0) (hcnd : d.dataOf c ≠ some .document)
    (h : d.insertAtIndex P i c = .ok d') :
    DomBase d' ∧ Chg d d' ∧ d'.size = d.size ∧ d'.childrenOf 0 = d.childrenOf 0 := by
  obtain ⟨d1, hr, _, hclt, _, _, hk, hd, hs, _⟩ := insertAtIndex_ok h
  obtain ⟨hb1, hchg1, hs1, hd1, hsub1, hsame1⟩ := removeFromParent_spec hb hr
  have hchg2 : Chg d1 d' := Chg.of_data_eq (Nat.le_of_eq hs.symm) (fun x _ => hd x)
  have hk0 : d'.childrenOf 0 = d.childrenOf 0 := by
    rw [hk]; simp only [Ne.symm hP0, if_false]; exact hsame1 0 hc0
  have hb' : DomBase d' := by
    refine hb1.step_one hchg2 (no_new_nodes hs) hk (hchg2.isContainer (hchg1.isContainer hP)) ?_
    intro k hkm
    rcases mem_insertAt_iff.mp hkm with rfl | hkm
    · exact ⟨by rw [hs]; exact hclt, Or.inr (by rw [hd, hd1]; exact hcnd)⟩
    · exact ⟨by rw [hs]; exact hb1.kidsValid P k hkm, Or.inl ⟨P, hkm⟩⟩
  exact ⟨hb', hchg1.trans hchg2, by rw [hs, hs1], hk0⟩

/-- what may be inserted: a node that is not a child of the document, or non-empty text -/
def ChildOk (d : Dom) : NodeOrText → Prop
  | .node c => c ∉ d.childrenOf 0 ∧ d.dataOf c ≠ some .document
  | .text t => t ≠ []

theorem appendBeforeSibling_spec {e d' : Dom} (he : DomBase e) {sib : Id} {ch : NodeOrText}
    (hs0 : sib ∉ e.childrenOf 0) (hch : ChildOk e ch) (h : e.appendBeforeSibling sib ch = .ok d') :
    DomBase d' ∧ Chg e d' ∧ d'.childrenOf 0 = e.childrenOf 0 := by
  obtain ⟨P, i, _, hi, hPlt, hm⟩ := appendBeforeSibling_ok h
  have hsibP : sib ∈ e.childrenOf P := mem_of_indexOf? hi
  have hP0 : P ≠ 0 := by intro h0; subst h0; exact hs0 hsibP
  have hPc : e.isContainer P = true := he.cont P (List.ne_nil_of_mem hsibP)
  cases ch with
  | node c => exact (fun ⟨a, b, _, c⟩ => ⟨a, b, c⟩) (insertAtIndex_spec he hPc hP0 hch.1 hch.2 hm)
  | text t =>
    rcases hm with ⟨prev, old, _, _, hold, hsh, hd, hs⟩ | ⟨_, hins⟩
    · have hchg : Chg e d' := ⟨Nat.le_of_eq hs.symm, fun x _ => by
        rw [hd]
        by_cases hx : x = prev
        · subst hx; simp only [if_true]; rw [hold]; exact .text _ _
        · simp only [hx, if_false]; exact .same _⟩
      exact ⟨he.step_same hchg (no_new_nodes hs) hsh.children, hchg, hsh.children 0⟩
    · obtain ⟨_, _, hk, hd, hs, _⟩ := insertAtIndex_fresh_ok hins
      have hchg : Chg e d' := Chg.of_data_eq (by omega) (fun x hx => by rw [hd]; simp [Nat.ne_of_lt hx])
      have hk0 : d'.childrenOf 0 = e.childrenOf 0 := by rw [hk]; simp [Ne.symm hP0]
      refine ⟨he.step_one hchg ?_ hk (hchg.isContainer hPc) ?_, hchg, hk0⟩
      · intro x h1 h2
        have hx : x = e.size := by omega
        subst hx
        refine ⟨?_, ?_⟩
        · intro t' ht'; rw [hd] at ht'; simp at ht'; subst ht'; exact hch
        · intro tc htc; unfold Dom.templateContentsOf at htc; rw [hd] at htc; simp at htc
      · intro k hkm
        rcases mem_insertAt_iff.mp hkm with rfl | hkm
        · exact ⟨by rw [hs]; exact Nat.lt_succ_self _, Or.inr (by rw [hd]; simp)⟩
        · exact ⟨by rw [hs]; exact Nat.lt_succ_of_lt (he.kidsValid P k hkm), Or.inl ⟨P, hkm⟩⟩

/-- `append_before_sibling` (either variant) next to a sibling that is not a child of the document -/
theorem appendBeforeSiblingV_spec {b : Dom.BeforeSiblingVariant} {d d' : Dom} (hb : DomBase d) {sib : Id}
    {ch : NodeOrText} (hs0 : sib ∉ d.childrenOf 0) (hch : ChildOk d ch)
    (h : d.appendBeforeSiblingV b sib ch = .ok d') :
    DomBase d' ∧ Chg d d' ∧ d'.childrenOf 0 = d.childrenOf 0 := by
  rcases appendBeforeSiblingV_ok h with h1 | ⟨c, d1, he, hr, h2⟩
  · exact appendBeforeSibling_spec hb hs0 hch h1
  · subst he
    obtain ⟨hb1, hchg1, _, hd1, hsub1, hsame1⟩ := removeFromParent_spec hb hr
    have hch' : c ∉ d.childrenOf 0 := hch.1
    have h10 : d1.childrenOf 0 = d.childrenOf 0 := hsame1 0 hch'
    obtain ⟨a, b2, c2⟩ := appendBeforeSibling_spec hb1 (by rw [h10]; exact hs0)
      (by show c ∉ d1.childrenOf 0 ∧ _; rw [h10, hd1]; exact hch) h2
    exact ⟨a, hchg1.trans b2, by rw [c2, h10]⟩

/-- `append_based_on_parent_node` -/
theorem appendBasedOnParentNodeV_spec {b : Dom.BeforeSiblingVariant} {d d' : Dom} (hb : DomBase d) {e p : Id}
    {ch : NodeOrText} (he0 : e ∉ d.childrenOf 0) (hp : d.isContainer p = true) (hp0 : p ≠ 0)
    (hch : ChildOk d ch)
    (h : d.appendBasedOnParentNodeV b e p ch = .ok d') :
    DomBase d' ∧ Chg d d' ∧ d'.childrenOf 0 = d.childrenOf 0 := by
  unfold Dom.appendBasedOnParentNodeV at h
  simp only [bind, Except.bind] at h
  cases hg : d.get e with
  | error er => simp [hg] at h
  | ok en =>
    simp only [hg] at h
    by_cases hpar : en.parent.isSome = true
    · simp only [hpar, if_true] at h
      exact appendBeforeSiblingV_spec hb he0 hch h
    · simp only [hpar] at h
      cases ch with
      | node c =>
        obtain ⟨a, b2, _, hk⟩ := append_node_spec hb hp hch.2 h
        exact ⟨a, b2, children0_of_ne hp0 hk⟩
      | text t =>
        obtain ⟨a, b2, hk | ⟨hk, _⟩⟩ := append_text_spec hb hp hch h
        · exact ⟨a, b2, hk 0⟩
        · exact ⟨a, b2, children0_of_ne hp0 hk⟩

/-- `reparent_children` between two nodes other than the document -/
theorem reparentChildren_spec {d d' : Dom} (hb : DomBase d) {n np : Id} (hn0 : n ≠ 0) (hnp0 : np ≠ 0)
    (hnp : d.isContainer np = true) (h : d.reparentChildren n np = .ok d') :
    DomBase d' ∧ Chg d d' ∧ d'.childrenOf 0 = d.childrenOf 0 := by
  obtain ⟨_, _, _, _, hk, hd, hs, _⟩ := reparentChildren_ok h
  have hchg : Chg d d' := Chg.of_data_eq (Nat.le_of_eq hs.symm) (fun x _ => hd x)
  have hk0 : d'.childrenOf 0 = d.childrenOf 0 := by rw [hk]; simp [Ne.symm hn0, Ne.symm hnp0]
  have hmem : ∀ p c, c ∈ d'.childrenOf p → ∃ q, c ∈ d.childrenOf q := by
    intro p c hcm
    rw [hk] at hcm
    by_cases hxn : p = n
    · simp [hxn] at hcm
    · by_cases hxp : p = np
      · subst hxp
        simp only [hxn, if_true, if_false, List.mem_append] at hcm
        rcases hcm with hcm | hcm
        · exact ⟨p, hcm⟩
        · exact ⟨n, hcm⟩
      · simp only [hxn, hxp, if_false] at hcm; exact ⟨p, hcm⟩
  refine ⟨hb.step hchg (no_new_nodes hs) ?_ ?_ ?_, hchg, hk0⟩
  · intro x hx
    rw [hk] at hx
    by_cases hxn : x = n
    · simp [hxn] at hx
    · by_cases hxp : x = np
      · subst hxp; exact Or.inr (hchg.isContainer hnp)
      · simp only [hxn, hxp, if_false] at hx; exact Or.inl hx
  · intro p c hcm
    obtain ⟨q, hq⟩ := hmem p c hcm
    rw [hs]; exact hb.kidsValid q c hq
  · intro p c hcm; exact Or.inl (hmem p c hcm)

/-- `add_attrs_if_missing` -/
theorem addAttrsIfMissing_spec {d d' : Dom} (hb : DomBase d) {t : Id} {attrs : List Attr}
    (h : d.addAttrsIfMissing t attrs = .ok d') :
    DomBase d' ∧ Chg d d' ∧ (∀ x, d'.childrenOf x = d.childrenOf x) := by
  obtain ⟨name, ex, tc, ip, hdt, hsh, hd, hs⟩ := addAttrsIfMissing_ok h
  have hchg : Chg d d' := ⟨Nat.le_of_eq hs.symm, fun x _ => by
    rw [hd]
    by_cases hx : x = t
    · subst hx; simp only [if_true]; rw [hdt]; exact .attrs ..
    · simp only [hx, if_false]; exact .same _⟩
  exact ⟨hb.step_same hchg (no_new_nodes hs) hsh.children, hchg, hsh.children⟩

/-- `append_doctype_to_document` -/
theorem appendDoctype_spec {d d' : Dom} (hb : DomBase d) {n p s : Str}
    (h : d.appendDoctypeToDocument n p s = .ok d') :
    DomBase d' ∧ Chg d d' ∧ d'.childrenOf 0 = d.childrenOf 0 ++ [d.size] ∧
      d'.dataOf d.size = some (.doctype n p s) ∧ d'.size = d.size + 1 := by
  have h' : (d.alloc (.doctype n p s)).1.appendRaw 0 d.size = .ok d' := h
  obtain ⟨_, _, hk, hd, hs⟩ := appendRaw_eff h'
  have hk' : ∀ x, d'.childrenOf x = if x = 0 then d.childrenOf 0 ++ [d.size] else d.childrenOf x := by
    intro x; rw [hk]; simp only [childrenOf_alloc]
  have hs' : d'.size = d.size + 1 := by rw [hs, size_alloc]
  have hd' : ∀ x, d'.dataOf x = if x = d.size then some (.doctype n p s) else d.dataOf x := by
    intro x; rw [hd, dataOf_alloc]
  have hchg : Chg d d' := Chg.of_data_eq (by omega) (fun x hx => by rw [hd']; simp [Nat.ne_of_lt hx])
  have hc0 : d'.isContainer 0 = true := hchg.isContainer (by unfold Dom.isContainer; rw [hb.doc0])
  refine ⟨hb.step_one hchg ?_ hk' hc0 ?_, hchg, by rw [hk']; simp, by rw [hd']; simp, hs'⟩
  · intro x h1 h2
    have hx : x = d.size := by omega
    subst hx
    refine ⟨?_, ?_⟩
    · intro t' ht'; rw [hd'] at ht'; simp at ht'
    · intro tc htc; unfold Dom.templateContentsOf at htc; rw [hd'] at htc; simp at htc
  · intro k hkm
    simp only [List.mem_append, List.mem_singleton] at hkm
    rcases hkm with hkm | rfl
    · exact ⟨by rw [hs']; exact Nat.lt_succ_of_lt (hb.kidsValid 0 k hkm), Or.inl ⟨0, hkm⟩⟩
    · exact ⟨by rw [hs']; exact Nat.lt_succ_self _, Or.inr (by rw [hd']; simp)⟩

/-- `append(document, node)` -/
theorem append_doc_spec {d d' : Dom} (hb : DomBase d) {c : Id} (hcnd : d.dataOf c ≠ some .document)
    (h : d.append 0 (.node c) = .ok d') :
    DomBase d' ∧ Chg d d' ∧ c < d.size ∧ d'.childrenOf 0 = d.childrenOf 0 ++ [c] := by
  obtain ⟨a, b, c2, hk⟩ := append_node_spec hb (by unfold Dom.isContainer; rw [hb.doc0]) hcnd h
  exact ⟨a, b, c2, by rw [hk]; simp⟩

end H5V.Props.C06
