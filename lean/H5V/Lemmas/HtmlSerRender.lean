import H5V.Lemmas.HtmlSerEscape
/-!
Helper lemmas for C07, part 3: the serializer with its `ElemInfo` stack equals a pure renderer
that carries only the parent's `ElemInfo`; the rcdom op loop equals the recursive traversal.
-/
namespace H5V.Lemmas.HtmlSerRender
open H5V.Model.HtmlSer H5V.Lemmas.HtmlSerEscape

/-! ### the pure renderer -/

def renderAttr (cfg : Cfg) (a : Attr) : Bytes :=
  [0x20] ++ attrPrefix a.name ++ utf8 a.name.loc ++ [0x3D, 0x22]
    ++ escBytes cfg true (utf8 a.value) ++ [0x22]

def renderAttrs (cfg : Cfg) (as : List Attr) : Bytes := as.flatMap (renderAttr cfg)

/-- `<name attr="value"…>` -/
def startTagBytes (cfg : Cfg) (name : QualName) (attrs : List Attr) : Bytes :=
  [0x3C] ++ utf8 name.loc ++ renderAttrs cfg attrs ++ [0x3E]

/-- HTML-namespace element in the void list of `start_elem` -/
def isVoid (name : QualName) : Bool := name.ns == .html && isVoidName name.loc

/-- the `ElemInfo` `start_elem` pushes for an element that is written -/
def infoOf (name : QualName) : ElemInfo := ⟨htmlNameOf name, isVoid name⟩

/-- `</name>`, nothing for a void element -/
def endTagOf (name : QualName) : Bytes := if isVoid name then [] else endTagBytes name

def renderText (cfg : Cfg) (o : Opts) (p : ElemInfo) (t : List Char) : Bytes :=
  if escapeDecision o p.htmlName then escBytes cfg false (utf8 t) else utf8 t

def commentBytes (t : List Char) : Bytes := [0x3C, 0x21, 0x2D, 0x2D] ++ utf8 t ++ [0x2D, 0x2D, 0x3E]
def doctypeBytes (n : List Char) : Bytes :=
  [0x3C, 0x21, 0x44, 0x4F, 0x43, 0x54, 0x59, 0x50, 0x45, 0x20] ++ utf8 n ++ [0x3E]
def piBytes (t d : List Char) : Bytes := [0x3C, 0x3F] ++ utf8 t ++ [0x20] ++ utf8 d ++ [0x3E]

mutual
/-- bytes written for a node whose parent has info `p`; `none` = a Document node is met -/
def renderNode (cfg : Cfg) (o : Opts) (p : ElemInfo) : Node → Option Bytes
  | .element name attrs ch =>
    if p.ignoreChildren then renderForest cfg o ⟨htmlNameOf name, true⟩ ch
    else (renderForest cfg o (infoOf name) ch).map
      (fun inner => startTagBytes cfg name attrs ++ inner ++ endTagOf name)
  | .text t => some (renderText cfg o p t)
  | .comment t => some (commentBytes t)
  | .doctype n => some (doctypeBytes n)
  | .pi t d => some (piBytes t d)
  | .document _ => none
def renderForest (cfg : Cfg) (o : Opts) (p : ElemInfo) : List Node → Option Bytes
  | [] => some []
  | n :: ns =>
    match renderNode cfg o p n with
    | none => none
    | some a => (renderForest cfg o p ns).map (fun b => a ++ b)
end

def docSite : String := "Can't serialize Document node itself"

/-- the result of a traversal step described by a rendering -/
def Agrees (r : R Ser) (w : Option Bytes) (out : Bytes) (stack : List ElemInfo) : Prop :=
  match w with
  | some w => r = .ok ⟨out ++ w, stack⟩
  | none => ∃ out', r = .error ⟨docSite, out'⟩

/-! ### serializer methods on a non-empty stack -/

theorem writeAttrs_eq (cfg : Cfg) (as : List Attr) (out : Bytes) :
    writeAttrs cfg as out = .ok (out ++ renderAttrs cfg as) := by
  induction as generalizing out with
  | nil => simp [writeAttrs, renderAttrs]
  | cons a t ih =>
    simp only [writeAttrs, writeAttr, writeEscaped_eq, bind, Except.bind]
    rw [ih]
    simp [renderAttrs, renderAttr]

theorem startElem_eq (cfg : Cfg) (o : Opts) (name : QualName) (attrs : List Attr) (out : Bytes)
    (p : ElemInfo) (rest : List ElemInfo) :
    startElem cfg o name attrs ⟨out, p :: rest⟩ =
      if p.ignoreChildren then .ok ⟨out, ⟨htmlNameOf name, true⟩ :: p :: rest⟩
      else .ok ⟨out ++ startTagBytes cfg name attrs, infoOf name :: p :: rest⟩ := by
  simp only [startElem, parent, bind, Except.bind, writeAttrs_eq]
  split <;> simp [startTagBytes, infoOf, isVoid]

theorem endElem_eq (o : Opts) (name : QualName) (out : Bytes) (info : ElemInfo)
    (rest : List ElemInfo) :
    endElem o name ⟨out, info :: rest⟩ =
      .ok ⟨if info.ignoreChildren then out else out ++ endTagBytes name, rest⟩ := by
  simp only [endElem]
  split <;> simp_all

theorem writeText_eq (cfg : Cfg) (o : Opts) (t : List Char) (out : Bytes) (p : ElemInfo)
    (rest : List ElemInfo) :
    writeText cfg o t ⟨out, p :: rest⟩ = .ok ⟨out ++ renderText cfg o p t, p :: rest⟩ := by
  simp only [writeText, parent, bind, Except.bind, writeEscaped_eq, renderText]
  split <;> simp

/-! ### traversal = renderer -/

mutual
theorem serNode_agrees (cfg : Cfg) (o : Opts) :
    ∀ (n : Node) (p : ElemInfo) (rest : List ElemInfo) (out : Bytes),
      Agrees (serNode cfg o n ⟨out, p :: rest⟩) (renderNode cfg o p n) out (p :: rest)
  | .element name attrs ch, p, rest, out => by
    unfold serNode renderNode
    rw [startElem_eq]
    cases hp : p.ignoreChildren
    case true =>
      simp only [if_true, bind, Except.bind]
      have ih := serForest_agrees cfg o ch ⟨htmlNameOf name, true⟩ (p :: rest) out
      revert ih
      cases renderForest cfg o ⟨htmlNameOf name, true⟩ ch with
      | none => rintro ⟨out', h⟩; exact ⟨out', by rw [h]⟩
      | some w => intro h; simp only [Agrees] at h ⊢; rw [h]; simp [endElem_eq]
    case false =>
      simp only [Bool.false_eq_true, if_false, bind, Except.bind]
      have ih := serForest_agrees cfg o ch (infoOf name) (p :: rest)
        (out ++ startTagBytes cfg name attrs)
      revert ih
      cases renderForest cfg o (infoOf name) ch with
      | none => rintro ⟨out', h⟩; exact ⟨out', by rw [h]⟩
      | some w =>
        intro h; simp only [Agrees, Option.map] at h ⊢; rw [h]
        simp only [endElem_eq, infoOf, endTagOf]
        cases isVoid name <;> simp
  | .text t, p, rest, out => by
    simp [serNode, renderNode, Agrees, writeText_eq]
  | .comment t, p, rest, out => by
    simp [serNode, renderNode, Agrees, writeComment, commentBytes]
  | .doctype t, p, rest, out => by
    simp [serNode, renderNode, Agrees, writeDoctype, doctypeBytes]
  | .pi t d, p, rest, out => by
    simp [serNode, renderNode, Agrees, writePI, piBytes]
  | .document ch, p, rest, out => by
    simp [serNode, renderNode, Agrees, docSite]
theorem serForest_agrees (cfg : Cfg) (o : Opts) :
    ∀ (f : List Node) (p : ElemInfo) (rest : List ElemInfo) (out : Bytes),
      Agrees (serForest cfg o f ⟨out, p :: rest⟩) (renderForest cfg o p f) out (p :: rest)
  | [], p, rest, out => by simp [serForest, renderForest, Agrees]
  | n :: ns, p, rest, out => by
    unfold serForest renderForest
    have h1 := serNode_agrees cfg o n p rest out
    revert h1
    cases renderNode cfg o p n with
    | none => rintro ⟨out', h⟩; exact ⟨out', by simp [h, bind, Except.bind]⟩
    | some a =>
      intro h; simp only [Agrees] at h
      simp only [h, bind, Except.bind]
      have h2 := serForest_agrees cfg o ns p rest (out ++ a)
      revert h2
      cases renderForest cfg o p ns with
      | none => rintro ⟨out', h⟩; exact ⟨out', h⟩
      | some b => intro h; simp only [Agrees, Option.map] at h ⊢; rw [h]; simp
end

/-! ### whole serialisations -/

/-- the root `ElemInfo` built by `HtmlSerializer::new` -/
def scopeInfo (cfg : Cfg) : Scope → ElemInfo
  | .includeNode => ⟨none, false⟩
  | .childrenOnly none => ⟨none, false⟩
  | .childrenOnly (some n) =>
    ⟨if cfg.fixNs && n.ns != .html then none else some n.loc, cfg.fixVoid && isVoid n⟩

theorem new_eq (cfg : Cfg) (scope : Scope) : new cfg scope = ⟨[], [scopeInfo cfg scope]⟩ := by
  cases scope with
  | includeNode => rfl
  | childrenOnly n => cases n <;> rfl

/-- what `serialize` writes, as a rendering -/
def renderRoot (cfg : Cfg) (scope : Scope) (o : Opts) (root : Node) : Option Bytes :=
  match scope with
  | .includeNode => renderNode cfg o (scopeInfo cfg scope) root
  | .childrenOnly _ => renderForest cfg o (scopeInfo cfg scope) root.children

theorem serialize_eq (cfg : Cfg) (scope : Scope) (o : Opts) (root : Node) :
    match renderRoot cfg scope o root with
    | some w => serialize cfg scope o root = .ok w
    | none => ∃ out', serialize cfg scope o root = .error ⟨docSite, out'⟩ := by
  unfold serialize renderRoot
  rw [new_eq]
  cases scope with
  | includeNode =>
    have h := serNode_agrees cfg o root (scopeInfo cfg .includeNode) [] []
    revert h
    simp only []
    cases renderNode cfg o (scopeInfo cfg .includeNode) root with
    | none => rintro ⟨out', h⟩; exact ⟨out', by rw [h]; rfl⟩
    | some w => intro h; simp only [Agrees] at h; rw [h]; simp [Except.map]
  | childrenOnly x =>
    have h := serForest_agrees cfg o root.children (scopeInfo cfg (.childrenOnly x)) [] []
    revert h
    simp only []
    cases renderForest cfg o (scopeInfo cfg (.childrenOnly x)) root.children with
    | none => rintro ⟨out', h⟩; exact ⟨out', by rw [h]; rfl⟩
    | some w => intro h; simp only [Agrees] at h; rw [h]; simp [Except.map]

/-! ### the renderer reads the parent's info only through two bits -/

theorem renderNode_congr (cfg : Cfg) (o : Opts) (p q : ElemInfo)
    (hi : p.ignoreChildren = q.ignoreChildren)
    (he : escapeDecision o p.htmlName = escapeDecision o q.htmlName) (n : Node) :
    renderNode cfg o p n = renderNode cfg o q n := by
  cases n <;> simp [renderNode, renderText, hi, he]

theorem renderForest_congr (cfg : Cfg) (o : Opts) (p q : ElemInfo)
    (hi : p.ignoreChildren = q.ignoreChildren)
    (he : escapeDecision o p.htmlName = escapeDecision o q.htmlName) (f : List Node) :
    renderForest cfg o p f = renderForest cfg o q f := by
  induction f with
  | nil => simp [renderForest]
  | cons n ns ih => simp [renderForest, renderNode_congr cfg o p q hi he n, ih]

/-! ### rcdom's op loop = the recursive traversal -/

/-- the op list read recursively -/
def serOps (cfg : Cfg) (o : Opts) : List SerOp → Ser → R Ser
  | [], s => .ok s
  | .close name :: ops, s => do
    let s ← endElem o name s
    serOps cfg o ops s
  | .openNode n :: ops, s => do
    let s ← serNode cfg o n s
    serOps cfg o ops s

theorem serOps_open_append (cfg : Cfg) (o : Opts) (f : List Node) (ops : List SerOp) (s : Ser) :
    serOps cfg o (f.map .openNode ++ ops) s = (serForest cfg o f s >>= serOps cfg o ops) := by
  induction f generalizing s with
  | nil => simp [serForest, bind, Except.bind]
  | cons n ns ih =>
    simp only [List.map_cons, List.cons_append, serOps, serForest, bind, Except.bind]
    cases serNode cfg o n s with
    | error e => rfl
    | ok s' => simpa [bind, Except.bind] using ih s'

theorem opsSize_open_append (f : List Node) (ops : List SerOp) :
    opsSize (f.map .openNode ++ ops) = forestSize f + opsSize ops := by
  induction f with
  | nil => simp [forestSize]
  | cons n ns ih => simp [opsSize, forestSize, SerOp.size, ih]; omega

theorem runOps_eq_serOps (cfg : Cfg) (o : Opts) :
    ∀ (fuel : Nat) (ops : List SerOp) (s : Ser), opsSize ops ≤ fuel →
      runOps cfg o fuel ops s = serOps cfg o ops s := by
  intro fuel
  induction fuel with
  | zero =>
    intro ops s h
    cases ops with
    | nil => simp [runOps, serOps]
    | cons op t =>
      exfalso
      cases op with
      | close n => simp [opsSize, SerOp.size] at h
      | openNode n => cases n <;> simp [opsSize, SerOp.size, Node.size] at h
  | succ fuel ih =>
    intro ops s h
    cases ops with
    | nil => simp [runOps, serOps]
    | cons op t =>
      cases op with
      | close name =>
        simp only [runOps, serOps, bind, Except.bind]
        cases endElem o name s with
        | error e => rfl
        | ok s' => exact ih t s' (by simp [opsSize, SerOp.size] at h; omega)
      | openNode n =>
        cases n with
        | element name attrs ch =>
          simp only [runOps, serOps, serNode, bind, Except.bind]
          cases startElem cfg o name attrs s with
          | error e => rfl
          | ok s' =>
            simp only []
            rw [ih _ s' (by
              rw [opsSize_open_append]
              simp [opsSize, SerOp.size, Node.size] at h ⊢; omega)]
            rw [serOps_open_append]
            simp only [bind, Except.bind, serOps]
            cases serForest cfg o ch s' <;> rfl
        | text x =>
          simp only [runOps, serOps, serNode, bind, Except.bind]
          cases writeText cfg o x s with
          | error e => rfl
          | ok s' => exact ih t s' (by simp [opsSize, SerOp.size, Node.size] at h; omega)
        | comment x =>
          simp only [runOps, serOps, serNode, bind, Except.bind]
          cases writeComment x s with
          | error e => rfl
          | ok s' => exact ih t s' (by simp [opsSize, SerOp.size, Node.size] at h; omega)
        | doctype x =>
          simp only [runOps, serOps, serNode, bind, Except.bind]
          cases writeDoctype x s with
          | error e => rfl
          | ok s' => exact ih t s' (by simp [opsSize, SerOp.size, Node.size] at h; omega)
        | pi x y =>
          simp only [runOps, serOps, serNode, bind, Except.bind]
          cases writePI x y s with
          | error e => rfl
          | ok s' => exact ih t s' (by simp [opsSize, SerOp.size, Node.size] at h; omega)
        | document ch =>
          simp [runOps, serOps, serNode, bind, Except.bind]

/-! ### trees without Document nodes never panic -/

mutual
def docFree : Node → Bool
  | .element _ _ ch => forestDocFree ch
  | .document _ => false
  | _ => true
def forestDocFree : List Node → Bool
  | [] => true
  | n :: ns => docFree n && forestDocFree ns
end

mutual
theorem renderNode_some (cfg : Cfg) (o : Opts) :
    ∀ (n : Node) (p : ElemInfo), docFree n = true → (renderNode cfg o p n).isSome = true
  | .element name attrs ch, p, h => by
    unfold docFree at h
    unfold renderNode
    split
    · exact renderForest_some cfg o ch _ h
    · have := renderForest_some cfg o ch (infoOf name) h
      simpa using this
  | .text _, _, _ => by simp [renderNode]
  | .comment _, _, _ => by simp [renderNode]
  | .doctype _, _, _ => by simp [renderNode]
  | .pi _ _, _, _ => by simp [renderNode]
  | .document _, _, h => by simp [docFree] at h
theorem renderForest_some (cfg : Cfg) (o : Opts) :
    ∀ (f : List Node) (p : ElemInfo), forestDocFree f = true → (renderForest cfg o p f).isSome = true
  | [], _, _ => by simp [renderForest]
  | n :: ns, p, h => by
    unfold forestDocFree at h
    simp only [Bool.and_eq_true] at h
    have h1 := renderNode_some cfg o n p h.1
    have h2 := renderForest_some cfg o ns p h.2
    unfold renderForest
    cases hn : renderNode cfg o p n with
    | none => simp [hn] at h1
    | some a => simpa using h2
end

end H5V.Lemmas.HtmlSerRender
