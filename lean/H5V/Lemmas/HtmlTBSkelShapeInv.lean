import H5V.Lemmas.HtmlTBSkelAdjOps
/-!
C06, second invariant layer, part 5: the invariant `ShapeAt` and its stability under queries and
under sink calls that leave the root alone.
-/
namespace H5V.Props.C06
open H5V.Model.Dom hiding Str
open H5V.Model.HtmlTB hiding Str
open H5V.Lemmas.Dom

/-- every formatting element among the element children of the root has an entry with its name in the list
of active formatting elements (such children arise only by reconstruction in the after-after-frameset mode) -/
def Afx (d : Dom) (af : List FormatEntry) (r : Id) : Prop :=
  ∀ x ∈ rootElems d r, isFmtE (nm d x) = true →
    ∃ y t, FormatEntry.element y t ∈ af ∧ t.name = (nm d x).loc

/-- the mode-independent part of the stack-shape invariant -/
structure Core (s : State) (r : Id) (up : List Id) (ph : Phase) : Prop where
  late : Late s
  stack : s.openElems = r :: up
  rdoc : r ∈ s.dom.childrenOf 0
  nodup : s.openElems.Nodup
  tg : TG (nm s.dom) s.openElems
  afn : ∀ h t, FormatEntry.element h t ∈ s.activeFormatting →
    isOneOf t.name fmtNames = true ∧ nm s.dom h = ⟨nsHtml, t.name⟩ ∧ s.dom.isElement h = true
  tc : tcount s.dom s.openElems ≤ s.templateModes.length
  tmm : ∀ m ∈ s.templateModes, tmplModeOk m = true
  form : ∀ f, s.formElem = some f → nm s.dom f = hN "form" ∧ s.dom.isElement f = true
  rtu : RTU r s.dom
  rnd : (s.dom.childrenOf r).Nodup
  kids : ∀ c ∈ s.dom.childrenOf r, KidOkR s.dom c
  elems : ElemsOk s.dom s.headElem r ph
  bh : ∀ y ∈ up.tail, htmlIn (nm s.dom y) (bhNames ph) = false
  afx : Afx s.dom s.activeFormatting r
  adj : AdjD s.dom s.openElems

/-- **the stack-shape invariant** -/
structure ShapeAt (s : State) (r : Id) (up : List Id) (ph : Phase) : Prop where
  core : Core s r up ph
  fits : FitsM s up ph

def Shape (s : State) : Prop := ∃ r up ph, ShapeAt s r up ph

theorem bh_of4 {n : EName} {ph : Phase} (h : htmlIn n ["html", "body", "head", "frameset"] = false) :
    htmlIn n (bhNames ph) = false := by
  cases ph <;> first | exact h | skip
  unfold bhNames
  unfold htmlIn isOneOf at h ⊢
  simp only [List.any_cons, List.any_nil, Bool.or_false, Bool.and_eq_false_iff, Bool.or_eq_false_iff] at h ⊢
  rcases h with h | h
  · exact Or.inl h
  · exact Or.inr ⟨h.1, h.2.1, h.2.2.1⟩

theorem Core.bh4 {s : State} {r : Id} {up : List Id} {ph : Phase} (h : Core s r up ph) (hnp : ¬ ph.isPf) :
    ∀ y ∈ up.tail, htmlIn (nm s.dom y) ["html", "body", "head", "frameset"] = false := by
  intro y hy
  have := h.bh y hy
  cases ph <;> first | exact this | exact absurd trivial hnp

/-! ### stability of the name-dependent notions -/

/-- the names of the listed nodes are the same in both arenas -/
def SameNames (d d' : Dom) (l : List Id) : Prop := ∀ x ∈ l, nm d' x = nm d x

theorem SameNames.of_chg {d d' : Dom} {l : List Id} (h : Chg d d') (hel : ∀ x ∈ l, d.isElement x = true) :
    SameNames d d' l := fun x hx => nm_chg h (hel x hx)

theorem Need.congr {d d' : Dom} {m : Mode} {up : List Id} (hn : SameNames d d' up) (h : Need d m up) : Need d' m up := by
  cases m <;> try exact h
  all_goals
    obtain ⟨x, hx, hh⟩ := h
    exact ⟨x, hx, by rw [hn x hx]; exact hh⟩

theorem BodyBase.congr {d d' : Dom} {head : Option Id} {up : List Id} {ph : Phase} (hn : SameNames d d' up)
    (h : BodyBase d head up ph) : BodyBase d' head up ph := by
  rcases h with h | ⟨hh, t, up', h1, h2, h3, h4⟩ | ⟨t, up', h2, h3, h4, h5⟩
  · exact Or.inl h
  · exact Or.inr (Or.inl ⟨hh, t, up', h1, h2, by rw [hn t (by rw [h2]; simp)]; exact h3, h4⟩)
  · exact Or.inr (Or.inr ⟨t, up', h2, by rw [hn t (by rw [h2]; simp)]; exact h3, h4, h5⟩)

theorem Fits.congr {d d' : Dom} {head : Option Id} {m : Mode} {up : List Id} {ph : Phase}
    (hn : SameNames d d' up) (h : Fits d head m up ph) : Fits d' head m up ph := by
  cases m <;> try exact h
  all_goals first
    | exact ⟨h.1.congr hn, h.2.congr hn⟩
    | skip
  · -- inHeadNoscript
    obtain ⟨hh, x, h1, h2, h3, h4⟩ := h
    exact ⟨hh, x, h1, h2, h3, by rw [hn x (by rw [h2]; simp)]; exact h4⟩
  · -- inFrameset
    obtain ⟨fs, up', h1, h2, h3⟩ := h
    exact ⟨fs, up', h1, h2, fun x hx => by rw [hn x hx]; exact h3 x hx⟩
  · -- afterAfterFrameset
    exact ⟨h.1, fun x hx => by rw [hn x hx]; exact h.2 x hx⟩

theorem Chg.isElement_eq {d d' : Dom} (h : Chg d d') {x : Id} (hx : x < d.size) : d'.isElement x = d.isElement x := by
  have hs := (h.data x hx).skel
  unfold Dom.isElement
  cases h1 : d.dataOf x <;> cases h2 : d'.dataOf x <;> simp [h1, h2] at hs ⊢
  rename_i v v'
  cases v <;> cases v' <;> simp [skelT] at hs <;> rfl

theorem Chg.comment {d d' : Dom} (h : Chg d d') {x : Id} {t : Str} (hx : d.dataOf x = some (.comment t)) :
    d'.dataOf x = some (.comment t) := by
  have := h.data x (lt_of_data hx)
  rw [hx] at this
  generalize hv : d'.dataOf x = v at this
  cases this; rfl

theorem rootElems_eq {d d' : Dom} {r : Id} (hb : DomBase d) (hc : Chg d d') (hk : d'.childrenOf r = d.childrenOf r) :
    rootElems d' r = rootElems d r := by
  unfold rootElems
  rw [hk]
  apply List.filter_congr
  intro x hx
  exact hc.isElement_eq (hb.kidsValid r x hx)

theorem mem_rootElems {d : Dom} {r x : Id} (h : x ∈ rootElems d r) : x ∈ d.childrenOf r ∧ d.isElement x = true := by
  unfold rootElems at h
  exact List.mem_filter.mp h

theorem ElemsOk.congr {d d' : Dom} {head : Option Id} {r : Id} {ph : Phase} (hb : DomBase d) (hc : Chg d d')
    (hk : d'.childrenOf r = d.childrenOf r) (h : ElemsOk d head r ph) : ElemsOk d' head r ph := by
  have hre := rootElems_eq hb hc hk
  have hnm : ∀ x ∈ rootElems d r, nm d' x = nm d x := fun x hx => nm_chg hc (mem_rootElems hx).2
  cases ph with
  | p0 => exact ⟨h.1, by rw [hre]; exact h.2⟩
  | p1 =>
    obtain ⟨hh, h1, h2, h3⟩ := h
    exact ⟨hh, h1, by rw [hre]; exact h2, by rw [hnm hh (by rw [h2]; simp)]; exact h3⟩
  | pb b =>
    obtain ⟨hh, h1, h2, h3, h4⟩ := h
    exact ⟨hh, h1, by rw [hre]; exact h2, by rw [hnm hh (by rw [h2]; simp)]; exact h3,
      by rw [hnm b (by rw [h2]; simp)]; exact h4⟩
  | pf fs =>
    obtain ⟨hh, ex, h1, h2, h3, h4, h5⟩ := h
    refine ⟨hh, ex, h1, by rw [hre]; exact h2, by rw [hnm hh (by rw [h2]; simp)]; exact h3,
      by rw [hnm fs (by rw [h2]; simp)]; exact h4, ?_⟩
    intro x hx
    rw [hnm x (by rw [h2]; simp [hx])]
    exact h5 x hx

theorem KidOkR.congr {d d' : Dom} {r c : Id} (hc : Chg d d') (hrs : RS r d d') (hcm : c ∈ d.childrenOf r)
    (h : KidOkR d c) : KidOkR d' c := by
  rcases h with h | ⟨t, h⟩ | ⟨t, h, hw⟩
  · exact Or.inl (hc.isElement h)
  · exact Or.inr (Or.inl ⟨t, hc.comment h⟩)
  · refine Or.inr (Or.inr ⟨t, ?_, hw⟩)
    rw [hrs.text c hcm (by unfold Dom.isText; rw [h])]; exact h

theorem tcount_congr {d d' : Dom} {l : List Id} (hn : SameNames d d' l) : tcount d' l = tcount d l := by
  unfold tcount
  apply List.countP_congr
  intro x hx
  rw [hn x hx]

theorem Afx.congr {d d' : Dom} {af af' : List FormatEntry} {r : Id} (hre : rootElems d' r = rootElems d r)
    (hnm : ∀ x ∈ rootElems d r, nm d' x = nm d x)
    (haf : ∀ y t, FormatEntry.element y t ∈ af → ∃ y', FormatEntry.element y' t ∈ af') (h : Afx d af r) :
    Afx d' af' r := by
  intro x hx hf
  rw [hre] at hx
  rw [hnm x hx] at hf ⊢
  obtain ⟨y, t, hy, ht⟩ := h x hx hf
  obtain ⟨y', hy'⟩ := haf y t hy
  exact ⟨y', t, hy', ht⟩

theorem Afx.same {d : Dom} {af af' : List FormatEntry} {r : Id}
    (haf : ∀ y t, FormatEntry.element y t ∈ af → ∃ y', FormatEntry.element y' t ∈ af') (h : Afx d af r) :
    Afx d af' r := h.congr rfl (fun _ _ => rfl) haf

theorem Afx.of_nodes {d d' : Dom} {af : List FormatEntry} {r : Id} (hn : d'.nodes = d.nodes) (h : Afx d af r) :
    Afx d' af r := by
  have hre : rootElems d' r = rootElems d r := by
    unfold rootElems
    rw [childrenOf_of_nodes hn]
    apply List.filter_congr
    intro x _
    exact isElement_of_nodes hn x
  exact h.congr hre (fun x _ => nm_of_nodes hn x) (fun y t hy => ⟨y, hy⟩)

/-- before the frameset phase no child of the root is a formatting element -/
theorem Afx.of_elems {d : Dom} {head : Option Id} {r : Id} {ph : Phase} {af : List FormatEntry}
    (h : ElemsOk d head r ph) (hnp : ¬ ph.isPf) : Afx d af r := by
  intro x hx hf
  exfalso
  cases ph with
  | p0 => rw [h.2] at hx; cases hx
  | p1 =>
    obtain ⟨hh, _, h2, h3⟩ := h
    rw [h2] at hx
    simp only [List.mem_cons, List.not_mem_nil, or_false] at hx
    subst hx
    rw [h3] at hf; revert hf; decide
  | pb b =>
    obtain ⟨hh, _, h2, h3, h4⟩ := h
    rw [h2] at hx
    simp only [List.mem_cons, List.not_mem_nil, or_false] at hx
    rcases hx with rfl | rfl
    · rw [h3] at hf; revert hf; decide
    · rw [h4] at hf; revert hf; decide
  | pf fs => exact hnp trivial

/-- the general transfer lemma: the builder fields the invariant looks at are unchanged, the arena
changed by `Chg`, and the root was left alone -/
theorem Core.transfer {s s' : State} {r : Id} {up : List Id} {ph : Phase} (h : Core s r up ph)
    (hl : Late s') (hc : Chg s.dom s'.dom) (hrs : RS r s.dom s'.dom) (hk0 : r ∈ s'.dom.childrenOf 0)
    (hoe : s'.openElems = s.openElems) (haf : s'.activeFormatting = s.activeFormatting)
    (htm : s'.templateModes = s.templateModes) (hform : s'.formElem = s.formElem)
    (hhead : s'.headElem = s.headElem) (hadj : AdjD s'.dom s'.openElems) : Core s' r up ph := by
  have hb := h.late.base
  have hel : ∀ x ∈ s.openElems, s.dom.isElement x = true := h.late.st.oe
  have hsn : SameNames s.dom s'.dom s.openElems := SameNames.of_chg hc hel
  refine ⟨hl, by rw [hoe]; exact h.stack, hk0, by rw [hoe]; exact h.nodup, ?_, ?_, ?_, by rw [htm]; exact h.tmm, ?_,
    hrs.uniq h.rtu, by rw [hrs.kids]; exact h.rnd, ?_, ?_, ?_, ?_, hadj⟩
  · rw [hoe]; exact h.tg.congr hsn
  · intro x t hx
    rw [haf] at hx
    obtain ⟨h1, h2, h3⟩ := h.afn x t hx
    exact ⟨h1, by rw [nm_chg hc h3]; exact h2, hc.isElement h3⟩
  · rw [hoe, htm, tcount_congr hsn]; exact h.tc
  · intro f hf
    rw [hform] at hf
    obtain ⟨h1, h2⟩ := h.form f hf
    exact ⟨by rw [nm_chg hc h2]; exact h1, hc.isElement h2⟩
  · intro c hcm
    rw [hrs.kids] at hcm
    exact (h.kids c hcm).congr hc hrs hcm
  · rw [hhead]; exact h.elems.congr hb hc hrs.kids
  · intro y hy
    rw [hsn y (by rw [h.stack]; exact List.mem_cons_of_mem _ (List.mem_of_mem_tail hy))]
    exact h.bh y hy
  · rw [haf]
    exact h.afx.congr (rootElems_eq hb hc hrs.kids) (fun x hx => nm_chg hc (mem_rootElems hx).2)
      (fun y t hy => ⟨y, hy⟩)

theorem Core.sameNames {s s' : State} {r : Id} {up : List Id} {ph : Phase} (h : Core s r up ph)
    (hc : Chg s.dom s'.dom) : SameNames s.dom s'.dom up :=
  fun x hx => nm_chg hc (h.late.st.oe x (by rw [h.stack]; simp [hx]))

theorem FitsM.transfer {s s' : State} {up : List Id} {ph : Phase} (hf : FitsM s up ph)
    (hsnu : SameNames s.dom s'.dom up) (hhead : s'.headElem = s.headElem) (hmode : s'.mode = s.mode)
    (horig : s'.origMode = s.origMode) : FitsM s' up ph := by
  unfold FitsM at hf ⊢
  rw [hmode, horig, hhead]
  cases hm : s.mode <;> simp only [hm] at hf ⊢
  all_goals first
    | exact hf.congr hsnu
    | skip
  · obtain ⟨om, up0, x, h1, h2, h3, h4, h5, h6⟩ := hf
    exact ⟨om, up0, x, h1, h2, h3, h4, h5.congr (fun y hy => hsnu y (by rw [h2]; simp [hy])),
      by rw [hsnu x (by rw [h2]; simp)]; exact h6.1, by rw [hsnu x (by rw [h2]; simp)]; exact h6.2⟩
  · obtain ⟨om, h1, h2, h3⟩ := hf
    exact ⟨om, h1, h2, h3.congr hsnu⟩

theorem Core.qs {s s' : State} {r : Id} {up : List Id} {ph : Phase} (h : Core s r up ph) (q : QS s s') :
    Core s' r up ph := by
  have hr := q.rest
  have hoe : s'.openElems = s.openElems := by rw [hr]
  refine h.transfer (h.late.same q.same3) (SameSk.of_nodes q.nodes).chg (RS.of_nodes q.nodes)
    (by rw [childrenOf_of_nodes q.nodes]; exact h.rdoc) ?_ ?_ ?_ ?_ ?_
    (by rw [hoe]; exact h.adj.of_nodes q.nodes) <;> rw [hr]

theorem ShapeAt.qs {s s' : State} {r : Id} {up : List Id} {ph : Phase} (h : ShapeAt s r up ph) (q : QS s s') :
    ShapeAt s' r up ph := by
  have hr := q.rest
  refine ⟨h.core.qs q, h.fits.transfer (h.core.sameNames (SameSk.of_nodes q.nodes).chg) ?_ ?_ ?_⟩ <;> rw [hr]

end H5V.Props.C06
