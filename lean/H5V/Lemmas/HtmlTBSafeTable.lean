import H5V.Lemmas.HtmlTBSafeRules0
/-!
# Tree-builder safety, part 10: the table insertion modes

`InTable`, `InTableText`, `InCaption`, `InColumnGroup`, `InTableBody`, `InRow`, `InCell`
(rules.rs:1042–1400) and their helpers `foster_parent_in_body`, `process_chars_in_table`.
-/
namespace H5V.Lemmas.TBSafe
open H5V.Model.HtmlTB
open H5V.Model.Dom (Id QualName Attr NodeOrText SinkOp Output ElementFlags QuirksMode Dom NodeData Node)

variable {al : Allow}

/-! ### general helpers -/

private theorem Rooted.ne_nil {d : Dom} {l : List Id} (h : Rooted d l) : l ≠ [] := by
  obtain ⟨r, rest, hl, _⟩ := h; rw [hl]; simp

/-- an element of a rooted stack whose name is not `html` has something below it -/
private theorem Rooted.pre_ne {d : Dom} {l pre post : List Id} {x : Id} (hr : Rooted d l) (heq : l = pre ++ x :: post)
    (hx : nm d x ≠ htmlName) : pre ≠ [] := by
  rintro rfl
  obtain ⟨r, rest, hl, hn⟩ := hr
  rw [hl] at heq
  simp only [List.nil_append, List.cons.injEq] at heq
  rw [← heq.1] at hx
  exact hx hn

private theorem getLast?_pre_ne {pre : List Id} {x : Id} (h : pre.getLast? = some x) : pre ≠ [] := by
  rintro rfl; simp at h

private theorem dropLast_ne_nil {l : List Id} (h : 2 ≤ l.length) : l.dropLast ≠ [] := by
  intro e
  have := congrArg List.length e
  rw [List.length_dropLast] at this
  simp at this
  omega

private theorem keeps_triv {m : Mode} {s s' : State} (h : ∀ n, modeNeed m n = false) : Keeps (modeNeed m) s s' := by
  intro x _ hp; rw [h] at hp; cases hp

private theorem isStart_name {tag : Tag} {l : List String} (h : tag.isStart l = true) : isOneOf tag.name l = true := by
  simp only [Tag.isStart, Bool.and_eq_true] at h; exact h.2

private theorem isEnd_name {tag : Tag} {l : List String} (h : tag.isEnd l = true) : isOneOf tag.name l = true := by
  simp only [Tag.isEnd, Bool.and_eq_true] at h; exact h.2

private theorem isOneOf_mono {n : Str} {l l' : List String} (h : isOneOf n l = true) (hs : ∀ x ∈ l, x ∈ l') :
    isOneOf n l' = true := by
  simp only [isOneOf, List.any_eq_true] at h ⊢
  obtain ⟨x, hx, hb⟩ := h
  exact ⟨x, hs x hx, hb⟩

private theorem isStart_mono {tag : Tag} {l l' : List String} (h : tag.isStart l = true) (hs : ∀ x ∈ l, x ∈ l') :
    tag.isStart l' = true := by
  simp only [Tag.isStart, Bool.and_eq_true] at h ⊢
  exact ⟨h.1, isOneOf_mono h.2 hs⟩

/-- a name of a list that contains neither `template` nor `head` -/
private theorem newOk_of {n : Str} {l : List String} (h : isOneOf n l = true)
    (h1 : isOneOf "template".toList l = false) (h2 : isOneOf "head".toList l = false) : NewOk ⟨nsHtml, n⟩ := by
  constructor
  · intro e
    simp only [tmplName, EName.mk.injEq] at e
    rw [e.2, h1] at h; cases h
  · intro e
    simp only [headName, EName.mk.injEq] at e
    rw [e.2, h2] at h; cases h

private theorem namedP_nm {d : Dom} {name : Str} {x : Id} (h : namedP d name x = true) : nm d x = ⟨nsHtml, name⟩ := by
  unfold namedP at h
  cases hn : nm d x with
  | mk ns loc =>
    rw [hn] at h
    simp only [Bool.and_eq_true, beq_iff_eq] at h
    rw [h.1, h.2]

private theorem namedP_of_nm {d : Dom} {name : Str} {x : Id} (h : nm d x = ⟨nsHtml, name⟩) : namedP d name x = true := by
  unfold namedP; rw [h]; simp

/-! ### changing fields the invariants do not look at -/

private theorem SInv.withAF {m : Mode} {s : State} (h : SInv m s) (af : List FormatEntry) :
    SInv m { s with activeFormatting := af } :=
  ⟨h.root, h.stack, h.head, h.headIn, h.text, h.tableText, h.pending, h.tmpl, h.tmodes⟩

private theorem HInv.withForm {s : State} (h : HInv s) {e : Id} (he : IsEl s.dom e) (hn : nm s.dom e = formName) :
    HInv { s with formElem := some e } :=
  ⟨h.open_el, h.open_tc, h.af, h.head, fun x hx => by cases hx; exact ⟨he, hn⟩, h.ctx⟩

private theorem SInv.withForm {m : Mode} {s : State} (h : SInv m s) (f : Option Id) : SInv m { s with formElem := f } :=
  ⟨h.root, h.stack, h.head, h.headIn, h.text, h.tableText, h.pending, h.tmpl, h.tmodes⟩

private theorem HInv.withPending {s : State} (h : HInv s) (p : List (SplitStatus × Str)) :
    HInv { s with pendingTableText := p } :=
  ⟨h.open_el, h.open_tc, h.af, h.head, h.form, h.ctx⟩

private theorem HInv.withOrig {s : State} (h : HInv s) (o : Option Mode) : HInv { s with origMode := o } :=
  ⟨h.open_el, h.open_tc, h.af, h.head, h.form, h.ctx⟩

private theorem SInv.withOrig {m : Mode} {s : State} (h : SInv m s) (h1 : m ≠ .text) (h2 : m ≠ .inTableText)
    (o : Option Mode) : SInv m { s with origMode := o } :=
  ⟨h.root, h.stack, h.head, h.headIn, fun e => absurd e h1, fun e => absurd e h2, h.pending, h.tmpl, h.tmodes⟩

/-- pops and removals from the list of active formatting elements -/
private theorem BStep.of_fr {s s' : State} {pre post : List Id} (hi : HInv s) (hr : Rooted s.dom s.openElems)
    (heq : s.openElems = pre ++ post) (hne : pre ≠ []) (fr : Fr s s') (ho : s'.openElems = pre)
    (ha : ∀ e ∈ s'.activeFormatting, e ∈ s.activeFormatting) : BStep s s' where
  mode := fr.mode
  origMode := fr.origMode
  templateModes := fr.templateModes
  pendingTableText := fr.pendingTableText
  headElem := fr.headElem
  contextElem := fr.contextElem
  ext := fr.ext
  hinv := hi.of_fr fr (by rw [ho]; intro x hx; rw [heq]; exact List.mem_append_left _ hx) ha
  rooted := by
    rw [ho]
    obtain ⟨r, rest, hl, hn⟩ := hr
    cases pre with
    | nil => exact absurd rfl hne
    | cons a t =>
      rw [hl] at heq
      have : r = a := by simp at heq; exact heq.1
      subst this
      exact ⟨r, t, rfl, by rw [nm_ext fr.ext (hi.open_el r (by rw [hl]; exact List.mem_cons_self))]; exact hn⟩
  news := by
    rw [ho]
    intro x hx; exact Or.inl (by rw [heq]; exact List.mem_append_left _ hx)
  tcnt := by
    rw [ho]
    have hsub : ∀ x ∈ pre, x ∈ s.openElems := fun x hx => by rw [heq]; exact List.mem_append_left _ hx
    rw [tcount_ext fr.ext (hi.open_el.sub hsub), heq, tcount_append]
    omega

/-- a change of the list of active formatting elements only -/
private theorem BStep.withAF {s : State} (hi : HInv s) (hr : Rooted s.dom s.openElems) (af : List FormatEntry)
    (ha : ∀ x t, FormatEntry.element x t ∈ af → FormatEntry.element x t ∈ s.activeFormatting) :
    BStep s { s with activeFormatting := af } where
  mode := rfl
  origMode := rfl
  templateModes := rfl
  pendingTableText := rfl
  headElem := rfl
  contextElem := rfl
  ext := Ext.refl _
  hinv := hi.withAF af (fun x t hx => hi.af x t (ha x t hx))
  rooted := hr
  news := fun _ hx => Or.inl hx
  tcnt := Nat.le_refl _

private theorem BStep.fosterLeft {s s' : State} {b : Bool} (h : BStep { s with fosterParenting := b } s') : BStep s s' :=
  ⟨h.mode, h.origMode, h.templateModes, h.pendingTableText, h.headElem, h.contextElem, h.ext, h.hinv, h.rooted,
   h.news, h.tcnt⟩

private theorem BStep.fosterRight {s s' : State} {b : Bool} (h : BStep s s') : BStep s { s' with fosterParenting := b } :=
  ⟨h.mode, h.origMode, h.templateModes, h.pendingTableText, h.headElem, h.contextElem, h.ext,
   h.hinv.withFoster b, h.rooted, h.news, h.tcnt⟩

/-- a body-like step followed by a change of the insertion mode -/
private theorem SInv.step_ch {m m' : Mode} {s s' : State} (hi : HInv s) (h : SInv m s) (hr : Rooted s.dom s.openElems)
    (b : BStep s s') (hm : m ≠ .inTableText) (hs : ModeStack s'.dom m' s'.openElems)
    (hh : needsHead m' = true → s'.headElem.isSome = true) (ht : m' ≠ .text) (htt : m' ≠ .inTableText) :
    SInv m' s' := by
  have h1 : SInv .inBody s :=
    h.chmode hm (fun _ => hr) trivial (fun h => absurd h (by decide)) (by decide) (by decide)
  have h2 : SInv .inBody s' := h1.of_bstep hi b rfl (keeps_triv (fun _ => rfl))
  exact h2.chmode (by decide) (fun _ => b.rooted) hs hh ht htt

private theorem StepPost.ofMode {tok : Token} {s : State} {m : Mode} (hi : HInv s) (hs : SInv m s) :
    StepPost tok .done { s with mode := m } :=
  ⟨hi.withMode m, hs.withMode m, trivial⟩

private theorem StepPost.ofReprocess {tok : Token} {s : State} {m : Mode} (hi : HInv s) (hs : SInv m s)
    (hm : m ≠ .text := by decide) : StepPost tok (.reprocess m tok) s :=
  ⟨hi, hs, rfl, hm⟩

/-! ### scope tests, answered in the state after the test -/

theorem sat_inScopeNamedS' {scope : EName → Bool} {name : Str} {s : State} (hi : HInv s) :
    Sat (inScopeNamedS scope name) s (fun b s' => QF s s' ∧
      (b = true → ∃ pre x post, TopSplit s'.dom scope (namedP s'.dom name) s'.openElems pre x post)) := by
  refine (sat_inScopeNamedS hi.open_el).mono ?_
  rintro b s' ⟨rfl, hq⟩
  refine ⟨hq, fun hb => ?_⟩
  obtain ⟨pre, x, post, hs⟩ := inScopeP_split hb
  have hnm : ∀ z ∈ s.openElems, nm s'.dom z = nm s.dom z := fun z hz => hi.open_el.nm_eq hq.ext hz
  refine ⟨pre, x, post, ⟨by rw [hq.openElems]; exact hs.eq, ?_, ?_⟩⟩
  · unfold namedP; rw [hnm x (by rw [hs.eq]; simp)]; exact hs.px
  · intro y hy
    have hym : y ∈ s.openElems := by rw [hs.eq]; simp [hy]
    unfold namedP; rw [hnm y hym]; exact hs.above y hy

theorem sat_inScopeNamed' {scope : EName → Bool} {name : String} {s : State} (hi : HInv s) :
    Sat (inScopeNamed scope name) s (fun b s' => QF s s' ∧
      (b = true → ∃ pre x post, TopSplit s'.dom scope (namedP s'.dom name.toList) s'.openElems pre x post)) :=
  sat_inScopeNamedS' hi

theorem sat_inScopeElemIn' {scope set : EName → Bool} {s : State} (hi : HInv s) :
    Sat (inScope scope (fun e => elemIn e set)) s (fun b s' => QF s s' ∧
      (b = true → ∃ pre x post, TopSplit s'.dom scope (fun h => set (nm s'.dom h)) s'.openElems pre x post)) := by
  refine (sat_inScope (P := fun h => set (nm s.dom h)) hi.open_el
    (fun x hx => answers_elemIn (hi.open_el x hx))).mono ?_
  rintro b s' ⟨rfl, hq⟩
  refine ⟨hq, fun hb => ?_⟩
  obtain ⟨pre, x, post, hs⟩ := inScopeP_split hb
  have hnm : ∀ z ∈ s.openElems, nm s'.dom z = nm s.dom z := fun z hz => hi.open_el.nm_eq hq.ext hz
  refine ⟨pre, x, post, ⟨by rw [hq.openElems]; exact hs.eq, ?_, ?_⟩⟩
  · show set (nm s'.dom x) = true
    rw [hnm x (by rw [hs.eq]; simp)]; exact hs.px
  · intro y hy
    have hym : y ∈ s.openElems := by rw [hs.eq]; simp [hy]
    show set (nm s'.dom y) = false ∧ _
    rw [hnm y hym]; exact hs.above y hy

/-! ### `foster_parent_in_body`, character tokens in the body -/

theorem sat_stepInBody_chars {sp : SplitStatus} {text : Str} {s : State} (hi : HInv s)
    (hr : Rooted s.dom s.openElems) :
    Sat (stepInBody (.chars sp text)) s (fun res s' => res = .done ∧ BStep s s') := by
  unfold stepInBody
  dsimp only
  refine (sat_reconstructActiveFormattingElements hi hr).bind ?_
  intro _ s1 hg
  have b1 : BStep s s1 := BStep.of_grown hi hr hg
  have hfin : ∀ s2, Same s1 s2 → Sat (appendText text) s2 (fun res s' => res = .done ∧ BStep s s') := by
    intro s2 st
    have b2 : BStep s1 s2 := BStep.of_same b1.hinv b1.rooted st
    refine (sat_appendText (PlaceOk.of_hinv b2.hinv b2.rooted)).mono ?_
    rintro res s3 ⟨rfl, hq⟩
    exact ⟨rfl, b1.trans (b2.trans (BStep.of_qf b2.hinv b2.rooted hq))⟩
  split
  · refine sat_setFramesetOk.bind ?_
    intro _ s2 st; exact hfin s2 st
  · exact hfin s1 (Same.refl _)

theorem sat_fosterParentInBody_chars {sp : SplitStatus} {text : Str} {s : State} (hi : HInv s)
    (hr : Rooted s.dom s.openElems) :
    Sat (fosterParentInBody (.chars sp text)) s (fun res s' => res = .done ∧ BStep s s') := by
  unfold fosterParentInBody
  refine sat_modS_bind ?_
  refine (sat_stepInBody_chars (s := { s with fosterParenting := true }) (hi.withFoster true) hr).bind ?_
  rintro res s1 ⟨rfl, b⟩
  refine sat_modS_bind ?_
  exact sat_pure ⟨rfl, (BStep.fosterLeft b).fosterRight⟩

/-- `foster_parent_in_body` on behalf of a body-like mode -/
theorem sat_fosterParentInBody (hb : BodySpec) {tok : Token} {s : State} (ht : TI s)
    (hm : bodyLike s.mode = true) (h1 : s.mode ≠ .inHead) (h2 : s.mode = .inTableText → isCharsTok tok = true)
    (h3 : s.mode = .inCell → isTagEnd tok ["td", "th"] = false) :
    Sat (fosterParentInBody tok) s (StepPost tok) := by
  unfold fosterParentInBody
  refine sat_modS_bind ?_
  refine (hb tok { s with fosterParenting := true } (ht.withFoster true) hm h1 h2 h3).bind ?_
  rintro res s1 ⟨hp, -⟩
  refine sat_modS_bind ?_
  exact sat_pure ⟨hp.h.withFoster false, hp.s.withFoster false, hp.r⟩

/-! ### `process_chars_in_table` -/

private theorem tableMode_facts {m : Mode} (h : tableMode m = true) :
    preRoot m = false ∧ bodyLike m = true ∧ m ≠ .inHead ∧ m ≠ .inTableText ∧ m ≠ .inCell ∧ m ≠ .text ∧
    needsHead m = false ∧ origOk m = true ∧ (∀ n, modeNeed m n = false) ∧ (∀ d l, ModeStack d m l) := by
  cases m <;> first | (cases h; done) | exact ⟨rfl, rfl, by decide, by decide, by decide, by decide, rfl, rfl, fun _ => rfl, fun _ _ => trivial⟩

theorem sat_processCharsInTable (hb : BodySpec) {tok : Token} {s : State} (ht : TI s) (hm : tableMode s.mode = true) :
    Sat (processCharsInTable tok) s (StepPost tok) := by
  obtain ⟨hpre, hbl, hnh, hntt, hnc, hnt, hnd, _, hneed, hstk⟩ := tableMode_facts hm
  unfold processCharsInTable
  obtain ⟨top, hl⟩ := getLast?_of_ne_nil (ht.rooted hpre).ne_nil
  refine (sat_currentNodeIn hl (ht.h.open_el top (getLast?_mem hl))).bind ?_
  rintro b s1 ⟨rfl, hq⟩
  have ht1 : TI s1 := ht.of_qf hq
  split
  · refine sat_getS_bind ?_
    have hp : s1.pendingTableText = [] := ht1.s.pending (by rw [hq.mode]; exact hntt)
    simp only [hp, List.isEmpty_nil, Bool.not_true, Bool.false_eq_true, if_false]
    refine sat_modS_bind ?_
    refine sat_pure ?_
    have hs1 : SInv s1.mode s1 := ht1.s
    have hpre1 : preRoot s1.mode = false := by rw [hq.mode]; exact hpre
    exact ⟨ht1.h.withOrig _,
      ⟨fun _ => hs1.root hpre1, trivial, fun h => (by cases h), hs1.headIn, fun h => (by cases h),
       fun _ => ⟨s1.mode, rfl, by rw [hq.mode]; exact hm⟩, fun h => absurd rfl h, hs1.tmpl, hs1.tmodes⟩, rfl, by decide⟩
  · refine sat_parseError.bind ?_
    intro _ s2 hq2
    have ht2 : TI s2 := ht1.of_qf hq2
    have hm2 : s2.mode = s.mode := by rw [hq2.mode, hq.mode]
    exact sat_fosterParentInBody hb ht2 (by rw [hm2]; exact hbl) (by rw [hm2]; exact hnh)
      (fun h => absurd (hm2 ▸ h) hntt) (fun h => absurd (hm2 ▸ h) hnc)

/-! ### `InTable` -/

theorem sat_popUntilCurrent_root {set : EName → Bool} {s : State} (hi : HInv s) (hr : Rooted s.dom s.openElems)
    (hset : set htmlName = true) :
    Sat (popUntilCurrent set) s (fun _ s' => ∃ pre post x, s.openElems = pre ++ post ∧ St s s' pre ∧
      pre.getLast? = some x ∧ set (nm s.dom x) = true ∧ (∀ y ∈ post, set (nm s.dom y) = false) ∧ BStep s s') := by
  obtain ⟨r, rest, hl, hn⟩ := hr
  refine (sat_popUntilCurrent hi.open_el ⟨r, by rw [hl]; exact List.mem_cons_self, by rw [hn]; exact hset⟩).mono ?_
  rintro _ s' ⟨pre, post, x, heq, st, hx, hsx, hpost⟩
  exact ⟨pre, post, x, heq, st, hx, hsx, hpost, BStep.of_st hi ⟨r, rest, hl, hn⟩ heq (getLast?_pre_ne hx) st⟩

private theorem newOk_lit {n : Str} (h1 : (n == "template".toList) = false) (h2 : (n == "head".toList) = false) :
    NewOk ⟨nsHtml, n⟩ := by
  constructor
  · intro e
    simp only [tmplName, EName.mk.injEq] at e
    rw [e.2] at h1; simp at h1
  · intro e
    simp only [headName, EName.mk.injEq] at e
    rw [e.2] at h2; simp at h2

theorem sat_clearInsertThen {α : Type} {set : EName → Bool} {name : Str} {attrs : List Attr} {hadDup : Bool}
    {k : Id → M α} {s : State} {Q : α → State → Prop} (hi : HInv s) (hr : Rooted s.dom s.openElems)
    (hset : set htmlName = true) (hn : NewOk ⟨nsHtml, name⟩)
    (hk : ∀ r s', BStep s s' → s'.openElems.getLast? = some r → nm s'.dom r = ⟨nsHtml, name⟩ → Sat (k r) s' Q) :
    Sat (do popUntilCurrent set; let r ← insertElement true nsHtml name attrs hadDup; k r) s Q := by
  refine (sat_popUntilCurrent_root hi hr hset).bind ?_
  rintro _ s1 ⟨_, _, _, _, _, _, _, _, b1⟩
  refine (sat_insertElement (PlaceOk.of_hinv b1.hinv b1.rooted)).bind ?_
  intro r s2 hins
  refine hk r s2 (b1.trans (BStep.of_inserted b1.hinv b1.rooted hins hn)) ?_ hins.nm
  rw [hins.openElems]; simp

theorem sat_setModeDone {tok : Token} {m : Mode} {s : State} (hi : HInv s) (hs : SInv m s) :
    Sat (do setMode m; pure ProcessResult.done) s (StepPost tok) := by
  refine sat_setMode.bind ?_
  rintro _ s' rfl
  exact sat_pure (StepPost.ofMode hi hs)

theorem sat_popNamedResetThen {α : Type} {name : Str} {k : Mode → M α} {s : State} {Q : α → State → Prop}
    {m0 : Mode} {pre post : List Id} {x : Id} (hi : HInv s) (hs : SInv m0 s) (hm0 : m0 ≠ .inTableText)
    (hr : Rooted s.dom s.openElems) (sp : TopSplit s.dom tableScope (namedP s.dom name) s.openElems pre x post)
    (hname : name ≠ "html".toList) (hk : ∀ m s', HInv s' → SInv m s' → m ≠ .text → Sat (k m) s' Q) :
    Sat (do let _ ← popUntilNamedS name; let m ← resetInsertionMode; k m) s Q := by
  have hne : pre ≠ [] := hr.pre_ne sp.eq (by
    rw [namedP_nm sp.px]; intro e; simp only [htmlName, EName.mk.injEq] at e; exact hname e.2)
  refine (sat_popUntilNamedS hi.open_el sp.eq sp.px (fun y hy => (sp.above y hy).1)).bind ?_
  rintro _ s1 ⟨st, -⟩
  have b1 : BStep s s1 := BStep.of_st hi hr sp.eq hne st
  have h1 : SInv .inBody s1 :=
    hs.step_ch hi hr b1 hm0 trivial (fun h => absurd h (by decide)) (by decide) (by decide)
  refine (sat_resetInsertionMode b1.hinv h1.tmodes h1.tmpl h1.headIn).bind ?_
  rintro m s2 ⟨hq, ro⟩
  have h2 : SInv .inBody s2 := h1.of_qf b1.hinv hq
  exact hk m s2 (b1.hinv.of_qf hq)
    (h2.chmode (by decide) (fun _ => h2.root rfl) ro.stack ro.head ro.notSpecial.1 ro.notSpecial.2.1)
    ro.notSpecial.1

theorem stepInTable_spec (hh : HeadSpec) (hb : BodySpec) : TableSpec := by
  intro tok s ht hm
  obtain ⟨hpre, hbl, hnh, hntt, hnc, hnt, hnd, hoo, hneed, hstk⟩ := tableMode_facts hm
  have hr := ht.rooted hpre
  unfold stepInTable
  cases tok with
  | nullChar => exact sat_processCharsInTable hb ht hm
  | chars sp text => exact sat_processCharsInTable hb ht hm
  | comment text =>
    dsimp only
    exact (sat_appendComment (ht.place hpre)).mono (fun res s' h => StepPost.of_qf ht h.2 (by rw [h.1]; rfl) (by rw [h.1]; trivial))
  | eof =>
    dsimp only
    exact (hb .eof s ht hbl hnh (fun h => absurd h hntt) (fun h => absurd h hnc)).mono (fun _ _ h => h.1)
  | tag tag =>
    dsimp only
    -- the invariant after a body-like step followed by a switch to a mode without requirements
    have hch : ∀ (m' : Mode) s', BStep s s' → (∀ d l, ModeStack d m' l) → needsHead m' = false → m' ≠ .text →
        m' ≠ .inTableText → SInv m' s' := fun m' s' b h1 h2 h3 h4 =>
      ht.s.step_ch ht.h hr b hntt (h1 _ _) (fun h => by rw [h2] at h; cases h) h3 h4
    by_cases c1 : tag.isStart ["caption"] = true
    · rw [if_pos c1]
      refine (sat_popUntilCurrent_root ht.h hr rfl).bind ?_
      rintro _ s1 ⟨_, _, _, _, _, _, _, _, b1⟩
      refine sat_pushMarker.bind ?_
      rintro _ s2 rfl
      have b2 := b1.trans (BStep.withAF b1.hinv b1.rooted (s1.activeFormatting ++ [.marker]) (by
        intro x t hx; simpa using hx))
      refine (sat_insertElementFor (PlaceOk.of_hinv b2.hinv b2.rooted)).bind ?_
      intro r s3 hins
      have b3 := b2.trans (BStep.of_inserted b2.hinv b2.rooted hins (newOk_of (isStart_name c1) (by decide) (by decide)))
      exact sat_setModeDone b3.hinv (hch .inCaption _ b3 (fun _ _ => trivial) rfl (by decide) (by decide))
    rw [if_neg c1]
    by_cases c2 : tag.isStart ["colgroup"] = true
    · rw [if_pos c2]
      refine sat_clearInsertThen ht.h hr rfl (newOk_of (isStart_name c2) (by decide) (by decide)) ?_
      intro r s' b _ _
      exact sat_setModeDone b.hinv (hch .inColumnGroup _ b (fun _ _ => trivial) rfl (by decide) (by decide))
    rw [if_neg c2]
    by_cases c3 : tag.isStart ["col"] = true
    · rw [if_pos c3]
      refine sat_clearInsertThen ht.h hr rfl (newOk_lit (by decide) (by decide)) ?_
      intro r s' b _ _
      exact sat_pure (StepPost.ofReprocess b.hinv (hch .inColumnGroup _ b (fun _ _ => trivial) rfl (by decide) (by decide)))
    rw [if_neg c3]
    by_cases c4 : tag.isStart ["tbody", "tfoot", "thead"] = true
    · rw [if_pos c4]
      refine sat_clearInsertThen ht.h hr rfl (newOk_of (isStart_name c4) (by decide) (by decide)) ?_
      intro r s' b _ _
      exact sat_setModeDone b.hinv (hch .inTableBody _ b (fun _ _ => trivial) rfl (by decide) (by decide))
    rw [if_neg c4]
    by_cases c5 : tag.isStart ["td", "th", "tr"] = true
    · rw [if_pos c5]
      refine sat_clearInsertThen ht.h hr rfl (newOk_lit (by decide) (by decide)) ?_
      intro r s' b _ _
      exact sat_pure (StepPost.ofReprocess b.hinv (hch .inTableBody _ b (fun _ _ => trivial) rfl (by decide) (by decide)))
    rw [if_neg c5]
    by_cases c6 : tag.isStart ["table"] = true
    · rw [if_pos c6]
      refine sat_unexpected.bind ?_
      rintro _ s1 ⟨-, hq1⟩
      have ht1 := ht.of_qf hq1
      refine (sat_inScopeNamed' ht1.h).bind ?_
      rintro b s2 ⟨hq2, hsp⟩
      have ht2 := ht1.of_qf hq2
      split
      · rename_i hb2
        obtain ⟨pre, x, post, sp⟩ := hsp hb2
        refine sat_popNamedResetThen ht2.h ht2.s (by rw [hq2.mode, hq1.mode]; exact hntt)
          (ht2.rooted (by rw [hq2.mode, hq1.mode]; exact hpre)) sp (by decide) ?_
        intro m s' h1 h2 h3
        exact sat_pure (StepPost.ofReprocess h1 h2 h3)
      · exact sat_pure (StepPost.of_qf ht (hq1.trans hq2) rfl trivial)
    rw [if_neg c6]
    by_cases c7 : tag.isEnd ["table"] = true
    · rw [if_pos c7]
      refine (sat_inScopeNamed' ht.h).bind ?_
      rintro b s2 ⟨hq2, hsp⟩
      have ht2 := ht.of_qf hq2
      split
      · rename_i hb2
        obtain ⟨pre, x, post, sp⟩ := hsp hb2
        refine sat_popNamedResetThen ht2.h ht2.s (by rw [hq2.mode]; exact hntt)
          (ht2.rooted (by rw [hq2.mode]; exact hpre)) sp (by decide) ?_
        intro m s' h1 h2 _
        exact sat_setModeDone h1 h2
      · refine sat_unexpected.bind ?_
        rintro _ s3 ⟨-, hq3⟩
        exact sat_pure (StepPost.of_qf ht (hq2.trans hq3) rfl trivial)
    rw [if_neg c7]
    by_cases c8 : tag.isEnd ["body", "caption", "col", "colgroup", "html", "tbody", "td", "tfoot", "th", "thead", "tr"] = true
    · rw [if_pos c8]
      exact sat_unexpected.mono (fun res s' h => StepPost.of_qf ht h.2 (by rw [h.1]; rfl) (by rw [h.1]; trivial))
    rw [if_neg c8]
    by_cases c9 : (tag.isStart ["style", "script", "template"] || tag.isEnd ["template"]) = true
    · rw [if_pos c9]
      refine hh _ s ht hoo (Or.inr ?_)
      simp only [Bool.or_eq_true] at c9
      simp only [headDeleg, Bool.or_eq_true]
      rcases c9 with c9 | c9
      · exact Or.inl (isStart_mono c9 (by decide))
      · exact Or.inr c9
    rw [if_neg c9]
    have hfoster : ∀ s1, QF s s1 → Sat (fosterParentInBody (.tag tag)) s1 (StepPost (.tag tag)) := by
      intro s1 hq
      have hm1 : s1.mode = s.mode := hq.mode
      exact sat_fosterParentInBody hb (ht.of_qf hq) (by rw [hm1]; exact hbl) (by rw [hm1]; exact hnh)
        (fun h => absurd (hm1 ▸ h) hntt) (fun h => absurd (hm1 ▸ h) hnc)
    by_cases c10 : tag.isStart ["input"] = true
    · rw [if_pos c10]
      refine sat_unexpected.bind ?_
      rintro _ s1 ⟨-, hq1⟩
      split
      · have ht1 := ht.of_qf hq1
        have hr1 := ht1.rooted (by rw [hq1.mode]; exact hpre)
        refine (sat_insertAndPopElementFor (PlaceOk.of_hinv ht1.h hr1)).bind ?_
        intro r s2 hins
        have b := BStep.of_inserted ht1.h hr1 hins (newOk_of (isStart_name c10) (by decide) (by decide))
        exact sat_pure (StepPost.of_bstep ht1 (by rw [hq1.mode]; exact hbl) b
          (keeps_triv (by rw [hq1.mode]; exact hneed)) rfl trivial)
      · exact hfoster s1 hq1
    rw [if_neg c10]
    by_cases c11 : tag.isStart ["form"] = true
    · rw [if_pos c11]
      have htail : ∀ (doIt : Bool) (s1 : State), QF s s1 →
          Sat (if doIt = true then do
                  let e ← insertAndPopElementFor tag
                  modS fun s => { s with formElem := some e }
                  pure ProcessResult.done
                else pure ProcessResult.done) s1 (StepPost (.tag tag)) := by
        intro doIt s1 hq1
        split
        · have ht1 := ht.of_qf hq1
          have hr1 := ht1.rooted (by rw [hq1.mode]; exact hpre)
          refine (sat_insertAndPopElementFor (PlaceOk.of_hinv ht1.h hr1)).bind ?_
          intro r s2 hins
          have b := BStep.of_inserted ht1.h hr1 hins (newOk_of (isStart_name c11) (by decide) (by decide))
          refine sat_modS_bind ?_
          have hs2 : SInv s1.mode s2 := ht1.s.of_bstep ht1.h b (by rw [hq1.mode]; exact hbl)
            (keeps_triv (by rw [hq1.mode]; exact hneed))
          have hname : tag.name = "form".toList := by
            have := isStart_name c11
            simp only [isOneOf, List.any_cons, List.any_nil, Bool.or_false, beq_iff_eq] at this
            exact this.symm
          refine sat_pure ⟨b.hinv.withForm hins.el (by rw [hins.nm, hname]; rfl), ?_, trivial⟩
          have hs2' : SInv s2.mode s2 := by rw [b.mode]; exact hs2
          exact hs2'.withForm _
        · exact sat_pure (StepPost.of_qf ht hq1 rfl trivial)
      refine sat_unexpected.bind ?_
      rintro _ s1 ⟨-, hq1⟩
      refine (sat_inHtmlElemNamed (ht.of_qf hq1).h.open_el).bind ?_
      rintro b s2 ⟨-, hq2⟩
      split
      · refine Sat.bind (Q := fun _ s' => s' = s2) (sat_pure rfl) ?_
        rintro doIt s2' rfl
        exact htail doIt _ (hq1.trans hq2)
      · refine sat_getS_bind ?_
        refine Sat.bind (Q := fun _ s' => s' = s2) (sat_pure rfl) ?_
        rintro doIt s2' rfl
        exact htail doIt _ (hq1.trans hq2)
    rw [if_neg c11]
    refine sat_unexpected.bind ?_
    rintro _ s1 ⟨-, hq1⟩
    exact hfoster s1 hq1

/-! ### `InTableText` -/

theorem sat_flushPendingFoster : ∀ (l : List (SplitStatus × Str)) (s : State), HInv s → Rooted s.dom s.openElems →
    Sat (flushPendingFoster l) s (fun _ s' => BStep s s') := by
  intro l
  induction l with
  | nil => intro s hi hr; exact sat_pure (BStep.of_same hi hr (Same.refl s))
  | cons a rest ih =>
    intro s hi hr
    obtain ⟨sp, text⟩ := a
    unfold flushPendingFoster
    refine (sat_fosterParentInBody_chars hi hr).bind ?_
    rintro res s1 ⟨rfl, b⟩
    dsimp only
    exact (ih s1 b.hinv b.rooted).mono (fun _ s2 b2 => b.trans b2)

theorem sat_flushPendingPlain : ∀ (l : List (SplitStatus × Str)) (s : State), HInv s → Rooted s.dom s.openElems →
    Sat (flushPendingPlain l) s (fun _ s' => BStep s s') := by
  intro l
  induction l with
  | nil => intro s hi hr; exact sat_pure (BStep.of_same hi hr (Same.refl s))
  | cons a rest ih =>
    intro s hi hr
    obtain ⟨sp, text⟩ := a
    unfold flushPendingPlain
    refine (sat_appendText (PlaceOk.of_hinv hi hr)).bind ?_
    rintro res s1 ⟨-, hq⟩
    have b := BStep.of_qf hi hr hq
    exact (ih s1 b.hinv b.rooted).mono (fun _ s2 b2 => b.trans b2)

/-- `orig_mode.take().unwrap()` at the end of `InTableText` -/
theorem sat_takeOrigTable {tok : Token} {s : State} {om : Mode} (hi : HInv s) (h : SInv .inBody s)
    (ho : s.origMode = some om) (hom : tableMode om = true) :
    Sat (do
      let s ← getS
      match s.origMode with
      | none => panicAt "unwrap-none" "rules.rs:1172" "orig_mode.take().unwrap()"
      | some m =>
        set { s with origMode := none }
        pure (.reprocess m tok)) s (StepPost tok) := by
  obtain ⟨_, _, _, hntt, _, hnt, hnd, _, _, hstk⟩ := tableMode_facts hom
  refine sat_getS_bind ?_
  rw [ho]
  dsimp only
  refine sat_set_bind ?_
  refine sat_pure ⟨hi.withOrig none, ?_, rfl, hnt⟩
  have h1 : SInv om s := h.chmode (by decide) (fun _ => h.root rfl) (hstk _ _)
    (fun hh => by rw [hnd] at hh; cases hh) hnt hntt
  exact h1.withOrig hnt hntt none

theorem stepInTableText_spec (_hb : BodySpec) : ∀ (tok : Token) (s : State), TI s → s.mode = .inTableText →
    Sat (stepInTableText tok) s (StepPost tok) := by
  intro tok s ht hm
  have hs : SInv .inTableText s := by have := ht.s; rw [hm] at this; exact this
  have hr : Rooted s.dom s.openElems := hs.root rfl
  obtain ⟨om, ho, hom⟩ := hs.tableText rfl
  unfold stepInTableText
  cases tok
  case nullChar =>
    dsimp only
    exact sat_unexpected.mono (fun res s' h => StepPost.of_qf ht h.2 (by rw [h.1]; rfl) (by rw [h.1]; trivial))
  case chars sp text =>
    dsimp only
    refine sat_modS_bind ?_
    refine sat_pure ⟨ht.h.withPending _, ?_, trivial⟩
    show SInv s.mode _
    rw [hm]
    exact ⟨hs.root, trivial, hs.head, hs.headIn, fun h => (by cases h), fun _ => ⟨om, ho, hom⟩,
      fun h => absurd rfl h, hs.tmpl, hs.tmodes⟩
  all_goals
    dsimp only
    refine sat_getS_bind ?_
    refine sat_modS_bind ?_
    -- the state with the pending table text taken out, seen as a state in a mode without requirements
    have hi0 : HInv { s with pendingTableText := [] } := ht.h.withPending []
    have hs0 : SInv .inBody { s with pendingTableText := [] } :=
      ⟨fun _ => hr, trivial, fun h => (by cases h), hs.headIn, fun h => (by cases h), fun h => (by cases h),
        fun _ => rfl, hs.tmpl, hs.tmodes⟩
    have hfin : ∀ s2, BStep { s with pendingTableText := [] } s2 →
        HInv s2 ∧ SInv .inBody s2 ∧ s2.origMode = some om := fun s2 b =>
      ⟨b.hinv, hs0.of_bstep hi0 b rfl (keeps_triv (fun _ => rfl)), by rw [b.origMode]; exact ho⟩
    split
    · refine sat_parseError.bind ?_
      intro _ s1 hq1
      have b1 : BStep { s with pendingTableText := [] } s1 := BStep.of_qf hi0 hr hq1
      refine (sat_flushPendingFoster _ s1 b1.hinv b1.rooted).bind ?_
      intro _ s2 b2
      obtain ⟨f1, f2, f3⟩ := hfin s2 (b1.trans b2)
      exact sat_takeOrigTable f1 f2 f3 hom
    · refine (sat_flushPendingPlain _ _ hi0 hr).bind ?_
      intro _ s2 b2
      obtain ⟨f1, f2, f3⟩ := hfin s2 b2
      exact sat_takeOrigTable f1 f2 f3 hom

/-- `orig_mode.take().unwrap()` at the end of `flush_pending_table_text` -/
theorem sat_takeOrigTableMode {s : State} {om : Mode} (hi : HInv s) (h : SInv .inBody s)
    (ho : s.origMode = some om) (hom : tableMode om = true) :
    Sat (do
      let s ← getS
      match s.origMode with
      | none => panicAt "unwrap-none" "rules.rs:1172" "orig_mode.take().unwrap()"
      | some m =>
        set { s with origMode := none }
        pure m) s (fun m s' => HInv s' ∧ SInv m s') := by
  obtain ⟨_, _, _, hntt, _, hnt, hnd, _, _, hstk⟩ := tableMode_facts hom
  refine sat_getS_bind ?_
  rw [ho]
  dsimp only
  refine sat_set_bind ?_
  refine sat_pure ⟨hi.withOrig none, ?_⟩
  have h1 : SInv om s := h.chmode (by decide) (fun _ => h.root rfl) (hstk _ _)
    (fun hh => by rw [hnd] at hh; cases hh) hnt hntt
  exact h1.withOrig hnt hntt none

/-- `flush_pending_table_text` (the DOCTYPE token in "in table text"): the pending text is inserted as in the
"anything else" arm; the builder is ready to continue in the original (table) mode -/
theorem sat_flushPendingTableText {s : State} (ht : TI s) (hm : s.mode = .inTableText) :
    Sat flushPendingTableText s (fun m s' => HInv s' ∧ SInv m s') := by
  have hs : SInv .inTableText s := by have := ht.s; rw [hm] at this; exact this
  have hr : Rooted s.dom s.openElems := hs.root rfl
  obtain ⟨om, ho, hom⟩ := hs.tableText rfl
  unfold flushPendingTableText
  dsimp only
  refine sat_getS_bind ?_
  refine sat_modS_bind ?_
  have hi0 : HInv { s with pendingTableText := [] } := ht.h.withPending []
  have hs0 : SInv .inBody { s with pendingTableText := [] } :=
    ⟨fun _ => hr, trivial, fun h => (by cases h), hs.headIn, fun h => (by cases h), fun h => (by cases h),
      fun _ => rfl, hs.tmpl, hs.tmodes⟩
  have hfin : ∀ s2, BStep { s with pendingTableText := [] } s2 →
      HInv s2 ∧ SInv .inBody s2 ∧ s2.origMode = some om := fun s2 b =>
    ⟨b.hinv, hs0.of_bstep hi0 b rfl (keeps_triv (fun _ => rfl)), by rw [b.origMode]; exact ho⟩
  split
  · refine sat_parseError.bind ?_
    intro _ s1 hq1
    have b1 : BStep { s with pendingTableText := [] } s1 := BStep.of_qf hi0 hr hq1
    refine (sat_flushPendingFoster _ s1 b1.hinv b1.rooted).bind ?_
    intro _ s2 b2
    obtain ⟨f1, f2, f3⟩ := hfin s2 (b1.trans b2)
    exact sat_takeOrigTableMode f1 f2 f3 hom
  · refine (sat_flushPendingPlain _ _ hi0 hr).bind ?_
    intro _ s2 b2
    obtain ⟨f1, f2, f3⟩ := hfin s2 b2
    exact sat_takeOrigTableMode f1 f2 f3 hom

/-! ### `InCaption` -/

/-- generate implied end tags, pop up to the element found by the scope test, clear the list of active
formatting elements up to the last marker (`</caption>`, `</td>`, `</th>`) -/
theorem sat_closeNamedThen {α : Type} {k : M α} {Q : α → State → Prop} {name : Str} {s : State}
    {pre post : List Id} {x : Id}
    (hall : AllEl s.dom s.openElems) (heq : s.openElems = pre ++ x :: post)
    (hx : namedP s.dom name x = true) (hpost : ∀ y ∈ post, namedP s.dom name y = false)
    (hc : cursoryImpliedEnd ⟨nsHtml, name⟩ = false)
    (hk : ∀ s', Fr s s' → s'.openElems = pre → (∀ e ∈ s'.activeFormatting, e ∈ s.activeFormatting) → Sat k s' Q) :
    Sat (do generateImpliedEndTags cursoryImpliedEnd; expectToCloseS name; clearActiveFormattingToMarker; k) s Q := by
  refine (sat_generateImpliedEndTags_keep hall heq (by rw [namedP_nm hx]; exact hc)).bind ?_
  rintro _ s1 ⟨post0, post1, hp, st, _⟩
  have hsub : ∀ z ∈ pre ++ x :: post0, z ∈ s.openElems := by
    intro z hz
    rw [heq, hp]
    rcases List.mem_append.mp hz with h | h
    · exact List.mem_append_left _ h
    · rcases List.mem_cons.mp h with h | h
      · exact List.mem_append_right _ (by rw [h]; exact List.mem_cons_self)
      · exact List.mem_append_right _ (List.mem_cons_of_mem _ (List.mem_append_left _ h))
  have hall1 : AllEl s1.dom s1.openElems := by
    rw [st.openElems]; exact (hall.sub hsub).ext st.fr.ext
  have hnm : ∀ z ∈ pre ++ x :: post0, nm s1.dom z = nm s.dom z :=
    fun z hz => (hall.sub hsub).nm_eq st.fr.ext hz
  refine (sat_expectToCloseS hall1 st.openElems ?_ ?_).bind ?_
  · unfold namedP; rw [hnm x (by simp)]; exact hx
  · intro y hy
    unfold namedP; rw [hnm y (by simp [hy])]
    exact hpost y (by rw [hp]; exact List.mem_append_left _ hy)
  · intro _ s2 st2
    refine sat_clearActiveFormattingToMarker.bind ?_
    rintro _ s3 rfl
    refine hk _ ((st.fr.trans st2.fr).withAF _) st2.openElems ?_
    intro e he
    have := mem_clearedAF he
    rw [st2.af, st.af] at this
    exact this

theorem stepInCaption_spec (hb : BodySpec) : ∀ (tok : Token) (s : State), TI s → s.mode = .inCaption →
    Sat (stepInCaption tok) s (StepPost tok) := by
  intro tok s ht hm
  have hbody : ∀ tok, Sat (stepInBody tok) s (StepPost tok) := fun tok =>
    (hb tok s ht (by rw [hm]; rfl) (by rw [hm]; decide) (fun h => by rw [hm] at h; cases h)
      (fun h => by rw [hm] at h; cases h)).mono (fun _ _ h => h.1)
  unfold stepInCaption
  cases tok
  case tag tag =>
    dsimp only
    have hs : SInv .inCaption s := by have := ht.s; rw [hm] at this; exact this
    have hr : Rooted s.dom s.openElems := hs.root rfl
    by_cases c1 : (tag.isStart ["caption", "col", "colgroup", "tbody", "td", "tfoot", "th", "thead", "tr"] ||
        tag.isEnd ["table", "caption"]) = true
    · rw [if_pos c1]
      refine (sat_inScopeNamed' ht.h).bind ?_
      rintro b s1 ⟨hq1, hsp⟩
      have ht1 := ht.of_qf hq1
      have hs1 : SInv .inCaption s1 := hs.of_qf ht.h hq1
      have hr1 : Rooted s1.dom s1.openElems := hs1.root rfl
      split
      · rename_i hb1
        obtain ⟨pre, x, post, sp⟩ := hsp hb1
        have hne : pre ≠ [] := hr1.pre_ne sp.eq (by rw [namedP_nm sp.px]; decide)
        refine sat_closeNamedThen ht1.h.open_el sp.eq sp.px (fun y hy => (sp.above y hy).1) (by decide) ?_
        intro s2 fr ho ha
        have b : BStep s1 s2 := BStep.of_fr ht1.h hr1 (post := x :: post) sp.eq hne fr ho ha
        have hs2 : SInv .inTable s2 := hs1.step_ch ht1.h hr1 b (by decide) trivial (fun h => (by cases h))
          (by decide) (by decide)
        split
        · exact sat_setModeDone b.hinv hs2
        · exact sat_pure (StepPost.ofReprocess b.hinv hs2)
      · refine sat_unexpected.bind ?_
        rintro _ s2 ⟨-, hq2⟩
        exact sat_pure (StepPost.of_qf ht (hq1.trans hq2) rfl trivial)
    rw [if_neg c1]
    by_cases c2 : tag.isEnd ["body", "col", "colgroup", "html", "tbody", "td", "tfoot", "th", "thead", "tr"] = true
    · rw [if_pos c2]
      exact sat_unexpected.mono (fun res s' h => StepPost.of_qf ht h.2 (by rw [h.1]; rfl) (by rw [h.1]; trivial))
    rw [if_neg c2]
    exact hbody _
  all_goals exact hbody _

/-! ### `InCell` -/

theorem stepInCell_spec (hb : BodySpec) : ∀ (tok : Token) (s : State), TI s → s.mode = .inCell →
    Sat (stepInCell tok) s (StepPost tok) := by
  intro tok s ht hm
  have hbody : ∀ tok, isTagEnd tok ["td", "th"] = false → Sat (stepInBody tok) s (StepPost tok) := fun tok h =>
    (hb tok s ht (by rw [hm]; rfl) (by rw [hm]; decide) (fun h => by rw [hm] at h; cases h)
      (fun _ => h)).mono (fun _ _ h => h.1)
  unfold stepInCell
  cases tok
  case tag tag =>
    dsimp only
    have hs : SInv .inCell s := by have := ht.s; rw [hm] at this; exact this
    have hr : Rooted s.dom s.openElems := hs.root rfl
    -- `close_the_cell` below a `td`/`th`, then `Reprocess(InRow)`
    have hclose : ∀ s1, QF s s1 → ∀ pre x post, s1.openElems = pre ++ x :: post → tdTh (nm s1.dom x) = true →
        (∀ y ∈ post, tdTh (nm s1.dom y) = false) →
        Sat (do closeTheCell; pure (ProcessResult.reprocess Mode.inRow (Token.tag tag))) s1
          (StepPost (.tag tag)) := by
      intro s1 hq1 pre x post heq hx hpost
      have hi1 := ht.h.of_qf hq1
      have hs1 : SInv .inCell s1 := hs.of_qf ht.h hq1
      have hr1 : Rooted s1.dom s1.openElems := hs1.root rfl
      have hne : pre ≠ [] := hr1.pre_ne heq (by intro e; rw [e] at hx; revert hx; decide)
      refine (sat_closeTheCell hi1.open_el heq hx hpost).bind ?_
      rintro _ s2 ⟨fr, ho, ha⟩
      have b : BStep s1 s2 := BStep.of_fr hi1 hr1 (post := x :: post) heq hne fr ho ha
      exact sat_pure (StepPost.ofReprocess b.hinv (hs1.step_ch hi1 hr1 b (by decide) trivial (fun h => (by cases h))
          (by decide) (by decide)))
    by_cases c1 : tag.isEnd ["td", "th"] = true
    · rw [if_pos c1]
      have htd : tdTh ⟨nsHtml, tag.name⟩ = true := by
        simp only [tdTh, htmlIn, isEnd_name c1, Bool.and_true, beq_self_eq_true]
      refine (sat_inScopeNamedS' ht.h).bind ?_
      rintro b s1 ⟨hq1, hsp⟩
      have hi1 := ht.h.of_qf hq1
      have hs1 : SInv .inCell s1 := hs.of_qf ht.h hq1
      have hr1 : Rooted s1.dom s1.openElems := hs1.root rfl
      split
      · rename_i hb1
        obtain ⟨pre, x, post, sp⟩ := hsp hb1
        have hne : pre ≠ [] := hr1.pre_ne sp.eq (by
          rw [namedP_nm sp.px]; intro e; rw [e] at htd; revert htd; decide)
        refine sat_closeNamedThen hi1.open_el sp.eq sp.px (fun y hy => (sp.above y hy).1) (tdTh_not_cursory htd) ?_
        intro s2 fr ho ha
        have b : BStep s1 s2 := BStep.of_fr hi1 hr1 (post := x :: post) sp.eq hne fr ho ha
        exact sat_setModeDone b.hinv (hs1.step_ch hi1 hr1 b (by decide) trivial (fun h => (by cases h))
          (by decide) (by decide))
      · refine sat_unexpected.bind ?_
        rintro _ s2 ⟨-, hq2⟩
        exact sat_pure (StepPost.of_qf ht (hq1.trans hq2) rfl trivial)
    rw [if_neg c1]
    by_cases c2 : tag.isStart ["caption", "col", "colgroup", "tbody", "td", "tfoot", "th", "thead", "tr"] = true
    · rw [if_pos c2]
      refine (sat_inScopeElemIn' ht.h).bind ?_
      rintro b s1 ⟨hq1, hsp⟩
      split
      · rename_i hb1
        obtain ⟨pre, x, post, sp⟩ := hsp hb1
        exact hclose s1 hq1 pre x post sp.eq sp.px (fun y hy => (sp.above y hy).1)
      · exact sat_unexpected.mono (fun res s' h => StepPost.of_qf ht (hq1.trans h.2) (by rw [h.1]; rfl) (by rw [h.1]; trivial))
    rw [if_neg c2]
    by_cases c3 : tag.isEnd ["body", "caption", "col", "colgroup", "html"] = true
    · rw [if_pos c3]
      exact sat_unexpected.mono (fun res s' h => StepPost.of_qf ht h.2 (by rw [h.1]; rfl) (by rw [h.1]; trivial))
    rw [if_neg c3]
    by_cases c4 : tag.isEnd ["table", "tbody", "tfoot", "thead", "tr"] = true
    · rw [if_pos c4]
      refine (sat_inScopeNamedS' ht.h).bind ?_
      rintro b s1 ⟨hq1, _⟩
      split
      · have hs1 : SInv .inCell s1 := hs.of_qf ht.h hq1
        obtain ⟨pre, post, x, heq, hx, hpx, hpost⟩ :=
          split_last_sat (p := fun h => tdTh (nm s1.dom h)) hs1.stack
        have hxm : pre = pre.dropLast ++ [x] := dropLast_append_getLast hx
        refine hclose s1 hq1 pre.dropLast x post ?_ hpx hpost
        rw [heq]; conv => lhs; rw [hxm]
        simp
      · exact sat_unexpected.mono (fun res s' h => StepPost.of_qf ht (hq1.trans h.2) (by rw [h.1]; rfl) (by rw [h.1]; trivial))
    rw [if_neg c4]
    exact hbody _ (by simpa [isTagEnd] using c1)
  all_goals exact hbody _ rfl

/-! ### `InColumnGroup` -/

theorem stepInColumnGroup_spec (hh : HeadSpec) (hb : BodySpec) : ∀ (tok : Token) (s : State), TI s →
    s.mode = .inColumnGroup → Sat (stepInColumnGroup tok) s (StepPost tok) := by
  intro tok s ht hm
  have hs : SInv .inColumnGroup s := by have := ht.s; rw [hm] at this; exact this
  have hr : Rooted s.dom s.openElems := hs.root rfl
  have hbody : ∀ tok, Sat (stepInBody tok) s (StepPost tok) := fun tok =>
    (hb tok s ht (by rw [hm]; rfl) (by rw [hm]; decide) (fun h => by rw [hm] at h; cases h)
      (fun h => by rw [hm] at h; cases h)).mono (fun _ _ h => h.1)
  obtain ⟨top, hl⟩ := getLast?_of_ne_nil hr.ne_nil
  have htopel := ht.h.open_el top (getLast?_mem hl)
  -- pop the current node, a `colgroup`
  have hpop : ∀ s1, QF s s1 → ((nm s.dom top).ns == nsHtml && (nm s.dom top).loc == "colgroup".toList) = true →
      Sat pop s1 (fun _ s2 => HInv s2 ∧ SInv .inTable s2) := by
    intro s1 hq1 hb1
    have hi1 := ht.h.of_qf hq1
    have hs1 : SInv .inColumnGroup s1 := hs.of_qf ht.h hq1
    have hr1 : Rooted s1.dom s1.openElems := hs1.root rfl
    have hl1 : s1.openElems.getLast? = some top := by rw [hq1.openElems]; exact hl
    have heq := dropLast_append_getLast hl1
    have hne : s1.openElems.dropLast ≠ [] := hr1.pre_ne heq (by
      rw [nm_ext hq1.ext htopel, namedP_nm (name := "colgroup".toList) hb1]; decide)
    refine (sat_pop hl1).mono ?_
    rintro _ s2 ⟨-, st⟩
    have b : BStep s1 s2 := BStep.of_st hi1 hr1 heq hne st
    exact ⟨b.hinv, hs1.step_ch hi1 hr1 b (by decide) trivial (fun h => (by cases h)) (by decide) (by decide)⟩
  have hdone : ∀ {tok : Token} {res : ProcessResult} {s' : State}, res = .done ∧ QF s s' → StepPost tok res s' :=
    fun h => StepPost.of_qf ht h.2 (by rw [h.1]; rfl) (by rw [h.1]; trivial)
  have helse : ∀ tok, Sat (do
      let b ← currentNodeNamed "colgroup"
      if b = true then do
          let _ ← pop
          pure (ProcessResult.reprocess Mode.inTable tok)
        else unexpected) s (StepPost tok) := by
    intro tok
    refine (sat_currentNodeNamed hl htopel).bind ?_
    rintro b s1 ⟨rfl, hq1⟩
    split
    · rename_i hb1
      refine (hpop s1 hq1 hb1).bind ?_
      rintro _ s2 ⟨h1, h2⟩
      exact sat_pure (StepPost.ofReprocess h1 h2)
    · exact sat_unexpected.mono (fun res s' h => hdone ⟨h.1, hq1.trans h.2⟩)
  unfold stepInColumnGroup
  dsimp only
  cases tok
  case tag tag =>
    dsimp only
    by_cases c1 : tag.isStart ["html"] = true
    · rw [if_pos c1]; exact hbody _
    rw [if_neg c1]
    by_cases c2 : tag.isStart ["col"] = true
    · rw [if_pos c2]
      refine (sat_insertAndPopElementFor (PlaceOk.of_hinv ht.h hr)).bind ?_
      intro r s2 hins
      have b := BStep.of_inserted ht.h hr hins (newOk_of (isStart_name c2) (by decide) (by decide))
      exact sat_pure (StepPost.of_bstep ht (by rw [hm]; rfl) b (keeps_triv (by rw [hm]; exact fun _ => rfl)) rfl trivial)
    rw [if_neg c2]
    by_cases c3 : tag.isEnd ["colgroup"] = true
    · rw [if_pos c3]
      refine (sat_currentNodeNamed hl htopel).bind ?_
      rintro b s1 ⟨rfl, hq1⟩
      split
      · rename_i hb1
        refine (hpop s1 hq1 hb1).bind ?_
        rintro _ s2 ⟨h1, h2⟩
        exact sat_setModeDone h1 h2
      · refine sat_unexpected.bind ?_
        rintro _ s2 ⟨-, hq2⟩
        exact sat_pure (hdone ⟨rfl, hq1.trans hq2⟩)
    rw [if_neg c3]
    by_cases c4 : tag.isEnd ["col"] = true
    · rw [if_pos c4]; exact sat_unexpected.mono (fun res s' h => hdone h)
    rw [if_neg c4]
    by_cases c5 : (tag.isStart ["template"] || tag.isEnd ["template"]) = true
    · rw [if_pos c5]
      refine hh _ s ht (by rw [hm]; rfl) (Or.inr ?_)
      simp only [Bool.or_eq_true] at c5
      simp only [headDeleg, Bool.or_eq_true]
      rcases c5 with c5 | c5
      · exact Or.inl (isStart_mono c5 (by decide))
      · exact Or.inr c5
    rw [if_neg c5]
    exact helse _
  case chars sp text =>
    cases sp
    · dsimp only
      exact sat_pure (StepPost.of_same ht (Same.refl s) rfl trivial)
    · dsimp only
      exact (sat_appendText (PlaceOk.of_hinv ht.h hr)).mono (fun res s' h => hdone h)
    · dsimp only
      exact helse _
  case comment text =>
    dsimp only
    exact (sat_appendComment (PlaceOk.of_hinv ht.h hr)).mono (fun res s' h => hdone h)
  case eof => exact hbody _
  case nullChar => exact helse _

/-! ### clearing the stack back to a table body / table row context -/

private theorem ctx_split {d : Dom} {set : EName → Bool} {l pre post pre' post' : List Id} {x : Id}
    (h1 : l = pre ++ x :: post) (hx : set (nm d x) = true)
    (h2 : l = pre' ++ post') (hpost' : ∀ y ∈ post', set (nm d y) = false) :
    ∃ t, pre' = pre ++ x :: t ∧ post = t ++ post' := by
  rw [h1] at h2
  rcases List.append_eq_append_iff.mp h2 with ⟨a', e1, e2⟩ | ⟨c', e1, e2⟩
  · cases a' with
    | nil =>
      exfalso
      simp only [List.nil_append] at e2
      have := hpost' x (by rw [← e2]; exact List.mem_cons_self)
      rw [hx] at this; cases this
    | cons a t =>
      simp only [List.cons_append, List.cons.injEq] at e2
      obtain ⟨rfl, e2⟩ := e2
      exact ⟨t, e1, e2⟩
  · exfalso
    have := hpost' x (by rw [e2]; exact List.mem_append_right _ List.mem_cons_self)
    rw [hx] at this; cases this

/-- `pop_until_current(ctx)` when an element `x` of the context set, not the root, is on the stack:
the loop stops at or above `x` -/
theorem sat_clearCtx {set : EName → Bool} {s : State} {pre post : List Id} {x : Id} (hi : HInv s)
    (hr : Rooted s.dom s.openElems) (hset : set htmlName = true) (heq : s.openElems = pre ++ x :: post)
    (hx : set (nm s.dom x) = true) :
    Sat (popUntilCurrent set) s (fun _ s1 => ∃ t post' x', post = t ++ post' ∧ St s s1 (pre ++ x :: t) ∧
      (x :: t).getLast? = some x' ∧ set (nm s.dom x') = true ∧ BStep s s1) := by
  refine (sat_popUntilCurrent_root hi hr hset).mono ?_
  rintro _ s1 ⟨pre', post', x', heq', st, hx', hsx', hpost', b⟩
  obtain ⟨t, e1, e2⟩ := ctx_split heq hx heq' hpost'
  subst e1
  refine ⟨t, post', x', e2, st, ?_, hsx', b⟩
  simpa [List.getLast?_append] using hx'

private theorem rowctx_tr {n : EName} (h1 : tableRowContext n = true) (h2 : tableScope n = false) :
    (n.ns == nsHtml && n.loc == "tr".toList) = true := by
  cases n with
  | mk ns loc =>
    simp only [tableRowContext, tableScope, htmlIn, isOneOf, List.any_cons, List.any_nil, Bool.or_false,
      Bool.and_eq_true, Bool.or_eq_true, beq_iff_eq, Bool.and_eq_false_iff, Bool.or_eq_false_iff,
      beq_eq_false_iff_ne, ne_eq] at h1 h2 ⊢
    obtain ⟨hns, hl⟩ := h1
    refine ⟨hns, ?_⟩
    rcases h2 with h2 | ⟨h3, h4, h5⟩
    · exact absurd hns h2
    · rcases hl with hl | hl | hl
      · exact hl.symm
      · exact absurd hl h5
      · exact absurd hl h3

theorem sat_clearCtxPopThen {α : Type} {k : M α} {Q : α → State → Prop} {set : EName → Bool} {s : State}
    {pre post : List Id} {x : Id} (hi : HInv s) (hr : Rooted s.dom s.openElems) (hset : set htmlName = true)
    (heq : s.openElems = pre ++ x :: post) (hx : set (nm s.dom x) = true) (hpre : pre ≠ [])
    (hk : ∀ s', BStep s s' → Sat k s' Q) :
    Sat (do popUntilCurrent set; let _ ← pop; k) s Q := by
  refine (sat_clearCtx hi hr hset heq hx).bind ?_
  rintro _ s1 ⟨t, post', x', _, st, hx', _, b⟩
  have hl1 : s1.openElems.getLast? = some x' := by
    rw [st.openElems]; simpa [List.getLast?_append] using hx'
  have hlen : 2 ≤ s1.openElems.length := by
    rw [st.openElems]
    have : 0 < pre.length := List.length_pos_iff.mpr hpre
    simp; omega
  refine (sat_pop hl1).bind ?_
  rintro _ s2 ⟨-, st2⟩
  exact hk s2 (b.trans (BStep.of_st b.hinv b.rooted (dropLast_append_getLast hl1) (dropLast_ne_nil hlen) st2))

theorem sat_clearRowPopThen {α : Type} {k : M α} {Q : α → State → Prop} {site : String} {s : State}
    {pre post : List Id} {x : Id} (hi : HInv s) (hr : Rooted s.dom s.openElems)
    (sp : TopSplit s.dom tableScope (namedP s.dom "tr".toList) s.openElems pre x post)
    (hk : ∀ s', BStep s s' → Sat k s' Q) :
    Sat (do popUntilCurrent tableRowContext; popTr site; k) s Q := by
  have hxn := namedP_nm sp.px
  have hpre : pre ≠ [] := hr.pre_ne sp.eq (by rw [hxn]; decide)
  refine (sat_clearCtx hi hr rfl sp.eq (by rw [hxn]; decide)).bind ?_
  rintro _ s1 ⟨t, post', x', hpost, st, hx', hsx', b⟩
  have hl1 : s1.openElems.getLast? = some x' := by
    rw [st.openElems]; simpa [List.getLast?_append] using hx'
  have hlen : 2 ≤ s1.openElems.length := by
    rw [st.openElems]
    have : 0 < pre.length := List.length_pos_iff.mpr hpre
    simp; omega
  -- the current node is a `tr`
  have htr : ((nm s.dom x').ns == nsHtml && (nm s.dom x').loc == "tr".toList) = true := by
    have hmem : x' ∈ x :: t := List.mem_of_getLast? hx'
    rcases List.mem_cons.mp hmem with e | hm
    · rw [e]; exact sp.px
    · exact rowctx_tr hsx' (sp.above x' (by rw [hpost]; exact List.mem_append_left _ hm)).2
  have hx'mem : x' ∈ s.openElems := by
    have : x' ∈ s1.openElems := getLast?_mem hl1
    rw [st.openElems] at this
    rw [sp.eq, hpost]
    rcases List.mem_append.mp this with h | h
    · exact List.mem_append_left _ h
    · rcases List.mem_cons.mp h with h | h
      · rw [h]; simp
      · simp [h]
  unfold popTr
  refine Sat.bind (m := do
      let node ← pop
      if (!(← htmlElemNamed node "tr")) = true then
        panicAt "assert" site "assert!(self.html_elem_named(node, name))"
      else pure ()) (Q := fun _ s' => BStep s s') ?_ (fun _ s' h => hk s' h)
  refine (sat_pop hl1).bind ?_
  rintro node s2 ⟨rfl, st2⟩
  have b2 : BStep s s2 :=
    b.trans (BStep.of_st b.hinv b.rooted (dropLast_append_getLast hl1) (dropLast_ne_nil hlen) st2)
  have hel := hi.open_el node hx'mem
  refine (sat_htmlElemNamed (hel.ext b2.ext)).bind ?_
  rintro bb s3 ⟨rfl, hq3⟩
  rw [nm_ext b2.ext hel, htr]
  simp only [Bool.not_true, Bool.false_eq_true, if_false]
  exact sat_pure (b2.trans (BStep.of_qf b2.hinv b2.rooted hq3))

/-! ### `InTableBody` -/

private theorem tableOuterBody_ctx {n : EName} (h : tableOuterBody n = true) : tableBodyContext n = true := by
  simp only [tableOuterBody, tableBodyContext, htmlIn, Bool.and_eq_true] at h ⊢
  exact ⟨h.1, isOneOf_mono h.2 (by decide)⟩

theorem stepInTableBody_spec (htb : TableSpec) : ∀ (tok : Token) (s : State), TI s → s.mode = .inTableBody →
    Sat (stepInTableBody tok) s (StepPost tok) := by
  intro tok s ht hm
  have hs : SInv .inTableBody s := by have := ht.s; rw [hm] at this; exact this
  have hr : Rooted s.dom s.openElems := hs.root rfl
  have htable : ∀ tok, Sat (stepInTable tok) s (StepPost tok) := fun tok => htb tok s ht (by rw [hm]; rfl)
  have hdone : ∀ {tok : Token} {res : ProcessResult} {s' : State}, res = .done ∧ QF s s' → StepPost tok res s' :=
    fun h => StepPost.of_qf ht h.2 (by rw [h.1]; rfl) (by rw [h.1]; trivial)
  have hch : ∀ (m' : Mode) s', BStep s s' → (∀ d l, ModeStack d m' l) → needsHead m' = false → m' ≠ .text →
      m' ≠ .inTableText → SInv m' s' := fun m' s' b h1 h2 h3 h4 =>
    hs.step_ch ht.h hr b (by decide) (h1 _ _) (fun h => by rw [h2] at h; cases h) h3 h4
  unfold stepInTableBody
  cases tok
  case tag tag =>
    dsimp only
    by_cases c1 : tag.isStart ["tr"] = true
    · rw [if_pos c1]
      refine sat_clearInsertThen ht.h hr rfl (newOk_of (isStart_name c1) (by decide) (by decide)) ?_
      intro r s' b _ _
      exact sat_setModeDone b.hinv (hch .inRow _ b (fun _ _ => trivial) rfl (by decide) (by decide))
    rw [if_neg c1]
    by_cases c2 : tag.isStart ["th", "td"] = true
    · rw [if_pos c2]
      refine sat_unexpected.bind ?_
      rintro _ s1 ⟨-, hq1⟩
      have b1 := BStep.of_qf ht.h hr hq1
      refine sat_clearInsertThen b1.hinv b1.rooted rfl (newOk_lit (by decide) (by decide)) ?_
      intro r s' b _ _
      exact sat_pure (StepPost.ofReprocess b.hinv (hch .inRow _ (b1.trans b) (fun _ _ => trivial) rfl (by decide) (by decide)))
    rw [if_neg c2]
    by_cases c3 : tag.isEnd ["tbody", "tfoot", "thead"] = true
    · rw [if_pos c3]
      refine (sat_inScopeNamedS' ht.h).bind ?_
      rintro b s1 ⟨hq1, hsp⟩
      have b1 := BStep.of_qf ht.h hr hq1
      split
      · rename_i hb1
        obtain ⟨pre, x, post, sp⟩ := hsp hb1
        have hxn := namedP_nm sp.px
        have hctx : tableBodyContext ⟨nsHtml, tag.name⟩ = true := by
          simp only [tableBodyContext, htmlIn, beq_self_eq_true, Bool.true_and]
          exact isOneOf_mono (isEnd_name c3) (by decide)
        have hne : pre ≠ [] := b1.rooted.pre_ne sp.eq (by
          rw [hxn]; intro e; simp only [htmlName, EName.mk.injEq] at e
          have := isEnd_name c3; rw [e.2] at this; revert this; decide)
        refine sat_clearCtxPopThen b1.hinv b1.rooted rfl sp.eq (by rw [hxn]; exact hctx) hne ?_
        intro s2 b2
        exact sat_setModeDone b2.hinv (hch .inTable _ (b1.trans b2) (fun _ _ => trivial) rfl (by decide) (by decide))
      · refine sat_unexpected.bind ?_
        rintro _ s2 ⟨-, hq2⟩
        exact sat_pure (hdone ⟨rfl, hq1.trans hq2⟩)
    rw [if_neg c3]
    by_cases c4 : (tag.isStart ["caption", "col", "colgroup", "tbody", "tfoot", "thead"] || tag.isEnd ["table"]) = true
    · rw [if_pos c4]
      refine (sat_inScopeElemIn' ht.h).bind ?_
      rintro b s1 ⟨hq1, hsp⟩
      have b1 := BStep.of_qf ht.h hr hq1
      split
      · rename_i hb1
        obtain ⟨pre, x, post, sp⟩ := hsp hb1
        have hpx : tableOuterBody (nm s1.dom x) = true := sp.px
        have hne : pre ≠ [] := b1.rooted.pre_ne sp.eq (by
          intro e; rw [e] at hpx; revert hpx; decide)
        refine sat_clearCtxPopThen b1.hinv b1.rooted rfl sp.eq (tableOuterBody_ctx hpx) hne ?_
        intro s2 b2
        exact sat_pure (StepPost.ofReprocess b2.hinv (hch .inTable _ (b1.trans b2) (fun _ _ => trivial) rfl (by decide) (by decide)))
      · exact sat_unexpected.mono (fun res s' h => hdone ⟨h.1, hq1.trans h.2⟩)
    rw [if_neg c4]
    by_cases c5 : tag.isEnd ["body", "caption", "col", "colgroup", "html", "td", "th", "tr"] = true
    · rw [if_pos c5]; exact sat_unexpected.mono (fun res s' h => hdone h)
    rw [if_neg c5]
    exact htable _
  all_goals exact htable _

/-! ### `InRow` -/

theorem stepInRow_spec (htb : TableSpec) : ∀ (tok : Token) (s : State), TI s → s.mode = .inRow →
    Sat (stepInRow tok) s (StepPost tok) := by
  intro tok s ht hm
  have hs : SInv .inRow s := by have := ht.s; rw [hm] at this; exact this
  have hr : Rooted s.dom s.openElems := hs.root rfl
  have htable : ∀ tok, Sat (stepInTable tok) s (StepPost tok) := fun tok => htb tok s ht (by rw [hm]; rfl)
  have hdone : ∀ {tok : Token} {res : ProcessResult} {s' : State}, res = .done ∧ QF s s' → StepPost tok res s' :=
    fun h => StepPost.of_qf ht h.2 (by rw [h.1]; rfl) (by rw [h.1]; trivial)
  have hch : ∀ (m' : Mode) s', BStep s s' → (∀ d l, ModeStack d m' l) → needsHead m' = false → m' ≠ .text →
      m' ≠ .inTableText → SInv m' s' := fun m' s' b h1 h2 h3 h4 =>
    hs.step_ch ht.h hr b (by decide) (h1 _ _) (fun h => by rw [h2] at h; cases h) h3 h4
  -- close the row after a successful scope test, reprocess in `InTableBody`
  have hcloseRe : ∀ (tok : Token) s1, QF s s1 →
      (∃ pre x post, TopSplit s1.dom tableScope (namedP s1.dom "tr".toList) s1.openElems pre x post) →
      Sat (do popUntilCurrent tableRowContext; popTr "mod.rs:637"; pure (ProcessResult.reprocess Mode.inTableBody tok))
        s1 (StepPost tok) := by
    rintro tok s1 hq1 ⟨pre, x, post, sp⟩
    have b1 := BStep.of_qf ht.h hr hq1
    refine sat_clearRowPopThen b1.hinv b1.rooted sp ?_
    intro s2 b2
    exact sat_pure (StepPost.ofReprocess b2.hinv (hch .inTableBody _ (b1.trans b2) (fun _ _ => trivial) rfl (by decide) (by decide)))
  unfold stepInRow
  cases tok
  case tag tag =>
    dsimp only
    by_cases c1 : tag.isStart ["th", "td"] = true
    · rw [if_pos c1]
      refine sat_clearInsertThen ht.h hr rfl (newOk_of (isStart_name c1) (by decide) (by decide)) ?_
      intro r s2 b hl hn
      refine sat_setMode.bind ?_
      rintro _ s3 rfl
      refine sat_pushMarker.bind ?_
      rintro _ s4 rfl
      have hcell : SInv .inCell s2 := hs.step_ch ht.h hr b (by decide)
        ⟨r, getLast?_mem hl, by
          rw [hn]; simp only [tdTh, htmlIn, beq_self_eq_true, Bool.true_and]
          exact isOneOf_mono (isStart_name c1) (by decide)⟩
        (fun h => (by cases h)) (by decide) (by decide)
      refine sat_pure ⟨?_, ?_, trivial⟩
      · exact (b.hinv.withMode .inCell).withAF _ (fun x t hx => b.hinv.af x t (by simpa using hx))
      · exact (hcell.withMode .inCell).withAF _
    rw [if_neg c1]
    by_cases c2 : tag.isEnd ["tr"] = true
    · rw [if_pos c2]
      refine (sat_inScopeNamed' ht.h).bind ?_
      rintro b s1 ⟨hq1, hsp⟩
      have b1 := BStep.of_qf ht.h hr hq1
      split
      · rename_i hb1
        obtain ⟨pre, x, post, sp⟩ := hsp hb1
        refine sat_clearRowPopThen b1.hinv b1.rooted sp ?_
        intro s2 b2
        exact sat_setModeDone b2.hinv (hch .inTableBody _ (b1.trans b2) (fun _ _ => trivial) rfl (by decide) (by decide))
      · refine sat_unexpected.bind ?_
        rintro _ s2 ⟨-, hq2⟩
        exact sat_pure (hdone ⟨rfl, hq1.trans hq2⟩)
    rw [if_neg c2]
    by_cases c3 : (tag.isStart ["caption", "col", "colgroup", "tbody", "tfoot", "thead", "tr"] || tag.isEnd ["table"]) = true
    · rw [if_pos c3]
      refine (sat_inScopeNamed' ht.h).bind ?_
      rintro b s1 ⟨hq1, hsp⟩
      split
      · rename_i hb1
        exact hcloseRe _ s1 hq1 (hsp hb1)
      · exact sat_unexpected.mono (fun res s' h => hdone ⟨h.1, hq1.trans h.2⟩)
    rw [if_neg c3]
    by_cases c4 : tag.isEnd ["tbody", "tfoot", "thead"] = true
    · rw [if_pos c4]
      refine (sat_inScopeNamedS' ht.h).bind ?_
      rintro b s1 ⟨hq1, -⟩
      split
      · refine (sat_inScopeNamed' (ht.h.of_qf hq1)).bind ?_
        rintro b' s2 ⟨hq2, hsp⟩
        split
        · rename_i hb2
          exact hcloseRe _ s2 (hq1.trans hq2) (hsp hb2)
        · exact sat_pure (hdone ⟨rfl, hq1.trans hq2⟩)
      · exact sat_unexpected.mono (fun res s' h => hdone ⟨h.1, hq1.trans h.2⟩)
    rw [if_neg c4]
    by_cases c5 : tag.isEnd ["body", "caption", "col", "colgroup", "html", "td", "th"] = true
    · rw [if_pos c5]; exact sat_unexpected.mono (fun res s' h => hdone h)
    rw [if_neg c5]
    exact htable _
  all_goals exact htable _

end H5V.Lemmas.TBSafe
