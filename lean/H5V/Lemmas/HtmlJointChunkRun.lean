import H5V.Lemmas.HtmlJointChunkTok
import H5V.Model.HtmlTB
/-!
C03 for the JOINT model (tokenizer model with the tree-builder model as its sink,
`H5V.Model.HtmlTB.Joint`), part 1: a fuel-free big-step reading of `Joint.run` / `Joint.feed` /
`Joint.processChunk`.

`JRunsTo o m inp j m' j'`: started on machine `m` (whose `out` has been delivered) with unread input
`inp` and joint state `j`, the loop of `Parser::process` — every step under the policy `polOf j` of the
*current* tree-builder state, the tokens of the step delivered (`absorb`) right after it, Script /
EncodingIndicator pauses resumed at once — consumes all input and stops in machine `m'`, joint state
`j'`.  `processChunk_sound` / `processChunk_complete` tie it to the model's functions (BOM prologue,
fuel of `run`, fuel of `loop_until_done`).
-/
namespace H5V.Lemmas.JointChunk
open H5V.Model.HtmlTok (Mach R Sim RSim clr step TInv mu fuelFor feedBom)
open H5V.Model.HtmlTB.Joint (JState absorb polOf RunRes)

abbrev TOpts := H5V.Model.HtmlTok.Opts
abbrev TGood := H5V.Model.HtmlTok.Good
abbrev Chars := List Char
abbrev jrun := @H5V.Model.HtmlTB.Joint.run
abbrev jfeed := @H5V.Model.HtmlTB.Joint.feed
abbrev jprocessChunk := @H5V.Model.HtmlTB.Joint.processChunk

/-! ### `Joint.run` unfolded -/

/-- deliver the tokens of a step, empty `out` -/
def deliver (j : JState) (m : Mach) (k : Mach → JState → RunRes) : RunRes :=
  match absorb m.out.reverse j with
  | .error e => .panic e
  | .ok j' => k (clr m) j'

theorem run_zero (o : TOpts) (m : Mach) (inp : Chars) (j : JState) :
    jrun o 0 m inp j = .panic "model-fuel@model: tokenizer run" := rfl

theorem run_succ (o : TOpts) (fuel : Nat) (m : Mach) (inp : Chars) (j : JState) :
    jrun o (fuel + 1) m inp j =
      match step o (polOf j) m inp with
      | .cont m1 i1 => deliver j m1 (fun m j => jrun o fuel m i1 j)
      | .suspend m1 i1 => deliver j m1 (fun m j => .done m i1 j)
      | .script m1 i1 => deliver j m1 (fun m j => .script m i1 j)
      | .indicator m1 i1 => deliver j m1 (fun m j => .indicator m i1 j)
      | .panic e => .panic ("tokenizer@tokenizer: " ++ e) := by
  rw [jrun, H5V.Model.HtmlTB.Joint.run]
  cases step o (polOf j) m inp <;> rfl

/-! ### the big-step relation -/

inductive JRunsTo (o : TOpts) : Mach → Chars → JState → Mach → JState → Prop
  | susp {m inp j m1 j1} : step o (polOf j) m inp = .suspend m1 [] → absorb m1.out.reverse j = .ok j1 →
      JRunsTo o m inp j (clr m1) j1
  | cont {m inp j m1 i1 j1 m' j'} : step o (polOf j) m inp = .cont m1 i1 → absorb m1.out.reverse j = .ok j1 →
      JRunsTo o (clr m1) i1 j1 m' j' → JRunsTo o m inp j m' j'
  | script {m inp j m1 i1 j1 m' j'} : step o (polOf j) m inp = .script m1 i1 → absorb m1.out.reverse j = .ok j1 →
      i1 ≠ [] → JRunsTo o (clr m1) i1 j1 m' j' → JRunsTo o m inp j m' j'
  | scriptEnd {m inp j m1 j1} : step o (polOf j) m inp = .script m1 [] → absorb m1.out.reverse j = .ok j1 →
      JRunsTo o m inp j (clr m1) j1
  | indicator {m inp j m1 i1 j1 m' j'} : step o (polOf j) m inp = .indicator m1 i1 →
      absorb m1.out.reverse j = .ok j1 → i1 ≠ [] → JRunsTo o (clr m1) i1 j1 m' j' → JRunsTo o m inp j m' j'
  | indicatorEnd {m inp j m1 j1} : step o (polOf j) m inp = .indicator m1 [] → absorb m1.out.reverse j = .ok j1 →
      JRunsTo o m inp j (clr m1) j1

/-! ### `processChunk` in terms of `run` -/

/-- what `processChunk` does with the answer of `feed` -/
def afterRun (o : TOpts) (N : Nat) : RunRes → Except String (Mach × Chars × JState)
  | .done m inp j => .ok (m, inp, j)
  | .script m inp j => jprocessChunk o N m inp [] j
  | .indicator m inp j => jprocessChunk o N m inp [] j
  | .panic e => .error e

theorem processChunk_zero (o : TOpts) (m : Mach) (inp chunk : Chars) (j : JState) :
    jprocessChunk o 0 m inp chunk j = .error "model-fuel@model: loop_until_done" := rfl

theorem processChunk_succ (o : TOpts) (N : Nat) (m : Mach) (inp chunk : Chars) (j : JState) :
    jprocessChunk o (N + 1) m inp chunk j =
      if (inp ++ chunk).isEmpty then .ok (m, [], j)
      else afterRun o N (jrun o (fuelFor (feedBom m (inp ++ chunk)).1 (feedBom m (inp ++ chunk)).2)
        (feedBom m (inp ++ chunk)).1 (feedBom m (inp ++ chunk)).2 j) := by
  rw [jprocessChunk, H5V.Model.HtmlTB.Joint.processChunk]
  unfold H5V.Model.HtmlTB.Joint.feed
  by_cases he : (inp ++ chunk).isEmpty = true
  · simp only [he, if_true]
  · simp only [he, Bool.false_eq_true, if_false]
    show (match jrun o (fuelFor (feedBom m (inp ++ chunk)).1 (feedBom m (inp ++ chunk)).2)
      (feedBom m (inp ++ chunk)).1 (feedBom m (inp ++ chunk)).2 j with
      | .done m inp j => (Except.ok (m, inp, j) : Except String (Mach × Chars × JState))
      | .script m inp j => H5V.Model.HtmlTB.Joint.processChunk o N m inp [] j
      | .indicator m inp j => H5V.Model.HtmlTB.Joint.processChunk o N m inp [] j
      | .panic e => .error e) = _
    cases jrun o (fuelFor (feedBom m (inp ++ chunk)).1 (feedBom m (inp ++ chunk)).2)
      (feedBom m (inp ++ chunk)).1 (feedBom m (inp ++ chunk)).2 j <;> rfl

/-! ### invariants along a step -/

/-- what we keep at step boundaries of the joint loop -/
structure JInv (m : Mach) : Prop where
  tinv : TInv m
  good : TGood m
  atEof : m.atEof = false
  out : m.out = []
  bom : m.discardBom = false

theorem clr_out (m : Mach) : (clr m).out = [] := rfl
theorem clr_atEof (m : Mach) : (clr m).atEof = m.atEof := rfl
theorem clr_discardBom (m : Mach) : (clr m).discardBom = m.discardBom := rfl

theorem step_jinv {o : TOpts} {pol : H5V.Model.HtmlTok.Pol} {m : Mach} {inp : Chars} (hi : JInv m) {m1 : Mach} {i1 : Chars}
    (h : (step o pol m inp).pair? = some (m1, i1)) : JInv (clr m1) := by
  have hm : (step o pol m inp).mach? = some m1 := H5V.Model.HtmlTok.pair_mach _ _ _ h
  obtain ⟨hg, hat⟩ := H5V.Model.HtmlTok.step_good o pol m inp hi.good hi.atEof m1 hm
  exact ⟨H5V.Model.HtmlTok.tinv_clr.mpr (H5V.Model.HtmlTok.step_tinv o pol m inp hi.tinv m1 i1 h),
    H5V.Model.HtmlTok.good_clr.mpr hg, by rw [clr_atEof, hat, hi.atEof], rfl,
    by rw [clr_discardBom, H5V.Model.HtmlTok.step_discardBom o pol m inp m1 hm, hi.bom]⟩

theorem jrunsTo_inv {o : TOpts} {m : Mach} {inp : Chars} {j : JState} {m' : Mach} {j' : JState}
    (h : JRunsTo o m inp j m' j') : JInv m → JInv m' := by
  induction h with
  | susp hs _ => intro hi; exact step_jinv hi (by rw [hs]; rfl)
  | cont hs _ _ ih => intro hi; exact ih (step_jinv hi (by rw [hs]; rfl))
  | script hs _ _ _ ih => intro hi; exact ih (step_jinv hi (by rw [hs]; rfl))
  | scriptEnd hs _ => intro hi; exact step_jinv hi (by rw [hs]; rfl)
  | indicator hs _ _ _ ih => intro hi; exact ih (step_jinv hi (by rw [hs]; rfl))
  | indicatorEnd hs _ => intro hi; exact step_jinv hi (by rw [hs]; rfl)

/-! ### soundness: what the model's functions compute is a `JRunsTo` -/

theorem feedBom_of_inv {m : Mach} (hi : JInv m) (inp : Chars) : feedBom m inp = (m, inp) :=
  H5V.Model.HtmlTok.feedBom_id' m inp hi.bom

theorem afterRun_sound (o : TOpts) : ∀ (N fuel : Nat) (m : Mach) (inp : Chars) (j : JState) (m' : Mach) (i' : Chars)
    (j' : JState), JInv m → afterRun o N (jrun o fuel m inp j) = .ok (m', i', j') →
    i' = [] ∧ JRunsTo o m inp j m' j'
  | N, 0, m, inp, j, m', i', j', _, h => by rw [run_zero] at h; cases h
  | N, fuel + 1, m, inp, j, m', i', j', hi, h => by
    rw [run_succ] at h
    cases hs : step o (polOf j) m inp with
    | panic e => rw [hs] at h; cases h
    | cont m1 i1 =>
      rw [hs] at h
      simp only [deliver] at h
      cases ha : absorb m1.out.reverse j with
      | error e => rw [ha] at h; cases h
      | ok j1 =>
        rw [ha] at h
        obtain ⟨h1, h2⟩ := afterRun_sound o N fuel (clr m1) i1 j1 m' i' j' (step_jinv hi (by rw [hs]; rfl)) h
        exact ⟨h1, JRunsTo.cont hs ha h2⟩
    | suspend m1 i1 =>
      rw [hs] at h
      simp only [deliver] at h
      cases ha : absorb m1.out.reverse j with
      | error e => rw [ha] at h; cases h
      | ok j1 =>
        rw [ha] at h
        simp only [afterRun, Except.ok.injEq, Prod.mk.injEq] at h
        obtain ⟨rfl, rfl, rfl⟩ := h
        have hnil : i1 = [] := H5V.Model.HtmlTok.step_suspend_nil o _ m inp hi.tinv m1 i1 hs
        subst hnil
        exact ⟨rfl, JRunsTo.susp hs ha⟩
    | script m1 i1 =>
      rw [hs] at h
      simp only [deliver] at h
      cases ha : absorb m1.out.reverse j with
      | error e => rw [ha] at h; cases h
      | ok j1 =>
        rw [ha] at h
        simp only [afterRun] at h
        have hi1 := step_jinv hi (m1 := m1) (i1 := i1) (by rw [hs]; rfl)
        cases N with
        | zero => rw [processChunk_zero] at h; cases h
        | succ N' =>
          rw [processChunk_succ, List.append_nil] at h
          cases i1 with
          | nil =>
            simp only [List.isEmpty_nil, if_true, Except.ok.injEq, Prod.mk.injEq] at h
            obtain ⟨rfl, rfl, rfl⟩ := h
            exact ⟨rfl, JRunsTo.scriptEnd hs ha⟩
          | cons x xs =>
            simp only [List.isEmpty_cons, Bool.false_eq_true, if_false, feedBom_of_inv hi1] at h
            obtain ⟨h1, h2⟩ := afterRun_sound o N' _ (clr m1) (x :: xs) j1 m' i' j' hi1 h
            exact ⟨h1, JRunsTo.script hs ha (by simp) h2⟩
    | indicator m1 i1 =>
      rw [hs] at h
      simp only [deliver] at h
      cases ha : absorb m1.out.reverse j with
      | error e => rw [ha] at h; cases h
      | ok j1 =>
        rw [ha] at h
        simp only [afterRun] at h
        have hi1 := step_jinv hi (m1 := m1) (i1 := i1) (by rw [hs]; rfl)
        cases N with
        | zero => rw [processChunk_zero] at h; cases h
        | succ N' =>
          rw [processChunk_succ, List.append_nil] at h
          cases i1 with
          | nil =>
            simp only [List.isEmpty_nil, if_true, Except.ok.injEq, Prod.mk.injEq] at h
            obtain ⟨rfl, rfl, rfl⟩ := h
            exact ⟨rfl, JRunsTo.indicatorEnd hs ha⟩
          | cons x xs =>
            simp only [List.isEmpty_cons, Bool.false_eq_true, if_false, feedBom_of_inv hi1] at h
            obtain ⟨h1, h2⟩ := afterRun_sound o N' _ (clr m1) (x :: xs) j1 m' i' j' hi1 h
            exact ⟨h1, JRunsTo.indicator hs ha (by simp) h2⟩
termination_by N fuel => (N, fuel)

/-! ### completeness: a `JRunsTo` is computed by the model's functions, given enough fuel -/

theorem afterRun_complete {o : TOpts} {m : Mach} {inp : Chars} {j : JState} {m' : Mach} {j' : JState}
    (h : JRunsTo o m inp j m' j') : JInv m → ∀ fuel, mu m inp < fuel →
    ∃ N, ∀ N', N ≤ N' → afterRun o N' (jrun o fuel m inp j) = .ok (m', [], j') := by
  induction h with
  | @susp m inp j m1 j1 hs ha =>
    intro hi fuel hf
    obtain ⟨f, rfl⟩ : ∃ f, fuel = f + 1 := ⟨fuel - 1, by omega⟩
    refine ⟨0, fun N' _ => ?_⟩
    rw [run_succ, hs]
    simp only [deliver, ha, afterRun]
  | @cont m inp j m1 i1 j1 m' j' hs ha _ ih =>
    intro hi fuel hf
    obtain ⟨f, rfl⟩ : ∃ f, fuel = f + 1 := ⟨fuel - 1, by omega⟩
    have hdec := H5V.Model.HtmlTok.step_dec o _ m inp hi.tinv m1 i1 hs
    obtain ⟨N, hN⟩ := ih (step_jinv hi (by rw [hs]; rfl)) f (by rw [H5V.Model.HtmlTok.mu_clr]; omega)
    refine ⟨N, fun N' hN' => ?_⟩
    rw [run_succ, hs]
    simp only [deliver, ha]
    exact hN N' hN'
  | @script m inp j m1 i1 j1 m' j' hs ha hne _ ih =>
    intro hi fuel hf
    obtain ⟨f, rfl⟩ : ∃ f, fuel = f + 1 := ⟨fuel - 1, by omega⟩
    have hi1 := step_jinv hi (m1 := m1) (i1 := i1) (by rw [hs]; rfl)
    obtain ⟨N, hN⟩ := ih hi1 (fuelFor (clr m1) i1) (H5V.Model.HtmlTok.mu_lt_fuelFor _ _)
    refine ⟨N + 1, fun N' hN' => ?_⟩
    obtain ⟨N'', rfl⟩ : ∃ N'', N' = N'' + 1 := ⟨N' - 1, by omega⟩
    rw [run_succ, hs]
    simp only [deliver, ha, afterRun]
    rw [processChunk_succ, List.append_nil]
    have : i1.isEmpty = false := by cases i1 with | nil => exact (hne rfl).elim | cons _ _ => rfl
    simp only [this, Bool.false_eq_true, if_false, feedBom_of_inv hi1]
    exact hN N'' (by omega)
  | @scriptEnd m inp j m1 j1 hs ha =>
    intro hi fuel hf
    obtain ⟨f, rfl⟩ : ∃ f, fuel = f + 1 := ⟨fuel - 1, by omega⟩
    refine ⟨1, fun N' hN' => ?_⟩
    obtain ⟨N'', rfl⟩ : ∃ N'', N' = N'' + 1 := ⟨N' - 1, by omega⟩
    rw [run_succ, hs]
    simp only [deliver, ha, afterRun]
    rw [processChunk_succ]
    rfl
  | @indicator m inp j m1 i1 j1 m' j' hs ha hne _ ih =>
    intro hi fuel hf
    obtain ⟨f, rfl⟩ : ∃ f, fuel = f + 1 := ⟨fuel - 1, by omega⟩
    have hi1 := step_jinv hi (m1 := m1) (i1 := i1) (by rw [hs]; rfl)
    obtain ⟨N, hN⟩ := ih hi1 (fuelFor (clr m1) i1) (H5V.Model.HtmlTok.mu_lt_fuelFor _ _)
    refine ⟨N + 1, fun N' hN' => ?_⟩
    obtain ⟨N'', rfl⟩ : ∃ N'', N' = N'' + 1 := ⟨N' - 1, by omega⟩
    rw [run_succ, hs]
    simp only [deliver, ha, afterRun]
    rw [processChunk_succ, List.append_nil]
    have : i1.isEmpty = false := by cases i1 with | nil => exact (hne rfl).elim | cons _ _ => rfl
    simp only [this, Bool.false_eq_true, if_false, feedBom_of_inv hi1]
    exact hN N'' (by omega)
  | @indicatorEnd m inp j m1 j1 hs ha =>
    intro hi fuel hf
    obtain ⟨f, rfl⟩ : ∃ f, fuel = f + 1 := ⟨fuel - 1, by omega⟩
    refine ⟨1, fun N' hN' => ?_⟩
    obtain ⟨N'', rfl⟩ : ∃ N'', N' = N'' + 1 := ⟨N' - 1, by omega⟩
    rw [run_succ, hs]
    simp only [deliver, ha, afterRun]
    rw [processChunk_succ]
    rfl

end H5V.Lemmas.JointChunk
