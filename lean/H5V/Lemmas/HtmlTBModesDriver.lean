import H5V.Lemmas.HtmlTBModesDefs
import H5V.Lemmas.HtmlTBModesInvModel
/-!
The driver: `process_to_completion` / `process_token` / a token list of the model against
`loopDev` / `processTokenDev` / `runDev` of the specification, given the simulation of every rule
(`ModeSim`, `ModeCharSim`, `ForeignSim`, `ForeignCharSim`).
-/
namespace H5V.Lemmas.HtmlTBModes
open H5V.Model.HtmlTB
open H5V.Model.Dom (Id SinkOp Output Dom QualName Attr NodeOrText ElementFlags NodeData QuirksMode)
open H5V.Lemmas.HtmlTBAlgo
open H5V.Lemmas.TBSafe (TI HInv SInv Rooted ForeignTop textTok)
open H5V.Spec.TreeAlgo2 (Elem Entry PState Ctx Edit Place)
open H5V.Spec.TreeModes (STok ETok IMode Config Out TokSwitch XOp Op Step Edition)

/-! ### the specification's loop without fuel -/

/-- with enough fuel, one token (`html`: by-passing the dispatcher first) takes `σ` to `σ'` -/
def LoopsTo (cfg : Config Id) (html : Bool) (σ : SState) (tok : STok) (σ' : SState) : Prop :=
  ∃ k, ∀ k', k ≤ k' → loopDev cfg k' html σ tok = .ok σ'

def ruleOf (cfg : Config Id) (html : Bool) (σ : SState) (tok : STok) : Spec.TreeModes.M (Step Id) :=
  if html then byModeDev cfg σ tok else dispatchDev cfg σ tok

def loopCont (cfg : Config Id) (k : Nat) (tok : STok) : Step Id → Spec.TreeModes.M SState
  | .done s => pure s
  | .reprocess s => loopDev cfg k false s tok
  | .reprocessHtml s => loopDev cfg k true s tok

theorem loopDev_succ (cfg : Config Id) (k : Nat) (html : Bool) (σ : SState) (tok : STok) :
    loopDev cfg (k + 1) html σ tok = ruleOf cfg html σ tok >>= loopCont cfg k tok := by
  rw [loopDev]
  unfold ruleOf
  cases html
  · simp only [Bool.false_eq_true, if_false]
    cases dispatchDev cfg σ tok with
    | error e => rfl
    | ok r => cases r <;> rfl
  · simp only [if_true]
    cases byModeDev cfg σ tok with
    | error e => rfl
    | ok r => cases r <;> rfl

theorem LoopsTo.done {cfg : Config Id} {html : Bool} {σ σ' : SState} {tok : STok}
    (h : ruleOf cfg html σ tok = .ok (.done σ')) : LoopsTo cfg html σ tok σ' := by
  refine ⟨1, fun k' hk => ?_⟩
  obtain ⟨k, rfl⟩ : ∃ k, k' = k + 1 := ⟨k' - 1, by omega⟩
  rw [loopDev_succ, h]; rfl

theorem LoopsTo.reprocess {cfg : Config Id} {html : Bool} {σ σ1 σ' : SState} {tok : STok}
    (h : ruleOf cfg html σ tok = .ok (.reprocess σ1)) (h2 : LoopsTo cfg false σ1 tok σ') : LoopsTo cfg html σ tok σ' := by
  obtain ⟨k0, hk0⟩ := h2
  refine ⟨k0 + 1, fun k' hk => ?_⟩
  obtain ⟨k, rfl⟩ : ∃ k, k' = k + 1 := ⟨k' - 1, by omega⟩
  rw [loopDev_succ, h]
  exact hk0 k (by omega)

theorem LoopsTo.reprocessHtml {cfg : Config Id} {html : Bool} {σ σ1 σ' : SState} {tok : STok}
    (h : ruleOf cfg html σ tok = .ok (.reprocessHtml σ1)) (h2 : LoopsTo cfg true σ1 tok σ') : LoopsTo cfg html σ tok σ' := by
  obtain ⟨k0, hk0⟩ := h2
  refine ⟨k0 + 1, fun k' hk => ?_⟩
  obtain ⟨k, rfl⟩ : ∃ k, k' = k + 1 := ⟨k' - 1, by omega⟩
  rw [loopDev_succ, h]
  exact hk0 k (by omega)

/-- with enough fuel, the characters `text` take `σ` to `σ'` -/
def CharsTo (cfg : Config Id) (σ : SState) (text : Str) (σ' : SState) : Prop :=
  ∃ k, ∀ k', k ≤ k' → processCharsDev cfg k' σ text = .ok σ'

theorem CharsTo.nil (cfg : Config Id) (σ : SState) : CharsTo cfg σ [] σ := ⟨0, fun _ _ => rfl⟩

theorem CharsTo.cons {cfg : Config Id} {σ σ1 σ' : SState} {c : Char} {cs : Str}
    (hst : σ.stopped = false) (hlf : σ.ignoreLf = false)
    (h1 : LoopsTo cfg false σ (.character c) σ1) (h2 : CharsTo cfg σ1 cs σ') : CharsTo cfg σ (c :: cs) σ' := by
  obtain ⟨k1, hk1⟩ := h1
  obtain ⟨k2, hk2⟩ := h2
  refine ⟨max k1 k2, fun k' hk => ?_⟩
  simp only [processCharsDev, processSTokDev, hst, hlf, Bool.false_eq_true, if_false]
  rw [hk1 k' (by omega)]
  exact hk2 k' (by omega)

theorem processCharsDev_append (cfg : Config Id) (k : Nat) : ∀ (a : Str) (σ : SState) (b : Str),
    processCharsDev cfg k σ (a ++ b) = processCharsDev cfg k σ a >>= fun σ1 => processCharsDev cfg k σ1 b := by
  intro a
  induction a with
  | nil => intro σ b; rfl
  | cons c cs ih =>
    intro σ b
    simp only [List.cons_append, processCharsDev]
    cases processSTokDev cfg k σ (.character c) with
    | error e => rfl
    | ok σa => exact ih σa b

theorem CharsTo.append {cfg : Config Id} {a : Str} {σ σ1 σ' : SState} {b : Str}
    (h1 : CharsTo cfg σ a σ1) (h2 : CharsTo cfg σ1 b σ') : CharsTo cfg σ (a ++ b) σ' := by
  obtain ⟨k1, hk1⟩ := h1
  obtain ⟨k2, hk2⟩ := h2
  refine ⟨max k1 k2, fun k' hk => ?_⟩
  rw [processCharsDev_append, hk1 k' (by omega)]
  exact hk2 k' (by omega)

/-- the rest of a run of characters, each "done" at once -/
theorem CharsTo.of_rest {cfg : Config Id} : ∀ {text : Str} {σ σ' : SState},
    specCharsRest cfg σ text = .ok σ' → CharsTo cfg σ text σ' := by
  intro text
  induction text with
  | nil =>
    intro σ σ' h
    simp only [specCharsRest, pure, Except.pure] at h
    cases h; exact CharsTo.nil _ _
  | cons c cs ih =>
    intro σ σ' h
    simp only [specCharsRest] at h
    by_cases hb : (σ.stopped || σ.ignoreLf) = true
    · simp [hb, bind, Except.bind, throw, throwThe, MonadExceptOf.throw] at h
    · simp only [hb, Bool.false_eq_true, if_false] at h
      simp only [Bool.or_eq_true, not_or, Bool.not_eq_true] at hb
      cases hd : dispatchDev cfg σ (.character c) with
      | error e => rw [hd] at h; cases h
      | ok r =>
        rw [hd] at h
        cases r with
        | done σ1 =>
          exact CharsTo.cons hb.1 hb.2 (LoopsTo.done (by simpa [ruleOf] using hd)) (ih h)
        | reprocess σ1 => cases h
        | reprocessHtml σ1 => cases h

/-! ### `is_foreign` and the dispatcher -/

/-- a computation that only queries: the tree builder's fields stay, no call is an edit -/
def QShape {α : Type} (m : M α) : Prop := ∀ s, PC m s (fun _ s' calls => SameTB s s' ∧ edits calls = [])

theorem qshape_pure {α : Type} (a : α) : QShape (pure a : M α) := fun s => pc_pure ⟨SameTB.refl s, rfl⟩

theorem qshape_bind {α β : Type} {m : M α} {f : α → M β} (h1 : QShape m) (h2 : ∀ a, QShape (f a)) : QShape (m >>= f) := by
  intro s
  refine pc_seq (h1 s) ?_
  rintro a s1 c1 _ ⟨hs1, hc1⟩
  refine pc_conseq (h2 a s1) ?_
  rintro b s2 c2 _ ⟨hs2, hc2⟩
  exact ⟨hs1.trans hs2, by rw [edits_append, hc1, hc2]; rfl⟩

theorem qshape_getS_bind {β : Type} {f : State → M β} (h : ∀ s0, QShape (f s0)) : QShape (getS >>= f) := by
  intro s
  exact pc_getS_bind (h s s)

theorem qshape_ite {α : Type} {c : Prop} [Decidable c] {a b : M α} (ha : QShape a) (hb : QShape b) :
    QShape (if c then a else b) := by
  split
  · exact ha
  · exact hb

theorem qshape_throw {α : Type} (e : String) : QShape (throw e : M α) := fun _ => pc_throw

theorem qshape_panicAt {α : Type} (c site text : String) : QShape (panicAt c site text : M α) := fun _ => pc_panicAt

theorem qshape_sink {op : SinkOp} (h : isEdit op = false) : QShape (sink op) := by
  intro s
  refine pc_sink ?_
  intro d' out _
  exact ⟨SameTB.afterCall .., by simp [edits, h]⟩

theorem qshape_sinkBool {op : SinkOp} (h : isEdit op = false) : QShape (sinkBool op) := by
  unfold sinkBool
  refine qshape_bind (qshape_sink h) ?_
  intro o
  cases o <;> first | exact qshape_pure _ | exact qshape_throw _

theorem qshape_elemName (h : Id) : QShape (elemName h) := by
  intro s
  refine pc_conseq (PC.of_tot (tot_elemName' s h)) ?_
  rintro _ s' calls _ ⟨-, hs, hc⟩
  exact ⟨hs, hc⟩

theorem qshape_currentNode : QShape currentNode := by
  unfold currentNode
  refine qshape_getS_bind ?_
  intro s0
  cases s0.openElems.getLast? with
  | none => exact qshape_panicAt _ _ _
  | some h => exact qshape_pure _

theorem qshape_adjustedCurrentNode : QShape H5V.Model.HtmlTB.adjustedCurrentNode := by
  unfold H5V.Model.HtmlTB.adjustedCurrentNode
  refine qshape_getS_bind ?_
  intro s0
  split
  · cases s0.contextElem with
    | none => exact qshape_currentNode
    | some c => exact qshape_pure _
  · exact qshape_currentNode

theorem qshape_isForeign (tok : Token) : QShape (isForeign tok) := by
  have hip : ∀ β (k : Bool → M β), (∀ b, QShape (k b)) → QShape (do
      let cur ← H5V.Model.HtmlTB.adjustedCurrentNode
      let b ← sinkBool (.isMathmlAnnotationXmlIntegrationPoint cur)
      k b) := by
    intro β k hk
    exact qshape_bind qshape_adjustedCurrentNode (fun cur => qshape_bind (qshape_sinkBool rfl) hk)
  unfold isForeign
  refine qshape_ite (qshape_pure _) ?_
  refine qshape_getS_bind ?_
  intro s0
  refine qshape_ite (qshape_pure _) ?_
  refine qshape_bind qshape_adjustedCurrentNode ?_
  intro cur
  refine qshape_bind (qshape_elemName cur) ?_
  intro name
  refine qshape_ite (qshape_pure _) ?_
  refine qshape_ite (qshape_pure _) ?_
  refine qshape_ite (qshape_pure _) ?_
  refine qshape_ite ?_ (qshape_pure _)
  split
  · refine qshape_ite (qshape_pure _) ?_
    exact hip _ _ (fun b => qshape_pure _)
  · refine qshape_ite ?_ (qshape_pure _)
    exact hip _ _ (fun b => qshape_pure _)

theorem ip_of_isElement {d : Dom} {h : Id} (he : d.isElement h = true) :
    d.isMathmlAnnotationXmlIntegrationPoint h = .ok (ipOfDom d h) := by
  obtain ⟨nd, hn⟩ := H5V.Lemmas.Dom.node?_of_lt (isElement_lt he)
  unfold Dom.isElement at he; rw [H5V.Lemmas.Dom.dataOf_of_node hn] at he
  unfold Dom.isMathmlAnnotationXmlIntegrationPoint ipOfDom
  rw [H5V.Lemmas.Dom.dataOf_of_node hn]
  simp only [bind, Except.bind, H5V.Lemmas.Dom.get_ok_of hn]
  cases hd : nd.data <;> simp [hd] at he ⊢

/-- the standard's token kind of a token of the tree builder (character runs: any of their characters) -/
def skind : Token → Spec.TreeAlgo.TokenKind := HtmlTBSpec.tokKind

theorem tokenKind_stokOf (tok : Token) (h : isCharsTok tok = false) : Spec.TreeModes.tokenKind (stokOf tok) = skind tok := by
  cases tok with
  | chars _ _ => cases h
  | tag t =>
    simp only [stokOf, stokOfTag, skind, HtmlTBSpec.tokKind]
    split <;> rfl
  | _ => rfl

/-- `useHtmlRules` looks at the `encodingHtml` flag of `annotation-xml` elements only -/
theorem useHtmlRules_flag (n : Spec.TreeAlgo.Name) (a b : Bool) (k : Spec.TreeAlgo.TokenKind)
    (h : n = HtmlTBSpec.toName annotName → a = b) :
    Spec.TreeAlgo.useHtmlRules (some ⟨n, a⟩) k = Spec.TreeAlgo.useHtmlRules (some ⟨n, b⟩) k := by
  by_cases hn : n = HtmlTBSpec.toName annotName
  · rw [h hn]
  · have : (n.ns == Spec.TreeAlgo.nsMathml && n.loc == "annotation-xml".toList) = false := by
      cases h1 : n.ns == Spec.TreeAlgo.nsMathml
      · rfl
      · cases h2 : n.loc == "annotation-xml".toList
        · rfl
        · exfalso; apply hn
          rw [beq_iff_eq] at h1 h2
          obtain ⟨ns, loc⟩ := n
          simp only at h1 h2
          subst h1 h2; rfl
    simp only [Spec.TreeAlgo.useHtmlRules, Spec.TreeAlgo.isHtmlIntegrationPoint, this, Bool.false_and]

/-- **the dispatcher**: `is_foreign(token)` answers `false` exactly when the standard says "process the
token according to the rules of the current insertion mode in HTML content" -/
theorem isForeign_value {s : State} (hm : MInv s) (tok : Token) {b : Bool} {s1 : State}
    (hr : (isForeign tok).run s = .ok (b, s1)) (x : Aux) (hlive : x.stopped = false)
    (hann : ∀ h ∈ s.openElems, nameOf s.dom h = annotName → x.annot.contains h = ipOfDom s.dom h) :
    b = !Spec.TreeAlgo.useHtmlRules (Spec.TreeModes.adjustedCurrentNode (cfgOf s) (absF s x)) (skind tok) := by
  have hrun : ∀ a, HtmlTBSpec.Query (isForeign tok) s a → b = a := by
    intro a hq
    obtain ⟨tr', h⟩ := hq s.traceRev
    have : HtmlTBSpec.withTr s s.traceRev = s := rfl
    rw [this, hr] at h
    cases h; rfl
  have hstack : (absF s x).p.stack = absStack s.dom s.openElems := by
    simp only [absF, absP, hlive, Bool.false_eq_true, if_false]
  unfold Spec.TreeModes.adjustedCurrentNode
  rw [hstack]
  cases hl : s.openElems.reverse with
  | nil =>
    have he : s.openElems = [] := by simpa using hl
    rw [hrun false (HtmlTBSpec.isForeign_empty s tok he)]
    simp [he, absStack, Spec.TreeAlgo.adjustedCurrentNode, Spec.TreeAlgo.useHtmlRules]
  | cons top rest =>
    have hmem : top ∈ s.openElems := by
      have : top ∈ s.openElems.reverse := by rw [hl]; simp
      simpa using this
    have hrev : (absStack s.dom s.openElems).reverse = elemOf s.dom top :: rest.map (elemOf s.dom) := by
      unfold absStack; rw [← List.map_reverse, hl]; rfl
    rw [hrev]
    -- the adjusted current node of the model
    have hcase : (rest = [] ∧ ∃ c, s.contextElem = some c) ∨ ¬ (rest = [] ∧ ∃ c, s.contextElem = some c) := Classical.em _
    rcases hcase with ⟨hrest, c, hc⟩ | hno
    · subst hrest
      have hacn : Spec.TreeAlgo.adjustedCurrentNode s.openElems.reverse s.contextElem = some c := by
        rw [hl, hc]; rfl
      have hcel := hm.ctx c hc
      obtain ⟨n, hn⟩ := elemName_of_isElement hcel
      have hq := HtmlTBSpec.isForeign_query s tok c ⟨n.1, n.2⟩ (ipOfDom s.dom c) hacn hn (ip_of_isElement hcel)
      rw [hrun _ hq]
      simp only [cfgOf, hc, Option.map_some, List.map_nil, Spec.TreeAlgo.adjustedCurrentNode, Option.getD_some]
      have : nameOf s.dom c = ⟨n.1, n.2⟩ := by unfold nameOf; rw [hn]
      simp only [elemOf, this]
      rfl
    · have hacn : Spec.TreeAlgo.adjustedCurrentNode s.openElems.reverse s.contextElem = some top := by
        rw [hl]
        cases rest with
        | nil =>
          cases hc : s.contextElem with
          | none => rfl
          | some c => exact absurd ⟨rfl, c, hc⟩ hno
        | cons r rs => rfl
      have htel := hm.elems top hmem
      obtain ⟨n, hn⟩ := elemName_of_isElement htel
      have hq := HtmlTBSpec.isForeign_query s tok top ⟨n.1, n.2⟩ (ipOfDom s.dom top) hacn hn (ip_of_isElement htel)
      rw [hrun _ hq]
      have hname : nameOf s.dom top = ⟨n.1, n.2⟩ := by unfold nameOf; rw [hn]
      have hspec : Spec.TreeAlgo.adjustedCurrentNode
          (List.map (Spec.TreeModes.openElem (absF s x)) (elemOf s.dom top :: rest.map (elemOf s.dom)))
          (Option.map (fun c => ({ name := c.name, encodingHtml := (cfgOf s).contextEncodingHtml } : Spec.TreeAlgo.OpenElem)) (cfgOf s).context)
          = some (Spec.TreeModes.openElem (absF s x) (elemOf s.dom top)) := by
        cases rest with
        | nil =>
          cases hc : s.contextElem with
          | none => simp [cfgOf, hc, Spec.TreeAlgo.adjustedCurrentNode]
          | some c => exact absurd ⟨rfl, c, hc⟩ hno
        | cons r rs => simp [Spec.TreeAlgo.adjustedCurrentNode]
      rw [hspec]
      congr 1
      simp only [Spec.TreeModes.openElem, elemOf, hname]
      apply useHtmlRules_flag
      intro hnm
      have hnn : nameOf s.dom top = annotName := by
        rw [hname]
        have h1 : n.1 = annotName.ns := congrArg Spec.TreeAlgo.Name.ns hnm
        have h2 : n.2 = annotName.loc := congrArg Spec.TreeAlgo.Name.loc hnm
        rw [h1, h2]
      exact (hann top hmem hnn).symm

/-! ### one iteration of `process_to_completion` -/

theorem pc_with_run {α : Type} {m : M α} {s : State} {Q : α → State → List Call → Prop} (h : PC m s Q) :
    PC m s (fun a s' c => Q a s' c ∧ m.run s = .ok (a, s')) := by
  intro a s' hr
  obtain ⟨c, he, hq⟩ := h a s' hr
  exact ⟨c, he, hq, hr⟩

theorem pc_and_run {α : Type} {m : M α} {s : State} {Q : α → State → List Call → Prop} {R : α → State → Prop}
    (hr : ∀ a s', m.run s = .ok (a, s') → R a s') (h : PC m s Q) : PC m s (fun a s' c => R a s' ∧ Q a s' c) := by
  intro a s' hrun
  obtain ⟨c, he, hq⟩ := h a s' hrun
  exact ⟨c, he, hr a s' hrun, hq⟩

/-- a rule run after a query stretch -/
theorem TokPost.after_query {spec spec' : SState → Spec.TreeModes.M (Step Id)} {s s1 s' : State} {tok : Token}
    {res : ProcessResult} {c1 c2 : List Call} (hm : MInv s) (hs : SameTB s s1) (he : Ext2 s c1 s1) (hc : edits c1 = [])
    (h : TokPost spec' s1 tok res s' c2) (hspec : ∀ x, AuxOk s x → spec (absF s x) = spec' (absF s x)) :
    TokPost spec s tok res s' (c1 ++ c2) := by
  obtain ⟨hres, hminv, hcfg, ids, hfi, f⟩ := h
  refine ⟨hres, hminv, hcfg.trans (cfgOf_of_same hm hs he.ext), ids, hfi.of_dom he.ext, fun x rest hx hsup => ?_⟩
  obtain ⟨x', ops, e, r1, r2, r3, r4, r5, r6, r7⟩ := f x rest (hx.of_same hm hs he.ext) hsup
  rw [absF_of_same x hm hs he.ext] at e
  refine ⟨x', ops, (hspec x hx).trans e, r1, r2, r3, r4, r5, r6, ?_⟩
  intro tc htc
  rw [edits2_append, ← edits2_edits c1, hc]
  exact r7 tc htc

/-- what the dispatcher and the rules do with one non-character token, the "reprocess in HTML
content" of the foreign-content rules carried out -/
def dispatchFull (cfg : Config Id) (σ : SState) (tok : STok) : Spec.TreeModes.M (Step Id) :=
  if Spec.TreeAlgo.useHtmlRules (Spec.TreeModes.adjustedCurrentNode cfg σ) (Spec.TreeModes.tokenKind tok) then byModeDev cfg σ tok
  else foreignFull cfg σ tok

theorem LoopsTo.of_full_done {cfg : Config Id} {σ σ' : SState} {tok : STok}
    (h : dispatchFull cfg σ tok = .ok (.done σ')) : LoopsTo cfg false σ tok σ' := by
  unfold dispatchFull at h
  by_cases hu : Spec.TreeAlgo.useHtmlRules (Spec.TreeModes.adjustedCurrentNode cfg σ) (Spec.TreeModes.tokenKind tok) = true
  · rw [if_pos hu] at h
    exact LoopsTo.done (by simp only [ruleOf, dispatchDev, hu, if_true, Bool.false_eq_true, if_false]; exact h)
  · rw [if_neg hu] at h
    have hd : ∀ r, Spec.TreeModes.foreign cfg σ tok = .ok r → ruleOf cfg false σ tok = .ok r := by
      intro r hr; simp only [ruleOf, dispatchDev, hu, Bool.false_eq_true, if_false]; exact hr
    unfold foreignFull at h
    cases hf : Spec.TreeModes.foreign cfg σ tok with
    | error e => rw [hf] at h; cases h
    | ok r =>
      rw [hf] at h
      cases r with
      | done σa => cases h; exact LoopsTo.done (hd _ hf)
      | reprocess σa => cases h
      | reprocessHtml σa =>
        exact LoopsTo.reprocessHtml (hd _ hf) (LoopsTo.done (by simp only [ruleOf, if_true]; exact h))

theorem LoopsTo.of_full_reprocess {cfg : Config Id} {σ σ1 σ' : SState} {tok : STok}
    (h : dispatchFull cfg σ tok = .ok (.reprocess σ1)) (h2 : LoopsTo cfg false σ1 tok σ') : LoopsTo cfg false σ tok σ' := by
  unfold dispatchFull at h
  by_cases hu : Spec.TreeAlgo.useHtmlRules (Spec.TreeModes.adjustedCurrentNode cfg σ) (Spec.TreeModes.tokenKind tok) = true
  · rw [if_pos hu] at h
    exact LoopsTo.reprocess (by simp only [ruleOf, dispatchDev, hu, if_true, Bool.false_eq_true, if_false]; exact h) h2
  · rw [if_neg hu] at h
    have hd : ∀ r, Spec.TreeModes.foreign cfg σ tok = .ok r → ruleOf cfg false σ tok = .ok r := by
      intro r hr; simp only [ruleOf, dispatchDev, hu, Bool.false_eq_true, if_false]; exact hr
    unfold foreignFull at h
    cases hf : Spec.TreeModes.foreign cfg σ tok with
    | error e => rw [hf] at h; cases h
    | ok r =>
      rw [hf] at h
      cases r with
      | done σa => cases h
      | reprocess σa => cases h; exact LoopsTo.reprocess (hd _ hf) h2
      | reprocessHtml σa =>
        exact LoopsTo.reprocessHtml (hd _ hf) (LoopsTo.reprocess (by simp only [ruleOf, if_true]; exact h) h2)

/-- the body of an iteration -/
def ptcStep (tok : Token) : M ProcessResult := do
  if ← isForeign tok then stepForeign tok
  else step (← getS).mode tok

theorem isForeign_eof_false {s s1 : State} {b : Bool} (h : (isForeign .eof).run s = .ok (b, s1)) : b = false := by
  rw [TBSafe.isForeign_eof] at h; cases h; rfl

/-- **one iteration on a non-character token** -/
theorem pc_ptcStep_tok (hmode : ∀ m, ModeSim m) (hfor : ForeignSim) (tok : Token) (hch : isCharsTok tok = false)
    (hwf : TokWf tok) (s : State) (ht : TI s) (hm : MInv s) (hprot : s.mode = .text → textTok tok = true) :
    PC (ptcStep tok) s (fun res s' calls => TBSafe.StepPost tok res s' ∧
      TokPost (fun σ => dispatchFull (cfgOf s) σ (stokOf tok)) s tok res s' calls) := by
  unfold ptcStep
  refine pc_seq (pc_with_run (qshape_isForeign tok s)) ?_
  rintro b s1 c1 he1 ⟨⟨hs1, hc1⟩, hrun⟩
  obtain ⟨hq, hb⟩ := ((@H5V.Props.C04TB.sat_iff H5V.Props.C04TB.allowAll _ _ _ _).mp (@TBSafe.sat_isForeign H5V.Props.C04TB.allowAll tok s ht.h)).1 b s1 hrun
  have ht1 : TI s1 := ht.of_qf hq
  have hval := fun x (hx : AuxOk s x) => isForeign_value hm tok hrun x hx.live hx.annot
  cases b with
  | true =>
    simp only [if_true]
    have hne : tok ≠ .eof := by
      intro h; subst h
      exact absurd (isForeign_eof_false hrun) (by simp)
    obtain ⟨c, hc, hns⟩ := hb rfl
    have hf1 : ForeignTop s1 := by
      refine ⟨c, ?_, ?_⟩
      · unfold TBSafe.adjNode at hc ⊢
        rw [hq.openElems, hq.contextElem]; exact hc
      · rw [TBSafe.nm_ext hq.ext (TBSafe.adjNode_el ht.h hc)]; exact hns
    refine pc_conseq (pc_and_run ((@H5V.Props.C04TB.sat_iff H5V.Props.C04TB.allowAll _ _ _ _).mp (@TBSafe.sat_stepForeign H5V.Props.C04TB.allowAll H5V.Props.C04TB.allSpec tok s1 ht1 hf1 hne)).1
      (hfor tok hch hne hwf s1 ht1 (hm.sameTB hs1 he1.ext) hf1)) ?_
    rintro res s' c2 _ ⟨hsp, hpost⟩
    refine ⟨hsp, TokPost.after_query hm hs1 he1 hc1 hpost ?_⟩
    intro x hx
    have := hval x hx
    rw [← tokenKind_stokOf tok hch] at this
    have hu : Spec.TreeAlgo.useHtmlRules (Spec.TreeModes.adjustedCurrentNode (cfgOf s) (absF s x)) (Spec.TreeModes.tokenKind (stokOf tok)) = false := by
      cases h : Spec.TreeAlgo.useHtmlRules (Spec.TreeModes.adjustedCurrentNode (cfgOf s) (absF s x)) (Spec.TreeModes.tokenKind (stokOf tok))
      · rfl
      · rw [h] at this; cases this
    simp only [dispatchFull, hu, Bool.false_eq_true, if_false, cfgOf_of_same hm hs1 he1.ext]
  | false =>
    simp only [Bool.false_eq_true, if_false]
    refine pc_getS_bind ?_
    have hprot1 : s1.mode = .text → textTok tok = true := by rw [hq.mode]; exact hprot
    refine pc_conseq (pc_and_run (@H5V.Props.C04TB.C04_tb_no_panic_step H5V.Props.C04TB.allowAll s1 tok ht1 (fun _ => Or.inl trivial)).1
      (hmode s1.mode tok hch hwf s1 ht1 (hm.sameTB hs1 he1.ext) rfl (fun h => hprot1 h))) ?_
    rintro res s' c2 _ ⟨hsp, hpost⟩
    refine ⟨hsp, TokPost.after_query hm hs1 he1 hc1 hpost ?_⟩
    intro x hx
    have := hval x hx
    rw [← tokenKind_stokOf tok hch] at this
    have hu : Spec.TreeAlgo.useHtmlRules (Spec.TreeModes.adjustedCurrentNode (cfgOf s) (absF s x)) (Spec.TreeModes.tokenKind (stokOf tok)) = true := by
      cases h : Spec.TreeAlgo.useHtmlRules (Spec.TreeModes.adjustedCurrentNode (cfgOf s) (absF s x)) (Spec.TreeModes.tokenKind (stokOf tok))
      · rw [h] at this; cases this
      · rfl
    simp only [dispatchFull, hu, if_true, cfgOf_of_same hm hs1 he1.ext]

theorem Tr.after_query {s s1 s' : State} {c1 c2 : List Call} {R : Aux → Aux → Prop} (hm : MInv s) (hs : SameTB s s1)
    (he : Ext2 s c1 s1) (hc : edits c1 = []) (h : Tr s1 s' c2 R) :
    Tr s s' (c1 ++ c2) (fun x x' => R x x' ∧ absF s x = absF s1 x ∧ AuxOk s1 x) := by
  refine ((Tr.of_same hm hs he (by rw [← edits2_edits, hc]; rfl)).trans h).conseq ?_
  rintro x x' hx _ ⟨x1, ⟨h1, h2⟩, h3⟩
  subst x1
  exact ⟨h3, h2, hx.of_same hm hs he.ext⟩

theorem specChars_congr (cfg : Config Id) {rule rule' : SState → STok → Spec.TreeModes.M (Step Id)} (σ : SState) (text : Str)
    (h : ∀ c, rule σ (.character c) = rule' σ (.character c)) : specChars cfg rule σ text = specChars cfg rule' σ text := by
  cases text with
  | nil => rfl
  | cons c cs => simp only [specChars, h c]

theorem CharsPost.after_query {rule rule' : SState → STok → Spec.TreeModes.M (Step Id)} {s s1 s' : State} {st : SplitStatus}
    {text : Str} {res : ProcessResult} {c1 c2 : List Call} (hm : MInv s) (hs : SameTB s s1) (he : Ext2 s c1 s1)
    (hc : edits c1 = []) (h : CharsPost rule' s1 st text res s' c2)
    (hrule : ∀ x, AuxOk s x → ∀ c, rule (absF s x) (.character c) = rule' (absF s x) (.character c)) :
    CharsPost rule s st text res s' (c1 ++ c2) := by
  have hcfg := cfgOf_of_same hm hs he.ext
  have hlf : s1.ignoreLf = s.ignoreLf := hs.fields.ignoreLf
  cases res with
  | done =>
    obtain ⟨h1, h2⟩ := h
    refine ⟨h1.trans hlf, (Tr.after_query hm hs he hc h2).conseq ?_⟩
    rintro x x' hx _ ⟨r, e, _⟩
    rw [← hcfg, e, specChars_congr (cfgOf s1) (absF s1 x) text (fun c => e ▸ hrule x hx c)]
    exact r
  | splitWhitespace t =>
    obtain ⟨h1, h2, h2', h3⟩ := h
    refine ⟨h1, h2, h2'.trans hlf, (Tr.after_query hm hs he hc h3).conseq ?_⟩
    rintro x x' hx _ ⟨⟨r1, r2⟩, e, _⟩
    exact ⟨r1, e.trans r2⟩
  | reprocess m t =>
    obtain ⟨h1, h2, c, cs, h3, h4⟩ := h
    refine ⟨h1, h2.trans hlf, c, cs, h3, (Tr.after_query hm hs he hc h4).conseq ?_⟩
    rintro x x' hx _ ⟨r, e, _⟩
    rw [hrule x hx c, e]; exact r
  | _ => exact h.elim

/-- **one iteration on a run of characters** -/
theorem pc_ptcStep_chars (hchar : ∀ m, ModeCharSim m) (hfor : ForeignCharSim) (st : SplitStatus) (text : Str)
    (hwf : TokWf (.chars st text)) (s : State) (ht : TI s) (hm : MInv s) (hlf : s.ignoreLf = false) :
    PC (ptcStep (.chars st text)) s (fun res s' calls => TBSafe.StepPost (.chars st text) res s' ∧
      CharsPost (dispatchDev (cfgOf s)) s st text res s' calls) := by
  unfold ptcStep
  refine pc_seq (pc_with_run (qshape_isForeign _ s)) ?_
  rintro b s1 c1 he1 ⟨⟨hs1, hc1⟩, hrun⟩
  obtain ⟨hq, hb⟩ := ((@H5V.Props.C04TB.sat_iff H5V.Props.C04TB.allowAll _ _ _ _).mp (@TBSafe.sat_isForeign H5V.Props.C04TB.allowAll _ s ht.h)).1 b s1 hrun
  have ht1 : TI s1 := ht.of_qf hq
  have hval := fun x (hx : AuxOk s x) => isForeign_value hm _ hrun x hx.live hx.annot
  have hlf1 : s1.ignoreLf = false := by rw [hs1.fields.ignoreLf]; exact hlf
  cases b with
  | true =>
    simp only [if_true]
    obtain ⟨c, hc, hns⟩ := hb rfl
    have hf1 : ForeignTop s1 := by
      refine ⟨c, ?_, ?_⟩
      · unfold TBSafe.adjNode at hc ⊢
        rw [hq.openElems, hq.contextElem]; exact hc
      · rw [TBSafe.nm_ext hq.ext (TBSafe.adjNode_el ht.h hc)]; exact hns
    refine pc_conseq (pc_and_run ((@H5V.Props.C04TB.sat_iff H5V.Props.C04TB.allowAll _ _ _ _).mp (@TBSafe.sat_stepForeign H5V.Props.C04TB.allowAll H5V.Props.C04TB.allSpec _ s1 ht1 hf1 (by intro h; cases h))).1
      (hfor st text hwf s1 ht1 (hm.sameTB hs1 he1.ext) hf1 hlf1 ?_)) ?_
    · intro x hx1
      have hann : ∀ h ∈ s.openElems, nameOf s.dom h = annotName → x.annot.contains h = ipOfDom s.dom h := by
        intro h hh hn
        have hh1 : h ∈ s1.openElems := by rw [hs1.openElems]; exact hh
        rw [hx1.annot h hh1 (by rw [nameOf_ext he1.ext (hm.elems h hh)]; exact hn), ipOfDom_ext he1.ext (hm.elems h hh)]
      have := isForeign_value hm _ hrun x hx1.live hann
      rw [absF_of_same x hm hs1 he1.ext, cfgOf_of_same hm hs1 he1.ext]
      cases h : Spec.TreeAlgo.useHtmlRules (Spec.TreeModes.adjustedCurrentNode (cfgOf s) (absF s x)) .character
      · rfl
      · rw [show skind (Token.chars st text) = .character from rfl, h] at this; cases this
    rintro res s' c2 _ ⟨hsp, hpost⟩
    refine ⟨hsp, CharsPost.after_query hm hs1 he1 hc1 hpost ?_⟩
    intro x hx ch
    have := hval x hx
    have hu : Spec.TreeAlgo.useHtmlRules (Spec.TreeModes.adjustedCurrentNode (cfgOf s) (absF s x)) .character = false := by
      cases h : Spec.TreeAlgo.useHtmlRules (Spec.TreeModes.adjustedCurrentNode (cfgOf s) (absF s x)) .character
      · rfl
      · rw [show skind (Token.chars st text) = .character from rfl, h] at this; cases this
    simp only [dispatchDev, Spec.TreeModes.tokenKind, hu, Bool.false_eq_true, if_false, cfgOf_of_same hm hs1 he1.ext]
  | false =>
    simp only [Bool.false_eq_true, if_false]
    refine pc_getS_bind ?_
    refine pc_conseq (pc_and_run (@H5V.Props.C04TB.C04_tb_no_panic_step H5V.Props.C04TB.allowAll s1 _ ht1 (fun _ => Or.inl trivial)).1
      (hchar s1.mode st text hwf s1 ht1 (hm.sameTB hs1 he1.ext) rfl hlf1 ?_)) ?_
    · intro x hx1
      have hann : ∀ h ∈ s.openElems, nameOf s.dom h = annotName → x.annot.contains h = ipOfDom s.dom h := by
        intro h hh hn
        have hh1 : h ∈ s1.openElems := by rw [hs1.openElems]; exact hh
        rw [hx1.annot h hh1 (by rw [nameOf_ext he1.ext (hm.elems h hh)]; exact hn), ipOfDom_ext he1.ext (hm.elems h hh)]
      have := isForeign_value hm _ hrun x hx1.live hann
      rw [absF_of_same x hm hs1 he1.ext, cfgOf_of_same hm hs1 he1.ext]
      cases h : Spec.TreeAlgo.useHtmlRules (Spec.TreeModes.adjustedCurrentNode (cfgOf s) (absF s x)) .character
      · rw [show skind (Token.chars st text) = .character from rfl, h] at this; cases this
      · rfl
    rintro res s' c2 _ ⟨hsp, hpost⟩
    refine ⟨hsp, CharsPost.after_query hm hs1 he1 hc1 hpost ?_⟩
    intro x hx ch
    have := hval x hx
    have hu : Spec.TreeAlgo.useHtmlRules (Spec.TreeModes.adjustedCurrentNode (cfgOf s) (absF s x)) .character = true := by
      cases h : Spec.TreeAlgo.useHtmlRules (Spec.TreeModes.adjustedCurrentNode (cfgOf s) (absF s x)) .character
      · rw [show skind (Token.chars st text) = .character from rfl, h] at this; cases this
      · rfl
    simp only [dispatchDev, Spec.TreeModes.tokenKind, hu, if_true, cfgOf_of_same hm hs1 he1.ext]

/-! ### stretches at the level of the driver -/

/-- as `Link`, without the tokenizer answers, and `AuxOk` only as long as "stop parsing" was not reached -/
structure DLink (s : State) (x : Aux) (s' : State) (x' : Aux) (calls : List Call) (rest : List Id) : Prop where
  aux : x'.stopped = false → AuxOk s' x'
  supply : x'.supply = rest
  outs : x'.outs = x.outs
  log : ∃ ops, x'.fullLog = x.fullLog ++ ops ∧
    ∀ tc, TcOk s'.dom tc → flatCalls (edits2 calls) = flatCalls (ops.map (opCall tc))

def DTr (s s' : State) (calls : List Call) (R : Aux → Aux → Prop) : Prop :=
  cfgOf s' = cfgOf s ∧ TBSafe.Ext s.dom s'.dom ∧
    ∃ ids, FreshIds s ids ∧ ∀ x rest, AuxOk s x → x.supply = ids ++ rest → ∃ x', DLink s x s' x' calls rest ∧ R x x'

theorem DTr.conseq {s s' : State} {c : List Call} {R R' : Aux → Aux → Prop} (h : DTr s s' c R)
    (hr : ∀ x x', AuxOk s x → R x x' → R' x x') : DTr s s' c R' := by
  obtain ⟨hc, he, ids, hfi, f⟩ := h
  refine ⟨hc, he, ids, hfi, fun x rest hx hs => ?_⟩
  obtain ⟨x', l, r⟩ := f x rest hx hs
  exact ⟨x', l, hr x x' hx r⟩

/-- the node ids taken along a driver stretch are fresh -/
theorem DTr.withFresh {s s' : State} {c : List Call} {R : Aux → Aux → Prop} (h : DTr s s' c R) :
    DTr s s' c (fun x x' => R x x' ∧ FreshSup s x x') := by
  obtain ⟨hc, he, ids, hfi, f⟩ := h
  refine ⟨hc, he, ids, hfi, fun x rest hx hs => ?_⟩
  obtain ⟨x', l, r⟩ := f x rest hx hs
  refine ⟨x', l, r, ?_⟩
  intro used hu
  rw [hs, l.supply] at hu
  rw [← List.append_cancel_right hu]
  exact hfi

theorem DTr.of_tr {s s' : State} {c : List Call} {R : Aux → Aux → Prop} (h : Tr s s' c R) :
    DTr s s' c (fun x x' => R x x' ∧ AuxOk s' x' ∧ x'.out.switch = x.out.switch ∧ x'.out.script = x.out.script) := by
  obtain ⟨_, hc, he, ids, hfi, f⟩ := h
  refine ⟨hc, he, ids, hfi, fun x rest hx hs => ?_⟩
  obtain ⟨x', l, r⟩ := f x rest hx hs
  exact ⟨x', ⟨fun _ => l.aux, l.supply, l.outs, l.log⟩, r, l.aux, l.switch, l.script⟩

theorem applyRes_dom (res : ProcessResult) (s : State) : (applyRes res s).dom = s.dom := by cases res <;> rfl

theorem cfgOf_applyRes (res : ProcessResult) (s : State) : cfgOf (applyRes res s) = cfgOf s := by cases res <;> rfl

theorem DTr.of_tokPost {spec : SState → Spec.TreeModes.M (Step Id)} {s s' : State} {tok : Token} {res : ProcessResult}
    {c : List Call} (he : TBSafe.Ext s.dom s'.dom) (h : TokPost spec s tok res s' c) :
    DTr s (applyRes res s') c (fun x x' => spec (absF s x) = .ok (stepOf res s' x') ∧ OutRel res x.out x'.out ∧
      (x'.stopped = true → res = .done ∧ tok = .eof) ∧ FreshSup s x x') := by
  obtain ⟨_, _, hc, ids, hfi, f⟩ := h
  refine ⟨by rw [cfgOf_applyRes]; exact hc, by rw [applyRes_dom]; exact he, ids, hfi, fun x rest hx hs => ?_⟩
  obtain ⟨x', ops, e, r1, r2, r3, r4, r5, r6, r7⟩ := f x rest hx hs
  refine ⟨x', ⟨r1, r3, r5, ops, r6, by rw [applyRes_dom]; exact r7⟩, e, r4, r2, ?_⟩
  intro used hu
  rw [hs, r3] at hu
  rw [← List.append_cancel_right hu]
  exact hfi

theorem DTr.trans {s s1 s2 : State} {c1 c2 : List Call} {R1 R2 : Aux → Aux → Prop}
    (h1 : DTr s s1 c1 R1) (hlive : ∀ x x1, R1 x x1 → x1.stopped = false) (h2 : DTr s1 s2 c2 R2) :
    DTr s s2 (c1 ++ c2) (fun x x2 => ∃ x1, R1 x x1 ∧ AuxOk s1 x1 ∧ R2 x1 x2) := by
  obtain ⟨hc1, he1, ids1, hfi1, f1⟩ := h1
  obtain ⟨hc2, he2, ids2, hfi2, f2⟩ := h2
  refine ⟨hc2.trans hc1, he1.trans he2, ids1 ++ ids2, hfi1.append (hfi2.of_dom he1), ?_⟩
  intro x rest hx hs
  obtain ⟨x1, l1, r1⟩ := f1 x (ids2 ++ rest) hx (by rw [hs, List.append_assoc])
  have hx1 := l1.aux (hlive x x1 r1)
  obtain ⟨x2, l2, r2⟩ := f2 x1 rest hx1 l1.supply
  refine ⟨x2, ⟨l2.aux, l2.supply, l2.outs.trans l1.outs, ?_⟩, x1, r1, hx1, r2⟩
  obtain ⟨o1, e1, k1⟩ := l1.log
  obtain ⟨o2, e2, k2⟩ := l2.log
  refine ⟨o1 ++ o2, by rw [e2, e1, List.append_assoc], ?_⟩
  intro tc htc
  rw [edits2_append, flatCalls_append, List.map_append, flatCalls_append, k1 tc (tcOk_of_ext htc he2), k2 tc htc]

/-- a query stretch (parse error, …) after a driver stretch -/
theorem DTr.then_same {s s1 s2 : State} {c1 c2 : List Call} {R : Aux → Aux → Prop} (h : DTr s s1 c1 R) (hm : MInv s1)
    (hs : SameTB s1 s2) (he : Ext2 s1 c2 s2) (hc : edits c2 = []) :
    DTr s s2 (c1 ++ c2) (fun x x' => R x x' ∧ absF s2 x' = absF s1 x') := by
  obtain ⟨hc1, he1, ids, hfi, f⟩ := h
  refine ⟨(cfgOf_of_same hm hs he.ext).trans hc1, he1.trans he.ext, ids, hfi, fun x rest hx hsup => ?_⟩
  obtain ⟨x', l, r⟩ := f x rest hx hsup
  refine ⟨x', ⟨fun h => (l.aux h).of_same hm hs he.ext, l.supply, l.outs, ?_⟩, r, absF_of_same x' hm hs he.ext⟩
  obtain ⟨o1, e1, k1⟩ := l.log
  refine ⟨o1, e1, fun tc htc => ?_⟩
  rw [edits2_append, ← edits2_edits c2, hc, edits2_nil, List.append_nil]
  exact k1 tc (tcOk_of_ext htc he.ext)

/-! ### `process_to_completion` on a non-character token -/

/-- the answer of `process_to_completion` and the tokenizer answers of the specification -/
def OutRelR : SinkResult → Out Id → Out Id → Prop
  | .script node, o, o' => o'.script = some node ∧ o'.switch = o.switch
  | .plaintext, o, o' => o'.switch = some .plaintext ∧ o'.script = o.script
  | .rawData k, o, o' => o'.switch = some (rawSwitch k) ∧ o'.script = o.script
  | _, o, o' => o'.switch = o.switch ∧ o'.script = o.script

theorem OutRelR.of_same {r : SinkResult} {o o1 o2 : Out Id} (h1 : o1.switch = o.switch) (h2 : o1.script = o.script)
    (h : OutRelR r o1 o2) : OutRelR r o o2 := by
  cases r <;> simp only [OutRelR] at h ⊢ <;> simp_all

/-- what is threaded through the steps of one tag token: from a good abstract state, the UNMODIFIED specification's
loop arrives at the same abstract state, which satisfies the invariant (`H5V.Lemmas.ModesInv.GStep`) -/
def GS (s : State) (x : Aux) (tok : STok) (s' : State) (x' : Aux) : Prop :=
  H5V.Lemmas.ModesInv.GStep (cfgOf s) false (absF s x) tok (absF s' x')

/-- the facts of `HtmlTBModesInvModel` for the abstract state of `s` -/
theorem side_absF {s : State} {x x' : Aux} (ht : TI s) (hm : MInv s) (hx : AuxOk s x) (hf : FreshSup s x x') (tok : STok)
    {sup' : List Id} (hs : sup' = x'.supply) : Side (cfgOf s) (absF s x) tok sup' :=
  ⟨fun _ => link_absF ht hx, fun _ => by rw [hs]; exact freshL_absF hm hx hf, textHtml_absF ht hx tok⟩

theorem gs_done {s s' : State} {x x' : Aux} {tok : STok} (ht : TI s) (hm : MInv s) (hx : AuxOk s x) (hf : FreshSup s x x')
    (e : dispatchFull (cfgOf s) (absF s x) tok = .ok (.done (absF s' x'))) : GS s x tok s' x' := by
  intro hst hg
  obtain ⟨hp, h1, _⟩ := full_post (cfgOf_edition s) hg hst (side_absF ht hm hx hf tok rfl) e
  exact ⟨hp, h1 _ rfl⟩

theorem gs_reprocess {s s1 s' : State} {x x1 x' : Aux} {tok : STok} (ht : TI s) (hm : MInv s) (hx : AuxOk s x)
    (hf : FreshSup s x x1) (e : dispatchFull (cfgOf s) (absF s x) tok = .ok (.reprocess (absF s1 x1)))
    (hc : cfgOf s1 = cfgOf s) (h2 : GS s1 x1 tok s' x') : GS s x tok s' x' := by
  intro hst hg
  obtain ⟨hp, _, h3⟩ := full_post (cfgOf_edition s) hg hst (side_absF ht hm hx hf tok rfl) e
  obtain ⟨hst1, hg1⟩ : (absF s1 x1).stopped = false ∧ H5V.Lemmas.ModesInv.Good (absF s1 x1) := hp
  unfold GS at h2
  rw [hc] at h2
  obtain ⟨hi, hl⟩ := h2 hst1 hg1
  exact ⟨hi, h3 _ _ rfl hl⟩

def PtcTokPost (s : State) (tok : Token) : SinkResult → State → List Call → Prop :=
  fun r s' calls => TI s' ∧ MInv s' ∧ DTr s s' calls (fun x x' => OutRelR r x.out x'.out ∧
    LoopsTo (cfgOf s) false (absF s x) (stokOf tok) (absF s' x') ∧ (x'.stopped = true → tok = .eof) ∧
    GS s x (stokOf tok) s' x')

theorem ptc_succ (fuel : Nat) (tok : Token) (more : List Token) :
    processToCompletion (fuel + 1) tok more = ptcStep tok >>= TBSafe.ptcCont fuel tok more := by
  rw [TBSafe.processToCompletion_succ]
  unfold ptcStep
  rw [bind_assoc]
  congr 1
  funext b
  cases b <;> simp only [bind_assoc, if_true, Bool.false_eq_true, if_false]

theorem qf_of_same {s s' : State} {c : List Call} (hs : SameTB s s') (he : Ext2 s c s') : TBSafe.QF s s' :=
  ⟨s'.dom, s'.traceRev, hs, he.ext⟩

theorem ptcNext_nil (fuel : Nat) : TBSafe.ptcNext fuel [] = pure .continue_ := rfl

theorem pc_ptc_tok (hmode : ∀ m, ModeSim m) (hfor : ForeignSim) (tok : Token) (hch : isCharsTok tok = false)
    (hwf : TokWf tok) : ∀ (fuel : Nat) (s : State), TI s → MInv s → (s.mode = .text → textTok tok = true) →
    PC (processToCompletion fuel tok []) s (PtcTokPost s tok) := by
  intro fuel
  induction fuel with
  | zero => intro s _ _ _; unfold processToCompletion; exact pc_fuelOut
  | succ fuel ih =>
    intro s ht hm hprot
    rw [ptc_succ]
    refine pc_seq (pc_ptcStep_tok hmode hfor tok hch hwf s ht hm hprot) ?_
    rintro res s1 c1 he1 ⟨hsp, hpost⟩
    have hd := DTr.of_tokPost he1.ext hpost
    have hm1 : MInv (applyRes res s1) := hpost.2.1
    -- the cases that end the token at once
    have hfin : ∀ (r : SinkResult), (∀ o o', OutRel res o o' → OutRelR r o o') →
        stepOf res s1 = (fun x' => Step.done (absF s1 x')) → applyRes res s1 = s1 → TI s1 →
        PtcTokPost s tok r s1 (c1 ++ []) := by
      intro r hor hstep happ ht1
      rw [List.append_nil]
      rw [happ] at hd
      have hm1' := hm1
      rw [happ] at hm1'
      refine ⟨ht1, hm1', hd.conseq ?_⟩
      rintro x x' hx ⟨e, ho, hst, hfs⟩
      rw [hstep] at e
      exact ⟨hor _ _ ho, LoopsTo.of_full_done e, fun h => (hst h).2, gs_done ht hm hx hfs e⟩
    unfold TBSafe.ptcCont
    cases res with
    | done =>
      dsimp only
      have ht1 : TI s1 := ⟨hsp.h, hsp.s⟩
      have hack : ∀ (c : Bool), PC (if c = true then do
            parseError "Unacknowledged self-closing tag"
            TBSafe.ptcNext fuel []
          else TBSafe.ptcNext fuel []) s1 (fun r s2 c2 => PtcTokPost s tok r s2 (c1 ++ c2)) := by
        intro c
        split
        · refine pc_seq (PC.of_tot (tot_parseError s1 _)) ?_
          rintro _ s2 c2 he2 ⟨-, hs2, hc2⟩
          rw [ptcNext_nil]
          refine pc_pure ?_
          rw [List.append_nil]
          have hd' : DTr s s1 c1 _ := hd
          refine ⟨ht1.of_qf (qf_of_same hs2 he2), MInv.sameTB (s := s1) hm1 hs2 he2.ext, (hd'.then_same hm1 hs2 he2 hc2).conseq ?_⟩
          · rintro x x' hx ⟨⟨e, ho, hst, hfs⟩, e2⟩
            have hgs : GS s x (stokOf tok) s2 x' := by
              unfold GS; rw [e2]; exact gs_done (s' := s1) ht hm hx hfs e
            rw [e2]
            exact ⟨ho, LoopsTo.of_full_done e, fun h => (hst h).2, hgs⟩
        · rw [ptcNext_nil]
          exact pc_pure (hfin .continue_ (fun _ _ h => h) rfl rfl ht1)
      exact hack _
    | doneAckSelfClosing =>
      dsimp only
      exact pc_pure (hfin .continue_ (fun _ _ h => h) rfl rfl ⟨hsp.h, hsp.s⟩)
    | reprocess m t =>
      dsimp only
      have htt : t = tok := hsp.r.1
      subst htt
      have ht2 : TI { s1 with mode := m } := ⟨hsp.h.withMode m, hsp.s.withMode m⟩
      unfold H5V.Model.HtmlTB.setMode
      refine pc_bind (pc_modS rfl rfl ?_)
      refine pc_conseq (ih _ ht2 hm1 (fun h => absurd h hsp.r.2)) ?_
      rintro r s2 c2 he2 ⟨ht3, hm3, hd2⟩
      rw [List.nil_append]
      have hd' : DTr s { s1 with mode := m } c1 _ := hd
      refine ⟨ht3, hm3, (hd'.trans ?_ hd2).conseq ?_⟩
      · rintro x x1 ⟨_, _, hst, _⟩
        cases h : x1.stopped
        · rfl
        · cases (hst h).1
      · rintro x x2 hx ⟨x1, ⟨e, ho, _, hfs⟩, _, ho2, hl2, hst2, hg2⟩
        have hc : cfgOf { s1 with mode := m } = cfgOf s := hd'.1
        refine ⟨OutRelR.of_same ho.1 ho.2 ho2, LoopsTo.of_full_reprocess e ?_, hst2, gs_reprocess ht hm hx hfs e hc hg2⟩
        rw [hc] at hl2
        exact hl2
    | reprocessForeign t => exact absurd hsp.r id
    | splitWhitespace buf => exact absurd hpost.1 id
    | script node =>
      dsimp only
      exact pc_pure (hfin (.script node) (fun _ _ h => h) rfl rfl ⟨hsp.h, hsp.s⟩)
    | toPlaintext =>
      dsimp only
      exact pc_pure (hfin .plaintext (fun _ _ h => h) rfl rfl ⟨hsp.h, hsp.s⟩)
    | toRawData k =>
      dsimp only
      exact pc_pure (hfin (.rawData k) (fun _ _ h => h) rfl rfl ⟨hsp.h, hsp.s⟩)
    | encodingIndicator e =>
      exact pc_pure (hfin (.encodingIndicator e) (fun _ _ h => h) rfl rfl ⟨hsp.h, hsp.s⟩)

/-! ### `process_to_completion` on a run of characters -/

theorem mem_takeWhile' {α : Type} {p : α → Bool} : ∀ {l : List α} {a : α}, a ∈ l.takeWhile p → a ∈ l ∧ p a = true
  | [], _, h => by simp at h
  | b :: l, a, h => by
    by_cases hb : p b = true
    · rw [List.takeWhile_cons, if_pos hb] at h
      rcases List.mem_cons.mp h with h | h
      · subst h; exact ⟨List.mem_cons_self, hb⟩
      · obtain ⟨h1, h2⟩ := mem_takeWhile' h
        exact ⟨List.mem_cons_of_mem _ h1, h2⟩
    · rw [List.takeWhile_cons, if_neg hb] at h; simp at h

theorem mem_dropWhile' {α : Type} {p : α → Bool} : ∀ {l : List α} {a : α}, a ∈ l.dropWhile p → a ∈ l
  | [], _, h => by simp at h
  | b :: l, a, h => by
    by_cases hb : p b = true
    · rw [List.dropWhile_cons, if_pos hb] at h
      exact List.mem_cons_of_mem _ (mem_dropWhile' h)
    · rw [List.dropWhile_cons, if_neg hb] at h; exact h

theorem popFrontCharRun_spec {text : Str} (hne : text ≠ []) (hnul : '\x00' ∉ text) :
    ∃ first isWs rest, popFrontCharRun text = some (first, isWs, rest) ∧ text = first ++ rest ∧
      TokWf (.chars (if isWs then SplitStatus.whitespace else .notWhitespace) first) ∧ '\x00' ∉ rest := by
  cases text with
  | nil => exact absurd rfl hne
  | cons c t =>
    refine ⟨_, _, _, rfl, (List.takeWhile_append_dropWhile).symm, ⟨?_, ?_, ?_⟩, ?_⟩
    · simp
    · intro h; exact hnul (mem_takeWhile' h).1
    · have hall : ∀ d ∈ (c :: t).takeWhile (fun d => isAsciiWhitespace d == isAsciiWhitespace c),
          isAsciiWhitespace d = isAsciiWhitespace c := by
        intro d hd
        have := (mem_takeWhile' hd).2
        simpa using this
      generalize hw : isAsciiWhitespace c = w at hall
      cases w
      · simp only [Bool.false_eq_true, if_false, ClassOk]
        intro d hd; exact hall d hd
      · simp only [if_true, ClassOk]
        intro d hd; exact hall d hd
    · intro h; exact hnul (mem_dropWhile' h)

def moreText : List Token → Str
  | [] => []
  | .chars _ t :: rest => t ++ moreText rest
  | _ :: rest => moreText rest

/-- `more_tokens` holds at most the unsplit rest of the text -/
def MoreOk2 (st : SplitStatus) (more : List Token) : Prop :=
  more = [] ∨ (st ≠ .notSplit ∧ ∃ rest, more = [.chars .notSplit rest] ∧ TokWf (.chars .notSplit rest))

def PtcCharsPost (s : State) (text moreTxt : Str) : SinkResult → State → List Call → Prop :=
  fun r s' calls => r = .continue_ ∧ TI s' ∧ MInv s' ∧ s'.ignoreLf = false ∧ DTr s s' calls (fun x x' =>
    AuxOk s' x' ∧ x'.out.switch = x.out.switch ∧ x'.out.script = x.out.script ∧
    ∃ c cs σ1, text = c :: cs ∧ LoopsTo (cfgOf s) false (absF s x) (.character c) σ1 ∧
      CharsTo (cfgOf s) σ1 (cs ++ moreTxt) (absF s' x'))

/-- a finished run on the side of the specification -/
theorem charsTo_of_specChars {cfg : Config Id} {σ σ' : SState} {c : Char} {cs : Str}
    (h : specChars cfg (dispatchDev cfg) σ (c :: cs) = .ok σ') :
    ∃ σ1, LoopsTo cfg false σ (.character c) σ1 ∧ CharsTo cfg σ1 cs σ' := by
  simp only [specChars] at h
  cases hd : dispatchDev cfg σ (.character c) with
  | error e => rw [hd] at h; cases h
  | ok r =>
    rw [hd] at h
    cases r with
    | done σ1 => exact ⟨σ1, LoopsTo.done (by simpa [ruleOf] using hd), CharsTo.of_rest h⟩
    | reprocess σ1 => cases h
    | reprocessHtml σ1 => cases h

theorem pc_ptc_chars (hchar : ∀ m, ModeCharSim m) (hfor : ForeignCharSim) :
    ∀ (fuel : Nat) (st : SplitStatus) (text : Str) (more : List Token) (s : State),
    TokWf (.chars st text) → MoreOk2 st more → TI s → MInv s → s.ignoreLf = false →
    PC (processToCompletion fuel (.chars st text) more) s (PtcCharsPost s text (moreText more)) := by
  intro fuel
  induction fuel with
  | zero => intro st text more s _ _ _ _ _; unfold processToCompletion; exact pc_fuelOut
  | succ fuel ih =>
    intro st text more s hwf hmo ht hm hlf
    rw [ptc_succ]
    refine pc_seq (pc_ptcStep_chars hchar hfor st text hwf s ht hm hlf) ?_
    rintro res s1 c1 he1 ⟨hsp, hpost⟩
    unfold TBSafe.ptcCont
    cases res with
    | done =>
      dsimp only
      obtain ⟨hlf1, htr⟩ := hpost
      have ht1 : TI s1 := ⟨hsp.h, hsp.s⟩
      have hd := DTr.of_tr htr
      obtain ⟨c, cs, htext⟩ : ∃ c cs, text = c :: cs := by
        cases text with
        | nil => exact absurd rfl hwf.1
        | cons c cs => exact ⟨c, cs, rfl⟩
      have hnext : PC (TBSafe.ptcNext fuel more) s1 (fun r s2 c2 => PtcCharsPost s text (moreText more) r s2 (c1 ++ c2)) := by
        rcases hmo with hmo | ⟨_, rest, hmo, hwfr⟩
        · subst hmo
          rw [ptcNext_nil]
          refine pc_pure ?_
          rw [List.append_nil]
          refine ⟨rfl, ht1, htr.1, hlf1.trans hlf, hd.conseq ?_⟩
          rintro x x' hx ⟨e, hx', h1, h2⟩
          rw [htext] at e
          obtain ⟨σ1, l1, l2⟩ := charsTo_of_specChars e
          exact ⟨hx', h1, h2, c, cs, σ1, htext, l1, by simpa [moreText] using l2⟩
        · subst hmo
          show PC (processToCompletion fuel (.chars .notSplit rest) []) s1 _
          refine pc_conseq (ih .notSplit rest [] s1 hwfr (Or.inl rfl) ht1 htr.1 (hlf1.trans hlf)) ?_
          rintro r s2 c2 he2 ⟨hr, ht2, hm2, hlf2, hd2⟩
          refine ⟨hr, ht2, hm2, hlf2, (hd.trans (fun _ _ h => h.2.1.live) hd2).conseq ?_⟩
          rintro x x2 hx ⟨x1, ⟨e, hx1, h1, h2⟩, _, hx2, k1, k2, c', cs', σb, hrest, lb1, lb2⟩
          rw [htext] at e
          obtain ⟨σ1, l1, l2⟩ := charsTo_of_specChars e
          refine ⟨hx2, k1.trans h1, k2.trans h2, c, cs, σ1, htext, l1, ?_⟩
          have hc : cfgOf s1 = cfgOf s := hd.1
          rw [hc] at lb1 lb2
          have : CharsTo (cfgOf s) (absF s1 x1) rest (absF s2 x2) := by
            rw [hrest]
            refine CharsTo.cons hx1.live (hlf1.trans hlf) lb1 ?_
            simpa [moreText] using lb2
          simpa [moreText] using l2.append this
      have hack : ∀ (b : Bool), PC (if b = true then do
            parseError "Unacknowledged self-closing tag"
            TBSafe.ptcNext fuel more
          else TBSafe.ptcNext fuel more) s1 (fun r s2 c2 => PtcCharsPost s text (moreText more) r s2 (c1 ++ c2)) ∨ b = true := by
        intro b
        cases b
        · exact Or.inl hnext
        · exact Or.inr rfl
      rcases hack _ with h | h
      · exact h
      · cases h
    | splitWhitespace buf =>
      dsimp only
      obtain ⟨hst, hbuf, hlf1', htr⟩ := hpost
      subst hst hbuf
      have ht1 : TI s1 := ⟨hsp.h, hsp.s⟩
      have hmore : more = [] := by
        rcases hmo with h | ⟨h, _⟩
        · exact h
        · exact absurd rfl h
      subst hmore
      obtain ⟨first, isWs, rest, hpf, htext, hwf1, hnul⟩ := popFrontCharRun_spec hwf.1 hwf.2.1
      rw [hpf]
      dsimp only
      have hmo' : MoreOk2 (if isWs then SplitStatus.whitespace else .notWhitespace)
          (if rest.length > 0 then [] ++ [Token.chars .notSplit rest] else []) := by
        by_cases hlen : rest.length > 0
        · rw [if_pos hlen]
          refine Or.inr ⟨by cases isWs <;> simp, rest, rfl, ?_, hnul, trivial⟩
          intro h; rw [h] at hlen; simp at hlen
        · rw [if_neg hlen]; exact Or.inl rfl
      have hmt : moreText (if rest.length > 0 then [] ++ [Token.chars .notSplit rest] else []) = rest := by
        by_cases hlen : rest.length > 0
        · rw [if_pos hlen]; simp [moreText]
        · rw [if_neg hlen]
          have : rest = [] := by
            cases rest with
            | nil => rfl
            | cons a b => simp at hlen
          simp [moreText, this]
      have hlf1 : s1.ignoreLf = false := hlf1'.trans hlf
      refine pc_conseq (ih _ first _ s1 hwf1 hmo' ht1 htr.1 hlf1) ?_
      rintro r s2 c2 he2 ⟨hr, ht2, hm2, hlf2, hd2⟩
      refine ⟨hr, ht2, hm2, hlf2, ((DTr.of_tr htr).trans (fun _ _ h => h.2.1.live) hd2).conseq ?_⟩
      rintro x x2 hx ⟨x1, ⟨⟨e0, e⟩, hx1, h1, h2⟩, _, hx2, k1, k2, c', cs', σb, hfirst, lb1, lb2⟩
      subst x1
      have hc : cfgOf s1 = cfgOf s := (DTr.of_tr htr).1
      rw [hc, ← e] at lb1
      rw [hc, hmt] at lb2
      refine ⟨hx2, k1, k2, c', cs' ++ rest, σb, by rw [htext, hfirst]; rfl, lb1, ?_⟩
      simpa [moreText] using lb2
    | reprocess m' t =>
      dsimp only
      obtain ⟨htt, hlf1, c, cs, htext, htr⟩ := hpost
      subst htt
      have ht2 : TI { s1 with mode := m' } := ⟨hsp.h.withMode m', hsp.s.withMode m'⟩
      unfold H5V.Model.HtmlTB.setMode
      refine pc_bind (pc_modS rfl rfl ?_)
      refine pc_conseq (ih st text more _ hwf hmo ht2 htr.1 (hlf1.trans hlf)) ?_
      rintro r s2 c2 he2 ⟨hr, ht3, hm3, hlf3, hd2⟩
      rw [List.nil_append]
      refine ⟨hr, ht3, hm3, hlf3, ((DTr.of_tr htr).trans (fun _ _ h => h.2.1.live) hd2).conseq ?_⟩
      rintro x x2 hx ⟨x1, ⟨e, hx1, h1, h2⟩, _, hx2, k1, k2, c', cs', σb, htext', lb1, lb2⟩
      have hc : cfgOf { s1 with mode := m' } = cfgOf s := (DTr.of_tr htr).1
      rw [hc] at lb1 lb2
      rw [htext] at htext'
      cases htext'
      exact ⟨hx2, k1.trans h1, k2.trans h2, c, cs, σb, htext, LoopsTo.reprocess (by simpa [ruleOf] using e) lb1, lb2⟩
    | _ => exact hpost.elim

/-! ### one token of the tokenizer: the side of the specification -/

/-- the end of `processTokenDev`: the parse error for an unacknowledged self-closing flag, the answer
appended to `outs` -/
def finishTok (tok : Spec.TreeModes.Token) (σ : SState) : SState :=
  let σ1 := match tok with
    | .startTag t => if t.selfClosing && !σ.out.ackSelfClosing then σ.err "non-void element with self-closing flag" else σ
    | _ => σ
  { σ1 with outs := σ1.outs ++ [σ1.out] }

def isCharsSTok : Spec.TreeModes.Token → Bool
  | .chars _ => true
  | _ => false

/-- the single standard token of a non-character token -/
def soleSTok : Spec.TreeModes.Token → STok
  | .doctype n p s f => .doctype n p s f
  | .startTag t => .startTag t
  | .endTag t => .endTag t
  | .comment d => .comment d
  | .chars _ => .eof
  | .eof => .eof

theorem expand_sole (tok : Spec.TreeModes.Token) (h : isCharsSTok tok = false) : tok.expand = [soleSTok tok] := by
  cases tok <;> first | rfl | cases h

theorem clearLf_eq {σ : SState} (h : σ.ignoreLf = false) : ({ σ with ignoreLf := false } : SState) = σ := by
  cases σ; simp only at h; subst h; rfl

theorem processSTokDev_eq (cfg : Config Id) (fuel : Nat) {σ : SState} {stok : STok} (hst : σ.stopped = false)
    (hne : (stok == STok.character '\n') = false) :
    processSTokDev cfg fuel σ stok = loopDev cfg fuel false { σ with ignoreLf := false } stok := by
  unfold processSTokDev
  rw [if_neg (by rw [hst]; exact Bool.false_ne_true)]
  by_cases hl : σ.ignoreLf = true
  · rw [if_pos hl]
    show (if (stok == STok.character '\n') = true then _ else _) = _
    rw [if_neg (by rw [hne]; exact Bool.false_ne_true)]
  · rw [if_neg hl, clearLf_eq (by simpa using hl)]

theorem processTokenDev_tok {cfg : Config Id} {σ σ' : SState} {tok : Spec.TreeModes.Token} (hc : isCharsSTok tok = false)
    (hst : σ.stopped = false)
    (h : LoopsTo cfg false { σ with out := {}, ignoreLf := false } (soleSTok tok) σ') :
    ∃ F, ∀ fuel, F ≤ fuel → processTokenDev cfg fuel σ tok = .ok (finishTok tok σ') := by
  obtain ⟨F, hF⟩ := h
  refine ⟨F, fun fuel hfu => ?_⟩
  have hne : (soleSTok tok == STok.character '\n') = false := by cases tok <;> rfl
  have h1 : processSToksDev cfg fuel { σ with out := {} } tok.expand = .ok σ' := by
    rw [expand_sole tok hc]
    simp only [processSToksDev]
    rw [processSTokDev_eq cfg fuel (σ := { σ with out := {} }) hst hne]
    rw [hF fuel hfu]; rfl
  unfold processTokenDev
  cases tok with
  | chars cs => cases hc
  | startTag t => simp only [h1, finishTok]; rfl
  | _ => simp only [h1, finishTok]; rfl

/-- the text of a character token after the "ignore a line feed" flag has been honoured -/
theorem processCharsDev_lf {cfg : Config Id} {σ σ' : SState} {text : Str} (hst : σ.stopped = false)
    (h : CharsTo cfg { σ with ignoreLf := false } (dropIgnoredLf σ.ignoreLf text) σ')
    (hnil : text = [] → σ' = σ) :
    ∃ F, ∀ fuel, F ≤ fuel → processCharsDev cfg fuel σ text = .ok σ' := by
  obtain ⟨F, hF⟩ := h
  refine ⟨F, fun fuel hfu => ?_⟩
  have h0 := hF fuel hfu
  cases text with
  | nil => rw [hnil rfl]; rfl
  | cons c cs =>
    by_cases hl : σ.ignoreLf = true
    · by_cases hc : c = '\n'
      · subst hc
        simp only [dropIgnoredLf, hl, if_true] at h0
        simp only [processCharsDev, processSTokDev]
        rw [if_neg (by rw [hst]; exact Bool.false_ne_true), if_pos hl]
        simp only [beq_self_eq_true, if_true]
        exact h0
      · have hd : dropIgnoredLf σ.ignoreLf (c :: cs) = c :: cs := by
          simp only [dropIgnoredLf, hl, if_true]
          split
          · rename_i h; cases h; exact absurd rfl hc
          · rfl
        rw [hd] at h0
        simp only [processCharsDev] at h0 ⊢
        rw [processSTokDev_eq cfg fuel hst (by simp [hc])]
        have e : processSTokDev cfg fuel { σ with ignoreLf := false } (.character c)
            = loopDev cfg fuel false { σ with ignoreLf := false } (.character c) := by
          rw [processSTokDev_eq cfg fuel (σ := { σ with ignoreLf := false }) hst (by simp [hc])]
        rw [e] at h0
        exact h0
    · have hl' : σ.ignoreLf = false := by simpa using hl
      rw [clearLf_eq hl'] at h0
      simp only [dropIgnoredLf, hl', Bool.false_eq_true, if_false] at h0
      exact h0

/-! ### the same for the UNMODIFIED specification (`processSTok`, `processToken`) -/

theorem processSTok_eq (cfg : Config Id) (fuel : Nat) {σ : SState} {stok : STok} (hst : σ.stopped = false)
    (hne : (stok == STok.character '\n') = false) :
    Spec.TreeModes.processSTok cfg fuel σ stok = Spec.TreeModes.loop cfg fuel false { σ with ignoreLf := false } stok := by
  unfold Spec.TreeModes.processSTok
  rw [if_neg (by rw [hst]; exact Bool.false_ne_true)]
  by_cases hl : σ.ignoreLf = true
  · rw [if_pos hl]
    show (if (stok == STok.character '\n') = true then _ else _) = _
    rw [if_neg (by rw [hne]; exact Bool.false_ne_true)]
  · rw [if_neg hl, clearLf_eq (by simpa using hl)]

theorem processToken_tok {cfg : Config Id} {σ σ' : SState} {tok : Spec.TreeModes.Token} (hc : isCharsSTok tok = false)
    (hst : σ.stopped = false)
    (h : H5V.Lemmas.ModesInv.StdLoops cfg false { σ with out := {}, ignoreLf := false } (soleSTok tok) σ') :
    ∃ F, ∀ fuel, F ≤ fuel → Spec.TreeModes.processToken cfg fuel σ tok = .ok (finishTok tok σ') := by
  obtain ⟨F, hF⟩ := h
  refine ⟨F, fun fuel hfu => ?_⟩
  have hne : (soleSTok tok == STok.character '\n') = false := by cases tok <;> rfl
  have h1 : Spec.TreeModes.processSToks cfg fuel { σ with out := {} } tok.expand = .ok σ' := by
    rw [expand_sole tok hc]
    simp only [Spec.TreeModes.processSToks]
    rw [processSTok_eq cfg fuel (σ := { σ with out := {} }) hst hne]
    rw [hF fuel hfu]; rfl
  unfold Spec.TreeModes.processToken
  cases tok with
  | chars cs => cases hc
  | startTag t => simp only [h1, finishTok]; rfl
  | _ => simp only [h1, finishTok]; rfl

/-- the end of `processToken` keeps the invariant -/
theorem inv_finishTok {σ : SState} (tok : Spec.TreeModes.Token) (h : H5V.Lemmas.ModesInv.Inv σ) :
    H5V.Lemmas.ModesInv.Inv (finishTok tok σ) := by
  intro hs
  have hs' : σ.stopped = false := by
    cases tok <;> first | exact hs | (simp only [finishTok] at hs; split at hs <;> exact hs)
  have hg := h hs'
  cases tok <;> first | exact hg.same | (simp only [finishTok]; split <;> exact hg.same)

/-- one tag token: from the threaded `GStep` to `processToken` -/
theorem std_of_gs {cfg : Config Id} {σ σ' : SState} {tok : Spec.TreeModes.Token} (hc : isCharsSTok tok = false)
    (hst : σ.stopped = false)
    (h : H5V.Lemmas.ModesInv.GStep cfg false { σ with out := {}, ignoreLf := false } (soleSTok tok) σ')
    (hi : H5V.Lemmas.ModesInv.Inv σ) :
    H5V.Lemmas.ModesInv.Inv (finishTok tok σ') ∧
      ∃ F, ∀ fuel, F ≤ fuel → Spec.TreeModes.processToken cfg fuel σ tok = .ok (finishTok tok σ') := by
  obtain ⟨hi', hl⟩ := h hst ((hi hst).same)
  exact ⟨inv_finishTok tok hi', processToken_tok hc hst hl⟩

/-- a character token: from the completed to the unmodified specification (nothing from the model is needed) -/
theorem std_of_dev_chars {cfg : Config Id} (hed : cfg.edition = .customizableSelect) {σ σ' : SState} {cs : Str} {F : Nat}
    (hF : ∀ fuel, F ≤ fuel → processTokenDev cfg fuel σ (.chars cs) = .ok σ') (hi : H5V.Lemmas.ModesInv.Inv σ) :
    H5V.Lemmas.ModesInv.Inv σ' ∧ ∃ F, ∀ fuel, F ≤ fuel → Spec.TreeModes.processToken cfg fuel σ (.chars cs) = .ok σ' :=
  ⟨(H5V.Lemmas.ModesInv.processToken_chars_of_dev hed hi (hF F (Nat.le_refl _))).2,
    F, fun fuel hfu => (H5V.Lemmas.ModesInv.processToken_chars_of_dev hed hi (hF fuel hfu)).1⟩

end H5V.Lemmas.HtmlTBModes
