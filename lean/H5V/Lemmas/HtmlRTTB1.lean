import H5V.Lemmas.HtmlRTDefs
import H5V.Lemmas.HtmlTBSpecStack
/-!
C07 round trip, tree-builder half, part 1: the monad calculus (`Runs`: a computation's answer and
final state, modulo the recorded sink trace), the arena facts for the three sink calls that occur
(`create_element`, `append` of a node, `append` of text), and the representation predicates
`RepT`/`RepF`/`Lower` tying an arena to a forest with a path of open elements.
-/
namespace H5V.Lemmas.HtmlRT
open H5V.Model.HtmlTB
open H5V.Model.Dom (Id SinkOp Output Dom NodeData NodeOrText)
open H5V.Lemmas.HtmlTBSpec

/-! ### `Runs` -/

/-- started in `s` — with any recorded trace — `m` answers `a` and ends in `s'` (with some trace) -/
def Runs {α : Type} (m : M α) (s : State) (a : α) (s' : State) : Prop :=
  ∀ tr, ∃ tr', m.run (withTr s tr) = .ok (a, withTr s' tr')

theorem Runs.of_query {α : Type} {m : M α} {s : State} {a : α} (h : Query m s a) : Runs m s a s := h

theorem runs_pure {α : Type} (s : State) (a : α) : Runs (pure a : M α) s a s := fun tr => ⟨tr, rfl⟩

theorem runs_bind {α β : Type} {m : M α} {f : α → M β} {s s1 s2 : State} {a : α} {b : β}
    (h1 : Runs m s a s1) (h2 : Runs (f a) s1 b s2) : Runs (m >>= f) s b s2 := by
  intro tr
  obtain ⟨tr1, e1⟩ := h1 tr
  obtain ⟨tr2, e2⟩ := h2 tr1
  refine ⟨tr2, ?_⟩
  simp only [StateT.run_bind, e1]
  exact e2

theorem runs_getS_bind {β : Type} {f : State → M β} {s s' : State} {b : β}
    (h : ∀ tr, Runs (f (withTr s tr)) s b s') : Runs (getS >>= f) s b s' := by
  intro tr
  obtain ⟨tr', e⟩ := h tr tr
  exact ⟨tr', e⟩

theorem runs_modS_bind {β : Type} {g : State → State} {f : Unit → M β} {s s' : State} {b : β}
    (hg : ∀ tr, g (withTr s tr) = withTr (g s) tr) (h : Runs (f ()) (g s) b s') :
    Runs (modS g >>= f) s b s' := by
  intro tr
  obtain ⟨tr', e⟩ := h tr
  refine ⟨tr', ?_⟩
  rw [← e, ← hg tr]
  rfl

theorem runs_modS {g : State → State} {s : State}
    (hg : ∀ tr, g (withTr s tr) = withTr (g s) tr) : Runs (modS g) s () (g s) := by
  intro tr
  exact ⟨tr, by rw [← hg tr]; rfl⟩

theorem runs_sink {s : State} {op : SinkOp} {d' : Dom} {out : Output}
    (h : s.dom.apply op = .ok (d', out)) : Runs (sink op) s out { s with dom := d' } := by
  intro tr
  refine ⟨(op, out) :: tr, ?_⟩
  simp [sink, withTr, h, StateT.run]

theorem runs_sinkUnit {s : State} {op : SinkOp} {d' : Dom} {out : Output}
    (h : s.dom.apply op = .ok (d', out)) : Runs (sinkUnit op) s () { s with dom := d' } := by
  unfold sinkUnit
  exact runs_bind (runs_sink h) (runs_pure _ _)

theorem runs_sinkNode {s : State} {op : SinkOp} {d' : Dom} {id : Id}
    (h : s.dom.apply op = .ok (d', .node id)) : Runs (sinkNode op) s id { s with dom := d' } := by
  unfold sinkNode
  exact runs_bind (runs_sink h) (runs_pure _ _)

theorem runs_congr {α : Type} {m : M α} {s s1 s2 : State} {a : α} (h : Runs m s a s1) (e : s1 = s2) :
    Runs m s a s2 := e ▸ h

/-! ### projections of `withTr` -/

@[simp] theorem withTr_opts (s : State) (tr) : (withTr s tr).opts = s.opts := rfl
@[simp] theorem withTr_mode (s : State) (tr) : (withTr s tr).mode = s.mode := rfl
@[simp] theorem withTr_templateModes (s : State) (tr) : (withTr s tr).templateModes = s.templateModes := rfl
@[simp] theorem withTr_openElems (s : State) (tr) : (withTr s tr).openElems = s.openElems := rfl
@[simp] theorem withTr_af (s : State) (tr) : (withTr s tr).activeFormatting = s.activeFormatting := rfl
@[simp] theorem withTr_formElem (s : State) (tr) : (withTr s tr).formElem = s.formElem := rfl
@[simp] theorem withTr_ignoreLf (s : State) (tr) : (withTr s tr).ignoreLf = s.ignoreLf := rfl
@[simp] theorem withTr_foster (s : State) (tr) : (withTr s tr).fosterParenting = s.fosterParenting := rfl
@[simp] theorem withTr_contextElem (s : State) (tr) : (withTr s tr).contextElem = s.contextElem := rfl
@[simp] theorem withTr_currentLine (s : State) (tr) : (withTr s tr).currentLine = s.currentLine := rfl
@[simp] theorem withTr_dom (s : State) (tr) : (withTr s tr).dom = s.dom := rfl
@[simp] theorem withTr_docHandle (s : State) (tr) : (withTr s tr).docHandle = s.docHandle := rfl
@[simp] theorem withTr_framesetOk (s : State) (tr) : (withTr s tr).framesetOk = s.framesetOk := rfl

/-! ### arena facts -/

/-- the data of an HTML element created for a tag with these attributes -/
def elData (n : Str) (as : List (Str × Str)) : NodeData := .element (htmlQual n) (tbAttrs as) none false

theorem dom_get {d : Dom} {i : Nat} {n : H5V.Model.Dom.Node} (h : d.nodes[i]? = some n) : d.get i = .ok n := by
  simp [Dom.get, h]

theorem dom_elemName {d : Dom} {i : Nat} {q : H5V.Model.Dom.QualName} {as tc ip} {p ch}
    (h : d.nodes[i]? = some ⟨.element q as tc ip, p, ch⟩) : d.elemName i = .ok (q.ns, q.loc) := by
  simp [Dom.elemName, dom_get h, bind, Except.bind]

theorem setNode_get? (d : Dom) (i j : Nat) (n : H5V.Model.Dom.Node) :
    (d.setNode i n).nodes[j]? = if i = j ∧ i < d.nodes.size then some n else d.nodes[j]? := by
  simp only [Dom.setNode, Array.getElem?_setIfInBounds]
  by_cases hij : i = j
  · subst hij
    by_cases hlt : i < d.nodes.size
    · simp [hlt]
    · have : d.nodes[i]? = none := Array.getElem?_eq_none (Nat.le_of_not_lt hlt)
      simp [hlt]
  · simp [hij]

theorem lt_of_get? {d : Dom} {i : Nat} {n : H5V.Model.Dom.Node} (h : d.nodes[i]? = some n) : i < d.nodes.size := by
  rcases Nat.lt_or_ge i d.nodes.size with hl | hl
  · exact hl
  · rw [Array.getElem?_eq_none hl] at h; cases h

theorem setNode_size (d : Dom) (i : Nat) (n : H5V.Model.Dom.Node) : (d.setNode i n).nodes.size = d.nodes.size := by
  simp [Dom.setNode]

/-- what `create_element` followed by `append(parent, node)` (or the allocation of a text node
inside `append(parent, text)`) does to the arena: the new node `n = size` with parent `top`, `top`
gets `n` as last child, nothing else changes -/
structure Pushed (d d' : Dom) (top : Nat) (ptop : H5V.Model.Dom.Node) (data : NodeData) : Prop where
  size : d'.nodes.size = d.nodes.size + 1
  atTop : d'.nodes[top]? = some { ptop with children := ptop.children ++ [d.nodes.size] }
  atNew : d'.nodes[d.nodes.size]? = some ⟨data, some top, []⟩
  frame : ∀ i, i ≠ top → i ≠ d.nodes.size → d'.nodes[i]? = d.nodes[i]?
  errs : d'.errorsRev = d.errorsRev

theorem alloc_get? (d : Dom) (data : NodeData) (i : Nat) :
    (d.alloc data).1.nodes[i]? = if i = d.nodes.size then some { data := data } else d.nodes[i]? := by
  simp only [Dom.alloc, Array.getElem?_push]

theorem alloc_size (d : Dom) (data : NodeData) : (d.alloc data).1.nodes.size = d.nodes.size + 1 := by
  simp [Dom.alloc]

theorem alloc_appendRaw (d : Dom) (top : Nat) (ptop : H5V.Model.Dom.Node) (data : NodeData)
    (htop : d.nodes[top]? = some ptop) :
    ∃ d', (d.alloc data).1.appendRaw top d.nodes.size = .ok d' ∧ Pushed d d' top ptop data := by
  have hlt : top < d.nodes.size := lt_of_get? htop
  have hne : top ≠ d.nodes.size := by omega
  generalize hd1 : (d.alloc data).1 = d1
  have g1 : d1.nodes[d.nodes.size]? = some { data := data } := by rw [← hd1, alloc_get?]; simp
  have s1 : d1.nodes.size = d.nodes.size + 1 := by rw [← hd1, alloc_size]
  have f1 : ∀ i, i ≠ d.nodes.size → d1.nodes[i]? = d.nodes[i]? := by
    intro i hi; rw [← hd1, alloc_get?]; simp [hi]
  generalize hd2 : d1.setNode d.nodes.size ⟨data, some top, []⟩ = d2
  have g2 : d2.nodes[top]? = some ptop := by
    rw [← hd2, setNode_get?, if_neg (fun h => hne h.1.symm), f1 top hne, htop]
  have s2 : d2.nodes.size = d.nodes.size + 1 := by rw [← hd2, setNode_size, s1]
  have g2n : d2.nodes[d.nodes.size]? = some ⟨data, some top, []⟩ := by
    rw [← hd2, setNode_get?, if_pos ⟨rfl, by omega⟩]
  have f2 : ∀ i, i ≠ d.nodes.size → d2.nodes[i]? = d.nodes[i]? := by
    intro i hi; rw [← hd2, setNode_get?, if_neg (fun h => hi h.1.symm), f1 i hi]
  have q1 : d1.errorsRev = d.errorsRev := by rw [← hd1]; rfl
  have q2 : d2.errorsRev = d.errorsRev := by rw [← hd2]; exact q1
  refine ⟨d2.setNode top { ptop with children := ptop.children ++ [d.nodes.size] }, ?_, ?_, ?_, ?_, ?_, q2⟩
  · have e1 : d1.get d.nodes.size = .ok { data := data } := dom_get g1
    have e2 : d2.get top = .ok ptop := dom_get g2
    simp only [Dom.appendRaw, e1, bind, Except.bind, Option.isSome_none, Bool.false_eq_true, if_false]
    rw [hd2, e2]
  · rw [setNode_size, s2]
  · rw [setNode_get?, if_pos ⟨rfl, by omega⟩]
  · rw [setNode_get?, if_neg (fun h => hne h.1), g2n]
  · intro i h1 h2
    rw [setNode_get?, if_neg (fun h => h1 h.1.symm), f2 i h2]

def plainFlags : H5V.Model.Dom.ElementFlags := { template := false, mathmlIP := false, hadDuplicateAttributes := false }

/-- `create_element` for an HTML element that is neither a template nor an integration point,
then `append(top, node)` -/
theorem dom_create_append (d : Dom) (top : Nat) (ptop : H5V.Model.Dom.Node) (n : Str) (as : List (Str × Str))
    (htop : d.nodes[top]? = some ptop) :
    ∃ d1 d', d.apply (.createElement (htmlQual n) (tbAttrs as) plainFlags) = .ok (d1, .node d.nodes.size) ∧
      d1.apply (.append top (.node d.nodes.size)) = .ok (d', .unit) ∧
      Pushed d d' top ptop (elData n as) := by
  obtain ⟨d', h, hp⟩ := alloc_appendRaw d top ptop (elData n as) htop
  refine ⟨(d.alloc (elData n as)).1, d', rfl, ?_, hp⟩
  simp only [Dom.apply, Dom.applyV, Dom.append, h, bind, Except.bind]

/-- `append(top, text)` when `top` has no children or its last child is an element: a text node is
allocated -/
theorem dom_append_text_new (d : Dom) (top : Nat) (ptop : H5V.Model.Dom.Node) (s : Str)
    (htop : d.nodes[top]? = some ptop)
    (hlast : ptop.children.getLast? = none ∨
      ∃ h q as tc ip p ch, ptop.children.getLast? = some h ∧ d.nodes[h]? = some ⟨.element q as tc ip, p, ch⟩) :
    ∃ d', d.apply (.append top (.text s)) = .ok (d', .unit) ∧ Pushed d d' top ptop (.text s) := by
  obtain ⟨d', h, hp⟩ := alloc_appendRaw d top ptop (.text s) htop
  refine ⟨d', ?_, hp⟩
  have ha : d.alloc (.text s) = ((d.alloc (.text s)).1, d.nodes.size) := rfl
  rcases hlast with hl | ⟨x, q, as, tc, ip, p, ch, hl, hx⟩
  · simp only [Dom.apply, Dom.applyV, Dom.append, dom_get htop, hl, bind, Except.bind]
    rw [ha]; simp only [h]
  · simp only [Dom.apply, Dom.applyV, Dom.append, dom_get htop, hl, dom_get hx, bind, Except.bind]
    rw [ha]; simp only [h]

/-- `append(top, text)` when the last child of `top` is a text node: the text is extended -/
theorem dom_append_text_merge (d : Dom) (top : Nat) (ptop : H5V.Model.Dom.Node) (s old : Str) (h : Nat)
    (p : Option Nat) (ch : List Nat)
    (htop : d.nodes[top]? = some ptop) (hl : ptop.children.getLast? = some h)
    (hh : d.nodes[h]? = some ⟨.text old, p, ch⟩) :
    ∃ d', d.apply (.append top (.text s)) = .ok (d', .unit) ∧
      d'.nodes.size = d.nodes.size ∧ d'.nodes[h]? = some ⟨.text (old ++ s), p, ch⟩ ∧
      (∀ i, i ≠ h → d'.nodes[i]? = d.nodes[i]?) ∧ d'.errorsRev = d.errorsRev := by
  have hlt : h < d.nodes.size := lt_of_get? hh
  refine ⟨d.setNode h ⟨.text (old ++ s), p, ch⟩, ?_, setNode_size .., ?_, ?_, rfl⟩
  · simp only [Dom.apply, Dom.applyV, Dom.append, dom_get htop, hl, dom_get hh, bind, Except.bind]
  · rw [setNode_get?]; simp [hlt]
  · intro i hi
    rw [setNode_get?]
    simp [show ¬ (h = i) from fun e => hi e.symm]

/-! ### representation of a forest in the arena -/

/-- ids of the roots of a forest laid out in pre-order from `start` -/
def childIds : Nat → Forest → List Nat
  | _, [] => []
  | start, t :: ts => start :: childIds (start + t.size) ts

mutual
/-- node `id` (child of `p`) is the root of a pre-order layout of the tree -/
def RepT (d : Dom) (p : Nat) : Nat → HNode → Prop
  | id, .text s => d.nodes[id]? = some ⟨.text s, some p, []⟩
  | id, .elem n as ch =>
    d.nodes[id]? = some ⟨elData n as, some p, childIds (id + 1) ch⟩ ∧ RepF d id (id + 1) ch
def RepF (d : Dom) (p : Nat) : Nat → Forest → Prop
  | _, [] => True
  | start, t :: ts => RepT d p start t ∧ RepF d p (start + t.size) ts
end

mutual
theorem repT_frame (d d' : Dom) (p : Nat) : ∀ (t : HNode) (id : Nat),
    (∀ i, id ≤ i → i < id + t.size → d'.nodes[i]? = d.nodes[i]?) → RepT d p id t → RepT d' p id t
  | .text s, id, hf, h => by
    simp only [RepT] at h ⊢
    rw [hf id (Nat.le_refl _) (by simp [HNode.size])]; exact h
  | .elem n as ch, id, hf, h => by
    simp only [RepT] at h ⊢
    refine ⟨by rw [hf id (Nat.le_refl _) (by simp [HNode.size]; omega)]; exact h.1, ?_⟩
    exact repF_frame d d' id ch (id + 1) (fun i h1 h2 => hf i (by omega) (by simp [HNode.size]; omega)) h.2
theorem repF_frame (d d' : Dom) (p : Nat) : ∀ (f : Forest) (start : Nat),
    (∀ i, start ≤ i → i < start + sizeF f → d'.nodes[i]? = d.nodes[i]?) → RepF d p start f → RepF d' p start f
  | [], _, _, _ => by simp [RepF]
  | t :: ts, start, hf, h => by
    simp only [RepF] at h ⊢
    refine ⟨repT_frame d d' p t start (fun i h1 h2 => hf i h1 (by simp [sizeF]; omega)) h.1, ?_⟩
    exact repF_frame d d' p ts (start + t.size) (fun i h1 h2 => hf i (by omega) (by simp [sizeF]; omega)) h.2
end

theorem HNode.size_pos (t : HNode) : 0 < t.size := by cases t <;> simp [HNode.size] <;> omega

theorem sizeF_append (a b : Forest) : sizeF (a ++ b) = sizeF a + sizeF b := by
  induction a with
  | nil => simp [sizeF]
  | cons t ts ih => simp [sizeF, ih]; omega

theorem childIds_append (start : Nat) (a b : Forest) :
    childIds start (a ++ b) = childIds start a ++ childIds (start + sizeF a) b := by
  induction a generalizing start with
  | nil => simp [childIds, sizeF]
  | cons t ts ih => simp [childIds, sizeF, ih, Nat.add_assoc]

theorem repF_append (d : Dom) (p start : Nat) (a b : Forest) :
    RepF d p start (a ++ b) ↔ RepF d p start a ∧ RepF d p (start + sizeF a) b := by
  induction a generalizing start with
  | nil => simp [RepF, sizeF]
  | cons t ts ih => simp [RepF, sizeF, ih, Nat.add_assoc, and_assoc]

/-- a frame of the open path: element name, attributes, children closed so far -/
structure Frame where
  name : Str
  attrs : List (Str × Str)
  cs : Forest

/-- the open elements below the current node: each has its closed children followed by the next open
element; `tp`, `tid` = parent and id of the element that follows the last of them -/
def Lower (d : Dom) : Nat → Nat → List Frame → Nat → Nat → Prop
  | p, id, [], tp, tid => p = tp ∧ id = tid
  | p, id, f :: rest, tp, tid =>
    d.nodes[id]? = some ⟨elData f.name f.attrs, some p, childIds (id + 1) f.cs ++ [id + 1 + sizeF f.cs]⟩ ∧
    RepF d id (id + 1) f.cs ∧ Lower d id (id + 1 + sizeF f.cs) rest tp tid

def openIds : Nat → List Frame → List Nat
  | _, [] => []
  | id, f :: rest => id :: openIds (id + 1 + sizeF f.cs) rest

theorem lower_le (d : Dom) (p id : Nat) (l : List Frame) (tp tid : Nat) (h : Lower d p id l tp tid) :
    id ≤ tid := by
  induction l generalizing p id with
  | nil => simp [Lower] at h; omega
  | cons f rest ih => simp only [Lower] at h; have := ih _ _ h.2.2; omega

theorem lower_frame (d d' : Dom) (p id : Nat) (l : List Frame) (tp tid : Nat)
    (hf : ∀ i, id ≤ i → i < tid → d'.nodes[i]? = d.nodes[i]?) (h : Lower d p id l tp tid) :
    Lower d' p id l tp tid := by
  induction l generalizing p id with
  | nil => exact h
  | cons f rest ih =>
    simp only [Lower] at h ⊢
    have hle := lower_le d _ _ rest tp tid h.2.2
    refine ⟨by rw [hf id (Nat.le_refl _) (by omega)]; exact h.1, ?_, ?_⟩
    · exact repF_frame d d' id f.cs (id + 1) (fun i h1 h2 => hf i (by omega) (by omega)) h.2.1
    · exact ih _ _ (fun i h1 h2 => hf i (by omega) h2) h.2.2

theorem lower_snoc (d : Dom) (p id : Nat) (l : List Frame) (tp tid : Nat) (f : Frame)
    (h : Lower d p id l tp tid)
    (hn : d.nodes[tid]? = some ⟨elData f.name f.attrs, some tp, childIds (tid + 1) f.cs ++ [tid + 1 + sizeF f.cs]⟩)
    (hr : RepF d tid (tid + 1) f.cs) :
    Lower d p id (l ++ [f]) tid (tid + 1 + sizeF f.cs) := by
  induction l generalizing p id with
  | nil =>
    simp only [Lower] at h
    obtain ⟨rfl, rfl⟩ := h
    refine ⟨hn, hr, ?_⟩
    simp [Lower]
  | cons g rest ih =>
    simp only [Lower, List.cons_append] at h ⊢
    exact ⟨h.1, h.2.1, ih _ _ h.2.2⟩

theorem lower_snoc_inv (d : Dom) (p id : Nat) (l : List Frame) (tp tid : Nat) (f : Frame)
    (h : Lower d p id (l ++ [f]) tp tid) :
    ∃ tp0 tid0, Lower d p id l tp0 tid0 ∧ tp = tid0 ∧ tid = tid0 + 1 + sizeF f.cs ∧
      d.nodes[tid0]? = some ⟨elData f.name f.attrs, some tp0, childIds (tid0 + 1) f.cs ++ [tid0 + 1 + sizeF f.cs]⟩ ∧
      RepF d tid0 (tid0 + 1) f.cs := by
  induction l generalizing p id with
  | nil =>
    simp only [List.nil_append, Lower] at h
    obtain ⟨h1, h2, h3, h4⟩ := h
    exact ⟨p, id, ⟨rfl, rfl⟩, h3.symm, h4.symm, h1, h2⟩
  | cons g rest ih =>
    simp only [Lower, List.cons_append] at h
    obtain ⟨tp0, tid0, h0, e1, e2, e3, e4⟩ := ih _ _ h.2.2
    exact ⟨tp0, tid0, by simp only [Lower]; exact ⟨h.1, h.2.1, h0⟩, e1, e2, e3, e4⟩

theorem openIds_snoc (id : Nat) (l : List Frame) (f : Frame) (d : Dom) (p tp tid : Nat)
    (h : Lower d p id l tp tid) : openIds id (l ++ [f]) = openIds id l ++ [tid] := by
  induction l generalizing p id with
  | nil => simp only [Lower] at h; simp [openIds, h.2]
  | cons g rest ih =>
    simp only [Lower] at h
    simp [openIds, ih _ _ h.2.2]

end H5V.Lemmas.HtmlRT
