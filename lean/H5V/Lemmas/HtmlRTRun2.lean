import H5V.Lemmas.HtmlRTRun1
/-!
C07 round trip, part 4: the whole input.  The serialisation of an ordinary forest is read either
down to the data state with every token delivered, or — when the forest ends in a text node whose
last character is written as a reference — down to that reference fully read but not yet resolved
(`Tokenizer::end` resolves it).
-/
namespace H5V.Lemmas.HtmlRT
open H5V.Model.HtmlTok

variable {σ : Type} {o : Opts} {S : Sink σ} (sp : SinkSpec o S)

theorem renderF_append (a b : Forest) : renderF (a ++ b) = renderF a ++ renderF b := by
  induction a with
  | nil => rfl
  | cons t ts ih => simp [renderF, ih]

theorem tokTokens1F_append (a b : Forest) : tokTokens1F (a ++ b) = tokTokens1F a ++ tokTokens1F b := by
  induction a with
  | nil => rfl
  | cons t ts ih => simp [tokTokens1F, ih]

theorem okForest_append (a b : Forest) : okForest (a ++ b) = (okForest a && okForest b) := by
  induction a with
  | nil => simp [okForest]
  | cons t ts ih => simp [okForest, ih, Bool.and_assoc]

theorem noAdj_prefix : ∀ (a b : Forest), noAdjText (a ++ b) = true → noAdjText a = true
  | [], _, _ => rfl
  | [_], _, _ => rfl
  | x :: y :: r, b, h => by
    simp only [List.cons_append, noAdjText, Bool.and_eq_true] at h ⊢
    exact ⟨h.1, noAdj_prefix (y :: r) b h.2⟩

/-- how the reading of the whole serialisation ends -/
inductive TopEnd (L : List Frame) (T : Frame) (f : Forest) : Prop
  /-- in the data state, everything delivered -/
  | idle : Seg sp Idle L T (renderF f) (tokTokens1F f) [] Idle L ⟨T.name, T.attrs, T.cs ++ f⟩ → TopEnd L T f
  /-- inside the reference for the last character `c` of the last text node -/
  | pending (nm : Str) (v : Nat) (c : Char) (cs' : Forest) (toks' : List Token) :
      RefOk nm v → Char.ofNat v = c → tokTokens1F f = toks' ++ [.chars [c]] →
      appendTextF cs' [c] = T.cs ++ f →
      Seg sp Idle L T (renderF f) toks' [] (PendingRef .data nm v NoAttr) L ⟨T.name, T.attrs, cs'⟩ →
      TopEnd L T f

open H5V.Spec.HtmlEscape in
theorem seg_top (ho : o.exactErrors = false) (L : List Frame) (T : Frame) (f : Forest) (hok : okForest f = true)
    (hadj : noAdjText (T.cs ++ f) = true) : TopEnd sp L T f := by
  rcases List.eq_nil_or_concat f with hnil | ⟨f0, t, hf⟩
  · subst hnil
    exact .idle (by simpa using seg_forest sp ho [] L T [] hok hadj (Or.inr (by intro s; simp)))
  rw [List.concat_eq_append] at hf
  cases t with
  | elem n as ch =>
    refine .idle ?_
    have := seg_forest sp ho f L T [] hok hadj (Or.inr (by intro s; rw [hf]; simp))
    simpa using this
  | text s =>
    subst hf
    rw [okForest_append, Bool.and_eq_true] at hok
    obtain ⟨hok0, hokt⟩ := hok
    simp only [okForest, Bool.and_true] at hokt
    have hsne := okNode_text hokt
    have hcn : noCRNUL s := by
      simp only [okNode, Bool.and_eq_true] at hokt
      exact noCRNULb_iff hokt.2
    have hadj' : noAdjText ((T.cs ++ f0) ++ [HNode.text s]) = true := by simpa using hadj
    have hadj0 : noAdjText (T.cs ++ f0) = true := noAdj_prefix _ _ hadj'
    have hlast : ∀ old, (T.cs ++ f0).getLast? ≠ some (.text old) := noAdj_head hadj' rfl
    obtain ⟨s0, c, hs⟩ : ∃ s0 c, s = s0 ++ [c] := by
      rcases List.eq_nil_or_concat s with h | ⟨a, b, h⟩
      · exact absurd h hsne
      · exact ⟨a, b, by rw [h, List.concat_eq_append]⟩
    subst hs
    have hc : c ≠ '\r' ∧ c ≠ '\x00' := hcn c (by simp)
    have hcn0 : noCRNUL s0 := fun x hx => hcn x (by simp [hx])
    have hesc : escape false (s0 ++ [c]) = escape false s0 ++ escChar false c := by
      simp [escape, List.flatMap_append]
    -- the forest before the last text, then all but the last character
    have s1 := seg_forest sp ho f0 L T (escape false (s0 ++ [c])) hok0 hadj0
      (Or.inl (escape_ne_nil false (by simp)))
    have s2 := seg_text sp L ho (escChar false c) (escChar_ne_nil false c) s0 ⟨T.name, T.attrs, T.cs ++ f0⟩ hcn0
    have s12 := Seg.trans sp s1 (by rw [hesc]; exact s2)
    have hfold : ((s0 ++ [c]).map (fun c => [c])).foldl appendTextF (T.cs ++ f0) = T.cs ++ f0 ++ [.text (s0 ++ [c])] := by
      rw [foldl_appendTextF_new _ _ (by simp) hlast, flatten_singletons]
    have hfold' : appendTextF ((s0.map (fun c => [c])).foldl appendTextF (T.cs ++ f0)) [c]
        = T.cs ++ (f0 ++ [.text (s0 ++ [c])]) := by
      rw [← List.append_assoc, ← hfold, List.map_append, List.foldl_append]; rfl
    rw [escChar_eq] at s12
    cases hro : refOf false c with
    | none =>
      obtain ⟨h1, h2, _⟩ := refOf_none hro
      rw [hro] at s12
      have s3 : Seg sp Idle L ⟨T.name, T.attrs, (s0.map (fun c => [c])).foldl appendTextF (T.cs ++ f0)⟩ [c]
          [.chars [c]] [] Idle L
          ⟨T.name, T.attrs, appendTextF ((s0.map (fun c => [c])).foldl appendTextF (T.cs ++ f0)) [c]⟩ := by
        refine Seg.char sp L _ c coreInv_idle ?_
        intro m pol ⟨hctl, hn⟩
        obtain ⟨m1, he, h3, h4⟩ := data_plain o ho pol m c [] hctl hn ⟨hc.2, hc.1, h1, h2⟩
        exact ⟨m1, he, h3, h4⟩
      refine .idle ?_
      have := Seg.trans sp s12 s3
      rw [hfold'] at this
      simpa [renderF_append, tokTokens1F_append, renderF, tokTokens1F, render, tokTokens1, hesc, escChar_eq, hro]
        using this
    | some p =>
      obtain ⟨nm, v⟩ := p
      obtain ⟨hr, hv⟩ := refOf_some hro
      rw [hro] at s12
      have s3 := seg_text_ref sp L ⟨T.name, T.attrs, (s0.map (fun c => [c])).foldl appendTextF (T.cs ++ f0)⟩ ho nm v hr []
      have := Seg.trans sp s12 (by simpa using s3)
      refine .pending nm v c _ (tokTokens1F f0 ++ s0.map (fun c => .chars [c])) hr hv ?_ hfold' ?_
      · simp [tokTokens1F_append, tokTokens1F, tokTokens1]
      · simpa [renderF_append, renderF, render, hesc, escChar_eq, hro] using this

end H5V.Lemmas.HtmlRT
