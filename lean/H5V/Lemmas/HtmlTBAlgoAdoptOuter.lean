import H5V.Lemmas.HtmlTBAlgoAdopt
import H5V.Lemmas.HtmlTBAlgoBookmark
/-!
(o) the adoption agency algorithm, one round of the outer loop (steps 4.3–4.19) and the whole.
-/
namespace H5V.Lemmas.HtmlTBAlgo
open H5V.Model.HtmlTB
open H5V.Model.Dom (Id SinkOp Output Dom QualName Attr NodeOrText ElementFlags NodeData)
open H5V.Lemmas.Dom
open H5V.Lemmas.HtmlTBSpec (NamesOk toName)
open H5V.Spec.TreeAlgo2
open H5V.Spec.TreeAlgo (Name)

/-! ### `aaOuterStep`, cut into chunks -/

def aaStep19 (fmtElem furthestBlock newElement : Id) : M Bool := do
  removeFromStack fmtElem
  match ← positionSameNode furthestBlock (← getS).openElems 0 with
  | none => panicAt "fb-missing" "mod.rs:916" "furthest block missing from open element stack"
  | some nfbi =>
    modS fun s => { s with openElems := s.openElems.insertIdx (nfbi + 1) newElement }
    pure false

def aaStep18 (fmtElem : Id) (fmtElemTag : Tag) (furthestBlock newElement : Id) (bookmark : H5V.Model.HtmlTB.Bookmark) : M Bool := do
  match bookmark with
  | .replace toReplace =>
    match ← positionInActiveFormatting toReplace with
    | none => panicAt "bookmark-missing" "mod.rs:893" "bookmark not found in active formatting elements"
    | some index => modS fun s => { s with activeFormatting := s.activeFormatting.set index (FormatEntry.element newElement fmtElemTag) }
  | .insertAfter previous =>
    match ← positionInActiveFormatting previous with
    | none => panicAt "bookmark-missing" "mod.rs:899" "bookmark not found in active formatting elements"
    | some index =>
      modS fun s => { s with activeFormatting := s.activeFormatting.insertIdx (index + 1) (FormatEntry.element newElement fmtElemTag) }
      match ← positionInActiveFormatting fmtElem with
      | none => panicAt "fmt-missing" "mod.rs:904" "formatting element not found in active formatting elements"
      | some oldIndex => afRemove oldIndex "mod.rs:905"
  aaStep19 fmtElem furthestBlock newElement

def aaStep14 (fmtElem : Id) (fmtElemTag : Tag) (furthestBlock commonAncestor lastNode : Id)
    (bookmark : H5V.Model.HtmlTB.Bookmark) : M Bool := do
  sinkUnit (.removeFromParent lastNode)
  insertAppropriately (.node lastNode) (some commonAncestor)
  let newElement ← createElementWithFlags (htmlQual fmtElemTag.name) fmtElemTag.attrs fmtElemTag.hadDup
  sinkUnit (.reparentChildren furthestBlock newElement)
  sinkUnit (.append furthestBlock (.node newElement))
  aaStep18 fmtElem fmtElemTag furthestBlock newElement bookmark

def aaStep12 (fmtElem : Id) (fmtElemTag : Tag) (furthestBlockIndex : Nat) (furthestBlock commonAncestor : Id) : M Bool := do
  let (lastNode, bookmark) ←
    aaInner fmtElem furthestBlock furthestBlockIndex 0 furthestBlock (.replace fmtElem)
  aaStep14 fmtElem fmtElemTag furthestBlock commonAncestor lastNode bookmark

def aaStep11b (fmtElem : Id) (fmtElemTag : Tag) (fmtElemStackIndex furthestBlockIndex : Nat) (furthestBlock : Id) : M Bool := do
  let commonAncestor ← match (← getS).openElems[fmtElemStackIndex - 1]? with
    | some c => pure c
    | none => panicAt "index-oob" "mod.rs:789" "open_elems[fmt_elem_stack_index - 1]"
  aaStep12 fmtElem fmtElemTag furthestBlockIndex furthestBlock commonAncestor

def aaStep11 (fmtElem : Id) (fmtElemTag : Tag) (fmtElemStackIndex furthestBlockIndex : Nat) (furthestBlock : Id) : M Bool := do
  if fmtElemStackIndex == 0 then panicAt "sub-overflow" "mod.rs:789" "fmt_elem_stack_index - 1"
  aaStep11b fmtElem fmtElemTag fmtElemStackIndex furthestBlockIndex furthestBlock

def aaStep9 (fmtElemIndex : Nat) (fmtElem : Id) (fmtElemTag : Tag) (fmtElemStackIndex : Nat) : M Bool := do
  match ← findFurthestBlock ((← getS).openElems.drop fmtElemStackIndex) fmtElemStackIndex with
  | none =>
    modS fun s => { s with openElems := s.openElems.take fmtElemStackIndex }
    afRemove fmtElemIndex "mod.rs:784"
    pure true
  | some (furthestBlockIndex, furthestBlock) =>
    aaStep11 fmtElem fmtElemTag fmtElemStackIndex furthestBlockIndex furthestBlock

def aaStep8 (fmtElemIndex : Nat) (fmtElem : Id) (fmtElemTag : Tag) (fmtElemStackIndex : Nat) : M Bool := do
  let cur ← currentNode
  if !(← sameNode cur fmtElem) then parseError "Formatting element not current node"
  aaStep9 fmtElemIndex fmtElem fmtElemTag fmtElemStackIndex

theorem aaOuterStep_eq (subject : Str) :
    aaOuterStep subject = (do
      match (afEndToMarker (← getS).activeFormatting).find? (fun (x : Nat × Id × Tag) => x.2.2.name == subject) with
      | none =>
        processEndTagInBody { kind := .endTag, name := subject, selfClosing := false, attrs := [], hadDup := false }
        pure true
      | some (fmtElemIndex, fmtElem, fmtElemTag) =>
        match ← rposition (fun n => sameNode n fmtElem) with
        | none =>
          parseError "Formatting element not open"
          afRemove fmtElemIndex "mod.rs:754"
          pure true
        | some fmtElemStackIndex =>
          if !(← inScope defaultScope (fun n => sameNode n fmtElem)) then
            parseError "Formatting element not in scope"
            pure true
          else aaStep8 fmtElemIndex fmtElem fmtElemTag fmtElemStackIndex) := rfl

/-! ### steps 19 and 18 -/

theorem tot_aaStep19 (s : State) (fe fb new : Id) (p j : Nat)
    (hp : stackPos fe (absStack s.dom s.openElems) = some p)
    (hj : (s.openElems.eraseIdx p).findIdx? (fun n => n == fb) = some j) :
    Tot (aaStep19 fe fb new) s (fun ret s' calls => ret = false ∧
      s' = { s with openElems := (s.openElems.eraseIdx p).insertIdx (j + 1) new,
                    dom := s'.dom, traceRev := s'.traceRev } ∧ edits calls = []) := by
  unfold aaStep19
  refine tot_bind (tot_conseq (tot_removeFromStack s fe) fun _ s1 c1 _ ⟨hs1, hc1⟩ => ?_)
  rw [hp] at hs1
  simp only [] at hs1
  have hopen1 : s1.openElems = s.openElems.eraseIdx p := by rw [hs1]
  refine tot_getS_bind ?_
  refine tot_query_bind (tot_positionSameNode fb s1.openElems 0 s1) fun s2 c2 _ hs2 hc2 => ?_
  rw [hopen1, hj]
  simp only [Option.map_some, Nat.add_zero]
  refine tot_bind (tot_modS rfl rfl ?_)
  refine tot_pure ⟨rfl, ?_, ?_⟩
  · simp only []
    rw [hs2.openElems, hopen1]
    unfold SameTB at hs2; rw [hs2, hs1]
  · simp [edits_append, hc1, hc2]

/-- step 18 on the list, for the standard's bookmark -/
def list18 {N T : Type} [DecidableEq N] (bm : Spec.TreeAlgo2.Bookmark N) (fe : N) (ne : Entry N T) (l : List (Entry N T)) :
    Option (List (Entry N T)) :=
  match bm with
  | .atFormattingElement => (listPos fe l).map fun i => l.set i ne
  | .after x => (listPos fe l).bind fun i => insertAfter x ne (l.eraseIdx i)

theorem absList_length (af : List FormatEntry) : (absList af).length = af.length := by simp [absList]

theorem tot_aaStep18 (s : State) (fe : Id) (tag : Tag) (fb new : Id) (bm : H5V.Model.HtmlTB.Bookmark) (n0 : Nat)
    (hbm : BmOk fe n0 s.activeFormatting bm) (hfel : ∃ t, FormatEntry.element fe t ∈ s.activeFormatting)
    (hfe_old : (fe : Nat) < n0) (hnew : new ≠ fe) (p j : Nat)
    (hp : stackPos fe (absStack s.dom s.openElems) = some p)
    (hj : (s.openElems.eraseIdx p).findIdx? (fun n => n == fb) = some j) :
    Tot (aaStep18 fe tag fb new bm) s (fun ret s' calls => ret = false ∧ edits calls = [] ∧
      ∃ af', list18 (absBm bm) fe (.element new tag) (absList s.activeFormatting) = some (absList af') ∧
        s' = { s with activeFormatting := af', openElems := (s.openElems.eraseIdx p).insertIdx (j + 1) new,
                      dom := s'.dom, traceRev := s'.traceRev }) := by
  obtain ⟨tfe, hfe_mem⟩ := hfel
  obtain ⟨ife, hife⟩ := listPos_isSome_of_mem fe s.activeFormatting tfe hfe_mem
  -- the last chunk
  have h19 : ∀ (s2 : State) (c2 : List Call) (af' : List FormatEntry), Ext s c2 s2 → edits c2 = [] →
      s2 = { s with activeFormatting := af', dom := s2.dom, traceRev := s2.traceRev } →
      list18 (absBm bm) fe (.element new tag) (absList s.activeFormatting) = some (absList af') →
      Tot (aaStep19 fe fb new) s2 (fun ret s' c3 => ret = false ∧ edits (c2 ++ c3) = [] ∧
        ∃ af', list18 (absBm bm) fe (.element new tag) (absList s.activeFormatting) = some (absList af') ∧
          s' = { s with activeFormatting := af', openElems := (s.openElems.eraseIdx p).insertIdx (j + 1) new,
                        dom := s'.dom, traceRev := s'.traceRev }) := by
    intro s2 c2 af' he2 hc2 hs2 hl
    have hopen2 : s2.openElems = s.openElems := by rw [hs2]
    have hp2 : stackPos fe (absStack s2.dom s2.openElems) = some p := by
      rw [hopen2]; unfold stackPos at hp ⊢; rw [lastPos_ids (fun n => n == fe) s2.dom s.dom]; exact hp
    refine tot_conseq (tot_aaStep19 s2 fe fb new p j hp2 (by rw [hopen2]; exact hj)) fun ret s3 c3 _ ⟨hr, hs3, hc3⟩ => ?_
    refine ⟨hr, by rw [edits_append, hc2, hc3]; rfl, af', hl, ?_⟩
    rw [hs3, hopen2, hs2]
  unfold aaStep18
  cases bm with
  | replace h =>
    have hh : h = fe := hbm
    subst hh
    simp only []
    refine tot_query_bind (tot_positionInAF s h) fun s1 c1 he1 hs1 hc1 => ?_
    rw [hife]
    simp only []
    refine tot_bind (tot_modS rfl rfl ?_)
    have := h19 { s1 with activeFormatting := s1.activeFormatting.set ife (.element new tag) } c1
      (s.activeFormatting.set ife (.element new tag))
      ⟨he1.trace, he1.replay, he1.stable⟩ hc1
      (by rw [hs1.activeFormatting]; unfold SameTB at hs1; rw [hs1])
      (by simp only [list18, absBm, hife, Option.map_some, absList_set, absEntry])
    exact this
  | insertAfter x =>
    obtain ⟨hx0, tx, hx_mem⟩ := hbm
    obtain ⟨ix, hix⟩ := listPos_isSome_of_mem x s.activeFormatting tx hx_mem
    have hxfe : x ≠ fe := Nat.ne_of_gt (Nat.lt_of_lt_of_le hfe_old hx0)
    obtain ⟨k, hk, hklt, hkeq⟩ := bookmark_insert_then_remove (absList s.activeFormatting) x fe (.element new tag) ix hxfe
      (by simp [Entry.node?, hnew]) hix (by rw [hife]; rfl)
    simp only []
    refine tot_query_bind (tot_positionInAF s x) fun s1 c1 he1 hs1 hc1 => ?_
    rw [hix]
    simp only []
    refine tot_bind (tot_modS rfl rfl ?_)
    generalize hs2 : ({ s1 with activeFormatting := s1.activeFormatting.insertIdx (ix + 1) (.element new tag) } : State) = s2
    have haf2 : s2.activeFormatting = s.activeFormatting.insertIdx (ix + 1) (.element new tag) := by
      rw [← hs2, hs1.activeFormatting]
    have hE2 : Ext s c1 s2 := by rw [← hs2]; exact ⟨he1.trace, he1.replay, he1.stable⟩
    refine tot_query_bind (tot_positionInAF s2 fe) fun s3 c3 he3 hs3 hc3 => ?_
    rw [haf2, absList_insertIdx, absEntry, hk]
    simp only []
    have hk3 : k < s3.activeFormatting.length := by
      rw [hs3.activeFormatting, haf2]
      have := hklt
      rw [← absEntry, ← absList_insertIdx, absList_length] at this
      exact this
    refine tot_bind (tot_conseq (tot_afRemove s3 k "mod.rs:905" hk3) fun _ s4 c4 he4 ⟨hs4, hc4⟩ => ?_)
    subst hc4
    have := h19 s4 ((c1 ++ c3) ++ []) ((s.activeFormatting.insertIdx (ix + 1) (.element new tag)).eraseIdx k)
      ((hE2.trans he3).trans he4) (by simp [edits_append, hc1, hc3])
      (by rw [hs4, hs3.activeFormatting, haf2]; unfold SameTB at hs3; rw [hs3, ← hs2]; unfold SameTB at hs1; rw [hs1])
      (by simp only [list18, absBm]; rw [hkeq, absList_eraseIdx, absList_insertIdx]; rfl)
    simpa [List.append_assoc] using this

theorem finishRound_some {N T : Type} [DecidableEq N] (cx : Ctx T) (fe : N) (feTok : T) (fb ca : Elem N) (st : PState N T)
    (lastNode : N) (bm : Spec.TreeAlgo2.Bookmark N) (loc : Place N) (n : N) (sup : List N) (list' : List (Entry N T)) (p j : Nat)
    (h1 : appropriatePlace st.stack st.fosterParenting (some ca) = some loc) (h2 : st.supply = n :: sup)
    (h3 : list18 bm fe (.element n feTok) st.list = some list') (h4 : stackPos fe st.stack = some p)
    (h5 : (st.stack.eraseIdx p).findIdx? (fun e => e.id == fb.id) = some j) :
    finishRound cx fe feTok fb ca st lastNode bm = some
      { st with supply := sup,
                log := st.log ++ [Edit.remove lastNode, Edit.insert loc lastNode, Edit.create n Spec.TreeAlgo.nsHtml feTok,
                                  Edit.moveChildren fb.id n, Edit.insert (.lastChildOf fb.id) n],
                list := list',
                stack := (st.stack.eraseIdx p).insertIdx (j + 1) ⟨n, ⟨Spec.TreeAlgo.nsHtml, cx.tokName feTok⟩⟩ } := by
  unfold finishRound
  simp only [h1, Option.bind_some, PState.newNode, h2]
  cases bm with
  | atFormattingElement =>
    simp only [list18] at h3
    simp only [h3, Option.bind_some, h4, h5, Option.map_some]
  | after x =>
    simp only [list18] at h3
    simp only [h3, Option.bind_some, h4, h5, Option.map_some]

theorem isEdit_insertOp (ip : InsertionPoint) (ch : NodeOrText) : isEdit (insertOp ip ch) = true := by
  cases ip <;> rfl

theorem absStack_findIdx (d : Dom) (l : List Id) (x : Id) :
    (absStack d l).findIdx? (fun e => e.id == x) = l.findIdx? (fun n => n == x) := by
  unfold absStack; rw [List.findIdx?_map]; rfl

theorem stackPos_dom (x : Id) (d d' : Dom) (l : List Id) : stackPos x (absStack d l) = stackPos x (absStack d' l) :=
  lastPos_ids (fun n => n == x) d d' l

theorem absEntry_inj {a b : FormatEntry} (h : absEntry a = absEntry b) : a = b := by
  cases a <;> cases b <;> simp [absEntry] at h ⊢
  exact h

theorem list18_mem {N T : Type} [DecidableEq N] (bm : Spec.TreeAlgo2.Bookmark N) (fe : N) (ne : Entry N T)
    (l l' : List (Entry N T)) (h : list18 bm fe ne l = some l') : ∀ e ∈ l', e ∈ l ∨ e = ne := by
  intro e he
  cases bm with
  | atFormattingElement =>
    simp only [list18, Option.map_eq_some_iff] at h
    obtain ⟨i, _, rfl⟩ := h
    exact List.mem_or_eq_of_mem_set he
  | after x =>
    simp only [list18, Option.bind_eq_some_iff, insertAfter, Option.map_eq_some_iff] at h
    obtain ⟨i, _, j, _, rfl⟩ := h
    by_cases hj : j + 1 ≤ (l.eraseIdx i).length
    · rcases (List.mem_insertIdx hj).mp he with h1 | h1
      · exact Or.inr h1
      · exact Or.inl ((List.eraseIdx_sublist _ _).subset h1)
    · rw [List.insertIdx_of_length_lt (by omega)] at he
      exact Or.inl ((List.eraseIdx_sublist _ _).subset he)

/-- steps 14–19 -/
theorem tot_aaStep14 (s : State) (fe : Id) (tag : Tag) (fb ca lastNode : Id) (bm : H5V.Model.HtmlTB.Bookmark) (n0 : Nat)
    (hok : ElemsOk s.dom s.openElems) (hhead : HeadOk s.dom s.openElems) (hca : s.dom.isElement ca = true)
    (hbm : BmOk fe n0 s.activeFormatting bm) (hfel : ∃ t, FormatEntry.element fe t ∈ s.activeFormatting)
    (hfe_old : (fe : Nat) < n0) (hn0 : n0 ≤ s.dom.size) (p j : Nat) (hp0 : 0 < p)
    (hp : stackPos fe (absStack s.dom s.openElems) = some p)
    (hj : (s.openElems.eraseIdx p).findIdx? (fun n => n == fb) = some j)
    (hafok : AFOk s.dom s.openElems s.activeFormatting)
    (hsp : Spec.TreeAlgo.inTable Spec.TreeTables.special ⟨Spec.TreeAlgo.nsHtml, tag.name⟩ = false) :
    Tot (aaStep14 fe tag fb ca lastNode bm) s (fun ret s' calls => ret = false ∧ ∃ new L, s.dom.size ≤ new ∧
      (∀ tc, TcOk s'.dom tc → edits calls = L.map (editCall tc)) ∧
      (∀ rest log0, finishRound tagCtx fe tag (elemOf s.dom fb) (elemOf s.dom ca) (absState s (new :: rest) log0) lastNode (absBm bm)
          = some (absState s' rest (log0 ++ L))) ∧
      SameButStackList s s' ∧ ElemsOk s'.dom s'.openElems ∧ HeadOk s'.dom s'.openElems ∧
      AFOk s'.dom s'.openElems s'.activeFormatting) := by
  have hhead' := hhead
  obtain ⟨h0, hh0, hnt, _⟩ := hhead
  obtain ⟨place, hplace, hnodes⟩ := appropriatePlace_some (absStack s.dom s.openElems) s.fosterParenting (some (elemOf s.dom ca))
    (elemOf s.dom h0) (by rw [absStack_head?, hh0]; rfl) hnt
  unfold aaStep14
  refine tot_bind (tot_conseq (tot_sinkUnit_unit s trivial (unit_removeFromParent lastNode)) fun _ s1 c1 he1 ⟨hs1, hc1⟩ => ?_)
  subst hc1
  have hst1 := he1.stable
  have hok1 : ElemsOk s1.dom s1.openElems := by rw [hs1.openElems]; exact hok.stable hst1
  unfold insertAppropriately
  have hplace1 : appropriatePlace (absStack s1.dom s1.openElems) s1.fosterParenting ((some ca).map (elemOf s1.dom)) = some place := by
    rw [hs1.openElems, hs1.fosterParenting, absStack_stable hok hst1]
    simp only [Option.map_some, elemOf, nameOf_stable hst1 hca]
    exact hplace
  refine tot_bind (tot_query_bind (tot_appropriatePlace s1 (some ca) hok1 (by intro t ht; cases ht; exact isElement_stable hst1 hca) place hplace1)
    fun s2 c2 he2 hs2 hc2 => tot_conseq (tot_insertAt s2 _ (.node lastNode)) fun _ s3 c3 he3 ⟨hs3, hc3⟩ => ?_)
  subst hc3
  have hS3 : SameTB s s3 := (hs1.trans hs2).trans hs3
  have hst3 : Stable s.dom s3.dom := (hst1.trans he2.stable).trans he3.stable
  refine tot_bind (tot_conseq (tot_createElementWithFlags s3 nsHtml tag) fun new s4 c4 he4 ⟨hs4, hc4, hfresh, hel, hnm⟩ => ?_)
  subst hc4
  refine tot_bind (tot_conseq (tot_sinkUnit_unit s4 trivial (unit_reparentChildren fb new)) fun _ s5 c5 he5 ⟨hs5, hc5⟩ => ?_)
  subst hc5
  refine tot_bind (tot_conseq (tot_sinkUnit_unit s5 trivial (unit_append fb (.node new))) fun _ s6 c6 he6 ⟨hs6, hc6⟩ => ?_)
  subst hc6
  have hS6 : SameTB s s6 := ((hS3.trans hs4).trans hs5).trans hs6
  have hst46 : Stable s4.dom s6.dom := he5.stable.trans he6.stable
  have hst6 : Stable s.dom s6.dom := (hst3.trans he4.stable).trans hst46
  have hnew_size : s.dom.size ≤ new := Nat.le_trans hst3.size hfresh
  have hnew_ne : new ≠ fe := Nat.ne_of_gt (Nat.lt_of_lt_of_le hfe_old (Nat.le_trans hn0 hnew_size))
  have hp6 : stackPos fe (absStack s6.dom s6.openElems) = some p := by
    rw [hS6.openElems, stackPos_dom fe s6.dom s.dom]; exact hp
  refine tot_conseq (tot_aaStep18 s6 fe tag fb new bm n0 (by rw [hS6.activeFormatting]; exact hbm)
      (by rw [hS6.activeFormatting]; exact hfel) hfe_old hnew_ne p j hp6 (by rw [hS6.openElems]; exact hj))
    fun ret s7 c7 he7 ⟨hret, hc7, af', hl18, hs7⟩ => ?_
  rw [hS6.activeFormatting] at hl18
  have hs7' : s7 = { s with activeFormatting := af', openElems := (s.openElems.eraseIdx p).insertIdx (j + 1) new,
                            dom := s7.dom, traceRev := s7.traceRev } := by
    rw [hs7, hS6.openElems]; unfold SameTB at hS6; rw [hS6]
  clear hs7
  have hs7 := hs7'
  have hst7 : Stable s.dom s7.dom := hst6.trans he7.stable
  have hel7 : s7.dom.isElement new = true := isElement_stable (hst46.trans he7.stable) hel
  have hnm7 : nameOf s7.dom new = ⟨nsHtml, tag.name⟩ := by
    rw [nameOf_stable (hst46.trans he7.stable) hel]; exact hnm
  have hopen7 : s7.openElems = (s.openElems.eraseIdx p).insertIdx (j + 1) new := by rw [hs7]
  have hok7 : ElemsOk s7.dom s7.openElems := by
    rw [hopen7]; intro x hx
    rcases List.mem_insertIdx (by
        have := List.findIdx?_eq_some_iff_findIdx_eq.mp hj  -- j < length
        omega) |>.mp hx with h | h
    · subst h; exact hel7
    · exact isElement_stable hst7 (hok x ((List.eraseIdx_sublist _ _).subset h))
  refine ⟨hret, new, [Edit.remove lastNode, Edit.insert place lastNode, Edit.create new nsHtml tag,
    Edit.moveChildren fb new, Edit.insert (.lastChildOf fb) new], hnew_size, ?_, ?_, ?_, hok7, ?_, ?_⟩
  · intro tc htc
    have hip : ipOf tc place = ipOf (tcOf s1.dom) place := by
      refine ipOf_congr (htc.of_stable ((he2.stable.trans he3.stable).trans ((he4.stable.trans hst46).trans he7.stable))) fun x hx => ?_
      rcases hnodes x hx with hm | ⟨t, ht, hxt⟩
      · rw [absStack_ids] at hm; exact isElement_stable hst1 (hok x hm)
      · cases ht; subst hxt; exact isElement_stable hst1 hca
    simp only [edits_append, hc2, hc7, List.map_cons, List.map_nil, editCall, hip, List.append_nil, List.nil_append]
    have e1 : ∀ c : Call, isEdit c.1 = true → edits [c] = [c] := by
      intro c hc; simp [edits, hc]
    have e2 : ∀ (ip : InsertionPoint) (ch : NodeOrText), isEdit (insertOp ip ch) = true := by
      intro ip ch; cases ip <;> rfl
    rw [e1 _ rfl, e1 _ (e2 _ _), e1 _ rfl, e1 _ rfl, e1 _ rfl]
    rfl
  · intro rest log0
    have h1 : appropriatePlace (absState s (new :: rest) log0).stack (absState s (new :: rest) log0).fosterParenting
        (some (elemOf s.dom ca)) = some place := hplace
    have h4 : stackPos fe (absState s (new :: rest) log0).stack = some p := hp
    have h5 : ((absState s (new :: rest) log0).stack.eraseIdx p).findIdx? (fun e => e.id == (elemOf s.dom fb).id) = some j := by
      show ((absStack s.dom s.openElems).eraseIdx p).findIdx? (fun e => e.id == fb) = some j
      rw [← absStack_eraseIdx, absStack_findIdx]; exact hj
    rw [finishRound_some tagCtx fe tag (elemOf s.dom fb) (elemOf s.dom ca) _ lastNode (absBm bm) place new rest (absList af') p j
      h1 rfl hl18 h4 h5]
    simp only [absState, Option.some.injEq]
    rw [hs7]
    simp only []
    have : absStack s7.dom ((s.openElems.eraseIdx p).insertIdx (j + 1) new)
        = ((absStack s.dom s.openElems).eraseIdx p).insertIdx (j + 1) ⟨new, ⟨Spec.TreeAlgo.nsHtml, tagCtx.tokName tag⟩⟩ := by
      unfold absStack
      rw [map_insertIdx', map_eraseIdx']
      congr 1
      · congr 1; exact absStack_stable hok hst7
      · simp only [elemOf, hnm7]; rfl
    rw [this]
    rfl
  · unfold SameButStackList; rw [hs7]
  · refine hhead'.transfer hok hst7 ?_
    rw [hopen7]
    cases hl : s.openElems with
    | nil => rw [hl] at hh0; cases hh0
    | cons a r =>
      obtain ⟨p', rfl⟩ : ∃ p', p = p' + 1 := ⟨p - 1, by omega⟩
      simp
  · have haf7 : s7.activeFormatting = af' := by rw [hs7]
    rw [hopen7, haf7]
    refine hafok.extend hok hst7 ?_ ?_ hsp hnew_size (isElement_lt hel7) hnm7
    · intro x hx
      by_cases hjl : j + 1 ≤ (s.openElems.eraseIdx p).length
      · rcases (List.mem_insertIdx hjl).mp hx with h | h
        · exact Or.inr h
        · exact Or.inl ((List.eraseIdx_sublist _ _).subset h)
      · rw [List.insertIdx_of_length_lt (by omega)] at hx
        exact Or.inl ((List.eraseIdx_sublist _ _).subset hx)
    · intro e he
      have := list18_mem _ _ _ _ _ hl18 (absEntry e) (List.mem_map.mpr ⟨e, he, rfl⟩)
      rcases this with h | h
      · obtain ⟨e', he', heq⟩ := List.mem_map.mp h
        rw [← absEntry_inj heq]; exact Or.inl he'
      · exact Or.inr (absEntry_inj (a := e) (b := .element new tag) h)

/-! ### `lastPos` is the last position -/
section LastPos
variable {N : Type}

theorem lastPos_max (p : Elem N → Bool) : ∀ (l : List (Elem N)) (i : Nat), lastPos p l = some i →
    ∀ j e, i < j → l[j]? = some e → p e = false := by
  intro l
  induction l with
  | nil => intro i h; simp [lastPos] at h
  | cons a rest ih =>
    intro i h j e hij hj
    simp only [lastPos] at h
    cases hr : lastPos p rest with
    | some k =>
      simp only [hr, Option.some.injEq] at h
      subst h
      obtain ⟨j', rfl⟩ : ∃ j', j = j' + 1 := ⟨j - 1, by omega⟩
      simp only [List.getElem?_cons_succ] at hj
      exact ih k hr j' e (by omega) hj
    | none =>
      simp only [hr] at h
      by_cases hp : p a = true
      · simp [hp] at h; subst h
        obtain ⟨j', rfl⟩ : ∃ j', j = j' + 1 := ⟨j - 1, by omega⟩
        simp only [List.getElem?_cons_succ] at hj
        -- no element of `rest` satisfies `p`
        have : ∀ (l : List (Elem N)), lastPos p l = none → ∀ x ∈ l, p x = false := by
          intro l
          induction l with
          | nil => intro _ x hx; cases hx
          | cons b r ihr =>
            intro hn x hx
            simp only [lastPos] at hn
            cases hrr : lastPos p r with
            | some k => simp [hrr] at hn
            | none =>
              simp only [hrr] at hn
              have hb : p b = false := by
                by_cases hb : p b = true
                · simp [hb] at hn
                · simpa using hb
              rcases List.mem_cons.mp hx with rfl | hx
              · exact hb
              · exact ihr hrr x hx
        exact this rest hr e (List.mem_of_getElem? hj)
      · simp [hp] at h

theorem lastPos_eq_some_of (p : Elem N → Bool) : ∀ (l : List (Elem N)) (i : Nat) (e : Elem N), l[i]? = some e → p e = true →
    (∀ j e', i < j → l[j]? = some e' → p e' = false) → lastPos p l = some i := by
  intro l i e hi hp hmax
  cases h : lastPos p l with
  | none =>
    -- impossible: `e` satisfies `p`
    have : ∀ (l : List (Elem N)), lastPos p l = none → ∀ x ∈ l, p x = false := by
      intro l
      induction l with
      | nil => intro _ x hx; cases hx
      | cons b r ihr =>
        intro hn x hx
        simp only [lastPos] at hn
        cases hrr : lastPos p r with
        | some k => simp [hrr] at hn
        | none =>
          simp only [hrr] at hn
          have hb : p b = false := by
            by_cases hb : p b = true
            · simp [hb] at hn
            · simpa using hb
          rcases List.mem_cons.mp hx with rfl | hx
          · exact hb
          · exact ihr hrr x hx
    have := this l h e (List.mem_of_getElem? hi)
    rw [hp] at this; cases this
  | some k =>
    obtain ⟨ek, hek, hpk⟩ := lastPos_spec p l k h
    have hkmax := lastPos_max p l k h
    rcases Nat.lt_trichotomy i k with hlt | heq | hgt
    · have := hmax k ek hlt hek; rw [hpk] at this; cases this
    · rw [heq]
    · have := hkmax i e hgt hi; rw [hp] at this; cases this

end LastPos

/-- steps 10–19 -/
theorem tot_aaStep12 (s : State) (fe : Id) (tag : Tag) (fbIdx : Nat) (fb ca : Id) (pfe : Nat)
    (hok : ElemsOk s.dom s.openElems) (hhead : HeadOk s.dom s.openElems)
    (hp : stackPos fe (absStack s.dom s.openElems) = some pfe) (hp0 : 0 < pfe)
    (hca : s.openElems[pfe - 1]? = some ca) (hfbi : pfe < fbIdx) (hfb : s.openElems[fbIdx]? = some fb)
    (hfel : ∃ t, FormatEntry.element fe t ∈ s.activeFormatting)
    (hafok : AFOk s.dom s.openElems s.activeFormatting)
    (hsp : Spec.TreeAlgo.inTable Spec.TreeTables.special ⟨Spec.TreeAlgo.nsHtml, tag.name⟩ = false) :
    Tot (aaStep12 fe tag fbIdx fb ca) s (fun ret s' calls => ret = false ∧ ∃ ids L,
      (∀ tc, TcOk s'.dom tc → edits calls = L.map (editCall tc)) ∧
      (∀ rest log0, ((innerLoop tagCtx fe fb fbIdx 0 fb .atFormattingElement (absState s (ids ++ rest) log0)).bind fun r =>
          finishRound tagCtx fe tag (elemOf s.dom fb) (elemOf s.dom ca) r.1 r.2.1 r.2.2) = some (absState s' rest (log0 ++ L))) ∧
      SameButStackList s s' ∧ ElemsOk s'.dom s'.openElems ∧ HeadOk s'.dom s'.openElems ∧
      (∀ x ∈ ids, s.dom.size ≤ x) ∧ AFOk s'.dom s'.openElems s'.activeFormatting) := by
  obtain ⟨hplt, hfe_at⟩ := stackPos_lt hp
  have hfe_el : s.dom.isElement fe = true := hok fe (List.mem_of_getElem? hfe_at)
  have hca_el : s.dom.isElement ca = true := hok ca (List.mem_of_getElem? hca)
  have hfb_el : s.dom.isElement fb = true := hok fb (List.mem_of_getElem? hfb)
  have hinv : InnerInv fe fb s.dom.size pfe fbIdx s (.replace fe) := by
    refine ⟨hok, Nat.le_refl _, hfe_at, hfbi, ?_, ?_, ⟨fbIdx, Nat.le_refl _, hfb⟩, hfel, rfl, hafok⟩
    · intro p' hp' hc
      have := lastPos_max _ _ _ hp p' (elemOf s.dom fe) hp' (by rw [absStack_getElem?, hc]; rfl)
      simp [elemOf] at this
    · intro p' y _ hy
      exact isElement_lt (hok y (List.mem_of_getElem? hy))
  unfold aaStep12
  refine tot_bind (tot_conseq (tot_aaInner fe fb s.dom.size pfe fbIdx s 0 fb (.replace fe) hinv)
    fun r s1 c1 he1 ⟨ids, L1, hL1, hspec1, hS1, hok1, htake, hfb1, hnfe, hfel1, hbm1, hfresh1, hafok1⟩ => ?_)
  obtain ⟨lastNode, bm'⟩ := r
  simp only []
  have hst1 := he1.stable
  -- the formatting element is where it was
  have hfe_at1 : s1.openElems[pfe]? = some fe := by
    have : (s1.openElems.take (pfe + 1))[pfe]? = (s.openElems.take (pfe + 1))[pfe]? := by rw [htake]
    simpa [List.getElem?_take] using this.trans (by simp [List.getElem?_take, hfe_at])
  have hp1 : stackPos fe (absStack s1.dom s1.openElems) = some pfe := by
    unfold stackPos
    refine lastPos_eq_some_of _ _ pfe (elemOf s1.dom fe) (by rw [absStack_getElem?, hfe_at1]; rfl) (by simp [elemOf]) ?_
    intro j e' hj he'
    rw [absStack_getElem?] at he'
    cases hy : s1.openElems[j]? with
    | none => simp [hy] at he'
    | some y =>
      simp only [hy, Option.map_some, Option.some.injEq] at he'
      subst he'
      have := hnfe j hj
      rw [hy] at this
      simp only [elemOf, beq_eq_false_iff_ne, ne_eq]
      intro h; exact this (by rw [h])
  have hhead1 : HeadOk s1.dom s1.openElems := by
    refine hhead.transfer hok hst1 ?_
    have : (s1.openElems.take (pfe + 1)).head? = (s.openElems.take (pfe + 1)).head? := by rw [htake]
    rw [List.head?_take, List.head?_take] at this
    simpa using this
  obtain ⟨j, hj⟩ : ∃ j, (s1.openElems.eraseIdx pfe).findIdx? (fun n => n == fb) = some j := by
    obtain ⟨q, hq, hqf⟩ := hfb1
    have hmem : fb ∈ s1.openElems.eraseIdx pfe := by
      rw [List.mem_eraseIdx_iff_getElem?]; exact ⟨q, by omega, hqf⟩
    cases hfi : (s1.openElems.eraseIdx pfe).findIdx? (fun n => n == fb) with
    | some j => exact ⟨j, rfl⟩
    | none =>
      rw [List.findIdx?_eq_none_iff] at hfi
      have := hfi fb hmem
      simp at this
  refine tot_conseq (tot_aaStep14 s1 fe tag fb ca lastNode bm' s.dom.size hok1 hhead1 (isElement_stable hst1 hca_el)
      hbm1 hfel1 (isElement_lt hfe_el) hst1.size pfe j hp0 hp1 hj hafok1 hsp)
    fun ret s2 c2 he2 ⟨hret, new, L2, hnew, hL2, hspec2, hS2, hok2, hhead2, hafok2⟩ => ?_
  refine ⟨hret, ids ++ [new], L1 ++ L2, ?_, ?_, ?_, hok2, hhead2, ?_, hafok2⟩
  · intro tc htc
    rw [edits_append, hL1 tc (htc.of_stable he2.stable), hL2 tc htc, List.map_append]
  · intro rest log0
    have h1 := hspec1 (new :: rest) log0
    have e0 : absBm (H5V.Model.HtmlTB.Bookmark.replace fe) = Spec.TreeAlgo2.Bookmark.atFormattingElement := rfl
    rw [e0] at h1
    simp only [List.append_assoc, List.singleton_append] at h1 ⊢
    rw [h1]
    simp only [Option.bind_some]
    have h2 := hspec2 rest (log0 ++ L1)
    rw [elemOf_stable hst1 hfb_el, elemOf_stable hst1 hca_el] at h2
    rw [h2, List.append_assoc]
  · unfold SameButStackList at hS1 hS2 ⊢; rw [hS2, hS1]
  · intro x hx
    rcases List.mem_append.mp hx with h | h
    · exact hfresh1 x h
    · simp at h; subst h; exact Nat.le_trans hst1.size hnew

/-- the outcome of a round as (state, "return") — the fallback to "any other end tag" carried out -/
def roundResult (subject : Str) : Round Id Tag → PState Id Tag × Bool
  | .done st => (st, true)
  | .anyOtherEndTag st => ({ st with stack := anyOtherEndTag subject st.stack }, true)
  | .again st => (st, false)

/-- what one round of the outer loop guarantees -/
def RoundPost (subject : Str) (s : State) : Bool → State → List Call → Prop :=
  fun ret s' calls => ∃ ids L,
    (∀ tc, TcOk s'.dom tc → edits calls = L.map (editCall tc)) ∧
    (∀ rest log0, (outerRound tagCtx subject (absState s (ids ++ rest) log0)).map (roundResult subject)
        = some (absState s' rest (log0 ++ L), ret)) ∧
    SameButStackList s s' ∧ ElemsOk s'.dom s'.openElems ∧
    (ret = false → HeadOk s'.dom s'.openElems ∧ AFOk s'.dom s'.openElems s'.activeFormatting) ∧
    (∀ x ∈ ids, s.dom.size ≤ x)

/-- the furthest block the model finds (it starts the search at the formatting element itself, which is
not special) is the standard's -/
theorem ffb_spec (d : Dom) (l : List Id) (pfe : Nat) (fe : Id) (hfe : l[pfe]? = some fe)
    (hns : isSpecial (elemOf d fe) = false) :
    (ffbPure d (l.drop pfe) pfe).map (fun r => (r.1, elemOf d r.2)) = furthestBlock (absStack d l) pfe := by
  have hlt : pfe < l.length := (List.getElem?_eq_some_iff.mp hfe).1
  have hdrop : l.drop pfe = fe :: l.drop (pfe + 1) := by
    rw [List.drop_eq_getElem_cons hlt]
    congr 1
    have := List.getElem?_eq_getElem hlt
    rw [hfe] at this; cases this; rfl
  rw [hdrop]
  simp only [ffbPure, hns, Bool.false_eq_true, if_false]
  rw [ffbPure_eq]
  unfold furthestBlock
  simp only [absStack, List.map_drop]
  cases List.findIdx? isSpecial (List.drop (pfe + 1) (List.map (elemOf d) l)) with
  | none => rfl
  | some j =>
    simp only [Option.bind_some, Option.map_map]
    cases hje : (List.drop (pfe + 1) (List.map (elemOf d) l))[j]? with
    | none => rfl
    | some e =>
      simp only [Option.map_some, Function.comp]
      have hmem : e ∈ List.map (elemOf d) l := (List.drop_sublist _ _).subset (List.mem_of_getElem? hje)
      obtain ⟨y, _, rfl⟩ := List.mem_map.mp hmem
      rfl

theorem RoundPost.of_query {subject : Str} {s s1 s' : State} {c1 c2 : List Call} {ret : Bool}
    (hs : SameTB s s1) (he : Ext s c1 s1) (hc : edits c1 = []) (hok : ElemsOk s.dom s.openElems)
    (h : RoundPost subject s1 ret s' c2) : RoundPost subject s ret s' (c1 ++ c2) := by
  obtain ⟨ids, L, hL, hspec, hS, hok', hhead', hfresh⟩ := h
  refine ⟨ids, L, ?_, ?_, ?_, hok', hhead', ?_⟩
  · intro tc htc; rw [edits_append, hc, hL tc htc]; rfl
  · intro rest log0
    rw [← absState_sameTB hs he.stable hok]; exact hspec rest log0
  · unfold SameButStackList at hS ⊢; unfold SameTB at hs; rw [hS, hs]
  · intro x hx; exact Nat.le_trans he.stable.size (hfresh x hx)

/-- the abstract state after step 8 -/
def stDone (s : State) (pfe feIdx : Nat) (sup : List Id) (log : List (Edit Id Tag)) : PState Id Tag :=
  { absState s sup log with stack := (absStack s.dom s.openElems).take pfe, list := (absList s.activeFormatting).eraseIdx feIdx }

/-- steps 7–19 -/
theorem tot_aaStep9 (subject : Str) (s : State) (feIdx : Nat) (fe : Id) (tag : Tag) (pfe : Nat)
    (hok : ElemsOk s.dom s.openElems) (hhead : HeadOk s.dom s.openElems)
    (hfind : findFormattingElement tagCtx subject (absList s.activeFormatting) = some (feIdx, fe, tag))
    (hpos : stackPos fe (absStack s.dom s.openElems) = some pfe)
    (hscope : hasNodeInScope fe Spec.TreeAlgo.defaultScopeList (absStack s.dom s.openElems).reverse = true)
    (hp0 : 0 < pfe) (hns : isSpecial (elemOf s.dom fe) = false)
    (hafok : AFOk s.dom s.openElems s.activeFormatting) :
    Tot (aaStep9 feIdx fe tag pfe) s (RoundPost subject s) := by
  obtain ⟨hplt, hfe_at⟩ := stackPos_lt hpos
  obtain ⟨hfi, hfentry, _⟩ := findFormattingElement_some hfind
  have hfel : ∃ t, FormatEntry.element fe t ∈ s.activeFormatting := ⟨tag, List.mem_of_getElem? hfentry⟩
  -- the round of the standard up to step 7
  have hround_none : furthestBlock (absStack s.dom s.openElems) pfe = none → ∀ sup log,
      outerRound tagCtx subject (absState s sup log) = some (Round.done (stDone s pfe feIdx sup log)) := by
    intro h sup log
    have h1 : findFormattingElement tagCtx subject (absState s sup log).list = some (feIdx, fe, tag) := hfind
    have h2 : stackPos fe (absState s sup log).stack = some pfe := hpos
    have h3 : hasNodeInScope fe Spec.TreeAlgo.defaultScopeList (absState s sup log).stack.reverse = true := hscope
    have h4 : furthestBlock (absState s sup log).stack pfe = none := h
    unfold outerRound
    simp only [h1, h2, h3, Bool.not_true, Bool.false_eq_true, if_false, h4]
    rfl
  have hround_some : ∀ fbPos fb, furthestBlock (absStack s.dom s.openElems) pfe = some (fbPos, fb) → ∀ sup log,
      outerRound tagCtx subject (absState s sup log) =
        ((absStack s.dom s.openElems)[pfe - 1]?).bind fun commonAncestor =>
          (innerLoop tagCtx fe fb.id fbPos 0 fb.id .atFormattingElement (absState s sup log)).bind fun r =>
            (finishRound tagCtx fe tag fb commonAncestor r.1 r.2.1 r.2.2).map Round.again := by
    intro fbPos fb h sup log
    have h1 : findFormattingElement tagCtx subject (absState s sup log).list = some (feIdx, fe, tag) := hfind
    have h2 : stackPos fe (absState s sup log).stack = some pfe := hpos
    have h3 : hasNodeInScope fe Spec.TreeAlgo.defaultScopeList (absState s sup log).stack.reverse = true := hscope
    have h4 : furthestBlock (absState s sup log).stack pfe = some (fbPos, fb) := h
    have h6 : ¬ pfe = 0 := by omega
    unfold outerRound
    simp only [h1, h2, h3, Bool.not_true, Bool.false_eq_true, if_false, h4, h6]
    rfl
  unfold aaStep9
  refine tot_getS_bind ?_
  refine tot_query_bind (tot_findFurthestBlock s.dom (s.openElems.drop pfe) pfe s
    (fun x hx => hok x ((List.drop_sublist _ _).subset hx)) (Stable.refl _)) fun s1 c1 he1 hs1 hc1 => ?_
  have hffb := ffb_spec s.dom s.openElems pfe fe hfe_at hns
  cases hf : ffbPure s.dom (s.openElems.drop pfe) pfe with
  | none =>
    rw [hf] at hffb
    simp only [Option.map_none] at hffb
    simp only []
    refine tot_bind (tot_modS rfl rfl ?_)
    refine tot_bind (tot_conseq (tot_afRemove _ feIdx "mod.rs:784" (by show feIdx < s1.activeFormatting.length; rw [hs1.activeFormatting]; exact hfi))
      fun _ s2 c2 _ ⟨hs2, hc2⟩ => ?_)
    subst hc2
    refine tot_pure ?_
    have hst1 := he1.stable
    have hs2' : s2 = { s with openElems := s.openElems.take pfe, activeFormatting := s.activeFormatting.eraseIdx feIdx,
                              dom := s1.dom, traceRev := s1.traceRev } := by
      rw [hs2]; simp only []; rw [hs1.openElems, hs1.activeFormatting]; unfold SameTB at hs1; rw [hs1]
    have hok2 : ElemsOk s2.dom s2.openElems := by
      rw [hs2']; intro x hx
      exact isElement_stable hst1 (hok x ((List.take_sublist _ _).subset hx))
    refine ⟨[], [], by intro tc _; simp [hc1], ?_, ?_, hok2, fun h => Bool.noConfusion h, fun x hx => by cases hx⟩
    · intro rest log0
      rw [hround_none hffb.symm]
      simp only [Option.map_some, roundResult, List.nil_append, List.append_nil, Option.some.injEq, Prod.mk.injEq, and_true]
      rw [hs2']
      simp only [stDone, absState, absList_eraseIdx]
      have : absStack s1.dom (s.openElems.take pfe) = (absStack s.dom s.openElems).take pfe := by
        unfold absStack; rw [List.map_take]
        congr 1
        exact absStack_stable hok hst1
      rw [this]
    · unfold SameButStackList; rw [hs2']
  | some r =>
    obtain ⟨fbIdx, fb⟩ := r
    rw [hf] at hffb
    simp only [Option.map_some] at hffb
    simp only []
    -- where the furthest block is
    have hfb_facts : pfe < fbIdx ∧ s.openElems[fbIdx]? = some fb := by
      have := hffb.symm
      unfold furthestBlock at this
      simp only [Option.bind_eq_some_iff, Option.map_eq_some_iff] at this
      obtain ⟨j, _, e, hje, heq⟩ := this
      simp only [Prod.mk.injEq] at heq
      obtain ⟨h1, h2⟩ := heq
      refine ⟨by omega, ?_⟩
      rw [List.getElem?_drop, absStack_getElem?, h1] at hje
      cases hy : s.openElems[fbIdx]? with
      | none => simp [hy] at hje
      | some y =>
        simp only [hy, Option.map_some, Option.some.injEq] at hje
        rw [← hje] at h2
        have : y = fb := congrArg Elem.id h2
        rw [this]
    obtain ⟨ca, hca⟩ : ∃ ca, s.openElems[pfe - 1]? = some ca := ⟨_, List.getElem?_eq_getElem (by omega)⟩
    have hst1 := he1.stable
    have hok1 : ElemsOk s1.dom s1.openElems := by rw [hs1.openElems]; exact hok.stable hst1
    have hhead1 : HeadOk s1.dom s1.openElems := hhead.transfer hok hst1 (by rw [hs1.openElems])
    unfold aaStep11
    have hne0 : (pfe == 0) = false := by rw [beq_eq_false_iff_ne]; omega
    simp only [hne0, Bool.false_eq_true, if_false]
    unfold aaStep11b
    refine tot_getS_bind ?_
    rw [hs1.openElems, hca]
    simp only []
    refine tot_bind (tot_pure ?_)
    refine tot_conseq (tot_aaStep12 s1 fe tag fbIdx fb ca pfe hok1 hhead1
        (by rw [hs1.openElems, stackPos_dom fe s1.dom s.dom]; exact hpos) hp0 (by rw [hs1.openElems]; exact hca) hfb_facts.1
        (by rw [hs1.openElems]; exact hfb_facts.2) (by rw [hs1.activeFormatting]; exact hfel)
        (by rw [hs1.openElems, hs1.activeFormatting]; exact hafok.mono hok hst1 (fun _ hx => hx) (fun _ he => he))
        (hafok fe tag (List.mem_of_getElem? hfentry)).2.1)
      fun ret s2 c2 _ ⟨hret, ids, L, hL, hspec, hS, hok2, hhead2, hfresh, hafok2⟩ => ?_
    have hfb_el : s.dom.isElement fb = true := hok fb (List.mem_of_getElem? hfb_facts.2)
    have hca_el : s.dom.isElement ca = true := hok ca (List.mem_of_getElem? hca)
    have := RoundPost.of_query (subject := subject) (ret := ret) (s' := s2) (c2 := c2) hs1 he1 hc1 hok
      ⟨ids, L, hL, ?_, hS, hok2, fun _ => ⟨hhead2, hafok2⟩, hfresh⟩
    · simpa using this
    · intro rest log0
      rw [absState_sameTB hs1 hst1 hok, hround_some fbIdx (elemOf s.dom fb) hffb.symm]
      simp only [absStack_getElem?, hca, Option.map_some, Option.bind_some]
      have := hspec rest log0
      rw [absState_sameTB hs1 hst1 hok, elemOf_stable hst1 hfb_el, elemOf_stable hst1 hca_el] at this
      have hid : (elemOf s.dom fb).id = fb := rfl
      rw [hid]
      simp only [Option.bind_eq_some_iff] at this
      obtain ⟨r, hr1, hr2⟩ := this
      rw [hr1]
      simp only [Option.bind_some, hr2, Option.map_some, roundResult, hret]

/-- steps 6–19 -/
theorem tot_aaStep8 (subject : Str) (s : State) (feIdx : Nat) (fe : Id) (tag : Tag) (pfe : Nat)
    (hok : ElemsOk s.dom s.openElems) (hhead : HeadOk s.dom s.openElems)
    (hfind : findFormattingElement tagCtx subject (absList s.activeFormatting) = some (feIdx, fe, tag))
    (hpos : stackPos fe (absStack s.dom s.openElems) = some pfe)
    (hscope : hasNodeInScope fe Spec.TreeAlgo.defaultScopeList (absStack s.dom s.openElems).reverse = true)
    (hp0 : 0 < pfe) (hns : isSpecial (elemOf s.dom fe) = false)
    (hafok : AFOk s.dom s.openElems s.activeFormatting) :
    Tot (aaStep8 feIdx fe tag pfe) s (RoundPost subject s) := by
  obtain ⟨hplt, _⟩ := stackPos_lt hpos
  obtain ⟨cur, hcur⟩ : ∃ cur, s.openElems.getLast? = some cur := by
    cases h : s.openElems.getLast? with
    | none => rw [List.getLast?_eq_none_iff] at h; rw [h] at hplt; simp at hplt
    | some c => exact ⟨c, rfl⟩
  -- the rest, after the parse-error check
  have hrest : ∀ (s3 : State) (c3 : List Call), Ext s c3 s3 → SameTB s s3 → edits c3 = [] →
      Tot (aaStep9 feIdx fe tag pfe) s3 (fun ret s' c4 => RoundPost subject s ret s' (c3 ++ c4)) := by
    intro s3 c3 he3 hs3 hc3
    have hst3 := he3.stable
    have hok3 : ElemsOk s3.dom s3.openElems := by rw [hs3.openElems]; exact hok.stable hst3
    have hhead3 : HeadOk s3.dom s3.openElems := hhead.transfer hok hst3 (by rw [hs3.openElems])
    have hfe_el : s.dom.isElement fe = true := hok fe (List.mem_of_getElem? (stackPos_lt hpos).2)
    refine tot_conseq (tot_aaStep9 subject s3 feIdx fe tag pfe hok3 hhead3 (by rw [hs3.activeFormatting]; exact hfind)
        (by rw [hs3.openElems, stackPos_dom fe s3.dom s.dom]; exact hpos)
        (by rw [hs3.openElems, absStack_stable hok hst3]; exact hscope) hp0
        (by rw [elemOf_stable hst3 hfe_el]; exact hns)
        (by rw [hs3.openElems, hs3.activeFormatting]; exact hafok.mono hok hst3 (fun _ hx => hx) (fun _ he => he)))
      fun ret s' c4 _ h => RoundPost.of_query hs3 he3 hc3 hok h
  unfold aaStep8
  refine tot_query_bind (tot_currentNode hcur) fun s1 c1 he1 hs1 hc1 => ?_
  refine tot_query_bind (tot_sameNode s1 cur fe) fun s2 c2 he2 hs2 hc2 => ?_
  by_cases hb : (cur == fe) = true
  · simp only [hb, Bool.not_true, Bool.false_eq_true, if_false]
    have := hrest s2 (c1 ++ c2) (he1.trans he2) (hs1.trans hs2) (by rw [edits_append, hc1, hc2]; rfl)
    simpa [List.append_assoc] using this
  · simp only [hb, Bool.not_false, if_true]
    refine tot_query_bind (tot_parseError s2 _) fun s3 c3 he3 hs3 hc3 => ?_
    have := hrest s3 (c1 ++ (c2 ++ c3)) (he1.trans (he2.trans he3)) (hs1.trans (hs2.trans hs3))
      (by rw [edits_append, edits_append, hc1, hc2, hc3]; rfl)
    simpa [List.append_assoc] using this

section SpecRound
variable {N T : Type} [DecidableEq N]

theorem outerRound_noFE (cx : Ctx T) (subject : Str) (st : PState N T)
    (h : findFormattingElement cx subject st.list = none) : outerRound cx subject st = some (.anyOtherEndTag st) := by
  unfold outerRound; simp only [h]

theorem outerRound_notOpen (cx : Ctx T) (subject : Str) (st : PState N T) (i : Nat) (fe : N) (t : T)
    (h : findFormattingElement cx subject st.list = some (i, fe, t)) (h2 : stackPos fe st.stack = none) :
    outerRound cx subject st = some (.done { st with list := st.list.eraseIdx i }) := by
  unfold outerRound; simp only [h, h2]

theorem outerRound_notInScope (cx : Ctx T) (subject : Str) (st : PState N T) (i : Nat) (fe : N) (t : T) (p : Nat)
    (h : findFormattingElement cx subject st.list = some (i, fe, t)) (h2 : stackPos fe st.stack = some p)
    (h3 : hasNodeInScope fe Spec.TreeAlgo.defaultScopeList st.stack.reverse = false) :
    outerRound cx subject st = some (.done st) := by
  unfold outerRound; simp only [h, h2, h3, Bool.not_false, if_true]

end SpecRound

/-- **(o, steps 4.3–4.19)** one round of the outer loop of the adoption agency algorithm.  Hypothesis
`hfe`: the formatting element, if it is on the stack, is not the topmost entry (that is `html`) and is
not in the special category (formatting elements never are). -/
theorem tot_aaOuterStep (subject : Str) (s : State) (hok : ElemsOk s.dom s.openElems) (hhead : HeadOk s.dom s.openElems)
    (hafok : AFOk s.dom s.openElems s.activeFormatting) :
    Tot (aaOuterStep subject) s (RoundPost subject s) := by
  rw [aaOuterStep_eq]
  refine tot_getS_bind ?_
  rw [findFormatting_eq]
  cases hfind : findFormattingElement tagCtx subject (absList s.activeFormatting) with
  | none =>
    simp only []
    refine tot_bind (tot_conseq (tot_processEndTagInBody s hok
      { kind := .endTag, name := subject, selfClosing := false, attrs := [], hadDup := false }) fun _ s1 c1 he1 hP => ?_)
    obtain ⟨hs1, hpre, habs, hc1⟩ := hP.unfold
    refine tot_pure ?_
    have hst1 := he1.stable
    have hok1' : ElemsOk s.dom s1.openElems := fun x hx => hok x (hpre.subset hx)
    refine ⟨[], [], by intro tc _; simp [hc1], ?_, ?_, ?_, fun h => Bool.noConfusion h, fun x hx => by cases hx⟩
    · intro rest log0
      simp only [List.nil_append, List.append_nil]
      rw [outerRound_noFE tagCtx subject (absState s rest log0) hfind]
      simp only [Option.map_some, roundResult, Option.some.injEq, Prod.mk.injEq, and_true]
      rw [hs1]
      simp only [absState]
      rw [absStack_stable hok1' hst1, habs]
    · unfold SameButStackList; rw [hs1]
    · exact hok1'.stable hst1
  | some r =>
    obtain ⟨feIdx, fe, tag⟩ := r
    obtain ⟨hfi, hfentry, _⟩ := findFormattingElement_some hfind
    simp only []
    refine tot_query_bind (tot_rposition s fe) fun s1 c1 he1 hs1 hc1 => ?_
    have hst1 := he1.stable
    cases hpos : stackPos fe (absStack s.dom s.openElems) with
    | none =>
      -- step 4
      simp only []
      refine tot_query_bind (tot_parseError s1 _) fun s2 c2 he2 hs2 hc2 => ?_
      have hS2 : SameTB s s2 := hs1.trans hs2
      refine tot_bind (tot_conseq (tot_afRemove s2 feIdx "mod.rs:754" (by rw [hS2.activeFormatting]; exact hfi))
        fun _ s3 c3 _ ⟨hs3, hc3⟩ => ?_)
      subst hc3
      refine tot_pure ?_
      have hst2 : Stable s.dom s2.dom := hst1.trans he2.stable
      have hs3' : s3 = { s with activeFormatting := s.activeFormatting.eraseIdx feIdx, dom := s2.dom, traceRev := s2.traceRev } := by
        rw [hs3, hS2.activeFormatting]; unfold SameTB at hS2; rw [hS2]
      refine ⟨[], [], by intro tc _; simp [hc1, hc2, edits_append], ?_, ?_, ?_, fun h => Bool.noConfusion h, fun x hx => by cases hx⟩
      · intro rest log0
        simp only [List.nil_append, List.append_nil]
        rw [outerRound_notOpen tagCtx subject (absState s rest log0) feIdx fe tag hfind hpos]
        simp only [Option.map_some, roundResult, Option.some.injEq, Prod.mk.injEq, and_true]
        rw [hs3']
        simp only [absState, absList_eraseIdx, absStack_stable hok hst2]
      · unfold SameButStackList; rw [hs3']
      · rw [hs3']; exact hok.stable hst2
    | some pfe =>
      simp only []
      obtain ⟨hp0, hns⟩ : 0 < pfe ∧ isSpecial (elemOf s.dom fe) = false := by
        obtain ⟨_, hfe_at⟩ := stackPos_lt hpos
        obtain ⟨_, hsp, hnm⟩ := hafok fe tag (List.mem_of_getElem? hfentry)
        have hnm' := hnm (List.mem_of_getElem? hfe_at)
        have hns : isSpecial (elemOf s.dom fe) = false := by
          unfold isSpecial elemOf; rw [hnm']; exact hsp
        refine ⟨?_, hns⟩
        rcases Nat.eq_zero_or_pos pfe with h0 | h0
        · exfalso
          obtain ⟨h0', hh0, _, hsp0⟩ := hhead
          rw [h0] at hfe_at
          have : s.openElems.head? = some fe := by
            cases hl : s.openElems with
            | nil => rw [hl] at hfe_at; cases hfe_at
            | cons a r => rw [hl] at hfe_at; simpa using hfe_at
          rw [this] at hh0; cases hh0
          rw [hns] at hsp0; cases hsp0
        · exact h0
      have hok1 : ElemsOk s1.dom s1.openElems := by rw [hs1.openElems]; exact hok.stable hst1
      refine tot_query_bind (tot_inScope_node s1 fe hok1) fun s2 c2 he2 hs2 hc2 => ?_
      rw [hs1.openElems, absStack_stable hok hst1]
      have hS2 : SameTB s s2 := hs1.trans hs2
      have hst2 : Stable s.dom s2.dom := hst1.trans he2.stable
      by_cases hscope : hasNodeInScope fe Spec.TreeAlgo.defaultScopeList (absStack s.dom s.openElems).reverse = true
      · simp only [hscope, Bool.not_true, Bool.false_eq_true, if_false]
        have hok2 : ElemsOk s2.dom s2.openElems := by rw [hS2.openElems]; exact hok.stable hst2
        have hhead2 : HeadOk s2.dom s2.openElems := hhead.transfer hok hst2 (by rw [hS2.openElems])
        have hfe_el : s.dom.isElement fe = true := hok fe (List.mem_of_getElem? (stackPos_lt hpos).2)
        refine tot_conseq (tot_aaStep8 subject s2 feIdx fe tag pfe hok2 hhead2 (by rw [hS2.activeFormatting]; exact hfind)
            (by rw [hS2.openElems, stackPos_dom fe s2.dom s.dom]; exact hpos)
            (by rw [hS2.openElems, absStack_stable hok hst2]; exact hscope) hp0
            (by rw [elemOf_stable hst2 hfe_el]; exact hns)
            (by rw [hS2.openElems, hS2.activeFormatting]; exact hafok.mono hok hst2 (fun _ hx => hx) (fun _ he => he)))
          fun ret s' c3 _ h => ?_
        have := RoundPost.of_query hS2 (he1.trans he2) (by rw [edits_append, hc1, hc2]; rfl) hok h
        simpa [List.append_assoc] using this
      · -- step 5
        have hscope' : hasNodeInScope fe Spec.TreeAlgo.defaultScopeList (absStack s.dom s.openElems).reverse = false := by
          simpa using hscope
        simp only [hscope', Bool.not_false, if_true]
        refine tot_query_bind (tot_parseError s2 _) fun s3 c3 he3 hs3 hc3 => ?_
        refine tot_pure ?_
        have hS3 : SameTB s s3 := hS2.trans hs3
        have hst3 : Stable s.dom s3.dom := hst2.trans he3.stable
        refine ⟨[], [], by intro tc _; simp [hc1, hc2, hc3, edits_append], ?_, ?_, ?_, fun h => Bool.noConfusion h, fun x hx => by cases hx⟩
        · intro rest log0
          simp only [List.nil_append, List.append_nil]
          rw [outerRound_notInScope tagCtx subject (absState s rest log0) feIdx fe tag pfe hfind hpos hscope']
          simp only [Option.map_some, roundResult, Option.some.injEq, Prod.mk.injEq, and_true]
          exact (absState_sameTB hS3 hst3 hok rest log0).symm
        · unfold SameButStackList; unfold SameTB at hS3; rw [hS3]
        · rw [hS3.openElems]; exact hok.stable hst3

/-! ### the outer loop and the whole algorithm -/

/-- the end result of the algorithm: the fallback to "any other end tag" carried out -/
def finish (subject : Str) (r : PState Id Tag × Bool) : PState Id Tag :=
  if r.2 then { r.1 with stack := anyOtherEndTag subject r.1.stack } else r.1

theorem outerLoop_succ (subject : Str) (n : Nat) (st : PState Id Tag) :
    (outerLoop tagCtx subject (n + 1) st).map (finish subject) =
      ((outerRound tagCtx subject st).map (roundResult subject)).bind fun r =>
        if r.2 then some r.1 else (outerLoop tagCtx subject n r.1).map (finish subject) := by
  simp only [outerLoop]
  cases outerRound tagCtx subject st with
  | none => rfl
  | some r => cases r <;> rfl

/-- what the outer loop guarantees -/
def LoopPost (subject : Str) (n : Nat) (s : State) : Unit → State → List Call → Prop :=
  fun _ s' calls => ∃ ids L,
    (∀ tc, TcOk s'.dom tc → edits calls = L.map (editCall tc)) ∧
    (∀ rest log0, (outerLoop tagCtx subject n (absState s (ids ++ rest) log0)).map (finish subject)
        = some (absState s' rest (log0 ++ L))) ∧
    SameButStackList s s' ∧ ElemsOk s'.dom s'.openElems ∧ (∀ x ∈ ids, s.dom.size ≤ x)

/-- **(o, step 4)** the outer loop -/
theorem tot_aaOuter (subject : Str) : ∀ (n : Nat) (s : State), ElemsOk s.dom s.openElems → HeadOk s.dom s.openElems →
    AFOk s.dom s.openElems s.activeFormatting → Tot (aaOuter subject n) s (LoopPost subject n s) := by
  intro n
  induction n with
  | zero =>
    intro s hok _ _
    unfold aaOuter
    refine tot_pure ⟨[], [], fun _ _ => rfl, ?_, ?_, hok, fun x hx => by cases hx⟩
    · intro rest log0; simp [outerLoop, finish]
    · rfl
  | succ n ih =>
    intro s hok hhead hafok
    unfold aaOuter
    refine tot_bind (tot_conseq (tot_aaOuterStep subject s hok hhead hafok)
      fun ret s1 c1 he1 ⟨ids1, L1, hL1, hspec1, hS1, hok1, hinv1, hfresh1⟩ => ?_)
    cases ret with
    | true =>
      simp only [if_true]
      refine tot_pure ⟨ids1, L1, ?_, ?_, hS1, hok1, hfresh1⟩
      · intro tc htc; simpa using hL1 tc htc
      · intro rest log0
        rw [outerLoop_succ, hspec1 rest log0]; rfl
    | false =>
      simp only [Bool.false_eq_true, if_false]
      obtain ⟨hhead1, hafok1⟩ := hinv1 rfl
      refine tot_conseq (ih s1 hok1 hhead1 hafok1) fun _ s2 c2 he2 ⟨ids2, L2, hL2, hspec2, hS2, hok2, hfresh2⟩ => ?_
      refine ⟨ids1 ++ ids2, L1 ++ L2, ?_, ?_, ?_, hok2, ?_⟩
      · intro tc htc
        rw [edits_append, hL1 tc (htc.of_stable he2.stable), hL2 tc htc, List.map_append]
      · intro rest log0
        rw [outerLoop_succ, List.append_assoc, hspec1 (ids2 ++ rest) log0]
        simp only [Option.bind_some, Bool.false_eq_true, if_false]
        rw [hspec2 rest (log0 ++ L1), List.append_assoc]
      · unfold SameButStackList at hS1 hS2 ⊢; rw [hS2, hS1]
      · intro x hx
        rcases List.mem_append.mp hx with h | h
        · exact hfresh1 x h
        · exact Nat.le_trans he1.stable.size (hfresh2 x h)

def aaAfterShortcut (subject : Str) (shortcut : Bool) : M Unit := do
  if shortcut then
    let _ ← pop
  else aaOuter subject 8

theorem adoptionAgency_eq (subject : Str) :
    H5V.Model.HtmlTB.adoptionAgency subject = (do
      let shortcut ← do
        if ← currentNodeNamedS subject then
          let cur ← currentNode
          pure (← positionInActiveFormatting cur).isNone
        else pure false
      aaAfterShortcut subject shortcut) := rfl

/-- **(o)** `adoption_agency(subject)` is the standard's adoption agency algorithm (with the fallback
of step 4.3 to "any other end tag" carried out), on every state whose stack starts with a special,
non-`table` element (`html`), whose stack entries are elements of the sink, and whose listed
formatting elements carry the name of their token, which is not in the special category. -/
theorem tot_adoptionAgency (subject : Str) (s : State) (hok : ElemsOk s.dom s.openElems) (hhead : HeadOk s.dom s.openElems)
    (hafok : AFOk s.dom s.openElems s.activeFormatting) :
    Tot (H5V.Model.HtmlTB.adoptionAgency subject) s (fun _ s' calls => ∃ ids L,
      (∀ tc, TcOk s'.dom tc → edits calls = L.map (editCall tc)) ∧
      (∀ rest log0, adoptionAgencyWithFallback tagCtx subject (absState s (ids ++ rest) log0)
          = some (absState s' rest (log0 ++ L))) ∧
      SameButStackList s s' ∧ ElemsOk s'.dom s'.openElems ∧ (∀ x ∈ ids, s.dom.size ≤ x)) := by
  obtain ⟨h0, hh0, _⟩ := hhead
  obtain ⟨cur, hcur⟩ : ∃ cur, s.openElems.getLast? = some cur := by
    cases h : s.openElems.getLast? with
    | none => rw [List.getLast?_eq_none_iff] at h; rw [h] at hh0; cases hh0
    | some c => exact ⟨c, rfl⟩
  have hcur_el : s.dom.isElement cur = true := hok cur (List.mem_of_getLast? hcur)
  -- the spec, by cases on the shortcut of step 2
  have hspec_eq : ∀ sup log, adoptionAgencyWithFallback tagCtx subject (absState s sup log) =
      if ((elemOf s.dom cur).name.ns == Spec.TreeAlgo.nsHtml && (elemOf s.dom cur).name.loc == subject &&
          (listPos cur (absList s.activeFormatting)).isNone) = true
      then some { absState s sup log with stack := (absStack s.dom s.openElems).dropLast }
      else (outerLoop tagCtx subject 8 (absState s sup log)).map (finish subject) := by
    intro sup log
    have hl : (absState s sup log).stack.getLast? = some (elemOf s.dom cur) := by
      show (absStack s.dom s.openElems).getLast? = _
      rw [absStack_getLast?, hcur]; rfl
    unfold adoptionAgencyWithFallback Spec.TreeAlgo2.adoptionAgency
    rw [hl]
    simp only []
    by_cases hc : ((elemOf s.dom cur).name.ns == Spec.TreeAlgo.nsHtml && (elemOf s.dom cur).name.loc == subject &&
          (listPos cur (absList s.activeFormatting)).isNone) = true
    · have hc' : ((elemOf s.dom cur).name.ns == Spec.TreeAlgo.nsHtml && (elemOf s.dom cur).name.loc == subject &&
          (listPos (elemOf s.dom cur).id (absState s sup log).list).isNone) = true := hc
      simp only [hc, hc', if_true, Option.map_some, Bool.false_eq_true, if_false]
      rfl
    · have hc' : ¬ ((elemOf s.dom cur).name.ns == Spec.TreeAlgo.nsHtml && (elemOf s.dom cur).name.loc == subject &&
          (listPos (elemOf s.dom cur).id (absState s sup log).list).isNone) = true := hc
      simp only [hc, hc', if_false]
      rfl
  have hA : ∀ (s2 : State) (c2 : List Call) (sc : Bool), Ext s c2 s2 → SameTB s s2 → edits c2 = [] →
      sc = ((elemOf s.dom cur).name.ns == Spec.TreeAlgo.nsHtml && (elemOf s.dom cur).name.loc == subject &&
          (listPos cur (absList s.activeFormatting)).isNone) →
      Tot (aaAfterShortcut subject sc) s2 (fun _ s' c3 => ∃ ids L,
        (∀ tc, TcOk s'.dom tc → edits (c2 ++ c3) = L.map (editCall tc)) ∧
        (∀ rest log0, adoptionAgencyWithFallback tagCtx subject (absState s (ids ++ rest) log0)
            = some (absState s' rest (log0 ++ L))) ∧
        SameButStackList s s' ∧ ElemsOk s'.dom s'.openElems ∧ (∀ x ∈ ids, s.dom.size ≤ x)) := by
    intro s2 c2 sc he2 hs2 hc2 hsc
    have hst2 := he2.stable
    unfold aaAfterShortcut
    cases sc with
    | true =>
      simp only [if_true]
      refine tot_bind (tot_conseq (pop_tot_pop (s := s2) (h := cur) (by rw [hs2.openElems]; exact hcur))
        fun _ s3 c3 he3 ⟨_, hs3, hopen3, hc3⟩ => ?_)
      refine tot_pure ⟨[], [], ?_, ?_, ?_, ?_, fun x hx => by cases hx⟩
      · intro tc _; simp [edits_append, hc2, hc3]
      · intro rest log0
        simp only [List.nil_append, List.append_nil]
        rw [hspec_eq, ← hsc]
        simp only [if_true, Option.some.injEq]
        have hst3 : Stable s.dom s3.dom := hst2.trans he3.stable
        have hopen3' : s3.openElems = s.openElems.dropLast := by rw [hopen3, hs2.openElems]
        unfold StackOnly at hs3
        simp only [absState]
        rw [hs3]
        simp only []
        rw [hopen3', hs2.activeFormatting, hs2.fosterParenting, hs2.formElem]
        have : absStack s3.dom s.openElems.dropLast = (absStack s.dom s.openElems).dropLast := by
          unfold absStack
          rw [← List.map_dropLast]
          exact absStack_stable (fun x hx => hok x ((List.dropLast_sublist _).subset hx)) hst3
        rw [this]
      · unfold SameButStackList; unfold StackOnly at hs3; rw [hs3]; unfold SameTB at hs2; rw [hs2]
      · rw [hopen3, hs2.openElems]; intro x hx
        exact isElement_stable (hst2.trans he3.stable) (hok x ((List.dropLast_sublist _).subset hx))
    | false =>
      simp only [Bool.false_eq_true, if_false]
      have hok2 : ElemsOk s2.dom s2.openElems := by rw [hs2.openElems]; exact hok.stable hst2
      refine tot_conseq (tot_aaOuter subject 8 s2 hok2 (HeadOk.transfer ⟨h0, hh0, ‹_›⟩ hok hst2 (by rw [hs2.openElems]))
          (by rw [hs2.openElems, hs2.activeFormatting]; exact hafok.mono hok hst2 (fun _ hx => hx) (fun _ he => he)))
        fun _ s3 c3 _ ⟨ids, L, hL, hspec, hS, hok3, hfresh⟩ => ?_
      refine ⟨ids, L, ?_, ?_, ?_, hok3, fun x hx => Nat.le_trans hst2.size (hfresh x hx)⟩
      · intro tc htc; rw [edits_append, hc2, hL tc htc]; rfl
      · intro rest log0
        rw [hspec_eq, ← hsc]
        simp only [Bool.false_eq_true, if_false]
        rw [← absState_sameTB hs2 hst2 hok]; exact hspec rest log0
      · unfold SameButStackList at hS ⊢; unfold SameTB at hs2; rw [hS, hs2]
  rw [adoptionAgency_eq]
  unfold currentNodeNamedS
  refine tot_bind (tot_query_bind (tot_currentNode hcur) fun s1 c1 he1 hs1 hc1 =>
    tot_conseq (tot_htmlElemNamedS s1 cur subject) fun b s2 c2 he2 ⟨hb, hs2, hc2⟩ => ?_)
  rw [nameOf_stable he1.stable hcur_el] at hb
  have hE2 : Ext s (c1 ++ c2) s2 := he1.trans he2
  have hS2 : SameTB s s2 := hs1.trans hs2
  have hC2 : edits (c1 ++ c2) = [] := by rw [edits_append, hc1, hc2]; rfl
  by_cases hnamed : ((nameOf s.dom cur).ns == nsHtml && (nameOf s.dom cur).loc == subject) = true
  · rw [hnamed] at hb; subst hb
    simp only [if_true]
    refine tot_query_bind (tot_currentNode (s := s2) (h := cur) (by rw [hS2.openElems]; exact hcur)) fun s3 c3 he3 hs3 hc3 => ?_
    refine tot_query_bind (tot_positionInAF s3 cur) fun s4 c4 he4 hs4 hc4 => ?_
    refine tot_bind (tot_pure ?_)
    have hS4 : SameTB s s4 := (hS2.trans hs3).trans hs4
    have := hA s4 (((c1 ++ c2) ++ c3) ++ c4) (listPos cur (absList s3.activeFormatting)).isNone ((hE2.trans he3).trans he4) hS4
      (by simp [edits_append, hc1, hc2, hc3, hc4]) ?_
    · simpa [List.append_assoc] using this
    · rw [(hS2.trans hs3).activeFormatting]
      have e1 : (elemOf s.dom cur).name.ns = (nameOf s.dom cur).ns := rfl
      have e2 : (elemOf s.dom cur).name.loc = (nameOf s.dom cur).loc := rfl
      rw [e1, e2]
      have e3 : ((nameOf s.dom cur).ns == Spec.TreeAlgo.nsHtml) = ((nameOf s.dom cur).ns == nsHtml) := rfl
      rw [e3, hnamed]; simp
  · have hnamed' : ((nameOf s.dom cur).ns == nsHtml && (nameOf s.dom cur).loc == subject) = false := by simpa using hnamed
    rw [hnamed'] at hb; subst hb
    simp only [Bool.false_eq_true, if_false]
    refine tot_bind (tot_pure ?_)
    have := hA s2 (c1 ++ c2) false hE2 hS2 hC2 ?_
    · simpa [List.append_assoc] using this
    · have e1 : (elemOf s.dom cur).name.ns = (nameOf s.dom cur).ns := rfl
      have e2 : (elemOf s.dom cur).name.loc = (nameOf s.dom cur).loc := rfl
      rw [e1, e2]
      have e3 : ((nameOf s.dom cur).ns == Spec.TreeAlgo.nsHtml) = ((nameOf s.dom cur).ns == nsHtml) := rfl
      rw [e3, hnamed']; simp

end H5V.Lemmas.HtmlTBAlgo
