import Lean.Meta.Tactic.Simp.RegisterCommand
/-!
C18, tree-builder side: the simp set `pv_mem` used by the side-condition tactic of the provenance walk
(unfolds the "handles of an answer" functions and the membership facts about the builder's lists).
-/
register_simp_attr pv_mem
