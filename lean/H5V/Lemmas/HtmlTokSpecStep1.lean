import H5V.Lemmas.HtmlTokSpecReader
import H5V.Lemmas.HtmlTokSpecTabSet
/-!
# C01 simulation — step lemma for the states read with `pop_except_from` / the data state's read
(no character reference in progress, no lag), including the start of a character reference on `&`
-/
set_option linter.unusedSimpArgs false
set_option linter.unusedVariables false
namespace H5V.Lemmas.HtmlTokSpec
open H5V.Model.HtmlTok
open H5V.Spec.HtmlTokenizer (St Tok Emit Tree Switch Ctl ReturnSt normalizeNewlinesFrom normalizeNewlines)

/-- the register part of the relation, with or without a character reference in progress -/
structure RegCoreG (m : Mach) (t : Tok) (rest : Str) : Prop where
  std : Std m.state
  st : StRelD m t rest
  reg : RegRel m t
  out : OutRel m t
  crg : ∀ cr, m.charRef = some cr → CRStG cr cr.state

theorem RegCore.toG {m : Mach} {t : Tok} (h : RegCore m t) (rest : Str) : RegCoreG m t rest := by
  refine ⟨h.std, ?_, h.reg, h.out, fun cr hc => ?_⟩
  · unfold StRelD; rw [h.cr]; exact h.st
  · rw [h.cr] at hc; simp at hc

theorem RelCore.ofG {m : Mach} {inp : Str} {t : Tok} {rest : Str} (h : RegCoreG m t rest)
    (hi : InpRel m inp rest) (ht : TInv m) : RelCore m inp t rest :=
  ⟨⟨h.std, h.st, h.reg, h.out, hi⟩, ht, h.crg⟩

/-- `TabOk` allowing the table to start a character reference -/
def TabOkG (tree : Tree) (t : Tok) (c : Char) (rest : Str) (r : Mach × Sig) : Prop :=
  r.2 = .cont ∧ Reach tree t (c :: rest) (fun t' rest' =>
     rest' = (if r.1.reconsume then c :: rest else rest) ∧ RegCoreG r.1 t' rest')

theorem TabOk.toG {tree : Tree} {t : Tok} {c : Char} {rest : Str} {r : Mach × Sig}
    (h : TabOk tree t c rest r) : TabOkG tree t c rest r :=
  ⟨h.1, h.2.mono fun t' r' hp => ⟨hp.1, hp.2.toG r'⟩⟩

/-! ## `&` starts a character reference -/

theorem amp_reach (tree : Tree) (m : Mach) (t : Tok) (rest : Str) (h : RegCore m t) (R : ReturnSt)
    (hR : R.toSt = stOf m.state) (hret : isRet m.state = true)
    (hmain : ∀ t0 : Tok, t0.state = stOf m.state → sstep tree t0 ('&' :: rest) =
      ((t0.setReturnState R).switchTo .characterReference)) :
    Reach tree t ('&' :: rest) (fun t' rest' => rest' = rest ∧
      RegCoreG (m.setCharRef (some { inAttr := isAttrValueState m.state })) t' rest') := by
  obtain ⟨hstd, hst, hcr, hreg, hout⟩ := h
  have fin : ∀ t0 : Tok, t0.state = stOf m.state → RegRel m t0 → OutRel m t0 →
      sstep tree t0 ('&' :: rest) = ((t0.setReturnState R).switchTo .characterReference) →
      Reach tree t0 ('&' :: rest) (fun t' rest' => rest' = rest ∧
        RegCoreG (m.setCharRef (some { inAttr := isAttrValueState m.state })) t' rest') := by
    intro t0 h0 hreg0 hout0 hs0
    refine Reach.stepEq hs0 (Reach.done ⟨rfl, ?_⟩)
    refine ⟨hstd, ?_, hreg0, hout0, ?_⟩
    · unfold StRelD
      simp only [Mach.setCharRef]
      exact ⟨hret, hR, rfl, rfl, by simp [crFresh]⟩
    · intro cr hc
      simp only [Mach.setCharRef, Option.some.injEq] at hc
      subst hc
      trivial
  rcases hst with hst | hst
  · exact fin t hst hreg hout (hmain t hst)
  · -- the specification is in the ambiguous ampersand state: `&` is reconsumed in the return state
    unfold altSt at hst
    rcases hst with ⟨ha, _, hrs⟩ | ⟨hs, _⟩ | ⟨hs, _⟩ | ⟨hs, _⟩
    · have hstep : sstep tree t ('&' :: rest) = ({ t with state := stOf m.state }, .advance 0) := by
        simp (config := {decide := true}) [sstep, H5V.Spec.HtmlTokenizer.step, ha,
          H5V.Spec.HtmlTokenizer.ambiguousAmpersandState, Tok.reconsumeIn, hrs,
          H5V.Spec.HtmlTokenizer.isAsciiAlphanumeric, H5V.Spec.HtmlTokenizer.isAsciiDigit,
          H5V.Spec.HtmlTokenizer.isAsciiAlpha, H5V.Spec.HtmlTokenizer.isAsciiUpperAlpha,
          H5V.Spec.HtmlTokenizer.isAsciiLowerAlpha]
      refine Reach.stepEq hstep ?_
      exact fin { t with state := stOf m.state } rfl hreg hout (hmain _ rfl)
    · rw [hs] at hret; simp [isRet] at hret
    · rw [hs] at hret; simp [isRet] at hret
    · rw [hs] at hret; simp [isRet] at hret

/-- the table lemma for `&` in the five states that start a character reference -/
theorem amp_tab (o : Opts) (pol : Pol) (tree : Tree) (m : Mach) (t : Tok) (rest : Str) (h : RegCore m t)
    (hr : m.reconsume = false)
    (hs : m.state = .data ∨ m.state = .rawData .rcdata ∨ ∃ k, m.state = .attributeValue k) :
    TabOkG tree t '&' rest (transSet o pol m (.fromSet '&')) := by
  have hcr := h.cr
  have hres : transSet o pol m (.fromSet '&') =
      (m.setCharRef (some { inAttr := isAttrValueState m.state }), .cont) := by
    rw [← consumeCharRef_ok m hcr]
    unfold transSet
    rcases hs with hs | hs | ⟨k, hs⟩
    · simp (config := {decide := true}) [hs]
    · simp (config := {decide := true}) [hs]
    · cases k <;> simp (config := {decide := true}) [hs, isWs]
  rw [hres]
  refine ⟨rfl, ?_⟩
  have hrec : (m.setCharRef (some { inAttr := isAttrValueState m.state })).reconsume = false := hr
  simp only [hrec, Bool.false_eq_true, if_false]
  rcases hs with hs | hs | ⟨k, hs⟩
  · refine amp_reach tree m t rest h .data (by rw [hs]; rfl) (by rw [hs]; rfl) ?_
    intro t0 h0
    rw [hs] at h0
    simp [sstep, H5V.Spec.HtmlTokenizer.step, h0, stOf, H5V.Spec.HtmlTokenizer.dataState]
  · refine amp_reach tree m t rest h .rcdata (by rw [hs]; rfl) (by rw [hs]; rfl) ?_
    intro t0 h0
    rw [hs] at h0
    simp [sstep, H5V.Spec.HtmlTokenizer.step, h0, stOf, H5V.Spec.HtmlTokenizer.rcdataState]
  · cases k
    · refine amp_reach tree m t rest h .attributeValueUnquoted (by rw [hs]; rfl) (by rw [hs]; rfl) ?_
      intro t0 h0
      rw [hs] at h0
      simp [sstep, H5V.Spec.HtmlTokenizer.step, h0, stOf, H5V.Spec.HtmlTokenizer.attributeValueUnquotedState]
    · refine amp_reach tree m t rest h .attributeValueSingleQuoted (by rw [hs]; rfl) (by rw [hs]; rfl) ?_
      intro t0 h0
      rw [hs] at h0
      simp [sstep, H5V.Spec.HtmlTokenizer.step, h0, stOf, H5V.Spec.HtmlTokenizer.attributeValueSingleQuotedState]
    · refine amp_reach tree m t rest h .attributeValueDoubleQuoted (by rw [hs]; rfl) (by rw [hs]; rfl) ?_
      intro t0 h0
      rw [hs] at h0
      simp [sstep, H5V.Spec.HtmlTokenizer.step, h0, stOf, H5V.Spec.HtmlTokenizer.attributeValueDoubleQuotedState]

/-! ## all set states -/

/-- `transSet` on a character delivered as `FromSet` -/
theorem set_from (o : Opts) (ho : o.exactErrors = false) (pol : Pol) (tree : Tree) (hpt : PolTree pol tree)
    (m : Mach) (t : Tok) (c : Char) (rest : Str) (h : RegCore m t) (hr : m.reconsume = false)
    (hrk : readKind m.state = .popExcept ∨ readKind m.state = .dataSimd) :
    TabOkG tree t c rest (transSet o pol m (.fromSet c)) := by
  by_cases hamp : c = '&'
  · subst hamp
    cases hs : m.state with
    | data => exact amp_tab o pol tree m t rest h hr (Or.inl hs)
    | plaintext => exact (set_plaintext o ho pol tree m t '&' rest h hr hs).toG
    | rawData k =>
      rcases k with _ | _ | _ | (_ | _)
      · exact amp_tab o pol tree m t rest h hr (Or.inr (Or.inl hs))
      · exact (set_rawtext o ho pol tree m t '&' rest h hr hs).toG
      · exact (set_scriptData o ho pol tree m t '&' rest h hr hs).toG
      · exact (set_scriptDataEscaped o ho pol tree m t '&' rest h hr hs).toG
      · exact (set_scriptDataDoubleEscaped o ho pol tree m t '&' rest h hr hs).toG
    | attributeValue k => exact amp_tab o pol tree m t rest h hr (Or.inr (Or.inr ⟨k, hs⟩))
    | _ => rw [hs] at hrk; simp [readKind] at hrk
  · cases hs : m.state with
    | data => exact (set_data o ho pol tree m t c rest h hr hs hamp).toG
    | plaintext => exact (set_plaintext o ho pol tree m t c rest h hr hs).toG
    | rawData k =>
      rcases k with _ | _ | _ | (_ | _)
      · exact (set_rcdata o ho pol tree m t c rest h hr hs hamp).toG
      · exact (set_rawtext o ho pol tree m t c rest h hr hs).toG
      · exact (set_scriptData o ho pol tree m t c rest h hr hs).toG
      · exact (set_scriptDataEscaped o ho pol tree m t c rest h hr hs).toG
      · exact (set_scriptDataDoubleEscaped o ho pol tree m t c rest h hr hs).toG
    | attributeValue k =>
      cases k
      · exact (set_attrUq o ho pol tree hpt m t c rest h hr hs hamp).toG
      · exact (set_attrSq o ho pol tree m t c rest h hr hs hamp).toG
      · exact (set_attrDq o ho pol tree m t c rest h hr hs hamp).toG
    | _ => rw [hs] at hrk; simp [readKind] at hrk

/-- `transSet` on a one-character run -/
theorem set_notFrom (o : Opts) (ho : o.exactErrors = false) (pol : Pol) (tree : Tree)
    (m : Mach) (t : Tok) (c : Char) (rest : Str) (h : RegCore m t) (hr : m.reconsume = false)
    (hrk : readKind m.state = .popExcept ∨ readKind m.state = .dataSimd) (hnot : c ∉ setOf m.state) :
    TabOk tree t c rest (transSet o pol m (.notFromSet [c])) := by
  cases hs : m.state with
  | data => exact nset_data o ho pol tree m t c rest h hr hs hnot
  | plaintext => exact nset_plaintext o ho pol tree m t c rest h hr hs hnot
  | rawData k =>
    rcases k with _ | _ | _ | (_ | _)
    · exact nset_rcdata o ho pol tree m t c rest h hr hs hnot
    · exact nset_rawtext o ho pol tree m t c rest h hr hs hnot
    · exact nset_scriptData o ho pol tree m t c rest h hr hs hnot
    · exact nset_scriptDataEscaped o ho pol tree m t c rest h hr hs hnot
    · exact nset_scriptDataDoubleEscaped o ho pol tree m t c rest h hr hs hnot
  | attributeValue k =>
    cases k
    · exact nset_attrUq o ho pol tree m t c rest h hr hs hnot
    · exact nset_attrSq o ho pol tree m t c rest h hr hs hnot
    · exact nset_attrDq o ho pol tree m t c rest h hr hs hnot
  | _ => rw [hs] at hrk; simp [readKind] at hrk

/-! ## from the table to the step -/

/-- a table result after a read: the step is a Continue and the whole relation holds again -/
theorem finish_tab (o : Opts) (pol : Pol) (tree : Tree) (m : Mach) (inp : Str) (t : Tok) (rest : Str)
    (ht : TInv m) (m1 : Mach) (inp1 : Str) (c : Char) (hro : ReadOk m rest c m1 inp1)
    (res : Mach × Sig) (hil : res.1.ignoreLf = m1.ignoreLf) (hcc : res.1.currentChar = m1.currentChar)
    (hstash : stash res.1 = []) (htab : TabOkG tree t c (normalizeNewlinesFrom m1.ignoreLf inp1) res)
    (hstep : step o pol m inp = ofSig res inp1) : StepOk tree t rest (step o pol m inp) := by
  obtain ⟨hsig, hreach⟩ := htab
  have hres : ofSig res inp1 = .cont res.1 inp1 := by unfold ofSig; rw [hsig]
  have htinv : TInv res.1 := step_tinv o pol m inp ht res.1 inp1 (by rw [hstep, hres]; rfl)
  rw [hstep, hres, stepOk_cont, hro.rest_eq]
  refine hreach.mono fun t' rest' hp => ?_
  obtain ⟨hr', hg⟩ := hp
  refine (RelCore.ofG hg ?_ htinv).toRel
  unfold InpRel
  rw [hstash, List.nil_append, hil, hr']
  have hc1 : m1.currentChar = c := by rw [hro.upd]; rfl
  unfold rc
  split <;> simp [hcc, hc1]

theorem stash_nil_of_state {m : Mach} (hcr : m.charRef = none)
    (h : m.state ≠ .markupDeclarationOpen ∧ m.state ≠ .afterDoctypeName) : stash m = [] :=
  stash_nil_of hcr (fun hs => by rcases hs with hs | hs; exact absurd hs h.1; exact absurd hs h.2)

/-- **step lemma, bulk-read states** -/
theorem step_set_sim (o : Opts) (ho : o.exactErrors = false) (pol : Pol) (tree : Tree) (hpt : PolTree pol tree)
    (m : Mach) (inp : Str) (t : Tok) (rest : Str) (h : RelCore m inp t rest) (hcr : m.charRef = none)
    (hrk : readKind m.state = .popExcept ∨ readKind m.state = .dataSimd) :
    StepOk tree t rest (step o pol m inp) := by
  have hne : m.state ≠ .markupDeclarationOpen ∧ m.state ≠ .afterDoctypeName := by
    constructor <;> (intro hs; rw [hs] at hrk; simp [readKind] at hrk)
  have hst := stash_nil_of_state hcr hne
  have hreg := h.regCore hcr
  -- the two kinds of read, uniformly
  have key : ∀ (rd : Option SetRes × Mach × Str), step o pol m inp = contSet o pol rd →
      (∀ r m1 inp1, rd = (some r, m1, inp1) → SetReadOk (setOf m.state) m inp rest r m1 inp1) →
      (∀ m1 inp1, rd = (none, m1, inp1) → rest = [] ∧ inp1 = [] ∧ m1.reconsume = false ∧ stash m1 = [] ∧
        InpRel m1 inp1 rest ∧ ∃ il, m1 = readerUpd m il false m.line m.currentChar) →
      StepOk tree t rest (step o pol m inp) := by
    intro rd hstep hsome hnone
    obtain ⟨ores, m1, inp1⟩ := rd
    cases ores with
    | none =>
      obtain ⟨_, _, _, _, hin1, il, hm1⟩ := hnone m1 inp1 rfl
      have hs' : step o pol m inp = .suspend m1 inp1 := by rw [hstep]; rfl
      have htinv : TInv m1 := step_tinv o pol m inp h.tinv m1 inp1 (by rw [hs']; rfl)
      rw [hs', stepOk_suspend]
      refine (RelCore.ofRegCore ?_ hin1 htinv).toRel
      rw [hm1]; exact hreg.readerUpd _ _ _ _
    | some r =>
      have hs' : step o pol m inp = ofSig (transSet o pol m1 r) inp1 := by rw [hstep]; rfl
      rcases hsome r m1 inp1 rfl with ⟨c, hr, hro⟩ | ⟨c, hr, hnot, hrec, hil, hm1, hinp, hrest⟩
      · subst hr
        have hm1 := hro.upd
        have hreg1 : RegCore m1 t := by rw [hm1]; exact hreg.readerUpd _ _ _ _
        have hrec1 : m1.reconsume = false := by rw [hm1]; rfl
        have hst1 : m1.state = m.state := by rw [hm1]; rfl
        have hcr1 : m1.charRef = none := by rw [hm1]; exact hcr
        have htb1 : m1.tempBuf = m.tempBuf := by rw [hm1]; rfl
        have hrk1 : readKind m1.state = .popExcept ∨ readKind m1.state = .dataSimd := by rw [hst1]; exact hrk
        have htab := set_from o ho pol tree hpt m1 t c (normalizeNewlinesFrom m1.ignoreLf inp1) hreg1 hrec1 hrk1
        refine finish_tab o pol tree m inp t rest h.tinv m1 inp1 c hro _ (transSet_ignoreLf o pol m1 _)
          (transSet_currentChar o pol m1 _) ?_ htab hs'
        -- the stash of the new machine is empty
        have hne' := transSet_not_eat o pol m1 (.fromSet c) (by rw [hst1]; exact hne)
        rcases (transSet_charRef o pol m1 (.fromSet c) hcr1 hrk1).2 with hc | ⟨hc, _, _⟩
        · exact stash_nil_of_state hc hne'
        · unfold stash; rw [hc]; rfl
      · subst hr
        rw [hm1] at hs'
        have htab := (set_notFrom o ho pol tree m t c (normalizeNewlinesFrom false inp1) hreg hrec hrk hnot).toG
        obtain ⟨hsig, hreach⟩ := htab
        have hres : ofSig (transSet o pol m (.notFromSet [c])) inp1 =
            .cont (transSet o pol m (.notFromSet [c])).1 inp1 := by unfold ofSig; rw [hsig]
        have htinv : TInv (transSet o pol m (.notFromSet [c])).1 :=
          step_tinv o pol m inp h.tinv _ inp1 (by rw [hs', hres]; rfl)
        rw [hs', hres, stepOk_cont, hrest]
        refine hreach.mono fun t' rest' hp => ?_
        obtain ⟨hr', hg⟩ := hp
        refine (RelCore.ofG hg ?_ htinv).toRel
        have hne' := transSet_not_eat o pol m (.notFromSet [c]) hne
        have hstash' : stash (transSet o pol m (.notFromSet [c])).1 = [] := by
          rcases (transSet_charRef o pol m (.notFromSet [c]) hcr hrk).2 with hc | ⟨hc, _, _⟩
          · exact stash_nil_of_state hc hne'
          · unfold stash; rw [hc]; rfl
        unfold InpRel
        rw [hstash', List.nil_append, transSet_ignoreLf, hil, hr']
        have : (transSet o pol m (.notFromSet [c])).1.reconsume = false := by
          rw [transSet_reconsume]; exact hrec
        simp [rc, this]
  rcases hrk with hk | hk
  · refine key _ (step_popExcept o pol m inp hcr hk) ?_ ?_
    · intro r m1 inp1 hrd
      have hS : '\r' ∈ setOf m.state ∧ '\n' ∈ setOf m.state := by
        have := setOf_crlf m.state (Or.inl hk); simpa using this
      exact popExceptFrom_rel o ho _ hS m inp r m1 inp1 hrd hst rest h.inp
    · intro m1 inp1 hrd
      exact popExceptFrom_none_rel o _ m inp m1 inp1 hrd hst rest h.inp
  · have hsd : m.state = .data := by
      cases hs : m.state <;> rw [hs] at hk <;> simp [readKind] at hk
    refine key _ (step_dataSimd o pol m inp hcr hk) ?_ ?_
    · intro r m1 inp1 hrd
      rw [hsd]
      exact readData_rel o ho m inp r m1 inp1 hrd hst rest h.inp
    · intro m1 inp1 hrd
      exact readData_none_rel o m inp m1 inp1 hrd hst rest h.inp

end H5V.Lemmas.HtmlTokSpec
