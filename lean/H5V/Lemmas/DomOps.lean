import H5V.Lemmas.DomWF
/-!
Effect lemmas: what each operation of `H5V.Model.Dom` (the model of rcdom's TreeSink impl) does to
the observations `parentOf` / `childrenOf` / `dataOf` / `size`, and preservation of `WF`.
-/
namespace H5V.Lemmas.Dom
open H5V.Model.Dom

/-- the observations of two arenas that an operation does not touch -/
structure SameShape (d d' : Dom) : Prop where
  parent : ∀ x, d'.parentOf x = d.parentOf x
  children : ∀ x, d'.childrenOf x = d.childrenOf x

theorem anc_mono {d d' : Dom} (hp : ∀ x q, d'.parentOf x = some q → d.parentOf x = some q) {a x : Id} :
    Anc d' a x → Anc d a x := by
  intro h
  induction h with
  | refl => exact Anc.refl
  | step hpar _ ih => exact Anc.step (hp _ _ hpar) ih

theorem anc_eq_of_no_children {d : Dom} (hw : WF d) {a x : Id} (ha : d.childrenOf a = [])
    (h : Anc d a x) : a = x := by
  induction h with
  | refl => rfl
  | @step x p hpar _ ih =>
    subst ih
    have := (hw.links x a).mp hpar
    rw [ha] at this; cases this

/-! ### `fn append` -/

theorem appendRaw_ok {d d' : Dom} {p c : Id} (h : d.appendRaw p c = .ok d') (hne : p ≠ c) :
    ∃ cn pn, d.node? c = some cn ∧ cn.parent = none ∧ d.node? p = some pn ∧
      (∀ x, d'.parentOf x = if x = c then some p else d.parentOf x) ∧
      (∀ x, d'.childrenOf x = if x = p then d.childrenOf p ++ [c] else d.childrenOf x) ∧
      (∀ x, d'.dataOf x = d.dataOf x) ∧ d'.size = d.size ∧ d'.quirks = d.quirks := by
  unfold Dom.appendRaw at h
  simp only [bind, Except.bind] at h
  cases hc : d.get c with
  | error e => simp [hc] at h
  | ok cn =>
    have hcn := get_ok.mp hc
    simp only [hc] at h
    by_cases hpar : cn.parent.isSome = true
    · simp [hpar, throw, throwThe, MonadExceptOf.throw] at h
    · simp only [hpar] at h
      have hnone : cn.parent = none := by
        cases hq : cn.parent with
        | none => rfl
        | some q => simp [hq] at hpar
      cases hp : (d.setNode c { data := cn.data, parent := some p, children := cn.children }).get p with
      | error e => simp [hp] at h
      | ok pn =>
        simp [hp] at h
        have hpn := get_ok.mp hp
        have hpn0 : d.node? p = some pn := by
          rw [node?_setNode_of hcn] at hpn; simpa [hne] using hpn
        refine ⟨cn, pn, hcn, hnone, hpn0, ?_, ?_, ?_, ?_, ?_⟩
        · intro x; subst h
          rw [parentOf_setNode hpn, parentOf_setNode hcn]
          by_cases hxp : x = p
          · subst hxp; simp [hne, parentOf_of_node hpn0]
          · simp [hxp]
        · intro x; subst h
          rw [childrenOf_setNode hpn, childrenOf_setNode hcn]
          by_cases hxp : x = p
          · subst hxp; simp [childrenOf_of_node hpn0]
          · simp [hxp]
            intro hxc; subst hxc; simp [childrenOf_of_node hcn]
        · intro x; subst h
          rw [dataOf_setNode hpn, dataOf_setNode hcn]
          by_cases hxp : x = p
          · subst hxp; simp [dataOf_of_node hpn0]
          · simp [hxp]
            intro hxc; subst hxc; simp [dataOf_of_node hcn]
        · subst h; simp
        · subst h; simp

theorem WF.appendRaw {d d' : Dom} (hw : WF d) {p c : Id} (hanc : ¬ Anc d c p)
    (h : d.appendRaw p c = .ok d') : WF d' := by
  have hne : p ≠ c := fun e => hanc (e ▸ Anc.refl)
  obtain ⟨cn, pn, hcn, hnone, _, hp, hch, _, _, _⟩ := appendRaw_ok h hne
  have hc0 : d.parentOf c = none := by rw [parentOf_of_node hcn, hnone]
  have hnotin : c ∉ d.childrenOf p := fun hm => by
    have := (hw.links c p).mpr hm; rw [hc0] at this; cases this
  refine hw.attach hc0 hanc (l' := d.childrenOf p ++ [c]) ?_ ?_ hp hch
  · intro y; simp [or_comm]
  · refine List.nodup_append.mpr ⟨hw.nodup p, by simp, ?_⟩
    intro a ha b hb e
    simp at hb; subst hb; subst e; exact hnotin ha

/-! ### `fn get_parent_and_index`, `fn remove_from_parent` -/

theorem getParentAndIndex_ok {d : Dom} {t : Id} {r : Option (Id × Nat)} (h : d.getParentAndIndex t = .ok r) :
    (r = none ∧ d.parentOf t = none ∧ t < d.size) ∨
    (∃ p i, r = some (p, i) ∧ d.parentOf t = some p ∧ indexOf? t (d.childrenOf p) = some i ∧ p < d.size) := by
  unfold Dom.getParentAndIndex at h
  simp only [bind, Except.bind] at h
  cases ht : d.get t with
  | error e => simp [ht] at h
  | ok tn =>
    have htn := get_ok.mp ht
    simp only [ht] at h
    cases hpar : tn.parent with
    | none =>
      simp [hpar] at h
      exact Or.inl ⟨h.symm, by rw [parentOf_of_node htn, hpar], node?_lt htn⟩
    | some p =>
      simp only [hpar] at h
      cases hp : d.get p with
      | error e => simp [hp] at h
      | ok pn =>
        have hpn := get_ok.mp hp
        simp only [hp] at h
        cases hi : indexOf? t pn.children with
        | none => simp [hi, throw, throwThe, MonadExceptOf.throw] at h
        | some i =>
          simp [hi] at h
          refine Or.inr ⟨p, i, h.symm, by rw [parentOf_of_node htn, hpar], ?_, node?_lt hpn⟩
          rw [childrenOf_of_node hpn]; exact hi

theorem removeFromParent_ok {d d' : Dom} {t : Id} (h : d.removeFromParent t = .ok d') :
    (d.parentOf t = none ∧ d' = d) ∨
    (∃ p i, d.parentOf t = some p ∧ indexOf? t (d.childrenOf p) = some i ∧
      (∀ x, d'.parentOf x = if x = t then none else d.parentOf x) ∧
      (∀ x, d'.childrenOf x = if x = p then removeAt (d.childrenOf p) i else d.childrenOf x) ∧
      (∀ x, d'.dataOf x = d.dataOf x) ∧ d'.size = d.size ∧ d'.quirks = d.quirks) := by
  unfold Dom.removeFromParent at h
  simp only [bind, Except.bind] at h
  cases hg : d.getParentAndIndex t with
  | error e => simp [hg] at h
  | ok r =>
    simp only [hg] at h
    rcases getParentAndIndex_ok hg with ⟨hr, hpar, _⟩ | ⟨p, i, hr, hpar, hi, hplt⟩
    · subst hr; simp at h; exact Or.inl ⟨hpar, h.symm⟩
    · subst hr
      simp only at h
      obtain ⟨pn, hpn⟩ := node?_of_lt hplt
      rw [get_ok_of hpn] at h
      simp only at h
      have htlt : t < d.size := child_lt_size hpar
      obtain ⟨tn0, htn0⟩ := node?_of_lt htlt
      cases ht : (d.setNode p { data := pn.data, parent := pn.parent, children := removeAt pn.children i }).get t with
      | error e => simp [ht] at h
      | ok tn =>
        have htn := get_ok.mp ht
        simp [ht] at h
        refine Or.inr ⟨p, i, hpar, hi, ?_, ?_, ?_, ?_, ?_⟩
        · intro x; subst h
          rw [parentOf_setNode htn, parentOf_setNode hpn]
          by_cases hxt : x = t
          · simp [hxt]
          · simp [hxt]; intro hxp; subst hxp; simp [parentOf_of_node hpn]
        · intro x; subst h
          rw [childrenOf_setNode htn, childrenOf_setNode hpn]
          by_cases hxt : x = t
          · subst hxt
            simp only [if_true]
            rw [node?_setNode_of hpn] at htn
            by_cases hxp : x = p
            · subst hxp; simp at htn; subst htn; simp [childrenOf_of_node hpn]
            · simp [hxp] at htn; simp [hxp, childrenOf_of_node htn]
          · simp [hxt, childrenOf_of_node hpn]
        · intro x; subst h
          rw [dataOf_setNode htn, dataOf_setNode hpn]
          by_cases hxt : x = t
          · subst hxt
            simp only [if_true]
            rw [node?_setNode_of hpn] at htn
            by_cases hxp : x = p
            · subst hxp; simp at htn; subst htn; simp [dataOf_of_node hpn]
            · simp [hxp] at htn; simp [dataOf_of_node htn]
          · simp [hxt]; intro hxp; subst hxp; simp [dataOf_of_node hpn]
        · subst h; simp
        · subst h; simp

theorem WF.removeFromParent {d d' : Dom} (hw : WF d) {t : Id} (h : d.removeFromParent t = .ok d') : WF d' := by
  rcases removeFromParent_ok h with ⟨_, he⟩ | ⟨p, i, hpar, hi, hp, hch, _, _, _⟩
  · subst he; exact hw
  · obtain ⟨hsplit, _, _⟩ := indexOf?_some hi
    exact hw.detach (c := t) (p := p) (l' := removeAt (d.childrenOf p) i)
      (fun y => mem_removeAt_of_split hsplit) (not_mem_removeAt (hw.nodup p) hsplit)
      (nodup_removeAt (hw.nodup p) i) hp hch

/-! ### the tail of `append_before_sibling` -/

theorem insertAtIndex_ok {d d' : Dom} {P c : Id} {i : Nat} (h : d.insertAtIndex P i c = .ok d') :
    ∃ d1, d.removeFromParent c = .ok d1 ∧ i ≤ (d1.childrenOf P).length ∧ c < d1.size ∧ P < d1.size ∧
      (∀ x, d'.parentOf x = if x = c then some P else d1.parentOf x) ∧
      (∀ x, d'.childrenOf x = if x = P then insertAt (d1.childrenOf P) i c else d1.childrenOf x) ∧
      (∀ x, d'.dataOf x = d1.dataOf x) ∧ d'.size = d1.size ∧ d'.quirks = d1.quirks := by
  unfold Dom.insertAtIndex at h
  simp only [bind, Except.bind] at h
  cases hr : d.removeFromParent c with
  | error e => simp [hr] at h
  | ok d1 =>
    simp only [hr] at h
    cases hc : d1.get c with
    | error e => simp [hc] at h
    | ok cn =>
      have hcn := get_ok.mp hc
      simp only [hc] at h
      cases hp : (d1.setNode c { data := cn.data, parent := some P, children := cn.children }).get P with
      | error e => simp [hp] at h
      | ok pn =>
        have hpn := get_ok.mp hp
        simp only [hp] at h
        have hpn' := hpn
        rw [node?_setNode_of hcn] at hpn'
        by_cases hlen : i > pn.children.length
        · simp [hlen, throw, throwThe, MonadExceptOf.throw] at h
        · simp [hlen] at h
          have hPch : d1.childrenOf P = pn.children := by
            by_cases hPc : P = c
            · subst hPc; simp at hpn'; subst hpn'; simp [childrenOf_of_node hcn]
            · simp [hPc] at hpn'; simp [childrenOf_of_node hpn']
          have hPlt : P < d1.size := by
            have := node?_lt hpn; simpa using this
          refine ⟨d1, rfl, by rw [hPch]; omega, node?_lt hcn, hPlt, ?_, ?_, ?_, ?_, ?_⟩
          · intro x; subst h
            rw [parentOf_setNode hpn, parentOf_setNode hcn]
            by_cases hxP : x = P
            · subst hxP
              simp only [if_true]
              by_cases hxc : x = c
              · subst hxc; simp at hpn'; subst hpn'; simp
              · simp [hxc] at hpn'; simp [hxc, parentOf_of_node hpn']
            · simp [hxP]
          · intro x; subst h
            rw [childrenOf_setNode hpn, childrenOf_setNode hcn, hPch]
            by_cases hxP : x = P
            · simp [hxP]
            · simp [hxP]; intro hxc; subst hxc; simp [childrenOf_of_node hcn]
          · intro x; subst h
            rw [dataOf_setNode hpn, dataOf_setNode hcn]
            by_cases hxP : x = P
            · subst hxP
              simp only [if_true]
              by_cases hxc : x = c
              · subst hxc; simp at hpn'; subst hpn'; simp [dataOf_of_node hcn]
              · simp [hxc] at hpn'; simp [dataOf_of_node hpn']
            · simp [hxP]; intro hxc; subst hxc; simp [dataOf_of_node hcn]
          · subst h; simp
          · subst h; simp

theorem removeFromParent_parent_none {d d' : Dom} {t : Id} (h : d.removeFromParent t = .ok d') :
    d'.parentOf t = none := by
  rcases removeFromParent_ok h with ⟨h0, he⟩ | ⟨p, i, _, _, hp, _⟩
  · subst he; exact h0
  · rw [hp]; simp

theorem removeFromParent_parent_sub {d d' : Dom} {t : Id} (h : d.removeFromParent t = .ok d') :
    ∀ x q, d'.parentOf x = some q → d.parentOf x = some q := by
  rcases removeFromParent_ok h with ⟨h0, he⟩ | ⟨p, i, _, _, hp, _⟩
  · subst he; exact fun _ _ h => h
  · intro x q hx; rw [hp] at hx
    by_cases hxt : x = t
    · simp [hxt] at hx
    · simpa [hxt] using hx

theorem removeFromParent_size {d d' : Dom} {t : Id} (h : d.removeFromParent t = .ok d') : d'.size = d.size := by
  rcases removeFromParent_ok h with ⟨h0, he⟩ | ⟨p, i, _, _, _, _, _, hs, _⟩
  · subst he; rfl
  · exact hs

theorem WF.insertAtIndex {d d' : Dom} (hw : WF d) {P c : Id} {i : Nat} (hanc : ¬ Anc d c P)
    (h : d.insertAtIndex P i c = .ok d') : WF d' := by
  obtain ⟨d1, hr, _, _, _, hp, hch, _, _, _⟩ := insertAtIndex_ok h
  have hw1 := hw.removeFromParent hr
  have hc0 := removeFromParent_parent_none hr
  have hanc1 : ¬ Anc d1 c P := fun ha => hanc (anc_mono (removeFromParent_parent_sub hr) ha)
  have hnotin : c ∉ d1.childrenOf P := fun hm => by
    have := (hw1.links c P).mpr hm; rw [hc0] at this; cases this
  exact hw1.attach hc0 hanc1 (l' := insertAt (d1.childrenOf P) i c) (fun y => mem_insertAt)
    (nodup_insertAt (hw1.nodup P) hnotin) hp hch

/-! ### allocation followed by attachment -/

theorem WF.alloc {d : Dom} (hw : WF d) (data : NodeData) : WF (d.alloc data).1 :=
  hw.congr (parentOf_alloc d data) (childrenOf_alloc d data)

theorem not_anc_fresh {d : Dom} (hw : WF d) (data : NodeData) {p : Id} (hp : p < d.size) :
    ¬ Anc (d.alloc data).1 d.size p := by
  intro ha
  have := anc_eq_of_no_children (hw.alloc data) (by rw [childrenOf_alloc]; exact childrenOf_nil_of_ge (Nat.le_refl _)) ha
  exact Nat.lt_irrefl _ (this ▸ hp)

theorem allocAppend_ok {d d' : Dom} {data : NodeData} {p : Id} (hp : p < d.size)
    (h : (d.alloc data).1.appendRaw p d.size = .ok d') :
    (∀ x, d'.parentOf x = if x = d.size then some p else d.parentOf x) ∧
    (∀ x, d'.childrenOf x = if x = p then d.childrenOf p ++ [d.size] else d.childrenOf x) ∧
    (∀ x, d'.dataOf x = if x = d.size then some data else d.dataOf x) ∧ d'.size = d.size + 1 ∧
    d'.quirks = d.quirks := by
  obtain ⟨_, _, _, _, _, h1, h2, h3, h4, h5⟩ := appendRaw_ok h (Nat.ne_of_lt hp)
  refine ⟨?_, ?_, ?_, ?_, ?_⟩
  · intro x; rw [h1, parentOf_alloc]
  · intro x; rw [h2, childrenOf_alloc, childrenOf_alloc]
  · intro x; rw [h3, dataOf_alloc]
  · rw [h4]; simp
  · rw [h5]; rfl

theorem WF.allocAppend {d d' : Dom} (hw : WF d) {data : NodeData} {p : Id} (hp : p < d.size)
    (h : (d.alloc data).1.appendRaw p d.size = .ok d') : WF d' :=
  (hw.alloc data).appendRaw (not_anc_fresh hw data hp) h

/-! ### `append` -/

theorem append_node_eq (d : Dom) (p c : Id) : d.append p (.node c) = d.appendRaw p c := by
  simp [Dom.append]

theorem append_text_ok {d d' : Dom} {p : Id} {s : Str} (h : d.append p (.text s) = .ok d') :
    p < d.size ∧
    ((∃ hl old, (d.childrenOf p).getLast? = some hl ∧ d.dataOf hl = some (.text old) ∧
        SameShape d d' ∧ (∀ x, d'.dataOf x = if x = hl then some (.text (old ++ s)) else d.dataOf x) ∧
        d'.size = d.size) ∨
     ((∀ hl, (d.childrenOf p).getLast? = some hl → d.isText hl = false) ∧
        (d.alloc (.text s)).1.appendRaw p d.size = .ok d')) := by
  unfold Dom.append at h
  simp only [bind, Except.bind] at h
  cases hp : d.get p with
  | error e => simp [hp] at h
  | ok pn =>
    have hpn := get_ok.mp hp
    refine ⟨node?_lt hpn, ?_⟩
    simp only [hp] at h
    rw [childrenOf_of_node hpn]
    cases hlast : pn.children.getLast? with
    | none =>
      simp only [hlast] at h
      exact Or.inr ⟨(by intro hl hh; cases hh), h⟩
    | some hl =>
      simp only [hlast] at h
      cases hg : d.get hl with
      | error e => simp [hg] at h
      | ok hn =>
        have hhn := get_ok.mp hg
        simp only [hg] at h
        cases hdata : hn.data with
        | text old =>
          simp [hdata] at h
          refine Or.inl ⟨hl, old, rfl, by rw [dataOf_of_node hhn, hdata], ⟨?_, ?_⟩, ?_, ?_⟩
          · intro x; subst h; rw [parentOf_setNode hhn]
            by_cases hx : x = hl
            · subst hx; simp [parentOf_of_node hhn]
            · simp [hx]
          · intro x; subst h; rw [childrenOf_setNode hhn]
            by_cases hx : x = hl
            · subst hx; simp [childrenOf_of_node hhn]
            · simp [hx]
          · intro x; subst h; rw [dataOf_setNode hhn]
          · subst h; simp
        | document | doctype _ _ _ | comment _ | element _ _ _ _ | pi _ _ =>
          simp only [hdata] at h
          refine Or.inr ⟨?_, h⟩
          intro hl' hh; cases hh
          simp [Dom.isText, dataOf_of_node hhn, hdata]

theorem WF.append_text {d d' : Dom} (hw : WF d) {p : Id} {s : Str} (h : d.append p (.text s) = .ok d') :
    WF d' := by
  obtain ⟨hp, h1 | h2⟩ := append_text_ok h
  · obtain ⟨_, _, _, _, hs, _, _⟩ := h1
    exact hw.congr hs.parent hs.children
  · exact hw.allocAppend hp h2.2

/-! ### `append_before_sibling` -/

/-- what `append_before_sibling(sibling, text)` does once the parent `P` and index `i` are known -/
def BeforeSiblingText (d d' : Dom) (P : Id) (i : Nat) (s : Str) : Prop :=
  (∃ prev old, 0 < i ∧ (d.childrenOf P)[i - 1]? = some prev ∧ d.dataOf prev = some (.text old) ∧
      SameShape d d' ∧ (∀ x, d'.dataOf x = if x = prev then some (.text (old ++ s)) else d.dataOf x) ∧
      d'.size = d.size) ∨
  ((i = 0 ∨ ∃ prev, (d.childrenOf P)[i - 1]? = some prev ∧ d.isText prev = false) ∧
      (d.alloc (.text s)).1.insertAtIndex P i d.size = .ok d')

theorem appendBeforeSibling_ok {d d' : Dom} {sib : Id} {child : NodeOrText}
    (h : d.appendBeforeSibling sib child = .ok d') :
    ∃ P i, d.parentOf sib = some P ∧ indexOf? sib (d.childrenOf P) = some i ∧ P < d.size ∧
      match child with
      | .node c => d.insertAtIndex P i c = .ok d'
      | .text s => BeforeSiblingText d d' P i s := by
  unfold Dom.appendBeforeSibling at h
  simp only [bind, Except.bind] at h
  cases hg : d.getParentAndIndex sib with
  | error e => simp [hg] at h
  | ok r =>
    simp only [hg] at h
    rcases getParentAndIndex_ok hg with ⟨hr, _, _⟩ | ⟨P, i, hr, hpar, hi, hPlt⟩
    · subst hr; simp [throw, throwThe, MonadExceptOf.throw] at h
    · subst hr
      simp only at h
      refine ⟨P, i, hpar, hi, hPlt, ?_⟩
      cases child with
      | node c => simpa using h
      | text s =>
        simp only at h
        unfold BeforeSiblingText
        by_cases hi0 : i = 0
        · simp only [hi0, if_true] at h
          exact Or.inr ⟨Or.inl hi0, by rw [hi0]; exact h⟩
        · simp only [hi0, if_false] at h
          obtain ⟨pn, hpn⟩ := node?_of_lt hPlt
          rw [get_ok_of hpn] at h
          simp only at h
          rw [childrenOf_of_node hpn]
          cases hprev : pn.children[i - 1]? with
          | none => simp [hprev, throw, throwThe, MonadExceptOf.throw] at h
          | some prev =>
            simp only [hprev] at h
            cases hg2 : d.get prev with
            | error e => simp [hg2] at h
            | ok prevn =>
              have hprevn := get_ok.mp hg2
              simp only [hg2] at h
              cases hdata : prevn.data with
              | text old =>
                simp [hdata] at h
                refine Or.inl ⟨prev, old, Nat.pos_of_ne_zero hi0, rfl, by rw [dataOf_of_node hprevn, hdata],
                  ⟨?_, ?_⟩, ?_, ?_⟩
                · intro x; subst h; rw [parentOf_setNode hprevn]
                  by_cases hx : x = prev
                  · subst hx; simp [parentOf_of_node hprevn]
                  · simp [hx]
                · intro x; subst h; rw [childrenOf_setNode hprevn]
                  by_cases hx : x = prev
                  · subst hx; simp [childrenOf_of_node hprevn]
                  · simp [hx]
                · intro x; subst h; rw [dataOf_setNode hprevn]
                · subst h; simp
              | document | doctype _ _ _ | comment _ | element _ _ _ _ | pi _ _ =>
                simp only [hdata] at h
                refine Or.inr ⟨Or.inr ⟨prev, rfl, ?_⟩, h⟩
                simp [Dom.isText, dataOf_of_node hprevn, hdata]

theorem insertAtIndex_fresh_ok {d d' : Dom} {data : NodeData} {P : Id} {i : Nat}
    (h : (d.alloc data).1.insertAtIndex P i d.size = .ok d') :
    i ≤ (d.childrenOf P).length ∧
    (∀ x, d'.parentOf x = if x = d.size then some P else d.parentOf x) ∧
    (∀ x, d'.childrenOf x = if x = P then insertAt (d.childrenOf P) i d.size else d.childrenOf x) ∧
    (∀ x, d'.dataOf x = if x = d.size then some data else d.dataOf x) ∧ d'.size = d.size + 1 ∧
    d'.quirks = d.quirks := by
  obtain ⟨d1, hr, hlen, _, _, h1, h2, h3, h4, h5⟩ := insertAtIndex_ok h
  have hpn : (d.alloc data).1.parentOf d.size = none := by
    rw [parentOf_alloc]; exact parentOf_none_of_ge (Nat.le_refl _)
  rcases removeFromParent_ok hr with ⟨_, he⟩ | ⟨p, _, hpar, _⟩
  · subst he
    refine ⟨by rw [childrenOf_alloc] at hlen; exact hlen, ?_, ?_, ?_, ?_, ?_⟩
    · intro x; rw [h1, parentOf_alloc]
    · intro x; rw [h2, childrenOf_alloc, childrenOf_alloc]
    · intro x; rw [h3, dataOf_alloc]
    · rw [h4]; simp
    · rw [h5]; rfl
  · rw [hpn] at hpar; cases hpar

theorem WF.appendBeforeSibling_text {d d' : Dom} (hw : WF d) {P : Id} {i : Nat} {s : Str} (hP : P < d.size)
    (h : BeforeSiblingText d d' P i s) : WF d' := by
  rcases h with ⟨_, _, _, _, _, hs, _, _⟩ | ⟨_, h2⟩
  · exact hw.congr hs.parent hs.children
  · exact (hw.alloc _).insertAtIndex (not_anc_fresh hw _ hP) h2

/-! ### `reparent_children` -/

theorem reparentLoop_ok {n np : Id} : ∀ (cs : List Id) {d d' : Dom}, Dom.reparentLoop d n np cs = .ok d' →
    (∀ x, d'.parentOf x = if x ∈ cs then some np else d.parentOf x) ∧
    (∀ x, d'.childrenOf x = d.childrenOf x) ∧ (∀ x, d'.dataOf x = d.dataOf x) ∧ d'.size = d.size ∧
    d'.quirks = d.quirks := by
  intro cs
  induction cs with
  | nil => intro d d' h; simp [Dom.reparentLoop] at h; subst h; simp
  | cons c cs ih =>
    intro d d' h
    unfold Dom.reparentLoop at h
    simp only [bind, Except.bind] at h
    cases hc : d.get c with
    | error e => simp [hc] at h
    | ok cn =>
      have hcn := get_ok.mp hc
      simp only [hc] at h
      cases hpar : cn.parent with
      | none => simp [hpar, throw, throwThe, MonadExceptOf.throw] at h
      | some pp =>
        simp only [hpar] at h
        by_cases hpp : pp ≠ n
        · simp [hpp, throw, throwThe, MonadExceptOf.throw] at h
        · simp only [hpp, if_false] at h
          obtain ⟨i2, i3, i4, i5, i6⟩ := ih h
          refine ⟨?_, ?_, ?_, ?_, ?_⟩
          · intro x; rw [i2, parentOf_setNode hcn]
            by_cases hx : x = c
            · subst hx; simp
            · simp [hx]
          · intro x; rw [i3, childrenOf_setNode hcn]
            by_cases hx : x = c
            · subst hx; simp [childrenOf_of_node hcn]
            · simp [hx]
          · intro x; rw [i4, dataOf_setNode hcn]
            by_cases hx : x = c
            · subst hx; simp [dataOf_of_node hcn]
            · simp [hx]
          · rw [i5]; simp
          · rw [i6]; rfl

theorem reparentChildren_ok {d d' : Dom} {n np : Id} (h : d.reparentChildren n np = .ok d') :
    n ≠ np ∧ n < d.size ∧ np < d.size ∧
    (∀ x, d'.parentOf x = if x ∈ d.childrenOf n then some np else d.parentOf x) ∧
    (∀ x, d'.childrenOf x =
      if x = n then [] else if x = np then d.childrenOf np ++ d.childrenOf n else d.childrenOf x) ∧
    (∀ x, d'.dataOf x = d.dataOf x) ∧ d'.size = d.size ∧ d'.quirks = d.quirks := by
  unfold Dom.reparentChildren at h
  simp only [bind, Except.bind] at h
  cases hn : d.get n with
  | error e => simp [hn] at h
  | ok nn =>
    have hnn := get_ok.mp hn
    simp only [hn] at h
    cases hnp : d.get np with
    | error e => simp [hnp] at h
    | ok npn =>
      have hnpn := get_ok.mp hnp
      simp only [hnp] at h
      by_cases hne : n = np
      · simp [hne, throw, throwThe, MonadExceptOf.throw] at h
      · simp only [hne, if_false] at h
        cases hl : Dom.reparentLoop d n np nn.children with
        | error e => simp [hl] at h
        | ok d1 =>
          simp only [hl] at h
          obtain ⟨l1, l2, l3, l4, l5⟩ := reparentLoop_ok _ hl
          have hn1lt : n < d1.size := by rw [l4]; exact node?_lt hnn
          have hnp1lt : np < d1.size := by rw [l4]; exact node?_lt hnpn
          obtain ⟨nn1, hnn1⟩ := node?_of_lt hn1lt
          obtain ⟨npn1, hnpn1⟩ := node?_of_lt hnp1lt
          rw [get_ok_of hnn1] at h; simp only at h
          rw [get_ok_of hnpn1] at h; simp only at h
          have hset : (d1.setNode np { data := npn1.data, parent := npn1.parent, children := npn1.children ++ nn1.children }).node? n = some nn1 := by
            rw [node?_setNode_of hnpn1]; simp [hne, hnn1]
          rw [get_ok_of hset] at h
          simp at h
          have hc_n : nn1.children = d.childrenOf n := by rw [← childrenOf_of_node hnn1, l2]
          have hc_np : npn1.children = d.childrenOf np := by rw [← childrenOf_of_node hnpn1, l2]
          refine ⟨hne, node?_lt hnn, node?_lt hnpn, ?_, ?_, ?_, ?_, ?_⟩
          · intro x; subst h
            rw [parentOf_setNode hset, parentOf_setNode hnpn1, l1, childrenOf_of_node hnn]
            by_cases hxn : x = n
            · subst hxn; simp
              rw [← parentOf_of_node hnn1, l1]
            · simp [hxn]
              by_cases hxp : x = np
              · subst hxp; simp
                rw [← parentOf_of_node hnpn1, l1]
              · simp [hxp]
          · intro x; subst h
            rw [childrenOf_setNode hset, childrenOf_setNode hnpn1, l2]
            by_cases hxn : x = n
            · simp [hxn]
            · simp [hxn]
              by_cases hxp : x = np
              · simp [hxp, hc_n, hc_np]
              · simp [hxp]
          · intro x; subst h
            rw [dataOf_setNode hset, dataOf_setNode hnpn1, l3]
            by_cases hxn : x = n
            · subst hxn; simp; rw [← dataOf_of_node hnn1, l3]
            · simp [hxn]
              intro hxp; subst hxp; rw [← dataOf_of_node hnpn1, l3]
          · subst h; simp [l4]
          · subst h; simp; exact l5

theorem WF.reparentChildren {d d' : Dom} (hw : WF d) {n np : Id} (hanc : ¬ Anc d n np)
    (h : d.reparentChildren n np = .ok d') : WF d' := by
  obtain ⟨_, _, _, hp, hch, _, _, _⟩ := reparentChildren_ok h
  exact hw.reparent hanc hp hch

/-! ### operations that only allocate or only touch node data -/

theorem createElement_shape (d : Dom) (name : QualName) (attrs : List Attr) (flags : ElementFlags) :
    SameShape d (d.createElement name attrs flags).1 := by
  unfold Dom.createElement
  split
  · constructor
    · intro x; simp only [parentOf_alloc]
    · intro x; simp only [childrenOf_alloc]
  · constructor
    · intro x; simp only [parentOf_alloc]
    · intro x; simp only [childrenOf_alloc]

theorem addAttrsIfMissing_ok {d d' : Dom} {t : Id} {attrs : List Attr} (h : d.addAttrsIfMissing t attrs = .ok d') :
    ∃ name existing tc ip, d.dataOf t = some (.element name existing tc ip) ∧ SameShape d d' ∧
      (∀ x, d'.dataOf x = if x = t then some (.element name (existing ++ Dom.missingAttrs existing attrs) tc ip)
        else d.dataOf x) ∧ d'.size = d.size := by
  unfold Dom.addAttrsIfMissing at h
  simp only [bind, Except.bind] at h
  cases ht : d.get t with
  | error e => simp [ht] at h
  | ok tn =>
    have htn := get_ok.mp ht
    simp only [ht] at h
    cases hdata : tn.data with
    | element name existing tc ip =>
      simp [hdata] at h
      refine ⟨name, existing, tc, ip, by rw [dataOf_of_node htn, hdata], ⟨?_, ?_⟩, ?_, ?_⟩
      · intro x; subst h; rw [parentOf_setNode htn]
        by_cases hx : x = t
        · subst hx; simp [parentOf_of_node htn]
        · simp [hx]
      · intro x; subst h; rw [childrenOf_setNode htn]
        by_cases hx : x = t
        · subst hx; simp [childrenOf_of_node htn]
        · simp [hx]
      · intro x; subst h; rw [dataOf_setNode htn]
      · subst h; simp
    | document | doctype _ _ _ | comment _ | text _ | pi _ _ =>
      simp [hdata, throw, throwThe, MonadExceptOf.throw] at h

/-! ### `maybe_clone_an_option_into_selectedcontent` as the code stands: never changes anything -/

theorem bfsAsCode_none {d : Dom} {selfLoc : Str} (hne : selfLoc ≠ sSelectedcontent) :
    ∀ (fuel : Nat) (q : List Id) (r : Option Id), Dom.bfsAsCode d selfLoc fuel q = .ok r → r = none := by
  intro fuel
  induction fuel with
  | zero =>
    intro q r h
    cases q with
    | nil => simp [Dom.bfsAsCode] at h; exact h.symm
    | cons a t => simp [Dom.bfsAsCode] at h
  | succ f ih =>
    intro q r h
    cases q with
    | nil => simp [Dom.bfsAsCode] at h; exact h.symm
    | cons a t =>
      simp only [Dom.bfsAsCode, bind, Except.bind] at h
      cases ha : d.get a with
      | error e => simp [ha] at h
      | ok an =>
        simp only [ha, hne, if_false] at h
        exact ih _ _ h

theorem sSelect_ne_sSelectedcontent : sSelect ≠ sSelectedcontent := by decide

theorem enabledSelectedcontent_asCode_none {d : Dom} {select : Id} {r : Option Id}
    (h : d.enabledSelectedcontent .asCode select = .ok r) : r = none := by
  unfold Dom.enabledSelectedcontent at h
  simp only [bind, Except.bind] at h
  cases hs : d.get select with
  | error e => simp [hs] at h
  | ok sn =>
    simp only [hs] at h
    cases hdata : sn.data with
    | element name attrs tc ip =>
      simp only [hdata] at h
      by_cases hn : name.loc ≠ sSelect
      · simp [hn, throw, throwThe, MonadExceptOf.throw] at h
      · have hloc : name.loc = sSelect := Classical.not_not.mp hn
        simp only [hn, if_false] at h
        by_cases hm : Dom.hasAttrLocal attrs sMultiple = true
        · simp [hm] at h; exact h.symm
        · simp [hm] at h
          exact bfsAsCode_none (by rw [hloc]; exact sSelect_ne_sSelectedcontent) _ _ _ h
    | document | doctype _ _ _ | comment _ | text _ | pi _ _ =>
      simp [hdata, throw, throwThe, MonadExceptOf.throw] at h

/-- as the code stands, no `selectedcontent` is ever selected for mirroring -/
theorem cloneTarget_asCode_none {d : Dom} {o : Id} {r : Option Id} (h : d.cloneTarget .asCode o = .ok r) :
    r = none := by
  unfold Dom.cloneTarget at h
  simp only [bind, Except.bind] at h
  cases ho : d.get o with
  | error e => simp [ho] at h
  | ok on =>
    simp only [ho] at h
    cases hdata : on.data with
    | element name attrs tc ip =>
      simp only [hdata] at h
      by_cases hn : name.loc ≠ sOption
      · simp [hn, throw, throwThe, MonadExceptOf.throw] at h
      · simp only [hn, if_false] at h
        cases hsel : d.nearestAncestorSelect o with
        | error e => simp [hsel] at h
        | ok sel =>
          simp only [hsel] at h
          cases sel with
          | none => simp at h; exact h.symm
          | some select =>
            simp only at h
            cases hsc : d.enabledSelectedcontent .asCode select with
            | error e => simp [hsc] at h
            | ok sc =>
              have := enabledSelectedcontent_asCode_none hsc
              subst this
              simp [hsc] at h
              exact h.symm
    | document | doctype _ _ _ | comment _ | text _ | pi _ _ =>
      simp [hdata, throw, throwThe, MonadExceptOf.throw] at h

/-- DESIGN 1.3 item 11, first half: as the code stands the call never changes the DOM -/
theorem maybeCloneOption_asCode_eq {d d' : Dom} {o : Id} (h : d.maybeCloneOption .asCode o = .ok d') :
    d' = d := by
  unfold Dom.maybeCloneOption at h
  simp only [bind, Except.bind] at h
  cases ht : d.cloneTarget .asCode o with
  | error e => simp [ht] at h
  | ok r =>
    have := cloneTarget_asCode_none ht
    subst this
    simp [ht] at h
    exact h.symm

/-! ### one sink call preserves `WF` under the TreeSink contract -/

theorem lt_of_dataOf_some {d : Dom} {x : Id} {v : NodeData} (h : d.dataOf x = some v) : x < d.size := by
  rw [dataOf_eq] at h
  cases hn : d.node? x with
  | none => simp [hn] at h
  | some n => exact node?_lt hn

theorem lt_of_isContainer {d : Dom} {x : Id} (h : d.isContainer x = true) : x < d.size := by
  unfold Dom.isContainer at h
  cases hd : d.dataOf x with
  | none => simp [hd] at h
  | some v => exact lt_of_dataOf_some hd

theorem lt_of_isElement {d : Dom} {x : Id} (h : d.isElement x = true) : x < d.size := by
  unfold Dom.isElement at h
  cases hd : d.dataOf x with
  | none => simp [hd] at h
  | some v => exact lt_of_dataOf_some hd

theorem WF.append {d d' : Dom} (hw : WF d) {p : Id} {ch : NodeOrText}
    (hc : d.contractAppend p ch = true) (h : d.append p ch = .ok d') : WF d' := by
  cases ch with
  | text s => exact hw.append_text h
  | node c =>
    rw [append_node_eq] at h
    simp only [Dom.contractAppend, Dom.childOk, Bool.and_eq_true, Bool.not_eq_true'] at hc
    exact hw.appendRaw (not_anc_of_isAncOrSelf_false hw (lt_of_isContainer hc.1) hc.2.2) h

theorem WF.appendBeforeSibling {d d' : Dom} (hw : WF d) {s : Id} {ch : NodeOrText}
    (hc : d.contractAppendBeforeSibling s ch = true) (h : d.appendBeforeSibling s ch = .ok d') : WF d' := by
  obtain ⟨P, i, hpar, _, hPlt, hm⟩ := appendBeforeSibling_ok h
  simp only [Dom.contractAppendBeforeSibling, hpar, Bool.and_eq_true] at hc
  cases ch with
  | text t => exact hw.appendBeforeSibling_text hPlt hm
  | node c =>
    simp only [Dom.childOk, Bool.and_eq_true, Bool.not_eq_true'] at hc
    exact hw.insertAtIndex (not_anc_of_isAncOrSelf_false hw hPlt hc.2.1.2.2) hm

theorem appendBasedOnParentNode_eq {d : Dom} {e p : Id} {ch : NodeOrText} {r : Except String Dom}
    (h : d.appendBasedOnParentNode e p ch = r) (he : e < d.size) :
    r = if (d.parentOf e).isSome then d.appendBeforeSibling e ch else d.append p ch := by
  obtain ⟨en, hen⟩ := node?_of_lt he
  unfold Dom.appendBasedOnParentNode at h
  simp only [bind, Except.bind, get_ok_of hen] at h
  rw [parentOf_of_node hen, ← h]

theorem appendBeforeSiblingV_asCode (d : Dom) (s : Id) (c : NodeOrText) :
    d.appendBeforeSiblingV .asCode s c = d.appendBeforeSibling s c := by
  cases c <;> rfl

theorem appendBasedOnParentNodeV_asCode (d : Dom) (e p : Id) (c : NodeOrText) :
    d.appendBasedOnParentNodeV .asCode e p c = d.appendBasedOnParentNode e p c := by
  unfold Dom.appendBasedOnParentNodeV Dom.appendBasedOnParentNode
  simp only [appendBeforeSiblingV_asCode]

end H5V.Lemmas.Dom
