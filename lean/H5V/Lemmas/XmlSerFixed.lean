import H5V.Model.XmlSer
import H5V.Spec.XmlNs
import H5V.Lemmas.XmlNs
import H5V.Lemmas.XmlSer
import H5V.Props.C16
/-! Lemmas for C17 with every proposed serializer fix switched on (`SerCfg.fixed`): the declarations
written make every name of every tag resolve back to itself. -/
namespace H5V.Lemmas.XmlSerFixed
open H5V.Model.XmlTB H5V.Model.XmlSer H5V.Spec.XmlNs H5V.Lemmas.XmlNs H5V.Lemmas.XmlSer H5V.Props.C16

/-! ### association lists -/

theorem lookup_filter_ne {β : Type} (l : List (Option Str × β)) (k p : Option Str) (h : p ≠ k) :
    (l.filter (fun e => e.1 != k)).lookup p = l.lookup p := by
  induction l with
  | nil => rfl
  | cons e rest ih =>
    obtain ⟨k', v⟩ := e
    by_cases hk : k' = k
    · subst hk
      have : (p == k') = false := by simpa using h
      simp [List.filter_cons, List.lookup_cons, this, ih]
    · have : (k' != k) = true := by simpa using hk
      simp only [List.filter_cons, this, ↓reduceIte, List.lookup_cons, ih]

theorem lookup_insert (m : SMap) (k p : Option Str) (v : Str) :
    (m.insert k v).lookup p = if p = k then some v else m.lookup p := by
  unfold SMap.insert
  by_cases h : p = k
  · subst h; simp [List.lookup_cons]
  · have : (p == k) = false := by simpa using h
    simp only [List.lookup_cons, this, h, ↓reduceIte]
    exact lookup_filter_ne m k p h

theorem keys_filter_sub {β : Type} (l : List (Option Str × β)) (k : Option Str) (x : Option Str)
    (hx : x ∈ (l.filter (fun e => e.1 != k)).map Prod.fst) : x ∈ l.map Prod.fst ∧ x ≠ k := by
  obtain ⟨e, he, rfl⟩ := List.mem_map.mp hx
  have := List.mem_filter.mp he
  exact ⟨List.mem_map.mpr ⟨e, this.1, rfl⟩, by simpa using this.2⟩

theorem nodup_filter_keys {β : Type} (l : List (Option Str × β)) (k : Option Str)
    (h : (l.map Prod.fst).Nodup) : ((l.filter (fun e => e.1 != k)).map Prod.fst).Nodup := by
  induction l with
  | nil => simp
  | cons e rest ih =>
    simp only [List.map_cons, List.nodup_cons] at h
    simp only [List.filter_cons]
    split
    · simp only [List.map_cons, List.nodup_cons]
      exact ⟨fun hm => h.1 (keys_filter_sub rest k _ hm).1, ih h.2⟩
    · exact ih h.2

theorem nodup_insert (m : SMap) (k : Option Str) (v : Str) (h : (m.map Prod.fst).Nodup) :
    ((m.insert k v).map Prod.fst).Nodup := by
  unfold SMap.insert
  simp only [List.map_cons, List.nodup_cons]
  exact ⟨fun hm => (keys_filter_sub m k k hm).2 rfl, nodup_filter_keys m k h⟩

theorem lookup_some_of_mem {β : Type} (l : List (Option Str × β)) (p : Option Str) (v : β)
    (hnd : (l.map Prod.fst).Nodup) (h : (p, v) ∈ l) : l.lookup p = some v := by
  induction l with
  | nil => simp at h
  | cons e rest ih =>
    obtain ⟨k', v'⟩ := e
    simp only [List.map_cons, List.nodup_cons] at hnd
    simp only [List.mem_cons, Prod.mk.injEq] at h
    rw [List.lookup_cons]
    rcases h with ⟨rfl, rfl⟩ | h
    · simp
    · have hne : p ≠ k' := by
        intro e; subst e
        exact hnd.1 (List.mem_map.mpr ⟨(p, v), h, rfl⟩)
      have : (p == k') = false := by simpa using hne
      simp only [this]
      exact ih hnd.2 h

theorem mem_of_lookup_some {β : Type} (l : List (Option Str × β)) (p : Option Str) (v : β)
    (h : l.lookup p = some v) : (p, v) ∈ l := by
  induction l with
  | nil => simp at h
  | cons e rest ih =>
    obtain ⟨k', v'⟩ := e
    rw [List.lookup_cons] at h
    by_cases hk : p = k'
    · subst hk; simp at h; subst h; simp
    · have : (p == k') = false := by simpa using hk
      simp only [this] at h
      exact List.mem_cons_of_mem _ (ih h)

/-- two association lists with distinct keys and the same entries answer every lookup alike -/
theorem lookup_congr_of_mem {β : Type} (l1 l2 : List (Option Str × β))
    (h1 : (l1.map Prod.fst).Nodup) (h2 : (l2.map Prod.fst).Nodup)
    (h : ∀ e, e ∈ l1 ↔ e ∈ l2) (p : Option Str) : l1.lookup p = l2.lookup p := by
  match hl : l1.lookup p with
  | some v =>
    exact (lookup_some_of_mem l2 p v h2 ((h _).mp (mem_of_lookup_some l1 p v hl))).symm
  | none =>
    match hr : l2.lookup p with
    | none => rfl
    | some v =>
      have := lookup_some_of_mem l1 p v h1 ((h _).mpr (mem_of_lookup_some l2 p v hr))
      rw [hl] at this; cases this

/-! ### `sortDecls` is a permutation -/

theorem insertSorted_perm (e : Option Str × Str) (l : SMap) : (insertSorted e l).Perm (e :: l) := by
  induction l with
  | nil => exact List.Perm.refl _
  | cons x rest ih =>
    unfold insertSorted
    split
    · exact List.Perm.refl _
    · exact (List.Perm.cons x ih).trans (List.Perm.swap e x rest)

theorem sortDecls_perm (m : SMap) : (sortDecls m).Perm m := by
  unfold sortDecls
  induction m with
  | nil => exact List.Perm.refl _
  | cons e rest ih =>
    simp only [List.foldr_cons]
    exact (insertSorted_perm e _).trans (List.Perm.cons e ih)

/-! ### the tokenizer's attribute step on attributes with distinct qualified names -/

def splitAttr (r : RawAttr) : RAttr := ⟨splitQName r.name, r.value⟩

theorem isDeclName_fixed (n : RName) : isDeclName TokCfg.fixed n = isDecl n := by
  unfold isDeclName isDecl TokCfg.fixed
  cases h1 : n.pfx == some sXmlns <;> cases h2 : n.pfx == none <;> cases h3 : n.loc == sXmlns <;> simp

/-- declarations are collected at the front in reverse order, the other attributes behind them in
source order; nothing is dropped -/
theorem foldl_fixed_struct (raw : List RawAttr) (acc : List RAttr)
    (hne : ∀ r ∈ raw, r.name ≠ [])
    (hnd : (acc.map (·.name) ++ raw.map (fun r => splitQName r.name)).Nodup) :
    raw.foldl (finishAttribute TokCfg.fixed) acc =
      ((raw.map splitAttr).filter (fun a => isDecl a.name)).reverse ++ acc ++
        (raw.map splitAttr).filter (fun a => !isDecl a.name) := by
  induction raw generalizing acc with
  | nil => simp
  | cons r rest ih =>
    have hr := hne r (by simp)
    have hrest : ∀ x ∈ rest, x.name ≠ [] := fun x hx => hne x (by simp [hx])
    have hnot : splitQName r.name ∉ acc.map (·.name) := by
      intro hm
      have := (List.nodup_append.mp hnd).2.2 _ hm (splitQName r.name) (by simp)
      exact this rfl
    have hdup : isDup TokCfg.fixed acc r.name = false := by
      simp only [isDup, TokCfg.fixed, ↓reduceIte]
      rw [Bool.eq_false_iff]
      intro h
      obtain ⟨x, hx, hxe⟩ := List.any_eq_true.mp h
      exact hnot (List.mem_map.mpr ⟨x, hx, by simpa using hxe⟩)
    simp only [List.foldl_cons, finishAttribute, hr, ↓reduceIte, hdup, Bool.false_eq_true, pushAttr,
      isDeclName_fixed]
    by_cases hd : isDecl (splitQName r.name) = true
    · simp only [hd, ↓reduceIte]
      rw [ih _ hrest (by
        have : (acc.map (·.name) ++ splitQName r.name :: rest.map (fun r => splitQName r.name)).Nodup := by
          simpa using hnd
        have := (List.perm_middle.nodup_iff).mp this
        simpa using this)]
      simp [splitAttr, List.filter_cons, hd]
    · simp only [hd, Bool.false_eq_true, ↓reduceIte]
      rw [ih _ hrest (by simpa using hnd)]
      simp [splitAttr, List.filter_cons, hd]

theorem tagAttrs_fixed_struct (raw : List RawAttr) (hne : ∀ r ∈ raw, r.name ≠ [])
    (hnd : (raw.map (fun r => splitQName r.name)).Nodup) :
    tagAttrs TokCfg.fixed raw =
      ((raw.map splitAttr).filter (fun a => isDecl a.name)).reverse ++
        (raw.map splitAttr).filter (fun a => !isDecl a.name) := by
  have := foldl_fixed_struct raw [] hne (by simpa using hnd)
  simpa [tagAttrs] using this

/-! ### the fixed `start_elem`: registering the names of a tag in the top map -/

def needs (x : QName) : Bool := x.pfx.isSome || x.ns != []

/-- `find_or_insert_ns` seen on the top map -/
def reg1 (sst : List SMap) (F : SMap) (x : QName) : SMap :=
  if needs x && !Model.XmlSer.findUri (F :: sst) x then F.insert x.pfx x.ns else F

theorem findOrInsert_cons (F : SMap) (sst : List SMap) (x : QName) :
    findOrInsert (F :: sst) x = reg1 sst F x :: sst := by
  unfold findOrInsert reg1 needs insertTop
  split <;> rfl

def regAll (sst : List SMap) (F : SMap) (xs : List QName) : SMap := xs.foldl (reg1 sst) F

theorem foldl_findOrInsert (as : List Attr) (F : SMap) (sst : List SMap) :
    as.foldl (fun st a => findOrInsert st a.name) (F :: sst) = regAll sst F (as.map (·.name)) :: sst := by
  induction as generalizing F with
  | nil => rfl
  | cons a rest ih =>
    simp only [List.foldl_cons, findOrInsert_cons, List.map_cons, regAll]
    exact ih _

/-- the top map after the fixed `start_elem` has registered the element name, the default
un-declaration and the attribute names -/
def topFixed (sst : List SMap) (n : QName) (as : List Attr) : SMap :=
  let F0 := reg1 sst [] n
  let F1 := if n.pfx.isNone && n.ns == [] && defaultBound (F0 :: sst) then F0.insert none [] else F0
  regAll sst F1 (as.map (·.name))

theorem startElem_fixed (sst : List SMap) (n : QName) (as : List Attr) :
    startElem SerCfg.fixed sst n as =
      (.startTag n (sortDecls (topFixed sst n as)) as, topFixed sst n as :: sst) := by
  unfold startElem topFixed
  simp only [SerCfg.fixed, findOrInsert_cons, Bool.true_and, ↓reduceIte, insertTop]
  by_cases hc : (n.pfx.isNone && n.ns == [] && defaultBound (reg1 sst [] n :: sst)) = true
  · simp only [hc, ↓reduceIte, foldl_findOrInsert]
  · simp only [hc, Bool.false_eq_true, ↓reduceIte, foldl_findOrInsert]

theorem endElem_fixed (st : List SMap) (n : QName) : endElem SerCfg.fixed st n = (.endTag n, st.tail) := rfl

theorem findUri_cons (F : SMap) (sst : List SMap) (x : QName) :
    Model.XmlSer.findUri (F :: sst) x = match F.lookup x.pfx with
      | some v => v == x.ns
      | none => Model.XmlSer.findUri sst x := by
  unfold Model.XmlSer.findUri
  simp only [List.findSome?_cons]
  cases F.lookup x.pfx <;> rfl

theorem findUri_congr (st : List SMap) (x y : QName) (hp : y.pfx = x.pfx) (hn : y.ns = x.ns) :
    Model.XmlSer.findUri st y = Model.XmlSer.findUri st x := by
  unfold Model.XmlSer.findUri; rw [hp, hn]

/-- the name needs no declaration, or the stack already binds its prefix to its namespace -/
def Sat (x : QName) (st : List SMap) : Prop := needs x = false ∨ Model.XmlSer.findUri st x = true

theorem reg1_sat (sst : List SMap) (F : SMap) (x : QName) : Sat x (reg1 sst F x :: sst) := by
  unfold Sat reg1
  by_cases hn : needs x = true
  · by_cases hf : Model.XmlSer.findUri (F :: sst) x = true
    · right; simp [hn, hf]
    · right
      have hf' : Model.XmlSer.findUri (F :: sst) x = false := by simpa using hf
      simp only [hn, hf', Bool.not_false, Bool.and_self, ↓reduceIte]
      rw [findUri_cons, lookup_insert]; simp
  · left; simpa using hn

theorem reg1_preserves (sst : List SMap) (F : SMap) (x y : QName) (hy : Sat y (F :: sst))
    (hc : y.pfx = x.pfx → needs y = true → y.ns = x.ns) : Sat y (reg1 sst F x :: sst) := by
  unfold reg1
  split
  · rename_i hins
    rcases hy with hy | hy
    · exact Or.inl hy
    · by_cases hp : y.pfx = x.pfx
      · by_cases hny : needs y = true
        · -- same prefix, same namespace: `x` would have been found too
          have hns := hc hp hny
          have : Model.XmlSer.findUri (F :: sst) x = true := by
            rw [← findUri_congr (F :: sst) x y hp hns]; exact hy
          simp [this] at hins
        · exact Or.inl (by simpa using hny)
      · right
        rw [findUri_cons, lookup_insert]
        simp only [hp, ↓reduceIte]
        rw [findUri_cons] at hy; exact hy
  · exact hy

theorem regAll_sat (sst : List SMap) (xs : List QName) (F : SMap) (done : List QName)
    (hdone : ∀ y ∈ done, Sat y (F :: sst))
    (hc : ∀ x ∈ done ++ xs, ∀ y ∈ done ++ xs, y.pfx = x.pfx → needs y = true → y.ns = x.ns) :
    ∀ y ∈ done ++ xs, Sat y (regAll sst F xs :: sst) := by
  induction xs generalizing F done with
  | nil => simpa [regAll] using hdone
  | cons x rest ih =>
    have := ih (reg1 sst F x) (done ++ [x]) (by
      intro y hy
      rcases List.mem_append.mp hy with hy | hy
      · exact reg1_preserves sst F x y (hdone y hy) (hc x (by simp) y (by simp [hy]))
      · simp at hy; subst hy; exact reg1_sat sst F y) (by simpa using hc)
    simpa [regAll] using this

/-! invariants of the maps -/

/-- keys are distinct; only the prefix `xmlns` is ever bound to the xmlns URI; prefixes are proper
names (non-empty, no colon) -/
structure GoodMap (F : SMap) : Prop where
  nodup : (F.map Prod.fst).Nodup
  xmlnsVal : ∀ p v, (p, v) ∈ F → v = XMLNS_URI → p = some sXmlns
  keyOK : ∀ p v, (some p, v) ∈ F → p ≠ [] ∧ ':' ∉ p

theorem goodMap_nil : GoodMap [] := ⟨by simp, by simp, by simp⟩

theorem GoodMap.tail {e : Option Str × Str} {F : SMap} (h : GoodMap (e :: F)) : GoodMap F :=
  ⟨(List.nodup_cons.mp (by simpa using h.nodup)).2,
   fun p v hm => h.xmlnsVal p v (List.mem_cons_of_mem _ hm),
   fun p v hm => h.keyOK p v (List.mem_cons_of_mem _ hm)⟩

theorem mem_insert (F : SMap) (k : Option Str) (v : Str) (e : Option Str × Str) (h : e ∈ F.insert k v) :
    e = (k, v) ∨ e ∈ F := by
  unfold SMap.insert at h
  rcases List.mem_cons.mp h with h | h
  · exact Or.inl h
  · exact Or.inr (List.mem_filter.mp h).1

theorem goodMap_insert (F : SMap) (k : Option Str) (v : Str) (h : GoodMap F)
    (h1 : v = XMLNS_URI → k = some sXmlns) (h2 : ∀ p, k = some p → p ≠ [] ∧ ':' ∉ p) :
    GoodMap (F.insert k v) := by
  refine ⟨nodup_insert F k v h.nodup, ?_, ?_⟩
  · intro p v' hm hv
    rcases mem_insert F k v _ hm with he | he
    · simp only [Prod.mk.injEq] at he; obtain ⟨rfl, rfl⟩ := he; exact h1 hv
    · exact h.xmlnsVal p v' he hv
  · intro p v' hm
    rcases mem_insert F k v _ hm with he | he
    · simp only [Prod.mk.injEq] at he; exact h2 p he.1.symm
    · exact h.keyOK p v' he

/-- what registration needs to know about a name -/
structure RegOK (x : QName) : Prop where
  xmlnsUri : x.ns = XMLNS_URI → x.pfx = some sXmlns
  pfxOK : ∀ p, x.pfx = some p → p ≠ [] ∧ ':' ∉ p

theorem goodMap_reg1 (sst : List SMap) (F : SMap) (x : QName) (h : GoodMap F) (hx : RegOK x) :
    GoodMap (reg1 sst F x) := by
  unfold reg1
  split
  · exact goodMap_insert F _ _ h hx.xmlnsUri hx.pfxOK
  · exact h

theorem goodMap_regAll (sst : List SMap) (xs : List QName) (F : SMap) (h : GoodMap F)
    (hx : ∀ x ∈ xs, RegOK x) : GoodMap (regAll sst F xs) := by
  induction xs generalizing F with
  | nil => exact h
  | cons x rest ih =>
    exact ih _ (goodMap_reg1 sst F x h (hx x (by simp))) (fun y hy => hx y (by simp [hy]))

/-! ### from the serializer's maps to the Spec's frames -/

/-- what the parser makes of a written declaration -/
def eEntry (e : Option Str × Str) : Option (Option Str × Option Str) :=
  if e.1 = some sXml ∨ e.1 = some sXmlns ∨ e.2 = XMLNS_URI then none else some (e.1, optUri e.2)

/-- the Spec frame of a serializer map -/
def eframe (F : SMap) : NsFrame := F.filterMap eEntry

theorem eEntry_fst (e : Option Str × Str) (r : Option Str × Option Str) (h : eEntry e = some r) :
    r.1 = e.1 := by
  unfold eEntry at h; split at h <;> simp at h; rw [← h]

theorem eframe_keys_sublist (F : SMap) : ((eframe F).map Prod.fst).Sublist (F.map Prod.fst) := by
  induction F with
  | nil => simp [eframe]
  | cons e rest ih =>
    unfold eframe at ih ⊢
    simp only [List.filterMap_cons]
    match he : eEntry e with
    | none => exact ih.cons _
    | some r =>
      simp only [List.map_cons]
      rw [eEntry_fst e r he]
      exact ih.cons₂ _

theorem eframe_nodup (F : SMap) (h : GoodMap F) : ((eframe F).map Prod.fst).Nodup :=
  h.nodup.sublist (eframe_keys_sublist F)

theorem eframe_lookup (F : SMap) (h : GoodMap F) (p : Option Str) (hp1 : p ≠ some sXml)
    (hp2 : p ≠ some sXmlns) : (eframe F).lookup p = (F.lookup p).map optUri := by
  induction F with
  | nil => simp [eframe]
  | cons e rest ih =>
    obtain ⟨k, v⟩ := e
    have ih' := ih h.tail
    unfold eframe at ih' ⊢
    simp only [List.filterMap_cons, List.lookup_cons]
    by_cases hk : p = k
    · subst hk
      have hv : v ≠ XMLNS_URI := fun e => hp2 (h.xmlnsVal p v (by simp) e)
      simp [eEntry, hp1, hp2, hv, List.lookup_cons]
    · have hb : (p == k) = false := by simpa using hk
      simp only [hb]
      match he : eEntry (k, v) with
      | none => simpa using ih'
      | some r =>
        have := eEntry_fst _ r he
        simp only at this
        obtain ⟨r1, r2⟩ := r
        simp only at this; subst this
        simp only [List.lookup_cons, hb]
        exact ih'

theorem eframe_clean (F : SMap) : Clean (eframe F) := by
  constructor
  · rw [List.lookup_eq_none_iff]
    intro r hr
    obtain ⟨e, _, he⟩ := List.mem_filterMap.mp hr
    have h1 := eEntry_fst e r he
    unfold eEntry at he
    split at he
    · simp at he
    · rename_i hne
      simp only [bne_iff_ne, ne_eq]
      rw [h1]; intro heq; exact hne (Or.inl heq.symm)
  · rw [List.lookup_eq_none_iff]
    intro r hr
    obtain ⟨e, _, he⟩ := List.mem_filterMap.mp hr
    have h1 := eEntry_fst e r he
    unfold eEntry at he
    split at he
    · simp at he
    · rename_i hne
      simp only [bne_iff_ne, ne_eq]
      rw [h1]; intro heq; exact hne (Or.inr (Or.inl heq.symm))

/-! ### names and values of a parsed tag, and how the fixed output is lexed -/

/-- a name the tokenizer can have produced: writing it and splitting it again gives it back -/
structure NameOK (x : QName) : Prop where
  split : splitQName (rawName x) = ⟨x.pfx, x.loc⟩
  nonempty : rawName x ≠ []

theorem NameOK.pfxOK {x : QName} (h : NameOK x) (p : Str) (hp : x.pfx = some p) : p ≠ [] ∧ ':' ∉ p := by
  have hs := h.split
  rw [hp] at hs
  have := C16_splitQName_some _ p x.loc hs
  exact ⟨this.2.1, this.2.2.1⟩

/-- an element name as the (fixed) parser produces it -/
structure ElemNameOK (x : QName) : Prop extends NameOK x where
  xml : x.pfx = some sXml → x.ns = XML_URI
  xmlns : x.pfx = some sXmlns → x.ns = XMLNS_URI
  xmlnsUri : x.ns = XMLNS_URI → x.pfx = some sXmlns

/-- an attribute name as the (fixed) parser produces it -/
structure AttrNameOK (x : QName) : Prop extends NameOK x where
  xml : x.pfx = some sXml → x.ns = XML_URI
  notXmlns : x.pfx ≠ some sXmlns
  noXmlnsUri : x.ns ≠ XMLNS_URI
  unprefixed : x.pfx = none → x.ns = [] ∧ x.loc ≠ sXmlns

/-- a tag as the (fixed) parser produces it -/
structure TagOKP (n : QName) (as : List Attr) : Prop where
  name : ElemNameOK n
  attrs : ∀ a ∈ as, AttrNameOK a.name
  distinct : (as.map (fun a => (⟨a.name.pfx, a.name.loc⟩ : RName))).Nodup
  expanded : ((as.filter (fun a => a.name.pfx.isSome)).map (fun a => (a.name.ns, a.name.loc))).Nodup
  consistent : ∀ x ∈ n :: as.map (·.name), ∀ y ∈ n :: as.map (·.name),
    y.pfx = x.pfx → needs y = true → y.ns = x.ns

theorem ElemNameOK.regOK {x : QName} (h : ElemNameOK x) : RegOK x :=
  ⟨h.xmlnsUri, fun p hp => h.toNameOK.pfxOK p hp⟩
theorem AttrNameOK.regOK {x : QName} (h : AttrNameOK x) : RegOK x :=
  ⟨fun e => absurd e h.noXmlnsUri, fun p hp => h.toNameOK.pfxOK p hp⟩

theorem lexAttrValue_fixed (v : Str) :
    lexAttrValue LexCfg.fixed (escape SerCfg.fixed true v) = v := by
  unfold lexAttrValue
  simp only [LexCfg.fixed, ↓reduceIte]
  rw [normalize_noCR _ (escape_noCR SerCfg.fixed true v (Or.inr rfl)), unescape_escape]

/-- the raw attribute written for a declaration / for an attribute -/
def declRaw (d : Option Str × Str) : RawAttr :=
  ⟨declName d.1, lexAttrValue LexCfg.fixed (declValue SerCfg.fixed d.2)⟩
def attrRaw (a : Attr) : RawAttr :=
  ⟨rawName a.name, lexAttrValue LexCfg.fixed (escape SerCfg.fixed true a.value)⟩

theorem splitQName_xmlns : splitQName sXmlns = ⟨none, sXmlns⟩ := by decide

theorem splitAttr_declRaw (d : Option Str × Str) (hk : ∀ p, d.1 = some p → p ≠ [] ∧ ':' ∉ p) :
    splitAttr (declRaw d) = ⟨declNameOf d.1, d.2⟩ := by
  obtain ⟨k, v⟩ := d
  have hv : lexAttrValue LexCfg.fixed (declValue SerCfg.fixed v) = v := by
    simp only [declValue, SerCfg.fixed, ↓reduceIte]; exact lexAttrValue_fixed v
  unfold splitAttr declRaw
  simp only [hv]
  match k, hk with
  | none, _ => simp [declName, declNameOf, splitQName_xmlns]
  | some p, hk =>
    have := hk p rfl
    simp only [declName, declNameOf]
    rw [C16_splitQName_split sXmlns p (by decide) (by decide) this.1 this.2]

theorem splitAttr_attrRaw (a : Attr) (h : NameOK a.name) :
    splitAttr (attrRaw a) = ⟨⟨a.name.pfx, a.name.loc⟩, a.value⟩ := by
  unfold splitAttr attrRaw
  simp only [h.split, lexAttrValue_fixed]

theorem declOf_declNameOf (k : Option Str) (v : Str) : declOf ⟨declNameOf k, v⟩ = eEntry (k, v) := by
  unfold declOf eEntry
  match k with
  | none =>
    have h1 : isDecl (⟨none, sXmlns⟩ : RName) = true := by decide
    simp only [declNameOf, h1, Bool.not_true, Bool.false_eq_true, ↓reduceIte]
    by_cases hv : v = XMLNS_URI
    · simp [hv]
    · simp [hv]
  | some p =>
    have h1 : isDecl (⟨some sXmlns, p⟩ : RName) = true := by simp [isDecl]
    simp only [declNameOf, h1, Bool.not_true, Bool.false_eq_true, ↓reduceIte]
    by_cases hv : v = XMLNS_URI
    · simp [hv]
    · simp only [hv, ↓reduceIte, Option.some.injEq, or_false]
      by_cases hx : p = sXml ∨ p = sXmlns
      · simp [hx]
      · simp [hx]

theorem isDecl_declNameOf (k : Option Str) : isDecl (declNameOf k) = true := by
  cases k <;> simp [isDecl, declNameOf]

theorem declNameOf_inj (k1 k2 : Option Str) (h : declNameOf k1 = declNameOf k2) : k1 = k2 := by
  match k1, k2, h with
  | none, none, _ => rfl
  | none, some _, h => simp [declNameOf] at h
  | some _, none, h => simp [declNameOf] at h
  | some a, some b, h => simp [declNameOf] at h; simp [h]

theorem attr_not_decl (x : QName) (h : AttrNameOK x) : isDecl ⟨x.pfx, x.loc⟩ = false := by
  unfold isDecl
  have h1 : (x.pfx == some sXmlns) = false := by simpa using h.notXmlns
  cases hp : x.pfx with
  | none =>
    have := (h.unprefixed hp).2
    have h2 : (x.loc == sXmlns) = false := by simpa using this
    simp [h2]
  | some q => rw [hp] at h1; simp [h1]

theorem nodup_map_of_inj {α β : Type} (f : α → β) (hf : ∀ a b, f a = f b → a = b) (l : List α)
    (h : l.Nodup) : (l.map f).Nodup := by
  induction l with
  | nil => simp
  | cons a rest ih =>
    simp only [List.nodup_cons] at h
    simp only [List.map_cons, List.nodup_cons]
    refine ⟨?_, ih h.2⟩
    intro hm
    obtain ⟨b, hb, hbe⟩ := List.mem_map.mp hm
    have := hf _ _ hbe; subst this
    exact h.1 hb

theorem goodMap_perm {F G : SMap} (hp : G.Perm F) (h : GoodMap F) : GoodMap G :=
  ⟨((hp.map Prod.fst).nodup_iff).mpr h.nodup,
   fun p v hm => h.xmlnsVal p v (hp.mem_iff.mp hm),
   fun p v hm => h.keyOK p v (hp.mem_iff.mp hm)⟩

def declRAttrs (decls : SMap) : List RAttr := decls.map (fun d => ⟨declNameOf d.1, d.2⟩)
def attrRAttrs (as : List Attr) : List RAttr := as.map (fun a => ⟨⟨a.name.pfx, a.name.loc⟩, a.value⟩)

theorem filter_decl_D (decls : SMap) : (declRAttrs decls).filter (fun a => isDecl a.name) = declRAttrs decls := by
  apply List.filter_eq_self.mpr
  intro a ha
  obtain ⟨d, _, rfl⟩ := List.mem_map.mp ha
  exact isDecl_declNameOf d.1

theorem filter_ndecl_D (decls : SMap) : (declRAttrs decls).filter (fun a => !isDecl a.name) = [] := by
  apply List.filter_eq_nil_iff.mpr
  intro a ha
  obtain ⟨d, _, rfl⟩ := List.mem_map.mp ha
  simp [isDecl_declNameOf d.1]

theorem filter_decl_A (as : List Attr) (h : ∀ a ∈ as, AttrNameOK a.name) :
    (attrRAttrs as).filter (fun a => isDecl a.name) = [] := by
  apply List.filter_eq_nil_iff.mpr
  intro a ha
  obtain ⟨x, hx, rfl⟩ := List.mem_map.mp ha
  simp [attr_not_decl x.name (h x hx)]

theorem filter_ndecl_A (as : List Attr) (h : ∀ a ∈ as, AttrNameOK a.name) :
    (attrRAttrs as).filter (fun a => !isDecl a.name) = attrRAttrs as := by
  apply List.filter_eq_self.mpr
  intro a ha
  obtain ⟨x, hx, rfl⟩ := List.mem_map.mp ha
  simp [attr_not_decl x.name (h x hx)]

/-- **the tag the tokenizer delivers for a fixed start tag** -/
theorem tagOf_fixed (n : QName) (as : List Attr) (decls : SMap) (hd : GoodMap decls) (ht : TagOKP n as) :
    tagOf SerCfg.fixed LexCfg.fixed n decls as =
      ⟨.start, ⟨n.pfx, n.loc⟩, (declRAttrs decls).reverse ++ attrRAttrs as⟩ := by
  have hraw : (decls.map declRaw ++ as.map attrRaw).map splitAttr = declRAttrs decls ++ attrRAttrs as := by
    simp only [List.map_append, List.map_map, declRAttrs, attrRAttrs]
    congr 1
    · apply List.map_congr_left
      intro d hdm
      exact splitAttr_declRaw d (fun p hp => hd.keyOK p d.2 (by rw [← hp]; exact hdm))
    · apply List.map_congr_left
      intro a ha
      exact splitAttr_attrRaw a (ht.attrs a ha).toNameOK
  have hne : ∀ r ∈ decls.map declRaw ++ as.map attrRaw, r.name ≠ [] := by
    intro r hr
    rcases List.mem_append.mp hr with hr | hr
    · obtain ⟨d, _, rfl⟩ := List.mem_map.mp hr
      simp only [declRaw, declName]
      cases d.1 <;> simp [sXmlns] <;> decide
    · obtain ⟨a, ha, rfl⟩ := List.mem_map.mp hr
      exact (ht.attrs a ha).toNameOK.nonempty
  have hnames : (decls.map declRaw ++ as.map attrRaw).map (fun r => splitQName r.name) =
      (declRAttrs decls ++ attrRAttrs as).map (·.name) := by
    rw [← hraw, List.map_map]; rfl
  have hnd : ((decls.map declRaw ++ as.map attrRaw).map (fun r => splitQName r.name)).Nodup := by
    rw [hnames, List.map_append, List.nodup_append]
    refine ⟨?_, ?_, ?_⟩
    · have : (declRAttrs decls).map (·.name) = (decls.map Prod.fst).map declNameOf := by
        simp [declRAttrs]
      rw [this]
      exact nodup_map_of_inj declNameOf declNameOf_inj _ hd.nodup
    · have : (attrRAttrs as).map (·.name) = as.map (fun a => (⟨a.name.pfx, a.name.loc⟩ : RName)) := by
        simp [attrRAttrs]
      rw [this]; exact ht.distinct
    · intro x hx y hy hxy
      subst hxy
      obtain ⟨d, hdm, rfl⟩ := List.mem_map.mp hx
      obtain ⟨d', _, rfl⟩ := List.mem_map.mp hdm
      obtain ⟨a, ham, hae⟩ := List.mem_map.mp hy
      obtain ⟨a', ha', rfl⟩ := List.mem_map.mp ham
      have h1 := isDecl_declNameOf d'.1
      have h2 := attr_not_decl a'.name (ht.attrs a' ha')
      simp only at hae
      rw [← hae] at h1
      rw [h1] at h2; cases h2
  have hs := tagAttrs_fixed_struct _ hne hnd
  rw [hraw] at hs
  simp only [List.filter_append, filter_decl_D, filter_decl_A as ht.attrs, filter_ndecl_D,
    filter_ndecl_A as ht.attrs, List.append_nil, List.nil_append] at hs
  unfold tagOf finishTag
  simp only [LexCfg.fixed, ht.name.split]
  have hl : (decls.map (fun d => (⟨declName d.1, lexAttrValue ⟨TokCfg.fixed, true⟩ (declValue SerCfg.fixed d.2)⟩ : RawAttr)) ++
      as.map (fun a => (⟨rawName a.name, lexAttrValue ⟨TokCfg.fixed, true⟩ (escape SerCfg.fixed true a.value)⟩ : RawAttr))) =
      decls.map declRaw ++ as.map attrRaw := rfl
  rw [hl, hs]

/-! ### the Spec frame of the lexed tag = the Spec frame of the serializer's top map -/

theorem declOf_attrRAttr (a : Attr) (h : AttrNameOK a.name) :
    declOf (⟨⟨a.name.pfx, a.name.loc⟩, a.value⟩ : RAttr) = none := by
  unfold declOf; simp [attr_not_decl a.name h]

theorem frameOf_tag (decls : SMap) (as : List Attr) (h : ∀ a ∈ as, AttrNameOK a.name) :
    frameOf ((declRAttrs decls).reverse ++ attrRAttrs as) = (eframe decls).reverse := by
  unfold frameOf
  rw [List.filterMap_append, List.filterMap_reverse]
  have h1 : (declRAttrs decls).filterMap declOf = eframe decls := by
    unfold declRAttrs eframe
    rw [List.filterMap_map]
    congr 1
    funext d
    simp only [Function.comp]
    exact declOf_declNameOf d.1 d.2
  have h2 : (attrRAttrs as).filterMap declOf = [] := by
    apply List.filterMap_eq_nil_iff.mpr
    intro r hr
    obtain ⟨a, ha, rfl⟩ := List.mem_map.mp hr
    exact declOf_attrRAttr a (h a ha)
  rw [h1, h2, List.append_nil]

theorem frame_lookup (F : SMap) (hF : GoodMap F) (as : List Attr) (h : ∀ a ∈ as, AttrNameOK a.name)
    (p : Option Str) :
    (frameOf ((declRAttrs (sortDecls F)).reverse ++ attrRAttrs as)).lookup p = (eframe F).lookup p := by
  rw [frameOf_tag _ as h]
  have hperm : (eframe (sortDecls F)).reverse.Perm (eframe F) :=
    (List.reverse_perm _).trans ((sortDecls_perm F).filterMap eEntry)
  apply lookup_congr_of_mem
  · exact ((hperm.map Prod.fst).nodup_iff).mpr (eframe_nodup F hF)
  · exact eframe_nodup F hF
  · intro e; exact hperm.mem_iff

/-! ### stacks -/

/-- each Spec frame answers like the Spec frame of the corresponding serializer map -/
def FA : List SMap → List NsFrame → Prop
  | [], [] => True
  | F :: sst, f :: env => (∀ p, f.lookup p = (eframe F).lookup p) ∧ FA sst env
  | _, _ => False

def GoodStack (sst : List SMap) : Prop := ∀ F ∈ sst, GoodMap F

theorem findSome_FA (sst : List SMap) (env : List NsFrame) (h : FA sst env) (hg : GoodStack sst)
    (p : Option Str) (hp1 : p ≠ some sXml) (hp2 : p ≠ some sXmlns) :
    env.findSome? (fun f => f.lookup p) = (sst.findSome? (fun m => m.lookup p)).map optUri := by
  induction sst generalizing env with
  | nil =>
    cases env with
    | nil => rfl
    | cons _ _ => simp [FA] at h
  | cons F rest ih =>
    cases env with
    | nil => simp [FA] at h
    | cons f env' =>
      obtain ⟨h1, h2⟩ := h
      simp only [List.findSome?_cons]
      rw [h1 p, eframe_lookup F (hg F (by simp)) p hp1 hp2]
      cases F.lookup p with
      | some v => simp
      | none => simpa using ih env' h2 (fun G hG => hg G (by simp [hG]))

theorem optUri_result (v : Str) :
    (match some (optUri v) with
      | some (some uri) => uri
      | _ => []) = v := by
  unfold optUri; split <;> simp_all

/-- a name the serializer considers declared resolves to its namespace on the parser's side -/
theorem lookupNs_sat (sst : List SMap) (env : List NsFrame) (h : FA sst env) (hg : GoodStack sst)
    (x : QName) (hs : Sat x sst) (hn : needs x = true)
    (hx1 : x.pfx = some sXml → x.ns = XML_URI) (hx2 : x.pfx = some sXmlns → x.ns = XMLNS_URI) :
    lookupNs env x.pfx = x.ns := by
  unfold lookupNs
  by_cases h1 : x.pfx = some sXml
  · simp [h1, hx1 h1]
  · by_cases h2 : x.pfx = some sXmlns
    · have : some sXmlns ≠ some sXml := by decide
      simp [h2, this, hx2 h2]
    · simp only [h1, h2, ↓reduceIte]
      rw [findSome_FA sst env h hg x.pfx h1 h2]
      rcases hs with hs | hs
      · rw [hs] at hn; cases hn
      · unfold Model.XmlSer.findUri at hs
        generalize sst.findSome? (fun m => m.lookup x.pfx) = r at hs ⊢
        match r, hs with
        | some v, hs =>
          have hv : v = x.ns := by simpa using hs
          subst hv
          simp only [Option.map_some]
          exact optUri_result x.ns

theorem lookupNs_default (sst : List SMap) (env : List NsFrame) (h : FA sst env) (hg : GoodStack sst)
    (hd : defaultBound sst = false) : lookupNs env none = [] := by
  unfold lookupNs
  have h1 : (none : Option Str) ≠ some sXml := by simp
  have h2 : (none : Option Str) ≠ some sXmlns := by simp
  simp only [h1, h2, ↓reduceIte]
  rw [findSome_FA sst env h hg none h1 h2]
  unfold defaultBound at hd
  generalize sst.findSome? (fun m => m.lookup none) = r at hd ⊢
  match r, hd with
  | none, _ => rfl
  | some v, hd =>
    have hv : v = [] := by simpa using hd
    subst hv
    rfl

/-! ### what the fixed `start_elem` achieves -/

theorem topFixed_good (sst : List SMap) (n : QName) (as : List Attr) (ht : TagOKP n as) :
    GoodMap (topFixed sst n as) := by
  unfold topFixed
  apply goodMap_regAll
  · have h0 := goodMap_reg1 sst [] n goodMap_nil ht.name.regOK
    split
    · exact goodMap_insert _ none [] h0 (fun e => absurd e (by decide)) (fun p hp => by cases hp)
    · exact h0
  · intro x hx
    obtain ⟨a, ha, rfl⟩ := List.mem_map.mp hx
    exact (ht.attrs a ha).regOK

theorem topFixed_sat (sst : List SMap) (n : QName) (as : List Attr) (ht : TagOKP n as) :
    ∀ y ∈ n :: as.map (·.name), Sat y (topFixed sst n as :: sst) := by
  unfold topFixed
  simp only []
  have h0 : Sat n (reg1 sst [] n :: sst) := reg1_sat sst [] n
  have h1 : Sat n ((if (n.pfx.isNone && n.ns == [] && defaultBound (reg1 sst [] n :: sst)) = true
      then (reg1 sst [] n).insert none [] else reg1 sst [] n) :: sst) := by
    split
    · rename_i hc
      left
      simp only [Bool.and_eq_true, Option.isNone_iff_eq_none, beq_iff_eq] at hc
      simp [needs, hc.1.1, hc.1.2]
    · exact h0
  have := regAll_sat sst (as.map (·.name)) _ [n] (by intro y hy; simp at hy; subst hy; exact h1)
    (by simpa using ht.consistent)
  simpa using this

theorem defaultBound_cons (F : SMap) (sst : List SMap) :
    defaultBound (F :: sst) = match F.lookup none with
      | some ns => ns != []
      | none => defaultBound sst := by
  unfold defaultBound
  simp only [List.findSome?_cons]
  cases F.lookup none <;> rfl

theorem reg1_lookup_none (sst : List SMap) (F : SMap) (x : QName) (hx : x.pfx = none → needs x = false) :
    (reg1 sst F x).lookup none = F.lookup none := by
  unfold reg1
  split
  · rename_i hc
    rw [lookup_insert]
    have : (none : Option Str) ≠ x.pfx := by
      intro e
      have := hx e.symm
      simp [this] at hc
    simp [this]
  · rfl

theorem regAll_lookup_none (sst : List SMap) (xs : List QName) (F : SMap)
    (hx : ∀ x ∈ xs, x.pfx = none → needs x = false) :
    (regAll sst F xs).lookup none = F.lookup none := by
  induction xs generalizing F with
  | nil => rfl
  | cons x rest ih =>
    simp only [regAll, List.foldl_cons]
    have := ih (reg1 sst F x) (fun y hy => hx y (by simp [hy]))
    simp only [regAll] at this
    rw [this, reg1_lookup_none sst F x (hx x (by simp))]

theorem topFixed_default (sst : List SMap) (n : QName) (as : List Attr) (ht : TagOKP n as)
    (hn : needs n = false) : defaultBound (topFixed sst n as :: sst) = false := by
  have hpn : n.pfx = none ∧ n.ns = [] := by
    unfold needs at hn
    simp only [Bool.or_eq_false_iff, Option.isSome_eq_false_iff, Option.isNone_iff_eq_none, bne_eq_false_iff_eq] at hn
    exact hn
  have hattr : ∀ x ∈ as.map (·.name), x.pfx = none → needs x = false := by
    intro x hx hp
    obtain ⟨a, ha, rfl⟩ := List.mem_map.mp hx
    have := ((ht.attrs a ha).unprefixed hp).1
    simp [needs, hp, this]
  have h0 : reg1 sst [] n = [] := by unfold reg1; simp [hn]
  rw [defaultBound_cons]
  unfold topFixed
  simp only [h0]
  rw [regAll_lookup_none sst _ _ hattr]
  by_cases hc : defaultBound ([] :: sst) = true
  · simp [hpn.1, hpn.2, hc, lookup_insert]
  · have hc' : defaultBound ([] :: sst) = false := by simpa using hc
    simp only [hpn.1, hpn.2, hc', Option.isNone_none, beq_self_eq_true, Bool.and_false, Bool.false_eq_true, ↓reduceIte]
    rw [defaultBound_cons] at hc'
    simpa using hc'

theorem dedup_id (seen : List (Str × Str)) (l : List Attr)
    (hnd : ((l.filter (fun a => a.name.pfx.isSome)).map (fun a => (a.name.ns, a.name.loc))).Nodup)
    (hdis : ∀ a ∈ l, a.name.pfx.isSome = true → (a.name.ns, a.name.loc) ∉ seen) :
    dedupPrefixed seen l = l := by
  induction l generalizing seen with
  | nil => rfl
  | cons a rest ih =>
    unfold dedupPrefixed
    by_cases hp : a.name.pfx.isSome = true
    · have hns : (a.name.ns, a.name.loc) ∉ seen := hdis a (by simp) hp
      have hc : seen.contains (a.name.ns, a.name.loc) = false := by simpa using hns
      simp only [hp, ↓reduceIte, hc, Bool.false_eq_true]
      simp only [List.filter_cons, hp, ↓reduceIte, List.map_cons, List.nodup_cons] at hnd
      rw [ih _ hnd.2]
      intro b hb hbp
      simp only [List.mem_cons, not_or]
      refine ⟨?_, hdis b (by simp [hb]) hbp⟩
      intro e
      apply hnd.1
      rw [← e]
      exact List.mem_map.mpr ⟨b, List.mem_filter.mpr ⟨hb, hbp⟩, rfl⟩
    · simp only [hp, Bool.false_eq_true, ↓reduceIte]
      simp only [List.filter_cons, hp, Bool.false_eq_true, ↓reduceIte] at hnd
      rw [ih _ hnd (fun b hb hbp => hdis b (by simp [hb]) hbp)]

/-- serializer stack, parser stack and Spec environment walk in step -/
structure Rel (sst : List SMap) (pst : List NsMap) (env : List NsFrame) : Prop where
  stack : StackAgree pst env
  clean : ∀ f ∈ env, Clean f
  fa : FA sst env
  good : GoodStack sst

theorem envOf_dummy (env : List NsFrame) : envOf (env.map (fun f => (⟨[], [], f⟩ : Scope))) = env := by
  induction env <;> simp_all [envOf]

/-- **one element**: the tag the fixed serializer writes, lexed and run through `process_namespaces`
in the parser's current scope, gives back the element's own name and attribute list; and the three
stacks stay in step for the element's content -/
theorem elem_ok (sst : List SMap) (pst : List NsMap) (env : List NsFrame) (hR : Rel sst pst env)
    (n : QName) (as : List Attr) (ht : TagOKP n as) :
    (processNamespaces TbCfg.fixed pst
        (tagOf SerCfg.fixed LexCfg.fixed n (sortDecls (topFixed sst n as)) as)).name = n ∧
    (processNamespaces TbCfg.fixed pst
        (tagOf SerCfg.fixed LexCfg.fixed n (sortDecls (topFixed sst n as)) as)).attrs = as ∧
    Rel (topFixed sst n as :: sst)
      ((processNamespaces TbCfg.fixed pst
        (tagOf SerCfg.fixed LexCfg.fixed n (sortDecls (topFixed sst n as)) as)).map :: pst)
      (frameOf (tagOf SerCfg.fixed LexCfg.fixed n (sortDecls (topFixed sst n as)) as).attrs :: env) := by
  have hF := topFixed_good sst n as ht
  have hFs : GoodMap (sortDecls (topFixed sst n as)) := goodMap_perm (sortDecls_perm _) hF
  have htag := tagOf_fixed n as (sortDecls (topFixed sst n as)) hFs ht
  generalize hF' : topFixed sst n as = F at *
  have hnd : NoDupDecl (tagOf SerCfg.fixed LexCfg.fixed n (sortDecls F) as).attrs :=
    noDupDecl_of_nodup_names _ (C16_tok_no_dup_qname_fixed _)
  have hok : TagOK TbCfg.fixed (tagOf SerCfg.fixed LexCfg.fixed n (sortDecls F) as) := ⟨Or.inl rfl, hnd⟩
  obtain ⟨hbn, hba, hbm⟩ := processNamespaces_eq TbCfg.fixed pst (env.map (fun f => (⟨[], [], f⟩ : Scope)))
    (tagOf SerCfg.fixed LexCfg.fixed n (sortDecls F) as) hok
    (by rw [envOf_dummy]; exact hR.stack) (by rw [envOf_dummy]; exact hR.clean)
  rw [hbn, hba]
  unfold resolveTag
  simp only [envOf_dummy]
  rw [htag] at hbm ⊢
  simp only []
  -- the stacks for the content
  have hfa : FA (F :: sst) (frameOf ((declRAttrs (sortDecls F)).reverse ++ attrRAttrs as) :: env) :=
    ⟨frame_lookup F hF as ht.attrs, hR.fa⟩
  have hgood : GoodStack (F :: sst) := by
    intro G hG; simp at hG; rcases hG with rfl | hG; exact hF; exact hR.good G hG
  have hsat := topFixed_sat sst n as ht
  rw [hF'] at hsat
  refine ⟨?_, ?_, ?_⟩
  · -- the element name
    unfold resolveElemName
    simp only []
    by_cases hn : needs n = true
    · rw [lookupNs_sat (F :: sst) _ hfa hgood n (hsat n (by simp)) hn ht.name.xml ht.name.xmlns]
    · have hn' : needs n = false := by simpa using hn
      have hpn : n.pfx = none ∧ n.ns = [] := by
        unfold needs at hn'
        simp only [Bool.or_eq_false_iff, Option.isSome_eq_false_iff, Option.isNone_iff_eq_none, bne_eq_false_iff_eq] at hn'
        exact hn'
      have hd := topFixed_default sst n as ht hn'
      rw [hF'] at hd
      rw [hpn.1, lookupNs_default (F :: sst) _ hfa hgood hd]
      cases n; simp_all
  · -- the attributes
    unfold resolveAttrs
    have hfilt : ((declRAttrs (sortDecls F)).reverse ++ attrRAttrs as).filter (fun a => !isDecl a.name) =
        attrRAttrs as := by
      rw [List.filter_append, List.filter_reverse, filter_ndecl_D, filter_ndecl_A as ht.attrs]; simp
    rw [hfilt]
    generalize (frameOf ((declRAttrs (sortDecls F)).reverse ++ attrRAttrs as) :: env) = env' at hfa ⊢
    have hmap : (attrRAttrs as).map (fun a => (⟨resolveAttrName env' a.name, a.value⟩ : Attr)) = as := by
      unfold attrRAttrs
      rw [List.map_map]
      conv => rhs; rw [← List.map_id as]
      apply List.map_congr_left
      intro a ha
      simp only [Function.comp, id]
      have hao := ht.attrs a ha
      unfold resolveAttrName
      cases hp : a.name.pfx with
      | none =>
        have := (hao.unprefixed hp).1
        cases a with
        | mk nm v => cases nm; simp_all
      | some q =>
        simp only []
        have hn : needs a.name = true := by simp [needs, hp]
        have := lookupNs_sat (F :: sst) _ hfa hgood a.name (hsat a.name (by simp; right; exact ⟨a, ha, rfl⟩)) hn
          hao.xml (fun e => absurd e hao.notXmlns)
        rw [hp] at this
        rw [this]
        cases a with
        | mk nm v => cases nm; simp_all
    rw [hmap]
    exact dedup_id [] as ht.expanded (by simp)
  · exact ⟨by rw [stackAgree_cons]; exact ⟨hbm, hR.stack⟩,
      by intro f hf; simp at hf; rcases hf with rfl | hf; exact frameOf_clean _; exact hR.clean f hf,
      hfa, hgood⟩

/-! ### whole trees -/

mutual
/-- every tag of the tree is one the (fixed) parser can have produced -/
def treeOK : Node → Prop
  | .elem n as ks => TagOKP n as ∧ treesOK ks
  | _ => True
def treesOK : List Node → Prop
  | [] => True
  | n :: rest => treeOK n ∧ treesOK rest
end

mutual
theorem serNode_ok : ∀ (nd : Node) (sst : List SMap) (pst : List NsMap) (env : List NsFrame),
    Rel sst pst env → treeOK nd →
    okEvs SerCfg.fixed LexCfg.fixed TbCfg.fixed pst (serNode SerCfg.fixed sst nd).1 = true ∧
      (serNode SerCfg.fixed sst nd).2 = sst
  | .elem n as ks, sst, pst, env, hR, hT => by
    simp only [treeOK] at hT
    obtain ⟨ht, hks⟩ := hT
    obtain ⟨hbn, hba, hR'⟩ := elem_ok sst pst env hR n as ht
    have ih := serNodes_ok ks _ _ _ hR' hks
    have hsp := serNodes_spells SerCfg.fixed (topFixed sst n as :: sst) ks
    simp only [serNode, startElem_fixed, endElem_fixed]
    refine ⟨?_, by rw [ih.2]; rfl⟩
    simp only [List.cons_append, okEvs, hbn, hba, beq_self_eq_true, Bool.true_and]
    rw [okEvs_append SerCfg.fixed LexCfg.fixed TbCfg.fixed hsp, ih.1]
    simp [okEvs]
  | .text s, sst, pst, env, _, _ => by simp [serNode, okEvs]
  | .comment s, sst, pst, env, _, _ => by simp [serNode, okEvs]
  | .pi t d, sst, pst, env, _, _ => by simp [serNode, okEvs]
  | .doctype n p sy, sst, pst, env, _, _ => by simp [serNode, okEvs]
theorem serNodes_ok : ∀ (ns : List Node) (sst : List SMap) (pst : List NsMap) (env : List NsFrame),
    Rel sst pst env → treesOK ns →
    okEvs SerCfg.fixed LexCfg.fixed TbCfg.fixed pst (serNodes SerCfg.fixed sst ns).1 = true ∧
      (serNodes SerCfg.fixed sst ns).2 = sst
  | [], sst, pst, env, _, _ => by simp [serNodes, okEvs]
  | nd :: rest, sst, pst, env, hR, hT => by
    simp only [treesOK] at hT
    have h1 := serNode_ok nd sst pst env hR hT.1
    have hsp := serNode_spells SerCfg.fixed sst nd
    simp only [serNodes]
    rw [h1.2]
    have h2 := serNodes_ok rest sst pst env hR hT.2
    refine ⟨?_, h2.2⟩
    rw [okEvs_append SerCfg.fixed LexCfg.fixed TbCfg.fixed hsp, h1.1, h2.1]
    rfl
end

theorem rel_init : Rel [] [defaultMap] [] :=
  ⟨rfl, by simp, trivial, by intro F hF; simp at hF⟩

/-- **the fixed serializer declares everything**: for every tree whose tags are parser-produced, each
written start tag resolves, in the scope of the declarations written so far, to the element's own name
and attributes -/
theorem okEvs_fixed (doc : List Node) (h : treesOK doc) :
    okEvs SerCfg.fixed LexCfg.fixed TbCfg.fixed [defaultMap] (serDoc SerCfg.fixed doc) = true :=
  (serNodes_ok doc [] [defaultMap] [] rel_init h).1

end H5V.Lemmas.XmlSerFixed
