import H5V.Model.XmlSer
import H5V.Spec.XmlNs
import H5V.Lemmas.XmlNs
import H5V.Lemmas.XmlSer
import H5V.Props.C16
/-! Lemmas for C17 with every proposed serializer fix switched on (`SerCfg.fixed`): the declarations
written make every name of every tag resolve back to itself. -/
namespace H5V.Lemmas.XmlSerFixed
open H5V.Model.XmlTB H5V.Model.XmlSer H5V.Spec.XmlNs H5V.Lemmas.XmlNs H5V.Lemmas.XmlSer H5V.Props.C16

/-! ### association lists -/

theorem lookup_filter_ne {β : Type} (l : List (Option Str × β)) (k p : Option Str) (h : p ≠ k) :
    (l.filter (fun e => e.1 != k)).lookup p = l.lookup p := by
  induction l with
  | nil => rfl
  | cons e rest ih =>
    obtain ⟨k', v⟩ := e
    by_cases hk : k' = k
    · subst hk
      have : (p == k') = false := by simpa using h
      simp [List.filter_cons, List.lookup_cons, this, ih]
    · have : (k' != k) = true := by simpa using hk
      simp only [List.filter_cons, this, ↓reduceIte, List.lookup_cons, ih]

theorem lookup_insert (m : SMap) (k p : Option Str) (v : Str) :
    (m.insert k v).lookup p = if p = k then some v else m.lookup p := by
  unfold SMap.insert
  by_cases h : p = k
  · subst h; simp [List.lookup_cons]
  · have : (p == k) = false := by simpa using h
    simp only [List.lookup_cons, this, h, ↓reduceIte]
    exact lookup_filter_ne m k p h

theorem keys_filter_sub {β : Type} (l : List (Option Str × β)) (k : Option Str) (x : Option Str)
    (hx : x ∈ (l.filter (fun e => e.1 != k)).map Prod.fst) : x ∈ l.map Prod.fst ∧ x ≠ k := by
  obtain ⟨e, he, rfl⟩ := List.mem_map.mp hx
  have := List.mem_filter.mp he
  exact ⟨List.mem_map.mpr ⟨e, this.1, rfl⟩, by simpa using this.2⟩

theorem nodup_filter_keys {β : Type} (l : List (Option Str × β)) (k : Option Str)
    (h : (l.map Prod.fst).Nodup) : ((l.filter (fun e => e.1 != k)).map Prod.fst).Nodup := by
  induction l with
  | nil => simp
  | cons e rest ih =>
    simp only [List.map_cons, List.nodup_cons] at h
    simp only [List.filter_cons]
    split
    · simp only [List.map_cons, List.nodup_cons]
      exact ⟨fun hm => h.1 (keys_filter_sub rest k _ hm).1, ih h.2⟩
    · exact ih h.2

theorem nodup_insert (m : SMap) (k : Option Str) (v : Str) (h : (m.map Prod.fst).Nodup) :
    ((m.insert k v).map Prod.fst).Nodup := by
  unfold SMap.insert
  simp only [List.map_cons, List.nodup_cons]
  exact ⟨fun hm => (keys_filter_sub m k k hm).2 rfl, nodup_filter_keys m k h⟩

theorem lookup_some_of_mem {β : Type} (l : List (Option Str × β)) (p : Option Str) (v : β)
    (hnd : (l.map Prod.fst).Nodup) (h : (p, v) ∈ l) : l.lookup p = some v := by
  induction l with
  | nil => simp at h
  | cons e rest ih =>
    obtain ⟨k', v'⟩ := e
    simp only [List.map_cons, List.nodup_cons] at hnd
    simp only [List.mem_cons, Prod.mk.injEq] at h
    rw [List.lookup_cons]
    rcases h with ⟨rfl, rfl⟩ | h
    · simp
    · have hne : p ≠ k' := by
        intro e; subst e
        exact hnd.1 (List.mem_map.mpr ⟨(p, v), h, rfl⟩)
      have : (p == k') = false := by simpa using hne
      simp only [this]
      exact ih hnd.2 h

theorem mem_of_lookup_some {β : Type} (l : List (Option Str × β)) (p : Option Str) (v : β)
    (h : l.lookup p = some v) : (p, v) ∈ l := by
  induction l with
  | nil => simp at h
  | cons e rest ih =>
    obtain ⟨k', v'⟩ := e
    rw [List.lookup_cons] at h
    by_cases hk : p = k'
    · subst hk; simp at h; subst h; simp
    · have : (p == k') = false := by simpa using hk
      simp only [this] at h
      exact List.mem_cons_of_mem _ (ih h)

/-- two association lists with distinct keys and the same entries answer every lookup alike -/
theorem lookup_congr_of_mem {β : Type} (l1 l2 : List (Option Str × β))
    (h1 : (l1.map Prod.fst).Nodup) (h2 : (l2.map Prod.fst).Nodup)
    (h : ∀ e, e ∈ l1 ↔ e ∈ l2) (p : Option Str) : l1.lookup p = l2.lookup p := by
  match hl : l1.lookup p with
  | some v =>
    exact (lookup_some_of_mem l2 p v h2 ((h _).mp (mem_of_lookup_some l1 p v hl))).symm
  | none =>
    match hr : l2.lookup p with
    | none => rfl
    | some v =>
      have := lookup_some_of_mem l1 p v h1 ((h _).mpr (mem_of_lookup_some l2 p v hr))
      rw [hl] at this; cases this

/-! ### `sortDecls` is a permutation -/

theorem insertSorted_perm (e : Option Str × Str) (l : SMap) : (insertSorted e l).Perm (e :: l) := by
  induction l with
  | nil => exact List.Perm.refl _
  | cons x rest ih =>
    unfold insertSorted
    split
    · exact List.Perm.refl _
    · exact (List.Perm.cons x ih).trans (List.Perm.swap e x rest)

theorem sortDecls_perm (m : SMap) : (sortDecls m).Perm m := by
  unfold sortDecls
  induction m with
  | nil => exact List.Perm.refl _
  | cons e rest ih =>
    simp only [List.foldr_cons]
    exact (insertSorted_perm e _).trans (List.Perm.cons e ih)

end H5V.Lemmas.XmlSerFixed
