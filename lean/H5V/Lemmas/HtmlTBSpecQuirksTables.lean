import H5V.Spec.TreeAlgo
import H5V.Lemmas.HtmlTBTables
/-!
(a) the DOCTYPE → quirks-mode decision, part 1: the model's quirks tables are the standard's,
lower-cased (kernel-evaluated facts, kept in their own file because they are slow).
-/
namespace H5V.Lemmas.HtmlTBSpec
open H5V.Model.HtmlTB
open H5V.Model.Dom (QuirksMode)
open H5V.Lemmas.HtmlTBTables

def toQuirks : Spec.TreeAlgo.DocMode → QuirksMode
  | .noQuirks => .noQuirks
  | .limitedQuirks => .limitedQuirks
  | .quirks => .quirks

theorem lower_eq : Spec.TreeAlgo.lower = asciiLower := rfl

/-- ASCII lower-casing of a table string -/
def lowerS (s : String) : String := String.ofList (s.toList.map asciiLower)

theorem lowerS_toList (s : String) : (lowerS s).toList = s.toList.map asciiLower := by
  simp [lowerS]

theorem any_of_sameSet {α : Type} [BEq α] [LawfulBEq α] {a b : List α} (h : sameSet a b = true) (f : α → Bool) :
    a.any f = b.any f := by
  apply Bool.eq_iff_iff.mpr
  simp only [List.any_eq_true]
  constructor
  · rintro ⟨x, hx, hf⟩; exact ⟨x, (sameSet_mem h x).mp hx, hf⟩
  · rintro ⟨x, hx, hf⟩; exact ⟨x, (sameSet_mem h x).mpr hx, hf⟩

theorem listContains_lower (l : List String) (p : Str) :
    listContains (l.map lowerS) (p.map asciiLower) = l.any (Spec.TreeAlgo.eqCI p) := by
  simp only [listContains, List.any_map]
  congr 1; funext x
  simp only [Function.comp, lowerS_toList]
  exact BEq.comm

theorem containsPfx_lower (l : List String) (p : Str) :
    containsPfx (l.map lowerS) (p.map asciiLower) = l.any (Spec.TreeAlgo.startsWithCI p) := by
  simp only [containsPfx, List.any_map]
  congr 1; funext x
  simp only [Function.comp, lowerS_toList]
  rfl

/-- the model's tables are the standard's, lower-cased -/
theorem quirks_tables_eq :
    quirkyPublicMatches = Spec.TreeTables.quirksPublicIds.map lowerS ∧
    quirkySystemMatches = Spec.TreeTables.quirksSystemIds.map lowerS ∧
    limitedQuirkyPublicPrefixes = Spec.TreeTables.limitedQuirksPublicPrefixes.map lowerS ∧
    html4PublicPrefixes = Spec.TreeTables.html401PublicPrefixes.map lowerS := by decide +kernel

/-- the 55 prefixes of the standard, lower-cased (`quirks_prefixes_lower` proves that this is
`Spec.quirksPublicPrefixes.map lowerS`; it only exists to keep the kernel evaluation linear) -/
def quirksPublicPrefixesLower : List String := [
  "+//silmaril//dtd html pro v0r11 19970101//",
  "-//as//dtd html 3.0 aswedit + extensions//",
  "-//advasoft ltd//dtd html 3.0 aswedit + extensions//",
  "-//ietf//dtd html 2.0 level 1//",
  "-//ietf//dtd html 2.0 level 2//",
  "-//ietf//dtd html 2.0 strict level 1//",
  "-//ietf//dtd html 2.0 strict level 2//",
  "-//ietf//dtd html 2.0 strict//",
  "-//ietf//dtd html 2.0//",
  "-//ietf//dtd html 2.1e//",
  "-//ietf//dtd html 3.0//",
  "-//ietf//dtd html 3.2 final//",
  "-//ietf//dtd html 3.2//",
  "-//ietf//dtd html 3//",
  "-//ietf//dtd html level 0//",
  "-//ietf//dtd html level 1//",
  "-//ietf//dtd html level 2//",
  "-//ietf//dtd html level 3//",
  "-//ietf//dtd html strict level 0//",
  "-//ietf//dtd html strict level 1//",
  "-//ietf//dtd html strict level 2//",
  "-//ietf//dtd html strict level 3//",
  "-//ietf//dtd html strict//",
  "-//ietf//dtd html//",
  "-//metrius//dtd metrius presentational//",
  "-//microsoft//dtd internet explorer 2.0 html strict//",
  "-//microsoft//dtd internet explorer 2.0 html//",
  "-//microsoft//dtd internet explorer 2.0 tables//",
  "-//microsoft//dtd internet explorer 3.0 html strict//",
  "-//microsoft//dtd internet explorer 3.0 html//",
  "-//microsoft//dtd internet explorer 3.0 tables//",
  "-//netscape comm. corp.//dtd html//",
  "-//netscape comm. corp.//dtd strict html//",
  "-//o'reilly and associates//dtd html 2.0//",
  "-//o'reilly and associates//dtd html extended 1.0//",
  "-//o'reilly and associates//dtd html extended relaxed 1.0//",
  "-//sq//dtd html 2.0 hotmetal + extensions//",
  "-//softquad software//dtd hotmetal pro 6.0::19990601::extensions to html 4.0//",
  "-//softquad//dtd hotmetal pro 4.0::19971010::extensions to html 4.0//",
  "-//spyglass//dtd html 2.0 extended//",
  "-//sun microsystems corp.//dtd hotjava html//",
  "-//sun microsystems corp.//dtd hotjava strict html//",
  "-//w3c//dtd html 3 1995-03-24//",
  "-//w3c//dtd html 3.2 draft//",
  "-//w3c//dtd html 3.2 final//",
  "-//w3c//dtd html 3.2//",
  "-//w3c//dtd html 3.2s draft//",
  "-//w3c//dtd html 4.0 frameset//",
  "-//w3c//dtd html 4.0 transitional//",
  "-//w3c//dtd html experimental 19960712//",
  "-//w3c//dtd html experimental 970421//",
  "-//w3c//dtd w3 html//",
  "-//w3o//dtd w3 html 3.0//",
  "-//webtechs//dtd mozilla html 2.0//",
  "-//webtechs//dtd mozilla html//"]


theorem quirks_prefixes_lower : Spec.TreeTables.quirksPublicPrefixes.map lowerS = quirksPublicPrefixesLower := by
  decide +kernel

theorem quirks_prefixes_sameSet : sameSet quirkyPublicPrefixes quirksPublicPrefixesLower = true := by
  decide +kernel

end H5V.Lemmas.HtmlTBSpec
