import H5V.Lemmas.HtmlTBModesPrimIns
import H5V.Lemmas.HtmlTBModesPrimPop
/-!
The small insertion modes, part 1: "initial", "before html", "before head", "in head noscript",
"after head", "text" — `ModeSim` / `ModeCharSim` of `HtmlTBModesDefs`.
-/
namespace H5V.Lemmas.HtmlTBModes
open H5V.Model.HtmlTB
open H5V.Model.Dom (Id SinkOp Output Dom QualName Attr NodeOrText ElementFlags NodeData QuirksMode)
open H5V.Lemmas.HtmlTBAlgo
open H5V.Lemmas.TBSafe (TI HInv SInv Rooted)
open H5V.Spec.TreeAlgo2 (Elem Entry PState Ctx Edit Place)
open H5V.Spec.TreeModes (STok ETok IMode Config Out TokSwitch XOp Op Step Edition)

/-! ### generalities -/

/-- the model's and the specification's whitespace tests agree -/
theorem isWs_eq (c : Char) : Spec.TreeModes.isWs c = isAsciiWhitespace c := by
  simp only [Spec.TreeModes.isWs, isAsciiWhitespace]
  by_cases h1 : c = ' ' <;> by_cases h2 : c = '\t' <;> by_cases h3 : c = '\n' <;> by_cases h4 : c = '\x0c' <;>
    by_cases h5 : c = '\r' <;> simp [h1, h2, h3, h4, h5]

theorem isDoctype_stokOf (tok : Token) : isDoctype (stokOf tok) = false := by
  cases tok with
  | tag t => simp only [stokOf, stokOfTag]; split <;> rfl
  | _ => rfl

/-- outside the table modes, for a token that is not a DOCTYPE, html5ever's rules are the standard's -/
theorem byModeDev_eq_byMode (cfg : Config Id) (σ : SState) (tok : STok) (hd : isDoctype tok = false)
    (h1 : σ.mode ≠ .inTable) (h2 : σ.mode ≠ .inTableBody) (h3 : σ.mode ≠ .inRow) (hc : σ.mode ≠ .inCell) :
    byModeDev cfg σ tok = Spec.TreeModes.byMode cfg σ tok :=
  byModeDev_eq cfg σ tok (cellAssertFails_of_mode σ tok hc)

theorem dispatchDev_char {cfg : Config Id} {σ : SState} {c : Char}
    (h : Spec.TreeAlgo.useHtmlRules (Spec.TreeModes.adjustedCurrentNode cfg σ) .character = true) :
    dispatchDev cfg σ (.character c) = byModeDev cfg σ (.character c) := by
  simp only [dispatchDev, Spec.TreeModes.tokenKind, h, if_true]

theorem Tr.withMode {s s' : State} {calls : List Call} {R : Aux → Aux → Prop} (h : Tr s s' calls R) (m : Mode) :
    Tr s { s' with mode := m } calls R := by
  obtain ⟨hm, hc, he, ids, hfi, f⟩ := h
  refine ⟨hm.withMode m, hc, he, ids, hfi, fun x rest hx hs => ?_⟩
  obtain ⟨x', l, r⟩ := f x rest hx hs
  exact ⟨x', ⟨l.aux.withMode m, l.supply, l.switch, l.script, l.outs, l.log⟩, r⟩

/-- a rule that ends with "reprocess the token" (non-character token) -/
theorem tokPost_of_reprocess {spec : SState → Spec.TreeModes.M (Step Id)} {s s' : State} {tok : Token}
    {calls : List Call} {m : Mode}
    (h : Tr s s' calls (fun x x' => spec (absF s x) = .ok (.reprocess (absF { s' with mode := m } x')))) :
    TokPost spec s tok (.reprocess m tok) s' calls :=
  tokPost_of_tr h rfl fun _ x' _ _ r => ⟨x', r, AuxSame.rfl', Or.inl rfl, rfl, rfl⟩

/-- a rule that ends with "reprocess the token" (run of characters) -/
theorem charsPost_of_reprocess {rule : SState → STok → Spec.TreeModes.M (Step Id)} {s s' : State} {st : SplitStatus}
    {text : Str} {calls : List Call} {m : Mode} {c : Char} {cs : Str} (htext : text = c :: cs)
    (hlf : s'.ignoreLf = s.ignoreLf)
    (h : Tr s s' calls (fun x x' => rule (absF s x) (.character c) = .ok (.reprocess (absF { s' with mode := m } x')))) :
    CharsPost rule s st text (.reprocess m (.chars st text)) s' calls :=
  ⟨rfl, hlf, c, cs, htext, h.withMode m⟩

/-- the final abstract state of a rule: new mode, parse errors, junk -/
theorem absF_fin (s : State) (x : Aux) (m : Mode) (E : List String) (J : Str) (hm : (m == .inTableText) = false) :
    absF { s with mode := m } { x with errors := E, pendingJunk := J }
      = { absF s x with mode := imode m, errors := E, pendingTableChars := J } := by
  simp only [absF, hm]
  rfl

/-- `unexpected`, with the fact that the fields of the tree builder are unchanged -/
theorem pc_unexpected' {s : State} (hm : MInv s) :
    PC unexpected s (fun r s' calls => r = .done ∧ SameTB s s' ∧
      Tr s s' calls (fun x x' => x' = x ∧ absF s x = absF s' x)) := by
  unfold unexpected
  refine pc_seq (PC.of_tot (tot_parseError s _)) ?_
  rintro _ s1 c1 he ⟨-, hs, hc⟩
  refine pc_pure ⟨rfl, hs, ?_⟩
  rw [List.append_nil]
  exact Tr.of_same hm hs he (by rw [← edits2_edits, hc]; rfl)

/-- the final `Aux` of a rule: new parse errors; the junk table text is what the abstract state has -/
def Aux.fin (s' : State) (x' : Aux) (E : List String) : Aux :=
  { x' with errors := E, pendingJunk := (absF s' x').pendingTableChars }

theorem absF_fin' (s' : State) (x' : Aux) (E : List String) (m : Mode) (hm : (m == .inTableText) = false) :
    absF { s' with mode := m } (x'.fin s' E) = { absF s' x' with mode := imode m, errors := E } :=
  absF_fin s' x' m E _ hm

theorem Aux.fin_same (s' : State) (x' : Aux) (E : List String) :
    AuxSame x' (x'.fin s' E) ∧ (x'.fin s' E).stopped = x'.stopped ∧ (x'.fin s' E).out.switch = x'.out.switch ∧
      (x'.fin s' E).out.script = x'.out.script :=
  ⟨⟨rfl, rfl, rfl, rfl, rfl⟩, rfl, rfl, rfl⟩

/-- "Parse error. Ignore the token." -/
theorem pc_unexpected_tokPost {s : State} (hm : MInv s) (tok : Token) (w : String) :
    PC unexpected s (TokPost (fun σ => pure (Step.done (Spec.TreeModes.State.err σ w))) s tok) := by
  refine pc_conseq (pc_unexpected hm) ?_
  rintro r s' calls _ ⟨rfl, htr⟩
  refine tokPost_of_tr htr trivial ?_
  rintro x x' hx hx' ⟨hr, he⟩
  subst x'
  refine ⟨{ x with errors := x.errors ++ [w] }, ?_, ⟨rfl, rfl, rfl, rfl, rfl⟩, Or.inl rfl, rfl, rfl⟩
  simp only [stepOf, he]
  rfl

/-- from a run delegated to another rule function (`CharsPostK`) to the run of the delegating mode -/
theorem charsPost_of_K {rule : SState → STok → Spec.TreeModes.M (Step Id)} {s : State} {st : SplitStatus} {text : Str}
    {res : ProcessResult} {s' : State} {calls : List Call} (h : CharsPostK rule s st text res s' calls)
    (h1 : ∀ x, AuxOk s x → ∀ c ∈ text, byModeDev (cfgOf s) (absF s x) (.character c) = rule (absF s x) (.character c))
    (hd : ∀ x, AuxOk s x → ∀ σ1 c, c ∈ text → σ1.mode = (absF s x).mode →
      Spec.TreeAlgo.useHtmlRules (Spec.TreeModes.adjustedCurrentNode (cfgOf s) σ1) .character = true →
      dispatchDev (cfgOf s) σ1 (.character c) = rule σ1 (.character c)) :
    CharsPost (byModeDev (cfgOf s)) s st text res s' calls := by
  cases res with
  | done =>
    obtain ⟨hlf, htr⟩ := h
    exact ⟨hlf, htr.conseq fun x x' hx _ hr => specChars_of_run hr (h1 x hx) (hd x hx)⟩
  | splitWhitespace t' => exact h
  | reprocess m' tok' =>
    obtain ⟨e1, e2, c, cs, e3, htr⟩ := h
    refine ⟨e1, e2, c, cs, e3, htr.conseq fun x x' hx _ hr => ?_⟩
    rw [h1 x hx c (by rw [e3]; exact List.mem_cons_self)]
    exact hr
  | _ => exact h.elim

/-! ### runs of characters -/

theorem insertChar_ok {σ σ1 : SState} {c : Char} (h : Spec.TreeModes.insertChar σ c = .ok σ1) :
    σ1.mode = σ.mode ∧ σ1.stopped = σ.stopped ∧ σ1.ignoreLf = σ.ignoreLf ∧
      ∀ cfg : Config Id, Spec.TreeModes.adjustedCurrentNode cfg σ1 = Spec.TreeModes.adjustedCurrentNode cfg σ := by
  unfold Spec.TreeModes.insertChar Spec.TreeAlgo2.insertCharacters at h
  cases hp : Spec.TreeAlgo2.appropriatePlace σ.p.stack σ.p.fosterParenting none with
  | none => rw [hp] at h; cases h
  | some place =>
    rw [hp] at h
    have e : σ1 = { σ with p := { σ.p with log := σ.p.log ++ [Edit.insertText place [c]] } } := by
      cases h; rfl
    subst e
    exact ⟨rfl, rfl, rfl, fun _ => rfl⟩

/-- every character is inserted: the run of the specification -/
theorem charsRunK_fold {cfg : Config Id} {rule : SState → STok → Spec.TreeModes.M (Step Id)} {m : IMode} {text : Str}
    (hrule : ∀ σ c, c ∈ text → σ.mode = m → rule σ (.character c) = Step.done <$> Spec.TreeModes.insertChar σ c) :
    ∀ (t : Str) (σ σ' : SState), (∀ c ∈ t, c ∈ text) → σ.mode = m → σ.stopped = false → σ.ignoreLf = false →
      Spec.TreeAlgo.useHtmlRules (Spec.TreeModes.adjustedCurrentNode cfg σ) .character = true →
      t.foldlM (fun σ c => Spec.TreeModes.insertChar σ c) σ = .ok σ' → CharsRunK cfg rule σ t σ' := by
  intro t
  induction t with
  | nil =>
    intro σ σ' _ _ _ _ _ h
    cases h
    exact CharsRunK.nil σ
  | cons c r ih =>
    intro σ σ' hsub hmode hst hlf hu h
    rw [List.foldlM_cons] at h
    cases h1 : Spec.TreeModes.insertChar σ c with
    | error e => rw [h1] at h; cases h
    | ok σ1 =>
      rw [h1] at h
      obtain ⟨e1, e2, e3, e4⟩ := insertChar_ok h1
      refine CharsRunK.cons (by rw [hrule σ c (hsub c List.mem_cons_self) hmode, h1]; rfl) e1 (e2.trans hst)
        (e3.trans hlf) (by rw [e4]; exact hu) ?_
      exact ih σ1 σ' (fun c hc => hsub c (List.mem_cons_of_mem _ hc)) (e1.trans hmode) (e2.trans hst) (e3.trans hlf)
        (by rw [e4]; exact hu) h

theorem specChars_insert {cfg : Config Id} {m : IMode} {text : Str} {σ σ' : SState}
    (hrule : ∀ σ c, c ∈ text → σ.mode = m → byModeDev cfg σ (.character c) = Step.done <$> Spec.TreeModes.insertChar σ c)
    (hmode : σ.mode = m) (hst : σ.stopped = false) (hlf : σ.ignoreLf = false)
    (hu : Spec.TreeAlgo.useHtmlRules (Spec.TreeModes.adjustedCurrentNode cfg σ) .character = true)
    (hfold : text.foldlM (fun σ c => Spec.TreeModes.insertChar σ c) σ = .ok σ') :
    specChars cfg (byModeDev cfg) σ text = .ok σ' :=
  specChars_of_run (charsRunK_fold hrule text σ σ' (fun _ h => h) hmode hst hlf hu hfold) (fun _ _ => rfl)
    (fun _ _ _ _ hu1 => dispatchDev_char hu1)

/-- every character is ignored: the run of the specification -/
theorem charsRunK_const {cfg : Config Id} {rule : SState → STok → Spec.TreeModes.M (Step Id)} {σ : SState}
    (hst : σ.stopped = false) (hlf : σ.ignoreLf = false)
    (hu : Spec.TreeAlgo.useHtmlRules (Spec.TreeModes.adjustedCurrentNode cfg σ) .character = true) :
    ∀ (t : Str), (∀ c ∈ t, rule σ (.character c) = .ok (.done σ)) → CharsRunK cfg rule σ t σ
  | [], _ => CharsRunK.nil σ
  | c :: r, h => CharsRunK.cons (h c List.mem_cons_self) rfl hst hlf hu
      (charsRunK_const hst hlf hu r fun c hc => h c (List.mem_cons_of_mem _ hc))

theorem specChars_ignore {cfg : Config Id} {text : Str} {σ : SState}
    (hrule : ∀ c ∈ text, byModeDev cfg σ (.character c) = .ok (.done σ))
    (hst : σ.stopped = false) (hlf : σ.ignoreLf = false)
    (hu : Spec.TreeAlgo.useHtmlRules (Spec.TreeModes.adjustedCurrentNode cfg σ) .character = true) :
    specChars cfg (byModeDev cfg) σ text = .ok σ :=
  specChars_of_run (charsRunK_const hst hlf hu text hrule) (fun _ _ => rfl) (fun _ _ _ _ hu1 => dispatchDev_char hu1)

/-- a run of whitespace that the mode ignores -/
theorem pc_chars_ignored {s : State} (hm : MInv s) (hlf : s.ignoreLf = false) {st : SplitStatus} {text : Str}
    (hu : ∀ x, AuxOk s x → Spec.TreeAlgo.useHtmlRules (Spec.TreeModes.adjustedCurrentNode (cfgOf s) (absF s x)) .character = true)
    (hrule : ∀ x, AuxOk s x → ∀ c ∈ text, byModeDev (cfgOf s) (absF s x) (.character c) = .ok (.done (absF s x))) :
    PC (pure ProcessResult.done : M ProcessResult) s (CharsPost (byModeDev (cfgOf s)) s st text) := by
  refine pc_pure ⟨rfl, (Tr.refl hm).conseq ?_⟩
  intro x x' hx _ hxx
  subst x'
  exact specChars_ignore (hrule x hx) hx.live hlf (hu x hx)

/-- a run that is not split yet -/
theorem pc_chars_split {rule : SState → STok → Spec.TreeModes.M (Step Id)} {s : State} (hm : MInv s) (text : Str) :
    PC (pure (ProcessResult.splitWhitespace text) : M ProcessResult) s (CharsPost rule s .notSplit text) :=
  pc_pure ⟨rfl, rfl, rfl, (Tr.refl hm).conseq fun _ _ _ _ h => ⟨h, rfl⟩⟩

/-! ### "initial" -/

theorem byModeDev_initial (cfg : Config Id) {σ : SState} (hm : σ.mode = .initial) {tok : STok} (hd : isDoctype tok = false) :
    byModeDev cfg σ tok = Spec.TreeModes.initial cfg σ tok := by
  rw [byModeDev_eq_byMode cfg σ tok hd (by simp [hm]) (by simp [hm]) (by simp [hm]) (by simp [hm])]
  simp only [Spec.TreeModes.byMode, hm]

/-- "anything else" of `stepInitial` -/
def initialElseM (tok : Token) : M ProcessResult := do
  if !(← getS).opts.iframeSrcdoc then
    let _ ← unexpected
    setQuirksMode .quirks
  pure (.reprocess .beforeHtml tok)

theorem pc_initialElse {s : State} (hm : MInv s) (tok : Token) :
    PC (initialElseM tok) s (fun r s' calls => r = .reprocess .beforeHtml tok ∧ s'.ignoreLf = s.ignoreLf ∧
      Tr s s' calls (fun x x' => Spec.TreeModes.initial (cfgOf s) (absF s x) .eof
        = .ok (.reprocess (absF { s' with mode := .beforeHtml } x')))) := by
  unfold initialElseM
  refine pc_getS_bind ?_
  by_cases hsrc : s.opts.iframeSrcdoc = true
  · simp only [hsrc, Bool.not_true, Bool.false_eq_true, if_false]
    refine pc_pure ⟨rfl, rfl, ?_⟩
    refine (Tr.refl hm).reaux (fun x x' => { x' with pendingJunk := (absF s x).pendingTableChars })
      (fun _ _ => ⟨⟨rfl, rfl, rfl, rfl, rfl⟩, rfl, rfl, rfl⟩) ?_
    intro x x' hx _ hxx
    subst x'
    simp only [Spec.TreeModes.initial, cfgOf, hsrc, Bool.not_true, Bool.false_eq_true, if_false]
    rfl
  · have hsrc' : s.opts.iframeSrcdoc = false := by simpa using hsrc
    simp only [hsrc', Bool.not_false, if_true]
    refine pc_seq (pc_unexpected' hm) ?_
    rintro _ s1 c1 he1 ⟨-, hs1, htr1⟩
    refine pc_seq (pc_setQuirksMode htr1.1 .quirks (fun h => by cases h)) ?_
    rintro _ s2 c2 he2 ⟨hs2, htr2⟩
    refine pc_pure ⟨rfl, ?_, ?_⟩
    · rw [hs2]; exact hs1.fields.ignoreLf
    · rw [List.append_nil]
      refine (htr1.trans htr2).reaux
        (fun x x' => { x' with errors := x.errors ++ ["initial: no doctype"], pendingJunk := (absF s x).pendingTableChars })
        (fun _ _ => ⟨⟨rfl, rfl, rfl, rfl, rfl⟩, rfl, rfl, rfl⟩) ?_
      rintro x x' hx hx' ⟨x1, ⟨hxx, e1⟩, e2⟩
      subst x1
      rw [absF_fin s2 x' .beforeHtml _ _ rfl, e2, ← e1]
      simp only [Spec.TreeModes.initial, cfgOf, hsrc', Bool.not_false, if_true]
      rfl

theorem sim_initial : StepSimTok stepInitial Spec.TreeModes.initial := by
  intro tok hch hwf s hm
  have helse : ∀ tok' : Token, (∀ σ : SState, Spec.TreeModes.initial (cfgOf s) σ (stokOf tok') = Spec.TreeModes.initial (cfgOf s) σ .eof) →
      PC (initialElseM tok') s (TokPost (fun σ => Spec.TreeModes.initial (cfgOf s) σ (stokOf tok')) s tok') := by
    intro tok' h
    refine pc_conseq (pc_initialElse hm tok') ?_
    rintro r s' calls _ ⟨rfl, -, htr⟩
    exact tokPost_of_reprocess (htr.conseq fun x x' _ _ e => by rw [h]; exact e)
  cases tok with
  | chars st text => cases hch
  | comment text =>
    show PC (appendCommentToDoc text) s _
    refine pc_conseq (pc_appendCommentToDoc hm text) ?_
    rintro r s' calls _ ⟨rfl, -, htr⟩
    refine tokPost_of_tr htr trivial ?_
    intro x x' hx hx' hr
    refine ⟨x', ?_, AuxSame.rfl', Or.inl rfl, rfl, rfl⟩
    simp only [stokOf, Spec.TreeModes.initial, hr]
    rfl
  | eof => exact helse .eof fun _ => rfl
  | nullChar =>
    refine helse .nullChar fun σ => ?_
    have : Spec.TreeModes.isWs '\x00' = false := by decide
    simp only [stokOf, Spec.TreeModes.initial, this]
    rfl
  | tag t =>
    refine helse (.tag t) fun σ => ?_
    simp only [stokOf, stokOfTag]
    split <;> rfl

theorem modeSim_initial : ModeSim .initial := by
  intro tok hch hwf s hti hm hmode _
  exact pc_tokPost_congr (sim_initial tok hch hwf s hm) fun x _ =>
    byModeDev_initial _ (by simp only [absF, hmode, imode]) (isDoctype_stokOf tok)

theorem modeCharSim_initial : ModeCharSim .initial := by
  intro st text hwf s hti hm hmode hlf hu
  obtain ⟨hne, hnul, hcls⟩ := hwf
  have hσ : ∀ x, (absF s x).mode = .initial := fun x => by simp only [absF, hmode, imode]
  cases st with
  | notSplit => exact pc_chars_split hm text
  | whitespace =>
    refine pc_chars_ignored hm hlf hu ?_
    intro x hx c hc
    rw [byModeDev_initial _ (hσ x) rfl]
    simp only [Spec.TreeModes.initial, isWs_eq, hcls c hc, if_true]
    rfl
  | notWhitespace =>
    cases text with
    | nil => exact absurd rfl hne
    | cons c cs =>
      show PC (initialElseM (.chars .notWhitespace (c :: cs))) s _
      refine pc_conseq (pc_initialElse hm _) ?_
      rintro r s' calls _ ⟨rfl, hlf', htr⟩
      refine charsPost_of_reprocess rfl hlf' (htr.conseq ?_)
      intro x x' hx _ h
      rw [byModeDev_initial _ (hσ x) rfl, ← h]
      simp only [Spec.TreeModes.initial, isWs_eq, hcls c (by simp), Bool.false_eq_true, if_false]

/-! ### "before html" -/

theorem byModeDev_beforeHtml (cfg : Config Id) {σ : SState} (hm : σ.mode = .beforeHtml) {tok : STok}
    (hd : isDoctype tok = false) : byModeDev cfg σ tok = Spec.TreeModes.beforeHtml cfg σ tok := by
  rw [byModeDev_eq_byMode cfg σ tok hd (by simp [hm]) (by simp [hm]) (by simp [hm]) (by simp [hm])]
  simp only [Spec.TreeModes.byMode, hm]

/-- "anything else" of `stepBeforeHtml` -/
def beforeHtmlElseM (tok : Token) : M ProcessResult := do
  createRoot []
  pure (.reprocess .beforeHead tok)

theorem pc_beforeHtmlElse {s : State} (hm : MInv s) (tok : Token) :
    PC (beforeHtmlElseM tok) s (fun r s' calls => r = .reprocess .beforeHead tok ∧ s'.ignoreLf = s.ignoreLf ∧
      Tr s s' calls (fun x x' => Spec.TreeModes.beforeHtml (cfgOf s) (absF s x) .eof
        = .ok (.reprocess (absF { s' with mode := .beforeHead } x')))) := by
  unfold beforeHtmlElseM
  refine pc_seq (pc_createRoot_bare hm) ?_
  rintro _ s1 c1 he1 ⟨a, f, ho, hfresh, hel, hnm, htr⟩
  refine pc_pure ⟨rfl, f.ignoreLf, ?_⟩
  rw [List.append_nil]
  refine htr.reaux (fun _ x' => x'.fin s1 x'.errors) (fun _ x' => x'.fin_same s1 _) ?_
  intro x x' hx hx' h
  rw [absF_fin' s1 x' _ .beforeHead rfl]
  simp only [Spec.TreeModes.beforeHtml, h]
  rfl

theorem stepBeforeHtml_tag (t : Tag) : stepBeforeHtml (.tag t) =
    (if t.isStart ["html"] then do
      createRoot t.attrs
      setMode .beforeHead
      pure .done
    else if t.isEnd ["head", "body", "html", "br"] then beforeHtmlElseM (.tag t)
    else if t.kind == .endTag then unexpected
    else beforeHtmlElseM (.tag t)) := rfl

theorem sim_beforeHtml : StepSimTok stepBeforeHtml Spec.TreeModes.beforeHtml := by
  intro tok hch hwf s hm
  have helse : ∀ tok' : Token, (∀ σ : SState, Spec.TreeModes.beforeHtml (cfgOf s) σ (stokOf tok') = Spec.TreeModes.beforeHtml (cfgOf s) σ .eof) →
      PC (beforeHtmlElseM tok') s (TokPost (fun σ => Spec.TreeModes.beforeHtml (cfgOf s) σ (stokOf tok')) s tok') := by
    intro tok' h
    refine pc_conseq (pc_beforeHtmlElse hm tok') ?_
    rintro r s' calls _ ⟨rfl, -, htr⟩
    exact tokPost_of_reprocess (htr.conseq fun x x' _ _ e => by rw [h]; exact e)
  cases tok with
  | chars st text => cases hch
  | comment text =>
    show PC (appendCommentToDoc text) s _
    refine pc_conseq (pc_appendCommentToDoc hm text) ?_
    rintro r s' calls _ ⟨rfl, -, htr⟩
    refine tokPost_of_tr htr trivial ?_
    intro x x' hx hx' hr
    refine ⟨x', ?_, AuxSame.rfl', Or.inl rfl, rfl, rfl⟩
    simp only [stokOf, Spec.TreeModes.beforeHtml, hr]
    rfl
  | eof => exact helse .eof fun _ => rfl
  | nullChar =>
    refine helse .nullChar fun σ => ?_
    have : Spec.TreeModes.isWs '\x00' = false := by decide
    simp only [stokOf, Spec.TreeModes.beforeHtml, this]
    rfl
  | tag t =>
    have hp : PlainTag t := (hwf : TagWf t).plain
    rw [stepBeforeHtml_tag]
    simp only [Tag.isStart, Tag.isEnd, isOneOf_cons, isOneOf_nil, Bool.or_false]
    cases hk : t.kind with
    | startTag =>
      by_cases h1 : t.name = "html".toList
      · simp +decide only [h1, if_true]
        refine pc_seq (pc_createRoot_tag hm hp h1) ?_
        rintro _ s1 c1 he1 ⟨a, f, ho, hfresh, hel, hnm, htr1⟩
        refine pc_seq (pc_setMode htr1.1 _) ?_
        rintro _ s2 c2 _ ⟨rfl, htr2⟩
        refine pc_pure (tokPost_of_tr (by rw [List.append_nil]; exact htr1.trans htr2) trivial ?_)
        rintro x x'' hx hx'' ⟨x1, r1, r2⟩
        subst x''
        refine ⟨x1.fin s1 x1.errors, ?_, (x1.fin_same s1 _).1, Or.inl rfl, rfl, rfl⟩
        simp only [stokOf, stokOfTag_start hk, Spec.TreeModes.beforeHtml, Spec.TreeModes.Tag.is, strIs_eq, specTag_name,
          h1, r1, stepOf]
        rw [absF_fin' s1 x1 _ .beforeHead rfl]
        rfl
      · simp +decide only [h1, if_false]
        refine helse (.tag t) fun σ => ?_
        simp only [stokOf, stokOfTag_start hk, Spec.TreeModes.beforeHtml, Spec.TreeModes.Tag.is, strIs_eq, specTag_name, h1]
        rfl
    | endTag =>
      by_cases h1 : t.name = "head".toList ∨ t.name = "body".toList ∨ t.name = "html".toList ∨ t.name = "br".toList
      · have : (decide (t.name = "head".toList) || (decide (t.name = "body".toList) ||
            (decide (t.name = "html".toList) || decide (t.name = "br".toList)))) = true := by simpa using h1
        simp +decide only [this, if_true]
        refine helse (.tag t) fun σ => ?_
        simp only [stokOf, stokOfTag_end hk, Spec.TreeModes.beforeHtml, Spec.TreeModes.Tag.isOneOf, strIsOneOf_cons,
          strIsOneOf_nil, Bool.or_false, specTag_name, this]
        rfl
      · have : (decide (t.name = "head".toList) || (decide (t.name = "body".toList) ||
            (decide (t.name = "html".toList) || decide (t.name = "br".toList)))) = false := by simpa using h1
        simp +decide only [this, if_true, if_false]
        refine pc_tokPost_congr (pc_unexpected_tokPost hm (.tag t) "before html: unexpected end tag") ?_
        intro x hx
        simp only [stokOf, stokOfTag_end hk, Spec.TreeModes.beforeHtml, Spec.TreeModes.Tag.isOneOf, strIsOneOf_cons,
          strIsOneOf_nil, Bool.or_false, specTag_name, this]
        rfl

theorem modeSim_beforeHtml : ModeSim .beforeHtml := by
  intro tok hch hwf s hti hm hmode _
  exact pc_tokPost_congr (sim_beforeHtml tok hch hwf s hm) fun x _ =>
    byModeDev_beforeHtml _ (by simp only [absF, hmode, imode]) (isDoctype_stokOf tok)

theorem modeCharSim_beforeHtml : ModeCharSim .beforeHtml := by
  intro st text hwf s hti hm hmode hlf hu
  obtain ⟨hne, hnul, hcls⟩ := hwf
  have hσ : ∀ x, (absF s x).mode = .beforeHtml := fun x => by simp only [absF, hmode, imode]
  cases st with
  | notSplit => exact pc_chars_split hm text
  | whitespace =>
    refine pc_chars_ignored hm hlf hu ?_
    intro x hx c hc
    rw [byModeDev_beforeHtml _ (hσ x) rfl]
    simp only [Spec.TreeModes.beforeHtml, isWs_eq, hcls c hc, if_true]
    rfl
  | notWhitespace =>
    cases text with
    | nil => exact absurd rfl hne
    | cons c cs =>
      show PC (beforeHtmlElseM (.chars .notWhitespace (c :: cs))) s _
      refine pc_conseq (pc_beforeHtmlElse hm _) ?_
      rintro r s' calls _ ⟨rfl, hlf', htr⟩
      refine charsPost_of_reprocess rfl hlf' (htr.conseq ?_)
      intro x x' hx _ h
      rw [byModeDev_beforeHtml _ (hσ x) rfl, ← h]
      simp only [Spec.TreeModes.beforeHtml, isWs_eq, hcls c (by simp), Bool.false_eq_true, if_false]

/-! ### "before head" -/

theorem byModeDev_beforeHead (cfg : Config Id) {σ : SState} (hm : σ.mode = .beforeHead) {tok : STok}
    (hd : isDoctype tok = false) : byModeDev cfg σ tok = Spec.TreeModes.beforeHead cfg σ tok := by
  rw [byModeDev_eq_byMode cfg σ tok hd (by simp [hm]) (by simp [hm]) (by simp [hm]) (by simp [hm])]
  simp only [Spec.TreeModes.byMode, hm]

/-- `self.head_elem = Some(h)`: "set the head element pointer to the newly created `head` element" -/
theorem pc_setHead {s : State} (hm : MInv s) (h : Id) (hel : s.dom.isElement h = true) :
    PC (modS fun s => { s with headElem := some h }) s (fun _ s' calls => s' = { s with headElem := some h } ∧
      Tr s s' calls (fun x x' => x' = x ∧ absF s' x' = { absF s x with headPointer := some (elemOf s.dom h) })) := by
  have hm' : MInv { s with headElem := some h } :=
    { hm with head := fun y hy => by cases hy; exact hel }
  refine pc_modS rfl rfl ⟨rfl, (Tr.of_upd (s' := { s with headElem := some h }) hm rfl (fun _ h => h) hm' rfl).conseq ?_⟩
  intro x x' _ _ hxx
  subst x'
  exact ⟨rfl, rfl⟩

/-- "anything else" of `stepBeforeHead` -/
def beforeHeadElseM (tok : Token) : M ProcessResult := do
  let h ← insertPhantom "head"
  modS fun s => { s with headElem := some h }
  pure (.reprocess .inHead tok)

theorem pc_beforeHeadElse {s : State} (hm : MInv s) (tok : Token) :
    PC (beforeHeadElseM tok) s (fun r s' calls => r = .reprocess .inHead tok ∧ s'.ignoreLf = s.ignoreLf ∧
      Tr s s' calls (fun x x' => Spec.TreeModes.beforeHead (cfgOf s) (absF s x) .eof
        = .ok (.reprocess (absF { s' with mode := .inHead } x')))) := by
  unfold beforeHeadElseM
  refine pc_seq (pc_insertPhantom hm "head") ?_
  rintro a s1 c1 he1 ⟨f, ho, hfresh, hel, hnm, htr1⟩
  refine pc_seq (pc_setHead htr1.1 a hel) ?_
  rintro _ s2 c2 he2 ⟨hs2, htr2⟩
  refine pc_pure ⟨rfl, by rw [hs2]; exact f.ignoreLf, ?_⟩
  rw [List.append_nil]
  refine (htr1.trans htr2).reaux (fun _ x' => x'.fin s2 x'.errors) (fun _ x' => x'.fin_same s2 _) ?_
  rintro x x' hx hx' ⟨x1, r1, hxx, r2⟩
  subst x'
  rw [absF_fin' s2 x1 _ .inHead rfl, r2]
  simp only [Spec.TreeModes.beforeHead, r1]
  rfl

theorem stepBeforeHead_tag (t : Tag) : stepBeforeHead (.tag t) =
    (if t.isStart ["html"] then stepInBody (.tag t)
    else if t.isStart ["head"] then do
      let h ← insertElementFor t
      modS fun s => { s with headElem := some h }
      setMode .inHead
      pure .done
    else if t.isEnd ["head", "body", "html", "br"] then beforeHeadElseM (.tag t)
    else if t.kind == .endTag then unexpected
    else beforeHeadElseM (.tag t)) := rfl

theorem sim_beforeHead (hbody : StepSimTok stepInBody Spec.TreeModes.inBody) :
    StepSimTok stepBeforeHead Spec.TreeModes.beforeHead := by
  intro tok hch hwf s hm
  have helse : ∀ tok' : Token, (∀ σ : SState, Spec.TreeModes.beforeHead (cfgOf s) σ (stokOf tok') = Spec.TreeModes.beforeHead (cfgOf s) σ .eof) →
      PC (beforeHeadElseM tok') s (TokPost (fun σ => Spec.TreeModes.beforeHead (cfgOf s) σ (stokOf tok')) s tok') := by
    intro tok' h
    refine pc_conseq (pc_beforeHeadElse hm tok') ?_
    rintro r s' calls _ ⟨rfl, -, htr⟩
    exact tokPost_of_reprocess (htr.conseq fun x x' _ _ e => by rw [h]; exact e)
  cases tok with
  | chars st text => cases hch
  | comment text =>
    show PC (appendComment text) s _
    refine pc_conseq (pc_appendComment' hm text) ?_
    rintro r s' calls _ ⟨rfl, htr⟩
    refine tokPost_of_tr htr trivial ?_
    intro x x' hx hx' hr
    refine ⟨x', ?_, AuxSame.rfl', Or.inl rfl, rfl, rfl⟩
    simp only [stokOf, Spec.TreeModes.beforeHead, hr]
    rfl
  | eof => exact helse .eof fun _ => rfl
  | nullChar =>
    refine helse .nullChar fun σ => ?_
    have : Spec.TreeModes.isWs '\x00' = false := by decide
    simp only [stokOf, Spec.TreeModes.beforeHead, this]
    rfl
  | tag t =>
    have hp : PlainTag t := (hwf : TagWf t).plain
    rw [stepBeforeHead_tag]
    simp only [Tag.isStart, Tag.isEnd, isOneOf_cons, isOneOf_nil, Bool.or_false]
    cases hk : t.kind with
    | startTag =>
      by_cases h1 : t.name = "html".toList
      · simp +decide only [h1, if_true]
        refine pc_tokPost_congr (hbody (.tag t) rfl hwf s hm) ?_
        intro x hx
        simp +decide only [stokOf, stokOfTag_start hk, Spec.TreeModes.beforeHead, Spec.TreeModes.Tag.is, strIs_eq,
          specTag_name, h1, if_true]
      · by_cases h2 : t.name = "head".toList
        · simp +decide only [h2, if_true, if_false]
          refine pc_seq (pc_insertElementFor hm hp) ?_
          rintro a s1 c1 he1 ⟨f, ho, hfresh, hel, hnm, htr1⟩
          refine pc_seq (pc_setHead htr1.1 a hel) ?_
          rintro _ s2 c2 he2 ⟨hs2, htr2⟩
          refine pc_seq (pc_setMode htr2.1 _) ?_
          rintro _ s3 c3 _ ⟨rfl, htr3⟩
          refine pc_pure (tokPost_of_tr (calls := c1 ++ (c2 ++ (c3 ++ [])))
            (by rw [List.append_nil, ← List.append_assoc]; exact (htr1.trans htr2).trans htr3) trivial ?_)
          rintro x x'' hx hx'' ⟨x2, ⟨x1, r1, hxx, r2⟩, r3⟩
          subst x'' x2
          refine ⟨x1.fin s2 x1.errors, ?_, (x1.fin_same s2 _).1, Or.inl rfl, rfl, rfl⟩
          simp only [stokOf, stokOfTag_start hk, Spec.TreeModes.beforeHead, Spec.TreeModes.Tag.is, strIs_eq, specTag_name,
            h2, r1, stepOf]
          rw [absF_fin' s2 x1 _ .inHead rfl, r2]
          rfl
        · simp +decide only [h1, h2, if_false]
          refine helse (.tag t) fun σ => ?_
          simp only [stokOf, stokOfTag_start hk, Spec.TreeModes.beforeHead, Spec.TreeModes.Tag.is, strIs_eq, specTag_name,
            h1, h2]
          rfl
    | endTag =>
      by_cases h1 : t.name = "head".toList ∨ t.name = "body".toList ∨ t.name = "html".toList ∨ t.name = "br".toList
      · have : (decide (t.name = "head".toList) || (decide (t.name = "body".toList) ||
            (decide (t.name = "html".toList) || decide (t.name = "br".toList)))) = true := by simpa using h1
        simp +decide only [this, if_true]
        refine helse (.tag t) fun σ => ?_
        simp only [stokOf, stokOfTag_end hk, Spec.TreeModes.beforeHead, Spec.TreeModes.Tag.isOneOf, strIsOneOf_cons,
          strIsOneOf_nil, Bool.or_false, specTag_name, this]
        rfl
      · have : (decide (t.name = "head".toList) || (decide (t.name = "body".toList) ||
            (decide (t.name = "html".toList) || decide (t.name = "br".toList)))) = false := by simpa using h1
        simp +decide only [this, if_true, if_false]
        refine pc_tokPost_congr (pc_unexpected_tokPost hm (.tag t) "before head: unexpected end tag") ?_
        intro x hx
        simp only [stokOf, stokOfTag_end hk, Spec.TreeModes.beforeHead, Spec.TreeModes.Tag.isOneOf, strIsOneOf_cons,
          strIsOneOf_nil, Bool.or_false, specTag_name, this]
        rfl

theorem modeSim_beforeHead (hbody : StepSimTok stepInBody Spec.TreeModes.inBody) : ModeSim .beforeHead := by
  intro tok hch hwf s hti hm hmode _
  exact pc_tokPost_congr (sim_beforeHead hbody tok hch hwf s hm) fun x _ =>
    byModeDev_beforeHead _ (by simp only [absF, hmode, imode]) (isDoctype_stokOf tok)

theorem modeCharSim_beforeHead : ModeCharSim .beforeHead := by
  intro st text hwf s hti hm hmode hlf hu
  obtain ⟨hne, hnul, hcls⟩ := hwf
  have hσ : ∀ x, (absF s x).mode = .beforeHead := fun x => by simp only [absF, hmode, imode]
  cases st with
  | notSplit => exact pc_chars_split hm text
  | whitespace =>
    refine pc_chars_ignored hm hlf hu ?_
    intro x hx c hc
    rw [byModeDev_beforeHead _ (hσ x) rfl]
    simp only [Spec.TreeModes.beforeHead, isWs_eq, hcls c hc, if_true]
    rfl
  | notWhitespace =>
    cases text with
    | nil => exact absurd rfl hne
    | cons c cs =>
      show PC (beforeHeadElseM (.chars .notWhitespace (c :: cs))) s _
      refine pc_conseq (pc_beforeHeadElse hm _) ?_
      rintro r s' calls _ ⟨rfl, hlf', htr⟩
      refine charsPost_of_reprocess rfl hlf' (htr.conseq ?_)
      intro x x' hx _ h
      rw [byModeDev_beforeHead _ (hσ x) rfl, ← h]
      simp only [Spec.TreeModes.beforeHead, isWs_eq, hcls c (by simp), Bool.false_eq_true, if_false]

/-! ### "in head noscript" -/

theorem byModeDev_inHeadNoscript (cfg : Config Id) {σ : SState} (hm : σ.mode = .inHeadNoscript) {tok : STok}
    (hd : isDoctype tok = false) : byModeDev cfg σ tok = Spec.TreeModes.inHeadNoscript cfg σ tok := by
  rw [byModeDev_eq_byMode cfg σ tok hd (by simp [hm]) (by simp [hm]) (by simp [hm]) (by simp [hm])]
  simp only [Spec.TreeModes.byMode, hm]

/-- "anything else" of `stepInHeadNoscript` -/
def inHeadNoscriptElseM (tok : Token) : M ProcessResult := do
  let _ ← unexpected
  let _ ← pop
  pure (.reprocess .inHead tok)

theorem pc_inHeadNoscriptElse {s : State} (hm : MInv s) (tok : Token) :
    PC (inHeadNoscriptElseM tok) s (fun r s' calls => r = .reprocess .inHead tok ∧ s'.ignoreLf = s.ignoreLf ∧
      Tr s s' calls (fun x x' => Spec.TreeModes.inHeadNoscript (cfgOf s) (absF s x) .eof
        = .ok (.reprocess (absF { s' with mode := .inHead } x')))) := by
  unfold inHeadNoscriptElseM
  refine pc_seq (pc_unexpected' hm) ?_
  rintro _ s1 c1 he1 ⟨-, hs1, htr1⟩
  refine pc_seq (pc_pop htr1.1) ?_
  rintro h s2 c2 he2 ⟨-, -, hso, htr2⟩
  refine pc_pure ⟨rfl, (SameButSL.of_stackOnly hso).ignoreLf.trans hs1.fields.ignoreLf, ?_⟩
  rw [List.append_nil]
  refine (htr1.trans htr2).reaux (fun x x' => x'.fin s2 (x.errors ++ ["in head noscript: unexpected token"]))
    (fun _ x' => x'.fin_same s2 _) ?_
  rintro x x' hx hx' ⟨x1, ⟨hxx, r1⟩, hxx', r2, -⟩
  subst x' x1
  rw [absF_fin' s2 x _ .inHead rfl, r2, ← r1]
  rfl

theorem stepInHeadNoscript_tag (t : Tag) : stepInHeadNoscript (.tag t) =
    (if t.isStart ["html"] then stepInBody (.tag t)
    else if t.isEnd ["noscript"] then do
      let _ ← pop
      setMode .inHead
      pure .done
    else if t.isStart ["basefont", "bgsound", "link", "meta", "noframes", "style"] then stepInHead (.tag t)
    else if t.isEnd ["br"] then inHeadNoscriptElseM (.tag t)
    else if t.isStart ["head", "noscript"] || t.kind == .endTag then unexpected
    else inHeadNoscriptElseM (.tag t)) := rfl

theorem sim_inHeadNoscript (hhead : StepSimTok stepInHead Spec.TreeModes.inHead)
    (hbody : StepSimTok stepInBody Spec.TreeModes.inBody) :
    StepSimTok stepInHeadNoscript Spec.TreeModes.inHeadNoscript := by
  intro tok hch hwf s hm
  have helse : ∀ tok' : Token, (∀ σ : SState, Spec.TreeModes.inHeadNoscript (cfgOf s) σ (stokOf tok') = Spec.TreeModes.inHeadNoscript (cfgOf s) σ .eof) →
      PC (inHeadNoscriptElseM tok') s (TokPost (fun σ => Spec.TreeModes.inHeadNoscript (cfgOf s) σ (stokOf tok')) s tok') := by
    intro tok' h
    refine pc_conseq (pc_inHeadNoscriptElse hm tok') ?_
    rintro r s' calls _ ⟨rfl, -, htr⟩
    exact tokPost_of_reprocess (htr.conseq fun x x' _ _ e => by rw [h]; exact e)
  cases tok with
  | chars st text => cases hch
  | comment text =>
    show PC (stepInHead (.comment text)) s _
    exact pc_tokPost_congr (hhead (.comment text) rfl hwf s hm) fun x hx => rfl
  | eof => exact helse .eof fun _ => rfl
  | nullChar =>
    refine helse .nullChar fun σ => ?_
    have : Spec.TreeModes.isWs '\x00' = false := by decide
    simp only [stokOf, Spec.TreeModes.inHeadNoscript, this]
    rfl
  | tag t =>
    rw [stepInHeadNoscript_tag]
    simp only [Tag.isStart, Tag.isEnd, isOneOf_cons, isOneOf_nil, Bool.or_false]
    cases hk : t.kind with
    | startTag =>
      by_cases h1 : t.name = "html".toList
      · simp +decide only [h1, if_true]
        refine pc_tokPost_congr (hbody (.tag t) rfl hwf s hm) ?_
        intro x hx
        simp +decide only [stokOf, stokOfTag_start hk, Spec.TreeModes.inHeadNoscript, Spec.TreeModes.Tag.is, strIs_eq,
          specTag_name, h1, if_true]
      · by_cases h2 : t.name = "basefont".toList ∨ t.name = "bgsound".toList ∨ t.name = "link".toList ∨
            t.name = "meta".toList ∨ t.name = "noframes".toList ∨ t.name = "style".toList
        · have e2 : (decide (t.name = "basefont".toList) || (decide (t.name = "bgsound".toList) ||
              (decide (t.name = "link".toList) || (decide (t.name = "meta".toList) ||
              (decide (t.name = "noframes".toList) || decide (t.name = "style".toList)))))) = true := by
            simp only [Bool.or_eq_true, decide_eq_true_eq]; exact h2
          simp +decide only [h1, e2, if_true, if_false]
          refine pc_tokPost_congr (hhead (.tag t) rfl hwf s hm) ?_
          intro x hx
          simp +decide only [stokOf, stokOfTag_start hk, Spec.TreeModes.inHeadNoscript, Spec.TreeModes.Tag.is,
            Spec.TreeModes.Tag.isOneOf, strIs_eq, strIsOneOf_cons, strIsOneOf_nil, Bool.or_false, specTag_name, h1, e2,
            if_true, if_false]
        · have e2 : (decide (t.name = "basefont".toList) || (decide (t.name = "bgsound".toList) ||
              (decide (t.name = "link".toList) || (decide (t.name = "meta".toList) ||
              (decide (t.name = "noframes".toList) || decide (t.name = "style".toList)))))) = false := by
            simp only [not_or] at h2
            simp only [Bool.or_eq_false_iff, decide_eq_false_iff_not]; exact h2
          by_cases h3 : t.name = "head".toList ∨ t.name = "noscript".toList
          · have e3 : (decide (t.name = "head".toList) || decide (t.name = "noscript".toList)) = true := by
              simp only [Bool.or_eq_true, decide_eq_true_eq]; exact h3
            simp +decide only [h1, e2, e3, if_true, if_false]
            refine pc_tokPost_congr (pc_unexpected_tokPost hm (.tag t) "in head noscript: head/noscript start tag") ?_
            intro x hx
            simp +decide only [stokOf, stokOfTag_start hk, Spec.TreeModes.inHeadNoscript, Spec.TreeModes.Tag.is,
              Spec.TreeModes.Tag.isOneOf, strIs_eq, strIsOneOf_cons, strIsOneOf_nil, Bool.or_false, specTag_name, h1, e2, e3,
              if_true, if_false]
          · have e3 : (decide (t.name = "head".toList) || decide (t.name = "noscript".toList)) = false := by
              simp only [not_or] at h3
              simp only [Bool.or_eq_false_iff, decide_eq_false_iff_not]; exact h3
            simp +decide only [h1, e2, e3, if_false]
            refine helse (.tag t) fun σ => ?_
            simp +decide only [stokOf, stokOfTag_start hk, Spec.TreeModes.inHeadNoscript, Spec.TreeModes.Tag.is,
              Spec.TreeModes.Tag.isOneOf, strIs_eq, strIsOneOf_cons, strIsOneOf_nil, Bool.or_false, specTag_name, h1, e2, e3,
              if_false]
    | endTag =>
      by_cases h1 : t.name = "noscript".toList
      · simp +decide only [h1, if_true, if_false]
        refine pc_seq (pc_pop hm) ?_
        rintro h s1 c1 he1 ⟨-, -, hso, htr1⟩
        refine pc_seq (pc_setMode htr1.1 _) ?_
        rintro _ s2 c2 _ ⟨rfl, htr2⟩
        refine pc_pure (tokPost_of_tr (by rw [List.append_nil]; exact htr1.trans htr2) trivial ?_)
        rintro x x'' hx hx'' ⟨x1, ⟨hxx, r1, -⟩, hxx'⟩
        subst x'' x1
        refine ⟨x.fin s1 x.errors, ?_, (x.fin_same s1 _).1, Or.inl rfl, rfl, rfl⟩
        simp +decide only [stokOf, stokOfTag_end hk, Spec.TreeModes.inHeadNoscript, Spec.TreeModes.Tag.is, strIs_eq,
          specTag_name, h1, if_true, stepOf]
        rw [absF_fin' s1 x _ .inHead rfl, r1]
        rfl
      · by_cases h2 : t.name = "br".toList
        · simp +decide only [h2, if_true, if_false]
          refine helse (.tag t) fun σ => ?_
          simp +decide only [stokOf, stokOfTag_end hk, Spec.TreeModes.inHeadNoscript, Spec.TreeModes.Tag.is, strIs_eq,
            specTag_name, h2, if_true, if_false]
        · simp +decide only [h1, h2, if_false]
          refine pc_tokPost_congr (pc_unexpected_tokPost hm (.tag t) "in head noscript: unexpected end tag") ?_
          intro x hx
          simp +decide only [stokOf, stokOfTag_end hk, Spec.TreeModes.inHeadNoscript, Spec.TreeModes.Tag.is, strIs_eq,
            specTag_name, h1, h2, if_false]

theorem modeSim_inHeadNoscript (hhead : StepSimTok stepInHead Spec.TreeModes.inHead)
    (hbody : StepSimTok stepInBody Spec.TreeModes.inBody) : ModeSim .inHeadNoscript := by
  intro tok hch hwf s hti hm hmode _
  exact pc_tokPost_congr (sim_inHeadNoscript hhead hbody tok hch hwf s hm) fun x _ =>
    byModeDev_inHeadNoscript _ (by simp only [absF, hmode, imode]) (isDoctype_stokOf tok)

theorem modeCharSim_inHeadNoscript (hheadc : StepSimChars stepInHead Spec.TreeModes.inHead) :
    ModeCharSim .inHeadNoscript := by
  intro st text hwf s hti hm hmode hlf hu
  have hwf' := hwf
  obtain ⟨hne, hnul, hcls⟩ := hwf
  have hσ : ∀ x, (absF s x).mode = .inHeadNoscript := fun x => by simp only [absF, hmode, imode]
  cases st with
  | notSplit => exact pc_chars_split hm text
  | whitespace =>
    show PC (stepInHead (.chars .whitespace text)) s _
    refine pc_conseq (hheadc .whitespace text hwf' s hm hlf hu) ?_
    intro res s' calls _ h
    have key : ∀ σ1 : SState, σ1.mode = .inHeadNoscript → ∀ c ∈ text,
        byModeDev (cfgOf s) σ1 (.character c) = Spec.TreeModes.inHead (cfgOf s) σ1 (.character c) := by
      intro σ1 hm1 c hc
      rw [byModeDev_inHeadNoscript _ hm1 rfl]
      simp only [Spec.TreeModes.inHeadNoscript, isWs_eq, hcls c hc, if_true]
    refine charsPost_of_K h (fun x _ c hc => key _ (hσ x) c hc) ?_
    intro x _ σ1 c hc hm1 hu1
    rw [dispatchDev_char hu1]
    exact key σ1 (hm1.trans (hσ x)) c hc
  | notWhitespace =>
    cases text with
    | nil => exact absurd rfl hne
    | cons c cs =>
      show PC (inHeadNoscriptElseM (.chars .notWhitespace (c :: cs))) s _
      refine pc_conseq (pc_inHeadNoscriptElse hm _) ?_
      rintro r s' calls _ ⟨rfl, hlf', htr⟩
      refine charsPost_of_reprocess rfl hlf' (htr.conseq ?_)
      intro x x' hx _ h
      rw [byModeDev_inHeadNoscript _ (hσ x) rfl, ← h]
      simp only [Spec.TreeModes.inHeadNoscript, isWs_eq, hcls c (by simp), Bool.false_eq_true, if_false]

/-! ### a rule function called in the middle of a rule -/

theorem auxOk_unapplyRes {s : State} {x : Aux} {res : ProcessResult} (h : AuxOk (applyRes res s) x) : AuxOk s x := by
  cases res <;> first | exact h | exact h.withMode s.mode

theorem mInv_unapplyRes {s : State} {res : ProcessResult} (h : MInv (applyRes res s)) : MInv s := by
  cases res <;> first | exact h | exact h.withMode s.mode

/-- stretch, inner rule function (on a token that is not EOF), stretch that does not touch the `Aux` -/
theorem tokPost_inner {spec specIn : SState → Spec.TreeModes.M (Step Id)} {s s1 s2 s3 : State} {tok : Token}
    {res : ProcessResult} {c1 c2 c3 : List Call} {R1 : Aux → Aux → Prop} {F : SState → SState}
    (htok : tok ≠ .eof) (h1 : Tr s s1 c1 R1) (he2 : Ext2 s1 c2 s2) (h2 : TokPost specIn s1 tok res s2 c2)
    (h3 : MInv s2 → Tr s2 s3 c3 (fun x x' => x' = x ∧ absF s3 x = F (absF s2 x)))
    (hfin : ∀ x x1 x2, AuxOk s x → AuxOk s1 x1 → R1 x x1 → AuxOk s2 x2 →
      specIn (absF s1 x1) = .ok (stepOf res s2 x2) → absF s3 x2 = F (absF s2 x2) →
      spec (absF s x) = .ok (stepOf res s3 x2)) :
    TokPost spec s tok res s3 (c1 ++ (c2 ++ c3)) := by
  obtain ⟨hm1, hc1, hx1, ids1, hfi1, f1⟩ := h1
  obtain ⟨hres, hm2', hc2, ids2, hfi2, f2⟩ := h2
  obtain ⟨hm3, hc3, hx3, ids3, hfi3, f3⟩ := h3 (mInv_unapplyRes hm2')
  refine ⟨hres, hm3.applyRes res, (hc3.trans hc2).trans hc1, ids1 ++ (ids2 ++ ids3),
    hfi1.append ((hfi2.append (hfi3.of_dom he2.ext)).of_dom hx1), fun x rest hx hs => ?_⟩
  obtain ⟨x1, l1, r1⟩ := f1 x (ids2 ++ (ids3 ++ rest)) hx (by rw [hs]; simp only [List.append_assoc])
  obtain ⟨x2, ops2, e2, hok2, hstop2, hsup2, hout2, houts2, hlog2, hcalls2⟩ := f2 x1 (ids3 ++ rest) l1.aux l1.supply
  have hlive2 : x2.stopped = false := by
    cases hst : x2.stopped with
    | false => rfl
    | true => exact absurd (hstop2 hst).2 htok
  have hx2 : AuxOk s2 x2 := auxOk_unapplyRes (hok2 hlive2)
  obtain ⟨x3, l3, hxx, r3⟩ := f3 x2 rest hx2 hsup2
  subst x3
  obtain ⟨ops1, el1, k1⟩ := l1.log
  obtain ⟨ops3, el3, k3⟩ := l3.log
  have hops3 : ops3 = [] := by simpa using el3
  subst hops3
  refine ⟨x2, ops1 ++ ops2, hfin x x1 x2 hx l1.aux r1 hx2 e2 r3, fun _ => l3.aux.applyRes res,
    (fun h => by rw [hlive2] at h; cases h), l3.supply, outRel_congr l1.switch l1.script hout2, houts2.trans l1.outs, ?_, ?_⟩
  · rw [hlog2, el1, List.append_assoc]
  · intro tc htc
    have t2 : TcOk s2.dom tc := tcOk_of_ext htc hx3
    have t1 : TcOk s1.dom tc := tcOk_of_ext t2 he2.ext
    have k3' := k3 tc htc
    simp only [List.map_nil, flatCalls_nil] at k3'
    rw [edits2_append, edits2_append, flatCalls_append, flatCalls_append, List.map_append, flatCalls_append, k1 tc t1,
      hcalls2 tc t2, k3', List.append_nil]

theorem done_of_map {m : Spec.TreeModes.M SState} {r : Step Id} (h : Step.done <$> m = .ok r) : ∃ σ', r = .done σ' := by
  cases m with
  | error e => cases h
  | ok a => cases h; exact ⟨a, rfl⟩

/-- "in head" handles the start tags of head content at once -/
theorem inHead_headContent_done (cfg : Config Id) (σ : SState) (t : STag)
    (h : t.isOneOf ["base", "basefont", "bgsound", "link", "meta", "noframes", "script", "style", "template", "title"] = true)
    {r : Step Id} (hr : Spec.TreeModes.inHead cfg σ (.startTag t) = .ok r) : ∃ σ', r = .done σ' := by
  simp only [Spec.TreeModes.inHead] at hr
  split at hr
  · rename_i h0
    simp only [Spec.TreeModes.Tag.is, Spec.TreeModes.Tag.isOneOf, strIs_eq, strIsOneOf_cons, strIsOneOf_nil, Bool.or_false,
      Bool.or_eq_true, decide_eq_true_eq] at h h0
    rw [h0] at h
    exact absurd h (by decide)
  split at hr
  · exact done_of_map hr
  split at hr
  · exact done_of_map hr
  split at hr
  · exact done_of_map hr
  split at hr
  · exact done_of_map hr
  split at hr
  · rename_i h0 h1 h2 h3 h4 h5
    simp only [Spec.TreeModes.Tag.is, Spec.TreeModes.Tag.isOneOf, strIs_eq, strIsOneOf_cons, strIsOneOf_nil, Bool.or_false,
      Bool.or_eq_true, decide_eq_true_eq] at h h5
    rw [h5] at h
    exact absurd h (by decide)
  split at hr
  · cases hm : Spec.TreeModes.insertHtml' σ t with
    | error e => rw [hm] at hr; cases hr
    | ok a => rw [hm] at hr; cases hr; exact ⟨_, rfl⟩
  split at hr
  · simp only [Spec.TreeModes.inHeadStartTemplate] at hr
    cases hm : Spec.TreeModes.insertHtml' { (σ.insertMarker.notOk.setMode IMode.inTemplate) with
        templateModes := (σ.insertMarker.notOk.setMode IMode.inTemplate).templateModes ++ [IMode.inTemplate] } t with
    | error e => rw [hm] at hr; cases hr
    | ok a => rw [hm] at hr; cases hr; exact ⟨_, rfl⟩
  split at hr
  · cases hr; exact ⟨_, rfl⟩
  · rename_i h0 h1 h2 h3 h4 h5 h6 h7 h8
    simp only [Spec.TreeModes.Tag.is, Spec.TreeModes.Tag.isOneOf, strIs_eq, strIsOneOf_cons, strIsOneOf_nil, Bool.or_false,
      Bool.or_eq_true, decide_eq_true_eq, Bool.and_eq_true, not_or, not_and] at h h0 h1 h2 h3 h4 h5 h6 h7 h8
    rcases h with h | h | h | h | h | h | h | h | h | h
    · exact absurd h h1.1
    · exact absurd h h1.2.1
    · exact absurd h h1.2.2.1
    · exact absurd h h1.2.2.2
    · exact absurd h h2
    · exact absurd h h4.2.1
    · exact absurd h h6
    · exact absurd h h4.2.2
    · exact absurd h h7
    · exact absurd h h3

/-! ### "after head" -/

theorem byModeDev_afterHead (cfg : Config Id) {σ : SState} (hm : σ.mode = .afterHead) {tok : STok}
    (hd : isDoctype tok = false) : byModeDev cfg σ tok = Spec.TreeModes.afterHead cfg σ tok := by
  rw [byModeDev_eq_byMode cfg σ tok hd (by simp [hm]) (by simp [hm]) (by simp [hm]) (by simp [hm])]
  simp only [Spec.TreeModes.byMode, hm]

/-- "anything else" of `stepAfterHead` -/
def afterHeadElseM (tok : Token) : M ProcessResult := do
  let _ ← insertPhantom "body"
  pure (.reprocess .inBody tok)

theorem pc_afterHeadElse {s : State} (hm : MInv s) (tok : Token) :
    PC (afterHeadElseM tok) s (fun r s' calls => r = .reprocess .inBody tok ∧ s'.ignoreLf = s.ignoreLf ∧
      Tr s s' calls (fun x x' => Spec.TreeModes.afterHead (cfgOf s) (absF s x) .eof
        = .ok (.reprocess (absF { s' with mode := .inBody } x')))) := by
  unfold afterHeadElseM
  refine pc_seq (pc_insertPhantom' hm "body") ?_
  rintro a s1 c1 he1 ⟨f, ho, hfresh, hel, hnm, htr1⟩
  refine pc_pure ⟨rfl, f.ignoreLf, ?_⟩
  rw [List.append_nil]
  refine htr1.reaux (fun _ x' => x'.fin s1 x'.errors) (fun _ x' => x'.fin_same s1 _) ?_
  intro x x' hx hx' r1
  rw [absF_fin' s1 x' _ .inBody rfl]
  simp only [Spec.TreeModes.afterHead, r1]
  rfl

/-- the start tags of head content in `stepAfterHead` -/
def afterHeadHeadM (t : Tag) : M ProcessResult := do
  let _ ← unexpected
  match (← getS).headElem with
  | none => panicAt "no-head-element" "rules.rs:399" "expect(\"no head element\")"
  | some head =>
    push head
    let result ← stepInHead (.tag t)
    removeFromStack head
    pure result

theorem stepAfterHead_tag (t : Tag) : stepAfterHead (.tag t) =
    (if t.isStart ["html"] then stepInBody (.tag t)
    else if t.isStart ["body"] then do
      let _ ← insertElementFor t
      setFramesetOk false
      setMode .inBody
      pure .done
    else if t.isStart ["frameset"] then do
      let _ ← insertElementFor t
      setMode .inFrameset
      pure .done
    else if t.isStart ["base", "basefont", "bgsound", "link", "meta", "noframes", "script", "style",
                        "template", "title"] then afterHeadHeadM t
    else if t.isEnd ["template"] then stepInHead (.tag t)
    else if t.isEnd ["body", "html", "br"] then afterHeadElseM (.tag t)
    else if t.isStart ["head"] || t.kind == .endTag then unexpected
    else afterHeadElseM (.tag t)) := rfl

theorem headName_ne_html : TBSafe.headName ≠ (⟨nsHtml, "html".toList⟩ : EName) := by decide
theorem headName_ne_annot : TBSafe.headName ≠ annotName := html_ne_annot _

theorem pc_afterHeadHead (hhead : StepSimTok stepInHead Spec.TreeModes.inHead) {s : State} (hti : TI s) (hm : MInv s)
    (hne : s.openElems ≠ []) {t : Tag} (hwf : TagWf t) (hk : t.kind = .startTag)
    (hl : (specTag t).isOneOf ["base", "basefont", "bgsound", "link", "meta", "noframes", "script", "style",
      "template", "title"] = true) :
    PC (afterHeadHeadM t) s (TokPost (fun σ => do
      let σ1 := Spec.TreeModes.State.err σ "after head: head content"
      let head ← Spec.TreeModes.req σ1.headPointer "after head: the head element pointer is null"
      let r ← Spec.TreeModes.inHead (cfgOf s) (σ1.setStack (σ1.p.stack ++ [head])) (.startTag (specTag t))
      pure (r.map fun σ => Spec.TreeModes.removeFromStack σ head.id)) s (.tag t)) := by
  unfold afterHeadHeadM
  refine pc_seq (pc_unexpected' hm) ?_
  rintro _ s0 c0 he0 ⟨-, hs0, htr0⟩
  have hm0 := htr0.1
  refine pc_getS_bind ?_
  cases hh : s0.headElem with
  | none => exact pc_panicAt
  | some head =>
    have hhs : s.headElem = some head := by rw [← hs0.fields.headElem]; exact hh
    obtain ⟨hel, hnm⟩ := hti.h.head head hhs
    have hel' : s.dom.isElement head = true := isEl_iff.mp hel
    have hnm' : nameOf s.dom head = TBSafe.headName := by rw [← nm_eq_nameOf]; exact hnm
    have hnm0 : nameOf s0.dom head = TBSafe.headName := by rw [nameOf_ext he0.ext hel']; exact hnm'
    have hne0 : s0.openElems ≠ [] := by rw [hs0.openElems]; exact hne
    refine pc_seq (pc_push hm0 head (hm0.head head hh) (fun h => absurd h hne0) ?_ (by rw [hnm0]; exact headName_ne_annot)
      (ip_of_html (name := "head".toList) hnm0)) ?_
    · intro t' ht'
      rw [hs0.activeFormatting] at ht'
      rw [nameOf_ext he0.ext hel', ← nm_eq_nameOf]
      exact (hti.h.af head t' ht').2.1
    rintro _ s1 c1 he1 ⟨hs1, hc1, htr1⟩
    subst hc1
    have htr01 := (htr0.trans htr1).reaux (fun x x' => { x' with errors := x.errors ++ ["after head: head content"] })
      (fun _ _ => ⟨⟨rfl, rfl, rfl, rfl, rfl⟩, rfl, rfl, rfl⟩)
      (R' := fun x x1 => absF s1 x1 = ((absF s x).err "after head: head content").setStack
        ((absF s x).p.stack ++ [elemOf s.dom head])) (by
        rintro x x' hx hx' ⟨xm, ⟨hxm, r0⟩, hxx, r1⟩
        subst x' xm
        rw [absF_errors, r1, ← r0, elemOf_ext he0.ext hel']
        rfl)
    refine pc_seq (hhead (.tag t) rfl hwf s1 htr1.1) ?_
    intro res s2 c2 he2 hpost
    have hn2 : nameOf s2.dom head ≠ ⟨nsHtml, "html".toList⟩ := by
      have hd1 : s1.dom = s0.dom := by rw [hs1]
      rw [nameOf_ext he2.ext (by rw [hd1]; exact hm0.head head hh), hd1, hnm0]
      exact headName_ne_html
    refine pc_seq (Q1 := fun _ s3 c3 => MInv s2 → Tr s2 s3 c3 (fun x x' => x' = x ∧
        absF s3 x = Spec.TreeModes.removeFromStack (absF s2 x) head)) ?_ ?_
    · intro a s3 hr
      by_cases hm2 : MInv s2
      · obtain ⟨calls, he, hq⟩ := pc_removeFromStack_of_name hm2 head hn2 a s3 hr
        exact ⟨calls, he, fun _ => hq⟩
      · obtain ⟨calls, he, -⟩ := PC.of_tot (tot_removeFromStack s2 head) a s3 hr
        exact ⟨calls, he, fun h => absurd h hm2⟩
    rintro _ s3 c3 he3 htr3
    refine pc_pure ?_
    have := tokPost_inner (F := fun σ => Spec.TreeModes.removeFromStack σ head) (spec := fun σ => do
      let σ1 := Spec.TreeModes.State.err σ "after head: head content"
      let head ← Spec.TreeModes.req σ1.headPointer "after head: the head element pointer is null"
      let r ← Spec.TreeModes.inHead (cfgOf s) (σ1.setStack (σ1.p.stack ++ [head])) (.startTag (specTag t))
      pure (r.map fun σ => Spec.TreeModes.removeFromStack σ head.id)) (by intro h; cases h) htr01 he2 hpost htr3 ?_
    · simpa only [List.append_nil, List.nil_append] using this
    intro x x1 x2 hx hx1 r1 hx2 e2 r3
    have hhp : (absF s x).headPointer = some (elemOf s.dom head) := by
      simp only [absF, hhs, Option.map_some]
    have hcfg : cfgOf s1 = cfgOf s := htr01.2.1
    rw [hcfg, r1] at e2
    simp only [stokOf, stokOfTag_start hk] at e2
    simp only [Spec.TreeModes.State.err, hhp, Spec.TreeModes.req] at e2 ⊢
    show (do
      let r ← Spec.TreeModes.inHead (cfgOf s) _ (.startTag (specTag t))
      pure (r.map fun σ => Spec.TreeModes.removeFromStack σ head)) = _
    rw [e2]
    obtain ⟨σ', hσ'⟩ := inHead_headContent_done _ _ _ hl e2
    cases res with
    | reprocess m t' => cases hσ'
    | _ => simp only [stepOf] at r3 ⊢ <;> rw [r3] <;> rfl

theorem sim_afterHead (hhead : StepSimTok stepInHead Spec.TreeModes.inHead)
    (hbody : StepSimTok stepInBody Spec.TreeModes.inBody) :
    ∀ tok, isCharsTok tok = false → TokWf tok → ∀ s, TI s → MInv s → s.openElems ≠ [] →
      PC (stepAfterHead tok) s (TokPost (fun σ => Spec.TreeModes.afterHead (cfgOf s) σ (stokOf tok)) s tok) := by
  intro tok hch hwf s hti hm hne
  have helse : ∀ tok' : Token, (∀ σ : SState, Spec.TreeModes.afterHead (cfgOf s) σ (stokOf tok') = Spec.TreeModes.afterHead (cfgOf s) σ .eof) →
      PC (afterHeadElseM tok') s (TokPost (fun σ => Spec.TreeModes.afterHead (cfgOf s) σ (stokOf tok')) s tok') := by
    intro tok' h
    refine pc_conseq (pc_afterHeadElse hm tok') ?_
    rintro r s' calls _ ⟨rfl, -, htr⟩
    exact tokPost_of_reprocess (htr.conseq fun x x' _ _ e => by rw [h]; exact e)
  cases tok with
  | chars st text => cases hch
  | comment text =>
    show PC (appendComment text) s _
    refine pc_conseq (pc_appendComment' hm text) ?_
    rintro r s' calls _ ⟨rfl, htr⟩
    refine tokPost_of_tr htr trivial ?_
    intro x x' hx hx' hr
    refine ⟨x', ?_, AuxSame.rfl', Or.inl rfl, rfl, rfl⟩
    simp only [stokOf, Spec.TreeModes.afterHead, hr]
    rfl
  | eof => exact helse .eof fun _ => rfl
  | nullChar =>
    refine helse .nullChar fun σ => ?_
    have : Spec.TreeModes.isWs '\x00' = false := by decide
    simp only [stokOf, Spec.TreeModes.afterHead, this]
    rfl
  | tag t =>
    have hp : PlainTag t := (hwf : TagWf t).plain
    rw [stepAfterHead_tag]
    simp only [Tag.isStart, Tag.isEnd, isOneOf_cons, isOneOf_nil, Bool.or_false]
    cases hk : t.kind with
    | startTag =>
      by_cases h1 : t.name = "html".toList
      · simp +decide only [h1, if_true]
        refine pc_tokPost_congr (hbody (.tag t) rfl hwf s hm) ?_
        intro x hx
        simp +decide only [stokOf, stokOfTag_start hk, Spec.TreeModes.afterHead, Spec.TreeModes.Tag.is, strIs_eq,
          specTag_name, h1, if_true]
      by_cases h2 : t.name = "body".toList
      · simp +decide only [h2, if_true, if_false]
        refine pc_seq (pc_insertElementFor' hm hp) ?_
        rintro a s1 c1 he1 ⟨f, ho, hfresh, hel, hnm, htr1⟩
        refine pc_seq (pc_setFramesetNotOk htr1.1) ?_
        rintro _ s2 c2 he2 ⟨hs2, htr2⟩
        refine pc_seq (pc_setMode htr2.1 _) ?_
        rintro _ s3 c3 _ ⟨rfl, htr3⟩
        refine pc_pure (tokPost_of_tr (calls := c1 ++ (c2 ++ (c3 ++ [])))
          (by rw [List.append_nil, ← List.append_assoc]; exact (htr1.trans htr2).trans htr3) trivial ?_)
        rintro x x'' hx hx'' ⟨x2, ⟨x1, r1, hxx, r2⟩, r3⟩
        subst x'' x2
        refine ⟨x1.fin s2 x1.errors, ?_, (x1.fin_same s2 _).1, Or.inl rfl, rfl, rfl⟩
        simp +decide only [stokOf, stokOfTag_start hk, Spec.TreeModes.afterHead, Spec.TreeModes.Tag.is, strIs_eq,
          specTag_name, h2, r1, stepOf, if_true, if_false]
        rw [absF_fin' s2 x1 _ .inBody rfl, r2]
        rfl
      by_cases h3 : t.name = "frameset".toList
      · simp +decide only [h3, if_true, if_false]
        refine pc_seq (pc_insertElementFor' hm hp) ?_
        rintro a s1 c1 he1 ⟨f, ho, hfresh, hel, hnm, htr1⟩
        refine pc_seq (pc_setMode htr1.1 _) ?_
        rintro _ s2 c2 _ ⟨rfl, htr2⟩
        refine pc_pure (tokPost_of_tr (by rw [List.append_nil]; exact htr1.trans htr2) trivial ?_)
        rintro x x'' hx hx'' ⟨x1, r1, hxx⟩
        subst x''
        refine ⟨x1.fin s1 x1.errors, ?_, (x1.fin_same s1 _).1, Or.inl rfl, rfl, rfl⟩
        simp +decide only [stokOf, stokOfTag_start hk, Spec.TreeModes.afterHead, Spec.TreeModes.Tag.is, strIs_eq,
          specTag_name, h3, r1, stepOf, if_true, if_false]
        rw [absF_fin' s1 x1 _ .inFrameset rfl]
        rfl
      by_cases h4 : t.name = "base".toList ∨ t.name = "basefont".toList ∨ t.name = "bgsound".toList ∨
          t.name = "link".toList ∨ t.name = "meta".toList ∨ t.name = "noframes".toList ∨ t.name = "script".toList ∨
          t.name = "style".toList ∨ t.name = "template".toList ∨ t.name = "title".toList
      · have e4 : (decide (t.name = "base".toList) || (decide (t.name = "basefont".toList) ||
            (decide (t.name = "bgsound".toList) || (decide (t.name = "link".toList) ||
            (decide (t.name = "meta".toList) || (decide (t.name = "noframes".toList) ||
            (decide (t.name = "script".toList) || (decide (t.name = "style".toList) ||
            (decide (t.name = "template".toList) || decide (t.name = "title".toList)))))))))) = true := by
          simp only [Bool.or_eq_true, decide_eq_true_eq]; exact h4
        simp +decide only [h1, h2, h3, e4, if_true, if_false]
        have hl : (specTag t).isOneOf ["base", "basefont", "bgsound", "link", "meta", "noframes", "script", "style",
            "template", "title"] = true := by
          simp only [Spec.TreeModes.Tag.isOneOf, strIsOneOf_cons, strIsOneOf_nil, Bool.or_false, specTag_name]
          exact e4
        refine pc_tokPost_congr (pc_afterHeadHead hhead hti hm hne hwf hk hl) ?_
        intro x hx
        simp +decide only [stokOf, stokOfTag_start hk, Spec.TreeModes.afterHead, Spec.TreeModes.Tag.is,
          Spec.TreeModes.Tag.isOneOf, strIs_eq, strIsOneOf_cons, strIsOneOf_nil, Bool.or_false, specTag_name, h1, h2, h3, e4,
          if_true, if_false]
      · have e4 : (decide (t.name = "base".toList) || (decide (t.name = "basefont".toList) ||
            (decide (t.name = "bgsound".toList) || (decide (t.name = "link".toList) ||
            (decide (t.name = "meta".toList) || (decide (t.name = "noframes".toList) ||
            (decide (t.name = "script".toList) || (decide (t.name = "style".toList) ||
            (decide (t.name = "template".toList) || decide (t.name = "title".toList)))))))))) = false := by
          simp only [not_or] at h4
          simp only [Bool.or_eq_false_iff, decide_eq_false_iff_not]; exact h4
        by_cases h5 : t.name = "head".toList
        · simp +decide only [h5, if_true, if_false]
          refine pc_tokPost_congr (pc_unexpected_tokPost hm (.tag t) "after head: head start tag") ?_
          intro x hx
          simp +decide only [stokOf, stokOfTag_start hk, Spec.TreeModes.afterHead, Spec.TreeModes.Tag.is,
            Spec.TreeModes.Tag.isOneOf, strIs_eq, strIsOneOf_cons, strIsOneOf_nil, Bool.or_false, specTag_name, h5,
            if_true, if_false]
        · simp +decide only [h1, h2, h3, e4, h5, if_false]
          refine helse (.tag t) fun σ => ?_
          simp +decide only [stokOf, stokOfTag_start hk, Spec.TreeModes.afterHead, Spec.TreeModes.Tag.is,
            Spec.TreeModes.Tag.isOneOf, strIs_eq, strIsOneOf_cons, strIsOneOf_nil, Bool.or_false, specTag_name, h1, h2, h3,
            e4, h5, if_false]
    | endTag =>
      by_cases h1 : t.name = "template".toList
      · simp +decide only [h1, if_true, if_false]
        refine pc_tokPost_congr (hhead (.tag t) rfl hwf s hm) ?_
        intro x hx
        simp +decide only [stokOf, stokOfTag_end hk, Spec.TreeModes.afterHead, Spec.TreeModes.Tag.is, strIs_eq,
          specTag_name, h1, if_true]
      by_cases h2 : t.name = "body".toList ∨ t.name = "html".toList ∨ t.name = "br".toList
      · have e2 : (decide (t.name = "body".toList) || (decide (t.name = "html".toList) || decide (t.name = "br".toList))) = true := by
          simp only [Bool.or_eq_true, decide_eq_true_eq]; exact h2
        simp +decide only [h1, e2, if_true, if_false]
        refine helse (.tag t) fun σ => ?_
        simp +decide only [stokOf, stokOfTag_end hk, Spec.TreeModes.afterHead, Spec.TreeModes.Tag.is,
          Spec.TreeModes.Tag.isOneOf, strIs_eq, strIsOneOf_cons, strIsOneOf_nil, Bool.or_false, specTag_name, h1, e2,
          if_true, if_false]
      · have e2 : (decide (t.name = "body".toList) || (decide (t.name = "html".toList) || decide (t.name = "br".toList))) = false := by
          simp only [not_or] at h2
          simp only [Bool.or_eq_false_iff, decide_eq_false_iff_not]; exact h2
        simp +decide only [h1, e2, if_false]
        refine pc_tokPost_congr (pc_unexpected_tokPost hm (.tag t) "after head: unexpected end tag") ?_
        intro x hx
        simp +decide only [stokOf, stokOfTag_end hk, Spec.TreeModes.afterHead, Spec.TreeModes.Tag.is,
          Spec.TreeModes.Tag.isOneOf, strIs_eq, strIsOneOf_cons, strIsOneOf_nil, Bool.or_false, specTag_name, h1, e2,
          if_false]

theorem modeSim_afterHead (hhead : StepSimTok stepInHead Spec.TreeModes.inHead)
    (hbody : StepSimTok stepInBody Spec.TreeModes.inBody) : ModeSim .afterHead := by
  intro tok hch hwf s hti hm hmode _
  have hne : s.openElems ≠ [] := by
    obtain ⟨r, rest, hl, -⟩ := hti.s.root (by rw [hmode]; rfl)
    rw [hl]; exact List.cons_ne_nil _ _
  exact pc_tokPost_congr (sim_afterHead hhead hbody tok hch hwf s hti hm hne) fun x _ =>
    byModeDev_afterHead _ (by simp only [absF, hmode, imode]) (isDoctype_stokOf tok)

theorem modeCharSim_afterHead : ModeCharSim .afterHead := by
  intro st text hwf s hti hm hmode hlf hu
  obtain ⟨hne, hnul, hcls⟩ := hwf
  have hσ : ∀ x, (absF s x).mode = .afterHead := fun x => by simp only [absF, hmode, imode]
  cases st with
  | notSplit => exact pc_chars_split hm text
  | whitespace =>
    show PC (appendText text) s _
    refine pc_conseq (pc_appendText hm text) ?_
    rintro r s' calls _ ⟨rfl, hs, htr⟩
    refine ⟨hs.fields.ignoreLf, htr.conseq ?_⟩
    intro x x' hx _ hfold
    refine specChars_insert (m := .afterHead) ?_ (hσ x) hx.live hlf (hu x hx) hfold
    intro σ c hc hmσ
    rw [byModeDev_afterHead _ hmσ rfl]
    simp only [Spec.TreeModes.afterHead, isWs_eq, hcls c hc, if_true]
  | notWhitespace =>
    cases text with
    | nil => exact absurd rfl hne
    | cons c cs =>
      show PC (afterHeadElseM (.chars .notWhitespace (c :: cs))) s _
      refine pc_conseq (pc_afterHeadElse hm _) ?_
      rintro r s' calls _ ⟨rfl, hlf', htr⟩
      refine charsPost_of_reprocess rfl hlf' (htr.conseq ?_)
      intro x x' hx _ h
      rw [byModeDev_afterHead _ (hσ x) rfl, ← h]
      simp only [Spec.TreeModes.afterHead, isWs_eq, hcls c (by simp), Bool.false_eq_true, if_false]

/-! ### "text" -/

theorem byModeDev_text (cfg : Config Id) {σ : SState} (hm : σ.mode = .text) {tok : STok}
    (hd : isDoctype tok = false) : byModeDev cfg σ tok = Spec.TreeModes.text σ tok := by
  rw [byModeDev_eq_byMode cfg σ tok hd (by simp [hm]) (by simp [hm]) (by simp [hm]) (by simp [hm])]
  simp only [Spec.TreeModes.byMode, hm]

/-- the abstract state after `orig_mode.take()` and the switch to that mode -/
theorem absF_origTaken (s : State) (x : Aux) (m : Mode) (E : List String) (o : Out Id)
    (hm : (m == .inTableText) = false) (ho : s.origMode = some m) :
    absF { s with origMode := none, mode := m }
        { x with errors := E, origDefault := imode m, pendingJunk := (absF s x).pendingTableChars, out := o }
      = { absF s x with mode := imode m, errors := E, out := o } := by
  simp only [absF, hm, ho]
  rfl

/-- a `set` that changes neither the DOM nor the stack, the list, the head / context element -/
theorem pc_set_upd {s s2 : State} (hm : MInv s) (hd : s2.dom = s.dom) (ht : s2.traceRev = s.traceRev)
    (ho : s2.openElems = s.openElems) (haf : s2.activeFormatting = s.activeFormatting)
    (hh : s2.headElem = s.headElem) (hc : s2.contextElem = s.contextElem) (hcfg : cfgOf s2 = cfgOf s)
    (htm : s2.templateModes = s.templateModes) (hfe : s2.formElem = s.formElem)
    (hpe : s2.pendingTableText = s.pendingTableText) :
    PC (set s2 : M Unit) s (fun _ s' calls => s' = s2 ∧ Tr s s' calls (fun x x' => x' = x)) :=
  pc_set hd ht ⟨rfl, Tr.of_upd hm hd (by rw [ho]; exact fun _ h => h)
    (hm.of_fields (by rw [hd]; exact TBSafe.Ext.refl _) ho haf hh hc htm hfe hpe) hcfg⟩

/-- `current_node_named(name)`: the fields of the tree builder are unchanged (the answer is not used) -/
theorem pc_currentNodeNamed_same {s : State} (hm : MInv s) (name : String) :
    PC (currentNodeNamed name) s (fun _ s' calls => SameTB s s' ∧
      Tr s s' calls (fun x x' => x' = x ∧ absF s x = absF s' x)) := by
  cases hl : s.openElems.getLast? with
  | none => unfold currentNodeNamed currentNodeNamedS; exact pc_bind (pc_currentNode_empty hl)
  | some h0 =>
    have ht : Tot (currentNodeNamed name) s
        (fun _ s' calls => SameTB s s' ∧ edits calls = []) := by
      unfold currentNodeNamed currentNodeNamedS
      refine tot_query_bind (pop_tot_currentNode hl) fun s1 c1 he1 hs1 hc1 => ?_
      exact tot_conseq (tot_htmlElemNamedS s1 h0 name.toList) fun b s2 c2 _ ⟨_, h2, h3⟩ =>
        ⟨hs1.trans h2, by simp [edits_append, hc1, h3]⟩
    exact pc_conseq (PC.of_tot ht) fun _ _ _ he ⟨hs, hc⟩ =>
      ⟨hs, Tr.of_same hm hs he (by rw [← edits2_edits, hc]; rfl)⟩

/-- `sink.mark_script_already_started(node)`: not a tree operation -/
theorem pc_markScript {s : State} (hm : MInv s) (node : Id) :
    PC (sinkUnit (.markScriptAlreadyStarted node)) s (fun _ s' calls => SameTB s s' ∧
      Tr s s' calls (fun x x' => x' = x ∧ absF s x = absF s' x)) := by
  refine pc_conseq (pc_sinkUnit s) ?_
  rintro _ s' calls he ⟨d', out, ha, hs', hc⟩
  have hs : SameTB s s' := hs' ▸ SameTB.afterCall ..
  exact ⟨hs, Tr.of_same hm hs he (by rw [hc]; rfl)⟩

/-- `pop` in "text": the abstract state after the original insertion mode is taken -/
theorem pc_text_pop {s : State} (hm : MInv s) {om : Mode} (hom : s.origMode = some om)
    (hnt : (om == .inTableText) = false) :
    PC pop s (fun node s1 calls => s1.origMode = some om ∧
      Tr s s1 calls (fun x x' => x' = x ∧ (absF s x).cur = some (elemOf s.dom node) ∧ ∀ E o,
        absF { s1 with origMode := none, mode := om }
          { x with errors := E, origDefault := imode om, pendingJunk := (absF s1 x).pendingTableChars, out := o }
        = { (absF s x).pop.setMode (absF s x).originalMode with errors := E, out := o })) := by
  refine pc_conseq (pc_pop hm) ?_
  rintro node s1 calls _ ⟨-, -, hso, htr⟩
  have hom1 : s1.origMode = some om := (SameButSL.of_stackOnly hso).origMode.trans hom
  refine ⟨hom1, htr.conseq ?_⟩
  rintro x x' hx _ ⟨hxx, r1, r2⟩
  refine ⟨hxx, r2, fun E o => ?_⟩
  rw [absF_origTaken s1 x om E o hnt hom1, r1]
  have : (absF s x).originalMode = imode om := by simp only [absF, hom, Option.map_some, Option.getD_some]
  rw [this]
  rfl

/-- the end of the EOF clause of `stepText` -/
def textEofTailM : M ProcessResult := do
  let _ ← pop
  let s ← getS
  match s.origMode with
  | none => panicAt "unwrap-none" "rules.rs:1023" "orig_mode.take().unwrap()"
  | some m =>
    set { s with origMode := none }
    pure (.reprocess m .eof)

theorem pc_textEofTail {s : State} (hm : MInv s) {om : Mode} (hom : s.origMode = some om)
    (hnt : (om == .inTableText) = false) :
    PC textEofTailM s (fun r s' calls => r = .reprocess om .eof ∧
      Tr s s' calls (fun x x' => x' = x ∧ ∃ J, ∀ E o,
        absF { s' with mode := om } { x with errors := E, origDefault := imode om, pendingJunk := J, out := o }
        = { (absF s x).pop.setMode (absF s x).originalMode with errors := E, out := o })) := by
  unfold textEofTailM
  refine pc_seq (pc_text_pop hm hom hnt) ?_
  rintro node s1 c1 he1 ⟨hom1, htr1⟩
  refine pc_getS_bind ?_
  simp only [hom1]
  refine pc_seq (pc_set_upd htr1.1 rfl rfl rfl rfl rfl rfl rfl rfl rfl rfl) ?_
  rintro _ s2 c2 _ ⟨rfl, htr2⟩
  refine pc_pure ⟨rfl, ?_⟩
  rw [List.append_nil]
  refine (htr1.trans htr2).conseq ?_
  rintro x x' hx _ ⟨x1, ⟨hxx, -, r1⟩, hxx'⟩
  subst x' x1
  exact ⟨rfl, _, r1⟩

theorem sim_text : ∀ tok, isCharsTok tok = false → TokWf tok → TBSafe.textTok tok = true → ∀ s, TI s → MInv s →
    s.mode = .text → PC (stepText tok) s (TokPost (fun σ => Spec.TreeModes.text σ (stokOf tok)) s tok) := by
  intro tok hch hwf htt s hti hm hmode
  obtain ⟨om, hom, hok, -, -, -⟩ := hti.s.text hmode
  have hnt : (om == .inTableText) = false := by
    cases om <;> first | rfl | (revert hok; decide)
  cases tok with
  | chars st text => cases hch
  | comment text => cases htt
  | nullChar => cases htt
  | eof =>
    simp only [stepText, pure_bind]
    refine pc_seq (pc_unexpected' hm) ?_
    rintro _ s0 c0 he0 ⟨-, hs0, htr0⟩
    have hom0 : s0.origMode = some om := hs0.fields.origMode.trans hom
    refine pc_seq (pc_currentNodeNamed_same htr0.1 "script") ?_
    rintro b s1 c1 he1 ⟨hs1, htr1⟩
    have hom1 : s1.origMode = some om := hs1.fields.origMode.trans hom0
    have hfinal : ∀ {s2 : State} {c2 : List Call}, s2.origMode = some om →
        Tr s s2 c2 (fun x x' => x' = x ∧ absF s x = absF s2 x) →
        PC textEofTailM s2 (fun r s3 c3 => TokPost (fun σ => Spec.TreeModes.text σ (stokOf .eof)) s .eof r s3 (c2 ++ c3)) := by
      intro s2 c2 hom2 htr2
      refine pc_conseq (pc_textEofTail htr2.1 hom2 hnt) ?_
      rintro r s3 c3 _ ⟨rfl, htr3⟩
      refine tokPost_of_tr (htr2.trans htr3) rfl ?_
      rintro x x'' hx hx'' ⟨x2, ⟨hxx, r2⟩, hxx', J, r3⟩
      subst x'' x2
      refine ⟨{ x with errors := x.errors ++ ["text: end of file"], origDefault := imode om, pendingJunk := J },
        ?_, ⟨rfl, rfl, rfl, rfl, rfl⟩, Or.inl rfl, rfl, rfl⟩
      simp only [stokOf, Spec.TreeModes.text, stepOf, applyRes]
      rw [r3 _ x.out, ← r2]
      rfl
    cases b with
    | false =>
      simp only [Bool.false_eq_true, if_false]
      refine pc_conseq (hfinal hom1 ((htr0.trans htr1).conseq ?_)) fun r s3 c3 _ h => by
        rw [List.append_assoc] at h; exact h
      rintro x x' _ _ ⟨x1, ⟨e1, r1⟩, e2, r2⟩
      subst x' x1
      exact ⟨rfl, r1.trans r2⟩
    | true =>
      simp only [if_true]
      refine pc_getS_bind ?_
      cases hl : s1.openElems.getLast? with
      | none => exact pc_bind pc_panicAt
      | some cur =>
        simp only []
        refine pc_seq (pc_markScript htr1.1 cur) ?_
        rintro _ s2 c2 he2 ⟨hs2, htr2⟩
        have hom2 : s2.origMode = some om := hs2.fields.origMode.trans hom1
        refine pc_conseq (hfinal hom2 (((htr0.trans htr1).trans htr2).conseq ?_)) fun r s3 c3 _ h => by
          simp only [List.append_assoc] at h
          exact h
        rintro x x' _ _ ⟨x2, ⟨x1, ⟨e1, r1⟩, e2, r2⟩, e3, r3⟩
        subst x' x2 x1
        exact ⟨rfl, (r1.trans r2).trans r3⟩
  | tag t =>
    have hk : t.kind = .endTag := by simpa [TBSafe.textTok] using htt
    simp only [stepText, hk, beq_self_eq_true, if_true]
    refine pc_seq (pc_text_pop hm hom hnt) ?_
    rintro node s1 c1 he1 ⟨hom1, htr1⟩
    refine pc_getS_bind ?_
    simp only [hom1]
    refine pc_seq (pc_set_upd htr1.1 rfl rfl rfl rfl rfl rfl rfl rfl rfl rfl) ?_
    rintro _ s2 c2 _ ⟨rfl, htr2⟩
    have htr := htr1.trans htr2
    simp only [isName_eq]
    by_cases hs : t.name = "script".toList
    · simp only [hs, decide_true, if_true]
      refine pc_pure (tokPost_of_tr (by rw [List.append_nil]; exact htr) trivial ?_)
      rintro x x'' hx hx'' ⟨x1, ⟨hxx, rc, r1⟩, hxx'⟩
      subst x'' x1
      refine ⟨{ x with errors := x.errors, origDefault := imode om, pendingJunk := (absF s1 x).pendingTableChars,
                       out := { x.out with script := some node } },
        ?_, ⟨rfl, rfl, rfl, rfl, rfl⟩, Or.inl rfl, ⟨rfl, rfl⟩⟩
      simp only [stokOf, stokOfTag_end hk, Spec.TreeModes.text, Spec.TreeModes.Tag.is, strIs_eq, specTag_name, hs,
        decide_true, if_true, rc, Spec.TreeModes.req, stepOf]
      rw [r1]
      rfl
    · simp only [hs, decide_false, Bool.false_eq_true, if_false]
      refine pc_pure (tokPost_of_tr (by rw [List.append_nil]; exact htr) trivial ?_)
      rintro x x'' hx hx'' ⟨x1, ⟨hxx, rc, r1⟩, hxx'⟩
      subst x'' x1
      refine ⟨{ x with errors := x.errors, origDefault := imode om, pendingJunk := (absF s1 x).pendingTableChars,
                       out := x.out },
        ?_, ⟨rfl, rfl, rfl, rfl, rfl⟩, Or.inl rfl, rfl, rfl⟩
      simp only [stokOf, stokOfTag_end hk, Spec.TreeModes.text, Spec.TreeModes.Tag.is, strIs_eq, specTag_name, hs,
        decide_false, Bool.false_eq_true, if_false, stepOf]
      rw [r1]
      rfl

theorem modeSim_text : ModeSim .text := by
  intro tok hch hwf s hti hm hmode htext
  exact pc_tokPost_congr (sim_text tok hch hwf (htext rfl) s hti hm hmode) fun x _ =>
    byModeDev_text _ (by simp only [absF, hmode, imode]) (isDoctype_stokOf tok)

theorem modeCharSim_text : ModeCharSim .text := by
  intro st text hwf s hti hm hmode hlf hu
  have hσ : ∀ x, (absF s x).mode = .text := fun x => by simp only [absF, hmode, imode]
  show PC (appendText text) s _
  refine pc_conseq (pc_appendText hm text) ?_
  rintro r s' calls _ ⟨rfl, hs, htr⟩
  refine ⟨hs.fields.ignoreLf, htr.conseq ?_⟩
  intro x x' hx _ hfold
  refine specChars_insert (m := .text) ?_ (hσ x) hx.live hlf (hu x hx) hfold
  intro σ c hc hmσ
  rw [byModeDev_text _ hmσ rfl]
  rfl

end H5V.Lemmas.HtmlTBModes
