import H5V.Lemmas.HtmlTBModesDefs
/-!
Simulation lemmas for the primitives of `Model/HtmlTB/Actions.lean` that deal with the list of active
formatting elements and with resetting the insertion mode, against `Spec/TreeModes{1,2,3}.lean`.
-/
namespace H5V.Lemmas.HtmlTBModes
open H5V.Model.HtmlTB
open H5V.Model.Dom (Id SinkOp Output Dom QualName Attr NodeOrText ElementFlags NodeData QuirksMode)
open H5V.Lemmas.HtmlTBAlgo
open H5V.Lemmas.TBSafe (TI HInv SInv Rooted)
open H5V.Spec.TreeAlgo2 (Elem Entry PState Ctx Edit Place)
open H5V.Spec.TreeModes (STok ETok IMode Config Out TokSwitch XOp Op Step Edition)


/-! ### the abstraction of the list of active formatting elements -/

theorem entryE_eq (e : FormatEntry) : entryE e = Entry.mapTok etokOf (absEntry e) := by cases e <;> rfl

theorem absListE_mapTok (af : List FormatEntry) : absListE af = (absList af).map (Entry.mapTok etokOf) := by
  simp only [absListE, absList, List.map_map]
  apply List.map_congr_left
  intro e _
  exact entryE_eq e

theorem MInv.withAF {s : State} (h : MInv s) (af : List FormatEntry)
    (hsub : ∀ x t, FormatEntry.element x t ∈ af → FormatEntry.element x t ∈ s.activeFormatting) :
    MInv { s with activeFormatting := af } :=
  ⟨h.elems, h.root, fun x t hx => h.af x t (hsub _ _ hx), fun x t hx => h.afEl x t (hsub _ _ hx), h.head, h.ctx,
    fun x t hx => h.afwf x t (hsub _ _ hx), h.ip, h.tmodes, h.form, h.pend⟩

/-! ### glue for steps that change the stack and the list only -/

/-- the fields of the tree builder other than the stack and the list are unchanged -/
structure SBSLFields (s s' : State) : Prop where
  opts : s'.opts = s.opts
  mode : s'.mode = s.mode
  origMode : s'.origMode = s.origMode
  templateModes : s'.templateModes = s.templateModes
  pendingTableText : s'.pendingTableText = s.pendingTableText
  quirksMode : s'.quirksMode = s.quirksMode
  docHandle : s'.docHandle = s.docHandle
  headElem : s'.headElem = s.headElem
  formElem : s'.formElem = s.formElem
  framesetOk : s'.framesetOk = s.framesetOk
  ignoreLf : s'.ignoreLf = s.ignoreLf
  fosterParenting : s'.fosterParenting = s.fosterParenting
  contextElem : s'.contextElem = s.contextElem

theorem sbsl_fields {s s' : State} (h : SameButStackList s s') : SBSLFields s s' := by
  unfold SameButStackList at h
  constructor <;> rw [h]

theorem sbsl_refl (s : State) : SameButStackList s s := rfl
theorem sbsl_trans {a b c : State} (h1 : SameButStackList a b) (h2 : SameButStackList b c) : SameButStackList a c := by
  unfold SameButStackList at *; rw [h2, h1]
theorem sbsl_of_sameTB {s s' : State} (h : SameTB s s') : SameButStackList s s' := by
  unfold SameTB at h; unfold SameButStackList; rw [h]

theorem cfgOf_sbsl {s s' : State} (hm : MInv s) (hS : SameButStackList s s') (he : TBSafe.Ext s.dom s'.dom) :
    cfgOf s' = cfgOf s := by
  have f := sbsl_fields hS
  obtain ⟨c1, c2⟩ := context_ext hm he
  simp only [cfgOf, f.docHandle, f.opts, f.contextElem, c1, c2]

/-- `absF` after a step that changed the stack, the list and the DOM only -/
theorem absF_sbsl {s s' : State} (x : Aux) (hm : MInv s) (hS : SameButStackList s s') (he : TBSafe.Ext s.dom s'.dom) :
    absF s' x = { absF s x with p := absP s' x } := by
  have f := sbsl_fields hS
  have e2 : s'.headElem.map (elemOf s'.dom) = s.headElem.map (elemOf s.dom) := by
    rw [f.headElem]; exact headPointer_ext hm he
  simp only [absF, e2, f.mode, f.origMode, f.templateModes, f.pendingTableText, f.quirksMode, f.framesetOk, f.ignoreLf]

theorem absF_sbsl_step {s s' : State} (x : Aux) (hm : MInv s) (hS : SameButStackList s s') (he : TBSafe.Ext s.dom s'.dom)
    (n : Nat) (L : List (Edit Id Tag)) :
    absF s' (x.step n L []) = { absF s x with p := absP s' (x.step n L []) } := by
  rw [absF_sbsl _ hm hS he]
  simp [absF, Aux.step]

/-- the `PState` after a phase-1 step that consumed `ids` and logged `L` -/
theorem absP_step (s' : State) {x : Aux} (hx : x.stopped = false) {ids rest : List Id} (hs : x.supply = ids ++ rest)
    (L : List (Edit Id Tag)) (na : List Id) :
    mapP etokOf (absState s' rest (x.logT ++ L)) = absP s' (x.step ids.length L na) := by
  rw [mapP_absState, List.map_append, Aux.logT_map]
  simp [absP, Aux.step, hx, hs]

/-- the invariant after a step that shrinks the stack and the list -/
theorem MInv.of_sub {s s' : State} (hm : MInv s) (hS : SameButStackList s s') (he : TBSafe.Ext s.dom s'.dom)
    (ho : ∀ h ∈ s'.openElems, h ∈ s.openElems)
    (hhead : ∀ h0, s'.openElems.head? = some h0 → s.openElems.head? = some h0)
    (ha : ∀ y t, FormatEntry.element y t ∈ s'.activeFormatting → FormatEntry.element y t ∈ s.activeFormatting) :
    MInv s' := by
  have f := sbsl_fields hS
  refine ⟨fun y hy => isElement_ext he (hm.elems y (ho y hy)), ?_, ?_, ?_, ?_, ?_, ?_, ?_,
    by rw [f.templateModes]; exact hm.tmodes, hm.form_ext he f.formElem, by rw [f.pendingTableText]; exact hm.pend⟩
  · intro h0 hh
    rw [nameOf_ext he (hm.elems h0 (ho h0 (List.mem_of_head? hh)))]
    exact hm.root h0 (hhead h0 hh)
  · intro y t hy
    obtain ⟨_, b, c⟩ := hm.af y t (ha y t hy)
    exact ⟨isElement_lt (isElement_ext he (hm.afEl y t (ha y t hy))), b,
      fun hx => by rw [nameOf_ext he (hm.elems y (ho y hx))]; exact c (ho y hx)⟩
  · intro y t hy; exact isElement_ext he (hm.afEl y t (ha y t hy))
  · intro y hy; rw [f.headElem] at hy; exact isElement_ext he (hm.head y hy)
  · exact hm.ctx_ext he f.contextElem
  · intro y t hy
    rw [nameOf_ext he (hm.afEl y t (ha y t hy))]; exact hm.afwf y t (ha y t hy)
  · intro y hy
    rw [nameOf_ext he (hm.elems y (ho y hy)), ipOfDom_ext he (hm.elems y (ho y hy))]; exact hm.ip y (ho y hy)

/-- a stretch without DOM edits in which the stack does not get new entries -/
theorem Tr.of_quiet {s s' : State} {calls : List Call} (hm : MInv s) (he : Ext2 s calls s') (hc : edits2 calls = [])
    (ho : ∀ h ∈ s'.openElems, h ∈ s.openElems) (hm' : MInv s') (hcfg : cfgOf s' = cfgOf s) :
    Tr s s' calls (fun x x' => x' = x) := by
  refine ⟨hm', hcfg, he.ext, [], FreshIds.nil _, fun x rest hx hs => ⟨x, ⟨⟨hx.live, ?_, ?_, hx.xlog⟩, by simpa using hs, rfl, rfl, rfl, [],
    by simp, fun _ _ => by rw [hc]; rfl⟩, rfl⟩⟩
  · have := annot_of_sub he.ext hm ho x hx
    simpa using this
  · intro a ha; exact isElement_ext he.ext (hx.annotEl a ha)

/-! ### 1. markers -/

/-- `pushMarker` (Actions.lean) ↔ `State.insertMarker` (TreeModes1) -/
theorem pc_pushMarker {s : State} (hm : MInv s) :
    PC pushMarker s (fun _ s' calls => s' = { s with activeFormatting := s.activeFormatting ++ [.marker] } ∧
      Tr s s' calls (fun x x' => x' = x ∧ Spec.TreeModes.State.insertMarker (absF s x) = absF s' x')) := by
  unfold pushMarker
  refine pc_modS rfl rfl ⟨rfl, ?_⟩
  refine (Tr.of_upd (s' := { s with activeFormatting := s.activeFormatting ++ [.marker] }) hm rfl (fun _ h => h)
    (hm.withAF _ ?_) rfl).conseq ?_
  · intro y t he
    rcases List.mem_append.mp he with h | h
    · exact h
    · simp at h
  · rintro x x' _ _ rfl
    refine ⟨rfl, ?_⟩
    simp [absF, absP, Spec.TreeModes.State.insertMarker, Spec.TreeModes.State.setList, absListE, entryE]

/-- `clearActiveFormattingToMarker` (Actions.lean) ↔ `State.clearToLastMarker` (TreeModes1) -/
theorem pc_clearActiveFormattingToMarker {s : State} (hm : MInv s) :
    PC clearActiveFormattingToMarker s (fun _ s' calls =>
      s' = { s with activeFormatting := (clearToMarkerRev s.activeFormatting.reverse).reverse } ∧
      Tr s s' calls (fun x x' => x' = x ∧ Spec.TreeModes.State.clearToLastMarker (absF s x) = absF s' x')) := by
  unfold clearActiveFormattingToMarker
  refine pc_modS rfl rfl ⟨rfl, ?_⟩
  refine (Tr.of_upd (s' := { s with activeFormatting := (clearToMarkerRev s.activeFormatting.reverse).reverse }) hm rfl
    (fun _ h => h) (hm.withAF _ ?_) rfl).conseq ?_
  · intro y t he
    exact TBSafe.mem_clearedAF he
  · rintro x x' _ _ rfl
    refine ⟨rfl, ?_⟩
    have e : absListE ((clearToMarkerRev s.activeFormatting.reverse).reverse)
        = Spec.TreeAlgo2.clearToLastMarker (absListE s.activeFormatting) := by
      rw [absListE_mapTok, clearToMarker_eq, absListE_mapTok, clearToLastMarker_map]
    simp only [absF, absP, Spec.TreeModes.State.clearToLastMarker, Spec.TreeModes.State.setList, e]

/-! ### 5. reset the insertion mode appropriately -/

open H5V.Lemmas.HtmlTBSpec (toName toSpecMode modelResetStep resetStep_eq)

/-- one iteration of `resetLoop`, by the pure step function `modelResetStep` of `HtmlTBSpecStack` -/
theorem pc_resetLoop_step (s1 : State) (node : Id) (rest : List Id) (len : Nat) (nd : Id)
    (Q : Mode → State → List Call → Prop)
    (hnd : nd = if (len - 1 == 0) = true then s1.contextElem.getD node else node)
    (h1 : ∀ m s2 c2, Ext2 s1 c2 s2 → SameTB s1 s2 → edits c2 = [] →
      modelResetStep (nameOf s1.dom nd) (len - 1 == 0) s1.templateModes.getLast? s1.headElem.isNone = some (some m) →
      Q m s2 c2)
    (h2 : ∀ s2 c2, Ext2 s1 c2 s2 → SameTB s1 s2 → edits c2 = [] →
      modelResetStep (nameOf s1.dom nd) (len - 1 == 0) s1.templateModes.getLast? s1.headElem.isNone = none →
      PC (resetLoop rest (len - 1)) s2 (fun b s3 c3 => Q b s3 (c2 ++ c3))) :
    PC (resetLoop (node :: rest) len) s1 Q := by
  simp only [resetLoop]
  refine pc_getS_bind ?_
  have hnode : ∀ (f : Id → M Mode), PC (f nd) s1 Q → PC (f (match len - 1 == 0, s1.contextElem with
      | true, some ctx => ctx
      | _, _ => node)) s1 Q := by
    intro f hf
    split
    · rename_i hl hc
      rw [hl, hc] at hnd; simp at hnd; subst hnd; exact hf
    · rename_i hne
      cases hl : (len - 1 == 0) with
      | false => rw [hl] at hnd; simp at hnd; subst hnd; exact hf
      | true =>
        cases hc : s1.contextElem with
        | none => rw [hl, hc] at hnd; simp at hnd; subst hnd; exact hf
        | some c => exact absurd hc (hne c hl)
  refine hnode (fun x => elemName x >>= _) ?_
  refine pc_query_bind (PC.of_tot (tot_elemName' s1 nd)) ?_
  intro s2 c2 he2 hs2 hc2
  have H1 := fun m => h1 m s2 c2 he2 hs2 hc2
  have H2 := h2 s2 c2 he2 hs2 hc2
  generalize nameOf s1.dom nd = n at H1 H2 ⊢
  simp only [modelResetStep] at H1 H2
  have leaf : ∀ m, Q m s2 c2 → PC (pure m : M Mode) s2 (fun b s3 c3 => Q b s3 (c2 ++ c3)) :=
    fun m hq => pc_pure (by rw [List.append_nil]; exact hq)
  by_cases c0 : (n.ns != nsHtml) = true
  · simp only [if_pos c0] at H2 ⊢; exact H2 trivial
  simp only [if_neg c0] at H1 H2 ⊢
  by_cases c1 : (isOneOf n.loc ["td", "th"] && !(len - 1 == 0)) = true
  · simp only [if_pos c1] at H1 ⊢; exact leaf _ (H1 _ rfl)
  simp only [if_neg c1] at H1 H2 ⊢
  by_cases c2 : (isName n.loc "tr") = true
  · simp only [if_pos c2] at H1 ⊢; exact leaf _ (H1 _ rfl)
  simp only [if_neg c2] at H1 H2 ⊢
  by_cases c3 : (isOneOf n.loc ["tbody", "thead", "tfoot"]) = true
  · simp only [if_pos c3] at H1 ⊢; exact leaf _ (H1 _ rfl)
  simp only [if_neg c3] at H1 H2 ⊢
  by_cases c4 : (isName n.loc "caption") = true
  · simp only [if_pos c4] at H1 ⊢; exact leaf _ (H1 _ rfl)
  simp only [if_neg c4] at H1 H2 ⊢
  by_cases c5 : (isName n.loc "colgroup") = true
  · simp only [if_pos c5] at H1 ⊢; exact leaf _ (H1 _ rfl)
  simp only [if_neg c5] at H1 H2 ⊢
  by_cases c6 : (isName n.loc "table") = true
  · simp only [if_pos c6] at H1 ⊢; exact leaf _ (H1 _ rfl)
  simp only [if_neg c6] at H1 H2 ⊢
  by_cases c7 : (isName n.loc "template") = true
  · simp only [if_pos c7] at H1 ⊢
    cases hg : s1.templateModes.getLast? with
    | none => exact pc_panicAt
    | some m => simp only [hg] at H1 ⊢; exact leaf _ (H1 _ rfl)
  simp only [if_neg c7] at H1 H2 ⊢
  by_cases c8 : (isName n.loc "head") = true
  · simp only [if_pos c8] at H1 H2 ⊢
    by_cases cl : (!(len - 1 == 0)) = true
    · simp only [if_pos cl] at H1 ⊢; exact leaf _ (H1 _ rfl)
    · simp only [if_neg cl] at H2 ⊢; exact H2 trivial
  simp only [if_neg c8] at H1 H2 ⊢
  by_cases c9 : (isName n.loc "body") = true
  · simp only [if_pos c9] at H1 ⊢; exact leaf _ (H1 _ rfl)
  simp only [if_neg c9] at H1 H2 ⊢
  by_cases c10 : (isName n.loc "frameset") = true
  · simp only [if_pos c10] at H1 ⊢; exact leaf _ (H1 _ rfl)
  simp only [if_neg c10] at H1 H2 ⊢
  by_cases c11 : (isName n.loc "html") = true
  · simp only [if_pos c11] at H1 ⊢
    cases hh : s1.headElem with
    | none => simp only [hh, Option.isNone_none, if_true] at H1 ⊢; exact leaf _ (H1 _ rfl)
    | some v => simp only [hh, Option.isNone_some, Bool.false_eq_true, if_false] at H1 ⊢; exact leaf _ (H1 _ rfl)
  simp only [if_neg c11] at H2 ⊢
  exact H2 trivial

/-- the specification's "reset the insertion mode appropriately" on the names of the handles `l`
(current node first) of the state `s` -/
def resetSpec (s : State) (l : List Id) : Option Spec.TreeAlgo.Mode :=
  Spec.TreeAlgo.resetInsertionMode (s.contextElem.map (fun c => toName (nameOf s.dom c))) s.headElem.isNone
    (s.templateModes.getLast?.map toSpecMode) (l.map (fun h => toName (nameOf s.dom h)))

/-- `resetLoop` (Actions.lean) answers `Spec.TreeAlgo.resetInsertionMode` and only queries the sink -/
theorem pc_resetLoop (s : State) (hm : MInv s) : ∀ (l : List Id) (s1 : State), (∀ h ∈ l, h ∈ s.openElems) →
    SameTB s s1 → TBSafe.Ext s.dom s1.dom →
    PC (resetLoop l l.length) s1 (fun m s2 calls => SameTB s1 s2 ∧ edits calls = [] ∧
      resetSpec s l = some (toSpecMode m)) := by
  intro l
  induction l with
  | nil =>
    intro s1 _ _ _
    simp only [resetLoop]
    exact pc_pure ⟨SameTB.refl _, rfl, rfl⟩
  | cons node rest ih =>
    intro s1 hsub hs1 hx1
    have f1 := hs1.fields
    have hnodeEl : s.dom.isElement node = true := hm.elems node (hsub node (List.mem_cons_self ..))
    -- the node under inspection
    have hndEl : s.dom.isElement (if ((rest.length + 1) - 1 == 0) = true then s1.contextElem.getD node else node) = true := by
      split
      · rw [f1.contextElem]
        cases hc : s.contextElem with
        | none => exact hnodeEl
        | some c => exact hm.ctx c hc
      · exact hnodeEl
    have hname : toName (nameOf s1.dom (if ((rest.length + 1) - 1 == 0) = true then s1.contextElem.getD node else node))
        = (if rest.isEmpty then (s.contextElem.map (fun c => toName (nameOf s.dom c))).getD (toName (nameOf s.dom node))
            else toName (nameOf s.dom node)) := by
      rw [nameOf_ext hx1 hndEl, HtmlTBSpec.len_last, f1.contextElem]
      cases rest.isEmpty with
      | false => rfl
      | true => cases s.contextElem <;> rfl
    have hlist : ∀ x : Spec.TreeAlgo.Mode, resetSpec s (node :: rest)
        = (Spec.TreeAlgo.resetStep (toName (nameOf s1.dom (if ((rest.length + 1) - 1 == 0) = true then s1.contextElem.getD node else node)))
            rest.isEmpty (s.templateModes.getLast?.map toSpecMode) s.headElem.isNone).getD (resetSpec s rest) := by
      intro _
      rw [hname]
      simp only [resetSpec, List.map_cons, Spec.TreeAlgo.resetInsertionMode, List.isEmpty_map]
    simp only [List.length_cons]
    refine pc_resetLoop_step s1 node rest (rest.length + 1) _ _ rfl ?_ ?_
    · intro m s2 c2 _ hs2 hc2 hstep
      refine ⟨hs2, hc2, ?_⟩
      rw [hlist .inBody, resetStep_eq, ← f1.templateModes, ← f1.headElem, ← HtmlTBSpec.len_last, hstep]
      rfl
    · intro s2 c2 he2 hs2 hc2 hstep
      have hsp : resetSpec s (node :: rest) = if rest.isEmpty then some .inBody else resetSpec s rest := by
        rw [hlist .inBody, resetStep_eq, ← f1.templateModes, ← f1.headElem, ← HtmlTBSpec.len_last, hstep]
        simp only []
        cases ((rest.length + 1) - 1 == 0) <;> rfl
      cases rest with
      | nil =>
        simp only [resetLoop]
        refine pc_pure ⟨hs2, by rw [List.append_nil]; exact hc2, ?_⟩
        rw [hsp]; rfl
      | cons a r =>
        have hlen : (a :: r).length + 1 - 1 = (a :: r).length := rfl
        rw [hlen]
        refine pc_conseq (ih s2 (fun h hh => hsub h (List.mem_cons_of_mem _ hh)) (hs1.trans hs2) (hx1.trans he2.ext)) ?_
        rintro m s3 c3 _ ⟨hs3, hc3, hspec⟩
        refine ⟨hs2.trans hs3, by rw [edits_append, hc2, hc3]; rfl, ?_⟩
        rw [hsp]; exact hspec

theorem resetStep_inTableText (node : Spec.TreeAlgo.Name) (last : Bool) (tm : Option Spec.TreeAlgo.Mode) (hn : Bool)
    (h : Spec.TreeAlgo.resetStep node last tm hn = some (some .inTableText)) : tm = some .inTableText := by
  unfold Spec.TreeAlgo.resetStep at h
  by_cases c0 : ((node.isHtml "td" || node.isHtml "th") && !last) = true
  · rw [if_pos c0] at h; cases h
  rw [if_neg c0] at h
  by_cases c1 : node.isHtml "tr" = true
  · rw [if_pos c1] at h; cases h
  rw [if_neg c1] at h
  by_cases c2 : (node.isHtml "tbody" || node.isHtml "thead" || node.isHtml "tfoot") = true
  · rw [if_pos c2] at h; cases h
  rw [if_neg c2] at h
  by_cases c3 : node.isHtml "caption" = true
  · rw [if_pos c3] at h; cases h
  rw [if_neg c3] at h
  by_cases c4 : node.isHtml "colgroup" = true
  · rw [if_pos c4] at h; cases h
  rw [if_neg c4] at h
  by_cases c5 : node.isHtml "table" = true
  · rw [if_pos c5] at h; cases h
  rw [if_neg c5] at h
  by_cases ct : node.isHtml "template" = true
  · rw [if_pos ct] at h; injection h
  rw [if_neg ct] at h
  by_cases c6 : (node.isHtml "head" && !last) = true
  · rw [if_pos c6] at h; cases h
  rw [if_neg c6] at h
  by_cases c7 : node.isHtml "body" = true
  · rw [if_pos c7] at h; cases h
  rw [if_neg c7] at h
  by_cases c8 : node.isHtml "frameset" = true
  · rw [if_pos c8] at h; cases h
  rw [if_neg c8] at h
  by_cases ch : node.isHtml "html" = true
  · rw [if_pos ch] at h; cases hn <;> cases h
  rw [if_neg ch] at h
  cases last <;> cases h

theorem reset_inTableText (ctx : Option Spec.TreeAlgo.Name) (hn : Bool) (tm : Option Spec.TreeAlgo.Mode) :
    ∀ l, Spec.TreeAlgo.resetInsertionMode ctx hn tm l = some .inTableText → tm = some .inTableText := by
  intro l
  induction l with
  | nil => intro h; cases h
  | cons a r ih =>
    intro h
    simp only [Spec.TreeAlgo.resetInsertionMode] at h
    cases hs : Spec.TreeAlgo.resetStep (if r.isEmpty then ctx.getD a else a) r.isEmpty tm hn with
    | none => rw [hs] at h; exact ih h
    | some v => 
      rw [hs] at h
      simp only [Option.getD_some] at h
      subst h
      exact resetStep_inTableText _ _ _ _ hs

theorem toAlgo_imode (m : Mode) : IMode.toAlgo (imode m) = some (toSpecMode m) := by cases m <;> rfl
theorem ofAlgo_toSpecMode (m : Mode) : IMode.ofAlgo (toSpecMode m) = imode m := by cases m <;> rfl

/-- the specification's `resetInsertionMode` on an abstract state, by `resetSpec` -/
theorem spec_reset_eq {s : State} {x : Aux} (hx : AuxOk s x) {m : Mode}
    (h : resetSpec s s.openElems.reverse = some (toSpecMode m)) :
    Spec.TreeModes.resetInsertionMode (cfgOf s) (absF s x) = .ok ((absF s x).setMode (imode m)) := by
  have e1 : (absF s x).templateModes.getLast?.bind IMode.toAlgo = s.templateModes.getLast?.map toSpecMode := by
    simp only [absF, List.getLast?_map]
    cases s.templateModes.getLast? with
    | none => rfl
    | some m' => simp [toAlgo_imode]
  have e2 : (cfgOf s).context.map (·.name) = s.contextElem.map (fun c => toName (nameOf s.dom c)) := by
    simp only [cfgOf, Option.map_map]; rfl
  have e3 : (absF s x).headPointer.isNone = s.headElem.isNone := by
    simp only [absF]; cases s.headElem <;> rfl
  have e4 : (absF s x).names = s.openElems.reverse.map (fun h => toName (nameOf s.dom h)) := by
    simp only [Spec.TreeModes.State.names, absF, absP, hx.live, Bool.false_eq_true, if_false, absStack, List.map_reverse,
      List.map_map]
    rfl
  have e5 : (cfgOf s).edition = .customizableSelect := rfl
  unfold resetSpec at h
  simp only [Spec.TreeModes.resetInsertionMode, e1, e2, e3, e4, e5, h, Option.map_some, ofAlgo_toSpecMode,
    Spec.TreeModes.req]
  rfl

/-- `resetInsertionMode` (Actions.lean: `resetLoop`) ↔ `Spec.TreeModes.resetInsertionMode` (TreeModes1,
2025 edition): a query; the mode returned is the one the specification switches to.  (The specification
switches the mode itself; the model's callers do `setMode m` next: `pc_setMode_junk`, `pc_resetAndSetMode`.) -/
theorem pc_resetInsertionMode {s : State} (hm : MInv s) :
    PC resetInsertionMode s (fun m s' calls => SameTB s s' ∧
      (m = .inTableText → s.templateModes.getLast? = some .inTableText) ∧
      Tr s s' calls (fun x x' => x' = x ∧ absF s x = absF s' x ∧
        Spec.TreeModes.resetInsertionMode (cfgOf s) (absF s x) = .ok ((absF s x).setMode (imode m)))) := by
  unfold resetInsertionMode
  refine pc_getS_bind ?_
  have := pc_resetLoop s hm s.openElems.reverse s (fun h hh => List.mem_reverse.mp hh) (SameTB.refl _) (TBSafe.Ext.refl _)
  rw [List.length_reverse] at this
  intro m s' hr
  obtain ⟨calls, he, hs, hc, hspec⟩ := this m s' hr
  refine ⟨calls, he, hs, ?_, ?_⟩
  · intro hm'
    subst hm'
    have := reset_inTableText _ _ _ _ hspec
    cases hg : s.templateModes.getLast? with
    | none => rw [hg] at this; cases this
    | some m' =>
      rw [hg] at this
      simp only [Option.map_some, Option.some.injEq] at this
      rw [HtmlTBSpec.toSpecMode_inj (a := m') (b := .inTableText) this]
  · refine (Tr.of_same hm hs he (by rw [← edits2_edits, hc]; rfl)).conseq ?_
    rintro x x' hx _ ⟨rfl, e⟩
    exact ⟨rfl, e, spec_reset_eq hx hspec⟩

/-- `setMode m` (m ≠ "in table text") with the `pendingJunk` adjustment:
`absF s' x' = (absF s x).setMode (imode m)` -/
theorem pc_setMode_junk {s : State} (hm : MInv s) (m : Mode) (hne : m ≠ .inTableText) :
    PC (setMode m) s (fun _ s' calls => s' = { s with mode := m } ∧
      Tr s s' calls (fun x x' => x' = { x with pendingJunk := (absF s x).pendingTableChars } ∧
        absF s' x' = (absF s x).setMode (imode m))) := by
  unfold setMode
  refine pc_modS rfl rfl ⟨rfl, ?_⟩
  refine ⟨hm.withMode m, rfl, TBSafe.Ext.refl _, [], FreshIds.nil _, fun x rest hx hs => ?_⟩
  refine ⟨{ x with pendingJunk := (absF s x).pendingTableChars }, ⟨⟨hx.live, hx.annot, hx.annotEl, hx.xlog⟩, by simpa using hs,
    rfl, rfl, rfl, [], by simp [Aux.fullLog], fun _ _ => rfl⟩, rfl, ?_⟩
  have : (m == Mode.inTableText) = false := by
    cases m <;> first | rfl | exact absurd rfl hne
  simp only [absF, absP, this, Bool.false_eq_true, if_false, Spec.TreeModes.State.setMode]

/-- `let m ← resetInsertionMode; setMode m` ↔ `Spec.TreeModes.resetInsertionMode` -/
theorem pc_resetAndSetMode {s : State} (hm : MInv s) :
    PC (resetInsertionMode >>= fun m => setMode m) s (fun _ s' calls =>
      (∃ m, s' = { s with mode := m, dom := s'.dom, traceRev := s'.traceRev }) ∧
      Tr s s' calls (fun x x' => Spec.TreeModes.resetInsertionMode (cfgOf s) (absF s x) = .ok (absF s' x'))) := by
  have htm : s.templateModes.getLast? ≠ some .inTableText :=
    fun h => hm.tmodes _ (List.mem_of_getLast? h) rfl
  refine pc_seq (pc_resetInsertionMode hm) ?_
  rintro m s1 c1 he1 ⟨hs1, hne, htr1⟩
  refine pc_conseq (pc_setMode_junk htr1.1 m (fun h => htm (hne h))) ?_
  rintro _ s2 c2 _ ⟨hs2, htr2⟩
  refine ⟨⟨m, ?_⟩, (htr1.trans htr2).conseq ?_⟩
  · rw [hs2]; unfold SameTB at hs1; rw [hs1]
  · rintro x x2 _ _ ⟨x1, ⟨hx1, e1, r1⟩, _, r2⟩
    subst hx1
    rw [r1, r2, e1]

/-! ### 6. close the cell -/

theorem mem_clearRev {N T : Type} {e : Entry N T} : ∀ {l : List (Entry N T)}, e ∈ Spec.TreeAlgo2.clearRev l → e ∈ l := by
  intro l
  induction l with
  | nil => intro h; exact h
  | cons a r ih =>
    intro h
    simp only [Spec.TreeAlgo2.clearRev] at h
    split at h
    · exact List.mem_cons_of_mem _ h
    · exact List.mem_cons_of_mem _ (ih h)

theorem mem_clearToLastMarker {N T : Type} {e : Entry N T} {l : List (Entry N T)}
    (h : e ∈ Spec.TreeAlgo2.clearToLastMarker l) : e ∈ l := by
  unfold Spec.TreeAlgo2.clearToLastMarker at h
  exact List.mem_reverse.mp (mem_clearRev (List.mem_reverse.mp h))

theorem absEntry_inj' {a b : FormatEntry} (h : absEntry a = absEntry b) : a = b := by
  cases a <;> cases b <;> simp [absEntry] at h ⊢
  exact h

theorem head?_of_isPrefix {α : Type} {l l' : List α} (h : l' <+: l) (a : α) (ha : l'.head? = some a) : l.head? = some a := by
  obtain ⟨t, rfl⟩ := h
  cases l' with
  | nil => cases ha
  | cons b r => exact ha

/-- the specification's "close the cell" is `TreeAlgo2.closeTheCell` on `p`, the switch to "in row"
and possibly a parse error -/
theorem closeCell_eq_errs {N : Type} [DecidableEq N] (σ : Spec.TreeModes.State N) :
    ∃ errs, Spec.TreeModes.closeCell σ = { σ with p := Spec.TreeAlgo2.closeTheCell σ.p, mode := .inRow, errors := errs } := by
  unfold Spec.TreeModes.closeCell
  by_cases h : (Spec.TreeModes.genImplied σ).curIn ["td", "th"] = true
  · exact ⟨σ.errors, by simp only [h, if_true]⟩
  · exact ⟨σ.errors ++ ["close the cell: current node is not td/th"], by simp only [h]; rfl⟩

/-- `closeTheCell` (Actions.lean) ↔ steps 1–4 of the specification's `closeCell` (TreeModes3;
`TreeAlgo2.closeTheCell` on the `PState`); step 5, the switch to "in row", is the caller's
`.reprocess .inRow` -/
theorem pc_closeTheCellP {s : State} (hm : MInv s) :
    PC closeTheCell s (fun _ s' calls => SameButStackList s s' ∧ s'.openElems <+: s.openElems ∧
      (∀ y t, FormatEntry.element y t ∈ s'.activeFormatting → FormatEntry.element y t ∈ s.activeFormatting) ∧
      Tr s s' calls (fun x x' => x' = x ∧
        absF s' x = { absF s x with p := Spec.TreeAlgo2.closeTheCell (absF s x).p })) := by
  refine pc_conseq (PC.of_tot (tot_closeTheCell s hm.elems [] [])) ?_
  rintro _ s' calls he ⟨hS, hpre, hc, heq⟩
  have hS' : SameButStackList s s' := hS
  have hsub : ∀ h ∈ s'.openElems, h ∈ s.openElems := fun h hh => hpre.subset hh
  have hstack := congrArg PState.stack heq
  have hlist := congrArg PState.list heq
  simp only [Spec.TreeAlgo2.closeTheCell, absState] at hstack hlist
  have haf : ∀ y t, FormatEntry.element y t ∈ s'.activeFormatting → FormatEntry.element y t ∈ s.activeFormatting := by
    intro y t hy
    have : absEntry (.element y t) ∈ absList s'.activeFormatting := List.mem_map_of_mem hy
    rw [hlist] at this
    obtain ⟨e, he', hee⟩ := List.mem_map.mp (mem_clearToLastMarker this)
    rw [absEntry_inj' hee] at he'; exact he'
  have hm' : MInv s' := hm.of_sub hS' he.ext hsub (head?_of_isPrefix hpre) haf
  refine ⟨hS', hpre, haf, (Tr.of_quiet hm he (by rw [← edits2_edits, hc]; rfl) hsub hm' (cfgOf_sbsl hm hS' he.ext)).conseq ?_⟩
  rintro x x' hx _ hxx
  subst x'
  refine ⟨rfl, ?_⟩
  rw [absF_sbsl x hm hS' he.ext]
  have f := sbsl_fields hS'
  have e1 : absStack s'.dom s'.openElems = absStack s.dom s'.openElems :=
    absStack_ext (fun y hy => hm.elems y (hsub y hy)) he.ext
  have : absP s' x = Spec.TreeAlgo2.closeTheCell (absF s x).p := by
    rw [absF_p, absP_eq s x hx.live, closeTheCell_mapP, absP_eq s' x hx.live]
    congr 1
    simp only [Spec.TreeAlgo2.closeTheCell, absState, e1, hstack, hlist, f.fosterParenting, f.formElem]
  rw [this]

/-- the specification's `closeCell` on the abstract state, for the end of the callers' arms
(`closeTheCell; pure (.reprocess .inRow token)`) -/
theorem closeCell_absF {s s' : State} {x : Aux}
    (h : absF s' x = { absF s x with p := Spec.TreeAlgo2.closeTheCell (absF s x).p }) :
    ∃ errs, Spec.TreeModes.closeCell (absF s x)
      = absF { s' with mode := .inRow } { x with errors := errs, pendingJunk := (absF s x).pendingTableChars } := by
  obtain ⟨errs, he⟩ := closeCell_eq_errs (absF s x)
  refine ⟨errs, ?_⟩
  have e : absF { s' with mode := .inRow } { x with errors := errs, pendingJunk := (absF s x).pendingTableChars }
      = { absF s' x with mode := .inRow, errors := errs, pendingTableChars := (absF s x).pendingTableChars } := rfl
  rw [he, e, h]

/-! ### what the algorithms of `TreeAlgo2` do to the stack, the list, the supply and the log

`Delta P st st'`: `st'` arises from `st` by consuming the nodes `ids` of the supply and logging `L`;
every stack entry of `st'` is an entry of `st` or a new HTML element; every list entry of `st'` is an
entry of `st` or an entry for a new node with a token satisfying `P`, and the log has the `create`
for that node and token.  From this (and the replay of the model's calls) the invariant `MInv` of the
model's final state is derived (`minv_of_delta`). -/
section Delta
variable {N T : Type}

def Delta (P : T → Prop) (st st' : PState N T) : Prop :=
  ∃ (ids : List N) (L : List (Edit N T)), st.supply = ids ++ st'.supply ∧ st'.log = st.log ++ L ∧
    (∀ e ∈ st'.stack, e ∈ st.stack ∨ (e.name.ns = Spec.TreeAlgo.nsHtml ∧ e.id ∈ ids)) ∧
    (∀ n t, Entry.element n t ∈ st'.list → Entry.element n t ∈ st.list ∨
      (n ∈ ids ∧ P t ∧ Edit.create n Spec.TreeAlgo.nsHtml t ∈ L))

/-- the tokens of the list satisfy `P` -/
def TokOk (P : T → Prop) (st : PState N T) : Prop := ∀ n t, Entry.element n t ∈ st.list → P t

/-- the first entry of the stack is not touched -/
def HeadPres (st st' : PState N T) : Prop := ∀ e, st'.stack.head? = some e → st.stack.head? = some e

theorem HeadPres.refl (st : PState N T) : HeadPres st st := fun _ h => h
theorem HeadPres.trans {a b c : PState N T} (h1 : HeadPres a b) (h2 : HeadPres b c) : HeadPres a c :=
  fun e h => h1 e (h2 e h)

theorem Delta.refl (P : T → Prop) (st : PState N T) : Delta P st st :=
  ⟨[], [], by simp, by simp, fun _ h => Or.inl h, fun _ _ h => Or.inl h⟩

theorem Delta.trans {P : T → Prop} {a b c : PState N T} (h1 : Delta P a b) (h2 : Delta P b c) : Delta P a c := by
  obtain ⟨i1, L1, s1, l1, st1, li1⟩ := h1
  obtain ⟨i2, L2, s2, l2, st2, li2⟩ := h2
  refine ⟨i1 ++ i2, L1 ++ L2, by rw [s1, s2, List.append_assoc], by rw [l2, l1, List.append_assoc], ?_, ?_⟩
  · intro e he
    rcases st2 e he with h | ⟨h, h'⟩
    · rcases st1 e h with h | ⟨h, h'⟩
      · exact Or.inl h
      · exact Or.inr ⟨h, List.mem_append_left _ h'⟩
    · exact Or.inr ⟨h, List.mem_append_right _ h'⟩
  · intro n t he
    rcases li2 n t he with h | ⟨h, h', h''⟩
    · rcases li1 n t h with h | ⟨h, h', h''⟩
      · exact Or.inl h
      · exact Or.inr ⟨List.mem_append_left _ h, h', List.mem_append_left _ h''⟩
    · exact Or.inr ⟨List.mem_append_right _ h, h', List.mem_append_right _ h''⟩

theorem Delta.tokOk {P : T → Prop} {a b : PState N T} (h : Delta P a b) (ht : TokOk P a) : TokOk P b := by
  obtain ⟨_, _, _, _, _, li⟩ := h
  intro n t hm
  rcases li n t hm with h | ⟨_, h, _⟩
  · exact ht n t h
  · exact h

/-- nothing new: the stack and the list shrink -/
theorem Delta.sub {P : T → Prop} {st st' : PState N T} (hsup : st'.supply = st.supply) (hlog : st'.log = st.log)
    (hst : ∀ e ∈ st'.stack, e ∈ st.stack) (hl : ∀ e ∈ st'.list, e ∈ st.list) : Delta P st st' :=
  ⟨[], [], by simp [hsup], by simp [hlog], fun e h => Or.inl (hst e h), fun _ _ h => Or.inl (hl _ h)⟩

/-- one new HTML element for the token `tok` -/
theorem Delta.new {P : T → Prop} {st st' : PState N T} (n : N) (tok : T) (name : Spec.TreeAlgo.Str) (hP : P tok)
    (hsup : st.supply = n :: st'.supply)
    (L : List (Edit N T)) (hlog : st'.log = st.log ++ L) (hc : Edit.create n Spec.TreeAlgo.nsHtml tok ∈ L)
    (hst : ∀ e ∈ st'.stack, e ∈ st.stack ∨ e = ⟨n, ⟨Spec.TreeAlgo.nsHtml, name⟩⟩)
    (hl : ∀ e ∈ st'.list, e ∈ st.list ∨ e = Entry.element n tok) : Delta P st st' := by
  refine ⟨[n], L, by simp [hsup], hlog, ?_, ?_⟩
  · intro e he
    rcases hst e he with h | h
    · exact Or.inl h
    · subst h; exact Or.inr ⟨rfl, by simp⟩
  · intro m t hm
    rcases hl _ hm with h | h
    · exact Or.inl h
    · cases h; exact Or.inr ⟨by simp, hP, hc⟩

end Delta

/-! #### insert an HTML element, reconstruct -/
section DeltaReconstruct
variable {N T : Type} [DecidableEq N]

omit [DecidableEq N] in
theorem insertForeignElement_some {cx : Ctx T} {st st1 : PState N T} {tok : T} {ns : Spec.TreeAlgo.Str} {only : Bool}
    {el : Elem N} (h : Spec.TreeAlgo2.insertForeignElement cx st tok ns only = some (st1, el)) :
    ∃ n L, st.supply = n :: st1.supply ∧ el = ⟨n, ⟨ns, cx.tokName tok⟩⟩ ∧ st1.stack = st.stack ++ [el] ∧
      st1.list = st.list ∧ st1.log = st.log ++ L ∧ Edit.create n ns tok ∈ L ∧ st.stack ≠ [] ∧
      st1.fosterParenting = st.fosterParenting ∧ st1.formPointer = st.formPointer := by
  unfold Spec.TreeAlgo2.insertForeignElement at h
  cases hloc : Spec.TreeAlgo2.appropriatePlace st.stack st.fosterParenting none with
  | none => rw [hloc] at h; cases h
  | some loc =>
    have hne : st.stack ≠ [] := by
      intro he
      rw [he] at hloc
      simp [Spec.TreeAlgo2.appropriatePlace] at hloc
    rw [hloc] at h
    simp only [Option.bind_some, PState.newNode] at h
    cases hs : st.supply with
    | nil => rw [hs] at h; cases h
    | cons n rest =>
      rw [hs] at h
      simp only [Option.map_some, Option.some.injEq, Prod.mk.injEq] at h
      obtain ⟨h1, h2⟩ := h
      subst h2
      subst h1
      exact ⟨n, _, rfl, rfl, rfl, rfl, by simp only [List.append_assoc]; rfl, by simp, hne, rfl, rfl⟩

omit [DecidableEq N] in
theorem reconstructCreate_delta (cx : Ctx T) (P : T → Prop) : ∀ (n i : Nat) (st st' : PState N T), TokOk P st →
    Spec.TreeAlgo2.reconstructCreate cx n i st = some st' → Delta P st st' ∧ HeadPres st st' := by
  intro n
  induction n with
  | zero =>
    intro i st st' _ h
    simp only [Spec.TreeAlgo2.reconstructCreate, Option.some.injEq] at h
    subst h; exact ⟨Delta.refl _ _, HeadPres.refl _⟩
  | succ n ih =>
    intro i st st' ht h
    unfold Spec.TreeAlgo2.reconstructCreate at h
    cases hi : st.list[i]? with
    | none => rw [hi] at h; cases h
    | some e =>
      cases e with
      | marker => rw [hi] at h; cases h
      | element x tok =>
        rw [hi] at h
        simp only [Spec.TreeAlgo2.insertHtmlElement] at h
        cases hins : Spec.TreeAlgo2.insertForeignElement cx st tok Spec.TreeAlgo.nsHtml false with
        | none => rw [hins] at h; cases h
        | some r =>
          obtain ⟨st1, el⟩ := r
          rw [hins] at h
          simp only [Option.bind_some] at h
          obtain ⟨m, L, hsup, hel, hstack, hlist, hlog, hc, hne, _, _⟩ := insertForeignElement_some hins
          have hP : P tok := ht x tok (List.mem_of_getElem? hi)
          have hd : Delta P st { st1 with list := st1.list.set i (.element el.id tok) } := by
            refine Delta.new m tok (cx.tokName tok) hP hsup L hlog hc ?_ ?_
            · intro e he
              simp only [hstack, List.mem_append, List.mem_singleton] at he
              rcases he with he | he
              · exact Or.inl he
              · exact Or.inr (he.trans hel)
            · intro e he
              rcases List.mem_or_eq_of_mem_set he with he | he
              · rw [hlist] at he; exact Or.inl he
              · rw [hel] at he; exact Or.inr he
          have hh : HeadPres st { st1 with list := st1.list.set i (.element el.id tok) } := by
            intro e he
            simp only [hstack] at he
            cases hst : st.stack with
            | nil => exact absurd hst hne
            | cons a r => rw [hst] at he; exact he
          split at h
          · obtain ⟨d2, h2⟩ := ih _ _ _ (hd.tokOk ht) h
            exact ⟨hd.trans d2, hh.trans h2⟩
          · simp only [Option.some.injEq] at h
            subst h; exact ⟨hd, hh⟩

theorem reconstruct_delta (cx : Ctx T) (P : T → Prop) (st st' : PState N T) (ht : TokOk P st)
    (h : Spec.TreeAlgo2.reconstructActiveFormattingElements cx st = some st') : Delta P st st' ∧ HeadPres st st' := by
  unfold Spec.TreeAlgo2.reconstructActiveFormattingElements at h
  cases hl : st.list.getLast? with
  | none => rw [hl] at h; simp only [Option.some.injEq] at h; subst h; exact ⟨Delta.refl _ _, HeadPres.refl _⟩
  | some last =>
    rw [hl] at h
    simp only [] at h
    split at h
    · simp only [Option.some.injEq] at h; subst h; exact ⟨Delta.refl _ _, HeadPres.refl _⟩
    · exact reconstructCreate_delta cx P _ _ _ _ ht h

end DeltaReconstruct

/-! #### from `Delta` to the invariant of the model's final state -/

/-- a node answered by a `create_element` call of a replayed call list is an element with the
name of the call in the final DOM -/
theorem created_of_replay : ∀ {calls : List Call} {d d' : Dom}, Replay d calls d' →
    ∀ (q : QualName) (a : List Attr) (f : ElementFlags) (n : Id), (SinkOp.createElement q a f, Output.node n) ∈ calls →
    d'.isElement n = true ∧ nameOf d' n = ⟨q.ns, q.loc⟩ := by
  intro calls
  induction calls with
  | nil => intro d d' _ q a f n hm; cases hm
  | cons c r ih =>
    intro d d' h q a f n hm
    obtain ⟨d1, h1, h2⟩ := h
    rcases List.mem_cons.mp hm with hc | hc
    · subst hc
      rw [TBSafe.apply_createElement] at h1
      simp only [Except.ok.injEq, Prod.mk.injEq, Output.node.injEq] at h1
      obtain ⟨e1, e2⟩ := h1
      have hf := (createElement_facts d q a f).2
      rw [e1, e2] at hf
      have hel : d1.isElement n = true := isElement_of_elemName hf
      have hx := replay_ext h2
      refine ⟨isElement_ext hx hel, ?_⟩
      rw [nameOf_ext hx hel]
      unfold nameOf; rw [hf]
    · exact ih h2 q a f n hc

theorem created_of_edits {s s' : State} {calls : List Call} (he : Ext2 s calls s') {L : List (Edit Id Tag)} {tc : Id → Id}
    (hL : edits calls = L.map (editCall tc)) {n : Id} {ns : Str} {t : Tag} (hc : Edit.create n ns t ∈ L) :
    s'.dom.isElement n = true ∧ nameOf s'.dom n = ⟨ns, t.name⟩ := by
  have h1 : editCall tc (Edit.create n ns t) ∈ edits calls := by rw [hL]; exact List.mem_map_of_mem hc
  have h2 : editCall tc (Edit.create n ns t) ∈ calls := (List.mem_filter.mp h1).1
  exact created_of_replay he.replay _ _ _ n h2

theorem mem_absStack {d : Dom} {l : List Id} {e : Elem Id} (h : e ∈ absStack d l) : e.id ∈ l ∧ e = elemOf d e.id := by
  obtain ⟨y, hy, rfl⟩ := List.mem_map.mp h
  exact ⟨hy, rfl⟩

theorem mem_absList {af : List FormatEntry} {n : Id} {t : Tag} :
    Entry.element n t ∈ absList af ↔ FormatEntry.element n t ∈ af := by
  constructor
  · intro h
    obtain ⟨e, he, hee⟩ := List.mem_map.mp h
    cases e with
    | marker => cases hee
    | element a b => simp only [absEntry, Entry.element.injEq] at hee; rw [← hee.1, ← hee.2]; exact he
  · intro h; exact List.mem_map_of_mem (f := absEntry) h

/-- the tokens of the list are start tags (`Tag.equivModuloAttrOrder` also compares the kind), and the
listed elements are HTML elements with the tag name of their token (`MInv.af` says this only for
the entries that are open; `handle_misnested_a_tags` asks the sink for the name of a listed element) -/
def AFWf (s : State) : Prop := ∀ h t, FormatEntry.element h t ∈ s.activeFormatting →
  t.kind = .startTag ∧ nameOf s.dom h = ⟨nsHtml, t.name⟩

/-- `AFWf` is a field of the invariant -/
theorem MInv.toAFWf {s : State} (hm : MInv s) : AFWf s := hm.afwf

/-- `AFWf` survives every step that extends the DOM and adds no entries to the list -/
theorem AFWf.of_sub {s s' : State} (hw : AFWf s) (hm : MInv s) (hx : TBSafe.Ext s.dom s'.dom)
    (ha : ∀ y t, FormatEntry.element y t ∈ s'.activeFormatting → FormatEntry.element y t ∈ s.activeFormatting) :
    AFWf s' := by
  intro y t hy
  obtain ⟨h1, h2⟩ := hw y t (ha y t hy)
  exact ⟨h1, by rw [nameOf_ext hx (hm.afEl y t (ha y t hy))]; exact h2⟩

/-- `AFWf` after a step whose new entries reuse listed tokens for new HTML elements of that name -/
theorem AFWf.of_new {s s' : State} (hw : AFWf s) (hm : MInv s) (hx : TBSafe.Ext s.dom s'.dom)
    (ha : ∀ y t, FormatEntry.element y t ∈ s'.activeFormatting → FormatEntry.element y t ∈ s.activeFormatting ∨
      ((∃ y0, FormatEntry.element y0 t ∈ s.activeFormatting) ∧ nameOf s'.dom y = ⟨nsHtml, t.name⟩)) :
    AFWf s' := by
  intro y t hy
  rcases ha y t hy with h | ⟨⟨y0, h0⟩, h1⟩
  · obtain ⟨h1, h2⟩ := hw y t h
    exact ⟨h1, by rw [nameOf_ext hx (hm.afEl y t h)]; exact h2⟩
  · exact ⟨(hw y0 t h0).1, h1⟩

theorem AFWf.withAF {s : State} (hw : AFWf s) (af : List FormatEntry)
    (hsub : ∀ x t, FormatEntry.element x t ∈ af → FormatEntry.element x t ∈ s.activeFormatting) :
    AFWf { s with activeFormatting := af } := fun y t hy => hw y t (hsub y t hy)

/-- `AFWf` after `pushMarker` -/
theorem AFWf.pushMarker {s : State} (hw : AFWf s) :
    AFWf { s with activeFormatting := s.activeFormatting ++ [.marker] } :=
  hw.withAF _ (fun y t he => by
    rcases List.mem_append.mp he with h | h
    · exact h
    · simp at h)

/-- `AFWf` after `clearActiveFormattingToMarker` -/
theorem AFWf.clearToMarker {s : State} (hw : AFWf s) :
    AFWf { s with activeFormatting := (clearToMarkerRev s.activeFormatting.reverse).reverse } :=
  hw.withAF _ (fun _ _ he => TBSafe.mem_clearedAF he)

/-- **the invariant after a phase-1 step**: from `Delta` / `HeadPres` of the specification's run on the
abstract states and the replay of the model's calls -/
theorem minv_of_delta {s s' : State} {calls : List Call} (hm : MInv s) (he : Ext2 s calls s')
    (hS : SameButStackList s s') (hok' : ElemsOk s'.dom s'.openElems) (ids : List Id) (L : List (Edit Id Tag))
    (hfresh : ∀ x ∈ ids, s.dom.size ≤ x) (hL : edits calls = L.map (editCall (tcOf s'.dom)))
    (hD : Delta (fun t => ∃ y0, FormatEntry.element y0 t ∈ s.activeFormatting) (absState s ids []) (absState s' [] L))
    (hH : HeadPres (absState s ids []) (absState s' [] L)) :
    MInv s' ∧ (∀ h ∈ s'.openElems, h ∈ s.openElems ∨ (nameOf s'.dom h).ns = nsHtml) ∧
    (∀ y t, FormatEntry.element y t ∈ s'.activeFormatting → FormatEntry.element y t ∈ s.activeFormatting ∨
      ((∃ y0, FormatEntry.element y0 t ∈ s.activeFormatting) ∧ nameOf s'.dom y = ⟨nsHtml, t.name⟩)) := by
  obtain ⟨ids', L', hsup, hlog, hst, hli⟩ := hD
  have hids : ids' = ids := by simpa [absState] using hsup.symm
  have hL' : L' = L := by simpa [absState] using hlog.symm
  subst hids; subst hL'
  have hx := he.ext
  have f := sbsl_fields hS
  -- stack entries
  have hstack : ∀ h ∈ s'.openElems, (h ∈ s.openElems ∧ nameOf s'.dom h = nameOf s.dom h) ∨
      ((nameOf s'.dom h).ns = nsHtml ∧ h ∈ ids') := by
    intro h hh
    have : elemOf s'.dom h ∈ (absState s' [] L').stack := List.mem_map_of_mem hh
    rcases hst _ this with h1 | ⟨h1, h2⟩
    · obtain ⟨h3, h4⟩ := mem_absStack h1
      exact Or.inl ⟨h3, (nameOf_ext hx (hm.elems h h3))⟩
    · exact Or.inr ⟨h1, h2⟩
  -- list entries
  have hlist : ∀ y t, FormatEntry.element y t ∈ s'.activeFormatting → FormatEntry.element y t ∈ s.activeFormatting ∨
      (y ∈ ids' ∧ (∃ y0, FormatEntry.element y0 t ∈ s.activeFormatting) ∧
        s'.dom.isElement y = true ∧ nameOf s'.dom y = ⟨nsHtml, t.name⟩) := by
    intro y t hy
    rcases hli y t (mem_absList.mpr hy) with h1 | ⟨h1, h2, h3⟩
    · exact Or.inl (mem_absList.mp h1)
    · exact Or.inr ⟨h1, h2, created_of_edits he hL h3⟩
  refine ⟨⟨hok', ?_, ?_, ?_, ?_, ?_, ?_, ?_, by rw [f.templateModes]; exact hm.tmodes, hm.form_ext he.ext f.formElem,
    by rw [f.pendingTableText]; exact hm.pend⟩, ?_, ?_⟩
  · intro h0 hh
    have h1 : (absState s' [] L').stack.head? = some (elemOf s'.dom h0) := by
      simp only [absState, absStack_head?, hh, Option.map_some]
    have h2 := hH _ h1
    simp only [absState, absStack_head?] at h2
    cases hh0 : s.openElems.head? with
    | none => rw [hh0] at h2; cases h2
    | some a =>
      rw [hh0] at h2
      simp only [Option.map_some, Option.some.injEq] at h2
      have hid : a = h0 := congrArg Elem.id h2
      subst hid
      rw [nameOf_ext hx (hm.elems a (List.mem_of_head? hh0))]
      exact hm.root a hh0
  · intro y t hy
    rcases hlist y t hy with h1 | ⟨h1, ⟨y0, h2⟩, h3, h4⟩
    · obtain ⟨a, b, c⟩ := hm.af y t h1
      refine ⟨isElement_lt (isElement_ext hx (hm.afEl y t h1)), b, fun hin => ?_⟩
      rcases hstack y hin with ⟨h5, h6⟩ | ⟨_, h6⟩
      · rw [h6]; exact c h5
      · exact absurd a (Nat.not_lt.mpr (hfresh y h6))
    · exact ⟨isElement_lt h3, (hm.af y0 t h2).2.1, fun _ => h4⟩
  · intro y t hy
    rcases hlist y t hy with h1 | ⟨_, _, h3, _⟩
    · exact isElement_ext hx (hm.afEl y t h1)
    · exact h3
  · intro y hy; rw [f.headElem] at hy; exact isElement_ext hx (hm.head y hy)
  · exact hm.ctx_ext hx f.contextElem
  · intro y t hy
    rcases hlist y t hy with h1 | ⟨_, ⟨y0, h2⟩, _, h4⟩
    · rw [nameOf_ext hx (hm.afEl y t h1)]; exact hm.afwf y t h1
    · exact ⟨(hm.afwf y0 t h2).1, h4⟩
  · intro h hh
    rcases hstack h hh with ⟨h1, h2⟩ | ⟨h1, _⟩
    · rw [h2, ipOfDom_ext hx (hm.elems h h1)]; exact hm.ip h h1
    · intro hn; exact absurd h1 hn
  · intro h hh
    rcases hstack h hh with ⟨h1, _⟩ | ⟨h1, _⟩
    · exact Or.inl h1
    · exact Or.inr h1
  · intro y t hy
    rcases hlist y t hy with h1 | ⟨_, h2, _, h4⟩
    · exact Or.inl h1
    · exact Or.inr ⟨h2, h4⟩

/-- **glue**: a stretch that changed the stack, the list and the DOM only, whose DOM calls are the
edits `L` and whose new stack entries are HTML elements -/
theorem tr_of_phase1 {s s' : State} {calls : List Call} (hm : MInv s) (he : Ext2 s calls s')
    (hS : SameButStackList s s') (hm' : MInv s')
    (hnew : ∀ h ∈ s'.openElems, h ∈ s.openElems ∨ (nameOf s'.dom h).ns = nsHtml)
    (ids : List Id) (hfi : FreshIds s ids) (L : List (Edit Id Tag)) (hL : ∀ tc, TcOk s'.dom tc → edits calls = L.map (editCall tc)) :
    Tr s s' calls (fun x x' => x' = x.step ids.length L [] ∧ (∃ rest, x.supply = ids ++ rest) ∧
      absF s' x' = { absF s x with p := absP s' x' }) := by
  refine (Tr.of_edits hm' (cfgOf_sbsl hm hS he.ext) he ids L [] hfi hL ?_ (by simp)).conseq ?_
  · intro x hx h hh hn
    rcases hnew h hh with h1 | h1
    · rw [nameOf_ext he.ext (hm.elems h h1)] at hn
      rw [List.append_nil, hx.annot h h1 hn, ipOfDom_ext he.ext (hm.elems h h1)]
    · rw [hn] at h1
      exact absurd h1 (by decide)
  · rintro x x' _ _ ⟨hx', hr⟩
    subst hx'
    exact ⟨rfl, hr, absF_sbsl_step x hm hS he.ext _ _⟩

/-! ### 2. reconstruct the active formatting elements -/

/-- on the empty stack `current_node` panics -/
theorem pc_currentNode_nil {s : State} (he : s.openElems = []) (Q : Id → State → List Call → Prop) :
    PC currentNode s Q := by
  unfold currentNode
  refine pc_getS_bind ?_
  simp only [he, List.getLast?_nil]
  exact pc_panicAt

/-- on the empty stack `insert_element` panics (`current_node`) -/
theorem pc_insertElement_empty {s : State} (he : s.openElems = []) (pushIt : Bool) (ns name : Str) (attrs : List Attr)
    (hadDup : Bool) (Q : Id → State → List Call → Prop) : PC (insertElement pushIt ns name attrs hadDup) s Q := by
  unfold insertElement
  refine pc_bind ?_
  unfold appropriatePlaceForInsertion
  refine pc_bind ?_
  exact pc_currentNode_nil he _

theorem tokOk_absState (s : State) (sup : List Id) (log : List (Edit Id Tag)) :
    TokOk (fun t => ∃ y0, FormatEntry.element y0 t ∈ s.activeFormatting) (absState s sup log) :=
  fun n _ h => ⟨n, mem_absList.mp h⟩

/-- the specification's reconstruct does nothing when the last entry is a marker or open, or the list is empty -/
theorem spec_reconstruct_noop {σ : SState}
    (h : ∀ last, σ.p.list.getLast? = some last → Spec.TreeAlgo2.markerOrOpen σ.p.stack last = true) :
    Spec.TreeModes.reconstruct σ = .ok σ := by
  unfold Spec.TreeModes.reconstruct Spec.TreeAlgo2.reconstructActiveFormattingElements
  cases hl : σ.p.list.getLast? with
  | none => rfl
  | some last => simp only [h last hl, if_true]; rfl

/-- `reconstructActiveFormattingElements` (Actions.lean) ↔ `Spec.TreeModes.reconstruct` (TreeModes1) -/
theorem pc_reconstruct {s : State} (hm : MInv s) :
    PC reconstructActiveFormattingElements s (fun _ s' calls => SameButStackList s s' ∧ (AFWf s → AFWf s') ∧
      Tr s s' calls (fun x x' => Spec.TreeModes.reconstruct (absF s x) = .ok (absF s' x'))) := by
  by_cases hne : s.openElems = []
  · -- the empty stack: nothing to do, or `current_node` panics
    have hquiet : ∀ (s1 : State) (c1 : List Call), Ext2 s c1 s1 → SameTB s s1 → edits c1 = [] →
        (∀ last, s.activeFormatting.getLast? = some last → last = .marker) →
        SameButStackList s s1 ∧ (AFWf s → AFWf s1) ∧
          Tr s s1 c1 (fun x x' => Spec.TreeModes.reconstruct (absF s x) = .ok (absF s1 x')) := by
      intro s1 c1 he1 hs1 hc1 hl
      refine ⟨sbsl_of_sameTB hs1, fun h => h.of_sub hm he1.ext (fun y t hy => by rw [hs1.activeFormatting] at hy; exact hy), ?_⟩
      refine (Tr.of_same hm hs1 he1 (by rw [← edits2_edits, hc1]; rfl)).conseq ?_
      rintro x x' hx _ ⟨hxx, e⟩
      subst x'
      rw [← e]
      apply spec_reconstruct_noop
      intro last hlast
      simp only [absF, absP, absListE, List.getLast?_map] at hlast
      cases hg : s.activeFormatting.getLast? with
      | none => rw [hg] at hlast; cases hlast
      | some l0 =>
        rw [hg] at hlast
        simp only [Option.map_some, Option.some.injEq] at hlast
        rw [hl l0 hg] at hlast
        subst hlast; rfl
    unfold reconstructActiveFormattingElements
    refine pc_getS_bind ?_
    dsimp only
    cases hlast : s.activeFormatting.getLast? with
    | none =>
      simp only []
      exact pc_pure (hquiet s [] (Ext2.refl s) (SameTB.refl s) rfl (fun l h => by rw [hlast] at h; cases h))
    | some last =>
      simp only []
      refine pc_query_bind (PC.of_tot (tot_isMarkerOrOpen s last)) ?_
      intro s1 c1 he1 hs1 hc1
      cases last with
      | marker =>
        have : Spec.TreeAlgo2.markerOrOpen (absStack s.dom s.openElems) (absEntry FormatEntry.marker) = true := rfl
        simp only [this, if_true]
        refine pc_pure ?_
        rw [List.append_nil]
        exact hquiet s1 c1 he1 hs1 hc1 (fun l h => by rw [hlast] at h; cases h; rfl)
      | element y t0 =>
        have : Spec.TreeAlgo2.markerOrOpen (absStack s.dom s.openElems) (absEntry (FormatEntry.element y t0)) = false := by
          rw [hne]; rfl
        simp only [this, Bool.false_eq_true, if_false]
        refine pc_bind ?_
        refine pc_conseq (PC.of_tot (tot_reconstructRewind s.dom s.openElems s.activeFormatting (s.activeFormatting.length - 1) s1
          (by omega) hs1.openElems hs1.activeFormatting)) ?_
        rintro start s2 c2 he2 ⟨_, hs2, _⟩
        have hlen : s.activeFormatting.length + 1 = s.activeFormatting.length.succ := rfl
        rw [hlen, reconstructCreate_succ]
        refine pc_getS_bind ?_
        have hopen2 : s2.openElems = [] := by rw [hs2.openElems, hs1.openElems]; exact hne
        have key : ∀ (tag : Tag) (s3 : State), s3.openElems = [] →
            PC (rcAfterTag s.activeFormatting.length start tag) s3
              (fun b s4 c4 => (fun _ s' calls => SameButStackList s s' ∧ (AFWf s → AFWf s') ∧
                Tr s s' calls (fun x x' => Spec.TreeModes.reconstruct (absF s x) = .ok (absF s' x')))
                  b s4 (c1 ++ (c2 ++ ([] ++ c4)))) := by
          intro tag s3 h3
          unfold rcAfterTag
          refine pc_bind ?_
          exact pc_insertElement_empty h3 _ _ _ _ _ _
        dsimp only
        cases hget : s2.activeFormatting[start]? with
        | none => exact pc_bind pc_panicAt
        | some e =>
          cases e with
          | marker => exact pc_bind pc_panicAt
          | element y' t' =>
            dsimp only
            exact pc_bind (pc_pure (key t' s2 hopen2))
  · refine pc_conseq (PC.of_tot (tot_reconstruct s hm.elems (hm.headOk hne))) ?_
    rintro _ s' calls he ⟨ids, L, hL, hspec, hS, hok', _, hfresh⟩
    have hsp0 := hspec [] []
    rw [List.append_nil, List.nil_append] at hsp0
    obtain ⟨hD, hH⟩ := reconstruct_delta tagCtx _ _ _ (tokOk_absState s ids []) hsp0
    obtain ⟨hm', hnew, htok⟩ := minv_of_delta hm he hS hok' ids L hfresh (hL _ (TcOk.self _)) hD hH
    refine ⟨hS, fun hw => hw.of_new hm he.ext htok, ?_⟩
    refine (tr_of_phase1 hm he hS hm' hnew ids (FreshIds.of_size hfresh) L hL).conseq ?_
    rintro x x' hx _ ⟨hx', ⟨rest, hsup⟩, hF⟩
    subst hx'
    unfold Spec.TreeModes.reconstruct
    rw [absF_p, absP_eq s x hx.live, reconstructActiveFormattingElements_mapP etokOf ctxMap_etok, hsup, hspec rest x.logT]
    simp only [Option.map_some, Spec.TreeModes.req]
    rw [absP_step s' hx.live hsup L [], hF]
    rfl

/-! #### reconstruct is idempotent, and stays a no-op along a run of inserted characters -/

/-- after the create loop the last entry of the list is open -/
theorem reconstructCreate_last {N T : Type} [DecidableEq N] (cx : Ctx T) : ∀ (n i : Nat) (st st' : PState N T),
    i + (n + 1) = st.list.length → Spec.TreeAlgo2.reconstructCreate cx (n + 1) i st = some st' →
    ∃ last, st'.list.getLast? = some last ∧ Spec.TreeAlgo2.markerOrOpen st'.stack last = true := by
  intro n
  induction n with
  | zero =>
    intro i st st' hlen h
    unfold Spec.TreeAlgo2.reconstructCreate at h
    cases hi : st.list[i]? with
    | none => rw [hi] at h; cases h
    | some e =>
      cases e with
      | marker => rw [hi] at h; cases h
      | element x tok =>
        rw [hi] at h
        simp only [Spec.TreeAlgo2.insertHtmlElement] at h
        cases hins : Spec.TreeAlgo2.insertForeignElement cx st tok Spec.TreeAlgo.nsHtml false with
        | none => rw [hins] at h; cases h
        | some r =>
          obtain ⟨st1, el⟩ := r
          rw [hins] at h
          obtain ⟨m, L, _, _, hstack, hlist, _⟩ := insertForeignElement_some hins
          have hl1 : st1.list.length = st.list.length := by rw [hlist]
          have hnot : ¬ (i + 1 < (st1.list.set i (Entry.element el.id tok)).length) := by
            rw [List.length_set, hl1]; omega
          simp only [Option.bind_some, hnot, if_false, Spec.TreeAlgo2.reconstructCreate, Option.some.injEq] at h
          subst h
          refine ⟨.element el.id tok, ?_, ?_⟩
          · simp only []
            rw [List.getLast?_eq_getElem?, List.length_set, hl1]
            have : st.list.length - 1 = i := by omega
            rw [this, List.getElem?_set_self (by rw [hl1]; omega)]
          · simp only [Spec.TreeAlgo2.markerOrOpen, hstack, List.any_append, List.any_cons, beq_self_eq_true, List.any_nil,
              Bool.or_false, Bool.or_true]
  | succ n ih =>
    intro i st st' hlen h
    unfold Spec.TreeAlgo2.reconstructCreate at h
    cases hi : st.list[i]? with
    | none => rw [hi] at h; cases h
    | some e =>
      cases e with
      | marker => rw [hi] at h; cases h
      | element x tok =>
        rw [hi] at h
        simp only [Spec.TreeAlgo2.insertHtmlElement] at h
        cases hins : Spec.TreeAlgo2.insertForeignElement cx st tok Spec.TreeAlgo.nsHtml false with
        | none => rw [hins] at h; cases h
        | some r =>
          obtain ⟨st1, el⟩ := r
          rw [hins] at h
          obtain ⟨m, L, _, _, hstack, hlist, _⟩ := insertForeignElement_some hins
          have hl1 : st1.list.length = st.list.length := by rw [hlist]
          have hlt : i + 1 < (st1.list.set i (Entry.element el.id tok)).length := by
            rw [List.length_set, hl1]; omega
          simp only [Option.bind_some, hlt, if_true] at h
          exact ih (i + 1) _ st' (by simp only [List.length_set, hl1]; omega) h

/-- after "reconstruct the active formatting elements" the list is empty or its last entry is a marker or open -/
theorem reconstruct_last {N T : Type} [DecidableEq N] (cx : Ctx T) (st st' : PState N T)
    (h : Spec.TreeAlgo2.reconstructActiveFormattingElements cx st = some st') :
    ∀ last, st'.list.getLast? = some last → Spec.TreeAlgo2.markerOrOpen st'.stack last = true := by
  unfold Spec.TreeAlgo2.reconstructActiveFormattingElements at h
  cases hl : st.list.getLast? with
  | none =>
    rw [hl] at h; simp only [Option.some.injEq] at h; subst h
    intro last hlast; rw [hl] at hlast; cases hlast
  | some l0 =>
    rw [hl] at h
    simp only [] at h
    by_cases hmo : Spec.TreeAlgo2.markerOrOpen st.stack l0 = true
    · simp only [hmo, if_true, Option.some.injEq] at h
      subst h
      intro last hlast; rw [hl] at hlast; cases hlast; exact hmo
    · simp only [hmo] at h
      have hlen : 0 < st.list.length := by
        cases hst : st.list with
        | nil => rw [hst] at hl; cases hl
        | cons a r => simp
      have hle := (rewind_spec st.stack st.list (st.list.length - 1)).1
      generalize Spec.TreeAlgo2.reconstructRewind st.stack st.list (st.list.length - 1) = start at h hle
      obtain ⟨n, hn⟩ : ∃ n, st.list.length - start = n + 1 := ⟨st.list.length - start - 1, by omega⟩
      rw [hn] at h
      obtain ⟨last, h1, h2⟩ := reconstructCreate_last cx n start st st' (by omega) h
      intro l1 hl1
      rw [h1] at hl1; cases hl1; exact h2

/-- nothing to reconstruct -/
def ReconDone (σ : SState) : Prop :=
  ∀ last, σ.p.list.getLast? = some last → Spec.TreeAlgo2.markerOrOpen σ.p.stack last = true

theorem reconstruct_of_reconDone {σ : SState} (h : ReconDone σ) : Spec.TreeModes.reconstruct σ = .ok σ :=
  spec_reconstruct_noop h

theorem reconDone_of_reconstruct {σ σ' : SState} (h : Spec.TreeModes.reconstruct σ = .ok σ') : ReconDone σ' := by
  unfold Spec.TreeModes.reconstruct at h
  cases hr : Spec.TreeAlgo2.reconstructActiveFormattingElements Spec.TreeModes.cx σ.p with
  | none => rw [hr] at h; cases h
  | some p =>
    rw [hr] at h
    have : σ' = { σ with p := p } := by cases h; rfl
    subst this
    exact reconstruct_last _ _ _ hr

/-- **idempotence**: after "reconstruct the active formatting elements" another run changes nothing -/
theorem reconstruct_idem {σ σ' : SState} (h : Spec.TreeModes.reconstruct σ = .ok σ') :
    Spec.TreeModes.reconstruct σ' = .ok σ' := reconstruct_of_reconDone (reconDone_of_reconstruct h)

/-- "insert a character" leaves the stack and the list alone -/
theorem insertChar_stack_list {σ σ' : SState} {c : Char} (h : Spec.TreeModes.insertChar σ c = .ok σ') :
    σ'.p.stack = σ.p.stack ∧ σ'.p.list = σ.p.list := by
  unfold Spec.TreeModes.insertChar Spec.TreeAlgo2.insertCharacters at h
  cases hp : Spec.TreeAlgo2.appropriatePlace σ.p.stack σ.p.fosterParenting none with
  | none => rw [hp] at h; cases h
  | some loc =>
    rw [hp] at h
    have : σ' = { σ with p := { σ.p with log := σ.p.log ++ [.insertText loc [c]] } } := by cases h; rfl
    subst this; exact ⟨rfl, rfl⟩

theorem insertChars_stack_list {σ σ' : SState} {cs : Str} (h : Spec.TreeModes.insertChars σ cs = .ok σ') :
    σ'.p.stack = σ.p.stack ∧ σ'.p.list = σ.p.list := by
  unfold Spec.TreeModes.insertChars at h
  cases cs with
  | nil => cases h; exact ⟨rfl, rfl⟩
  | cons c r =>
    simp only [Spec.TreeAlgo2.insertCharacters] at h
    cases hp : Spec.TreeAlgo2.appropriatePlace σ.p.stack σ.p.fosterParenting none with
    | none => rw [hp] at h; cases h
    | some loc =>
      rw [hp] at h
      have : σ' = { σ with p := { σ.p with log := σ.p.log ++ [.insertText loc (c :: r)] } } := by cases h; rfl
      subst this; exact ⟨rfl, rfl⟩

/-- along a run of inserted characters "reconstruct" stays a no-op -/
theorem reconDone_insertChar {σ σ' : SState} {c : Char} (hd : ReconDone σ) (h : Spec.TreeModes.insertChar σ c = .ok σ') :
    ReconDone σ' := by
  obtain ⟨h1, h2⟩ := insertChar_stack_list h
  intro last hl; rw [h1]; rw [h2] at hl; exact hd last hl

theorem reconDone_insertChars {σ σ' : SState} {cs : Str} (hd : ReconDone σ) (h : Spec.TreeModes.insertChars σ cs = .ok σ') :
    ReconDone σ' := by
  obtain ⟨h1, h2⟩ := insertChars_stack_list h
  intro last hl; rw [h1]; rw [h2] at hl; exact hd last hl

/-- `reconstruct` then `insertChar` (the character clause of "in body"), run after a character that was
handled the same way, reconstructs nothing -/
theorem reconstruct_after_insertChar {σ σ1 σ2 : SState} {c : Char} (h1 : Spec.TreeModes.reconstruct σ = .ok σ1)
    (h2 : Spec.TreeModes.insertChar σ1 c = .ok σ2) : Spec.TreeModes.reconstruct σ2 = .ok σ2 :=
  reconstruct_of_reconDone (reconDone_insertChar (reconDone_of_reconstruct h1) h2)

/-! ### 3. create a formatting element: insert an HTML element, push onto the list (Noah's Ark) -/

open H5V.Spec.TreeAlgo (afterLastMarker removeEarliestAfterMarker noahPush)
open H5V.Lemmas.HtmlTBSpec (toAdj Plain)

section NoahMap
variable {E E' : Type}

theorem any_isNone_map (f : E → E') (l : List (Option E)) :
    (l.map (Option.map f)).any Option.isNone = l.any Option.isNone := by
  induction l with
  | nil => rfl
  | cons a r ih => cases a <;> simp [ih]

theorem afterLastMarker_map (f : E → E') (l : List (Option E)) :
    afterLastMarker (l.map (Option.map f)) = (afterLastMarker l).map f := by
  induction l with
  | nil => rfl
  | cons a r ih =>
    cases a with
    | none => simpa [afterLastMarker] using ih
    | some a =>
      simp only [List.map_cons, Option.map_some, afterLastMarker, any_isNone_map, ih]
      split <;> rfl

theorem mem_afterLastMarker {a : E} : ∀ {l : List (Option E)}, a ∈ afterLastMarker l → some a ∈ l := by
  intro l
  induction l with
  | nil => intro h; cases h
  | cons b r ih =>
    intro h
    cases b with
    | none => exact List.mem_cons_of_mem _ (ih h)
    | some b =>
      simp only [afterLastMarker] at h
      split at h
      · exact List.mem_cons_of_mem _ (ih h)
      · rcases List.mem_cons.mp h with h | h
        · subst h; exact List.mem_cons_self ..
        · exact List.mem_cons_of_mem _ (ih h)

theorem removeEarliest_map (f : E → E') (p : E → Bool) (p' : E' → Bool) :
    ∀ (l : List (Option E)), (∀ a, some a ∈ l → p' (f a) = p a) →
    removeEarliestAfterMarker p' (l.map (Option.map f)) = (removeEarliestAfterMarker p l).map (Option.map f) := by
  intro l
  induction l with
  | nil => intro _; rfl
  | cons a r ih =>
    intro h
    have ih' := ih (fun b hb => h b (List.mem_cons_of_mem _ hb))
    cases a with
    | none => simp only [List.map_cons, Option.map_none, removeEarliestAfterMarker, ih']
    | some a =>
      simp only [List.map_cons, Option.map_some, removeEarliestAfterMarker, any_isNone_map, ih',
        h a (List.mem_cons_self ..)]
      split
      · rfl
      · split <;> rfl

theorem mem_removeEarliest {p : E → Bool} {x : Option E} : ∀ {l : List (Option E)},
    x ∈ removeEarliestAfterMarker p l → x ∈ l := by
  intro l
  induction l with
  | nil => intro h; exact h
  | cons a r ih =>
    intro h
    cases a with
    | none =>
      simp only [removeEarliestAfterMarker] at h
      rcases List.mem_cons.mp h with h | h
      · subst h; exact List.mem_cons_self ..
      · exact List.mem_cons_of_mem _ (ih h)
    | some a =>
      simp only [removeEarliestAfterMarker] at h
      split at h
      · rcases List.mem_cons.mp h with h | h
        · subst h; exact List.mem_cons_self ..
        · exact List.mem_cons_of_mem _ (ih h)
      · split at h
        · exact List.mem_cons_of_mem _ h
        · rcases List.mem_cons.mp h with h | h
          · subst h; exact List.mem_cons_self ..
          · exact List.mem_cons_of_mem _ (ih h)

theorem noahPush_map (f : E → E') (same : E → E → Bool) (same' : E' → E' → Bool) (l : List (Option E)) (e : E)
    (h : ∀ a, some a ∈ l → same' (f e) (f a) = same e a) :
    noahPush same' (l.map (Option.map f)) (f e) = (noahPush same l e).map (Option.map f) := by
  unfold noahPush
  have hlen : ((afterLastMarker (l.map (Option.map f))).filter (same' (f e))).length
      = ((afterLastMarker l).filter (same e)).length := by
    rw [afterLastMarker_map, List.filter_map, List.length_map]
    congr 1
    apply List.filter_congr
    intro a ha
    exact h a (mem_afterLastMarker ha)
  simp only [hlen]
  split
  · rw [removeEarliest_map f (same e) (same' (f e)) l h]; simp
  · simp

/-- the list before the new entry is a part of the old list -/
theorem noahPush_init (same : E → E → Bool) (l : List (Option E)) (e : E) :
    ∃ l', noahPush same l e = l' ++ [some e] ∧ ∀ x ∈ l', x ∈ l := by
  unfold noahPush
  split
  · exact ⟨_, rfl, fun x hx => mem_removeEarliest hx⟩
  · exact ⟨_, rfl, fun x hx => hx⟩
end NoahMap

theorem isPerm_map_toAdj (l l' : List Attr) : (l.map toAdj).isPerm (l'.map toAdj) = l.isPerm l' := by
  have key : (l.map toAdj).Perm (l'.map toAdj) ↔ l.Perm l' := by
    constructor
    · intro h
      have := h.map attrOfAdj
      simp only [List.map_map] at this
      have e : ∀ l : List Attr, l.map (attrOfAdj ∘ toAdj) = l := by
        intro l
        rw [List.map_congr_left (g := id)]
        · simp
        · intro a _; exact attrOfAdj_toAdj a
      rwa [e, e] at this
    · exact List.Perm.map _
  cases h1 : l.isPerm l' with
  | true => rw [List.isPerm_iff] at h1 ⊢; exact key.mpr h1
  | false =>
    cases h2 : (l.map toAdj).isPerm (l'.map toAdj) with
    | false => rfl
    | true => rw [List.isPerm_iff] at h2; rw [List.isPerm_iff.mpr (key.mp h2)] at h1; cases h1

theorem etok_specTag {t : Tag} (hp : PlainTag t) : (specTag t).etok = etokOf t := by
  simp only [Spec.TreeModes.Tag.etok, specTag, etokOf, List.map_map]
  congr 1
  apply List.map_congr_left
  intro a ha
  have := hp a ha
  unfold Plain at this
  simp only [Function.comp, toAdj]
  rw [this]
  rfl

theorem insertForeignElement_setList {N T : Type} (cx : Ctx T) (st : PState N T) (l : List (Entry N T)) (tok : T)
    (ns : Spec.TreeAlgo.Str) (only : Bool) :
    Spec.TreeAlgo2.insertForeignElement cx { st with list := l } tok ns only
      = (Spec.TreeAlgo2.insertForeignElement cx st tok ns only).map (fun r => ({ r.1 with list := l }, r.2)) := by
  unfold Spec.TreeAlgo2.insertForeignElement
  simp only []
  cases Spec.TreeAlgo2.appropriatePlace st.stack st.fosterParenting none with
  | none => rfl
  | some loc =>
    simp only [Option.bind_some, PState.newNode]
    cases st.supply with
    | nil => rfl
    | cons n rest => rfl

theorem entryToOpt_entryE (e : FormatEntry) :
    Spec.TreeModes.entryToOpt (entryE e) = (entryOpt e).map (fun p => (p.1, etokOf p.2)) := by cases e <;> rfl

theorem optToEntry_entryOpt (e : FormatEntry) :
    Spec.TreeModes.optToEntry ((entryOpt e).map (fun p => (p.1, etokOf p.2))) = entryE e := by cases e <;> rfl

theorem entryOpt_inj {a b : FormatEntry} (h : entryOpt a = entryOpt b) : a = b := by
  cases a <;> cases b <;> simp [entryOpt] at h ⊢
  exact h

/-- the model's comparison of a new start tag with a listed start tag is the specification's -/
theorem sameFormatting_etok {tag t : Tag} (hk : tag.kind = .startTag) (ht : t.kind = .startTag) (a b : Id) :
    Spec.TreeModes.sameFormatting (a, etokOf tag) (b, etokOf t) = sameEntry (a, tag) (b, t) := by
  simp only [Spec.TreeModes.sameFormatting, sameEntry, Tag.equivModuloAttrOrder, etokOf, isPerm_map_toAdj, hk, ht]
  simp

/-- the Noah's Ark push on the abstract list -/
theorem noah_absListE {s : State} (hw : AFWf s) {tag : Tag} (hk : tag.kind = .startTag) {af1 : List FormatEntry} {elem : Id}
    (hnoah : (af1 ++ [FormatEntry.element elem tag]).map entryOpt
      = noahPush sameEntry (s.activeFormatting.map entryOpt) (elem, tag)) :
    (noahPush Spec.TreeModes.sameFormatting ((absListE s.activeFormatting).map Spec.TreeModes.entryToOpt) (elem, etokOf tag)).map
        Spec.TreeModes.optToEntry = absListE (af1 ++ [FormatEntry.element elem tag]) := by
  have e1 : (absListE s.activeFormatting).map Spec.TreeModes.entryToOpt
      = (s.activeFormatting.map entryOpt).map (Option.map (fun p => (p.1, etokOf p.2))) := by
    simp only [absListE, List.map_map]
    apply List.map_congr_left
    intro e _
    exact entryToOpt_entryE e
  rw [e1]
  have := noahPush_map (fun p : Id × Tag => (p.1, etokOf p.2)) sameEntry Spec.TreeModes.sameFormatting
    (s.activeFormatting.map entryOpt) (elem, tag) ?_
  · rw [this, ← hnoah]
    simp only [absListE, List.map_map]
    apply List.map_congr_left
    intro e _
    exact optToEntry_entryOpt e
  · rintro ⟨b, t⟩ hb
    obtain ⟨e, he, hee⟩ := List.mem_map.mp hb
    cases e with
    | marker => cases hee
    | element b' t' =>
      simp only [entryOpt, Option.some.injEq, Prod.mk.injEq] at hee
      obtain ⟨rfl, rfl⟩ := hee
      exact sameFormatting_etok hk (hw _ _ he).1 elem _

/-- formatting tag names are not in the special category -/
theorem notSpecial_of_fmt {n : Str} (h : isOneOf n TBSafe.fmtNames = true) :
    Spec.TreeAlgo.inTable Spec.TreeTables.special ⟨Spec.TreeAlgo.nsHtml, n⟩ = false := by
  unfold TBSafe.fmtNames isOneOf at h
  simp only [List.any_cons, List.any_nil, Bool.or_false, Bool.or_eq_true, beq_iff_eq] at h
  rcases h with h | h | h | h | h | h | h | h | h | h | h | h | h | h <;> rw [← h] <;> decide +kernel

/-- `createFormattingElementFor tag` (Actions.lean) ↔ `insertHtml` followed by `pushFormatting` (TreeModes1).
Needs: the token is a start tag with plain attributes whose name is not special; the listed tokens are
start tags (`AFWf`, preserved). -/
theorem pc_createFormattingElementFor {s : State} (hm : MInv s) (tag : Tag) (hk : tag.kind = .startTag)
    (hp : PlainTag tag)
    (hns : Spec.TreeAlgo.inTable Spec.TreeTables.special ⟨Spec.TreeAlgo.nsHtml, tag.name⟩ = false) :
    PC (createFormattingElementFor tag) s (fun elem s' calls =>
      (∃ af1, s' = { s with openElems := s.openElems ++ [elem], activeFormatting := af1 ++ [.element elem tag],
                            dom := s'.dom, traceRev := s'.traceRev }) ∧
      AFWf s' ∧
      Tr s s' calls (fun x x' => ∃ σ1 e, Spec.TreeModes.insertHtml (absF s x) (specTag tag) = .ok (σ1, e) ∧ e.id = elem ∧
        Spec.TreeModes.pushFormatting σ1 e (specTag tag) = absF s' x')) := by
  have hw : AFWf s := hm.toAFWf
  by_cases hne : s.openElems = []
  · -- the empty stack: `insert_element` panics
    have htail : ∀ s1 : State, s1.openElems = [] → ∀ Q, PC (cfTail tag) s1 Q := by
      intro s1 h1 Q
      unfold cfTail
      exact pc_bind (pc_insertElement_empty h1 _ _ _ _ _ _)
    rw [createFormattingElementFor_eq]
    refine pc_getS_bind ?_
    dsimp only
    by_cases h3 : ((afEndToMarker s.activeFormatting).filter (fun (x : Nat × Id × Tag) => tag.equivModuloAttrOrder x.2.2)).length ≥ 3
    · simp only [h3, if_true]
      obtain ⟨i, h, t, hl, hi, _, _⟩ := noah_list_ge s.activeFormatting tag 0 h3
      rw [hl]
      dsimp only
      refine pc_bind (pc_conseq (PC.of_tot (tot_afRemove' s i "mod.rs:1530" hi)) ?_)
      rintro _ s1 c1 _ ⟨hs1, _⟩
      exact htail s1 (by rw [hs1]; exact hne) _
    · simp only [h3, if_false]
      exact htail s hne _
  · refine pc_conseq (PC.of_tot (tot_createFormattingElementFor s tag hm.elems (hm.headOk hne))) ?_
    rintro elem s' calls he ⟨af1, L, hs', hnoah, hfresh, hel, hnm, hL, hspec⟩
    have hx := he.ext
    have hS : SameButStackList s s' := by unfold SameButStackList; rw [hs']
    have hopen : s'.openElems = s.openElems ++ [elem] := by rw [hs']
    have haf : s'.activeFormatting = af1 ++ [.element elem tag] := by rw [hs']
    -- the list before the new entry is a part of the old list
    have haf1 : ∀ e ∈ af1, e ∈ s.activeFormatting := by
      obtain ⟨l', hl', hsub⟩ := noahPush_init sameEntry (s.activeFormatting.map entryOpt) (elem, tag)
      rw [hl', List.map_append] at hnoah
      have h1 : af1.map entryOpt = l' := (List.append_inj' hnoah rfl).1
      intro e hee
      have : entryOpt e ∈ l' := by rw [← h1]; exact List.mem_map_of_mem hee
      obtain ⟨e', he', hee'⟩ := List.mem_map.mp (hsub _ this)
      rw [← entryOpt_inj hee']; exact he'
    have holdnew : ∀ y t, FormatEntry.element y t ∈ s'.activeFormatting →
        FormatEntry.element y t ∈ s.activeFormatting ∨ (y = elem ∧ t = tag) := by
      intro y t hy
      rw [haf] at hy
      rcases List.mem_append.mp hy with h | h
      · exact Or.inl (haf1 _ h)
      · simp only [List.mem_singleton, FormatEntry.element.injEq] at h; exact Or.inr h
    have hw' : AFWf s' := by
      intro y t hy
      rcases holdnew y t hy with h | ⟨rfl, rfl⟩
      · exact ⟨(hw y t h).1, by rw [nameOf_ext hx (hm.afEl y t h)]; exact (hw y t h).2⟩
      · exact ⟨hk, hnm⟩
    have hm' : MInv s' := by
      refine ⟨?_, ?_, ?_, ?_, ?_, ?_, hw', ?_, by rw [(sbsl_fields hS).templateModes]; exact hm.tmodes,
        hm.form_ext hx (sbsl_fields hS).formElem, by rw [(sbsl_fields hS).pendingTableText]; exact hm.pend⟩
      · rw [hopen]; intro y hy
        rcases List.mem_append.mp hy with h | h
        · exact isElement_ext hx (hm.elems y h)
        · simp only [List.mem_singleton] at h; subst h; exact hel
      · intro h0 hh
        rw [hopen] at hh
        cases hso : s.openElems with
        | nil => exact absurd hso hne
        | cons a r =>
          rw [hso] at hh
          simp only [List.cons_append, List.head?_cons, Option.some.injEq] at hh
          subst hh
          rw [nameOf_ext hx (hm.elems a (by rw [hso]; exact List.mem_cons_self ..))]
          exact hm.root a (by rw [hso]; rfl)
      · intro y t hy
        rcases holdnew y t hy with h | ⟨rfl, rfl⟩
        · obtain ⟨a, b, c⟩ := hm.af y t h
          refine ⟨isElement_lt (isElement_ext hx (hm.afEl y t h)), b, fun hin => ?_⟩
          rw [hopen] at hin
          rcases List.mem_append.mp hin with h1 | h1
          · rw [nameOf_ext hx (hm.elems y h1)]; exact c h1
          · simp only [List.mem_singleton] at h1; subst h1
            exact absurd a (Nat.not_lt.mpr hfresh)
        · exact ⟨isElement_lt hel, hns, fun _ => hnm⟩
      · intro y t hy
        rcases holdnew y t hy with h | ⟨rfl, rfl⟩
        · exact isElement_ext hx (hm.afEl y t h)
        · exact hel
      · intro y hy; rw [(sbsl_fields hS).headElem] at hy; exact isElement_ext hx (hm.head y hy)
      · exact hm.ctx_ext hx (sbsl_fields hS).contextElem
      · rw [hopen]; intro y hy
        rcases List.mem_append.mp hy with h | h
        · rw [nameOf_ext hx (hm.elems y h), ipOfDom_ext hx (hm.elems y h)]; exact hm.ip y h
        · simp only [List.mem_singleton] at h; subst h
          intro hn; rw [hnm] at hn; exact absurd rfl hn
    have hnew : ∀ h ∈ s'.openElems, h ∈ s.openElems ∨ (nameOf s'.dom h).ns = nsHtml := by
      intro h hh
      rw [hopen] at hh
      rcases List.mem_append.mp hh with h1 | h1
      · exact Or.inl h1
      · simp only [List.mem_singleton] at h1; subst h1; rw [hnm]; exact Or.inr rfl
    refine ⟨⟨af1, hs'⟩, hw', (tr_of_phase1 hm he hS hm' hnew [elem]
      (FreshIds.of_size (by intro n hn; simp only [List.mem_singleton] at hn; subst hn; exact hfresh)) L
      (fun tc htc => hL tc (tcOk_of_ext htc hx))).conseq ?_⟩
    rintro x x' hx0 _ ⟨hx', ⟨rest, hsup⟩, hF⟩
    subst hx'
    -- "insert an HTML element" on the state with the old list
    have hins : Spec.TreeAlgo2.insertHtmlElement tagCtx (absState s (elem :: rest) x.logT) tag
        = some ({ absState s rest (x.logT ++ L) with
                    stack := absStack s.dom s.openElems ++ [⟨elem, ⟨nsHtml, tag.name⟩⟩] }, ⟨elem, ⟨nsHtml, tag.name⟩⟩) := by
      have h1 := hspec rest x.logT
      have h2 := insertForeignElement_setList tagCtx (absState { s with activeFormatting := af1 } (elem :: rest) x.logT)
        (absList s.activeFormatting) tag Spec.TreeAlgo.nsHtml false
      unfold Spec.TreeAlgo2.insertHtmlElement at h1 ⊢
      rw [h1] at h2
      exact h2
    refine ⟨{ absF s x with p := mapP etokOf { absState s rest (x.logT ++ L) with
        stack := absStack s.dom s.openElems ++ [⟨elem, ⟨nsHtml, tag.name⟩⟩] } }, ⟨elem, ⟨nsHtml, tag.name⟩⟩, ?_, rfl, ?_⟩
    · unfold Spec.TreeModes.insertHtml
      rw [etok_specTag hp, absF_p, absP_eq s x hx0.live, insertHtmlElement_mapP etokOf ctxMap_etok, hsup,
        List.singleton_append, hins]
      rfl
    · rw [hF, ← absP_step s' hx0.live hsup L []]
      have hstack : absStack s'.dom s'.openElems = absStack s.dom s.openElems ++ [⟨elem, ⟨nsHtml, tag.name⟩⟩] := by
        rw [hopen]
        simp only [absStack, List.map_append, List.map_cons, List.map_nil]
        congr 1
        · exact absStack_ext hm.elems hx
        · simp only [elemOf, hnm]; rfl
      have hlist := noah_absListE hw hk hnoah
      have f := sbsl_fields hS
      simp only [Spec.TreeModes.pushFormatting, Spec.TreeModes.State.setList, etok_specTag hp, mapP, absState, hstack, haf,
        f.fosterParenting, f.formElem]
      rw [← absListE_mapTok, ← absListE_mapTok, hlist]

#print axioms pc_pushMarker
#print axioms pc_clearActiveFormattingToMarker
#print axioms pc_resetLoop
#print axioms pc_resetInsertionMode
#print axioms pc_setMode_junk
#print axioms pc_resetAndSetMode
#print axioms pc_closeTheCellP
#print axioms closeCell_absF
#print axioms minv_of_delta
#print axioms tr_of_phase1
#print axioms pc_reconstruct
#print axioms reconstruct_idem
#print axioms reconstruct_after_insertChar
#print axioms reconDone_insertChars
#print axioms pc_createFormattingElementFor

end H5V.Lemmas.HtmlTBModes
