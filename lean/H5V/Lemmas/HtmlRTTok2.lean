import H5V.Lemmas.HtmlRTTok1
/-!
C07 round trip, tokenizer half, part 2: the five character references the serializer emits
(`&amp;` `&lt;` `&gt;` `&quot;` `&nbsp;`) against the entity table: every prefix of the name is known
to the table, the full name (with `;`) matches its value, and nothing in the table continues it.
-/
namespace H5V.Lemmas.HtmlRT
open H5V.Model.HtmlTok

theorem isPrefixOf_length {a b : List Nat} (h : isPrefixOf a b = true) : a.length ≤ b.length := by
  induction a generalizing b with
  | nil => simp
  | cons x xs ih =>
    cases b with
    | nil => simp [isPrefixOf] at h
    | cons y ys =>
      simp only [isPrefixOf, Bool.and_eq_true] at h
      have := ih h.2
      simp; omega

theorem isPrefixOf_append_left {a b l : List Nat} (h : isPrefixOf (a ++ b) l = true) : isPrefixOf a l = true := by
  induction a generalizing l with
  | nil => simp [isPrefixOf]
  | cons x xs ih =>
    cases l with
    | nil => simp [isPrefixOf] at h
    | cons y ys =>
      simp only [List.cons_append, isPrefixOf, Bool.and_eq_true] at h ⊢
      exact ⟨h.1, ih h.2⟩

theorem isPrefixOf_refl (a : List Nat) : isPrefixOf a a = true := by
  induction a with
  | nil => rfl
  | cons x xs ih => simp [isPrefixOf, ih]

/-- no row of the bucket continues `key` -/
def noExt (key : List Nat) (c0 : Nat) : Bool :=
  (Gen.Entities.bucket c0).all (fun r => !isPrefixOf key r.1 || r.1 == key)

theorem lookup_ext_none (key : List Nat) (c0 : Nat) (t : List Nat) (hk : key = c0 :: t)
    (hb : noExt key c0 = true) (x : Nat) : entityLookupN (key ++ [x]) = none := by
  have hrow : ∀ r ∈ Gen.Entities.bucket c0, isPrefixOf key r.1 = true → r.1 = key := by
    intro r hr hp
    have := List.all_eq_true.mp hb r hr
    simp only [hp, Bool.not_true, Bool.false_or, beq_iff_eq] at this
    exact this
  have hlen : ∀ r ∈ Gen.Entities.bucket c0, isPrefixOf (key ++ [x]) r.1 = false := by
    intro r hr
    cases hp : isPrefixOf (key ++ [x]) r.1 with
    | false => rfl
    | true =>
      have h1 := hrow r hr (isPrefixOf_append_left hp)
      have h2 := isPrefixOf_length hp
      rw [h1] at h2
      simp at h2
      omega
  have hk' : key ++ [x] = c0 :: (t ++ [x]) := by rw [hk]; rfl
  unfold entityLookupN
  rw [hk']
  simp only
  rw [← hk']
  have hfind : (Gen.Entities.bucket c0).find? (fun r => r.1 == (key ++ [x])) = none := by
    rw [List.find?_eq_none]
    intro r hr he
    have he' : r.1 = key ++ [x] := by simpa using he
    have := hlen r hr
    rw [he', isPrefixOf_refl] at this
    cases this
  have hany : (Gen.Entities.bucket c0).any (fun r => isPrefixOf (key ++ [x]) r.1) = false := by
    rw [List.any_eq_false]
    intro r hr
    simp [hlen r hr]
  rw [hfind, hany]
  simp

def nAmp : Str := ['a','m','p',';']
def nLt : Str := ['l','t',';']
def nGt : Str := ['g','t',';']
def nQuot : Str := ['q','u','o','t',';']
def nNbsp : Str := ['n','b','s','p',';']

/-- what the round trip needs to know about one reference `&nm` with value `v` -/
structure RefOk (nm : Str) (v : Nat) : Prop where
  ne : nm ≠ []
  alnum : ∀ c, nm.head? = some c → isAsciiAlnum c = true
  semi : nm.getLast? = some ';'
  pre : ∀ k, k < nm.length → (entityLookup (nm.take (k + 1))).isSome = true
  fold : ∀ b, nm.foldl crFeed (crNamed b) =
    { state := .named, inAttr := b, nameBuf := some nm, nameMatch := some (v, 0), nameLen := nm.length }
  none : ∀ x, entityLookup (nm ++ [x]) = none
  valid : isValidScalar v = true
  nz : Char.ofNat v ≠ '\x00'

def preOk (nm : Str) : Bool := (List.range nm.length).all (fun k => (entityLookup (nm.take (k + 1))).isSome)

def foldOk (nm : Str) (v : Nat) (b : Bool) : Bool :=
  decide (nm.foldl crFeed (crNamed b) =
    { state := .named, inAttr := b, nameBuf := some nm, nameMatch := some (v, 0), nameLen := nm.length })

theorem refOk_of (nm : Str) (v : Nat) (c0 : Char) (t : Str) (hk : nm = c0 :: t)
    (h1 : isAsciiAlnum c0 = true) (h2 : nm.getLast? = some ';') (h3 : preOk nm = true)
    (h4 : foldOk nm v true = true ∧ foldOk nm v false = true)
    (h5 : noExt (nm.map Char.toNat) c0.toNat = true) (h6 : isValidScalar v = true) (h7 : Char.ofNat v ≠ '\x00') :
    RefOk nm v where
  ne := by rw [hk]; simp
  alnum := by intro c hc; rw [hk] at hc; simp at hc; subst hc; exact h1
  semi := h2
  pre := by
    intro k hkl
    have := List.all_eq_true.mp h3 k (List.mem_range.mpr hkl)
    exact this
  fold := by
    intro b
    cases b
    · exact of_decide_eq_true h4.2
    · exact of_decide_eq_true h4.1
  none := by
    intro x
    unfold entityLookup
    rw [List.map_append]
    exact lookup_ext_none (nm.map Char.toNat) c0.toNat (t.map Char.toNat) (by rw [hk]; rfl) h5 x.toNat
  valid := h6
  nz := h7

theorem refOk_amp : RefOk nAmp 38 :=
  refOk_of nAmp 38 'a' ['m','p',';'] rfl (by decide) (by decide) (by decide +kernel)
    ⟨by decide +kernel, by decide +kernel⟩ (by decide +kernel) (by decide) (by decide)
theorem refOk_lt : RefOk nLt 60 :=
  refOk_of nLt 60 'l' ['t',';'] rfl (by decide) (by decide) (by decide +kernel)
    ⟨by decide +kernel, by decide +kernel⟩ (by decide +kernel) (by decide) (by decide)
theorem refOk_gt : RefOk nGt 62 :=
  refOk_of nGt 62 'g' ['t',';'] rfl (by decide) (by decide) (by decide +kernel)
    ⟨by decide +kernel, by decide +kernel⟩ (by decide +kernel) (by decide) (by decide)
theorem refOk_quot : RefOk nQuot 34 :=
  refOk_of nQuot 34 'q' ['u','o','t',';'] rfl (by decide) (by decide) (by decide +kernel)
    ⟨by decide +kernel, by decide +kernel⟩ (by decide +kernel) (by decide) (by decide)
theorem refOk_nbsp : RefOk nNbsp 160 :=
  refOk_of nNbsp 160 'n' ['b','s','p',';'] rfl (by decide) (by decide) (by decide +kernel)
    ⟨by decide +kernel, by decide +kernel⟩ (by decide +kernel) (by decide) (by decide)

end H5V.Lemmas.HtmlRT
