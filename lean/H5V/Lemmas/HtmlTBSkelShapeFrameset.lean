import H5V.Lemmas.HtmlTBSkelShapeHead3
/-!
C06, second invariant layer, part 23: the frameset modes, and `<frameset>` replacing `body` in InBody.
-/
namespace H5V.Props.C06
open H5V.Model.Dom hiding Str
open H5V.Model.HtmlTB hiding Str
open H5V.Lemmas.Dom
set_option synthInstance.maxSize 4096

/-- pushing a fresh `frameset` in the frameset phase -/
theorem Core.pushFs {s : State} {r fs : Id} {up : List Id} (h : Core s r up (.pf fs)) {x : Id}
    (hx : Loose s.dom x) (hfresh : x ∉ s.openElems) (hn : nm s.dom x = hN "frameset")
    (hadj : AdjD s.dom (s.openElems ++ [x])) :
    Core { s with openElems := s.openElems ++ [x] } r (up ++ [x]) (.pf fs) := by
  refine ⟨h.late.push hx, by show s.openElems ++ [x] = _; rw [h.stack]; rfl, h.rdoc, ?_, ?_, h.afn, ?_, h.tmm, h.form,
    h.rtu, h.rnd, h.kids, h.elems, ?_, h.afx, hadj⟩
  · show (s.openElems ++ [x]).Nodup
    rw [List.nodup_append]
    exact ⟨h.nodup, by simp, by intro a ha b hb; simp at hb; subst hb; rintro rfl; exact hfresh ha⟩
  · show TG (nm s.dom) (s.openElems ++ [x])
    exact h.tg.snoc (fun t _ => by rw [hn]; exact predOk_of_not_constrained (by decide))
  · show tcount s.dom (s.openElems ++ [x]) ≤ _
    unfold tcount
    rw [List.countP_append]
    have : List.countP (fun x => nm s.dom x == hN "template") [x] = 0 := by
      have : (nm s.dom x == hN "template") = false := by rw [hn]; decide
      simp [this]
    rw [this]; exact h.tc
  · intro y hy
    cases hup : up with
    | nil => rw [hup] at hy; simp at hy
    | cons a t =>
      rw [hup] at hy
      simp only [List.cons_append, List.tail_cons, List.mem_append, List.mem_singleton] at hy
      rcases hy with hy | rfl
      · exact h.bh y (by rw [hup]; exact hy)
      · rw [hn]; show htmlIn (hN "frameset") ["html", "body", "head"] = false; decide

/-- the data of InFrameset -/
theorem inFrameset_data {s : State} {r : Id} {up : List Id} {ph : Phase} (hs : ShapeAt s r up ph)
    (hm : s.mode = .inFrameset) :
    ∃ fs up' t, up = fs :: up' ∧ ph = .pf fs ∧ (∀ x ∈ up, nm s.dom x = hN "frameset") ∧ Inner s r t ∧ t ∈ up := by
  have hf := hs.fits
  unfold FitsM at hf
  rw [hm] at hf
  obtain ⟨fs, up', hu, hph, hall⟩ : ∃ fs up', up = fs :: up' ∧ ph = .pf fs ∧ ∀ x ∈ up, nm s.dom x = hN "frameset" := hf
  have hc := hs.core
  have hne : (fs :: up') ≠ [] := by simp
  have hl : s.openElems.getLast? = some ((fs :: up').getLast hne) := by
    rw [hc.stack, hu, List.getLast?_cons_cons, List.getLast?_eq_some_getLast hne]
  have htm : (fs :: up').getLast hne ∈ up := by rw [hu]; exact List.getLast_mem hne
  have hn := hall _ htm
  exact ⟨fs, up', _, hu, hph, hall, ⟨hl, hc.up_ne_root htm, by rw [hn]; decide, by rw [hn]; decide⟩, htm⟩

theorem not_fragment {s s' : State} {b : Bool} (hl : Late s) (e : isFragment s = .ok (b, s')) : b = false ∧ s' = s := by
  unfold isFragment at e
  rw [getS_bind] at e
  obtain ⟨rfl, rfl⟩ := pure_ok.mp e
  rw [hl.st.ctx]; exact ⟨rfl, rfl⟩


theorem last_of_pop {s s' : State} {x : Id} {l : List Id} {t : Id} (p : PR s s' [x]) (hst : s.openElems = l ++ [t]) :
    x = t ∧ s'.openElems = l := by
  have := p.stack
  rw [hst] at this
  obtain ⟨h1, h2⟩ := List.append_inj' this rfl
  exact ⟨by simpa using h2.symm, h1.symm⟩

set_option maxHeartbeats 1600000 in
theorem modeOk_inFrameset : ModeOk .inFrameset := by
  intro tok ht r s res s' hg hm e
  obtain ⟨up, ph, hs, _⟩ := id hg
  obtain ⟨fs, up', t, rfl, rfl, hall, hi, htm⟩ := inFrameset_data hs hm
  have hc := hs.core
  have hfit : Fits s.dom s.headElem .inFrameset (fs :: up') (.pf fs) := ⟨fs, up', rfl, rfl, hall⟩
  have e' : stepInFrameset tok s = .ok (res, s') := e
  unfold stepInFrameset at e'
  have unexp : unexpected s = .ok (res, s') → Out r s' res := by
    intro e0
    obtain ⟨q, rfl⟩ := qs_unexpected e0
    exact hg.qs q
  cases tok with
  | chars st text =>
    cases st with
    | notSplit => dsimp only at e'; obtain ⟨rfl, rfl⟩ := pure_ok.mp e'; exact hg
    | whitespace =>
      dsimp only at e'
      obtain ⟨h1, rfl, _⟩ := appendText_shape hs hi.last hi.nf hi.nt (ht.ne _ _ rfl) (fun h0 => absurd h0 hi.ne) e'
      exact Good.mk' h1
    | notWhitespace => dsimp only at e'; exact unexp e'
  | comment text =>
    dsimp only at e'
    obtain ⟨h1, rfl, _⟩ := appendComment_shape hs hi.last hi.nf hi.nt e'
    exact Good.mk' h1
  | eof =>
    dsimp only at e'
    rw [getS_bind] at e'
    rcases ite_run e' with ⟨_, e'⟩ | ⟨_, e'⟩
    · obtain ⟨_, s1, e1, e2⟩ := bind_ok.mp e'
      obtain ⟨rfl, rfl⟩ := pure_ok.mp e2
      exact hg.qs (qs_unexpected e1).1
    · obtain ⟨rfl, rfl⟩ := pure_ok.mp e'; exact hg
  | nullChar => dsimp only at e'; exact unexp e'
  | tag tag =>
    dsimp only at e'
    rcases ite_run e' with ⟨h1, e'⟩ | ⟨h1, e'⟩
    · rw [stepInBody_html h1] at e'
      rw [done_of_inBodyHtml e']
      exact (hg.ps e').1
    · rcases ite_run e' with ⟨h2, e'⟩ | ⟨h2, e'⟩
      · -- a nested frameset
        obtain ⟨a, ha, hn, _⟩ := name_of_isStart h2
        simp only [List.mem_cons, List.not_mem_nil, or_false] at ha
        subst ha
        obtain ⟨el, s1, e1, e2⟩ := bind_ok.mp e'
        obtain ⟨rfl, rfl⟩ := pure_ok.mp e2
        unfold insertElementFor at e1
        obtain ⟨s5, hs1, hres⟩ := insertElement_res hc hi.last hi.nf hi.nt e1
        simp only [if_true] at hs1
        obtain ⟨hc5, hsn, _⟩ := hc.insInner hres hi.ne
        obtain ⟨f1, f2, f3, f4, _⟩ := hres.fields
        have hc1 : Core s1 r ((fs :: up') ++ [el]) (.pf fs) := by
          rw [hs1]
          exact hc5.pushFs ⟨hres.elel, hres.loose⟩ (by rw [f1]; exact hres.notOpen hc) (by rw [hres.nmel, hn]; rfl)
            hres.adjp
        refine Good.mk' ⟨hc1, ?_⟩
        refine fitsM_of_fits (om := .inFrameset) (by decide) (by decide) (by rw [hs1]; show s5.mode = _; rw [f3]; exact hm) ?_
        refine ⟨fs, up' ++ [el], rfl, rfl, fun x hx => ?_⟩
        rw [hs1]
        show nm s5.dom x = _
        have hx' : x ∈ (fs :: up') ++ [el] := hx
        rcases List.mem_append.mp hx' with h | h
        · rw [hsn x h]; exact hall x h
        · have : x = el := by simpa using h
          subst this
          rw [hres.nmel, hn]; rfl
      · rcases ite_run e' with ⟨h3, e'⟩ | ⟨h3, e'⟩
        · -- </frameset>
          rw [getS_bind] at e'
          rcases ite_run e' with ⟨hlen, e'⟩ | ⟨hlen, e'⟩
          · exfalso
            rw [hc.stack] at hlen
            simp at hlen
          · obtain ⟨x, s1, e1, e2⟩ := bind_ok.mp e'
            have p1 := pop_sem e1
            obtain ⟨toAfter, s2, e3, e4⟩ := bind_ok.mp e2
            -- the stack after the pop
            rcases nil_or_concat up' with rfl | ⟨u0, z, rfl⟩
            · -- the outermost frameset is closed
              obtain ⟨rfl, hst1⟩ := last_of_pop (l := [r]) (t := fs) p1 (by rw [hc.stack]; rfl)
              have hc1 : Core s1 r [] (.pf x) := hc.pr p1 rfl
              obtain ⟨rfl, rfl⟩ := not_fragment hc1.late e3
              simp only [Bool.false_eq_true, if_false] at e4
              obtain ⟨cn, s4, e7, e8⟩ := bind_ok.mp e4
              obtain ⟨q4, hcur, hl4, hb4⟩ := currentNodeNamed_sem e7
              obtain ⟨ta, s4', e9', e10'⟩ := bind_ok.mp e8
              obtain ⟨rfl, rfl⟩ := pure_ok.mp e9'
              have hcr : hcur = r := by rw [hst1] at hl4; simpa using hl4.symm
              have hcnf : cn = false := by
                rw [hb4, hcr, nm_of_nodes p1.nodes, hc.root_name]; decide
              subst hcnf
              have hc4 := hc1.qs q4
              simp only [Bool.not_false, if_true] at e10'
              obtain ⟨_, s5, e9, e10⟩ := bind_ok.mp e10'
              obtain ⟨rfl, rfl⟩ := pure_ok.mp e10
              unfold setMode at e9
              rw [modS_ok.mp e9]
              exact Good.mk' ⟨hc4.modes rfl hc4.late.ml.orig, by unfold FitsM; exact ⟨rfl, trivial⟩⟩
            · -- an inner frameset is closed
              obtain ⟨rfl, hst1⟩ := last_of_pop (l := r :: fs :: u0) (t := z) p1 (by rw [hc.stack]; simp)
              have hc1 : Core s1 r (fs :: u0) (.pf fs) := hc.pr p1 (by simp)
              have hall1 : ∀ y ∈ fs :: u0, nm s1.dom y = hN "frameset" := fun y hy => by
                rw [nm_of_nodes p1.nodes]; exact hall y (by simp at hy ⊢; rcases hy with h | h <;> simp [h])
              obtain ⟨rfl, rfl⟩ := not_fragment hc1.late e3
              simp only [Bool.false_eq_true, if_false] at e4
              obtain ⟨cn, s4, e7, e8⟩ := bind_ok.mp e4
              obtain ⟨q4, hcur, hl4, hb4⟩ := currentNodeNamed_sem e7
              obtain ⟨ta, s4', e9', e10'⟩ := bind_ok.mp e8
              obtain ⟨rfl, rfl⟩ := pure_ok.mp e9'
              have hne : (fs :: u0) ≠ [] := by simp
              have hcm : hcur ∈ fs :: u0 := by
                rw [hst1, List.getLast?_cons_cons, List.getLast?_eq_some_getLast hne] at hl4
                cases hl4; exact List.getLast_mem hne
              have hcnt : cn = true := by rw [hb4, hall1 hcur hcm]; decide
              subst hcnt
              have hc4 := hc1.qs q4
              simp only [Bool.not_true, Bool.false_eq_true, if_false] at e10'
              obtain ⟨rfl, rfl⟩ := pure_ok.mp e10'
              refine Good.mk' ⟨hc4, ?_⟩
              refine fitsM_of_fits (om := .inFrameset) (by decide) (by decide)
                (by rw [q4.mode, p1.rest]; exact hm) ⟨fs, u0, rfl, rfl, fun y hy => by rw [q4.nm]; exact hall1 y hy⟩
        · rcases ite_run e' with ⟨h4, e'⟩ | ⟨h4, e'⟩
          · -- <frame>
            obtain ⟨el, s1, e1, e2⟩ := bind_ok.mp e'
            obtain ⟨rfl, rfl⟩ := pure_ok.mp e2
            unfold insertAndPopElementFor at e1
            obtain ⟨hc1, hsn1, hdo1⟩ := insertNoPush_inner hc hi e1
            exact Good.mk' ⟨hc1, hs.fits.transfer hsn1 (by rw [hdo1]) (by rw [hdo1]) (by rw [hdo1])⟩
          · rcases ite_run e' with ⟨h5, e'⟩ | ⟨h5, e'⟩
            · -- <noframes>
              rcases stepInHead_cases hc hi e' with ho | hsp
              · exact ho.good hm (by decide) (by decide) hfit
              · exact (head_not_special hsp (Or.inr (Or.inr ⟨tag, rfl, isStart_sub h5 (by decide)⟩))).elim
            · exact unexp e'


/-! ### `noframes` below the root (AfterFrameset, AfterAfterFrameset with nothing reconstructed) -/

theorem stepInHead_noframes {tag : Tag} (h : tag.isStart ["noframes"] = true) {s s' : State} {res : ProcessResult}
    (e : stepInHead (.tag tag) s = .ok (res, s')) : parseRawData tag .rawtext s = .ok (res, s') := by
  unfold stepInHead at e
  dsimp only at e
  rw [if_neg (by rw [isStart_name h (by decide)]; simp), if_neg (by rw [isStart_name h (by decide)]; simp),
    if_neg (by rw [isStart_name h (by decide)]; simp), if_pos (isStart_sub h (by decide))] at e
  rw [getS_bind] at e
  have hnn : isName tag.name "noscript" = false := by
    obtain ⟨a, ha, hn, _⟩ := name_of_isStart h
    simp only [List.mem_cons, List.not_mem_nil, or_false] at ha
    subst ha
    unfold isName
    rw [hn]; decide
  rw [hnn] at e
  simpa using e

/-- the formatting children of the root after an insertion below the root -/
theorem afx_insRoot {s s5 : State} {r el : Id} {ph : Phase} (hc : Core s r [] ph)
    (hre : rootElems s5.dom r = rootElems s.dom r ++ [el])
    (hnmo : ∀ x, x < s.dom.size → nm s5.dom x = nm s.dom x)
    (haf : s5.activeFormatting = s.activeFormatting)
    (hel : isFmtE (nm s5.dom el) = true →
      ∃ y t, FormatEntry.element y t ∈ s.activeFormatting ∧ t.name = (nm s5.dom el).loc) :
    Afx s5.dom s5.activeFormatting r := by
  intro x hx hf
  rw [haf]
  rw [hre] at hx
  rcases List.mem_append.mp hx with hx | hx
  · have hlt : x < s.dom.size := hc.late.base.kidsValid r x (mem_rootElems hx).1
    rw [hnmo x hlt] at hf ⊢
    exact hc.afx x hx hf
  · have : x = el := by simpa using hx
    subst this
    exact hel hf

/-- `parse_raw_data` of a `noframes` below the root in the frameset phase -/
theorem noframes_root {s s' : State} {r fs : Id} {tag : Tag} {res : ProcessResult}
    (hc : Core s r [] (.pf fs)) (hn : tag.name = "noframes".toList)
    (h1 : s.mode ≠ .text) (h2 : s.mode ≠ .inTableText) (hfit : ∀ d', Fits d' s.headElem s.mode [] (.pf fs))
    (e : parseRawData tag .rawtext s = .ok (res, s')) : Good r s' ∧ NoRe res := by
  unfold parseRawData at e
  obtain ⟨el, s1, e1, e2⟩ := bind_ok.mp e
  unfold insertElementFor at e1
  rw [hn] at e1
  obtain ⟨hl, hnf, hnt⟩ := root_last hc
  obtain ⟨s5, hs1, hres⟩ := insertElement_res hc hl hnf hnt e1
  simp only [if_true] at hs1
  obtain ⟨hre, hnmo, hcore⟩ := hc.insRoot hres (by decide) (by decide)
  obtain ⟨f1, f2, f3, f4, _⟩ := hres.fields
  obtain ⟨hh, ex, e1', e2', e3', e4', e5'⟩ := hc.elems
  have hlt : ∀ x ∈ rootElems s.dom r, x < s.dom.size := fun x hx =>
    hc.late.base.kidsValid r x (mem_rootElems hx).1
  have hcore1 := hcore (.pf fs) s5.headElem (fun x hx => hres.late.st.head x hx) (by
    rw [f2]
    refine ⟨hh, ex ++ [el], e1', by rw [hre, e2']; rfl, ?_, ?_, ?_⟩
    · rw [hnmo hh (hlt hh (by rw [e2']; simp))]; exact e3'
    · rw [hnmo fs (hlt fs (by rw [e2']; simp))]; exact e4'
    · intro x hx
      rcases List.mem_append.mp hx with hx | hx
      · rw [hnmo x (hlt x (by rw [e2']; simp [hx]))]; exact e5' x hx
      · have : x = el := by simpa using hx
        subst this
        left; rw [hres.nmel]; rfl)
    (afx_insRoot hc hre hnmo (by obtain ⟨_, _, _, _, f5, _⟩ := hres.fields; exact f5) (by
      intro hf; rw [hres.nmel] at hf; exact absurd hf (by decide)))
  have hc1 : Core s1 r ([] ++ [el]) (.pf fs) := by rw [hs1]; exact hcore1
  have hm1 : s1.mode = s.mode := by rw [hs1]; exact f3
  have hh1 : s1.headElem = s.headElem := by rw [hs1]; exact f2
  have : nm s1.dom el = ⟨nsHtml, "noframes".toList⟩ := by rw [hs1]; exact hres.nmel
  refine toRawTextMode_shape hc1 (by rw [hm1]; exact h1) (by rw [hm1]; exact h2) (by rw [hm1, hh1]; exact hfit _) ?_
    (by rw [this]) e2
  rw [this]; decide

theorem modeOk_afterFrameset : ModeOk .afterFrameset := by
  intro tok ht r s res s' hg hm e
  obtain ⟨up, ph, hs, _⟩ := id hg
  have hf := hs.fits
  unfold FitsM at hf
  rw [hm] at hf
  obtain ⟨rfl, hpf⟩ : up = [] ∧ ph.isPf := hf
  have hc := hs.core
  obtain ⟨hl, hnf, hnt⟩ := root_last hc
  have e' : stepAfterFrameset tok s = .ok (res, s') := e
  unfold stepAfterFrameset at e'
  have unexp : unexpected s = .ok (res, s') → Out r s' res := by
    intro e0
    obtain ⟨q, rfl⟩ := qs_unexpected e0
    exact hg.qs q
  cases tok with
  | chars st text =>
    cases st with
    | notSplit => dsimp only at e'; obtain ⟨rfl, rfl⟩ := pure_ok.mp e'; exact hg
    | whitespace =>
      dsimp only at e'
      obtain ⟨h1, rfl, _⟩ := appendText_shape hs hl hnf hnt (ht.ne _ _ rfl) (fun _ => ht.ws text rfl) e'
      exact Good.mk' h1
    | notWhitespace => dsimp only at e'; exact unexp e'
  | comment text =>
    dsimp only at e'
    obtain ⟨h1, rfl, _⟩ := appendComment_shape hs hl hnf hnt e'
    exact Good.mk' h1
  | eof => dsimp only at e'; obtain ⟨rfl, rfl⟩ := pure_ok.mp e'; exact hg
  | nullChar => dsimp only at e'; exact unexp e'
  | tag tag =>
    dsimp only at e'
    rcases ite_run e' with ⟨h1, e'⟩ | ⟨h1, e'⟩
    · rw [stepInBody_html h1] at e'
      rw [done_of_inBodyHtml e']
      exact (hg.ps e').1
    · rcases ite_run e' with ⟨h2, e'⟩ | ⟨h2, e'⟩
      · obtain ⟨_, s1, e1, e2⟩ := bind_ok.mp e'
        obtain ⟨rfl, rfl⟩ := pure_ok.mp e2
        unfold setMode at e1
        rw [modS_ok.mp e1]
        exact Good.mk' ⟨hc.modes rfl hc.late.ml.orig, by
          unfold FitsM; exact ⟨hpf, fun x hx => by cases hx⟩⟩
      · rcases ite_run e' with ⟨h3, e'⟩ | ⟨h3, e'⟩
        · cases ph with
          | pf fs =>
            obtain ⟨a, ha, hn, _⟩ := name_of_isStart h3
            simp only [List.mem_cons, List.not_mem_nil, or_false] at ha
            subst ha
            obtain ⟨hgood, hnr⟩ := noframes_root hc hn (by rw [hm]; decide) (by rw [hm]; decide)
              (fun d' => by rw [hm]; exact ⟨rfl, trivial⟩) (stepInHead_noframes h3 e')
            exact Out.of_good hgood hnr
          | p0 => exact absurd hpf id
          | p1 => exact absurd hpf id
          | pb b => exact absurd hpf id
        · exact unexp e'


/-! ### `<frameset>` replacing `body` -/

theorem filter_erase {p : Id → Bool} {b : Id} (hb : p b = true) : ∀ l : List Id,
    (l.erase b).filter p = (l.filter p).erase b
  | [] => rfl
  | a :: t => by
    by_cases hab : a = b
    · subst hab
      rw [List.erase_cons_head, List.filter_cons_of_pos hb, List.erase_cons_head]
    · have hab' : ¬ (a == b) = true := by simpa using hab
      rw [List.erase_cons_tail hab']
      by_cases hpa : p a = true
      · rw [List.filter_cons_of_pos hpa, List.filter_cons_of_pos hpa, List.erase_cons_tail hab', filter_erase hb t]
      · rw [List.filter_cons_of_neg hpa, List.filter_cons_of_neg hpa, filter_erase hb t]

set_option maxHeartbeats 1600000 in
theorem framesetArm {tag : Tag} (h : tag.isStart ["frameset"] = true) : FramesetArm tag := by
  intro b m r ph s res s'' hb hm hbl hw e
  obtain ⟨hb1, hbn⟩ := hw
  obtain ⟨up, hc, hbb, _, _⟩ := id hb
  -- the stack is html body …, the phase is pb b
  have hform : ∃ up', up = b :: up' ∧ ph = .pb b := by
    have hst := hc.stack
    rcases hbb with ⟨b', u, hu, hph, _⟩ | ⟨hh, t, u, h0, hu, htn, hph⟩ | ⟨t, u, hu, htn, hph, _⟩
    · rw [hst, hu] at hb1
      simp at hb1; subst hb1
      exact ⟨u, hu, hph⟩
    · exfalso
      rw [hst, hu] at hb1
      simp at hb1; subst hb1
      have : nm s.dom hh = hN "head" := by
        subst hph; obtain ⟨h', e1, _, e3⟩ := hc.elems; rw [h0] at e1; cases e1; exact e3
      rw [this] at hbn; revert hbn; decide
    · exfalso
      rw [hst, hu] at hb1
      simp at hb1; subst hb1
      rw [htn] at hbn; revert hbn; decide
  obtain ⟨up', rfl, rfl⟩ := hform
  obtain ⟨h0, hh, hre, hhn, hbn'⟩ := hc.elems
  have hbk : b ∈ s.dom.childrenOf r := (mem_rootElems (show b ∈ rootElems s.dom r by rw [hre]; simp)).1
  have hbel : s.dom.isElement b = true := (mem_rootElems (show b ∈ rootElems s.dom r by rw [hre]; simp)).2
  have hh0b : h0 ≠ b := by
    rintro rfl; rw [hhn] at hbn'; revert hbn'; decide
  -- remove_from_parent
  obtain ⟨_, s1, e1, e2⟩ := bind_ok.mp e
  obtain ⟨hadj1, _⟩ := removeFromParent_adj hc.adj
    (Or.inr ⟨by rw [hc.stack]; simp, by rw [hbn']; decide⟩) e1
  obtain ⟨out, e1'⟩ := sinkUnit_ok.mp e1
  obtain ⟨d, hd, rfl⟩ := sink_ok.mp e1'
  have hrem := apply_remove hd
  have hl := hc.late
  obtain ⟨hkr, hdata, hsz, hother, hrtu⟩ := root_remove hc.rtu hc.rnd hbk hrem
  obtain ⟨hb', hc', _, _, _, hsame⟩ := removeFromParent_spec hl.base hrem
  have hb0 : b ∉ s.dom.childrenOf 0 := hl.st.tail b (by rw [hc.stack]; simp)
  have hk0 := hsame 0 hb0
  have hl1 := (hl.dom (tr := (SinkOp.removeFromParent b, out) :: s.traceRev) hb' hc' hk0).1
  -- truncate the stack
  obtain ⟨_, s2, e3, e4⟩ := bind_ok.mp e2
  have hs2 := modS_ok.mp e3
  have hnm : ∀ x, nm d x = nm s.dom x := fun x => by unfold nm; rw [hdata]
  have hel : ∀ x, d.isElement x = s.dom.isElement x := fun x => by unfold Dom.isElement; rw [hdata]
  have hp : PR { s with dom := d, traceRev := (SinkOp.removeFromParent b, out) :: s.traceRev } s2 (b :: up') := by
    rw [hs2]
    exact ⟨rfl, by show s.openElems = List.take 1 s.openElems ++ _; rw [hc.stack]; rfl, rfl⟩
  have hl2 : Late s2 := hl1.pr hp
  have hst2 : s2.openElems = [r] := by rw [hs2]; show List.take 1 s.openElems = _; rw [hc.stack]; rfl
  have hdom2 : s2.dom = d := by rw [hs2]
  have hre2 : rootElems s2.dom r = [h0] := by
    rw [hdom2]
    unfold rootElems
    rw [hkr]
    have : (fun x => d.isElement x) = (fun x => s.dom.isElement x) := funext hel
    show List.filter (fun x => d.isElement x) _ = _
    rw [this, filter_erase hbel]
    show (rootElems s.dom r).erase b = _
    rw [hre]
    simp [hh0b]
  have hc2 : Core s2 r [] .p1 := by
    refine ⟨hl2, hst2, by rw [hdom2, hk0]; exact hc.rdoc, by rw [hst2]; simp, by rw [hst2]; exact TG.single _ _,
      ?_, ?_, ?_, ?_, by rw [hdom2]; exact hrtu, ?_, ?_, ?_, (by intro y hy; cases hy), ?_,
      (by
        rw [hst2, hdom2]
        exact hadj1.sub hc.nodup (by rw [hc.stack]; exact List.Sublist.cons_cons _ (List.nil_sublist _)))⟩
    · intro x t hx
      have hx' : FormatEntry.element x t ∈ s.activeFormatting := by rw [hs2] at hx; exact hx
      obtain ⟨a1, a2, a3⟩ := hc.afn x t hx'
      exact ⟨a1, by rw [hdom2, hnm]; exact a2, by rw [hdom2, hel]; exact a3⟩
    · rw [hst2, hdom2]
      unfold tcount
      have : (nm d r == hN "template") = false := by rw [hnm, hc.root_name]; decide
      simp [this]
    · intro md hmd
      have : md ∈ s.templateModes := by rw [hs2] at hmd; exact hmd
      exact hc.tmm md this
    · intro f hf
      have hf' : s.formElem = some f := by rw [hs2] at hf; exact hf
      obtain ⟨a1, a2⟩ := hc.form f hf'
      exact ⟨by rw [hdom2, hnm]; exact a1, by rw [hdom2, hel]; exact a2⟩
    · rw [hdom2, hkr]
      exact (List.erase_sublist).nodup hc.rnd
    · intro c hcm
      rw [hdom2, hkr] at hcm
      have hcm' := List.mem_of_mem_erase hcm
      rcases hc.kids c hcm' with k | ⟨t, k⟩ | ⟨t, k, k2⟩
      · exact Or.inl (by rw [hdom2, hel]; exact k)
      · exact Or.inr (Or.inl ⟨t, by rw [hdom2, hdata]; exact k⟩)
      · exact Or.inr (Or.inr ⟨t, by rw [hdom2, hdata]; exact k, k2⟩)
    · show ElemsOk s2.dom s2.headElem r .p1
      have : s2.headElem = some h0 := by rw [hs2]; exact hh
      rw [this]
      exact ⟨h0, rfl, hre2, by rw [hdom2, hnm]; exact hhn⟩
    · intro x hx hf
      exfalso
      rw [hre2] at hx
      simp only [List.mem_cons, List.not_mem_nil, or_false] at hx
      subst hx
      rw [hdom2, hnm, hhn] at hf; revert hf; decide
  -- the frameset goes below the root
  have hh2 : s2.headElem = some h0 := by rw [hs2]; exact hh
  obtain ⟨el, s3, e5, e6⟩ := bind_ok.mp e4
  obtain ⟨_, s4, e7, e8⟩ := bind_ok.mp e6
  obtain ⟨rfl, rfl⟩ := pure_ok.mp e8
  obtain ⟨a, ha, hn, _⟩ := name_of_isStart h
  simp only [List.mem_cons, List.not_mem_nil, or_false] at ha
  subst ha
  unfold insertElementFor at e5
  rw [hn] at e5
  obtain ⟨a1, a2, a3, a4, a5, a6, a7⟩ := afterHead_insert hc2 hh2 (by decide) (by decide) (by decide) e5
  have hc3 : Core s3 r [el] (.pf el) :=
    a7 (.pf el) (fun d' h1' h2' h3' => ⟨h0, [], rfl, h3', h1', h2', fun x hx => by cases hx⟩)
  unfold setMode at e7
  rw [modS_ok.mp e7]
  refine Good.mk' ⟨hc3.modes rfl hc3.late.ml.orig, ?_⟩
  show FitsM { s3 with mode := .inFrameset } [el] (.pf el)
  unfold FitsM
  exact ⟨el, [], rfl, rfl, fun x hx => by simp only [List.mem_singleton] at hx; subst hx; exact a3⟩


/-! ### AfterAfterFrameset: formatting elements may be reconstructed below the root -/

/-- the stack above the root consists of formatting elements, in the frameset phase -/
structure RFm (s : State) (r : Id) (up : List Id) (fs : Id) : Prop where
  core : Core s r up (.pf fs)
  fmt : ∀ x ∈ up, isFmtE (nm s.dom x) = true

theorem isFmtE_of_fmt {n : Str} (h : isOneOf n fmtNames = true) : isFmtE ⟨nsHtml, n⟩ = true := by
  unfold isFmtE htmlIn
  simp [h]

theorem RFm.current {s : State} {r fs : Id} {up : List Id} (h : RFm s r up fs) :
    ∃ t, s.openElems.getLast? = some t ∧ fosterTarget (nm s.dom t) = false ∧ nm s.dom t ≠ hN "template" ∧
      (t = r ↔ up = []) := by
  rcases nil_or_concat up with rfl | ⟨u0, z, rfl⟩
  · obtain ⟨a, b, c⟩ := root_last h.core
    exact ⟨r, a, b, c, by simp⟩
  · have hz := h.fmt z (by simp)
    obtain ⟨a, ha, hn⟩ := htmlIn_eq hz
    refine ⟨z, by rw [h.core.stack, show r :: (u0 ++ [z]) = (r :: u0) ++ [z] from rfl, List.getLast?_append]; simp, ?_, ?_, ?_⟩
    · rw [hn]; unfold fmtNames at ha; simp only [List.mem_cons, List.not_mem_nil, or_false] at ha
      rcases ha with rfl | rfl | rfl | rfl | rfl | rfl | rfl | rfl | rfl | rfl | rfl | rfl | rfl | rfl <;> decide
    · rw [hn]; unfold fmtNames at ha; simp only [List.mem_cons, List.not_mem_nil, or_false] at ha
      rcases ha with rfl | rfl | rfl | rfl | rfl | rfl | rfl | rfl | rfl | rfl | rfl | rfl | rfl | rfl <;> decide
    · constructor
      · intro h0; exact absurd h0 (h.core.up_ne_root (by simp))
      · intro h0; simp at h0

/-- a formatting element is inserted (and pushed) -/
theorem RFm.insert {s s' : State} {r fs : Id} {up : List Id} {name : Str} {attrs : List Attr} {dup : Bool} {el : Id}
    (h : RFm s r up fs) (hf : isOneOf name fmtNames = true)
    (hent : ∃ y t, FormatEntry.element y t ∈ s.activeFormatting ∧ t.name = name)
    (e : insertElement true nsHtml name attrs dup s = .ok (el, s')) :
    RFm s' r (up ++ [el]) fs ∧ nm s'.dom el = ⟨nsHtml, name⟩ ∧ s'.dom.isElement el = true ∧
      s'.activeFormatting = s.activeFormatting ∧ s'.mode = s.mode ∧ s'.origMode = s.origMode ∧
      s'.headElem = s.headElem ∧ AFok s'.dom s.activeFormatting := by
  have hc := h.core
  obtain ⟨t, hl, hnf, hnt, htr⟩ := h.current
  obtain ⟨s5, hs', hres⟩ := insertElement_res hc hl hnf hnt e
  simp only [if_true] at hs'
  obtain ⟨f1, f2, f3, f4, f5, f6, f7⟩ := hres.fields
  have hk : keepName ⟨nsHtml, name⟩ = false := keepName_fmt hf
  have hafok : AFok s5.dom s.activeFormatting := fun x tg hx => by
    obtain ⟨a, b, c⟩ := hc.afn x tg hx
    exact ⟨a, by rw [nm_chg hres.chg c]; exact b, hres.chg.isElement c⟩
  by_cases hroot : t = r
  · subst hroot
    have hup : up = [] := htr.mp rfl
    subst hup
    obtain ⟨hre, hnmo, hcore⟩ := hc.insRoot hres (constrained_of_keepName_false hk) (by
      intro h0; rw [h0, keepName_template] at hk; cases hk)
    obtain ⟨hh, ex, e1', e2', e3', e4', e5'⟩ := hc.elems
    have hlt : ∀ x ∈ rootElems s.dom t, x < s.dom.size := fun x hx =>
      hc.late.base.kidsValid t x (mem_rootElems hx).1
    have hcore1 := hcore (.pf fs) s5.headElem (fun x hx => hres.late.st.head x hx) (by
      rw [f2]
      refine ⟨hh, ex ++ [el], e1', by rw [hre, e2']; rfl, ?_, ?_, ?_⟩
      · rw [hnmo hh (hlt hh (by rw [e2']; simp))]; exact e3'
      · rw [hnmo fs (hlt fs (by rw [e2']; simp))]; exact e4'
      · intro x hx
        rcases List.mem_append.mp hx with hx | hx
        · rw [hnmo x (hlt x (by rw [e2']; simp [hx]))]; exact e5' x hx
        · have : x = el := by simpa using hx
          subst this
          right; rw [hres.nmel]; exact isFmtE_of_fmt hf)
      (afx_insRoot hc hre hnmo f5 (by intro _; rw [hres.nmel]; exact hent))
    rw [hs']
    refine ⟨⟨hcore1, fun x hx => ?_⟩, hres.nmel, hres.elel, f5, f3, f4, f2, hafok⟩
    have : x = el := by simpa using hx
    subst this
    show isFmtE (nm s5.dom x) = true
    rw [hres.nmel]; exact isFmtE_of_fmt hf
  · obtain ⟨hc5, hsn, hpush⟩ := hc.insInner hres hroot
    rw [hs']
    refine ⟨⟨hpush (PushOk.of_plain hk), fun x hx => ?_⟩, hres.nmel, hres.elel, f5, f3, f4, f2, hafok⟩
    show isFmtE (nm s5.dom x) = true
    rcases List.mem_append.mp hx with h1 | h1
    · rw [hsn x h1]; exact h.fmt x h1
    · have : x = el := by simpa using h1
      subst this
      rw [hres.nmel]; exact isFmtE_of_fmt hf

/-- the list of active formatting elements is replaced by a good one -/
theorem RFm.setAF {s : State} {r fs : Id} {up : List Id} (h : RFm s r up fs) {af : List FormatEntry}
    (ha : AFok s.dom af) (hx : Afx s.dom af r) : RFm { s with activeFormatting := af } r up fs := by
  have hc := h.core
  have hl : Late { s with activeFormatting := af } := hc.late.free rfl rfl rfl rfl rfl rfl rfl rfl rfl
  exact ⟨⟨hl, hc.stack, hc.rdoc, hc.nodup, hc.tg, ha, hc.tc, hc.tmm, hc.form, hc.rtu, hc.rnd, hc.kids, hc.elems, hc.bh,
    hx, hc.adj⟩, h.fmt⟩

theorem RFm.qs {s s' : State} {r fs : Id} {up : List Id} (h : RFm s r up fs) (q : QS s s') : RFm s' r up fs :=
  ⟨h.core.qs q, fun x hx => by rw [q.nm]; exact h.fmt x hx⟩

theorem mem_set_or {α : Type} : ∀ (l : List α) (i : Nat) (a b : α), a ∈ l → a ∈ l.set i b ∨ l[i]? = some a
  | [], _, _, _, h => by cases h
  | x :: t, 0, a, b, h => by
    rcases List.mem_cons.mp h with rfl | h
    · right; rfl
    · left; simp [h]
  | x :: t, i + 1, a, b, h => by
    rcases List.mem_cons.mp h with rfl | h
    · left; simp
    · rcases mem_set_or t i a b h with h1 | h1
      · left; simp [h1]
      · right; simpa using h1

/-- the create loop of the reconstruction -/
theorem reconstructCreate_rfm : ∀ (fuel i : Nat) (s s' : State) (r fs : Id) (up : List Id) (u : Unit),
    RFm s r up fs → reconstructCreate fuel i s = .ok (u, s') →
      ∃ up', RFm s' r up' fs ∧ s'.mode = s.mode ∧ s'.origMode = s.origMode ∧ s'.headElem = s.headElem
  | 0, _, _, _, _, _, _, _, _, e => by unfold reconstructCreate at e; exact absurd e fuelOut_ok
  | fuel + 1, i, s, s', r, fs, up, u, h, e => by
    unfold reconstructCreate at e
    rw [getS_bind] at e
    cases hget : s.activeFormatting[i]? with
    | none =>
      rw [hget] at e; dsimp only at e
      obtain ⟨_, _, h1, _⟩ := bind_ok.mp e
      exact absurd h1 panicAt_ok
    | some ent =>
      rw [hget] at e
      cases ent with
      | marker =>
        dsimp only at e
        obtain ⟨_, _, h1, _⟩ := bind_ok.mp e
        exact absurd h1 panicAt_ok
      | element x0 tag =>
        dsimp only at e
        obtain ⟨tg, s0, e0, e⟩ := bind_ok.mp e
        obtain ⟨rfl, rfl⟩ := pure_ok.mp e0
        obtain ⟨el, s1, e1, e2⟩ := bind_ok.mp e
        have hmem : FormatEntry.element x0 tag ∈ s.activeFormatting := List.mem_of_getElem? hget
        obtain ⟨hfn, _, _⟩ := h.core.afn x0 tag hmem
        obtain ⟨h1, hnm1, hel1, haf1, hm1, ho1, hh1, hafok1⟩ := h.insert hfn ⟨x0, tag, hmem, rfl⟩ e1
        rw [getS_bind] at e2
        rcases ite_run e2 with ⟨hi, e2⟩ | ⟨hi, e2⟩
        · obtain ⟨_, s2, e3, e4⟩ := bind_ok.mp e2
          unfold setAF at e3
          have hs2 := modS_ok.mp e3
          have h2 : RFm s2 r (up ++ [el]) fs := by
            rw [hs2]
            refine h1.setAF ?_ ?_
            · rw [haf1]
              exact hafok1.set i hfn hnm1 hel1
            · refine h1.core.afx.same ?_
              intro y t hy
              rw [haf1] at hy ⊢
              rcases mem_set_or _ i _ (FormatEntry.element el tag) hy with h0 | h0
              · exact ⟨y, h0⟩
              · rw [hget] at h0
                cases h0
                have hlt : i < s.activeFormatting.length := by
                  rcases Nat.lt_or_ge i s.activeFormatting.length with h | h
                  · exact h
                  · rw [List.getElem?_eq_none h] at hget; cases hget
                exact ⟨el, List.mem_iff_getElem.mpr ⟨i, by rw [List.length_set]; exact hlt, by simp⟩⟩
          have hm2 : s2.mode = s1.mode := by rw [hs2]
          have ho2 : s2.origMode = s1.origMode := by rw [hs2]
          have hh2 : s2.headElem = s1.headElem := by rw [hs2]
          rw [getS_bind] at e4
          rcases ite_run e4 with ⟨_, e4⟩ | ⟨_, e4⟩
          · exact absurd e4 panicAt_ok
          · rcases ite_run e4 with ⟨_, e4⟩ | ⟨_, e4⟩
            · obtain ⟨_, rfl⟩ := pure_ok.mp e4
              exact ⟨_, h2, hm2.trans hm1, ho2.trans ho1, hh2.trans hh1⟩
            · obtain ⟨up', h3, hm3, ho3, hh3⟩ := reconstructCreate_rfm fuel (i + 1) s2 s' r fs _ u h2 e4
              exact ⟨up', h3, hm3.trans (hm2.trans hm1), ho3.trans (ho2.trans ho1), hh3.trans (hh2.trans hh1)⟩
        · obtain ⟨_, _, h1', _⟩ := bind_ok.mp e2
          exact absurd h1' panicAt_ok

theorem reconstruct_rfm {s s' : State} {r fs : Id} {up : List Id} {u : Unit} (h : RFm s r up fs)
    (e : reconstructActiveFormattingElements s = .ok (u, s')) :
    ∃ up', RFm s' r up' fs ∧ s'.mode = s.mode ∧ s'.origMode = s.origMode ∧ s'.headElem = s.headElem := by
  unfold reconstructActiveFormattingElements at e
  rw [getS_bind] at e
  cases hl : s.activeFormatting.getLast? with
  | none =>
    rw [hl] at e
    obtain ⟨_, rfl⟩ := pure_ok.mp e
    exact ⟨up, h, rfl, rfl, rfl⟩
  | some last =>
    rw [hl] at e
    dsimp only at e
    obtain ⟨b, s1, e1, e2⟩ := bind_ok.mp e
    have q1 : QS s s1 := IsQ.q _ _ _ e1
    have h1 := h.qs q1
    rcases ite_run e2 with ⟨_, e2⟩ | ⟨_, e2⟩
    · obtain ⟨_, rfl⟩ := pure_ok.mp e2
      exact ⟨up, h1, q1.mode, by rw [q1.rest], by rw [q1.rest]⟩
    · obtain ⟨start, s2, e3, e4⟩ := bind_ok.mp e2
      have q2 : QS s1 s2 := IsQ.q _ _ _ e3
      have h2 := h1.qs q2
      obtain ⟨up', h3, hm3, ho3, hh3⟩ := reconstructCreate_rfm _ _ s2 s' r fs up u h2 e4
      have q02 := q1.trans q2
      exact ⟨up', h3, hm3.trans q02.mode, ho3.trans (by rw [q02.rest]), hh3.trans (by rw [q02.rest])⟩


theorem RFm.good {s : State} {r fs : Id} {up : List Id} (h : RFm s r up fs) (hm : s.mode = .afterAfterFrameset) :
    Good r s := by
  refine Good.mk' (up := up) (ph := .pf fs) ⟨h.core, ?_⟩
  unfold FitsM
  rw [hm]
  exact ⟨trivial, h.fmt⟩

theorem RFm.free {s s' : State} {r fs : Id} {up : List Id} (h : RFm s r up fs)
    (h1 : s'.dom = s.dom) (h2 : s'.openElems = s.openElems) (h3 : s'.headElem = s.headElem)
    (h4 : s'.docHandle = s.docHandle) (h5 : s'.contextElem = s.contextElem)
    (h6 : s'.pendingTableText = s.pendingTableText) (h7 : s'.mode = s.mode) (h8 : s'.origMode = s.origMode)
    (h9 : s'.templateModes = s.templateModes) (h10 : s'.activeFormatting = s.activeFormatting)
    (h11 : s'.formElem = s.formElem) : RFm s' r up fs :=
  ⟨h.core.free h1 h2 h3 h4 h5 h6 h7 h8 h9 h10 h11, by rw [h1]; exact h.fmt⟩

theorem modeOk_afterAfterFrameset : ModeOk .afterAfterFrameset := by
  intro tok ht r s res s' hg hm e
  obtain ⟨up, ph, hs, _⟩ := id hg
  have hf := hs.fits
  unfold FitsM at hf
  rw [hm] at hf
  obtain ⟨hpf, hfmt⟩ : ph.isPf ∧ ∀ x ∈ up, isFmtE (nm s.dom x) = true := hf
  have hc := hs.core
  have e' : stepAfterAfterFrameset tok s = .ok (res, s') := e
  unfold stepAfterAfterFrameset at e'
  have unexp : unexpected s = .ok (res, s') → Out r s' res := by
    intro e0
    obtain ⟨q, rfl⟩ := qs_unexpected e0
    exact hg.qs q
  cases ph with
  | p0 => exact absurd hpf id
  | p1 => exact absurd hpf id
  | pb b => exact absurd hpf id
  | pf fs =>
  have hr : RFm s r up fs := ⟨hc, hfmt⟩
  cases tok with
  | chars st text =>
    cases st with
    | notSplit => dsimp only at e'; obtain ⟨rfl, rfl⟩ := pure_ok.mp e'; exact hg
    | whitespace =>
      dsimp only at e'
      have hd := done_of_bodyChars e'
      subst hd
      unfold stepInBody at e'
      dsimp only at e'
      obtain ⟨_, s1, e1, e2⟩ := bind_ok.mp e'
      obtain ⟨up1, h1, hm1, _, _⟩ := reconstruct_rfm hr e1
      have key : ∀ s2 : State, RFm s2 r up1 fs → s2.mode = .afterAfterFrameset →
          appendText text s2 = .ok (ProcessResult.done, s') → Good r s' := by
        intro s2 h2 hm2 e3
        obtain ⟨t, hl, hnf, hnt, htr⟩ := h2.current
        obtain ⟨h3, _, hdo, hsn⟩ := appendText_core h2.core hl hnf hnt (ht.ne _ _ rfl) (fun _ => ht.ws text rfl) e3
        have h4 : RFm s' r up1 fs := ⟨h3, fun x hx => by rw [hsn x hx]; exact h2.fmt x hx⟩
        exact h4.good (by rw [hdo]; exact hm2)
      rcases ite_run e2 with ⟨_, e2⟩ | ⟨_, e2⟩
      · obtain ⟨_, s2, e3, e4⟩ := bind_ok.mp e2
        unfold setFramesetOk at e3
        have hs2 := modS_ok.mp e3
        refine key s2 ?_ ?_ e4
        · rw [hs2]; exact h1.free rfl rfl rfl rfl rfl rfl rfl rfl rfl rfl rfl
        · rw [hs2]; exact hm1.trans hm
      · exact key s1 h1 (hm1.trans hm) e2
    | notWhitespace => dsimp only at e'; exact unexp e'
  | comment text =>
    dsimp only at e'
    obtain ⟨h1, rfl, _⟩ := appendCommentToDoc_shape hs e'
    exact Good.mk' h1
  | eof => dsimp only at e'; obtain ⟨rfl, rfl⟩ := pure_ok.mp e'; exact hg
  | nullChar => dsimp only at e'; exact unexp e'
  | tag tag =>
    dsimp only at e'
    rcases ite_run e' with ⟨h1, e'⟩ | ⟨h1, e'⟩
    · rw [stepInBody_html h1] at e'
      rw [done_of_inBodyHtml e']
      exact (hg.ps e').1
    · rcases ite_run e' with ⟨h3, e'⟩ | ⟨h3, e'⟩
      · obtain ⟨a, ha, hn, _⟩ := name_of_isStart h3
        simp only [List.mem_cons, List.not_mem_nil, or_false] at ha
        subst ha
        have e2 := stepInHead_noframes h3 e'
        rcases nil_or_concat up with rfl | ⟨u0, z, rfl⟩
        · obtain ⟨hgood, hnr⟩ := noframes_root hc hn (by rw [hm]; decide) (by rw [hm]; decide)
            (fun d' => by rw [hm]; exact ⟨trivial, fun x hx => by cases hx⟩) e2
          exact Out.of_good hgood hnr
        · -- the `noframes` element goes into the current (formatting) element
          obtain ⟨t, hl, hnf, hnt, htr⟩ := hr.current
          have htr' : t ≠ r := fun h0 => by have := htr.mp h0; simp at this
          unfold parseRawData at e2
          obtain ⟨el, s1, e1, e3⟩ := bind_ok.mp e2
          unfold insertElementFor at e1
          rw [hn] at e1
          obtain ⟨s5, hs1, hres⟩ := insertElement_res hc hl hnf hnt e1
          simp only [if_true] at hs1
          obtain ⟨_, hsn, hpush⟩ := hc.insInner hres htr'
          obtain ⟨f1, f2, f3, f4, _⟩ := hres.fields
          have hc1 : Core s1 r ((u0 ++ [z]) ++ [el]) (.pf fs) := by
            rw [hs1]; exact hpush (PushOk.of_plain (by decide))
          have hm1 : s1.mode = s.mode := by rw [hs1]; exact f3
          have hnm1 : nm s1.dom el = ⟨nsHtml, "noframes".toList⟩ := by rw [hs1]; exact hres.nmel
          obtain ⟨hgood, hnr⟩ := toRawTextMode_shape hc1 (by rw [hm1, hm]; decide) (by rw [hm1, hm]; decide)
            (by
              rw [hm1, hm]
              refine ⟨trivial, fun x hx => ?_⟩
              have : nm s1.dom x = nm s5.dom x := by rw [hs1]
              rw [this, hsn x hx]; exact hfmt x hx)
            (by rw [hnm1]; decide) (by rw [hnm1]) e3
          exact Out.of_good hgood hnr
      · exact unexp e'

end H5V.Props.C06
