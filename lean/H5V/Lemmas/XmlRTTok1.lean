import H5V.Lemmas.XmlRTRef
/-!
C17, tokenizer half, part 2: what one `XmlTokenizer::step` does on each character of a serialised
element (`exact_errors` off): text, start tags with double-quoted attributes, end tags.  Every lemma is
stated for an arbitrary machine whose control registers (`Ctl`) and tag registers (`Regs` / `Clean`)
have the stated values; the token log is described through `cvOut` (parse errors dropped).
-/
namespace H5V.Lemmas.XmlRT
open H5V.Model.XmlTok

/-- the registers that must be empty between two pieces of markup -/
structure Clean (m : Mach) : Prop where
  an : m.attrName = []
  av : m.attrValue = []
  dt : m.doctype = {}

/-- the tag registers -/
structure Regs (m : Mach) (k : TagKind) (nm : Str) (as : List Attr) (an av : Str) : Prop where
  kind : m.tagKind = k
  name : m.tagName = nm
  attrs : m.tagAttrs = as
  an : m.attrName = an
  av : m.attrValue = av
  dt : m.doctype = {}

theorem carried_clean : Carried Clean :=
  ⟨fun _ _ h => ⟨h.an, h.av, h.dt⟩, fun _ _ h => ⟨h.an, h.av, h.dt⟩⟩
theorem carried_regs (k nm as an av) : Carried (fun m => Regs m k nm as an av) :=
  ⟨fun _ _ h => ⟨h.kind, h.name, h.attrs, h.an, h.av, h.dt⟩, fun _ _ h => ⟨h.kind, h.name, h.attrs, h.an, h.av, h.dt⟩⟩

/-- a character that may stand inside a tag name or attribute name: not a delimiter of the tag states
and not rewritten by the input preprocessing -/
def NmCh (c : Char) : Prop :=
  c ≠ '\t' ∧ c ≠ '\n' ∧ c ≠ ' ' ∧ c ≠ '/' ∧ c ≠ '>' ∧ c ≠ '\r' ∧ c ≠ '\x00'

/-- `finish_attribute` on the registers -/
def finAttr (as : List Attr) (an av : Str) : List Attr :=
  if an.isEmpty then as else
  if as.any (fun a => a.name == processQName an) then as
  else if ((processQName an).pfx.isNone && (processQName an).loc == xmlnsName) || (processQName an).pfx == some xmlnsName
    then ⟨processQName an, av⟩ :: as
  else as ++ [⟨processQName an, av⟩]

theorem finishAttribute_eq (m : Mach) :
    finishAttribute m = if m.attrName.isEmpty then m else
      { m with tagAttrs := finAttr m.tagAttrs m.attrName m.attrValue, attrName := [], attrValue := [],
               out := if m.tagAttrs.any (fun a => a.name == processQName m.attrName)
                 then .error "Duplicate attribute".toList :: m.out else m.out } := by
  unfold finishAttribute finAttr
  by_cases h1 : m.attrName.isEmpty = true
  · simp [h1]
  · simp only [h1, Bool.false_eq_true, if_false]
    by_cases h2 : (m.tagAttrs.any (fun a => a.name == processQName m.attrName)) = true
    · simp only [h2, if_true]; simp [emitErr, emit]
    · simp only [h2, Bool.false_eq_true, if_false]
      split <;> rfl

macro "mach_simp" : tactic =>
  `(tactic| simp [to, reconsumeTo, createTag, discardTag, pushTag, pushName, pushValue, appendValue, emit, emitErr,
      emitChar, emitChars, consumeCharRef, Mach.setCurrentChar, Mach.setCharRef, Mach.setIgnoreLf,
      Mach.setReconsume, *])

/-! ### data state -/

theorem data_plain (o : Opts) (ho : o.exactErrors = false) (m : Mach) (c : Char) (rest : Str)
    (h : Ctl m .data) (hn : Clean m) (hc : c ≠ '\x00' ∧ c ≠ '\r' ∧ c ≠ '&' ∧ c ≠ '<') :
    ∃ m', step o m (c :: rest) = .cont m' rest ∧ Ctl m' .data ∧ Clean m' ∧ m'.out = .chars [c] :: m.out := by
  obtain ⟨h1, h2, h3, h4⟩ := hc
  obtain ⟨s1, s2, s3, s4, s5⟩ := h
  obtain ⟨n1, n2, n3⟩ := hn
  refine ⟨emitChars m [c], ?_, ?_, ?_, ?_⟩
  · rw [step_set_plain o ho m c rest s2 (by rw [s1]; rfl) s3 s4 (by simp [s1, setOf, h1, h2, h3, h4])]
    simp [transSet, s1, ofSig]
  · constructor <;> mach_simp
  · constructor <;> mach_simp
  · mach_simp

theorem data_lt (o : Opts) (ho : o.exactErrors = false) (m : Mach) (rest : Str)
    (h : Ctl m .data) (hn : Clean m) :
    ∃ m', step o m ('<' :: rest) = .cont m' rest ∧ Ctl m' .tagState ∧ Clean m' ∧ m'.out = m.out := by
  obtain ⟨s1, s2, s3, s4, s5⟩ := h
  obtain ⟨n1, n2, n3⟩ := hn
  refine ⟨to .tagState (m.setCurrentChar '<'), ?_, ?_, ?_, ?_⟩
  · rw [step_set_from o ho m '<' rest s2 (by rw [s1]; rfl) s3 s4 (by simp [s1, setOf]) (by decide) (by decide)]
    simp [transSet, s1, ofSig]
  · constructor <;> mach_simp
  · constructor <;> mach_simp
  · mach_simp

theorem data_amp (o : Opts) (ho : o.exactErrors = false) (m : Mach) (rest : Str)
    (h : Ctl m .data) (hn : Clean m) :
    ∃ m', step o m ('&' :: rest) = .cont m' rest ∧ CRCtl m' .data { addnlAllowed := none } ∧ Clean m' ∧
      m'.out = m.out := by
  obtain ⟨s1, s2, s3, s4, s5⟩ := h
  obtain ⟨n1, n2, n3⟩ := hn
  refine ⟨consumeCharRef none (m.setCurrentChar '&'), ?_, ?_, ?_, ?_⟩
  · rw [step_set_from o ho m '&' rest s2 (by rw [s1]; rfl) s3 s4 (by simp [s1, setOf]) (by decide) (by decide)]
    simp [transSet, s1, ofSig]
  · constructor <;> mach_simp
  · constructor <;> mach_simp
  · mach_simp

/-! ### tags -/

theorem tag_first (o : Opts) (ho : o.exactErrors = false) (m : Mach) (c : Char) (rest : Str)
    (h : Ctl m .tagState) (hn : Clean m) (hc : NmCh c) (hc' : c ≠ '!' ∧ c ≠ '?' ∧ c ≠ ':' ∧ c ≠ '<') :
    ∃ m', step o m (c :: rest) = .cont m' rest ∧ Ctl m' .tagName ∧ Regs m' .startTag [c] [] [] [] ∧
      m'.out = m.out := by
  obtain ⟨c1, c2, c3, c4, c5, c6, c7⟩ := hc
  obtain ⟨d1, d2, d3, d4⟩ := hc'
  obtain ⟨s1, s2, s3, s4, s5⟩ := h
  obtain ⟨n1, n2, n3⟩ := hn
  refine ⟨to .tagName (createTag .startTag c (m.setCurrentChar c)), ?_, ?_, ?_, ?_⟩
  · rw [step_char o ho m c rest s2 (by rw [s1]; rfl) s3 s4 c6 c7]
    simp [transChar, s1, ofSig, c1, c2, c3, c4, c5, d1, d2, d3, d4]
  · constructor <;> mach_simp
  · constructor <;> mach_simp
  · mach_simp

theorem tag_slash (o : Opts) (ho : o.exactErrors = false) (m : Mach) (rest : Str)
    (h : Ctl m .tagState) (hn : Clean m) :
    ∃ m', step o m ('/' :: rest) = .cont m' rest ∧ Ctl m' .endTagState ∧ Clean m' ∧ m'.out = m.out := by
  obtain ⟨s1, s2, s3, s4, s5⟩ := h
  obtain ⟨n1, n2, n3⟩ := hn
  refine ⟨to .endTagState (m.setCurrentChar '/'), ?_, ?_, ?_, ?_⟩
  · rw [step_char o ho m '/' rest s2 (by rw [s1]; rfl) s3 s4 (by decide) (by decide)]
    simp [transChar, s1, ofSig]
  · constructor <;> mach_simp
  · constructor <;> mach_simp
  · mach_simp

theorem tag_bang (o : Opts) (ho : o.exactErrors = false) (m : Mach) (rest : Str)
    (h : Ctl m .tagState) (hn : Clean m) :
    ∃ m', step o m ('!' :: rest) = .cont m' rest ∧ Ctl m' .markupDecl ∧ Clean m' ∧ m'.out = m.out := by
  obtain ⟨s1, s2, s3, s4, s5⟩ := h
  obtain ⟨n1, n2, n3⟩ := hn
  refine ⟨to .markupDecl (m.setCurrentChar '!'), ?_, ?_, ?_, ?_⟩
  · rw [step_char o ho m '!' rest s2 (by rw [s1]; rfl) s3 s4 (by decide) (by decide)]
    simp [transChar, s1, ofSig]
  · constructor <;> mach_simp
  · constructor <;> mach_simp
  · mach_simp

theorem tag_q (o : Opts) (ho : o.exactErrors = false) (m : Mach) (rest : Str)
    (h : Ctl m .tagState) (hn : Clean m) :
    ∃ m', step o m ('?' :: rest) = .cont m' rest ∧ Ctl m' .pi ∧ Clean m' ∧ m'.out = m.out := by
  obtain ⟨s1, s2, s3, s4, s5⟩ := h
  obtain ⟨n1, n2, n3⟩ := hn
  refine ⟨to .pi (m.setCurrentChar '?'), ?_, ?_, ?_, ?_⟩
  · rw [step_char o ho m '?' rest s2 (by rw [s1]; rfl) s3 s4 (by decide) (by decide)]
    simp [transChar, s1, ofSig]
  · constructor <;> mach_simp
  · constructor <;> mach_simp
  · mach_simp

theorem etag_first (o : Opts) (ho : o.exactErrors = false) (m : Mach) (c : Char) (rest : Str)
    (h : Ctl m .endTagState) (hn : Clean m) (hc : NmCh c) (hc' : c ≠ ':' ∧ c ≠ '<') :
    ∃ m', step o m (c :: rest) = .cont m' rest ∧ Ctl m' .endTagName ∧ Regs m' .endTag [c] [] [] [] ∧
      m'.out = m.out := by
  obtain ⟨c1, c2, c3, c4, c5, c6, c7⟩ := hc
  obtain ⟨d3, d4⟩ := hc'
  obtain ⟨s1, s2, s3, s4, s5⟩ := h
  obtain ⟨n1, n2, n3⟩ := hn
  refine ⟨to .endTagName (createTag .endTag c (m.setCurrentChar c)), ?_, ?_, ?_, ?_⟩
  · rw [step_char o ho m c rest s2 (by rw [s1]; rfl) s3 s4 c6 c7]
    simp [transChar, s1, ofSig, c1, c2, c3, c5, d3, d4]
  · constructor <;> mach_simp
  · constructor <;> mach_simp
  · mach_simp

/-- a name character in the tag-name state of a start tag or of an end tag -/
theorem name_push (o : Opts) (ho : o.exactErrors = false) (m : Mach) (c : Char) (rest : Str) (st : State)
    (hst : st = .tagName ∨ st = .endTagName)
    (k : TagKind) (nm : Str) (as : List Attr) (an av : Str)
    (h : Ctl m st) (hr : Regs m k nm as an av) (hc : NmCh c) :
    ∃ m', step o m (c :: rest) = .cont m' rest ∧ Ctl m' st ∧ Regs m' k (nm ++ [c]) as an av ∧
      m'.out = m.out := by
  obtain ⟨c1, c2, c3, c4, c5, c6, c7⟩ := hc
  obtain ⟨s1, s2, s3, s4, s5⟩ := h
  obtain ⟨r1, r2, r3, r4, r5, r6⟩ := hr
  refine ⟨pushTag c (m.setCurrentChar c), ?_, ?_, ?_, ?_⟩
  · rcases hst with rfl | rfl
    · rw [step_char o ho m c rest s2 (by rw [s1]; rfl) s3 s4 c6 c7]
      simp [transChar, s1, ofSig, isWs3, c1, c2, c3, c4, c5]
    · rw [step_char o ho m c rest s2 (by rw [s1]; rfl) s3 s4 c6 c7]
      simp [transChar, s1, ofSig, isWs3, c1, c2, c3, c4, c5]
  · constructor <;> mach_simp
  · constructor <;> mach_simp
  · mach_simp

theorem tagName_sp (o : Opts) (ho : o.exactErrors = false) (m : Mach) (rest : Str)
    (k : TagKind) (nm : Str) (as : List Attr) (an av : Str)
    (h : Ctl m .tagName) (hr : Regs m k nm as an av) :
    ∃ m', step o m (' ' :: rest) = .cont m' rest ∧ Ctl m' .tagAttrNameBefore ∧ Regs m' k nm as an av ∧
      m'.out = m.out := by
  obtain ⟨s1, s2, s3, s4, s5⟩ := h
  obtain ⟨r1, r2, r3, r4, r5, r6⟩ := hr
  refine ⟨to .tagAttrNameBefore (m.setCurrentChar ' '), ?_, ?_, ?_, ?_⟩
  · rw [step_char o ho m ' ' rest s2 (by rw [s1]; rfl) s3 s4 (by decide) (by decide)]
    simp [transChar, s1, ofSig, isWs3]
  · constructor <;> mach_simp
  · constructor <;> mach_simp
  · mach_simp

/-- what `finish_attribute` does, register by register -/
structure FA (m m1 : Mach) : Prop where
  st : m1.state = m.state
  cr : m1.charRef = m.charRef
  rc : m1.reconsume = m.reconsume
  ilf : m1.ignoreLf = m.ignoreLf
  tb : m1.tempBuf = m.tempBuf
  kind : m1.tagKind = m.tagKind
  name : m1.tagName = m.tagName
  dt : m1.doctype = m.doctype
  attrs : m1.tagAttrs = finAttr m.tagAttrs m.attrName m.attrValue
  an : m1.attrName = []
  av : m1.attrValue = if m.attrName.isEmpty then m.attrValue else []
  out : cvOut m1.out = cvOut m.out

theorem finishAttribute_fa (m : Mach) : FA m (finishAttribute m) := by
  rw [finishAttribute_eq]
  by_cases h1 : m.attrName.isEmpty = true
  · simp only [h1, if_true]
    have : m.attrName = [] := by simpa using h1
    constructor <;> simp [finAttr, this]
  · simp only [h1, Bool.false_eq_true, if_false]
    refine ⟨rfl, rfl, rfl, rfl, rfl, rfl, rfl, rfl, rfl, rfl, ?_, ?_⟩
    · simp [h1]
    · show cvOut (if _ then _ else _) = _
      split
      · rw [cvOut_err]
      · rfl

theorem emitCurrentTag_eq (m : Mach)
    (hk : m.tagKind = .startTag ∨ (m.tagKind = .endTag ∧ finAttr m.tagAttrs m.attrName m.attrValue = [])) :
    emitCurrentTag m =
      emit { finishAttribute m with tagName := [], tagAttrs := [] }
        (.tag ⟨m.tagKind, processQName m.tagName, finAttr m.tagAttrs m.attrName m.attrValue⟩) := by
  have fa := finishAttribute_fa m
  unfold emitCurrentTag
  generalize finishAttribute m = m1 at fa ⊢
  obtain ⟨f1, f2, f3, f4, f5, f6, f7, f8, f9, f10, f11, f12⟩ := fa
  rcases hk with hk | ⟨hk, he⟩
  · simp only [f6, hk, f7, f9]
  · simp only [f6, hk, f7, f9, he, List.isEmpty_nil, Bool.not_true, Bool.false_eq_true, if_false]

/-- `>` in one of the states that emit the current tag -/
theorem tag_emit (o : Opts) (ho : o.exactErrors = false) (m : Mach) (rest : Str) (st : State)
    (hst : st = .tagName ∨ st = .endTagName ∨ st = .tagAttrNameBefore)
    (k : TagKind) (nm : Str) (as : List Attr) (an av : Str)
    (h : Ctl m st) (hr : Regs m k nm as an av) (hav : an = [] → av = [])
    (hk : k = .startTag ∨ (k = .endTag ∧ finAttr as an av = [])) :
    ∃ m', step o m ('>' :: rest) = .cont m' rest ∧ Ctl m' .data ∧ Clean m' ∧
      cvOut m'.out = cvOut m.out ++
        [.tag ⟨cvKind k, cvName (processQName nm), (finAttr as an av).map cvAttr⟩] := by
  obtain ⟨s1, s2, s3, s4, s5⟩ := h
  obtain ⟨r1, r2, r3, r4, r5, r6⟩ := hr
  have hstep : step o m ('>' :: rest) = .cont (emitTag .data (m.setCurrentChar '>')) rest := by
    rcases hst with rfl | rfl | rfl
    · rw [step_char o ho m '>' rest s2 (by rw [s1]; rfl) s3 s4 (by decide) (by decide)]
      simp [transChar, s1, ofSig, isWs3]
    · rw [step_char o ho m '>' rest s2 (by rw [s1]; rfl) s3 s4 (by decide) (by decide)]
      simp [transChar, s1, ofSig, isWs3]
    · rw [step_char o ho m '>' rest s2 (by rw [s1]; rfl) s3 s4 (by decide) (by decide)]
      simp [transChar, s1, ofSig, isWs3]
  refine ⟨emitTag .data (m.setCurrentChar '>'), hstep, ?_⟩
  have hk' : (to .data (m.setCurrentChar '>')).tagKind = .startTag ∨
      ((to .data (m.setCurrentChar '>')).tagKind = .endTag ∧
        finAttr (to .data (m.setCurrentChar '>')).tagAttrs (to .data (m.setCurrentChar '>')).attrName
          (to .data (m.setCurrentChar '>')).attrValue = []) := by
    simpa [to, Mach.setCurrentChar, r1, r3, r4, r5] using hk
  unfold emitTag
  rw [emitCurrentTag_eq _ hk']
  have fa := finishAttribute_fa (to .data (m.setCurrentChar '>'))
  generalize finishAttribute (to .data (m.setCurrentChar '>')) = m1 at fa ⊢
  obtain ⟨f1, f2, f3, f4, f5, f6, f7, f8, f9, f10, f11, f12⟩ := fa
  have e1 : (to .data (m.setCurrentChar '>')).attrName = an := by simp [to, Mach.setCurrentChar, r4]
  have e2 : (to .data (m.setCurrentChar '>')).attrValue = av := by simp [to, Mach.setCurrentChar, r5]
  refine ⟨?_, ?_, ?_⟩
  · constructor
    · simp [emit, f1, to]
    · simp [emit, f2, to, Mach.setCurrentChar, s2]
    · simp [emit, f3, to, Mach.setCurrentChar, s3]
    · simp [emit, f4, to, Mach.setCurrentChar, s4]
    · simp [emit, f5, to, Mach.setCurrentChar, s5]
  · constructor
    · simp [emit, f10]
    · simp only [emit, f11, e1, e2]
      by_cases ha : an = []
      · simp [ha, hav ha]
      · have : an.isEmpty = false := by cases an <;> simp_all
        simp [this]
    · simp [emit, f8, to, Mach.setCurrentChar, r6]
  · simp only [emit]
    rw [cvOut_cons, f12]
    simp [cvOut, cvTok, to, Mach.setCurrentChar, r1, r2, r3, r4, r5]

/-! ### attributes -/

theorem anb_sp (o : Opts) (ho : o.exactErrors = false) (m : Mach) (rest : Str)
    (k : TagKind) (nm : Str) (as : List Attr) (an av : Str)
    (h : Ctl m .tagAttrNameBefore) (hr : Regs m k nm as an av) :
    ∃ m', step o m (' ' :: rest) = .cont m' rest ∧ Ctl m' .tagAttrNameBefore ∧ Regs m' k nm as an av ∧
      m'.out = m.out := by
  obtain ⟨s1, s2, s3, s4, s5⟩ := h
  obtain ⟨r1, r2, r3, r4, r5, r6⟩ := hr
  refine ⟨m.setCurrentChar ' ', ?_, ?_, ?_, ?_⟩
  · rw [step_char o ho m ' ' rest s2 (by rw [s1]; rfl) s3 s4 (by decide) (by decide)]
    simp [transChar, s1, ofSig, isWs3]
  · constructor <;> mach_simp
  · constructor <;> mach_simp
  · mach_simp

/-- first character of an attribute name: the pending attribute (if any) is finished -/
theorem anb_first (o : Opts) (ho : o.exactErrors = false) (m : Mach) (c : Char) (rest : Str)
    (k : TagKind) (nm : Str) (as : List Attr) (an av : Str)
    (h : Ctl m .tagAttrNameBefore) (hr : Regs m k nm as an av) (hav : an = [] → av = [])
    (hc : NmCh c) (hc' : c ≠ ':') :
    ∃ m', step o m (c :: rest) = .cont m' rest ∧ Ctl m' .tagAttrName ∧
      Regs m' k nm (finAttr as an av) [c] [] ∧ cvOut m'.out = cvOut m.out := by
  obtain ⟨c1, c2, c3, c4, c5, c6, c7⟩ := hc
  obtain ⟨s1, s2, s3, s4, s5⟩ := h
  obtain ⟨r1, r2, r3, r4, r5, r6⟩ := hr
  refine ⟨to .tagAttrName (createAttr c (m.setCurrentChar c)), ?_, ?_⟩
  · rw [step_char o ho m c rest s2 (by rw [s1]; rfl) s3 s4 c6 c7]
    simp [transChar, s1, ofSig, isWs3, c1, c2, c3, c4, c5, hc']
  unfold createAttr
  have fa := finishAttribute_fa (m.setCurrentChar c)
  generalize finishAttribute (m.setCurrentChar c) = m1 at fa ⊢
  obtain ⟨f1, f2, f3, f4, f5, f6, f7, f8, f9, f10, f11, f12⟩ := fa
  refine ⟨?_, ?_, ?_⟩
  · constructor
    · simp [to]
    · simp [to, f2, Mach.setCurrentChar, s2]
    · simp [to, f3, Mach.setCurrentChar, s3]
    · simp [to, f4, Mach.setCurrentChar, s4]
    · simp [to, f5, Mach.setCurrentChar, s5]
  · constructor
    · simp [to, f6, Mach.setCurrentChar, r1]
    · simp [to, f7, Mach.setCurrentChar, r2]
    · simp [to, f9, Mach.setCurrentChar, r3, r4, r5]
    · simp [to, f10]
    · simp only [to, f11]
      by_cases ha : an = []
      · simp [Mach.setCurrentChar, r4, r5, ha, hav ha]
      · have : an.isEmpty = false := by cases an <;> simp_all
        simp [Mach.setCurrentChar, r4, this]
    · simp [to, f8, Mach.setCurrentChar, r6]
  · simp only [to]
    rw [f12]; rfl

theorem an_push (o : Opts) (ho : o.exactErrors = false) (m : Mach) (c : Char) (rest : Str)
    (k : TagKind) (nm : Str) (as : List Attr) (an av : Str)
    (h : Ctl m .tagAttrName) (hr : Regs m k nm as an av) (hc : NmCh c) (hc' : c ≠ '=') :
    ∃ m', step o m (c :: rest) = .cont m' rest ∧ Ctl m' .tagAttrName ∧ Regs m' k nm as (an ++ [c]) av ∧
      m'.out = m.out := by
  obtain ⟨c1, c2, c3, c4, c5, c6, c7⟩ := hc
  obtain ⟨s1, s2, s3, s4, s5⟩ := h
  obtain ⟨r1, r2, r3, r4, r5, r6⟩ := hr
  refine ⟨pushName c (m.setCurrentChar c), ?_, ?_, ?_, ?_⟩
  · rw [step_char o ho m c rest s2 (by rw [s1]; rfl) s3 s4 c6 c7]
    simp [transChar, s1, ofSig, isWs3, c1, c2, c3, c4, c5, hc']
  · constructor <;> mach_simp
  · constructor <;> mach_simp
  · mach_simp

theorem an_eq (o : Opts) (ho : o.exactErrors = false) (m : Mach) (rest : Str)
    (k : TagKind) (nm : Str) (as : List Attr) (an av : Str)
    (h : Ctl m .tagAttrName) (hr : Regs m k nm as an av) :
    ∃ m', step o m ('=' :: rest) = .cont m' rest ∧ Ctl m' .tagAttrValueBefore ∧ Regs m' k nm as an av ∧
      m'.out = m.out := by
  obtain ⟨s1, s2, s3, s4, s5⟩ := h
  obtain ⟨r1, r2, r3, r4, r5, r6⟩ := hr
  refine ⟨to .tagAttrValueBefore (m.setCurrentChar '='), ?_, ?_, ?_, ?_⟩
  · rw [step_char o ho m '=' rest s2 (by rw [s1]; rfl) s3 s4 (by decide) (by decide)]
    simp [transChar, s1, ofSig]
  · constructor <;> mach_simp
  · constructor <;> mach_simp
  · mach_simp

theorem avb_quote (o : Opts) (ho : o.exactErrors = false) (m : Mach) (rest : Str)
    (k : TagKind) (nm : Str) (as : List Attr) (an av : Str)
    (h : Ctl m .tagAttrValueBefore) (hr : Regs m k nm as an av) :
    ∃ m', step o m ('"' :: rest) = .cont m' rest ∧ Ctl m' (.tagAttrValue .doubleQuoted) ∧ Regs m' k nm as an av ∧
      m'.out = m.out := by
  obtain ⟨s1, s2, s3, s4, s5⟩ := h
  obtain ⟨r1, r2, r3, r4, r5, r6⟩ := hr
  refine ⟨to (.tagAttrValue .doubleQuoted) (m.setCurrentChar '"'), ?_, ?_, ?_, ?_⟩
  · rw [step_char o ho m '"' rest s2 (by rw [s1]; rfl) s3 s4 (by decide) (by decide)]
    simp [transChar, s1, ofSig, isWs3]
  · constructor <;> mach_simp
  · constructor <;> mach_simp
  · mach_simp

theorem val_plain (o : Opts) (ho : o.exactErrors = false) (m : Mach) (c : Char) (rest : Str)
    (k : TagKind) (nm : Str) (as : List Attr) (an av : Str)
    (h : Ctl m (.tagAttrValue .doubleQuoted)) (hr : Regs m k nm as an av)
    (hc : c ≠ '\x00' ∧ c ≠ '\r' ∧ c ≠ '"' ∧ c ≠ '&') :
    ∃ m', step o m (c :: rest) = .cont m' rest ∧ Ctl m' (.tagAttrValue .doubleQuoted) ∧
      Regs m' k nm as an (av ++ [c]) ∧ m'.out = m.out := by
  obtain ⟨h1, h2, h3, h4⟩ := hc
  obtain ⟨s1, s2, s3, s4, s5⟩ := h
  obtain ⟨r1, r2, r3, r4, r5, r6⟩ := hr
  by_cases h5 : c = '\n'
  · subst h5
    refine ⟨pushValue '\n' (m.setCurrentChar '\n'), ?_, ?_, ?_, ?_⟩
    · rw [step_set_from o ho m '\n' rest s2 (by rw [s1]; rfl) s3 s4 (by simp [s1, setOf]) (by decide) (by decide)]
      simp [transSet, s1, ofSig]
    · constructor <;> mach_simp
    · constructor <;> mach_simp
    · mach_simp
  · refine ⟨appendValue [c] m, ?_, ?_, ?_, ?_⟩
    · rw [step_set_plain o ho m c rest s2 (by rw [s1]; rfl) s3 s4 (by simp [s1, setOf, h1, h2, h3, h4, h5])]
      simp [transSet, s1, ofSig]
    · constructor <;> mach_simp
    · constructor <;> mach_simp
    · mach_simp

theorem val_amp (o : Opts) (ho : o.exactErrors = false) (m : Mach) (rest : Str)
    (k : TagKind) (nm : Str) (as : List Attr) (an av : Str)
    (h : Ctl m (.tagAttrValue .doubleQuoted)) (hr : Regs m k nm as an av) :
    ∃ m', step o m ('&' :: rest) = .cont m' rest ∧
      CRCtl m' (.tagAttrValue .doubleQuoted) { addnlAllowed := some '"' } ∧ Regs m' k nm as an av ∧
      m'.out = m.out := by
  obtain ⟨s1, s2, s3, s4, s5⟩ := h
  obtain ⟨r1, r2, r3, r4, r5, r6⟩ := hr
  refine ⟨consumeCharRef (some '"') (m.setCurrentChar '&'), ?_, ?_, ?_, ?_⟩
  · rw [step_set_from o ho m '&' rest s2 (by rw [s1]; rfl) s3 s4 (by simp [s1, setOf]) (by decide) (by decide)]
    simp [transSet, s1, ofSig]
  · constructor <;> mach_simp
  · constructor <;> mach_simp
  · mach_simp

theorem val_quote (o : Opts) (ho : o.exactErrors = false) (m : Mach) (rest : Str)
    (k : TagKind) (nm : Str) (as : List Attr) (an av : Str)
    (h : Ctl m (.tagAttrValue .doubleQuoted)) (hr : Regs m k nm as an av) :
    ∃ m', step o m ('"' :: rest) = .cont m' rest ∧ Ctl m' .tagAttrNameBefore ∧ Regs m' k nm as an av ∧
      m'.out = m.out := by
  obtain ⟨s1, s2, s3, s4, s5⟩ := h
  obtain ⟨r1, r2, r3, r4, r5, r6⟩ := hr
  refine ⟨to .tagAttrNameBefore (m.setCurrentChar '"'), ?_, ?_, ?_, ?_⟩
  · rw [step_set_from o ho m '"' rest s2 (by rw [s1]; rfl) s3 s4 (by simp [s1, setOf]) (by decide) (by decide)]
    simp [transSet, s1, ofSig]
  · constructor <;> mach_simp
  · constructor <;> mach_simp
  · mach_simp

/-! ### delivery of a character reference -/

theorem cr_finish_data (o : Opts) (ho : o.exactErrors = false) (m : Mach) (x : Char) (rest : Str)
    (cr : CharRefSt) (nm : Str) (v : Nat)
    (h : CRCtl m .data cr) (hn : Clean m) (hd : CRDone cr nm v) (hr : RefOk nm v)
    (h1 : x ≠ '\r') (h2 : x ≠ '\x00') :
    ∃ m', step o m (x :: rest) = .cont m' (x :: rest) ∧ Ctl m' .data ∧ Clean m' ∧
      m'.out = .chars [Char.ofNat v] :: m.out := by
  have hs := cr_finish_step o ho m x rest _ cr nm v h hd hr.ne hr.semi hr.valid (hr.none x) h1 h2
  obtain ⟨s1, s2, s3, s4, s5⟩ := h
  obtain ⟨n1, n2, n3⟩ := hn
  have hz := hr.nz
  refine ⟨(emitChar (m.setCurrentChar x) (Char.ofNat v)).setCharRef none, ?_, ?_, ?_, ?_⟩
  · rw [hs]; simp [processCharRef, s1, ofSig]
  · constructor <;> mach_simp
  · constructor <;> mach_simp
  · mach_simp

theorem cr_finish_attr (o : Opts) (ho : o.exactErrors = false) (m : Mach) (x : Char) (rest : Str)
    (cr : CharRefSt) (nm : Str) (v : Nat) (k : TagKind) (tn : Str) (as : List Attr) (an av : Str)
    (h : CRCtl m (.tagAttrValue .doubleQuoted) cr) (hg : Regs m k tn as an av) (hd : CRDone cr nm v)
    (hr : RefOk nm v) (h1 : x ≠ '\r') (h2 : x ≠ '\x00') :
    ∃ m', step o m (x :: rest) = .cont m' (x :: rest) ∧ Ctl m' (.tagAttrValue .doubleQuoted) ∧
      Regs m' k tn as an (av ++ [Char.ofNat v]) ∧ m'.out = m.out := by
  have hs := cr_finish_step o ho m x rest _ cr nm v h hd hr.ne hr.semi hr.valid (hr.none x) h1 h2
  obtain ⟨s1, s2, s3, s4, s5⟩ := h
  obtain ⟨r1, r2, r3, r4, r5, r6⟩ := hg
  refine ⟨(pushValue (Char.ofNat v) (m.setCurrentChar x)).setCharRef none, ?_, ?_, ?_, ?_⟩
  · rw [hs]; simp [processCharRef, s1, ofSig]
  · constructor <;> mach_simp
  · constructor <;> mach_simp
  · mach_simp

theorem cr_num13_data (o : Opts) (ho : o.exactErrors = false) (m : Mach) (rest : Str) (a : Option Char)
    (h : CRCtl m .data (crNum13 a)) (hn : Clean m) :
    ∃ m', step o m (';' :: rest) = .cont m' rest ∧ Ctl m' .data ∧ Clean m' ∧
      cvOut m'.out = cvOut m.out ++ [.chars ['\r']] := by
  have hs := cr_num13_finish o ho m rest _ a h
  obtain ⟨s1, s2, s3, s4, s5⟩ := h
  obtain ⟨n1, n2, n3⟩ := hn
  refine ⟨(emitChar (emitErr (m.setCurrentChar ';') "Invalid numeric character reference") '\r').setCharRef none,
    ?_, ?_, ?_, ?_⟩
  · rw [hs]; simp [processCharRef, s1, ofSig]
  · constructor <;> mach_simp
  · constructor <;> mach_simp
  · simp only [emitChar, emit, emitErr, Mach.setCharRef, Mach.setCurrentChar]
    rw [cvOut_cons, cvOut_err]
    simp [cvTok]

theorem cr_num13_attr (o : Opts) (ho : o.exactErrors = false) (m : Mach) (rest : Str) (a : Option Char)
    (k : TagKind) (tn : Str) (as : List Attr) (an av : Str)
    (h : CRCtl m (.tagAttrValue .doubleQuoted) (crNum13 a)) (hg : Regs m k tn as an av) :
    ∃ m', step o m (';' :: rest) = .cont m' rest ∧ Ctl m' (.tagAttrValue .doubleQuoted) ∧
      Regs m' k tn as an (av ++ ['\r']) ∧ cvOut m'.out = cvOut m.out := by
  have hs := cr_num13_finish o ho m rest _ a h
  obtain ⟨s1, s2, s3, s4, s5⟩ := h
  obtain ⟨r1, r2, r3, r4, r5, r6⟩ := hg
  refine ⟨(pushValue '\r' (emitErr (m.setCurrentChar ';') "Invalid numeric character reference")).setCharRef none,
    ?_, ?_, ?_, ?_⟩
  · rw [hs]; simp [processCharRef, s1, ofSig]
  · constructor <;> mach_simp
  · constructor <;> mach_simp
  · simp only [pushValue, emit, emitErr, Mach.setCharRef, Mach.setCurrentChar]
    rw [cvOut_err]

/-! ### end of input -/

theorem data_suspend (o : Opts) (ho : o.exactErrors = false) (m : Mach) (h : Ctl m .data) :
    step o m [] = .suspend m [] := by
  obtain ⟨s1, s2, s3, s4, s5⟩ := h
  simp [step, s2, s1, readKind, popExceptFrom, ho, s3, s4]

end H5V.Lemmas.XmlRT
