import H5V.Lemmas.HtmlTokSpecStep1
import H5V.Lemmas.HtmlTokSpecLag
import H5V.Lemmas.HtmlTokSpecTabTag
import H5V.Lemmas.HtmlTokSpecTabRaw
import H5V.Lemmas.HtmlTokSpecTabComment
import H5V.Lemmas.HtmlTokSpecTabDoctype
import H5V.Lemmas.HtmlTokSpecLook2
import H5V.Lemmas.HtmlTokSpecCRNum
import H5V.Lemmas.HtmlTokSpecCRNamed
/-!
# C01 simulation — the step theorem: one `Tokenizer::step` of the model against `k ≥ 0` steps of the
WHATWG tokenization algorithm, for every configuration in the relation
-/
set_option linter.unusedSimpArgs false
set_option linter.unusedVariables false
namespace H5V.Lemmas.HtmlTokSpec
open H5V.Model.HtmlTok
open H5V.Spec.HtmlTokenizer (St Tok Emit Tree Switch Ctl ReturnSt normalizeNewlinesFrom normalizeNewlines)

/-- the table lemma for every state read with `get_char!` -/
theorem tab_getChar (o : Opts) (ho : o.exactErrors = false) (pol : Pol) (tree : Tree) (hpt : PolTree pol tree)
    (m : Mach) (t : Tok) (c : Char) (rest : Str) (h : RegCore m t) (hr : m.reconsume = false)
    (hrk : readKind m.state = .getChar) : TabOk tree t c rest (transChar o pol m c) := by
  cases hs : m.state with
  | tagOpen => exact tab_tagOpen o ho pol tree m t c rest h hr hs
  | endTagOpen => exact tab_endTagOpen o ho pol tree m t c rest h hr hs
  | tagName => exact tab_tagName o ho pol tree hpt m t c rest h hr hs
  | beforeAttributeName => exact tab_beforeAttributeName o ho pol tree hpt m t c rest h hr hs
  | attributeName => exact tab_attributeName o ho pol tree hpt m t c rest h hr hs
  | afterAttributeName => exact tab_afterAttributeName o ho pol tree hpt m t c rest h hr hs
  | afterAttributeValueQuoted => exact tab_afterAttributeValueQuoted o ho pol tree hpt m t c rest h hr hs
  | selfClosingStartTag => exact tab_selfClosingStartTag o ho pol tree hpt m t c rest h hr hs
  | rawLessThanSign k => exact tab_raw o ho pol tree hpt m t c rest h hr (Or.inl ⟨k, hs⟩)
  | rawEndTagOpen k => exact tab_raw o ho pol tree hpt m t c rest h hr (Or.inr (Or.inl ⟨k, hs⟩))
  | rawEndTagName k => exact tab_raw o ho pol tree hpt m t c rest h hr (Or.inr (Or.inr (Or.inl ⟨k, hs⟩)))
  | scriptDataEscapeStart k =>
    exact tab_raw o ho pol tree hpt m t c rest h hr (Or.inr (Or.inr (Or.inr (Or.inl ⟨k, hs⟩))))
  | scriptDataEscapeStartDash =>
    exact tab_raw o ho pol tree hpt m t c rest h hr (Or.inr (Or.inr (Or.inr (Or.inr (Or.inl hs)))))
  | scriptDataEscapedDash k =>
    exact tab_raw o ho pol tree hpt m t c rest h hr (Or.inr (Or.inr (Or.inr (Or.inr (Or.inr (Or.inl ⟨k, hs⟩))))))
  | scriptDataEscapedDashDash k =>
    exact tab_raw o ho pol tree hpt m t c rest h hr
      (Or.inr (Or.inr (Or.inr (Or.inr (Or.inr (Or.inr (Or.inl ⟨k, hs⟩)))))))
  | scriptDataDoubleEscapeEnd =>
    exact tab_raw o ho pol tree hpt m t c rest h hr
      (Or.inr (Or.inr (Or.inr (Or.inr (Or.inr (Or.inr (Or.inr hs)))))))
  | commentStart => exact tab_comment_cdata o ho pol tree m t c rest h hr (by simp [hs])
  | commentStartDash => exact tab_comment_cdata o ho pol tree m t c rest h hr (by simp [hs])
  | comment => exact tab_comment_cdata o ho pol tree m t c rest h hr (by simp [hs])
  | commentLessThanSign => exact tab_comment_cdata o ho pol tree m t c rest h hr (by simp [hs])
  | commentLessThanSignBang => exact tab_comment_cdata o ho pol tree m t c rest h hr (by simp [hs])
  | commentLessThanSignBangDash => exact tab_comment_cdata o ho pol tree m t c rest h hr (by simp [hs])
  | commentLessThanSignBangDashDash => exact tab_comment_cdata o ho pol tree m t c rest h hr (by simp [hs])
  | commentEndDash => exact tab_comment_cdata o ho pol tree m t c rest h hr (by simp [hs])
  | commentEnd => exact tab_comment_cdata o ho pol tree m t c rest h hr (by simp [hs])
  | commentEndBang => exact tab_comment_cdata o ho pol tree m t c rest h hr (by simp [hs])
  | bogusComment => exact tab_comment_cdata o ho pol tree m t c rest h hr (by simp [hs])
  | cdataSection => exact tab_comment_cdata o ho pol tree m t c rest h hr (by simp [hs])
  | cdataSectionBracket => exact tab_comment_cdata o ho pol tree m t c rest h hr (by simp [hs])
  | cdataSectionEnd => exact tab_comment_cdata o ho pol tree m t c rest h hr (by simp [hs])
  | doctype => exact tab_doctype o ho pol tree m t c rest h hr (by simp [hs])
  | beforeDoctypeName => exact tab_doctype o ho pol tree m t c rest h hr (by simp [hs])
  | doctypeName => exact tab_doctype o ho pol tree m t c rest h hr (by simp [hs])
  | afterDoctypeKeyword k => exact tab_doctype o ho pol tree m t c rest h hr (by simp [hs])
  | beforeDoctypeIdentifier k => exact tab_doctype o ho pol tree m t c rest h hr (by simp [hs])
  | doctypeIdentifierDoubleQuoted k => exact tab_doctype o ho pol tree m t c rest h hr (by simp [hs])
  | doctypeIdentifierSingleQuoted k => exact tab_doctype o ho pol tree m t c rest h hr (by simp [hs])
  | afterDoctypeIdentifier k => exact tab_doctype o ho pol tree m t c rest h hr (by simp [hs])
  | betweenDoctypePublicAndSystemIdentifiers => exact tab_doctype o ho pol tree m t c rest h hr (by simp [hs])
  | bogusDoctype => exact tab_doctype o ho pol tree m t c rest h hr (by simp [hs])
  | _ => rw [hs] at hrk; simp [readKind] at hrk

/-- **step lemma, `get_char!` states** -/
theorem step_getChar_sim (o : Opts) (ho : o.exactErrors = false) (pol : Pol) (tree : Tree)
    (hpt : PolTree pol tree) (m : Mach) (inp : Str) (t : Tok) (rest : Str) (h : RelCore m inp t rest)
    (hcr : m.charRef = none) (hrk : readKind m.state = .getChar) :
    StepOk tree t rest (step o pol m inp) := by
  have hf := readKind_getChar_facts hrk
  have hne : m.state ≠ .markupDeclarationOpen ∧ m.state ≠ .afterDoctypeName := ⟨hf.1, hf.2.2⟩
  have hst := stash_nil_of_state hcr hne
  have hreg := h.regCore hcr
  have hstep := step_getChar o pol m inp hcr hrk
  cases hg : getChar o m inp with
  | mk oc r2 =>
    obtain ⟨m1, inp1⟩ := r2
    rw [hg] at hstep
    cases oc with
    | none =>
      obtain ⟨_, _, _, _, hin1, il, hm1⟩ := getChar_none_rel o m inp m1 inp1 hg hst rest h.inp
      have hs' : step o pol m inp = .suspend m1 inp1 := by rw [hstep]; rfl
      have htinv : TInv m1 := step_tinv o pol m inp h.tinv m1 inp1 (by rw [hs']; rfl)
      rw [hs', stepOk_suspend]
      refine (RelCore.ofRegCore ?_ hin1 htinv).toRel
      rw [hm1]; exact hreg.readerUpd _ _ _ _
    | some c =>
      have hs' : step o pol m inp = ofSig (transChar o pol m1 c) inp1 := by rw [hstep]; rfl
      have hro := getChar_rel o ho m inp c m1 inp1 hg hst rest h.inp
      have hm1 := hro.upd
      have hreg1 : RegCore m1 t := by rw [hm1]; exact hreg.readerUpd _ _ _ _
      have hrec1 : m1.reconsume = false := by rw [hm1]; rfl
      have hst1 : m1.state = m.state := by rw [hm1]; rfl
      have hcr1 : m1.charRef = none := by rw [hm1]; exact hcr
      have htb1 : m1.tempBuf = m.tempBuf := by rw [hm1]; rfl
      have htab := (tab_getChar o ho pol tree hpt m1 t c (normalizeNewlinesFrom m1.ignoreLf inp1) hreg1 hrec1
        (by rw [hst1]; exact hrk)).toG
      refine finish_tab o pol tree m inp t rest h.tinv m1 inp1 c hro _ (transChar_ignoreLf o pol m1 c)
        (transChar_currentChar o pol m1 c) ?_ htab hs'
      -- the stash of the new machine is empty: `temp_buf` is empty outside the raw text states
      have hN : isRaw m1.state = false → m1.tempBuf = [] := by
        intro hraw
        rw [htb1]
        exact h.tinv.linv.nr (by rw [← hst1]; exact hraw) hne.1 hne.2
      have hcr' : (transChar o pol m1 c).1.charRef = none := by rw [transChar_charRef]; exact hcr1
      apply stash_nil_of hcr'
      intro hs2
      by_cases ht : (transChar o pol m1 c).1.tempBuf = []
      · exact ht
      · have := transChar_nr o pol m1 c hN ht
        rcases hs2 with hs2 | hs2 <;> rw [hs2] at this <;> simp [isRaw] at this

/-- **the step theorem**: every step of the model from a configuration in the relation is matched by
`k ≥ 0` steps of the specification; the model neither pauses nor panics -/
theorem step_sim (o : Opts) (ho : o.exactErrors = false) (pol : Pol) (tree : Tree) (hpt : PolTree pol tree)
    (m : Mach) (inp : Str) (t : Tok) (rest : Str) (h : Rel m inp t rest) :
    StepOk tree t rest (step o pol m inp) := by
  obtain ⟨lag, inp0, hinp, hok, hc⟩ := h
  cases lag with
  | cons c lag' =>
    subst hinp
    exact step_lag_sim o ho pol tree m t rest c lag' inp0 hok hc
  | nil =>
    simp only [List.nil_append] at hinp
    subst hinp
    have hc : RelCore m inp t rest := by simpa [absorb] using hc
    cases hcr : m.charRef with
    | some cr =>
      rw [step_kind_charRef o pol m inp cr hcr]
      cases hcs : cr.state with
      | named => exact stepCharRef_sim_named o ho pol tree m inp t rest hc cr hcr (Or.inl hcs)
      | bogusName => exact stepCharRef_sim_named o ho pol tree m inp t rest hc cr hcr (Or.inr hcs)
      | begin => exact stepCharRef_sim_num o ho pol tree m inp t rest hc cr hcr (Or.inl hcs)
      | octothorpe => exact stepCharRef_sim_num o ho pol tree m inp t rest hc cr hcr (Or.inr (Or.inl hcs))
      | numeric b => exact stepCharRef_sim_num o ho pol tree m inp t rest hc cr hcr (Or.inr (Or.inr (Or.inl ⟨b, hcs⟩)))
      | numericSemicolon =>
        exact stepCharRef_sim_num o ho pol tree m inp t rest hc cr hcr (Or.inr (Or.inr (Or.inr hcs)))
    | none =>
      cases hrk : readKind m.state with
      | getChar => exact step_getChar_sim o ho pol tree hpt m inp t rest hc hcr hrk
      | popExcept => exact step_set_sim o ho pol tree hpt m inp t rest hc hcr (Or.inl hrk)
      | dataSimd => exact step_set_sim o ho pol tree hpt m inp t rest hc hcr (Or.inr hrk)
      | peekBav =>
        have hs := readKind_bav hrk
        rw [look_step_bav o pol m inp hcr hs]
        exact stepBav_sim o ho pol tree hpt m inp t rest hc hcr hs
      | eatMdo =>
        have hs := readKind_mdo hrk
        rw [look_step_mdo o pol m inp hcr hs]
        exact stepMdo_sim o ho pol tree hpt m inp t rest hc hcr hs
      | eatAdn =>
        have hs := readKind_adn hrk
        rw [look_step_adn o pol m inp hcr hs]
        exact stepAdn_sim o ho pol tree hpt m inp t rest hc hcr hs

end H5V.Lemmas.HtmlTokSpec
