import H5V.Lemmas.HtmlTBMetaRules
/-!
C19, part 5: which insertion modes hand a `meta` start tag to the "in head" rule.
-/
namespace H5V.Props.C19
open H5V.Model.Dom (Id QualName Attr NodeOrText SinkOp Output ElementFlags QuirksMode Dom)
open H5V.Model.HtmlTB
open H5V.Lemmas.TBM

theorem meta_isStart {tag : Tag} (hm : isMetaStart tag) (l : List String) :
    tag.isStart l = isOneOf "meta".toList l := by
  simp [Tag.isStart, hm.1, hm.2]

theorem meta_isEnd {tag : Tag} (hm : isMetaStart tag) (l : List String) : tag.isEnd l = false := by
  simp [Tag.isEnd, hm.1]

theorem meta_kind_end {tag : Tag} (hm : isMetaStart tag) : (tag.kind == H5V.Model.HtmlTok.TagKind.endTag) = false := by
  rw [hm.1]; rfl

theorem meta_kind_start {tag : Tag} (hm : isMetaStart tag) : (tag.kind == H5V.Model.HtmlTok.TagKind.startTag) = true := by
  rw [hm.1]; rfl

theorem meta_isName {tag : Tag} (hm : isMetaStart tag) (x : String) : isName tag.name x = isName "meta".toList x := by
  rw [hm.2]

/-- simp set that decides every tag test of the rules for a `meta` start tag -/
macro "meta_simp" hm:term " at " h:ident : tactic =>
  `(tactic| simp (config := { decide := true }) only [meta_isStart $hm, meta_isEnd $hm, meta_kind_end $hm,
      meta_kind_start $hm, meta_isName $hm, Bool.or_false, Bool.false_or, Bool.or_true, Bool.true_or, if_true, if_false,
      Bool.false_eq_true, Bool.not_true, Bool.not_false] at $h:ident)
macro "meta_simp" hm:term : tactic =>
  `(tactic| simp (config := { decide := true }) only [meta_isStart $hm, meta_isEnd $hm, meta_kind_end $hm,
      meta_kind_start $hm, meta_isName $hm, Bool.or_false, Bool.false_or, Bool.or_true, Bool.true_or, if_true, if_false,
      Bool.false_eq_true, Bool.not_true, Bool.not_false])

/-! ### modes that use the "in head" rule directly -/

theorem route_inHead (tag : Tag) : step .inHead (.tag tag) = stepInHead (.tag tag) := rfl

theorem route_inBody {tag : Tag} (hm : isMetaStart tag) : step .inBody (.tag tag) = stepInHead (.tag tag) := by
  unfold step stepInBody
  meta_simp hm

theorem route_inHeadNoscript {tag : Tag} (hm : isMetaStart tag) :
    step .inHeadNoscript (.tag tag) = stepInHead (.tag tag) := by
  unfold step stepInHeadNoscript
  meta_simp hm

theorem route_inTemplate {tag : Tag} (hm : isMetaStart tag) :
    step .inTemplate (.tag tag) = stepInHead (.tag tag) := by
  unfold step stepInTemplate
  meta_simp hm

theorem route_inCaption {tag : Tag} (hm : isMetaStart tag) :
    step .inCaption (.tag tag) = stepInHead (.tag tag) := by
  rw [← route_inBody hm]
  unfold step stepInCaption
  meta_simp hm

theorem route_inCell {tag : Tag} (hm : isMetaStart tag) :
    step .inCell (.tag tag) = stepInHead (.tag tag) := by
  rw [← route_inBody hm]
  unfold step stepInCell
  meta_simp hm

/-! ### "after head": the head element is pushed back for the duration of the rule -/

/-- rules.rs:395: `unexpected; push(head); step(InHead); remove_from_stack(head)` -/
def withHeadPushed (tok : Token) : M ProcessResult := do
  let _ ← unexpected
  match (← getS).headElem with
  | none => panicAt "no-head-element" "rules.rs:399" "expect(\"no head element\")"
  | some head =>
    push head
    let result ← stepInHead tok
    removeFromStack head
    pure result

theorem route_afterHead {tag : Tag} (hm : isMetaStart tag) :
    step .afterHead (.tag tag) = withHeadPushed (.tag tag) := by
  unfold step stepAfterHead withHeadPushed
  meta_simp hm
  rfl

/-! ### the table modes: "anything else" is processed by the rules for "in body", foster-parenting -/

/-- rules.rs:1136 + `foster_parent_in_body`: a parse error, then the "in head" rule with foster
parenting switched on -/
def fosteredInHead (tok : Token) : M ProcessResult := do
  let _ ← unexpected
  modS fun s => { s with fosterParenting := true }
  let res ← stepInHead tok
  modS fun s => { s with fosterParenting := false }
  pure res

theorem route_inTable {tag : Tag} (hm : isMetaStart tag) :
    step .inTable (.tag tag) = fosteredInHead (.tag tag) := by
  have hb : stepInBody (.tag tag) = stepInHead (.tag tag) := route_inBody hm
  unfold step stepInTable fosteredInHead fosterParentInBody
  meta_simp hm
  rw [hb]

theorem route_inTableBody {tag : Tag} (hm : isMetaStart tag) :
    step .inTableBody (.tag tag) = fosteredInHead (.tag tag) := by
  rw [← route_inTable hm]
  unfold step stepInTableBody
  meta_simp hm

theorem route_inRow {tag : Tag} (hm : isMetaStart tag) :
    step .inRow (.tag tag) = fosteredInHead (.tag tag) := by
  rw [← route_inTable hm]
  unfold step stepInRow
  meta_simp hm

/-- "in column group": close the `colgroup` and try again "in table", or ignore the token -/
def colgroupAnythingElse (tok : Token) : M ProcessResult := do
  if ← currentNodeNamed "colgroup" then
    let _ ← pop
    pure (.reprocess .inTable tok)
  else unexpected

theorem route_inColumnGroup {tag : Tag} (hm : isMetaStart tag) :
    step .inColumnGroup (.tag tag) = colgroupAnythingElse (.tag tag) := by
  unfold step stepInColumnGroup colgroupAnythingElse
  meta_simp hm

/-! ### modes that ignore the token (parse error only) -/

theorem route_inFrameset {tag : Tag} (hm : isMetaStart tag) : step .inFrameset (.tag tag) = unexpected := by
  unfold step stepInFrameset
  meta_simp hm

theorem route_afterFrameset {tag : Tag} (hm : isMetaStart tag) : step .afterFrameset (.tag tag) = unexpected := by
  unfold step stepAfterFrameset
  meta_simp hm

theorem route_afterAfterFrameset {tag : Tag} (hm : isMetaStart tag) :
    step .afterAfterFrameset (.tag tag) = unexpected := by
  unfold step stepAfterAfterFrameset
  meta_simp hm

/-- a start tag in "text" mode is the `unreachable!` of rules.rs:1037 -/
theorem route_text {tag : Tag} (hm : isMetaStart tag) :
    step .text (.tag tag) = panicAt "unreachable" "rules.rs:1037" "impossible case in Text mode" := by
  unfold step stepText
  meta_simp hm

/-! ### modes that hand the token on (`Reprocess`) -/

theorem route_initial (tag : Tag) :
    Ans (fun r => r = .reprocess .beforeHtml (.tag tag)) (step .initial (.tag tag)) := by
  unfold step stepInitial
  ans_walk

theorem route_beforeHtml {tag : Tag} (hm : isMetaStart tag) :
    Ans (fun r => r = .reprocess .beforeHead (.tag tag)) (step .beforeHtml (.tag tag)) := by
  unfold step stepBeforeHtml
  meta_simp hm
  ans_walk

theorem route_beforeHead {tag : Tag} (hm : isMetaStart tag) :
    Ans (fun r => r = .reprocess .inHead (.tag tag)) (step .beforeHead (.tag tag)) := by
  unfold step stepBeforeHead
  meta_simp hm
  ans_walk

theorem route_afterBody {tag : Tag} (hm : isMetaStart tag) :
    Ans (fun r => r = .reprocess .inBody (.tag tag)) (step .afterBody (.tag tag)) := by
  unfold step stepAfterBody
  meta_simp hm
  ans_walk

theorem route_afterAfterBody {tag : Tag} (hm : isMetaStart tag) :
    Ans (fun r => r = .reprocess .inBody (.tag tag)) (step .afterAfterBody (.tag tag)) := by
  unfold step stepAfterAfterBody
  meta_simp hm
  ans_walk

/-- "in table text": the pending text is flushed, the token goes back to the original mode -/
theorem route_inTableText (tag : Tag) :
    Ans (fun r => ∃ m, r = .reprocess m (.tag tag)) (step .inTableText (.tag tag)) := by
  unfold step stepInTableText
  ans_walk
  all_goals exact Ans.pure ⟨_, rfl⟩

/-! ### foreign content: `meta` is a break-out tag -/

theorem route_foreign {tag : Tag} (hm : isMetaStart tag) :
    stepForeign (.tag tag) = unexpectedStartTagInForeignContent tag := by
  unfold stepForeign
  meta_simp hm

end H5V.Props.C19
