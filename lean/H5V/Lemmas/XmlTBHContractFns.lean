import H5V.Lemmas.XmlTBHContract
import H5V.Lemmas.XmlTBHNs
/-!
C05 for the handle-level XML tree builder, part 2: every function of the model, from
`process_namespaces` to `step`, returns normally, makes only calls within the `TreeSink` contract
(`Good`: the recorded calls are a `C20.Run`) and keeps the invariant.
-/
namespace H5V.Lemmas.XmlTBH
open H5V.Model.Dom (Id SinkOp Output Dom NodeOrText NodeData Contract QualName Attr ElementFlags)
open H5V.Model.XmlTB (Tag TbCfg Bound QName Token Phase)
open H5V.Model.XmlTBH
open H5V.Lemmas.Dom
open H5V.Lemmas.TBC (KExt kindOf apply_kext)
open H5V.Props.C20 (Inv Run)

theorem isContainer_kind (d : Dom) (x : Id) :
    d.isContainer x = ((d.dataOf x).map kindOf == some 0 || (d.dataOf x).map kindOf == some 4) := by
  unfold Dom.isContainer
  cases d.dataOf x with
  | none => rfl
  | some v => cases v <;> rfl

theorem isContainer_kext {d d' : Dom} (hk : KExt d d') {x : Id} (hx : x < d.size) :
    d'.isContainer x = d.isContainer x := by
  rw [isContainer_kind, isContainer_kind, hk x hx]

/-- the expanded name `name` names the element `h` -/
def Named (d : Dom) (name : QName) (h : Id) : Prop := nameOf d h = some (name.ns, name.loc)

theorem Named.of_data {d d' : Dom} {name : QName} {h : Id} (hn : Named d name h) (hd : d'.dataOf h = d.dataOf h) :
    Named d' name h := by
  unfold Named nameOf at hn ⊢; rw [hd]; exact hn

/-! ## `process_namespaces`, `create_element` -/

theorem sat_processNamespaces {s : State} (hg : Good s) (cfg : TbCfg) (t : Tag) :
    Sat (processNamespaces cfg t) s (fun b s' =>
      b = H5V.Model.XmlTB.processNamespaces cfg s.nsStack t ∧ Good s' ∧ Same s s') := by
  unfold processNamespaces
  refine Sat.read_bind ?_
  show Sat (parseErrs _ >>= _) s _
  refine (sat_parseErrs hg _).seq ?_
  intro _ s1 ⟨hg1, hs1⟩
  by_cases hp : H5V.Model.XmlTB.pushesMap t.kind (H5V.Model.XmlTB.processNamespaces cfg s.nsStack t).name = true
  · simp only [hp, if_true]
    refine Sat.modify_bind (Sat.pure ⟨rfl, hg1.ctl rfl rfl rfl (fun _ h => h), ?_⟩)
    exact ⟨⟨hs1.opened, hs1.phase, hs1.dts⟩, hs1.nodes⟩
  · simp only [hp]
    exact Sat.bind (Sat.pure (Sat.pure ⟨rfl, hg1, hs1⟩))

theorem sat_createElement {s : State} (hg : Good s) (b : Bound)
    (hn : Dom.attrKeysNodup (b.attrs.map toAttr) = true) :
    Sat (createElement b) s (fun c s' => Good s' ∧ Ctl s s' ∧ KExt s.dom s'.dom ∧
      Fresh s.dom s'.dom c ∧ s'.dom.isElement c = true ∧ Named s'.dom b.name c) :=
  sat_createElementOp hg _ _ _ hn

/-! ## appending a freshly created node -/

theorem sat_appendFresh {s0 s : State} (hg : Good s) {p c : Id} (hk : KExt s0.dom s.dom)
    (hf : Fresh s0.dom s.dom c) (hp : s0.dom.isContainer p = true) (hc : s.dom.isInsertable c = true) :
    Sat (sinkUnit (.append p (.node c))) s (fun _ s' => Good s' ∧ Ctl s s' ∧ KExt s0.dom s'.dom ∧
      (∀ x, s'.dom.dataOf x = s.dom.dataOf x) ∧
      (∀ x, s'.dom.childrenOf x = if x = p then s0.dom.childrenOf p ++ [c] else s0.dom.childrenOf x)) := by
  have hps : p < s0.dom.size := lt_of_isContainer hp
  have hne : c ≠ p := fun h => Nat.lt_irrefl _ (Nat.lt_of_lt_of_le (h ▸ hps) hf.ge)
  refine (sat_appendNode hg ((isContainer_kext hk hps).trans hp) hc hf.par hf.kids hne).mono ?_
  intro _ s' ⟨hg', hc', hk', hd, hch⟩
  refine ⟨hg', hc', fun x hx => (hk' x (Nat.lt_of_lt_of_le hx (H5V.Lemmas.TBC.KExt.size_le hk))).trans (hk x hx), hd, ?_⟩
  intro x
  rw [hch x, hf.shape.children p, hf.shape.children x]

/-- a comment or a processing instruction -/
def IsLeaf (v : NodeData) : Prop := (∃ t, v = .comment t) ∨ (∃ t d, v = .pi t d)

theorem IsLeaf.insertable {d : Dom} {c : Id} {v : NodeData} (hv : IsLeaf v) (h : d.dataOf c = some v) :
    d.isInsertable c = true ∧ d.isElement c = false ∧ d.isDoctype c = false := by
  unfold Dom.isInsertable Dom.isElement Dom.isDoctype
  rw [h]
  rcases hv with ⟨t, rfl⟩ | ⟨t, dd, rfl⟩ <;> exact ⟨rfl, rfl, rfl⟩

/-- the second half of `append_comment_to_doc` / `append_pi_to_doc` -/
theorem sat_appendLeafToDoc {s0 s : State} (hg0 : Good s0) (hg : Good s) {c : Id} {v : NodeData}
    (hc0 : Ctl s0 s) (hk : KExt s0.dom s.dom)
    (hf : Fresh s0.dom s.dom c) (hv : IsLeaf v) (hd : s.dom.dataOf c = some v) :
    Sat (getS >>= fun st => sinkUnit (.append st.docHandle (.node c))) s (fun _ s' => Good s' ∧ Ctl s0 s' ∧
      (NoElemKids s0.dom → NoElemKids s'.dom) ∧ (NoDtKids s0.dom → NoDtKids s'.dom)) := by
  refine Sat.read_bind ?_
  show Sat (sinkUnit (.append s.docHandle (.node c))) s _
  rw [hg.dh]
  obtain ⟨h1, h2, h3⟩ := hv.insertable hd
  refine (sat_appendFresh hg hk hf (isContainer_of_doc hg0.doc) h1).mono ?_
  intro _ s' ⟨hg', hc', hk', hdat, hch⟩
  have hkids : s'.dom.childrenOf 0 = s0.dom.childrenOf 0 ++ [c] := by rw [hch 0]; simp
  refine ⟨hg', hc0.trans hc', ?_, ?_⟩
  · intro hn
    refine hn.snoc hg0.inv hk' hkids ?_
    unfold Dom.isElement; rw [hdat c]; exact h2
  · intro hn
    refine hn.snoc hg0.inv hk' hkids ?_
    unfold Dom.isDoctype; rw [hdat c]; exact h3

theorem sat_appendCommentToDoc {s : State} (hg : Good s) (t : List Char) :
    Sat (appendCommentToDoc t) s (fun _ s' => Good s' ∧ Ctl s s' ∧
      (NoElemKids s.dom → NoElemKids s'.dom) ∧ (NoDtKids s.dom → NoDtKids s'.dom)) := by
  unfold appendCommentToDoc
  refine (sat_createComment hg t).seq ?_
  intro c s1 ⟨hg1, hc1, hk1, hf1, hd1⟩
  exact sat_appendLeafToDoc hg hg1 hc1 hk1 hf1 (Or.inl ⟨t, rfl⟩) hd1

theorem sat_appendPiToDoc {s : State} (hg : Good s) (t dd : List Char) :
    Sat (appendPiToDoc t dd) s (fun _ s' => Good s' ∧ Ctl s s' ∧
      (NoElemKids s.dom → NoElemKids s'.dom) ∧ (NoDtKids s.dom → NoDtKids s'.dom)) := by
  unfold appendPiToDoc
  refine (sat_createPi hg t dd).seq ?_
  intro c s1 ⟨hg1, hc1, hk1, hf1, hd1⟩
  exact sat_appendLeafToDoc hg hg1 hc1 hk1 hf1 (Or.inr ⟨t, dd, rfl⟩) hd1

/-! ## the current node -/

theorem sat_currentNode {s : State} (site : String) {h : Id} {rest : List Id} (ho : s.opened = h :: rest) :
    Sat (currentNode site) s (fun x s' => h = x ∧ s = s') := by
  unfold currentNode
  refine Sat.read_bind ?_
  show Sat (match s.opened with | h :: _ => pure h | [] => throw _) s _
  rw [ho]
  exact Sat.pure ⟨rfl, rfl⟩

theorem sat_appendLeafToTag {s : State} (hg : Good s) {h : Id} {rest : List Id} (ho : s.opened = h :: rest)
    (mk : SinkOp) {v : NodeData} (hv : IsLeaf v)
    (hmk : ∀ {s : State}, Good s → Sat (sinkNode mk) s (fun c s' => Good s' ∧ Ctl s s' ∧ KExt s.dom s'.dom ∧
      Fresh s.dom s'.dom c ∧ s'.dom.dataOf c = some v)) :
    Sat (currentNode "438" >>= fun target => sinkNode mk >>= fun c => sinkUnit (.append target (.node c))) s
      (fun _ s' => Good s' ∧ Ctl s s') := by
  refine (sat_currentNode _ ho).seq ?_
  rintro _ _ ⟨rfl, rfl⟩
  refine (hmk hg).seq ?_
  intro c s1 ⟨hg1, hc1, hk1, hf1, hd1⟩
  have hel : s.dom.isElement h = true := hg.elems h (by rw [ho]; exact List.mem_cons_self)
  refine (sat_appendFresh hg1 hk1 hf1 (isContainer_of_isElement hel) (hv.insertable hd1).1).mono ?_
  intro _ s' ⟨hg', hc', _, _, _⟩
  exact ⟨hg', hc1.trans hc'⟩

theorem sat_appendCommentToTag {s : State} (hg : Good s) {h : Id} {rest : List Id} (ho : s.opened = h :: rest)
    (t : List Char) : Sat (appendCommentToTag t) s (fun _ s' => Good s' ∧ Ctl s s') := by
  unfold appendCommentToTag
  exact sat_appendLeafToTag hg ho _ (Or.inl ⟨t, rfl⟩) (fun hg => sat_createComment hg t)

theorem sat_appendPiToTag {s : State} (hg : Good s) {h : Id} {rest : List Id} (ho : s.opened = h :: rest)
    (t dd : List Char) : Sat (appendPiToTag t dd) s (fun _ s' => Good s' ∧ Ctl s s') := by
  unfold appendPiToTag
  exact sat_appendLeafToTag hg ho _ (Or.inr ⟨t, dd, rfl⟩) (fun hg => sat_createPi hg t dd)

theorem sat_appendText {s : State} (hg : Good s) {h : Id} {rest : List Id} (ho : s.opened = h :: rest)
    (t : List Char) : Sat (appendText t) s (fun _ s' => Good s' ∧ Ctl s s') := by
  unfold appendText insertAppropriately
  refine (sat_currentNode _ ho).seq ?_
  rintro _ _ ⟨rfl, rfl⟩
  have hel : s.dom.isElement h = true := hg.elems h (by rw [ho]; exact List.mem_cons_self)
  exact (sat_appendTextOp hg (isContainer_of_isElement hel) t).mono fun _ s' ⟨h1, h2, _⟩ => ⟨h1, h2⟩

/-! ## elements -/

theorem sat_appendTagToDoc {s : State} (hg : Good s) (b : Bound)
    (hn : Dom.attrKeysNodup (b.attrs.map toAttr) = true) :
    Sat (appendTagToDoc b) s (fun c s' => Good s' ∧ Ctl s s' ∧ s'.dom.isElement c = true) := by
  unfold appendTagToDoc
  refine (sat_createElement hg b hn).seq ?_
  intro c s1 ⟨hg1, hc1, hk1, hf1, he1, _⟩
  refine Sat.read_bind ?_
  show Sat (sinkUnit (.append s1.docHandle (.node c)) >>= _) s1 _
  rw [hg1.dh]
  refine (sat_appendFresh hg1 hk1 hf1 (isContainer_of_doc hg.doc) (isInsertable_of_isElement he1)).seq ?_
  intro _ s' ⟨hg', hc', _, hdat, _⟩
  refine Sat.pure ⟨hg', hc1.trans hc', ?_⟩
  unfold Dom.isElement; rw [hdat c]; exact he1

/-- `create_element`, `append` to the current node: the common part of `insert_tag` / `append_tag` -/
theorem sat_createInsert {s : State} (hg : Good s) {h : Id} {rest : List Id} (ho : s.opened = h :: rest) (b : Bound)
    (hn : Dom.attrKeysNodup (b.attrs.map toAttr) = true) {β : Type} (k : Id → M β) (Q : β → State → Prop)
    (hk : ∀ c s', Good s' → Ctl s s' → s'.dom.isElement c = true → Named s'.dom b.name c → Sat (k c) s' Q) :
    Sat (createElement b >>= fun child => insertAppropriately (.node child) >>= fun _ => k child) s Q := by
  refine (sat_createElement hg b hn).seq ?_
  intro c s1 ⟨hg1, hc1, hk1, hf1, he1, hn1⟩
  unfold insertAppropriately
  refine Sat.bind ?_
  refine (sat_currentNode _ (hc1.opened.trans ho)).seq ?_
  rintro _ _ ⟨rfl, rfl⟩
  have hel : s.dom.isElement h = true := hg.elems h (by rw [ho]; exact List.mem_cons_self)
  refine (sat_appendFresh hg1 hk1 hf1 (isContainer_of_isElement hel) (isInsertable_of_isElement he1)).mono ?_
  intro _ s' ⟨hg', hc', _, hdat, _⟩
  refine hk c s' hg' (hc1.trans hc') ?_ (hn1.of_data (hdat c))
  unfold Dom.isElement; rw [hdat c]; exact he1

theorem sat_insertTag {s : State} (hg : Good s) {h : Id} {rest : List Id} (ho : s.opened = h :: rest) (b : Bound)
    (hn : Dom.attrKeysNodup (b.attrs.map toAttr) = true) :
    Sat (insertTag b) s (fun _ s' => Good s' ∧ (∃ c, s'.opened = c :: s.opened ∧ Named s'.dom b.name c) ∧
      s'.phase = s.phase ∧ s'.doctypeSeen = s.doctypeSeen) := by
  unfold insertTag
  refine sat_createInsert hg ho b hn _ _ ?_
  intro c s' hg' hc' he hnm
  unfold push
  refine Sat.modify ⟨?_, ⟨c, by rw [← hc'.opened], hnm⟩, hc'.phase, hc'.dts⟩
  refine ⟨hg'.inv, hg'.run, hg'.doc, hg'.dh, ?_⟩
  intro x hx
  rcases List.mem_cons.mp hx with rfl | hx
  · exact he
  · exact hg'.elems x hx

theorem sat_appendTag {s : State} (hg : Good s) {h : Id} {rest : List Id} (ho : s.opened = h :: rest) (b : Bound)
    (hn : Dom.attrKeysNodup (b.attrs.map toAttr) = true) :
    Sat (appendTag b) s (fun _ s' => Good s' ∧ Ctl s s') := by
  unfold appendTag
  refine sat_createInsert hg ho b hn _ _ ?_
  intro c s' hg' hc' he _
  exact (sat_popOp hg' he).mono fun _ s2 ⟨h1, h2⟩ => ⟨h1, hc'.trans h2.toCtl⟩

/-! ## closing: `tag_in_open_elems`, `pop`, `pop_until`, `close_tag` -/

/-- nodes, phase and `doctype_seen` unchanged; `open_elems` lost some of its top entries -/
structure Pops (s s' : State) : Prop where
  nodes : s'.dom.nodes = s.dom.nodes
  phase : s'.phase = s.phase
  dts : s'.doctypeSeen = s.doctypeSeen
  opened : ∃ k, s'.opened = s.opened.drop k

theorem Pops.refl (s : State) : Pops s s := ⟨rfl, rfl, rfl, 0, rfl⟩
theorem Pops.trans {a b c : State} (h1 : Pops a b) (h2 : Pops b c) : Pops a c := by
  obtain ⟨k1, e1⟩ := h1.opened
  obtain ⟨k2, e2⟩ := h2.opened
  exact ⟨h2.nodes.trans h1.nodes, h2.phase.trans h1.phase, h2.dts.trans h1.dts, k1 + k2, by
    rw [e2, e1, List.drop_drop]⟩
theorem Same.pops {s s' : State} (h : Same s s') : Pops s s' :=
  ⟨h.nodes, h.phase, h.dts, 0, h.opened⟩

theorem sat_anyNamed (name : QName) : ∀ (l : List Id) {s : State}, Good s → (∀ h ∈ l, s.dom.isElement h = true) →
    Sat (anyNamed name l) s (fun b s' => Good s' ∧ Same s s' ∧ (b = true ↔ ∃ h ∈ l, Named s.dom name h)) := by
  intro l
  induction l with
  | nil => intro s hg _; exact Sat.pure ⟨hg, Same.refl s, by simp⟩
  | cons a rest ih =>
    intro s hg hl
    unfold anyNamed
    refine (sat_elemName hg (hl a List.mem_cons_self)).seq ?_
    rintro ⟨ns, loc⟩ s1 ⟨hg1, hs1, hn1⟩
    show Sat (if (ns == name.ns && loc == name.loc) = true then pure true else anyNamed name rest) s1 _
    by_cases hb : (ns == name.ns && loc == name.loc) = true
    · simp only [hb, if_true]
      refine Sat.pure ⟨hg1, hs1, iff_of_true rfl ⟨a, List.mem_cons_self, ?_⟩⟩
      simp only [Bool.and_eq_true, beq_iff_eq] at hb
      unfold Named; rw [hn1, hb.1, hb.2]
    · simp only [hb]
      have hl1 : ∀ h ∈ rest, s1.dom.isElement h = true := fun h hh => by
        rw [isElement_nodes hs1.nodes]; exact hl h (List.mem_cons_of_mem _ hh)
      have hna : ¬ Named s.dom name a := by
        intro hn
        unfold Named at hn
        rw [hn1] at hn
        simp only [Option.some.injEq, Prod.mk.injEq] at hn
        simp [hn.1, hn.2] at hb
      refine (ih hg1 hl1).mono ?_
      intro b s2 ⟨hg2, hs2, hb2⟩
      refine ⟨hg2, hs1.trans hs2, hb2.trans ?_⟩
      constructor
      · rintro ⟨h, hh, hn⟩
        refine ⟨h, List.mem_cons_of_mem _ hh, ?_⟩
        unfold Named at hn ⊢
        rw [← nameOf_nodes hs1.nodes]; exact hn
      · rintro ⟨h, hh, hn⟩
        rcases List.mem_cons.mp hh with rfl | hh
        · exact absurd hn hna
        · refine ⟨h, hh, ?_⟩
          unfold Named at hn ⊢
          rw [nameOf_nodes hs1.nodes]; exact hn

theorem sat_tagInOpenElems {s : State} (hg : Good s) (name : QName) :
    Sat (tagInOpenElems name) s (fun b s' => Good s' ∧ Same s s' ∧ (b = true ↔ ∃ h ∈ s.opened, Named s.dom name h)) := by
  unfold tagInOpenElems
  refine Sat.read_bind ?_
  refine (sat_anyNamed name s.opened.reverse hg (fun h hh => hg.elems h (List.mem_reverse.mp hh))).mono ?_
  intro b s' ⟨h1, h2, h3⟩
  refine ⟨h1, h2, h3.trans ?_⟩
  constructor
  · rintro ⟨h, hh, hn⟩; exact ⟨h, List.mem_reverse.mp hh, hn⟩
  · rintro ⟨h, hh, hn⟩; exact ⟨h, List.mem_reverse.mpr hh, hn⟩

theorem sat_pop {s : State} (hg : Good s) {h : Id} {rest : List Id} (ho : s.opened = h :: rest) :
    Sat pop s (fun x s' => x = h ∧ Good s' ∧ s'.opened = rest ∧ Pops s s') := by
  unfold pop
  refine Sat.modify_bind (Sat.read_bind ?_)
  simp only [ho]
  refine Sat.modify_bind ?_
  have hel : s.dom.isElement h = true := hg.elems h (by rw [ho]; exact List.mem_cons_self)
  have hg1 : Good { s with nsStack := s.nsStack.tail, opened := rest } :=
    hg.ctl rfl rfl rfl (fun x hx => by rw [ho]; exact List.mem_cons_of_mem _ hx)
  refine (sat_popOp hg1 hel).seq ?_
  intro _ s' ⟨hg', hs'⟩
  exact Sat.pure ⟨rfl, hg', hs'.opened, hs'.nodes, hs'.phase, hs'.dts, 1, by rw [hs'.opened, ho]; rfl⟩

theorem sat_currentNodeIs {s : State} (hg : Good s) {h : Id} {rest : List Id} (ho : s.opened = h :: rest)
    (name : QName) :
    Sat (currentNodeIs name) s (fun b s' => Good s' ∧ Same s s' ∧ (b = true ↔ Named s.dom name h)) := by
  unfold currentNodeIs
  refine (sat_currentNode _ ho).seq ?_
  rintro _ _ ⟨rfl, rfl⟩
  have hel : s.dom.isElement h = true := hg.elems h (by rw [ho]; exact List.mem_cons_self)
  refine (sat_elemName hg hel).seq ?_
  rintro ⟨ns, loc⟩ s1 ⟨hg1, hs1, hn1⟩
  refine Sat.pure ⟨hg1, hs1, ?_⟩
  unfold Named
  rw [hn1]
  simp only [Bool.and_eq_true, beq_iff_eq, Option.some.injEq, Prod.mk.injEq]

theorem sat_popUntil (name : QName) : ∀ (fuel : Nat) {s : State}, Good s →
    (∃ h ∈ s.opened, Named s.dom name h) → s.opened.length < fuel →
    Sat (popUntil name fuel) s (fun _ s' => Good s' ∧ Pops s s' ∧ s'.opened ≠ [] ∧
      (∀ h rest, s.opened = h :: rest → Named s.dom name h → s'.opened = s.opened)) := by
  intro fuel
  induction fuel with
  | zero => intro s _ _ hl; exact absurd hl (Nat.not_lt_zero _)
  | succ fuel ih =>
    intro s hg hex hl
    obtain ⟨h, rest, ho⟩ : ∃ h rest, s.opened = h :: rest := by
      obtain ⟨x, hx, _⟩ := hex
      cases hs : s.opened with
      | nil => rw [hs] at hx; cases hx
      | cons a t => exact ⟨a, t, rfl⟩
    unfold popUntil
    refine (sat_currentNodeIs hg ho name).seq ?_
    intro b s1 ⟨hg1, hs1, hb1⟩
    cases b with
    | true =>
      simp only [if_true]
      exact Sat.pure ⟨hg1, hs1.pops, by rw [hs1.opened, ho]; simp, fun _ _ _ _ => hs1.opened⟩
    | false =>
      simp only [Bool.false_eq_true, if_false]
      have hnh : ¬ Named s.dom name h := fun hn => by simpa using hb1.mpr hn
      have ho1 : s1.opened = h :: rest := hs1.opened.trans ho
      refine (sat_pop hg1 ho1).seq ?_
      intro _ s2 ⟨_, hg2, ho2, hp2⟩
      have hex2 : ∃ x ∈ s2.opened, Named s2.dom name x := by
        obtain ⟨x, hx, hn⟩ := hex
        rw [ho] at hx
        rcases List.mem_cons.mp hx with rfl | hx
        · exact absurd hn hnh
        · refine ⟨x, by rw [ho2]; exact hx, ?_⟩
          unfold Named at hn ⊢
          rw [nameOf_nodes (hp2.nodes.trans hs1.nodes)]; exact hn
      have hl2 : s2.opened.length < fuel := by
        rw [ho2]; rw [ho] at hl; simp at hl; omega
      refine (ih hg2 hex2 hl2).mono ?_
      intro _ s3 ⟨hg3, hp3, hne3, _⟩
      refine ⟨hg3, (hs1.pops.trans hp2).trans hp3, hne3, ?_⟩
      intro h' rest' ho' hn'
      rw [ho] at ho'; cases ho'
      exact absurd hn' hnh

theorem sat_closeTag {s : State} (hg : Good s) {h : Id} {rest : List Id} (ho : s.opened = h :: rest)
    (name : QName) : Sat (closeTag name) s (fun _ s' => Good s' ∧ Pops s s' ∧
      (Named s.dom name h → s'.opened = rest)) := by
  unfold closeTag
  refine (sat_currentNode _ ho).seq ?_
  rintro _ _ ⟨rfl, rfl⟩
  have hel : s.dom.isElement h = true := hg.elems h (by rw [ho]; exact List.mem_cons_self)
  refine (sat_elemName hg hel).seq ?_
  rintro ⟨ns, loc⟩ s1 ⟨hg1, hs1, _⟩
  show Sat ((if (loc != name.loc) = true then parseErr .currentMismatch else pure ()) >>= _) s1 _
  have hmid : Sat (if (loc != name.loc) = true then parseErr .currentMismatch else pure ()) s1
      (fun _ s2 => Good s2 ∧ Same s1 s2) := by
    by_cases hc : (loc != name.loc) = true
    · simp only [hc, if_true]; exact sat_parseErr hg1 _
    · simp only [hc]; exact Sat.pure ⟨hg1, Same.refl _⟩
  refine hmid.seq ?_
  intro _ s2 ⟨hg2, hs2⟩
  refine (sat_tagInOpenElems hg2 name).seq ?_
  intro b s3 ⟨hg3, hs3, hb3⟩
  have h12 : Same s s2 := hs1.trans hs2
  have h13 : Same s s3 := h12.trans hs3
  have hnamed : ∀ x, Named s.dom name x ↔ Named s2.dom name x := fun x => by
    unfold Named; rw [nameOf_nodes h12.nodes]
  cases b with
  | false =>
    simp only [Bool.false_eq_true, if_false]
    refine Sat.pure ⟨hg3, h13.pops, fun hn => ?_⟩
    have : ∃ x ∈ s2.opened, Named s2.dom name x :=
      ⟨h, by rw [h12.opened, ho]; exact List.mem_cons_self, (hnamed h).mp hn⟩
    simpa using hb3.mpr this
  | true =>
    simp only [if_true]
    refine Sat.read_bind ?_
    have hex : ∃ x ∈ s3.opened, Named s3.dom name x := by
      obtain ⟨x, hx, hn⟩ := hb3.mp rfl
      refine ⟨x, by rw [hs3.opened]; exact hx, ?_⟩
      unfold Named at hn ⊢
      rw [nameOf_nodes hs3.nodes]; exact hn
    refine (sat_popUntil name _ hg3 hex (Nat.lt_succ_self _)).seq ?_
    intro _ s4 ⟨hg4, hp4, hne4, htop4⟩
    obtain ⟨h4, rest4, ho4⟩ : ∃ h rest, s4.opened = h :: rest := by
      cases hs : s4.opened with
      | nil => exact absurd hs hne4
      | cons a t => exact ⟨a, t, rfl⟩
    refine (sat_pop hg4 ho4).seq ?_
    intro _ s5 ⟨_, hg5, ho5, hp5⟩
    refine Sat.pure ⟨hg5, (h13.pops.trans hp4).trans hp5, fun hn => ?_⟩
    have ho3 : s3.opened = h :: rest := h13.opened.trans ho
    have hn3 : Named s3.dom name h := by
      unfold Named at hn ⊢; rw [nameOf_nodes h13.nodes]; exact hn
    have := htop4 h rest ho3 hn3
    rw [ho4, ho3] at this
    cases this
    exact ho5

/-! ## the invariant of the builder, `step` -/

/-- the phase-dependent part: in the Start phase nothing is open, the document has no element child
and — until a doctype has been seen — no doctype child; in the Main phase an element is open -/
structure PhaseOk (s : State) : Prop where
  start : s.phase = .start → s.opened = [] ∧ NoElemKids s.dom ∧ (s.doctypeSeen = false → NoDtKids s.dom)
  main : s.phase = .main → s.opened ≠ []

/-- **the invariant** of every state the builder can be in between two calls -/
structure XInv (s : State) : Prop where
  good : Good s
  ph : PhaseOk s

theorem PhaseOk.of_end {s : State} (h : s.phase = .end_) : PhaseOk s :=
  ⟨fun h' => (by rw [h] at h'; cases h'), fun h' => (by rw [h] at h'; cases h')⟩

theorem XInv.same {s s' : State} (hx : XInv s) (hg : Good s') (hs : Same s s') : XInv s' := by
  refine ⟨hg, ?_, ?_⟩
  · intro hp
    obtain ⟨h1, h2, h3⟩ := hx.ph.start (hs.phase ▸ hp)
    exact ⟨hs.opened.trans h1, h2.same hs, fun hd => (h3 (hs.dts ▸ hd)).same hs⟩
  · intro hp
    rw [hs.opened]; exact hx.ph.main (hs.phase ▸ hp)

/-- outside the Start phase the control fields decide -/
theorem XInv.ctl {s s' : State} (hx : XInv s) (hns : s.phase ≠ .start) (hg : Good s') (hc : Ctl s s') : XInv s' := by
  refine ⟨hg, ?_, ?_⟩
  · intro hp; exact absurd (hc.phase ▸ hp) hns
  · intro hp; rw [hc.opened]; exact hx.ph.main (hc.phase ▸ hp)

/-- the tag tokens carry attribute lists as the tokenizer delivers them (`TagOk`) -/
def TokOk (cfg : TbCfg) : Token → Prop
  | .tag t => TagOk cfg t
  | _ => True

def InputOk (cfg : TbCfg) : Input → Prop
  | .token t => TokOk cfg t
  | .parseError _ => True

/-- what `step` leaves: the invariant — or, for `Reprocess`, always `(End, Eof)` and `Good` -/
def StepPost (r : StepResult) (s' : State) : Prop :=
  match r with
  | .reprocess p t => p = .end_ ∧ t = .eof ∧ Good s'
  | _ => XInv s'

theorem sat_peDone {s : State} (hx : XInv s) (e : H5V.Model.XmlTB.Err) :
    Sat (parseErr e >>= fun _ => pure StepResult.done) s StepPost :=
  (sat_parseErr hx.good e).seq fun _ _ ⟨hg, hs⟩ => Sat.pure (hx.same hg hs)

theorem sat_endIfNoOpenElems {s : State} (hg : Good s) (hp : s.phase = .main) :
    Sat endIfNoOpenElems s (fun _ s' => XInv s') := by
  unfold endIfNoOpenElems
  refine Sat.modify ?_
  by_cases he : s.opened.isEmpty = true
  · rw [if_pos he]
    exact ⟨hg.ctl rfl rfl rfl (fun _ h => h), PhaseOk.of_end rfl⟩
  · rw [if_neg he]
    refine ⟨hg, fun h' => (by rw [hp] at h'; cases h'), fun _ hn => he (by rw [hn]; rfl)⟩

theorem sat_stepStart (cfg : TbCfg) {s : State} (hx : XInv s) (hp : s.phase = .start) (tok : Token)
    (hok : TokOk cfg tok) : Sat (step cfg .start tok) s StepPost := by
  obtain ⟨hop, hne, hnd⟩ := hx.ph.start hp
  have hg := hx.good
  cases tok with
  | tag t =>
    obtain ⟨k, n, as⟩ := t
    cases k with
    | start =>
      show Sat (processNamespaces cfg ⟨.start, n, as⟩ >>= _) s _
      refine (sat_processNamespaces hg cfg _).seq ?_
      rintro b s1 ⟨rfl, hg1, hs1⟩
      unfold setPhase
      refine Sat.modify_bind ?_
      have hg2 : Good { s1 with phase := .main } := hg1.ctl rfl rfl rfl (fun _ h => h)
      refine (sat_appendTagToDoc hg2 _ (processNamespaces_nodup cfg _ _ hok)).seq ?_
      intro c s3 ⟨hg3, hc3, he3⟩
      unfold push
      refine Sat.modify_bind (Sat.pure ?_)
      refine ⟨⟨hg3.inv, hg3.run, hg3.doc, hg3.dh, ?_⟩, ?_, ?_⟩
      · intro x hx'
        rcases List.mem_cons.mp hx' with rfl | hx'
        · exact he3
        · exact hg3.elems x hx'
      · intro h'
        have : s3.phase = .main := hc3.phase
        rw [show ({ s3 with opened := c :: s3.opened } : State).phase = s3.phase from rfl, this] at h'
        cases h'
      · intro _ hn; cases hn
    | empty =>
      show Sat (processNamespaces cfg ⟨.empty, n, as⟩ >>= _) s _
      refine (sat_processNamespaces hg cfg _).seq ?_
      rintro b s1 ⟨rfl, hg1, hs1⟩
      unfold setPhase
      refine Sat.modify_bind ?_
      have hg2 : Good { s1 with phase := .end_ } := hg1.ctl rfl rfl rfl (fun _ h => h)
      refine (sat_appendTagToDoc hg2 _ (processNamespaces_nodup cfg _ _ hok)).seq ?_
      intro c s3 ⟨hg3, hc3, he3⟩
      refine (sat_popOp hg3 he3).seq ?_
      intro _ s4 ⟨hg4, hs4⟩
      exact Sat.pure ⟨hg4, PhaseOk.of_end (hs4.phase.trans hc3.phase)⟩
    | end_ => exact sat_peDone hx _
    | short => exact sat_peDone hx _
  | doctype n p sy =>
    show Sat (getS >>= _) s _
    refine Sat.read_bind (Sat.modify_bind ?_)
    have hg1 : Good { s with doctypeSeen := true } := hg.ctl rfl rfl rfl (fun _ h => h)
    refine Sat.bind ?_
    by_cases hs : s.doctypeSeen = true
    · simp only [hs, if_true]
      refine (sat_parseErr hg1 _).mono ?_
      intro _ s2 ⟨hg2, hs2⟩
      refine Sat.pure ⟨hg2, ?_, ?_⟩
      · intro _
        exact ⟨hs2.opened.trans hop, NoElemKids.same (s := { s with doctypeSeen := true }) hne hs2,
          fun hd => by rw [hs2.dts] at hd; cases hd⟩
      · intro h'; rw [hs2.phase] at h'; rw [show ({ s with doctypeSeen := true } : State).phase = s.phase from rfl, hp] at h'; cases h'
    · simp only [hs]
      have hsf : s.doctypeSeen = false := by cases h : s.doctypeSeen <;> simp_all
      unfold appendDoctypeToDoc
      refine (sat_appendDoctypeOp hg1 hne (hnd hsf) _ _ _).mono ?_
      intro _ s2 ⟨hg2, hc2, hk2⟩
      refine Sat.pure ⟨hg2, ?_, ?_⟩
      · intro _
        exact ⟨hc2.opened.trans hop, hk2, fun hd => by rw [hc2.dts] at hd; cases hd⟩
      · intro h'; rw [hc2.phase] at h'; rw [show ({ s with doctypeSeen := true } : State).phase = s.phase from rfl, hp] at h'; cases h'
  | comment c =>
    show Sat (appendCommentToDoc c >>= _) s _
    refine (sat_appendCommentToDoc hg c).seq ?_
    intro _ s1 ⟨hg1, hc1, hk1, hk2⟩
    refine Sat.pure ⟨hg1, ?_, ?_⟩
    · intro _; exact ⟨hc1.opened.trans hop, hk1 hne, fun hd => hk2 (hnd (hc1.dts ▸ hd))⟩
    · intro h'; rw [hc1.phase, hp] at h'; cases h'
  | pi t d =>
    show Sat (appendPiToDoc t d >>= _) s _
    refine (sat_appendPiToDoc hg t d).seq ?_
    intro _ s1 ⟨hg1, hc1, hk1, hk2⟩
    refine Sat.pure ⟨hg1, ?_, ?_⟩
    · intro _; exact ⟨hc1.opened.trans hop, hk1 hne, fun hd => hk2 (hnd (hc1.dts ▸ hd))⟩
    · intro h'; rw [hc1.phase, hp] at h'; cases h'
  | chars cs =>
    show Sat (if (!H5V.Model.XmlTB.anyNotWhitespace cs) = true then pure StepResult.done else _) s _
    by_cases hw : (!H5V.Model.XmlTB.anyNotWhitespace cs) = true
    · simp only [hw, if_true]; exact Sat.pure hx
    · simp only [hw]; exact sat_peDone hx _
  | nullChar => exact sat_peDone hx _
  | eof =>
    show Sat (parseErr .eofInStart >>= _) s _
    refine (sat_parseErr hg _).seq ?_
    intro _ s1 ⟨hg1, _⟩
    exact Sat.pure ⟨rfl, rfl, hg1⟩

theorem sat_stepMain (cfg : TbCfg) {s : State} (hx : XInv s) (hp : s.phase = .main) (tok : Token)
    (hok : TokOk cfg tok) : Sat (step cfg .main tok) s StepPost := by
  have hg := hx.good
  have hns : s.phase ≠ .start := by rw [hp]; intro h; cases h
  obtain ⟨h, rest, ho⟩ : ∃ h rest, s.opened = h :: rest := by
    cases hs : s.opened with
    | nil => exact absurd hs (hx.ph.main hp)
    | cons a t => exact ⟨a, t, rfl⟩
  cases tok with
  | tag t =>
    obtain ⟨k, n, as⟩ := t
    cases k with
    | start =>
      show Sat (processNamespaces cfg ⟨.start, n, as⟩ >>= _) s _
      refine (sat_processNamespaces hg cfg _).seq ?_
      rintro b s1 ⟨rfl, hg1, hs1⟩
      refine (sat_insertTag hg1 (hs1.opened.trans ho) _ (processNamespaces_nodup cfg _ _ hok)).seq ?_
      intro _ s2 ⟨hg2, ⟨c, ho2, _⟩, hp2, _⟩
      refine Sat.pure ⟨hg2, ?_, ?_⟩
      · intro h'; rw [hp2, hs1.phase, hp] at h'; cases h'
      · intro _ hn; rw [ho2] at hn; cases hn
    | empty =>
      show Sat (processNamespaces cfg ⟨.empty, n, as⟩ >>= _) s _
      refine (sat_processNamespaces hg cfg _).seq ?_
      rintro b s1 ⟨rfl, hg1, hs1⟩
      have ho1 : s1.opened = h :: rest := hs1.opened.trans ho
      have hx1 : XInv s1 := hx.same hg1 hs1
      have hns1 : s1.phase ≠ .start := by rw [hs1.phase]; exact hns
      have hnd := processNamespaces_nodup cfg s.nsStack ⟨.empty, n, as⟩ hok
      by_cases hsc : (H5V.Model.XmlTB.processNamespaces cfg s.nsStack ⟨.empty, n, as⟩).name.loc = H5V.Model.XmlTB.sScript
      · simp only [hsc, if_true]
        refine (sat_insertTag hg1 ho1 _ hnd).seq ?_
        intro _ s2 ⟨hg2, ⟨c, ho2, hn2⟩, hp2, _⟩
        refine (sat_currentNode _ ho2).seq ?_
        rintro _ _ ⟨rfl, rfl⟩
        refine (sat_closeTag hg2 ho2 _).seq ?_
        intro _ s3 ⟨hg3, hp3, htop3⟩
        refine Sat.pure ⟨hg3, ?_, ?_⟩
        · intro h'; rw [hp3.phase, hp2, hs1.phase, hp] at h'; cases h'
        · intro _ hn; rw [htop3 hn2, ho1] at hn; cases hn
      · simp only [hsc, if_false]
        refine (sat_appendTag hg1 ho1 _ hnd).seq ?_
        intro _ s2 ⟨hg2, hc2⟩
        exact Sat.pure (hx1.ctl hns1 hg2 hc2)
    | end_ =>
      show Sat (processNamespaces cfg ⟨.end_, n, as⟩ >>= _) s _
      refine (sat_processNamespaces hg cfg _).seq ?_
      rintro b s1 ⟨rfl, hg1, hs1⟩
      have ho1 : s1.opened = h :: rest := hs1.opened.trans ho
      by_cases hsc : (H5V.Model.XmlTB.processNamespaces cfg s.nsStack ⟨.end_, n, as⟩).name.loc = H5V.Model.XmlTB.sScript
      · simp only [hsc, if_true]
        refine (sat_currentNode _ ho1).seq ?_
        rintro _ _ ⟨rfl, rfl⟩
        refine (sat_closeTag hg1 ho1 _).seq ?_
        intro _ s2 ⟨hg2, hp2, _⟩
        refine (sat_endIfNoOpenElems hg2 (by rw [hp2.phase, hs1.phase, hp])).seq ?_
        intro _ s3 hx3
        exact Sat.pure hx3
      · simp only [hsc, if_false]
        refine (sat_closeTag hg1 ho1 _).seq ?_
        intro _ s2 ⟨hg2, hp2, _⟩
        refine (sat_endIfNoOpenElems hg2 (by rw [hp2.phase, hs1.phase, hp])).seq ?_
        intro _ s3 hx3
        exact Sat.pure hx3
    | short =>
      show Sat (pop >>= _) s _
      refine (sat_pop hg ho).seq ?_
      intro _ s1 ⟨_, hg1, _, hp1⟩
      refine (sat_endIfNoOpenElems hg1 (by rw [hp1.phase, hp])).seq ?_
      intro _ s2 hx2
      exact Sat.pure hx2
  | doctype n p sy => exact sat_peDone hx _
  | comment c =>
    show Sat (appendCommentToTag c >>= _) s _
    exact (sat_appendCommentToTag hg ho c).seq fun _ s1 ⟨hg1, hc1⟩ => Sat.pure (hx.ctl hns hg1 hc1)
  | pi t d =>
    show Sat (appendPiToTag t d >>= _) s _
    exact (sat_appendPiToTag hg ho t d).seq fun _ s1 ⟨hg1, hc1⟩ => Sat.pure (hx.ctl hns hg1 hc1)
  | chars cs =>
    show Sat (appendText cs >>= _) s _
    exact (sat_appendText hg ho cs).seq fun _ s1 ⟨hg1, hc1⟩ => Sat.pure (hx.ctl hns hg1 hc1)
  | nullChar => exact Sat.pure ⟨rfl, rfl, hg⟩
  | eof => exact Sat.pure ⟨rfl, rfl, hg⟩

theorem sat_stepEnd (cfg : TbCfg) {s : State} (hx : XInv s) (hp : s.phase = .end_) (tok : Token) :
    Sat (step cfg .end_ tok) s StepPost := by
  have hg := hx.good
  have hns : s.phase ≠ .start := by rw [hp]; intro h; cases h
  cases tok with
  | tag t => exact sat_peDone hx _
  | doctype n p sy => exact sat_peDone hx _
  | comment c =>
    show Sat (appendCommentToDoc c >>= _) s _
    exact (sat_appendCommentToDoc hg c).seq fun _ s1 ⟨hg1, hc1, _, _⟩ => Sat.pure (hx.ctl hns hg1 hc1)
  | pi t d =>
    show Sat (appendPiToDoc t d >>= _) s _
    exact (sat_appendPiToDoc hg t d).seq fun _ s1 ⟨hg1, hc1, _, _⟩ => Sat.pure (hx.ctl hns hg1 hc1)
  | chars cs =>
    show Sat (if (!H5V.Model.XmlTB.anyNotWhitespace cs) = true then pure StepResult.done else _) s _
    by_cases hw : (!H5V.Model.XmlTB.anyNotWhitespace cs) = true
    · simp only [hw, if_true]; exact Sat.pure hx
    · simp only [hw]; exact sat_peDone hx _
  | nullChar => exact sat_peDone hx _
  | eof => exact Sat.pure hx

theorem sat_step (cfg : TbCfg) {s : State} (hx : XInv s) (tok : Token) (hok : TokOk cfg tok) :
    Sat (step cfg s.phase tok) s StepPost := by
  cases hp : s.phase with
  | start => exact sat_stepStart cfg hx hp tok hok
  | main => exact sat_stepMain cfg hx hp tok hok
  | end_ => exact sat_stepEnd cfg hx hp tok

/-! ## `process_to_completion`, `process_token`, `end` -/

theorem sat_processToken (cfg : TbCfg) {s : State} (hx : XInv s) (inp : Input) (hok : InputOk cfg inp) :
    Sat (processToken cfg inp) s (fun _ s' => XInv s') := by
  cases inp with
  | parseError msg =>
    show Sat (sinkUnit (.parseError msg) >>= _) s _
    exact (sat_parseError hx.good msg).seq fun _ s' ⟨hg, hs⟩ => Sat.pure (hx.same hg hs)
  | token tok =>
    show Sat (processToCompletion cfg 2 tok) s _
    unfold processToCompletion
    refine Sat.read_bind ?_
    refine (sat_step cfg hx tok hok).seq ?_
    intro r s1 hr
    cases r with
    | done => exact Sat.pure hr
    | script n => exact Sat.pure hr
    | reprocess p t =>
      obtain ⟨rfl, rfl, hg1⟩ := hr
      show Sat (setPhase .end_ >>= _) s1 _
      unfold setPhase
      refine Sat.modify_bind ?_
      have hx2 : XInv { s1 with phase := .end_ } :=
        ⟨hg1.ctl rfl rfl rfl (fun _ h => h), PhaseOk.of_end rfl⟩
      unfold processToCompletion
      refine Sat.read_bind ?_
      show Sat (step cfg .end_ .eof >>= _) _ _
      rw [show step cfg .end_ .eof = (pure StepResult.done : M StepResult) from rfl]
      exact Sat.bind (Sat.pure (Sat.pure hx2))

theorem sat_popAll : ∀ (l : List Id) {s : State}, Good s → (∀ h ∈ l, s.dom.isElement h = true) →
    Sat (popAll l) s (fun _ s' => Good s' ∧ Same s s') := by
  intro l
  induction l with
  | nil => intro s hg _; exact Sat.pure ⟨hg, Same.refl s⟩
  | cons a rest ih =>
    intro s hg hl
    unfold popAll
    refine (sat_popOp hg (hl a List.mem_cons_self)).seq ?_
    intro _ s1 ⟨hg1, hs1⟩
    refine (ih hg1 (fun h hh => by rw [isElement_nodes hs1.nodes]; exact hl h (List.mem_cons_of_mem _ hh))).mono ?_
    intro _ s2 ⟨hg2, hs2⟩
    exact ⟨hg2, hs1.trans hs2⟩

/-- `end()`: every remaining open element is popped, top first -/
theorem sat_finish {s : State} (hg : Good s) : Sat finish s (fun _ s' => Good s' ∧ s'.opened = []) := by
  unfold finish
  refine Sat.read_bind (Sat.modify_bind ?_)
  have hg1 : Good { s with opened := [] } := hg.ctl rfl rfl rfl (fun _ h => nomatch h)
  refine (sat_popAll s.opened hg1 hg.elems).mono ?_
  intro _ s' ⟨hg', hs'⟩
  exact ⟨hg', hs'.opened⟩

theorem good_init : Good State.init :=
  ⟨H5V.Props.C20.inv_new, Run.nil, rfl, rfl, fun _ h => nomatch h⟩

/-- `XmlTreeBuilder::new` -/
theorem sat_newTB : Sat newTB State.init (fun _ s' => XInv s') := by
  unfold newTB
  refine (sat_getDocument good_init).seq ?_
  rintro _ s1 ⟨rfl, hg1, hs1⟩
  refine Sat.modify ?_
  have hg2 : Good { s1 with docHandle := 0 } :=
    ⟨hg1.inv, hg1.run, hg1.doc, rfl, hg1.elems⟩
  refine ⟨hg2, ?_, ?_⟩
  · intro _
    refine ⟨hs1.opened, ?_, fun _ => ?_⟩
    · intro c hc
      have : s1.dom.childrenOf 0 = [] := by rw [childrenOf_nodes hs1.nodes]; rfl
      rw [show ({ s1 with docHandle := 0 } : State).dom = s1.dom from rfl, this] at hc
      cases hc
    · intro c hc
      have : s1.dom.childrenOf 0 = [] := by rw [childrenOf_nodes hs1.nodes]; rfl
      rw [show ({ s1 with docHandle := 0 } : State).dom = s1.dom from rfl, this] at hc
      cases hc
  · intro h'
    have : s1.phase = .start := hs1.phase
    rw [show ({ s1 with docHandle := 0 } : State).phase = s1.phase from rfl, this] at h'
    cases h'

theorem sat_processTokens (cfg : TbCfg) : ∀ (toks : List Input) {s : State}, XInv s →
    (∀ t ∈ toks, InputOk cfg t) → Sat (processTokens cfg toks) s (fun _ s' => XInv s') := by
  intro toks
  induction toks with
  | nil => intro s hx _; exact Sat.pure hx
  | cons t rest ih =>
    intro s hx hok
    unfold processTokens
    refine (sat_processToken cfg hx t (hok t List.mem_cons_self)).seq ?_
    intro _ s1 hx1
    exact ih hx1 (fun t' ht' => hok t' (List.mem_cons_of_mem _ ht'))

theorem sat_parseAll (cfg : TbCfg) (toks : List Input) (hok : ∀ t ∈ toks, InputOk cfg t) :
    Sat (parseAll cfg toks) State.init (fun _ s' => Good s' ∧ s'.opened = []) := by
  unfold parseAll
  refine sat_newTB.seq ?_
  intro _ s1 hx1
  refine (sat_processTokens cfg toks hx1 hok).seq ?_
  intro _ s2 hx2
  exact sat_finish hx2.good

end H5V.Lemmas.XmlTBH
