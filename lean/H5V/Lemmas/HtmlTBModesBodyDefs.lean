import H5V.Lemmas.HtmlTBModesDefs
/-!
The "in body" rule function is proved in slices: the conditions of consecutive groups of arms of
`stepInBody` (in the order of its `if` chain) and the statement each slice proves.
-/
namespace H5V.Lemmas.HtmlTBModes
open H5V.Model.HtmlTB
open H5V.Spec.TreeModes (STok Step)

/-- arms 1–6: `html`, the "in head" start tags and `</template>`, `body`, `frameset`, `</body>`, `</html>` -/
def bodyC1 (tag : Tag) : Bool :=
  tag.isStart ["html"] ||
  (tag.isStart ["base", "basefont", "bgsound", "link", "meta", "noframes", "script", "style", "template", "title"] ||
    tag.isEnd ["template"]) ||
  tag.isStart ["body"] || tag.isStart ["frameset"] || tag.isEnd ["body"] || tag.isEnd ["html"]

/-- the block-level start tags: `address` … `ul`, `menu`, headings, `pre`/`listing`, `form`, `li`/`dd`/`dt`,
`plaintext`, `button` -/
def bodyC2 (tag : Tag) : Bool :=
  tag.isStart ["address", "article", "aside", "blockquote", "center", "details", "dialog", "dir", "div", "dl",
    "fieldset", "figcaption", "figure", "footer", "header", "hgroup", "main", "nav", "ol", "p", "search", "section",
    "summary", "ul"] ||
  tag.isStart ["menu"] || tag.isStart ["h1", "h2", "h3", "h4", "h5", "h6"] || tag.isStart ["pre", "listing"] ||
  tag.isStart ["form"] || tag.isStart ["li", "dd", "dt"] || tag.isStart ["plaintext"] || tag.isStart ["button"]

/-- the block-level end tags: `</address>` … `</ul>`, `</form>`, `</option>`, `</p>`, `</li>`/`</dd>`/`</dt>`, headings -/
def bodyC3 (tag : Tag) : Bool :=
  tag.isEnd ["address", "article", "aside", "blockquote", "button", "center", "details", "dialog", "dir", "div", "dl",
    "fieldset", "figcaption", "figure", "footer", "header", "hgroup", "listing", "main", "menu", "nav", "ol", "pre",
    "search", "section", "select", "summary", "ul"] ||
  tag.isEnd ["form"] || tag.isEnd ["option"] || tag.isEnd ["p"] || tag.isEnd ["li", "dd", "dt"] ||
  tag.isEnd ["h1", "h2", "h3", "h4", "h5", "h6"]

/-- formatting and void elements: `a`, `b` …, `nobr`, their end tags, `applet`/`marquee`/`object`, `table`, `</br>`,
`area` …, `input`, `param` …, `hr`, `image`, `textarea`, `xmp`, `iframe`, `noembed` -/
def bodyC4 (tag : Tag) : Bool :=
  tag.isStart ["a"] ||
  tag.isStart ["b", "big", "code", "em", "font", "i", "s", "small", "strike", "strong", "tt", "u"] ||
  tag.isStart ["nobr"] ||
  tag.isEnd ["a", "b", "big", "code", "em", "font", "i", "nobr", "s", "small", "strike", "strong", "tt", "u"] ||
  tag.isStart ["applet", "marquee", "object"] || tag.isEnd ["applet", "marquee", "object"] ||
  tag.isStart ["table"] || tag.isEnd ["br"] || tag.isStart ["area", "br", "embed", "img", "keygen", "wbr"] ||
  tag.isStart ["input"] || tag.isStart ["param", "source", "track"] || tag.isStart ["hr"] || tag.isStart ["image"] ||
  tag.isStart ["textarea"] || tag.isStart ["xmp"] || tag.isStart ["iframe"] || tag.isStart ["noembed"]

/-- a slice of the tag arms of "in body": for tags that reach the arms with condition `cond` (none of the
earlier conditions `pre` holds) -/
def BodySliceSim (pre cond : Tag → Bool) : Prop :=
  ∀ t, TagWf t → pre t = false → cond t = true → ∀ s, MInv s →
    PC (stepInBody (.tag t)) s (TokPost (fun σ => Spec.TreeModes.inBody (cfgOf s) σ (stokOf (.tag t))) s (.tag t))

end H5V.Lemmas.HtmlTBModes
