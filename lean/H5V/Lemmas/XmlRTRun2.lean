import H5V.Lemmas.XmlRTRun1
/-!
C17, tokenizer half, part 6: runs over names, one attribute, a start tag with its attribute list, an
end tag, a comment, a processing instruction, a doctype — each from the data state back to the data
state, with the token delivered.
-/
namespace H5V.Lemmas.XmlRT
open H5V.Model.XmlTok
open H5V.Model.XmlSer (SerCfg escape escapeChar)

/-! ### lexical classes of names -/

/-- a raw element name the tokenizer reads back as written -/
def TagNameLex (s : Str) : Prop :=
  ∃ c t, s = c :: t ∧ NmCh c ∧ (c ≠ '!' ∧ c ≠ '?' ∧ c ≠ ':' ∧ c ≠ '<') ∧ ∀ d ∈ t, NmCh d

/-- a raw attribute name the tokenizer reads back as written -/
def AttrNameLex (s : Str) : Prop :=
  ∃ c t, s = c :: t ∧ NmCh c ∧ c ≠ ':' ∧ ∀ d ∈ t, NmCh d ∧ d ≠ '='

/-! ### names -/

theorem name_run (o : Opts) (ho : o.exactErrors = false) (st : State) (hst : st = .tagName ∨ st = .endTagName)
    (k : TagKind) (as : List Attr) (an av : Str) (rest : Str) :
    ∀ (t nm : Str) (m : Mach), (∀ d ∈ t, NmCh d) → Ctl m st → Regs m k nm as an av →
      ∃ m', Reach o m (t ++ rest) m' rest ∧ Ctl m' st ∧ Regs m' k (nm ++ t) as an av ∧ m'.out = m.out := by
  intro t
  induction t with
  | nil => intro nm m _ h hr; exact ⟨m, Reach.refl _ _, h, by simpa using hr, rfl⟩
  | cons c t ih =>
    intro nm m hs h hr
    obtain ⟨m1, e1, c1, r1, o1⟩ := name_push o ho m c (t ++ rest) st hst k nm as an av h hr (hs c (by simp))
    obtain ⟨m2, e2, c2, r2, o2⟩ := ih (nm ++ [c]) m1 (fun d hd => hs d (by simp [hd])) c1 r1
    exact ⟨m2, Reach.cons e1 e2, c2, by simpa using r2, by rw [o2, o1]⟩

theorem attrName_run (o : Opts) (ho : o.exactErrors = false)
    (k : TagKind) (nm : Str) (as : List Attr) (av : Str) (rest : Str) :
    ∀ (t an : Str) (m : Mach), (∀ d ∈ t, NmCh d ∧ d ≠ '=') → Ctl m .tagAttrName → Regs m k nm as an av →
      ∃ m', Reach o m (t ++ rest) m' rest ∧ Ctl m' .tagAttrName ∧ Regs m' k nm as (an ++ t) av ∧ m'.out = m.out := by
  intro t
  induction t with
  | nil => intro an m _ h hr; exact ⟨m, Reach.refl _ _, h, by simpa using hr, rfl⟩
  | cons c t ih =>
    intro an m hs h hr
    obtain ⟨m1, e1, c1, r1, o1⟩ := an_push o ho m c (t ++ rest) k nm as an av h hr (hs c (by simp)).1 (hs c (by simp)).2
    obtain ⟨m2, e2, c2, r2, o2⟩ := ih (an ++ [c]) m1 (fun d hd => hs d (by simp [hd])) c1 r1
    exact ⟨m2, Reach.cons e1 e2, c2, by simpa using r2, by rw [o2, o1]⟩

/-! ### one attribute: ` name="value"` -/

/-- text of one attribute as the serializer writes it -/
def attrText (a : Str × Str) : Str := ' ' :: a.1 ++ '=' :: '"' :: escape SerCfg.fixed true a.2 ++ ['"']

theorem attr_run (o : Opts) (ho : o.exactErrors = false) (m : Mach) (st : State)
    (hst : st = .tagName ∨ st = .tagAttrNameBefore)
    (k : TagKind) (nm : Str) (as : List Attr) (an av : Str) (a : Str × Str) (rest : Str)
    (h : Ctl m st) (hr : Regs m k nm as an av) (hav : an = [] → av = [])
    (hn : AttrNameLex a.1) (hv : ∀ c ∈ a.2, c ≠ '\x00') :
    ∃ m', Reach o m (attrText a ++ rest) m' rest ∧ Ctl m' .tagAttrNameBefore ∧
      Regs m' k nm (finAttr as an av) a.1 a.2 ∧ cvOut m'.out = cvOut m.out := by
  obtain ⟨c0, t, hn0, hc0, hc0', ht⟩ := hn
  have e0 : attrText a ++ rest = ' ' :: c0 :: (t ++ '=' :: '"' :: (escape SerCfg.fixed true a.2 ++ '"' :: rest)) := by
    simp [attrText, hn0]
  rw [e0]
  -- the blank
  obtain ⟨m1, e1, c1, r1, o1⟩ : ∃ m1, step o m (' ' :: c0 :: (t ++ '=' :: '"' :: (escape SerCfg.fixed true a.2 ++ '"' :: rest))) =
      .cont m1 (c0 :: (t ++ '=' :: '"' :: (escape SerCfg.fixed true a.2 ++ '"' :: rest))) ∧
      Ctl m1 .tagAttrNameBefore ∧ Regs m1 k nm as an av ∧ m1.out = m.out := by
    rcases hst with rfl | rfl
    · exact tagName_sp o ho m _ k nm as an av h hr
    · exact anb_sp o ho m _ k nm as an av h hr
  obtain ⟨m2, e2, c2, r2, o2⟩ := anb_first o ho m1 c0 _ k nm as an av c1 r1 hav hc0 hc0'
  obtain ⟨m3, e3, c3, r3, o3⟩ := attrName_run o ho k nm (finAttr as an av) [] _ t [c0] m2 ht c2 r2
  obtain ⟨m4, e4, c4, r4, o4⟩ := an_eq o ho m3 _ k nm (finAttr as an av) _ [] c3 r3
  obtain ⟨m5, e5, c5, r5, o5⟩ := avb_quote o ho m4 _ k nm (finAttr as an av) _ [] c4 r4
  obtain ⟨m6, e6, c6, r6, o6⟩ := val_run o ho ('"' :: rest) (okHead_cons _ _ (by decide) (by decide)) k nm
    (finAttr as an av) _ a.2 [] m5 hv c5 r5
  obtain ⟨m7, e7, c7, r7, o7⟩ := val_quote o ho m6 rest k nm (finAttr as an av) _ _ c6 r6
  refine ⟨m7, Reach.cons e1 (Reach.cons e2 (Reach.trans e3 (Reach.cons e4 (Reach.cons e5 (Reach.trans e6 (Reach.one e7)))))),
    c7, ?_, ?_⟩
  · rw [hn0]; simpa using r7
  · rw [o7, o6, o5, o4, o3, o2, o1]

/-! ### the attribute list -/

/-- the tag registers (attributes finished, pending name, pending value) after one more attribute -/
def attrsState (s : List Attr × Str × Str) (a : Str × Str) : List Attr × Str × Str :=
  (finAttr s.1 s.2.1 s.2.2, a.1, a.2)

/-- the text of an attribute list -/
def attrsText (ras : List (Str × Str)) : Str := (ras.map attrText).flatten

theorem attrs_run (o : Opts) (ho : o.exactErrors = false) (k : TagKind) (nm : Str) (rest : Str) :
    ∀ (ras : List (Str × Str)) (m : Mach) (st : State) (as : List Attr) (an av : Str),
      (st = .tagName ∨ st = .tagAttrNameBefore) → Ctl m st → Regs m k nm as an av → (an = [] → av = []) →
      (∀ a ∈ ras, AttrNameLex a.1 ∧ ∀ c ∈ a.2, c ≠ '\x00') →
      ∃ m' st', Reach o m (attrsText ras ++ rest) m' rest ∧ (st' = .tagName ∨ st' = .tagAttrNameBefore) ∧
        Ctl m' st' ∧
        Regs m' k nm (ras.foldl attrsState (as, an, av)).1 (ras.foldl attrsState (as, an, av)).2.1
          (ras.foldl attrsState (as, an, av)).2.2 ∧
        ((ras.foldl attrsState (as, an, av)).2.1 = [] → (ras.foldl attrsState (as, an, av)).2.2 = []) ∧
        cvOut m'.out = cvOut m.out := by
  intro ras
  induction ras with
  | nil =>
    intro m st as an av hst h hr hav _
    exact ⟨m, st, by simpa [attrsText] using Reach.refl _ _, hst, h, hr, hav, rfl⟩
  | cons a ras ih =>
    intro m st as an av hst h hr hav hl
    obtain ⟨hl1, hl2⟩ := hl a (by simp)
    obtain ⟨m1, r1, c1, g1, o1⟩ := attr_run o ho m st hst k nm as an av a (attrsText ras ++ rest) h hr hav hl1 hl2
    have hne : a.1 ≠ [] := by obtain ⟨c0, t, e, _⟩ := hl1; rw [e]; simp
    obtain ⟨m2, st2, r2, hs2, c2, g2, a2, o2⟩ := ih m1 .tagAttrNameBefore (finAttr as an av) a.1 a.2 (Or.inr rfl) c1 g1
      (fun e => absurd e hne) (fun b hb => hl b (by simp [hb]))
    refine ⟨m2, st2, ?_, hs2, c2, g2, a2, by rw [o2, o1]⟩
    simp only [attrsText, List.map_cons, List.flatten_cons, List.append_assoc]
    exact Reach.trans r1 r2

/-- finishing the pending attribute of the final registers = folding `finish_attribute` over all -/
theorem finAttr_fold (ras : List (Str × Str)) (as : List Attr) (an av : Str) :
    finAttr (ras.foldl attrsState (as, an, av)).1 (ras.foldl attrsState (as, an, av)).2.1
        (ras.foldl attrsState (as, an, av)).2.2 =
      ras.foldl (fun acc a => finAttr acc a.1 a.2) (finAttr as an av) := by
  induction ras generalizing as an av with
  | nil => rfl
  | cons a ras ih => simp only [List.foldl_cons]; exact ih _ _ _

/-- the attribute list of the emitted tag, from the raw attributes in source order -/
def finAll (ras : List (Str × Str)) : List Attr := ras.foldl (fun acc a => finAttr acc a.1 a.2) []

/-! ### tags -/

theorem start_tag_run (o : Opts) (ho : o.exactErrors = false) (m : Mach) (nm : Str) (ras : List (Str × Str))
    (rest : Str) (h : Ctl m .data) (hn : Clean m) (hnm : TagNameLex nm)
    (hl : ∀ a ∈ ras, AttrNameLex a.1 ∧ ∀ c ∈ a.2, c ≠ '\x00') :
    ∃ m', Reach o m ('<' :: nm ++ attrsText ras ++ '>' :: rest) m' rest ∧ Ctl m' .data ∧ Clean m' ∧
      cvOut m'.out = cvOut m.out ++
        [.tag ⟨.start, cvName (processQName nm), (finAll ras).map cvAttr⟩] := by
  obtain ⟨c0, t, rfl, hc0, hc0', ht⟩ := hnm
  obtain ⟨m1, e1, c1, n1, o1⟩ := data_lt o ho m (c0 :: t ++ attrsText ras ++ '>' :: rest) h hn
  obtain ⟨m2, e2, c2, r2, o2⟩ := tag_first o ho m1 c0 (t ++ attrsText ras ++ '>' :: rest) c1 n1 hc0 hc0'
  obtain ⟨m3, e3, c3, r3, o3⟩ := name_run o ho .tagName (Or.inl rfl) .startTag [] [] [] (attrsText ras ++ '>' :: rest)
    t [c0] m2 ht c2 r2
  obtain ⟨m4, st4, e4, hs4, c4, r4, a4, o4⟩ := attrs_run o ho .startTag ([c0] ++ t) ('>' :: rest) ras m3 .tagName [] [] []
    (Or.inl rfl) c3 r3 (fun _ => rfl) hl
  obtain ⟨m5, e5, c5, n5, o5⟩ := tag_emit o ho m4 rest st4 (by rcases hs4 with e | e <;> simp [e])
    .startTag _ _ _ _ c4 r4 a4 (Or.inl rfl)
  refine ⟨m5, ?_, c5, n5, ?_⟩
  · have e : '<' :: (c0 :: t) ++ attrsText ras ++ '>' :: rest =
        '<' :: c0 :: (t ++ (attrsText ras ++ '>' :: rest)) := by simp
    rw [e]
    refine Reach.cons (by simpa using e1) (Reach.cons (by simpa using e2) (Reach.trans e3 (Reach.trans e4 (Reach.one e5))))
  · rw [o5, o4, o3, o2, o1, finAttr_fold]
    simp [finAll, finAttr, cvKind]

theorem end_tag_run (o : Opts) (ho : o.exactErrors = false) (m : Mach) (nm : Str) (rest : Str)
    (h : Ctl m .data) (hn : Clean m) (hnm : TagNameLex nm) :
    ∃ m', Reach o m ('<' :: '/' :: nm ++ '>' :: rest) m' rest ∧ Ctl m' .data ∧ Clean m' ∧
      cvOut m'.out = cvOut m.out ++ [.tag ⟨.end_, cvName (processQName nm), []⟩] := by
  obtain ⟨c0, t, rfl, hc0, hc0', ht⟩ := hnm
  obtain ⟨m1, e1, c1, n1, o1⟩ := data_lt o ho m ('/' :: c0 :: t ++ '>' :: rest) h hn
  obtain ⟨m2, e2, c2, n2, o2⟩ := tag_slash o ho m1 (c0 :: t ++ '>' :: rest) c1 n1
  obtain ⟨m3, e3, c3, r3, o3⟩ := etag_first o ho m2 c0 (t ++ '>' :: rest) c2 n2 hc0 ⟨hc0'.2.2.1, hc0'.2.2.2⟩
  obtain ⟨m4, e4, c4, r4, o4⟩ := name_run o ho .endTagName (Or.inr rfl) .endTag [] [] [] ('>' :: rest)
    t [c0] m3 ht c3 r3
  obtain ⟨m5, e5, c5, n5, o5⟩ := tag_emit o ho m4 rest .endTagName (Or.inr (Or.inl rfl))
    .endTag _ _ _ _ c4 r4 (fun _ => rfl) (Or.inr ⟨rfl, by simp [finAttr]⟩)
  refine ⟨m5, ?_, c5, n5, ?_⟩
  · refine Reach.cons (by simpa using e1) (Reach.cons (by simpa using e2) (Reach.cons (by simpa using e3)
      (Reach.trans e4 (Reach.one e5))))
  · rw [o5, o4, o3, o2, o1]
    simp [finAttr, cvKind]

end H5V.Lemmas.XmlRT
