import H5V.Lemmas.HtmlTBSkelShapeFrameset
/-!
C06, second invariant layer, part 24: the end of the input in the modes outside the body phase.
-/
namespace H5V.Props.C06
open H5V.Model.Dom hiding Str
open H5V.Model.HtmlTB hiding Str
open H5V.Lemmas.Dom
set_option synthInstance.maxSize 4096

theorem eofOk_beforeHead : EofOk .beforeHead := by
  intro r s res s' hg hm e
  have e' : stepBeforeHead .eof s = .ok (res, s') := e
  unfold stepBeforeHead at e'
  dsimp only at e'
  obtain ⟨_, _, _, e2⟩ := bind_ok.mp e'
  obtain ⟨_, _, _, e3⟩ := bind_ok.mp e2
  obtain ⟨rfl, _⟩ := pure_ok.mp e3
  exact Or.inr ⟨_, rfl⟩

theorem eofOk_inHead : EofOk .inHead := by
  intro r s res s' hg hm e
  have e' : stepInHead .eof s = .ok (res, s') := e
  unfold stepInHead at e'
  dsimp only at e'
  obtain ⟨_, _, _, e2⟩ := bind_ok.mp e'
  obtain ⟨rfl, _⟩ := pure_ok.mp e2
  exact Or.inr ⟨_, rfl⟩

theorem eofOk_inHeadNoscript : EofOk .inHeadNoscript := by
  intro r s res s' hg hm e
  have e' : stepInHeadNoscript .eof s = .ok (res, s') := e
  unfold stepInHeadNoscript at e'
  dsimp only at e'
  obtain ⟨_, _, _, e2⟩ := bind_ok.mp e'
  obtain ⟨_, _, _, e3⟩ := bind_ok.mp e2
  obtain ⟨rfl, _⟩ := pure_ok.mp e3
  exact Or.inr ⟨_, rfl⟩

theorem eofOk_afterHead : EofOk .afterHead := by
  intro r s res s' hg hm e
  have e' : stepAfterHead .eof s = .ok (res, s') := e
  unfold stepAfterHead at e'
  dsimp only at e'
  obtain ⟨_, _, _, e2⟩ := bind_ok.mp e'
  obtain ⟨rfl, _⟩ := pure_ok.mp e2
  exact Or.inr ⟨_, rfl⟩

theorem eofOk_text : EofOk .text := by
  intro r s res s' hg hm e
  have e' : stepText .eof s = .ok (res, s') := e
  unfold stepText at e'
  dsimp only at e'
  obtain ⟨_, s1, _, e2⟩ := bind_ok.mp e'
  obtain ⟨b, s2, _, e4⟩ := bind_ok.mp e2
  have key : ∀ s3 : State,
      (pop >>= fun _ => getS >>= fun s => match s.origMode with
        | none => panicAt "unwrap-none" "rules.rs:1023" "orig_mode.take().unwrap()"
        | some m => set { s with origMode := none } >>= fun _ => pure (ProcessResult.reprocess m Token.eof)) s3
        = .ok (res, s') → ∃ m', res = .reprocess m' .eof := by
    intro s3 e5
    obtain ⟨y, s4, _, e7⟩ := bind_ok.mp e5
    rw [getS_bind] at e7
    cases ho : s4.origMode with
    | none => rw [ho] at e7; exact absurd e7 panicAt_ok
    | some m =>
      rw [ho] at e7
      dsimp only at e7
      obtain ⟨_, _, _, e9⟩ := bind_ok.mp e7
      obtain ⟨rfl, _⟩ := pure_ok.mp e9
      exact ⟨_, rfl⟩
  rcases ite_run e4 with ⟨_, e4⟩ | ⟨_, e4⟩
  · rw [getS_bind] at e4
    cases hgl : s2.openElems.getLast? with
    | none =>
      rw [hgl] at e4; dsimp only at e4
      obtain ⟨_, _, h1, _⟩ := bind_ok.mp e4
      exact absurd h1 panicAt_ok
    | some c =>
      rw [hgl] at e4; dsimp only at e4
      obtain ⟨cur, s3, e5, e6⟩ := bind_ok.mp e4
      obtain ⟨_, s4, e7, e8⟩ := bind_ok.mp e6
      exact Or.inr (key s4 e8)
  · exact Or.inr (key _ e4)

/-- a state in one of the frameset modes has `head` and `frameset` in place -/
theorem fin_of_pf {r : Id} {s : State} (hg : Good r s)
    (hm : s.mode = .inFrameset ∨ s.mode = .afterFrameset ∨ s.mode = .afterAfterFrameset) : Fin s := by
  obtain ⟨up, ph, hs, _⟩ := hg
  refine ⟨r, up, ph, hs, ?_⟩
  have hf := hs.fits
  unfold FitsM at hf
  rcases hm with hm | hm | hm <;> rw [hm] at hf
  · obtain ⟨fs, _, _, rfl, _⟩ : ∃ fs up', up = fs :: up' ∧ ph = .pf fs ∧ ∀ x ∈ up, nm s.dom x = hN "frameset" := hf
    trivial
  · obtain ⟨_, hp⟩ : up = [] ∧ ph.isPf := hf
    cases ph <;> first | trivial | exact absurd hp id
  · obtain ⟨hp, _⟩ : ph.isPf ∧ ∀ x ∈ up, isFmtE (nm s.dom x) = true := hf
    cases ph <;> first | trivial | exact absurd hp id

theorem eofOk_inFrameset : EofOk .inFrameset := by
  intro r s res s' hg hm e
  have hout := modeOk_inFrameset .eof inferInstance r s res s' hg hm e
  have e' : stepInFrameset .eof s = .ok (res, s') := e
  unfold stepInFrameset at e'
  dsimp only at e'
  rw [getS_bind] at e'
  have hres : res = .done ∧ s'.mode = s.mode := by
    rcases ite_run e' with ⟨_, e'⟩ | ⟨_, e'⟩
    · obtain ⟨_, s1, e1, e2⟩ := bind_ok.mp e'
      obtain ⟨rfl, rfl⟩ := pure_ok.mp e2
      exact ⟨rfl, (qs_unexpected e1).1.mode⟩
    · obtain ⟨rfl, rfl⟩ := pure_ok.mp e'
      exact ⟨rfl, rfl⟩
  obtain ⟨rfl, hm'⟩ := hres
  exact Or.inl ⟨rfl, fin_of_pf hout (Or.inl (hm'.trans hm))⟩

theorem eofOk_afterFrameset : EofOk .afterFrameset := by
  intro r s res s' hg hm e
  have e' : stepAfterFrameset .eof s = .ok (res, s') := e
  unfold stepAfterFrameset at e'
  dsimp only at e'
  obtain ⟨rfl, rfl⟩ := pure_ok.mp e'
  exact Or.inl ⟨rfl, fin_of_pf hg (Or.inr (Or.inl hm))⟩

theorem eofOk_afterAfterFrameset : EofOk .afterAfterFrameset := by
  intro r s res s' hg hm e
  have e' : stepAfterAfterFrameset .eof s = .ok (res, s') := e
  unfold stepAfterAfterFrameset at e'
  dsimp only at e'
  obtain ⟨rfl, rfl⟩ := pure_ok.mp e'
  exact Or.inl ⟨rfl, fin_of_pf hg (Or.inr (Or.inr hm))⟩


/-! ### the body-like modes -/

/-- in a body-like mode without a `template` on the stack, `head` and `body` are in place -/
theorem fin_of_bl {r : Id} {s : State} (hg : Good r s) (hbl : isBL s.mode = true)
    (hnt : ∀ x ∈ s.openElems, nm s.dom x ≠ hN "template") : Fin s := by
  obtain ⟨up, ph, hs, _⟩ := id hg
  obtain ⟨hbb, _⟩ := bl_of_fits hbl (fits_of_fitsM hbl rfl hs.fits)
  refine ⟨r, up, ph, hs, ?_⟩
  have hst := hs.core.stack
  rcases hbb with ⟨b, u, _, rfl, _⟩ | ⟨hh, t, u, _, hu, htn, _⟩ | ⟨t, u, hu, htn, _, _⟩
  · trivial
  · exact absurd htn (hnt t (by rw [hst, hu]; simp))
  · exact absurd htn (hnt t (by rw [hst, hu]; simp))

theorem checkBodyEndLoop_qs : ∀ (l : List Id) (s s' : State) (u : Unit), checkBodyEndLoop l s = .ok (u, s') → QS s s'
  | [], s, s', u, e => by
    unfold checkBodyEndLoop at e
    obtain ⟨_, rfl⟩ := pure_ok.mp e
    exact QS.refl _
  | x :: rest, s, s', u, e => by
    unfold checkBodyEndLoop at e
    obtain ⟨n, s1, e1, e2⟩ := bind_ok.mp e
    obtain ⟨q1, _, _⟩ := elemName_sem e1
    rcases ite_run e2 with ⟨_, e2⟩ | ⟨_, e2⟩
    · exact q1.trans (checkBodyEndLoop_qs rest s1 s' u e2)
    · exact q1.trans (qs_parseError e2)

/-- the end of the input as the InBody rules treat it -/
theorem eof_bl {r : Id} {s s' : State} {res : ProcessResult} (hg : Good r s) (hbl : isBL s.mode = true)
    (e : stepInBody .eof s = .ok (res, s')) :
    (res = .done ∧ Fin s') ∨ (∃ m', res = .reprocess m' .eof) := by
  obtain ⟨up, ph, hs, _⟩ := id hg
  unfold stepInBody at e
  dsimp only at e
  rw [getS_bind] at e
  rcases ite_run e with ⟨hne, e⟩ | ⟨hemp, e⟩
  · unfold inTemplateEof at e
    obtain ⟨b, s1, e1, e2⟩ := bind_ok.mp e
    obtain ⟨q1, hb⟩ := inHtmlElemNamed_sem e1
    rcases ite_run e2 with ⟨hb0, e2⟩ | ⟨_, e2⟩
    · obtain ⟨rfl, rfl⟩ := pure_ok.mp e2
      refine Or.inl ⟨rfl, fin_of_bl (hg.qs q1) (by rw [q1.mode]; exact hbl) ?_⟩
      intro x hx hn
      have hbf : b = false := by simpa using hb0
      rw [q1.openElems] at hx
      rw [q1.nm] at hn
      have : b = true := hb.mpr ⟨x, hx, by rw [hn]; decide⟩
      rw [hbf] at this; cases this
    · obtain ⟨_, _, _, e3⟩ := bind_ok.mp e2
      obtain ⟨_, _, _, e4⟩ := bind_ok.mp e3
      obtain ⟨_, _, _, e5⟩ := bind_ok.mp e4
      obtain ⟨_, _, _, e6⟩ := bind_ok.mp e5
      obtain ⟨_, _, _, e7⟩ := bind_ok.mp e6
      obtain ⟨_, _, _, e8⟩ := bind_ok.mp e7
      obtain ⟨_, _, _, e9⟩ := bind_ok.mp e8
      obtain ⟨rfl, _⟩ := pure_ok.mp e9
      exact Or.inr ⟨_, rfl⟩
  · obtain ⟨_, s1, e1, e2⟩ := bind_ok.mp e
    obtain ⟨rfl, rfl⟩ := pure_ok.mp e2
    unfold checkBodyEnd at e1
    rw [getS_bind] at e1
    have q1 := checkBodyEndLoop_qs _ _ _ _ e1
    refine Or.inl ⟨rfl, fin_of_bl (hg.qs q1) (by rw [q1.mode]; exact hbl) ?_⟩
    intro x hx hn
    rw [q1.openElems] at hx
    rw [q1.nm] at hn
    have htc := hs.core.tc
    have hem : s.templateModes = [] := by
      cases hl : s.templateModes with
      | nil => rfl
      | cons a t => rw [hl] at hemp; simp at hemp
    rw [hem] at htc
    have h0 : tcount s.dom s.openElems = 0 := Nat.le_zero.mp htc
    unfold tcount at h0
    rw [List.countP_eq_zero] at h0
    exact h0 x hx (by rw [hn]; decide)

theorem eofOk_inBody : EofOk .inBody := by
  intro r s res s' hg hm e
  exact eof_bl hg (by rw [hm]; rfl) e

end H5V.Props.C06
