import H5V.Lemmas.HtmlRTDefs
import H5V.Lemmas.HtmlSerRender
/-!
C07 round trip, serializer side: for an ordinary forest the serializer model (children-only scope,
parent an HTML `div`) writes exactly the UTF-8 encoding of the character-level rendering `renderF`.
-/
namespace H5V.Lemmas.HtmlRT
open H5V.Model.HtmlSer H5V.Lemmas.HtmlSerEscape H5V.Lemmas.HtmlSerRender
open H5V.Spec.HtmlEscape

/-- the names the serializer treats specially (void, raw text, `noscript`) all have an in-body rule
of their own: an ordinary name is none of them -/
theorem serSpecial_in_special :
    (voidNames ++ rawTextNames ++ [nNoscript]).all (fun v => H5V.Model.HtmlTB.isOneOf v specialNames) = true := by
  decide +kernel

theorem ordinary_ser {n : Str} (h : ordinaryName n = true) :
    isVoidName n = false ∧ rawTextNames.contains n = false ∧ (n == nNoscript) = false := by
  simp only [ordinaryName, Bool.and_eq_true, Bool.not_eq_true'] at h
  have key : ∀ v ∈ voidNames ++ rawTextNames ++ [nNoscript], n ≠ v := by
    intro v hv e
    have := List.all_eq_true.mp serSpecial_in_special v hv
    rw [← e, h.2] at this
    cases this
  refine ⟨?_, ?_, ?_⟩
  · cases hc : isVoidName n with
    | false => rfl
    | true =>
      unfold isVoidName at hc
      have hm : n ∈ voidNames := by simpa using hc
      exact absurd rfl (key n (by simp [hm]))
  · cases hc : rawTextNames.contains n with
    | false => rfl
    | true =>
      have hm : n ∈ rawTextNames := by simpa using hc
      exact absurd rfl (key n (by simp [hm]))
  · cases hc : n == nNoscript with
    | false => rfl
    | true =>
      have : n = nNoscript := by simpa using hc
      exact absurd this (key nNoscript (by simp))

theorem fmt_ser_all :
    fmtNames.all (fun s => !isVoidName s.toList && !rawTextNames.contains s.toList && !(s.toList == nNoscript)) = true := by
  decide +kernel

theorem block_ser_all :
    blockNames.all (fun s => !isVoidName s.toList && !rawTextNames.contains s.toList && !(s.toList == nNoscript)) = true := by
  decide +kernel

theorem elemName_ser {n : Str} (h : elemNameOk n = true) :
    isVoidName n = false ∧ rawTextNames.contains n = false ∧ (n == nNoscript) = false := by
  simp only [elemNameOk, Bool.or_eq_true] at h
  rcases h with (h | h) | h
  · exact ordinary_ser h
  · unfold blockName H5V.Model.HtmlTB.isOneOf at h
    rw [List.any_eq_true] at h
    obtain ⟨s, hs, e⟩ := h
    have := List.all_eq_true.mp block_ser_all s hs
    have e' : s.toList = n := by simpa using e
    rw [e'] at this
    simp only [Bool.and_eq_true, Bool.not_eq_true'] at this
    exact ⟨this.1.1, this.1.2, this.2⟩
  · unfold fmtName H5V.Model.HtmlTB.isOneOf at h
    rw [List.any_eq_true] at h
    obtain ⟨s, hs, e⟩ := h
    have := List.all_eq_true.mp fmt_ser_all s hs
    have e' : s.toList = n := by simpa using e
    rw [e'] at this
    simp only [Bool.and_eq_true, Bool.not_eq_true'] at this
    exact ⟨this.1.1, this.1.2, this.2⟩

theorem escapeDecision_ordinary (o : Opts) {n : Str} (h : elemNameOk n = true) :
    escapeDecision o (some n) = true := by
  obtain ⟨_, h2, h3⟩ := elemName_ser h
  unfold escapeDecision
  simp only [h2, h3, Bool.false_eq_true, if_false]

theorem utf8_singleton_ascii :
    utf8 [' '] = [0x20] ∧ utf8 ['=', '"'] = [0x3D, 0x22] ∧ utf8 ['"'] = [0x22] ∧ utf8 ['<'] = [0x3C] ∧
    utf8 ['>'] = [0x3E] ∧ utf8 ['<', '/'] = [0x3C, 0x2F] := by decide

theorem renderAttrs_utf8 (cfg : Cfg) (hc : cfg.fixC2 = true) (as : List (Str × Str)) :
    H5V.Lemmas.HtmlSerRender.renderAttrs cfg (as.map serAttr) = utf8 (renderAttrs as) := by
  obtain ⟨u1, u2, u3, _, _, _⟩ := utf8_singleton_ascii
  induction as with
  | nil => simp [H5V.Lemmas.HtmlSerRender.renderAttrs, renderAttrs, utf8]
  | cons a as ih =>
    simp only [H5V.Lemmas.HtmlSerRender.renderAttrs, List.map_cons, List.flatMap_cons] at ih ⊢
    rw [ih]
    simp only [renderAttrs, List.flatMap_cons, utf8_append]
    congr 1
    simp only [H5V.Lemmas.HtmlSerRender.renderAttr, serAttr, attrPrefix, HtmlRT.renderAttr,
      escBytes_utf8 cfg true a.2 (Or.inl hc)]
    rw [show (' ' :: a.1 ++ ['=', '"'] ++ escape true a.2 ++ ['"']) = [' '] ++ a.1 ++ ['=', '"'] ++ escape true a.2 ++ ['"'] from rfl]
    simp only [utf8_append, u1, u2, u3, List.append_assoc, List.nil_append]

theorem startTagBytes_utf8 (cfg : Cfg) (hc : cfg.fixC2 = true) (n : Str) (as : List (Str × Str)) :
    startTagBytes cfg (serName n) (as.map serAttr) = utf8 (startTagStr n as) := by
  obtain ⟨_, _, _, u4, u5, _⟩ := utf8_singleton_ascii
  simp only [startTagBytes, serName, renderAttrs_utf8 cfg hc, startTagStr]
  rw [show ('<' :: n ++ renderAttrs as ++ ['>']) = ['<'] ++ n ++ renderAttrs as ++ ['>'] from rfl]
  simp only [utf8_append, u4, u5, List.append_assoc]

theorem endTagBytes_utf8 (n : Str) : endTagBytes (serName n) = utf8 (endTagStr n) := by
  obtain ⟨_, _, _, _, u5, u6⟩ := utf8_singleton_ascii
  simp only [endTagBytes, serName, endTagStr]
  rw [show ('<' :: '/' :: n ++ ['>']) = ['<', '/'] ++ n ++ ['>'] from rfl]
  simp only [utf8_append, u5, u6, List.append_assoc]

mutual
theorem renderNode_utf8 (cfg : Cfg) (hc : cfg.fixC2 = true) (o : Opts) :
    ∀ (t : HNode) (p : ElemInfo), okNode t = true → p.ignoreChildren = false →
      escapeDecision o p.htmlName = true → renderNode cfg o p (toSer t) = some (utf8 (render t))
  | .text s, p, _, _, he => by
    simp [toSer, renderNode, renderText, he, escBytes_utf8 cfg false s (Or.inl hc), render]
  | .elem n as ch, p, hok, hi, _ => by
    simp only [okNode, Bool.and_eq_true] at hok
    obtain ⟨⟨⟨hn, _⟩, hch⟩, _⟩ := hok
    obtain ⟨hv, _, _⟩ := elemName_ser hn
    have hvoid : isVoid (serName n) = false := by simp [isVoid, serName, hv]
    have ih := renderForest_utf8 cfg hc o ch (infoOf (serName n)) hch (by simp [infoOf, hvoid])
      (by simpa [infoOf, htmlNameOf, serName] using escapeDecision_ordinary o hn)
    simp only [toSer, renderNode, hi, Bool.false_eq_true, if_false, ih, Option.map, endTagOf, hvoid,
      startTagBytes_utf8 cfg hc, endTagBytes_utf8, render, utf8_append]
theorem renderForest_utf8 (cfg : Cfg) (hc : cfg.fixC2 = true) (o : Opts) :
    ∀ (f : Forest) (p : ElemInfo), okForest f = true → p.ignoreChildren = false →
      escapeDecision o p.htmlName = true → renderForest cfg o p (toSerF f) = some (utf8 (renderF f))
  | [], _, _, _, _ => by simp [toSerF, renderForest, renderF, utf8]
  | t :: ts, p, hok, hi, he => by
    simp only [okForest, Bool.and_eq_true] at hok
    simp only [toSerF, renderForest, renderNode_utf8 cfg hc o t p hok.1 hi he,
      renderForest_utf8 cfg hc o ts p hok.2 hi he, Option.map, renderF, utf8_append]
end

theorem escapeDecision_div (o : Opts) : escapeDecision o (some nDiv) = true := by
  have h1 : rawTextNames.contains nDiv = false := by decide
  have h2 : (nDiv == nNoscript) = false := by decide
  unfold escapeDecision
  simp only [h1, h2, Bool.false_eq_true, if_false]

/-- **the serializer side**: `serialize(…, ChildrenOnly(Some(div)))` of a `div` holding an ordinary
forest writes the UTF-8 encoding of `renderF` — code as it is (all three serializer fixes), every
option set -/
theorem serialize_ordinary (o : Opts) (f : Forest) (hok : okForest f = true) :
    serialize Cfg.current (.childrenOnly (some (serName nDiv))) o (serRoot f) = .ok (utf8 (renderF f)) := by
  have h := serialize_eq Cfg.current (.childrenOnly (some (serName nDiv))) o (serRoot f)
  have hv : isVoid (serName nDiv) = false := by decide
  have hr : renderRoot Cfg.current (.childrenOnly (some (serName nDiv))) o (serRoot f) = some (utf8 (renderF f)) := by
    simp only [renderRoot, serRoot, Node.children]
    refine renderForest_utf8 Cfg.current rfl o f _ hok ?_ ?_
    · simp [scopeInfo, hv]
    · have : (scopeInfo Cfg.current (.childrenOnly (some (serName nDiv)))).htmlName = some nDiv := by
        simp [scopeInfo, serName, Cfg.current]
      rw [this]; exact escapeDecision_div o
  rw [hr] at h
  exact h

end H5V.Lemmas.HtmlRT
